// C12: trie synchronisation (trie.Sync driven through core/state.NewStateSync) completes with
// exactly the target nodes.
//
// Every case builds a random target state (account trie + storage tries + codes) with the
// reference trie, optionally pre-populates the local database with consistent sub-tries (and,
// under the path scheme, with stale nodes at target paths / inside extension key spans), and
// then drives the real scheduler with the loop idiom of trie/sync_test.go
// (Missing -> ProcessNode/ProcessCode -> Commit) under a random delivery scheduler with
// duplicates, unrequested and undecodable deliveries, commits at random points and simulated
// restarts (a fresh Sync over the same database).
//
// Monitors: every request is a node/code of the target that was not present when the
// scheduler was created and is handed out once; honest deliveries are accepted; duplicates are
// answered ErrAlreadyProcessed/ErrNotRequested; undecodable blobs are refused; after every
// Commit the database is child-closed (a stored target node has all its children, storage
// root and code stored); no deadlock (pending requests but nothing to fetch); at the end the
// database holds every target node and code, nothing outside the target was written, stale
// path-scheme nodes are overwritten resp. deleted.
//
// Not decided here: rejection of *well-formed* nodes whose hash does not match the request.
// trie.Sync.ProcessNode stores what it is given; the comparison lives in its caller
// snap.Syncer.OnTrieNodes, which is exercised by the C47 harness.
package main

import (
	"bytes"
	"errors"
	"fmt"
	"math/rand"
	"os"
	"sort"
	"strconv"
	"sync"

	"github.com/ethereum/go-ethereum/common"
	"github.com/ethereum/go-ethereum/core/rawdb"
	"github.com/ethereum/go-ethereum/core/state"
	"github.com/ethereum/go-ethereum/ethdb"
	"github.com/ethereum/go-ethereum/trie"

	"verif/lib/flatstate"
	"verif/lib/refmpt"
	"verif/lib/refrlp"
	"verif/lib/vrt"
)

func main() { vrt.Main("C12", run) }

// tnode is one hashed node of the target, addressed by its composite path (account-trie
// nibble path, or 64 account-hash nibbles followed by the storage-trie path).
type tnode struct {
	path     string
	hash     string
	blob     []byte
	children []string // composite paths of the hashed nodes directly below (incl. storage roots of account leaves)
	codes    []string // code hashes referenced by account leaves held in this node
	extKey   []byte   // key nibbles if this is an extension node with a hashed child
}

type target struct {
	b     *flatstate.Built
	nodes map[string]*tnode
	codes map[string][]byte
	order []string // composite paths, sorted
}

func nearestAncestor(set map[string][]byte, p string) (string, bool) {
	for l := len(p) - 1; l >= 0; l-- {
		if _, ok := set[p[:l]]; ok {
			return p[:l], true
		}
	}
	return "", false
}

func buildTarget(b *flatstate.Built) *target {
	t := &target{b: b, nodes: map[string]*tnode{}, codes: b.Codes}
	add := func(prefix string, set map[string][]byte) {
		for p, blob := range set {
			n := &tnode{path: prefix + p, hash: string(refmpt.Keccak(blob)), blob: blob}
			if it, err := refrlp.Decode(blob); err == nil && it.IsList && len(it.List) == 2 {
				if nib, term, ok := refmpt.UnHP(it.List[0].Str); ok && !term && !it.List[1].IsList && len(it.List[1].Str) == 32 {
					n.extKey = nib
				}
			}
			t.nodes[n.path] = n
		}
		for p := range set {
			if p == "" {
				continue
			}
			if par, ok := nearestAncestor(set, p); ok {
				t.nodes[prefix+par].children = append(t.nodes[prefix+par].children, prefix+p)
			}
		}
	}
	add("", b.Accounts.Nodes)
	for h, a := range b.State.Accounts {
		nib := string(refmpt.KeyToNibbles([]byte(h)))
		leaf, ok := nearestAncestor(b.Accounts.Nodes, nib)
		if !ok {
			panic("account without leaf node")
		}
		if st := b.Storage[h]; len(st.Nodes) > 0 {
			add(nib, st.Nodes)
			t.nodes[leaf].children = append(t.nodes[leaf].children, nib)
		}
		if len(a.Code) > 0 {
			t.nodes[leaf].codes = append(t.nodes[leaf].codes, string(a.CodeHash()))
		}
	}
	for p, n := range t.nodes {
		sort.Strings(n.children)
		sort.Strings(n.codes)
		t.order = append(t.order, p)
	}
	sort.Strings(t.order)
	return t
}

// database keys, assembled from the schema's prefix letters (not through rawdb)
func nodeKey(scheme, path, hash string) string {
	if scheme == rawdb.HashScheme {
		return hash
	}
	if len(path) < 64 {
		return "A" + path
	}
	return "O" + string(refmpt.NibblesToKey([]byte(path[:64]))) + path[64:]
}
func codeKey(hash string) string { return "c" + hash }

type item struct {
	path   string // composite path ("" is the root) for nodes
	code   string // code hash for codes
	isCode bool
}

type caseCfg struct {
	Scheme    string
	Accounts  int
	MaxSlots  int
	Cluster   float64
	Sched     string // fifo lifo random deep shallow
	Batch     string // one | some | all
	Max       int    // Missing(max)
	Prepop    float64
	PrepopAll bool
	Stale     bool
	Dups      bool
	Bad       bool
	Restarts  int
	CommitP   float64
	Leaf      bool
}

func pickCfg(rng *rand.Rand, i int) caseCfg {
	c := caseCfg{Scheme: rawdb.HashScheme}
	if i%2 == 1 {
		c.Scheme = rawdb.PathScheme
	}
	switch x := rng.Intn(100); {
	case x < 10:
		c.Accounts = 1
	case x < 45:
		c.Accounts = 2 + rng.Intn(12)
	case x < 85:
		c.Accounts = 14 + rng.Intn(50)
	case x < 97:
		c.Accounts = 64 + rng.Intn(100)
	default:
		c.Accounts = 250 + rng.Intn(150)
	}
	c.MaxSlots = []int{0, 3, 12, 50}[rng.Intn(4)]
	if c.Accounts > 200 {
		c.MaxSlots = []int{0, 3, 12}[rng.Intn(3)]
	}
	c.Cluster = []float64{0, 0.4, 0.85}[rng.Intn(3)]
	c.Sched = []string{"fifo", "lifo", "random", "deep", "shallow"}[rng.Intn(5)]
	c.Batch = []string{"one", "some", "all"}[rng.Intn(3)]
	c.Max = []int{1, 7, 0, 0, 50}[rng.Intn(5)]
	if c.Accounts > 100 && c.Max == 1 && c.Batch == "one" {
		c.Max = 7
	}
	switch x := rng.Intn(10); {
	case x < 3:
		c.Prepop = 0
	case x < 9:
		c.Prepop = 0.05 + 0.55*rng.Float64()
	default:
		c.PrepopAll = true
	}
	c.Stale = c.Scheme == rawdb.PathScheme && rng.Intn(2) == 0
	c.Dups = rng.Intn(2) == 0
	c.Bad = rng.Intn(3) == 0
	c.Restarts = []int{0, 0, 1, 2}[rng.Intn(4)]
	c.CommitP = []float64{0, 0.1, 0.5, 1}[rng.Intn(4)]
	c.Leaf = rng.Intn(2) == 0
	return c
}

type syncCase struct {
	r   *vrt.Run
	cfg caseCfg
	t   *target
	db  ethdb.Database
	w   map[string]any

	prepop    map[string]bool   // composite paths of pre-populated target nodes
	staleAt   map[string][]byte // db key -> stale blob at a target path
	interior  map[string]string // db key (inside an extension's key span) -> composite path of the extension
	junk      map[string][]byte // db key -> unrelated junk
	processed map[string]bool   // composite paths ever accepted by ProcessNode

	leafMu  sync.Mutex
	leaves  int
	badLeaf string
}

func (c *syncCase) violation(fp, msg string) {
	c.r.Violation(fp, c.cfg.Scheme+": "+msg, c.w)
}

func (c *syncCase) put(k string, v []byte) { c.db.Put([]byte(k), v) }

// writeSubtree stores the node at path with everything below it (nodes, storage tries, codes).
func (c *syncCase) writeSubtree(p string) {
	if c.prepop[p] {
		return
	}
	n := c.t.nodes[p]
	c.prepop[p] = true
	c.put(nodeKey(c.cfg.Scheme, p, n.hash), n.blob)
	for _, ch := range n.children {
		c.writeSubtree(ch)
	}
	for _, h := range n.codes {
		c.put(codeKey(h), c.t.codes[h])
	}
}

func (c *syncCase) underPrepop(p string) bool {
	for l := len(p); l >= 0; l-- {
		if c.prepop[p[:l]] {
			return true
		}
	}
	// a storage trie below a pre-populated account-trie node is pre-populated as a whole, so
	// checking prefixes of the composite path only misses the account-trie ancestors when the
	// path is a storage path; writeSubtree marks those storage nodes itself.
	return false
}

func (c *syncCase) prepopulate(rng *rand.Rand) {
	c.prepop, c.staleAt, c.interior, c.junk = map[string]bool{}, map[string][]byte{}, map[string]string{}, map[string][]byte{}
	t := c.t
	if len(t.order) == 0 {
		return
	}
	if c.cfg.PrepopAll {
		c.writeSubtree("")
	} else if c.cfg.Prepop > 0 {
		want := int(c.cfg.Prepop * float64(len(t.order)))
		for tries := 0; len(c.prepop) < want && tries < 4*len(t.order); tries++ {
			p := t.order[rng.Intn(len(t.order))]
			if p == "" {
				continue
			}
			c.writeSubtree(p)
		}
		// sometimes only codes
		for h, code := range t.codes {
			if rng.Intn(6) == 0 {
				c.put(codeKey(h), code)
			}
		}
	}
	if !c.cfg.Stale {
		return
	}
	// path scheme: stale nodes. (1) at target paths outside the pre-populated sub-tries,
	// (2) inside the key span of extension nodes that will be fetched, (3) unrelated junk
	// below leaves.
	randBlob := func() []byte {
		if rng.Intn(2) == 0 {
			return t.nodes[t.order[rng.Intn(len(t.order))]].blob
		}
		b := make([]byte, 33+rng.Intn(60))
		rng.Read(b)
		return b
	}
	for _, p := range t.order {
		n := t.nodes[p]
		if c.underPrepop(p) {
			continue
		}
		if rng.Intn(4) == 0 {
			b := randBlob()
			if bytes.Equal(b, n.blob) {
				continue
			}
			k := nodeKey(c.cfg.Scheme, p, n.hash)
			c.staleAt[k] = b
			c.put(k, b)
		}
		if len(n.extKey) >= 2 && rng.Intn(2) == 0 {
			i := 1 + rng.Intn(len(n.extKey)-1)
			ip := p + string(n.extKey[:i])
			if len(p) < 64 && len(ip) >= 64 {
				continue
			}
			k := nodeKey(c.cfg.Scheme, ip, "")
			c.interior[k] = p
			c.put(k, randBlob())
		}
	}
	// junk right below some leaf-carrying paths (never visited by the scheduler)
	for i := 0; i < 3; i++ {
		p := t.order[rng.Intn(len(t.order))]
		if len(t.nodes[p].children) > 0 || len(t.nodes[p].extKey) > 0 || len(p) == 63 || len(p) >= 127 {
			continue
		}
		jp := p + string([]byte{byte(rng.Intn(16))})
		if _, ok := t.nodes[jp]; ok {
			continue
		}
		// only below pure leaf nodes: decode and require a 2-item terminator node
		it, err := refrlp.Decode(t.nodes[p].blob)
		if err != nil || len(it.List) != 2 {
			continue
		}
		if _, term, ok := refmpt.UnHP(it.List[0].Str); !ok || !term {
			continue
		}
		k := nodeKey(c.cfg.Scheme, jp, "")
		if _, dup := c.interior[k]; dup {
			continue
		}
		c.junk[k] = randBlob()
		c.put(k, c.junk[k])
	}
}

func dump(db ethdb.Iteratee) map[string][]byte {
	m := map[string][]byte{}
	it := db.NewIterator(nil, nil)
	defer it.Release()
	for it.Next() {
		m[string(it.Key())] = common.CopyBytes(it.Value())
	}
	return m
}

// has reports whether the target node at composite path p is stored (with the right content).
func (c *syncCase) has(snapshot map[string][]byte, p string) bool {
	n := c.t.nodes[p]
	v, ok := snapshot[nodeKey(c.cfg.Scheme, p, n.hash)]
	return ok && bytes.Equal(v, n.blob)
}

// closed checks child-closure of the stored part of the target.
func (c *syncCase) closed(snapshot map[string][]byte, when string) {
	bad := 0
	for _, p := range c.t.order {
		if !c.has(snapshot, p) {
			continue
		}
		n := c.t.nodes[p]
		for _, ch := range n.children {
			if !c.has(snapshot, ch) {
				if bad++; bad <= 2 {
					c.violation("not-child-closed", fmt.Sprintf("%s: node at path %x (hash %x) is stored but its child at %x is not", when, p, n.hash, ch))
				}
			}
		}
		for _, h := range n.codes {
			if _, ok := snapshot[codeKey(h)]; !ok {
				if bad++; bad <= 2 {
					c.violation("not-child-closed:code", fmt.Sprintf("%s: account node at path %x is stored but code %x is not", when, p, h))
				}
			}
		}
	}
	c.r.Count("closure_checks", 1)
}

func (c *syncCase) onLeaf(keys [][]byte, leaf []byte) error {
	c.leafMu.Lock()
	defer c.leafMu.Unlock()
	c.leaves++
	switch len(keys) {
	case 1:
		if want, ok := c.t.b.Full[string(keys[0])]; !ok || !bytes.Equal(want, leaf) {
			c.badLeaf = fmt.Sprintf("account leaf %x = %x not in target", keys[0], leaf)
		}
	case 2:
		a := c.t.b.State.Accounts[string(keys[0])]
		if a == nil || !bytes.Equal(flatstate.SlotRLP(a.Slots[string(keys[1])]), leaf) || a.Slots[string(keys[1])] == nil {
			c.badLeaf = fmt.Sprintf("storage leaf %x/%x = %x not in target", keys[0], keys[1], leaf)
		}
	default:
		c.badLeaf = fmt.Sprintf("leaf callback with %d keys", len(keys))
	}
	return nil
}

func (c *syncCase) newSync() *trie.Sync {
	var cb func(keys [][]byte, leaf []byte) error
	if c.cfg.Leaf {
		cb = c.onLeaf
	}
	return state.NewStateSync(common.BytesToHash(c.t.b.Root), c.db, cb, c.cfg.Scheme)
}

func runCase(r *vrt.Run, idx int) {
	rng := r.Rand("sync", idx)
	cfg := pickCfg(rng, idx)
	if r.Race() && cfg.Accounts > 120 {
		cfg.Accounts = 60 + cfg.Accounts%60
	}
	r.Case("sync %d cfg=%+v", idx, cfg)
	st := flatstate.Gen(rng, flatstate.GenOpts{Accounts: cfg.Accounts, MaxSlots: cfg.MaxSlots, StorageP: 0.5, CodeP: 0.4, ShareCodeP: 0.4,
		ShareStorP: 0.3, ClusterP: cfg.Cluster, SmallVals: rng.Intn(2) == 0, MaxAcctShared: 61})
	t := buildTarget(st.Build())
	c := &syncCase{r: r, cfg: cfg, t: t, db: rawdb.NewMemoryDatabase(), processed: map[string]bool{},
		w: map[string]any{"idx": idx, "cfg": cfg, "root": vrt.Hex(t.b.Root), "nodes": len(t.order), "codes": len(t.codes)}}
	defer c.db.Close()
	c.prepopulate(rng)
	initial := dump(c.db)
	total := len(t.order) + len(t.codes)

	var (
		sy                                *trie.Sync
		presentAt                         map[string][]byte // database content when the current scheduler was created
		handed                            map[string]bool   // requests handed out by the current scheduler
		outstanding                       []item
		delivered                         []item // honestly delivered to the current scheduler
		restarts                          int
		nDup, nBad, nUnreq, nCommit, nReq int
		failed                            bool
	)
	start := func() bool {
		presentAt = dump(c.db)
		handed, outstanding, delivered = map[string]bool{}, nil, nil
		return !r.Guard("new-sync", c.w, func() { sy = c.newSync() })
	}
	if !start() {
		return
	}
	commit := func(when string) {
		batch := c.db.NewBatch()
		if err := sy.Commit(batch); err != nil {
			c.violation("commit-error", fmt.Sprintf("Commit failed: %v", err))
			failed = true
			return
		}
		batch.Write()
		nCommit++
		// closure check on every commit while they are few, sampled afterwards (cost control)
		if nCommit <= 25 || when == "final commit" || rng.Intn(nCommit/8) == 0 {
			c.closed(dump(c.db), when)
		}
	}
	blobOf := func(it item) []byte {
		if it.isCode {
			return t.codes[it.code]
		}
		return t.nodes[it.path].blob
	}
	deliver := func(it item, data []byte) error {
		if it.isCode {
			return sy.ProcessCode(trie.CodeSyncResult{Hash: common.BytesToHash([]byte(it.code)), Data: data})
		}
		return sy.ProcessNode(trie.NodeSyncResult{Path: it.path, Data: data})
	}
	bound := 3*total*(cfg.Restarts+1) + 10
	rounds := 0
	panicked := r.Guard("sync-loop", c.w, func() {
		for ; ; rounds++ {
			if rounds > bound {
				c.violation("no-progress-bound", fmt.Sprintf("Pending()=%d after %d rounds (bound %d) with at least one honest delivery per round", sy.Pending(), rounds, bound))
				failed = true
				return
			}
			paths, hashes, codes := sy.Missing(cfg.Max)
			if len(paths) != len(hashes) {
				c.violation("missing-shape", fmt.Sprintf("Missing returned %d paths and %d hashes", len(paths), len(hashes)))
				failed = true
				return
			}
			for i, p := range paths {
				nReq++
				n, ok := t.nodes[p]
				switch {
				case !ok:
					c.violation("request-outside-target:path", fmt.Sprintf("Missing returned path %x (hash %x) which is no node of the target", p, hashes[i]))
					failed = true
					return
				case n.hash != string(hashes[i][:]):
					if os.Getenv("VERIF_C12_DEBUG") != "" {
						for q, m := range t.nodes {
							if m.hash == string(hashes[i][:]) {
								fmt.Printf("DEBUG requested hash is target node at path %x\n", q)
							}
						}
						for h2, r2 := range t.b.Roots {
							if string(r2) == string(hashes[i][:]) {
								fmt.Printf("DEBUG requested hash is storage root of account %x\n", h2)
							}
						}
						if len(p) == 64 {
							h := string(refmpt.NibblesToKey([]byte(p)))
							fmt.Printf("DEBUG account %x full=%x root=%x slots=%d\n", h, t.b.Full[h], t.b.Roots[h], len(t.b.State.Accounts[h].Slots))
							for q := range t.nodes {
								if len(q) < 64 && len(q) > 61 {
									fmt.Printf("DEBUG deep account node %x\n", q)
								}
							}
						}
					}
					c.violation("request-outside-target:hash", fmt.Sprintf("Missing returned hash %x for path %x, target has %x", hashes[i], p, n.hash))
					failed = true
					return
				case handed["n"+p]:
					c.violation("request-twice", fmt.Sprintf("path %x handed out twice by the same scheduler", p))
				case c.has(presentAt, p):
					c.violation("request-present-node", fmt.Sprintf("path %x (hash %x) requested although it was stored when the scheduler was created", p, n.hash))
				}
				handed["n"+p] = true
				outstanding = append(outstanding, item{path: p})
			}
			for _, h := range codes {
				nReq++
				hs := string(h[:])
				if _, ok := t.codes[hs]; !ok {
					c.violation("request-outside-target:code", fmt.Sprintf("Missing returned code hash %x which no target account references", h))
					failed = true
					return
				}
				if handed["c"+hs] {
					c.violation("request-twice:code", fmt.Sprintf("code %x handed out twice by the same scheduler", h))
				}
				if _, ok := presentAt[codeKey(hs)]; ok {
					c.violation("request-present-code", fmt.Sprintf("code %x requested although it was stored when the scheduler was created", h))
				}
				handed["c"+hs] = true
				outstanding = append(outstanding, item{code: hs, isCode: true})
			}
			if len(outstanding) == 0 {
				if p := sy.Pending(); p != 0 {
					c.violation("stuck", fmt.Sprintf("Pending()=%d but Missing returns nothing and every handed-out request was answered", p))
					failed = true
				}
				return
			}
			// choose what to deliver this round
			k := len(outstanding)
			switch cfg.Batch {
			case "one":
				k = 1
			case "some":
				k = 1 + rng.Intn(len(outstanding))
			}
			switch cfg.Sched {
			case "lifo":
				for i, j := 0, len(outstanding)-1; i < j; i, j = i+1, j-1 {
					outstanding[i], outstanding[j] = outstanding[j], outstanding[i]
				}
			case "random":
				rng.Shuffle(len(outstanding), func(i, j int) { outstanding[i], outstanding[j] = outstanding[j], outstanding[i] })
			case "deep":
				sort.SliceStable(outstanding, func(i, j int) bool { return len(outstanding[i].path) > len(outstanding[j].path) })
			case "shallow":
				sort.SliceStable(outstanding, func(i, j int) bool { return len(outstanding[i].path) < len(outstanding[j].path) })
			}
			now := outstanding[:k]
			rest := append([]item{}, outstanding[k:]...)
			if cfg.Sched == "lifo" { // keep arrival order of the remainder
				for i, j := 0, len(rest)-1; i < j; i, j = i+1, j-1 {
					rest[i], rest[j] = rest[j], rest[i]
				}
			}
			for _, it := range now {
				// undecodable delivery first: must be refused and must not consume the request
				if cfg.Bad && rng.Intn(4) == 0 && !it.isCode {
					var bad []byte
					good := blobOf(it)
					switch rng.Intn(3) {
					case 0:
						bad = good[:len(good)-1]
					case 1:
						bad = []byte{}
					default:
						bad = []byte{0xc3, 0x80, 0x80, 0x80}
					}
					if err := deliver(it, bad); err == nil {
						c.violation("undecodable-accepted", fmt.Sprintf("ProcessNode accepted the undecodable blob %x for path %x", bad, it.path))
						failed = true
						return
					}
					nBad++
				}
				// never scheduled: a target node whose parent was not delivered yet, or a path outside the target
				if cfg.Bad && rng.Intn(6) == 0 {
					p := t.order[rng.Intn(len(t.order))] + "\x03\x07"
					if _, ok := t.nodes[p]; !ok {
						if err := sy.ProcessNode(trie.NodeSyncResult{Path: p, Data: blobOf(item{path: t.order[0]})}); !errors.Is(err, trie.ErrNotRequested) {
							c.violation("unrequested-accepted", fmt.Sprintf("ProcessNode for the never requested path %x returned %v, want ErrNotRequested", p, err))
						}
						nUnreq++
					}
				}
				if err := deliver(it, blobOf(it)); err != nil {
					c.violation("honest-delivery-refused", fmt.Sprintf("delivery of the true data for %s returned %v", it.describe(), err))
					failed = true
					return
				}
				if !it.isCode {
					c.processed[it.path] = true
				}
				delivered = append(delivered, it)
				if cfg.Dups && rng.Intn(3) == 0 {
					d := delivered[rng.Intn(len(delivered))]
					err := deliver(d, blobOf(d))
					if !errors.Is(err, trie.ErrAlreadyProcessed) && !errors.Is(err, trie.ErrNotRequested) {
						c.violation("duplicate-answer", fmt.Sprintf("second delivery of %s returned %v, want ErrAlreadyProcessed or ErrNotRequested", d.describe(), err))
					}
					nDup++
				}
			}
			outstanding = rest
			if rng.Float64() < cfg.CommitP {
				commit("after commit")
				if failed {
					return
				}
			}
			restartNow := rng.Intn(1+total/3) == 0
			if cfg.Batch == "all" {
				restartNow = rng.Intn(6) == 0
			}
			if restarts < cfg.Restarts && sy.Pending() > 0 && restartNow {
				// simulated restart: the scheduler (and its uncommitted membatch) is dropped
				restarts++
				if !start() {
					failed = true
					return
				}
			}
		}
	})
	if panicked || failed {
		r.Eval("")
		return
	}
	commit("final commit")
	if failed {
		return
	}
	if c.badLeaf != "" {
		c.violation("leaf-callback", c.badLeaf)
	}
	// final database content
	final := dump(c.db)
	expectKeys := map[string][]byte{}
	missing := 0
	for _, p := range t.order {
		n := t.nodes[p]
		k := nodeKey(cfg.Scheme, p, n.hash)
		expectKeys[k] = n.blob
		if v, ok := final[k]; !ok || !bytes.Equal(v, n.blob) {
			if missing++; missing <= 2 {
				fp := "final-missing-node"
				if _, was := c.staleAt[k]; was {
					fp = "final-stale-node-kept"
				}
				c.violation(fp, fmt.Sprintf("after completion key %x holds %x, want target node %x (path %x)", k, v, n.blob, p))
			}
		}
	}
	for h, code := range t.codes {
		k := codeKey(h)
		expectKeys[k] = code
		if v, ok := final[k]; !ok || !bytes.Equal(v, code) {
			if missing++; missing <= 2 {
				c.violation("final-missing-code", fmt.Sprintf("after completion code %x is %x, want %x", h, v, code))
			}
		}
	}
	extra := 0
	for k, v := range final {
		if want, ok := expectKeys[k]; ok && bytes.Equal(want, v) {
			continue
		}
		if old, was := initial[k]; was && bytes.Equal(old, v) {
			continue // untouched pre-existing entry (junk, interior stale: judged below)
		}
		if extra++; extra <= 2 {
			c.violation("write-outside-target", fmt.Sprintf("key %x = %x was written by the sync but is not part of the target", k, v))
		}
	}
	for k, ext := range c.interior {
		if _, still := final[k]; still && !c.prepop[ext] {
			c.violation("dangling-interior-kept", fmt.Sprintf("stale node at key %x inside the key span of the fetched extension node at path %x was not deleted", k, ext))
		}
		r.Count("stale_interior_nodes", 1)
	}
	for k := range c.junk {
		if _, still := final[k]; still {
			r.Count("junk_retained", 1)
		} else {
			r.Count("junk_deleted", 1)
		}
	}
	// evidence
	r.Count("syncs_"+cfg.Scheme, 1)
	r.Count("requests", nReq)
	r.Count("target_nodes", len(t.order))
	r.Count("target_codes", len(t.codes))
	r.Count("prepopulated_nodes", len(c.prepop))
	r.Count("stale_at_target_paths", len(c.staleAt))
	r.Count("duplicates_delivered", nDup)
	r.Count("undecodable_delivered", nBad)
	r.Count("unrequested_delivered", nUnreq)
	r.Count("commits", nCommit)
	r.Count("restarts", restarts)
	r.Count("rounds", rounds)
	r.Count("leaf_callbacks", c.leaves)
	if len(c.prepop) > 0 && nReq > 0 {
		r.Count("partial_syncs", 1)
	}
	if nReq == 0 {
		r.Count("nothing_to_fetch", 1)
	}
	pc := "pre0"
	switch f := float64(len(c.prepop)) / float64(max(1, len(t.order))); {
	case f >= 1:
		pc = "preall"
	case f > 0.3:
		pc = "pre+"
	case f > 0:
		pc = "pre-"
	}
	sz := "s"
	if len(t.order) > 40 {
		sz = "m"
	}
	if len(t.order) > 400 {
		sz = "l"
	}
	sig := fmt.Sprintf("%s|%s|%s|max%d|%s|stale%v|dup%v|bad%v|rs%d|commit%v|%s", cfg.Scheme, cfg.Sched, cfg.Batch, cfg.Max, pc, len(c.staleAt)+len(c.interior) > 0, nDup > 0, nBad+nUnreq > 0, restarts, nCommit > 1, sz)
	if nReq == 0 {
		sig = ""
	}
	r.Eval(sig)
	if r.WantSample() && idx%9 == 4 {
		r.Sample(map[string]any{"cfg": cfg, "root": vrt.Hex(t.b.Root), "target_nodes": len(t.order), "codes": len(t.codes), "prepopulated": len(c.prepop),
			"stale": len(c.staleAt), "interior": len(c.interior), "requests": nReq, "rounds": rounds, "commits": nCommit, "restarts": restarts})
	}
}

func (it item) describe() string {
	if it.isCode {
		return fmt.Sprintf("code %x", it.code)
	}
	return fmt.Sprintf("node at path %x", it.path)
}

func run(r *vrt.Run) {
	r.Rule("case = random target state (1..400 accounts, 0..50 slots, clustered hashes, shared codes and storage) x scheme x delivery scheduler (fifo/lifo/random/deepest/shallowest first; one/some/all per round; Missing(max) in {1,7,50,unbounded}) x pre-population (none / 5-60% consistent sub-tries / everything; path scheme also stale nodes at target paths and inside extension key spans) x duplicates x undecodable/unrequested deliveries x commit frequency x simulated restarts. Non-trivial = at least one request; signature = (scheme, scheduler, batch, max, pre-population class, stale present, duplicates, bad deliveries, restarts, several commits, size class)")
	n := r.N(400, 20000)
	if r.Race() {
		n /= 4
	}
	if one := os.Getenv("VERIF_C12_ONLY"); one != "" { // replay of a single case
		i, _ := strconv.Atoi(one)
		runCase(r, i)
		return
	}
	vrt.Par(n, 0, func(i int) { runCase(r, i) })
	need := func(name string, min int64) { // coverage obligations, scaled down for the (smaller) race workload
		if r.Race() {
			min = max(1, min/4)
		}
		r.Require(name, min)
	}
	need("syncs_hash", 20)
	need("syncs_path", 20)
	need("partial_syncs", 20)
	need("stale_at_target_paths", 10)
	need("stale_interior_nodes", 3)
	need("duplicates_delivered", 50)
	need("undecodable_delivered", 20)
	need("restarts", 5)
	need("closure_checks", 100)
	r.Assume("reference trie refmpt / flatstate (target node sets, child relation derived from path prefixes)")
	r.Assume("hash-mismatch rejection of well-formed nodes is the caller's duty (snap.Syncer.OnTrieNodes) and is decided by C47, not here")
}
