//go:build verif

// Standalone reproduction of the C19 known findings: blockWriter.scanSection (used by
// blockWriter.pop and by the recovery trimming in newBlockWriter) does not validate what it
// decodes from the block bytes. Build and run:
//
//	. /verif/env.sh; cd /verif/h; $GO run -tags verif ./p/c19/repro
//
// Every input runs in a child process with RLIMIT_CPU = 2 s: a call that does not terminate
// is killed by the kernel (SIGXCPU/SIGKILL) after 2 CPU-seconds, independent of machine load.
package main

import (
	"encoding/hex"
	"fmt"
	"os"
	"os/exec"
	"strconv"
	"strings"
	"syscall"

	"github.com/ethereum/go-ethereum/triedb/pathdb"
)

type input struct {
	name    string
	block   string // corrupted block bytes (hex)
	orig    string // the block as written by blockWriter.finish
	desc    string // intact descriptor (hex)
	bitmap  int
	limit   uint64 // limit passed to newBlockWriter
	pop     uint64 // if non-zero: pop(pop) after opening with limit == desc.max
	expects string
}

var inputs = []input{
	{"trim-hang", "0181000001", "0101000001", "0000000000000002000200000000", 0, 1, 0, "error; actual: does not terminate"},
	{"pop-hang", "0181000001", "0101000001", "0000000000000002000200000000", 0, 2, 2, "error; actual: does not terminate"},
	{"trim-panic-scanSection", "0412020c0302070803020d0d000001", "0402020c0302070803020d0d000001", "000000000000000a0003000000004318", 2, 7, 0, "error; actual: panic slice bounds out of range"},
	{"pop-panic-scanSection", "0412020c0302070803020d0d000001", "0402020c0302070803020d0d000001", "000000000000000a0003000000004318", 2, 10, 10, "error; actual: panic slice bounds out of range"},
	{"trim-panic-setBit", "0402120c0302070803020d0d000001", "0402020c0302070803020d0d000001", "000000000000000a0003000000004318", 2, 7, 0, "error; actual: panic index out of range"},
	{"pop-panic-setBit", "0402120c0302070803020d0d000001", "0402020c0302070803020d0d000001", "000000000000000a0003000000004318", 2, 10, 10, "error; actual: panic index out of range"},
}

func child(i int) {
	syscall.Setrlimit(syscall.RLIMIT_CPU, &syscall.Rlimit{Cur: 2, Max: 3})
	in := inputs[i]
	blob, _ := hex.DecodeString(in.block)
	desc, _ := hex.DecodeString(in.desc)
	bw, err := pathdb.VerifNewBlockWriter(blob, desc, 0, in.bitmap, in.limit)
	if err != nil {
		fmt.Println("newBlockWriter returned error:", err)
		return
	}
	if in.pop != 0 {
		if err := bw.Pop(in.pop); err != nil {
			fmt.Println("pop returned error:", err)
			return
		}
	}
	fmt.Println("returned without error")
}

func main() {
	if len(os.Args) > 1 {
		i, _ := strconv.Atoi(os.Args[1])
		child(i)
		return
	}
	self, _ := os.Executable()
	for i, in := range inputs {
		// sanity: the uncorrupted block is accepted by the same calls
		ob, _ := hex.DecodeString(in.orig)
		od, _ := hex.DecodeString(in.desc)
		_, oerr := pathdb.VerifNewBlockWriter(ob, od, 0, in.bitmap, in.limit)
		out, err := exec.Command(self, strconv.Itoa(i)).CombinedOutput()
		res := "exit 0"
		if ee, ok := err.(*exec.ExitError); ok {
			ws := ee.Sys().(syscall.WaitStatus)
			if ws.Signaled() {
				res = "killed by signal: " + ws.Signal().String() + " (RLIMIT_CPU 2 s)"
			} else {
				res = fmt.Sprintf("exit %d", ws.ExitStatus())
			}
		}
		first := ""
		for _, l := range strings.Split(string(out), "\n") {
			if strings.HasPrefix(l, "panic:") || strings.Contains(l, "returned") {
				first = l
				break
			}
		}
		op := fmt.Sprintf("newBlockWriter(block, desc, limit=%d)", in.limit)
		if in.pop != 0 {
			op += fmt.Sprintf(" then pop(%d)", in.pop)
		}
		fmt.Printf("%-24s bitmap=%d block=%s (written: %s) desc=%s\n    %s\n    uncorrupted block: err=%v\n    expected: %s\n    observed: %s | %s\n", in.name, in.bitmap, in.block, in.orig, in.desc, op, oerr, in.expects, res, first)
	}
}
