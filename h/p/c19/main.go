// C19: the pathdb history index behaves as a sorted set of state ids.
//
// The real indexWriter / indexDeleter / indexReader / blockWriter / blockReader / iterators /
// index pruner are driven through the VerifIndex facade (triedb/pathdb/verif_index_on.go, build
// tag verif) and compared after every session -- i.e. after every reload from the written
// bytes -- with a sorted-slice model carrying per-element extension lists.
package main

import (
	"fmt"
	"math"
	"math/rand"
	"sort"
	"time"

	"github.com/ethereum/go-ethereum/common"
	"github.com/ethereum/go-ethereum/core/rawdb"
	"github.com/ethereum/go-ethereum/ethdb"
	"github.com/ethereum/go-ethereum/triedb/pathdb"

	"verif/lib/vrt"
)

func main() { vrt.Main("C19", run) }

// ---- model (refsortedset with per-element extension lists) ----

type elem struct {
	ID  uint64
	Ext []uint16
}

type model struct{ els []elem }

// succ returns the index of the least element > q (len if none).
func (m *model) succ(q uint64) int {
	return sort.Search(len(m.els), func(i int) bool { return m.els[i].ID > q })
}
func (m *model) last() uint64 {
	if len(m.els) == 0 {
		return 0
	}
	return m.els[len(m.els)-1].ID
}
func (m *model) truncAbove(limit uint64) { m.els = m.els[:m.succ(limit)] }
func (m *model) ids() []uint64 {
	out := make([]uint64, len(m.els))
	for i, e := range m.els {
		out[i] = e.ID
	}
	return out
}

// matches recomputes the filter relation from parent(n) = (n-1)/16: the extension list
// contains the filter id or a descendant of it.
func matches(f uint16, ext []uint16) bool {
	for _, e := range ext {
		for x := e; ; x = (x - 1) / 16 {
			if x == f {
				return true
			}
			if x == 0 {
				break
			}
		}
	}
	return false
}

// ---- identifiers ----

type identKind struct {
	name   string
	ident  pathdb.VerifIdent
	bitmap int
	maxExt int // largest extension id
}

func identFor(kind int, rng *rand.Rand) identKind {
	var h, s common.Hash
	rng.Read(h[:])
	rng.Read(s[:])
	h[0] |= 1 // non-zero
	nib := func(n int) string {
		b := make([]byte, n)
		for i := range b {
			b[i] = byte(rng.Intn(16))
		}
		return string(b)
	}
	switch kind {
	case 0:
		return identKind{"account", pathdb.VerifAccountIdent(h), 0, 0}
	case 1:
		return identKind{"storage", pathdb.VerifStorageIdent(h, s), 0, 0}
	case 2:
		return identKind{"trienode-acct-l1", pathdb.VerifTrienodeIdent(common.Hash{}, nib(1)), 2, 16}
	case 3:
		return identKind{"trienode-acct-l3", pathdb.VerifTrienodeIdent(common.Hash{}, nib(3)), 34, 272}
	case 4:
		return identKind{"trienode-stor-root", pathdb.VerifTrienodeIdent(h, ""), 34, 272}
	default:
		return identKind{"trienode-stor-l6", pathdb.VerifTrienodeIdent(h, nib(6)), 34, 272}
	}
}

// ---- generators ----

type gen struct {
	rng     *rand.Rand
	gapProf int
	extProf int
	ik      identKind
}

func (g *gen) nextID(last uint64) uint64 {
	var gap uint64
	switch g.gapProf {
	case 0:
		gap = 1
	case 1:
		gap = 1 + uint64(g.rng.Intn(4))
	case 2:
		gap = 1 + uint64(g.rng.Intn(1000))
	case 3: // mostly small, sometimes beyond 2^32 (varint width changes)
		if g.rng.Intn(10) == 0 {
			gap = 1<<32 + uint64(g.rng.Int63n(1<<33))
		} else {
			gap = 1 + uint64(g.rng.Intn(200))
		}
	default: // every varint width
		gap = 1 + uint64(g.rng.Int63n(1<<uint(1+g.rng.Intn(46))))
	}
	if last > 1<<62 {
		gap = 1
	}
	return last + gap
}

func (g *gen) ext() []uint16 {
	if g.ik.bitmap == 0 {
		return nil
	}
	n := 1 + g.rng.Intn(8)
	if g.extProf == 1 {
		n = 1 + g.rng.Intn(3)
	} else if g.extProf == 2 {
		n = 20 + g.rng.Intn(40) // fills a block quickly
	}
	out := make([]uint16, n)
	for i := range out {
		switch g.rng.Intn(4) {
		case 0: // first level
			out[i] = uint16(g.rng.Intn(min(17, g.ik.maxExt+1)))
		default:
			out[i] = uint16(g.rng.Intn(g.ik.maxExt + 1))
		}
	}
	return out
}

func cloneExt(e []uint16) []uint16 { return append([]uint16(nil), e...) }

// ---- checker ----

type lookup interface {
	ReadGreaterThan(uint64) (uint64, error)
	NewIterator(*uint16) pathdb.HistoryIndexIterator
}

type ctx struct {
	r    *vrt.Run
	rng  *rand.Rand
	ik   identKind
	w    func() map[string]any // witness builder
	lvl  string                // "index" | "block"
	fpos int64                 // filter false positives
	fchk int64                 // filter elements inspected
}

func (c *ctx) viol(fp, msg string) {
	c.r.Violation(c.lvl+":"+fp, msg, c.w())
}

// queries picks query points: around stored elements, around the given hints (block
// maxima), and the extremes.
func (c *ctx) queries(m *model, hints []uint64, n int) []uint64 {
	qs := []uint64{0, 1, math.MaxUint64, math.MaxUint64 - 1}
	add := func(v uint64) {
		qs = append(qs, v)
		if v > 0 {
			qs = append(qs, v-1)
		}
		if v < math.MaxUint64 {
			qs = append(qs, v+1)
		}
	}
	for _, h := range hints {
		add(h)
	}
	if l := len(m.els); l > 0 {
		add(m.els[0].ID)
		add(m.els[l-1].ID)
		for i := 0; i < n; i++ {
			j := c.rng.Intn(l)
			add(m.els[j].ID)
			// restart-section boundaries relative to any block start are unknown to the
			// harness; sample multiples of 256 from both ends
			if k := (j / 256) * 256; k < l {
				add(m.els[k].ID)
			}
		}
		for i := 0; i < n/2; i++ {
			qs = append(qs, uint64(c.rng.Int63n(int64(min(m.last(), 1<<62))+1)))
		}
	}
	return qs
}

// collect drains an iterator with Next; bound is the maximal plausible length.
func collect(it pathdb.HistoryIndexIterator, bound int) (out []uint64, overlong bool) {
	for it.Next() {
		out = append(out, it.ID())
		if len(out) > bound {
			return out, true
		}
	}
	return out, false
}

func (c *ctx) check(lk lookup, m *model, hints []uint64, tag string) {
	r := c.r
	ids := m.ids()
	// 1. plain traversal
	it := lk.NewIterator(nil)
	got, over := collect(it, len(ids)+2)
	if err := it.Error(); err != nil {
		c.viol("iter-error", fmt.Sprintf("%s: traversal error %v", tag, err))
		return
	}
	if over || !equalU64(got, ids) {
		c.viol("iter-content", fmt.Sprintf("%s: traversal yields %s, model %s", tag, brief(got), brief(ids)))
		return
	}
	r.Count("traversals_compared", 1)
	// 2. readGreaterThan
	qs := c.queries(m, hints, 12)
	for _, q := range qs {
		want := uint64(math.MaxUint64)
		if i := m.succ(q); i < len(ids) {
			want = ids[i]
		}
		res, err := lk.ReadGreaterThan(q)
		if err != nil {
			c.viol("rgt-error", fmt.Sprintf("%s: readGreaterThan(%d) error %v", tag, q, err))
			return
		}
		if res != want {
			c.viol("rgt-value", fmt.Sprintf("%s: readGreaterThan(%d)=%d, model successor %d (n=%d)", tag, q, res, want, len(ids)))
			return
		}
	}
	r.Count("lookups_compared", len(qs))
	// 3. SeekGT then Next, re-seek on the same iterator
	it = lk.NewIterator(nil)
	for k := 0; k < 6 && k < len(qs); k++ {
		q := qs[c.rng.Intn(len(qs))]
		i := m.succ(q)
		found := it.SeekGT(q)
		if err := it.Error(); err != nil {
			c.viol("seek-error", fmt.Sprintf("%s: SeekGT(%d) error %v", tag, q, err))
			return
		}
		if found != (i < len(ids)) || (found && it.ID() != ids[i]) {
			var g any = "none"
			if found {
				g = it.ID()
			}
			c.viol("seek-value", fmt.Sprintf("%s: SeekGT(%d) -> %v, model idx %d of %d (%v)", tag, q, g, i, len(ids), at(ids, i)))
			return
		}
		if !found {
			continue
		}
		steps := c.rng.Intn(600)
		for s := 1; s <= steps; s++ {
			ok := it.Next()
			if ok != (i+s < len(ids)) || (ok && it.ID() != ids[i+s]) {
				var g any = "end"
				if ok {
					g = it.ID()
				}
				c.viol("seek-next", fmt.Sprintf("%s: after SeekGT(%d), Next #%d -> %v, model %v", tag, q, s, g, at(ids, i+s)))
				return
			}
			if !ok {
				break
			}
		}
		r.Count("seeks_compared", 1)
	}
	// 4. extension filters
	if c.ik.bitmap == 0 || len(m.els) == 0 {
		return
	}
	pos := make(map[uint64]int, len(ids))
	for i, id := range ids {
		pos[id] = i
	}
	for k := 0; k < 4; k++ {
		var f uint16
		switch c.rng.Intn(3) {
		case 0: // an id that is present, or one of its ancestors
			e := m.els[c.rng.Intn(len(m.els))].Ext
			f = e[c.rng.Intn(len(e))]
			for up := c.rng.Intn(3); up > 0 && f > 0; up-- {
				f = (f - 1) / 16
			}
		case 1:
			f = uint16(c.rng.Intn(min(17, c.ik.maxExt+1)))
		default:
			f = uint16(c.rng.Intn(c.ik.maxExt + 1))
		}
		fit := lk.NewIterator(&f)
		seq, over := collect(fit, len(ids)+2)
		if err := fit.Error(); err != nil {
			c.viol("filter-error", fmt.Sprintf("%s: filter %d traversal error %v", tag, f, err))
			return
		}
		if over {
			c.viol("filter-overlong", fmt.Sprintf("%s: filter %d traversal longer than content", tag, f))
			return
		}
		// ascending subset of the stored ids ...
		prev := -1
		seen := make(map[int]bool, len(seq))
		for _, id := range seq {
			p, ok := pos[id]
			if !ok || p <= prev {
				c.viol("filter-foreign", fmt.Sprintf("%s: filter %d traversal yields %d (not stored or out of order)", tag, f, id))
				return
			}
			prev = p
			seen[p] = true
			c.fchk++
			if !matches(f, m.els[p].Ext) {
				c.fpos++
			}
		}
		// ... containing every matching element (false negatives refute)
		for p, e := range m.els {
			if matches(f, e.Ext) && !seen[p] {
				c.viol("filter-dropped", fmt.Sprintf("%s: filter %d dropped element %d with extension %v (bitmap %d)", tag, f, e.ID, e.Ext, c.ik.bitmap))
				return
			}
		}
		r.Count("filter_traversals", 1)
		// filtered seek
		q := qs[c.rng.Intn(len(qs))]
		fit = lk.NewIterator(&f)
		found := fit.SeekGT(q)
		if err := fit.Error(); err != nil {
			c.viol("filter-seek-error", fmt.Sprintf("%s: filter %d SeekGT(%d) error %v", tag, f, q, err))
			return
		}
		first := -1
		for p := m.succ(q); p < len(m.els); p++ {
			if matches(f, m.els[p].Ext) {
				first = p
				break
			}
		}
		if found {
			p, ok := pos[fit.ID()]
			if !ok || fit.ID() <= q || (first >= 0 && p > first) {
				c.viol("filter-seek", fmt.Sprintf("%s: filter %d SeekGT(%d) -> %d, first matching %v", tag, f, q, fit.ID(), at(ids, first)))
				return
			}
			if first < 0 || p < first {
				c.fpos++
			}
			c.fchk++
		} else if first >= 0 {
			c.viol("filter-seek-dropped", fmt.Sprintf("%s: filter %d SeekGT(%d) found nothing, model has %d ext %v", tag, f, q, ids[first], m.els[first].Ext))
			return
		}
		r.Count("filter_seeks", 1)
	}
}

// checkBitmap: the descriptor bitmap of a block must cover every non-root extension id of
// the elements it holds (a missing bit would make the index iterator skip the block).
func (c *ctx) checkBitmap(bitmap []byte, els []elem, tag string) bool {
	if c.ik.bitmap == 0 {
		return true
	}
	if len(bitmap) != c.ik.bitmap {
		c.viol("bitmap-size", fmt.Sprintf("%s: bitmap size %d want %d", tag, len(bitmap), c.ik.bitmap))
		return false
	}
	for _, e := range els {
		for _, x := range e.Ext {
			if x == 0 {
				continue
			}
			for y := x; y != 0; y = (y - 1) / 16 {
				ok, err := pathdb.VerifBitmapContains(y, bitmap)
				if err != nil || !ok {
					c.viol("bitmap-miss", fmt.Sprintf("%s: bitmap %x does not cover filter %d for element %d ext %v (err %v)", tag, bitmap, y, e.ID, e.Ext, err))
					return false
				}
			}
		}
	}
	c.r.Count("bitmaps_checked", 1)
	return true
}

func equalU64(a, b []uint64) bool {
	if len(a) != len(b) {
		return false
	}
	for i := range a {
		if a[i] != b[i] {
			return false
		}
	}
	return true
}

func at(ids []uint64, i int) any {
	if i < 0 || i >= len(ids) {
		return "none"
	}
	return ids[i]
}

func brief(a []uint64) string {
	if len(a) <= 12 {
		return fmt.Sprint(a)
	}
	return fmt.Sprintf("[%d %d %d ... %d %d](n=%d)", a[0], a[1], a[2], a[len(a)-2], a[len(a)-1], len(a))
}

// opLog keeps the operation history of a case as the witness (compact).
type opLog struct{ ops []string }

func (l *opLog) add(format string, a ...any) {
	l.ops = append(l.ops, fmt.Sprintf(format, a...))
}
func (l *opLog) tail() []string {
	if len(l.ops) > 400 {
		return l.ops[len(l.ops)-400:]
	}
	return l.ops
}

// ---- index-level case ----

func indexCase(r *vrt.Run, i int) {
	rng := r.Rand("index", i)
	ik := identFor(rng.Intn(6), rng)
	if ik.ident.BitmapSize() != ik.bitmap {
		panic(fmt.Sprintf("harness: ident %s bitmap size %d != %d", ik.name, ik.ident.BitmapSize(), ik.bitmap))
	}
	g := &gen{rng: rng, gapProf: rng.Intn(5), extProf: rng.Intn(3), ik: ik}
	lenProf := 0 // short
	switch x := rng.Intn(10); {
	case x >= 8:
		lenProf = 2
	case x >= 5:
		lenProf = 1
	}
	if lenProf == 2 && ik.bitmap != 0 && g.extProf == 0 {
		g.extProf = 1
	}
	r.Case("index %d ident=%s gap=%d ext=%d len=%d", i, ik.name, g.gapProf, g.extProf, lenProf)
	var (
		db   = rawdb.NewMemoryDatabase()
		m    = &model{}
		log  = &opLog{}
		c    = &ctx{r: r, rng: rng, ik: ik, lvl: "index"}
		long *pathdb.VerifIndexReader // long-lived reader kept across append-only sessions
		// shape flags
		crossRestart, crossBlock, popAcross, pruned, truncated, emptied, refreshed bool
	)
	c.w = func() map[string]any {
		return map[string]any{"case": i, "level": "index", "ident": ik.name, "bitmap": ik.bitmap, "gapProf": g.gapProf, "extProf": g.extProf, "ops_tail": log.tail(), "model_n": len(m.els)}
	}
	sessSize := func() int {
		switch lenProf {
		case 0:
			return 1 + rng.Intn(10)
		case 1:
			return 1 + rng.Intn(400)
		default:
			if ik.bitmap == 0 {
				return 200 + rng.Intn(5000)
			}
			return 50 + rng.Intn(1200)
		}
	}
	descs := func() []pathdb.VerifDesc {
		rd, err := pathdb.VerifNewIndexReader(db, ik.ident, ik.bitmap)
		if err != nil {
			return nil
		}
		return rd.Descs()
	}
	// checkpoint: reload everything from the stored bytes and compare
	checkpoint := func(tag string) bool {
		n0 := r.NumViolations()
		rd, err := pathdb.VerifNewIndexReader(db, ik.ident, ik.bitmap)
		if err != nil {
			c.viol("reader-open", fmt.Sprintf("%s: newIndexReader: %v", tag, err))
			return false
		}
		ds := rd.Descs()
		var hints []uint64
		lo := 0
		for k, d := range ds {
			hints = append(hints, d.Max)
			if d.Entries > 256 {
				crossRestart = true
			}
			// elements of block k: (prev max, d.Max]
			hi := m.succ(d.Max)
			if int(d.Entries) != hi-lo {
				c.viol("desc-entries", fmt.Sprintf("%s: block #%d (id %d) entries=%d max=%d, model holds %d elements up to that max", tag, k, d.ID, d.Entries, d.Max, hi-lo))
				return false
			}
			if hi == lo || m.els[hi-1].ID != d.Max {
				c.viol("desc-max", fmt.Sprintf("%s: block #%d max=%d is not a stored element", tag, k, d.Max))
				return false
			}
			if !c.checkBitmap(d.Bitmap, m.els[lo:hi], tag) {
				return false
			}
			lo = hi
		}
		if lo != len(m.els) {
			c.viol("desc-cover", fmt.Sprintf("%s: descriptors cover %d elements, model %d", tag, lo, len(m.els)))
			return false
		}
		if len(ds) > 1 {
			crossBlock = true
		}
		c.check(rd, m, hints, tag)
		return r.NumViolations() == n0
	}
	write := func(fin func(ethdb.Batch)) bool {
		b := db.NewBatch()
		fin(b)
		if err := b.Write(); err != nil {
			panic(err)
		}
		return true
	}
	steps := 6 + rng.Intn(30)
	for s := 0; s < steps; s++ {
		op := rng.Intn(20)
		tag := fmt.Sprintf("step %d", s)
		switch {
		case op < 10 || len(m.els) == 0: // append session (limit = last: nothing to trim)
			limit := m.last()
			if rng.Intn(4) == 0 {
				limit += uint64(rng.Intn(3)) // limit beyond the last element
			}
			w, err := pathdb.VerifNewIndexWriter(db, ik.ident, limit, ik.bitmap)
			if err != nil {
				c.viol("writer-open", fmt.Sprintf("%s: newIndexWriter(limit=%d): %v", tag, limit, err))
				return
			}
			if w.LastID() != m.last() {
				c.viol("writer-last", fmt.Sprintf("%s: writer lastID %d, model %d", tag, w.LastID(), m.last()))
				return
			}
			n := sessSize()
			first := uint64(0)
			last := max(m.last(), limit)
			for k := 0; k < n; k++ {
				id := g.nextID(last)
				if len(m.els) == 0 && k == 0 && rng.Intn(3) == 0 {
					id = 1 + uint64(rng.Int63n(1<<uint(1+rng.Intn(50))))
				}
				ext := g.ext()
				if err := w.Append(id, cloneExt(ext)); err != nil {
					log.add("append %d %v", id, ext)
					c.viol("append-error", fmt.Sprintf("%s: append(%d) after %d: %v", tag, id, last, err))
					return
				}
				m.els = append(m.els, elem{id, ext})
				last = id
				if k == 0 {
					first = id
				}
			}
			// out-of-order append must be rejected and leave the writer usable
			if rng.Intn(4) == 0 {
				if err := w.Append(last, cloneExt(g.ext())); err == nil {
					c.viol("append-dup-accepted", fmt.Sprintf("%s: append(%d) equal to the last element accepted", tag, last))
					return
				}
				r.Count("rejected_appends", 1)
			}
			log.add("W limit=%d append %d ids %d..%d", limit, n, first, last)
			write(w.Finish)
			r.Count("append_sessions", 1)
			r.Count("appends", n)
			if !checkpoint(tag + " after append") {
				return
			}
			// long-lived reader: refresh after a pure append session
			if long != nil {
				if err := long.Refresh(); err != nil {
					c.viol("refresh-error", fmt.Sprintf("%s: refresh: %v", tag, err))
					return
				}
				n0 := r.NumViolations()
				c.check(long, m, nil, tag+" refreshed reader")
				if r.NumViolations() != n0 {
					return
				}
				refreshed = true
				r.Count("refreshed_reader_checks", 1)
			} else if rd, err := pathdb.VerifNewIndexReader(db, ik.ident, ik.bitmap); err == nil {
				long = rd
				// warm its block-reader cache
				long.ReadGreaterThan(0)
				long.ReadGreaterThan(m.last() - 1)
			}
		case op < 15: // pop session
			long = nil
			limit := m.last()
			d, err := pathdb.VerifNewIndexDeleter(db, ik.ident, limit, ik.bitmap)
			if err != nil {
				c.viol("deleter-open", fmt.Sprintf("%s: newIndexDeleter(limit=%d): %v", tag, limit, err))
				return
			}
			n := sessSize()
			switch rng.Intn(6) {
			case 0:
				n = len(m.els) // down to empty
			case 1:
				n = len(m.els) - 1
			}
			n = max(0, min(n, len(m.els)))
			if rng.Intn(4) == 0 && len(m.els) > 1 {
				// popping an id that is not the last must be rejected
				bad := m.els[len(m.els)-2].ID
				if err := d.Pop(bad); err == nil {
					c.viol("pop-wrong-accepted", fmt.Sprintf("%s: pop(%d) accepted although last is %d", tag, bad, m.last()))
					return
				}
				r.Count("rejected_pops", 1)
			}
			blocks0 := d.Blocks()
			for k := 0; k < n; k++ {
				id := m.last()
				if err := d.Pop(id); err != nil {
					log.add("pop %d", id)
					c.viol("pop-error", fmt.Sprintf("%s: pop(%d) (#%d of session, %d left): %v", tag, id, k, len(m.els), err))
					return
				}
				m.els = m.els[:len(m.els)-1]
				if d.LastID() != m.last() {
					log.add("pop %d", id)
					c.viol("pop-last", fmt.Sprintf("%s: after pop(%d) deleter lastID=%d, model last=%d", tag, id, d.LastID(), m.last()))
					return
				}
			}
			if d.Blocks() < blocks0 {
				popAcross = true
				r.Count("pops_across_block", 1)
			}
			if d.Empty() != (len(m.els) == 0) {
				c.viol("deleter-empty", fmt.Sprintf("%s: deleter.empty()=%v, model n=%d", tag, d.Empty(), len(m.els)))
				return
			}
			if len(m.els) == 0 {
				emptied = true
				r.Count("emptied", 1)
			}
			log.add("D limit=%d pop %d -> last %d (n=%d)", limit, n, m.last(), len(m.els))
			write(d.Finish)
			r.Count("pop_sessions", 1)
			r.Count("pops", n)
			if len(m.els) == 0 {
				if blob := pathdb.VerifReadIndexMeta(db, ik.ident); len(blob) != 0 {
					c.viol("empty-meta-left", fmt.Sprintf("%s: index metadata (%d bytes) left after popping every element", tag, len(blob)))
					return
				}
			}
			if !checkpoint(tag + " after pop") {
				return
			}
		case op < 17: // truncating open (recovery path): elements above limit are dropped
			long = nil
			j := rng.Intn(len(m.els))
			limit := m.els[j].ID
			switch rng.Intn(4) {
			case 0:
				if limit > 1 {
					limit-- // between elements / below the first
				}
			case 1:
				if ds := descs(); len(ds) > 0 { // exactly a block maximum, or just above / below it
					limit = ds[rng.Intn(len(ds))].Max + uint64(rng.Intn(3)) - 1
				}
			}
			if limit == 0 {
				limit = 1
			}
			// Is the limit itself a stored element? Production opens the deleter with
			// limit = id of the history being unindexed, which is always an element of the
			// index it pops from; with a limit between elements the deleter may come up with
			// an empty live block (lastID 0) and refuse the pop. That situation is outside the
			// property (it is not an append/pop/prune of the set) and is not generated.
			k := m.succ(limit)
			limitStored := k > 0 && m.els[k-1].ID == limit
			if rng.Intn(2) == 0 || !limitStored {
				// writer: production always appends after opening; so do we
				w, err := pathdb.VerifNewIndexWriter(db, ik.ident, limit, ik.bitmap)
				if err != nil {
					c.viol("writer-open", fmt.Sprintf("%s: newIndexWriter(limit=%d): %v", tag, limit, err))
					return
				}
				m.truncAbove(limit)
				// lastID is only an ordering guard; it is exact when the limit is a stored
				// element (history_index_test.go asserts exactly that), otherwise the writer
				// may legitimately start on an emptied live block with lastID 0.
				if limitStored && w.LastID() != m.last() {
					c.viol("writer-trunc-last", fmt.Sprintf("%s: writer(limit=%d) lastID %d, model %d", tag, limit, w.LastID(), m.last()))
					return
				}
				n := 1 + rng.Intn(max(1, sessSize()/4))
				last := max(m.last(), limit)
				for k := 0; k < n; k++ {
					id := g.nextID(last)
					ext := g.ext()
					if err := w.Append(id, cloneExt(ext)); err != nil {
						c.viol("append-error", fmt.Sprintf("%s: append(%d) after truncation to %d: %v", tag, id, limit, err))
						return
					}
					m.els = append(m.els, elem{id, ext})
					last = id
				}
				log.add("W limit=%d (truncating) append %d -> last %d (n=%d)", limit, n, last, len(m.els))
				write(w.Finish)
				r.Count("appends", n)
			} else {
				d, err := pathdb.VerifNewIndexDeleter(db, ik.ident, limit, ik.bitmap)
				if err != nil {
					c.viol("deleter-open", fmt.Sprintf("%s: newIndexDeleter(limit=%d): %v", tag, limit, err))
					return
				}
				m.truncAbove(limit)
				if d.LastID() != m.last() {
					c.viol("deleter-trunc-last", fmt.Sprintf("%s: deleter(limit=%d) lastID %d, model %d", tag, limit, d.LastID(), m.last()))
					return
				}
				n := min(len(m.els), rng.Intn(1+sessSize()/4))
				for k := 0; k < n; k++ {
					id := m.last()
					if err := d.Pop(id); err != nil {
						c.viol("pop-error", fmt.Sprintf("%s: pop(%d) after truncation to %d: %v", tag, id, limit, err))
						return
					}
					m.els = m.els[:len(m.els)-1]
				}
				log.add("D limit=%d (truncating) pop %d -> last %d (n=%d)", limit, n, m.last(), len(m.els))
				write(d.Finish)
				r.Count("pops", n)
			}
			truncated = true
			r.Count("truncating_opens", 1)
			if !checkpoint(tag + " after truncating open") {
				return
			}
		default: // prune from the tail
			long = nil
			before := descs()
			var tail uint64
			switch rng.Intn(6) {
			case 0:
				tail = m.els[rng.Intn(len(m.els))].ID
			case 1:
				tail = m.els[rng.Intn(len(m.els))].ID + 1
			case 2, 3: // block boundary
				tail = before[rng.Intn(len(before))].Max + uint64(rng.Intn(3)) - 1
			case 4:
				tail = m.last() + 1 + uint64(rng.Intn(2)) // everything is stale
			default:
				tail = uint64(rng.Intn(3))
			}
			wantPruned := 0
			for _, d := range before {
				if d.Max < tail {
					wantPruned++
				} else {
					break
				}
			}
			var err error
			viaProcess := rng.Intn(2) == 0
			if viaProcess {
				err = pathdb.VerifPruneIndex(db, ik.ident.Trienode(), tail)
			} else {
				var n int
				n, err = pathdb.VerifPruneEntry(db, ik.ident, ik.bitmap, tail)
				if err == nil && n != wantPruned {
					c.viol("prune-count", fmt.Sprintf("%s: pruneEntry(tail=%d) pruned %d blocks, descriptors %v imply %d", tag, tail, n, maxes(before), wantPruned))
					return
				}
			}
			log.add("P tail=%d viaProcess=%v blocks=%d wantPruned=%d", tail, viaProcess, len(before), wantPruned)
			if err != nil {
				c.viol("prune-error", fmt.Sprintf("%s: prune(tail=%d): %v", tag, tail, err))
				return
			}
			after := descs()
			// Contract (pruneEntry doc): exactly the leading blocks whose max < tail are
			// removed. In set terms: every element >= tail survives, the survivors are a
			// suffix of the previous content.
			if len(after) != len(before)-wantPruned {
				c.viol("prune-blocks", fmt.Sprintf("%s: prune(tail=%d): %d blocks before (max %v), %d after, expected %d", tag, tail, len(before), maxes(before), len(after), len(before)-wantPruned))
				return
			}
			for k := 0; k < wantPruned; k++ {
				if blob := pathdb.VerifReadIndexBlock(db, ik.ident, before[k].ID); len(blob) != 0 {
					c.viol("prune-block-left", fmt.Sprintf("%s: pruned block id %d still stored", tag, before[k].ID))
					return
				}
			}
			if wantPruned > 0 {
				m.els = m.els[m.succ(before[wantPruned-1].Max):]
				pruned = true
				r.Count("pruned_blocks", wantPruned)
			}
			if i := sort.Search(len(m.els), func(i int) bool { return m.els[i].ID >= tail }); i > 0 {
				r.Count("prune_kept_below_tail", 1) // elements < tail legitimately kept in the first retained block
			}
			r.Count("prunes", 1)
			if len(m.els) == 0 {
				emptied = true
			}
			if !checkpoint(tag + " after prune") {
				return
			}
		}
	}
	r.Count("filter_elements", int(c.fchk))
	r.Count("filter_false_positives", int(c.fpos))
	sig := fmt.Sprintf("index/bm%d/gap%d/ext%d/len%d/R%v/B%v/PB%v/PR%v/T%v/E%v/RF%v", ik.bitmap, g.gapProf, g.extProf, lenProf, crossRestart, crossBlock, popAcross, pruned, truncated, emptied, refreshed)
	r.Eval(sig)
	if crossBlock {
		r.Count("cases_cross_block", 1)
	}
	if crossRestart {
		r.Count("cases_cross_restart", 1)
	}
	if r.WantSample() && crossBlock && pruned {
		r.Sample(map[string]any{"case": i, "level": "index", "ident": ik.name, "bitmap": ik.bitmap, "final_n": len(m.els), "ops": log.tail()})
	}
}

func maxes(ds []pathdb.VerifDesc) []uint64 {
	out := make([]uint64, len(ds))
	for i, d := range ds {
		out[i] = d.Max
	}
	return out
}

// ---- block-level case ----

type blockLookup struct{ r *pathdb.VerifBlockReader }

func (b blockLookup) ReadGreaterThan(q uint64) (uint64, error) { return b.r.ReadGreaterThan(q) }
func (b blockLookup) NewIterator(f *uint16) pathdb.HistoryIndexIterator {
	return b.r.NewIterator(f)
}

func blockCase(r *vrt.Run, i int) {
	rng := r.Rand("block", i)
	ik := identFor([]int{0, 2, 3}[rng.Intn(3)], rng)
	g := &gen{rng: rng, gapProf: rng.Intn(5), extProf: rng.Intn(2), ik: ik}
	big := rng.Intn(3) == 0
	r.Case("block %d bitmap=%d gap=%d big=%v", i, ik.bitmap, g.gapProf, big)
	var (
		m   = &model{}
		log = &opLog{}
		c   = &ctx{r: r, rng: rng, ik: ik, lvl: "block"}

		crossRestart, popRestart, reloaded, trimmed, emptied bool
	)
	c.w = func() map[string]any {
		return map[string]any{"case": i, "level": "block", "bitmap": ik.bitmap, "gapProf": g.gapProf, "ops_tail": log.tail(), "model_n": len(m.els)}
	}
	bw, err := pathdb.VerifNewBlockWriter(nil, nil, 0, ik.bitmap, 0)
	if err != nil {
		panic(err)
	}
	verify := func(tag string) bool {
		d := bw.Desc()
		if int(d.Entries) != len(m.els) || d.Max != m.last() || bw.Empty() != (len(m.els) == 0) {
			c.viol("desc", fmt.Sprintf("%s: desc entries=%d max=%d empty=%v, model n=%d last=%d", tag, d.Entries, d.Max, bw.Empty(), len(m.els), m.last()))
			return false
		}
		if !c.checkBitmap(d.Bitmap, m.els, tag) {
			return false
		}
		if len(m.els) == 0 {
			for _, b := range d.Bitmap {
				if b != 0 {
					c.viol("bitmap-not-cleared", fmt.Sprintf("%s: empty block keeps bitmap %x", tag, d.Bitmap))
					return false
				}
			}
			return true
		}
		br, err := pathdb.VerifNewBlockReader(bw.Finish(), ik.bitmap != 0)
		if err != nil {
			c.viol("reader-open", fmt.Sprintf("%s: newBlockReader on finished block: %v", tag, err))
			return false
		}
		if want := (len(m.els) + 255) / 256; br.Restarts() != want {
			c.viol("restarts", fmt.Sprintf("%s: %d restart sections for %d elements, want %d", tag, br.Restarts(), len(m.els), want))
			return false
		}
		n0 := r.NumViolations()
		c.check(blockLookup{br}, m, nil, tag)
		return r.NumViolations() == n0
	}
	steps := 5 + rng.Intn(25)
	for s := 0; s < steps; s++ {
		tag := fmt.Sprintf("step %d", s)
		switch op := rng.Intn(10); {
		case op < 5 || len(m.els) == 0:
			n := 1 + rng.Intn(12)
			if big {
				n = 1 + rng.Intn(700)
			}
			added := 0
			for k := 0; k < n; k++ {
				ext := g.ext()
				if bw.Full(ext) {
					break
				}
				id := g.nextID(m.last())
				if err := bw.Append(id, cloneExt(ext)); err != nil {
					c.viol("append-error", fmt.Sprintf("%s: append(%d): %v", tag, id, err))
					return
				}
				m.els = append(m.els, elem{id, ext})
				added++
			}
			if len(m.els) > 256 {
				crossRestart = true
			}
			if rng.Intn(4) == 0 && len(m.els) > 0 {
				if err := bw.Append(m.last(), cloneExt(g.ext())); err == nil {
					c.viol("append-dup-accepted", fmt.Sprintf("%s: duplicate append(%d) accepted", tag, m.last()))
					return
				}
			}
			log.add("append %d -> last %d n=%d", added, m.last(), len(m.els))
			r.Count("appends", added)
		case op < 8:
			n := 1 + rng.Intn(12)
			if big {
				n = 1 + rng.Intn(500)
			}
			if rng.Intn(6) == 0 {
				n = len(m.els)
			}
			n = min(n, len(m.els))
			for k := 0; k < n; k++ {
				id := m.last()
				before := len(m.els)
				if err := bw.Pop(id); err != nil {
					c.viol("pop-error", fmt.Sprintf("%s: pop(%d): %v", tag, id, err))
					return
				}
				m.els = m.els[:len(m.els)-1]
				if before%256 == 1 && before > 1 {
					popRestart = true
					r.Count("pops_across_restart", 1)
				}
				if bw.Last() != m.last() {
					c.viol("pop-last", fmt.Sprintf("%s: after pop(%d) last()=%d model %d", tag, id, bw.Last(), m.last()))
					return
				}
			}
			if len(m.els) == 0 {
				emptied = true
			}
			log.add("pop %d -> last %d n=%d", n, m.last(), len(m.els))
			r.Count("pops", n)
		default: // finish + reload from the written bytes (optionally trimming above a limit)
			if len(m.els) == 0 {
				bw, _ = pathdb.VerifNewBlockWriter(nil, nil, 0, ik.bitmap, 0)
				continue
			}
			blob, desc := bw.Finish(), bw.DescBytes()
			limit := m.last()
			if rng.Intn(3) == 0 {
				limit = m.els[rng.Intn(len(m.els))].ID
				if rng.Intn(3) == 0 && limit > 0 {
					limit--
				}
				trimmed = true
			}
			nb, err := pathdb.VerifNewBlockWriter(blob, desc, 0, ik.bitmap, limit)
			if err != nil {
				c.viol("reload-error", fmt.Sprintf("%s: newBlockWriter(limit=%d) on own encoding: %v", tag, limit, err))
				return
			}
			bw = nb
			m.truncAbove(limit)
			reloaded = true
			log.add("reload limit=%d -> n=%d", limit, len(m.els))
			r.Count("block_reloads", 1)
		}
		if !verify(tag) {
			return
		}
	}
	r.Count("filter_elements", int(c.fchk))
	r.Count("filter_false_positives", int(c.fpos))
	r.Eval(fmt.Sprintf("block/bm%d/gap%d/ext%d/R%v/PR%v/RL%v/T%v/E%v", ik.bitmap, g.gapProf, g.extProf, crossRestart, popRestart, reloaded, trimmed, emptied))
	if r.WantSample() && popRestart {
		r.Sample(map[string]any{"case": i, "level": "block", "bitmap": ik.bitmap, "final_n": len(m.els), "ops": log.tail()})
	}
}

func run(r *vrt.Run) {
	r.Rule("index-level streams: one identifier (account/storage: no extension; trienode chunk idents with 2- and 34-byte bitmaps) per private memorydb, 6-35 sessions of {append via indexWriter, pop via indexDeleter, truncating open with limit, tail prune via indexPruner}, each followed by a reload of reader state from the stored bytes and comparison of traversal, readGreaterThan, SeekGT+Next, filtered traversal/seek and descriptor bitmaps with a sorted-slice model; id gaps from 1 to 2^46, session sizes 1..5000 so that streams cross restart sections (256) and blocks (4096 bytes). block-level streams: blockWriter append/pop/finish+reload(limit). corruption: every byte of small finished blocks under 10 mutations. non-trivial signature = (level, bitmap size, gap profile, ext profile, length profile, crossed restart, crossed block, popped across block, pruned, truncating open, emptied, refreshed reader)")
	nIndex := r.N(320, 20000)
	nBlock := r.N(150, 10000)
	nCorrupt := r.N(18, 300)
	if r.Race() {
		nIndex, nBlock, nCorrupt = nIndex/6, nBlock/6, nCorrupt/6
	}
	t0 := time.Now()
	vrt.Par(nIndex, 0, func(i int) { indexCase(r, i) })
	t1 := time.Now()
	vrt.Par(nBlock, 0, func(i int) { blockCase(r, i) })
	t2 := time.Now()
	corruptPhase(r, nCorrupt)
	r.Extra("phase_wall_s", map[string]float64{"index": t1.Sub(t0).Seconds(), "block": t2.Sub(t1).Seconds(), "corrupt": time.Since(t2).Seconds()})
	r.Logf("phases: index %.1fs block %.1fs corrupt %.1fs", t1.Sub(t0).Seconds(), t2.Sub(t1).Seconds(), time.Since(t2).Seconds())
	r.Require("cases_cross_block", 20)
	r.Require("cases_cross_restart", 20)
	r.Require("pops_across_block", 10)
	r.Require("pops_across_restart", 10)
	r.Require("pruned_blocks", 10)
	r.Require("filter_traversals", 100)
	r.Require("corrupt_blobs", 1000)
	r.Assume("sorted-slice model with extension lists (40 lines); filter relation recomputed from parent(n)=(n-1)/16")
	r.Assume("after a tail prune the retained content is derived from the documented rule 'leading blocks whose max < tail are removed' applied to the descriptors observed before the prune")
	if e, f := r.Counter("filter_elements"), r.Counter("filter_false_positives"); e > 0 {
		r.Extra("filter_false_positive_rate", float64(f)/float64(e))
	}
}
