package main

import (
	"bufio"
	"bytes"
	"fmt"
	"math"
	"os"
	"runtime"
	"strconv"
	"strings"
	"sync"
	"sync/atomic"
	"syscall"
	"time"

	"github.com/ethereum/go-ethereum/core/rawdb"
	"github.com/ethereum/go-ethereum/triedb/pathdb"

	"verif/lib/vrt"
)

// Corruption phase: "corrupted block bytes must be rejected without panic".
//
// A small finished index block (<= 200 bytes) is corrupted one byte at a time (8 single-bit
// flips, 0x00, 0xff) and handed to every consumer of stored block bytes:
//
//	reader  : newBlockReader, readGreaterThan, plain and filtered iterators (block level and,
//	          through a database holding the corrupted block under intact metadata, index level)
//	open    : newBlockWriter(blob, intact descriptor, limit = max)          (no trimming)
//	trim    : newBlockWriter(blob, intact descriptor, limit < max)          (recovery trimming)
//	pop     : newBlockWriter(..., limit = max) followed by pop(max), finish
//
// Corruption inside the data area is not detectable in general (there is no checksum), so
// any error or any result is accepted; only a panic (or a non-terminating call) refutes.
//
// The reader stages run in-process under vrt.Guard. The writer stages (open, trim, pop) run
// in child processes (one per base block) because blockWriter's section scan turned out not
// to terminate on some corrupted inputs and a spinning goroutine cannot be stopped: every
// call runs on its own locked OS thread whose CPU time the child monitors; a call on a
// <= 300 byte input that has burnt hangCPU seconds of CPU (normal: microseconds) is recorded
// as non-terminating. CPU time, unlike wall time, does not depend on machine load.
const (
	hangCPU       = 0.3 // CPU seconds inside one call
	maxStageHangs = 4   // per child and stage; further inputs skip the stage (the class is reported already)
)

func init() { vrt.RegisterChild("corruptwriter", corruptWriterChild) }

type corruptBase struct {
	ik         identKind
	m          *model
	blob, desc []byte
	cnt        int
	gapProf    int
	muts       [][2]int // (position, mutation) pairs
}

// makeBase deterministically builds base block i and its list of corruptions.
func makeBase(r *vrt.Run, i int) *corruptBase {
	rng := r.Rand("corrupt", i)
	ik := identFor([]int{0, 2, 3}[i%3], rng)
	g := &gen{rng: rng, gapProf: rng.Intn(5), extProf: 1, ik: ik}
	bw, _ := pathdb.VerifNewBlockWriter(nil, nil, 0, ik.bitmap, 0)
	m := &model{}
	cnt := 2 + rng.Intn(30)
	if i%7 == 0 {
		cnt = 257 + rng.Intn(4) // two restart sections (larger than 200 bytes: sampled positions)
	}
	for k := 0; k < cnt; k++ {
		id, ext := g.nextID(m.last()), g.ext()
		if err := bw.Append(id, cloneExt(ext)); err != nil {
			panic(err)
		}
		m.els = append(m.els, elem{id, ext})
	}
	b := &corruptBase{ik: ik, m: m, blob: bw.Finish(), desc: bw.DescBytes(), cnt: cnt, gapProf: g.gapProf}
	var positions []int
	if len(b.blob) <= 200 {
		for p := range b.blob {
			positions = append(positions, p)
		}
	} else {
		for k := 0; k < 120; k++ {
			positions = append(positions, rng.Intn(len(b.blob)))
		}
		for p := len(b.blob) - 12; p < len(b.blob); p++ { // the restart trailer, always
			positions = append(positions, p)
		}
	}
	for _, p := range positions {
		for mut := 0; mut < 10; mut++ {
			if b.mutate(p, mut) != nil {
				b.muts = append(b.muts, [2]int{p, mut})
			}
		}
	}
	return b
}

// mutate returns the corrupted copy (nil if the mutation leaves the byte unchanged).
func (b *corruptBase) mutate(p, mut int) []byte {
	c := append([]byte(nil), b.blob...)
	switch {
	case mut < 8:
		c[p] ^= 1 << uint(mut)
	case mut == 8:
		c[p] = 0x00
	default:
		c[p] = 0xff
	}
	if c[p] == b.blob[p] {
		return nil
	}
	return c
}

func (b *corruptBase) witness(k int) map[string]any {
	p, mut := b.muts[k][0], b.muts[k][1]
	c := b.mutate(p, mut)
	return map[string]any{"block": vrt.Hex(b.blob), "corrupted": vrt.Hex(c), "desc": vrt.Hex(b.desc), "bitmap": b.ik.bitmap, "pos": p, "byte": c[p], "elements": len(b.m.els), "max": b.m.last(), "mid": b.m.els[len(b.m.els)/2].ID}
}

func (b *corruptBase) stages(c []byte, onParse func(bool)) map[string]func() {
	return stageFuncs(b.ik, c, b.desc, b.m.els[0].ID, b.m.els[len(b.m.els)/2].ID, b.m.last(), firstExt(b.m), onParse)
}

var readerStages = []string{"reader", "index-reader"}
var writerStages = []string{"writer-open", "writer-trim", "writer-pop"}

func corruptPhase(r *vrt.Run, n int) {
	vrt.Par(n, 0, func(i int) {
		b := makeBase(r, i)
		r.Case("corrupt %d bitmap=%d n=%d blob=%d bytes, %d corruptions (reader stages)", i, b.ik.bitmap, b.cnt, len(b.blob), len(b.muts))
		rejected := 0
		for k := range b.muts {
			c := b.mutate(b.muts[k][0], b.muts[k][1])
			fs := b.stages(c, func(rej bool) {
				if rej {
					rejected++
				}
			})
			for _, s := range readerStages {
				r.Guard("corrupt-block:"+s, b.witness(k), fs[s])
			}
		}
		r.Count("corrupt_blobs", len(b.muts))
		r.Count("corrupt_rejected_at_parse", rejected)
		// writer stages in children
		r.Case("corrupt %d (writer stages in child)", i)
		start, total := 0, len(b.muts)*len(writerStages)
		for start < total {
			cr := r.Child("corruptwriter", []string{fmt.Sprintf("CW_CASE=%d", i), fmt.Sprintf("CW_START=%d", start)}, 20*time.Minute)
			last, done := start-1, false
			sc := bufio.NewScanner(bytes.NewReader(cr.Output))
			sc.Buffer(make([]byte, 1<<20), 1<<20)
			for sc.Scan() {
				f := strings.SplitN(sc.Text(), " ", 3)
				switch {
				case f[0] == "@" && len(f) >= 2:
					last, _ = strconv.Atoi(f[1])
				case f[0] == "H" && len(f) >= 2:
					j, _ := strconv.Atoi(f[1])
					stage := writerStages[j%len(writerStages)]
					r.Violation("corrupt-block:"+stage+":hang", fmt.Sprintf("%s on a corrupted %d-byte index block does not terminate (%.2f CPU-seconds burnt inside the call)", stage, len(b.blob), hangCPU), b.witness(j/len(writerStages)))
					r.Count("corrupt_writer_hangs", 1)
				case f[0] == "P" && len(f) >= 3:
					j, _ := strconv.Atoi(f[1])
					stage := writerStages[j%len(writerStages)]
					site, msg, _ := strings.Cut(f[2], "|")
					r.Violation("corrupt-block:"+stage+":panic:"+site, fmt.Sprintf("%s on a corrupted %d-byte index block panics: %s", stage, len(b.blob), msg), b.witness(j/len(writerStages)))
					r.Count("corrupt_writer_panics", 1)
				case f[0] == "S" && len(f) >= 2:
					n, _ := strconv.Atoi(f[1])
					r.Count("corrupt_writer_calls_skipped_after_hangs", n)
				case f[0] == "DONE":
					done = true
				}
			}
			if done {
				break
			}
			if cr.TimedOut {
				r.Inconclusive("corruption writer child of base block %d timed out at flat index %d", i, last)
				break
			}
			// died (fatal error, not a recoverable panic): report and resume behind it
			w := b.witness(max(last, 0) / len(writerStages))
			w["output_tail"] = tailStr(cr.Output, 2000)
			r.Violation("corrupt-block:"+writerStages[max(last, 0)%len(writerStages)]+":crash", fmt.Sprintf("writer child died (exit %d signal %q) at flat index %d", cr.Exit, cr.Signal, last), w)
			start = max(last, start) + 1
		}
		r.Count("corrupt_writer_calls", total)
		r.EvalN(fmt.Sprintf("corrupt/bm%d/sections%d/gap%d", b.ik.bitmap, (b.cnt+255)/256, b.gapProf), len(b.muts))
	})
}

func tailStr(b []byte, n int) string {
	if len(b) > n {
		b = b[len(b)-n:]
	}
	return string(b)
}

// threadCPU returns the CPU seconds consumed so far by thread tid of this process
// (utime+stime of /proc/self/task/<tid>/stat, 100 ticks per second).
func threadCPU(tid int) float64 {
	b, err := os.ReadFile(fmt.Sprintf("/proc/self/task/%d/stat", tid))
	if err != nil {
		return 0
	}
	s := string(b)
	if i := strings.LastIndexByte(s, ')'); i >= 0 {
		s = s[i+1:]
	}
	f := strings.Fields(s) // f[0] is field 3 (state); utime, stime are fields 14, 15
	if len(f) < 13 {
		return 0
	}
	ut, _ := strconv.ParseFloat(f[11], 64)
	st, _ := strconv.ParseFloat(f[12], 64)
	return (ut + st) / 100
}

// corruptWriterChild runs the writer stages of base block CW_CASE from flat index CW_START
// (flat index = corruption index * 3 + stage). A worker goroutine locked to its own OS thread
// performs the calls one after the other; the monitor polls the index the worker is at and
// that thread's CPU time: once the worker has consumed hangCPU seconds inside one and the
// same call, the call is recorded as non-terminating, the thread is left behind (niced
// down) and a new worker continues behind it. Output lines: "P j site|msg" panic, "H j"
// hang, "DONE".
func corruptWriterChild(r *vrt.Run) {
	i, _ := strconv.Atoi(os.Getenv("CW_CASE"))
	start, _ := strconv.Atoi(os.Getenv("CW_START"))
	b := makeBase(r, i)
	total := len(b.muts) * len(writerStages)
	var (
		mu    sync.Mutex
		lines []string
		cur   atomic.Int64
		gen   atomic.Int64

		stageHangs [3]atomic.Int64
		skipped    atomic.Int64
	)
	worker := func(from int, myGen int64, tidCh chan int, fin chan struct{}) {
		runtime.LockOSThread()
		tidCh <- syscall.Gettid()
		for j := from; j < total; j++ {
			if gen.Load() != myGen {
				return // abandoned while stuck in the previous call
			}
			cur.Store(int64(j))
			k, stage := j/len(writerStages), writerStages[j%len(writerStages)]
			if stageHangs[j%len(writerStages)].Load() >= maxStageHangs {
				skipped.Add(1)
				continue
			}
			f := b.stages(b.mutate(b.muts[k][0], b.muts[k][1]), nil)[stage]
			if e, st := vrt.Recover(f); e != nil && gen.Load() == myGen {
				mu.Lock()
				lines = append(lines, fmt.Sprintf("P %d %s|%s", j, vrt.PanicSite(st), strings.ReplaceAll(fmt.Sprint(e), "\n", " ")))
				mu.Unlock()
			}
		}
		if gen.Load() == myGen {
			close(fin)
		}
	}
	for from := start; from < total; {
		tidCh, fin := make(chan int, 1), make(chan struct{})
		g := gen.Add(1)
		cur.Store(int64(from))
		go worker(from, g, tidCh, fin)
		tid := <-tidCh
		lastIdx, cpuAt := int64(-1), 0.0
		hungAt := int64(-1)
	wait:
		for {
			select {
			case <-fin:
				break wait
			case <-time.After(10 * time.Millisecond):
				if c := cur.Load(); c != lastIdx {
					lastIdx, cpuAt = c, threadCPU(tid)
				} else if threadCPU(tid)-cpuAt >= hangCPU {
					hungAt = c
					break wait
				}
			}
		}
		if hungAt < 0 {
			break
		}
		gen.Add(1) // abandon the worker
		stageHangs[int(hungAt)%len(writerStages)].Add(1)
		syscall.Setpriority(syscall.PRIO_PROCESS, tid, 19)
		mu.Lock()
		lines = append(lines, fmt.Sprintf("H %d", hungAt))
		mu.Unlock()
		from = int(hungAt) + 1
	}
	mu.Lock()
	defer mu.Unlock()
	fmt.Println(strings.Join(lines, "\n"))
	fmt.Printf("S %d\n", skipped.Load())
	fmt.Println("DONE")
}

// stages of consumers of (possibly corrupted) block bytes; mid and max are two stored ids.
func stageFuncs(ik identKind, c, desc []byte, first, mid, max uint64, firstExt uint16, onParse func(rejected bool)) map[string]func() {
	hasExt := ik.bitmap != 0
	qs := []uint64{0, first, mid, max - 1, max, math.MaxUint64}
	filters := []*uint16{nil}
	if hasExt {
		f0, f1, f2 := uint16(0), uint16(1), firstExt
		filters = append(filters, &f0, &f1, &f2)
	}
	bound := len(c) + 10
	return map[string]func(){
		"reader": func() {
			br, err := pathdb.VerifNewBlockReader(append([]byte(nil), c...), hasExt)
			if onParse != nil {
				onParse(err != nil)
			}
			if err != nil {
				return
			}
			for _, q := range qs {
				br.ReadGreaterThan(q)
			}
			for _, f := range filters {
				it := br.NewIterator(f)
				for n := 0; it.Next(); n++ {
					if n > bound {
						panic("harness: iterator over a corrupted block yields more elements than bytes")
					}
				}
				it.Error()
				for _, q := range qs {
					it = br.NewIterator(f)
					if it.SeekGT(q) {
						it.ID()
						it.Next()
					}
				}
			}
		},
		"index-reader": func() {
			db := rawdb.NewMemoryDatabase()
			pathdb.VerifWriteIndexMeta(db, ik.ident, desc)
			pathdb.VerifWriteIndexBlock(db, ik.ident, 0, c)
			rd, err := pathdb.VerifNewIndexReader(db, ik.ident, ik.bitmap)
			if err != nil {
				return
			}
			for _, q := range qs {
				rd.ReadGreaterThan(q)
			}
			for _, f := range filters {
				it := rd.NewIterator(f)
				for n := 0; it.Next(); n++ {
					if n > bound {
						panic("harness: iterator over a corrupted block yields more elements than bytes")
					}
				}
				it.Error()
			}
		},
		"writer-open": func() { // no trimming
			pathdb.VerifNewBlockWriter(append([]byte(nil), c...), desc, 0, ik.bitmap, max)
		},
		"writer-trim": func() { // recovery trimming of elements above the limit
			pathdb.VerifNewBlockWriter(append([]byte(nil), c...), desc, 0, ik.bitmap, mid)
		},
		"writer-pop": func() {
			bw, err := pathdb.VerifNewBlockWriter(append([]byte(nil), c...), desc, 0, ik.bitmap, max)
			if err != nil {
				return
			}
			if err := bw.Pop(max); err == nil {
				bw.Finish()
			}
		},
	}
}

func firstExt(m *model) uint16 {
	if len(m.els[0].Ext) == 0 {
		return 0
	}
	return m.els[0].Ext[0]
}
