// C07: committed trie changes reproduce the new trie exactly.
//
// Runtime monitor over multi-generation commit histories. For every generation the node set
// returned by Trie.Commit is judged against the harness's own path-keyed shadow store and
// the reference trie (lib/refmpt) of the shadow map:
//   - every entry's recorded origin equals the store content before (nil when absent),
//   - the store after applying the set equals the reference node set exactly (no missing,
//     stale or wrong node),
//   - a trie reopened at the new root reads exactly the map - through the shadow store and
//     through real memory-backed triedb databases (path scheme and hash scheme), whose
//     persisted key space is also compared with the reference node set,
//   - StackTrie's OnTrieNode emissions equal the reference node set and the set committed by
//     a regular trie for the same keys.
package main

import (
	"bytes"
	"fmt"
	"math/rand"
	"sort"

	"github.com/ethereum/go-ethereum/common"
	"github.com/ethereum/go-ethereum/core/rawdb"
	"github.com/ethereum/go-ethereum/core/types"
	"github.com/ethereum/go-ethereum/ethdb"
	"github.com/ethereum/go-ethereum/trie"
	"github.com/ethereum/go-ethereum/trie/trienode"
	"github.com/ethereum/go-ethereum/triedb"
	"github.com/ethereum/go-ethereum/triedb/database"
	"github.com/ethereum/go-ethereum/triedb/hashdb"
	"github.com/ethereum/go-ethereum/triedb/pathdb"

	"verif/lib/refmpt"
	"verif/lib/trieh"
	"verif/lib/vrt"
)

func main() { vrt.Main("C07", run) }

type opRec struct {
	op   string
	keys [][]byte
	vals [][]byte
}

// tdb is a real, memory-backed trie database fed with the same node sets.
type tdb struct {
	scheme  string
	mem     ethdb.Database
	db      *triedb.Database
	parent  common.Hash
	block   uint64
	pending map[common.Hash]bool // roots living in un-flushed layers (path scheme)
}

func newTDB(scheme string) *tdb {
	t := &tdb{scheme: scheme, mem: rawdb.NewMemoryDatabase(), parent: types.EmptyRootHash, pending: map[common.Hash]bool{}}
	t.open()
	return t
}

func (t *tdb) open() {
	if t.scheme == rawdb.PathScheme {
		t.db = triedb.NewDatabase(t.mem, &triedb.Config{PathDB: &pathdb.Config{
			TrienodeHistory: -1, NoAsyncFlush: true, SnapshotNoBuild: true, NoAsyncGeneration: true,
			TrieCleanSize: 0, StateCleanSize: 0, WriteBufferSize: 1 << 20,
		}})
	} else {
		t.db = triedb.NewDatabase(t.mem, &triedb.Config{HashDB: &hashdb.Config{CleanCacheSize: 0}})
	}
}

type hist struct {
	r     *vrt.Run
	idx   int
	rng   *rand.Rand
	sp    *trieh.Space
	store *trieh.Store
	m     map[string][]byte
	root  common.Hash
	log   []opRec
	gen   int
	tdbs  []*tdb
	cnt   map[string]int

	failed                                                     bool
	sawDeletes, sawEmbedded, sawParallel, sawDelAll, sawTDB    bool
	sawExtToBranch, sawEmptyGen, sawCopyCommit, sawHashBetween bool
}

func (h *hist) count(name string, n int) { h.cnt[name] += n }
func (h *hist) flush() {
	for k, v := range h.cnt {
		h.r.Count(k, v)
	}
	h.cnt = map[string]int{}
}

func (h *hist) witness(extra map[string]any) map[string]any {
	ops := make([]any, 0, len(h.log))
	budget := 300000
	for _, o := range h.log {
		ks := make([]string, len(o.keys))
		vs := make([]string, len(o.vals))
		for i := range o.keys {
			ks[i] = vrt.Hex(o.keys[i])
			budget -= len(ks[i])
		}
		for i := range o.vals {
			vs[i] = vrt.Hex(o.vals[i])
			budget -= len(vs[i])
		}
		ops = append(ops, map[string]any{"op": o.op, "keys": ks, "vals": vs})
		if budget < 0 {
			ops = append(ops, "…truncated (replay with the seed)")
			break
		}
	}
	w := map[string]any{"history": h.idx, "generation": h.gen, "space": h.sp.Name, "valclass": h.sp.ValClass, "ops": ops,
		"replay": fmt.Sprintf("VERIF_SEED=%d, stream \"hist\" index %d", h.r.Seed, h.idx)}
	for k, v := range extra {
		w[k] = v
	}
	return w
}

func (h *hist) violation(fp, msg string, extra map[string]any) {
	h.failed = true
	h.r.Violation(fp, fmt.Sprintf("history %d generation %d space=%s: %s", h.idx, h.gen, h.sp.Name, msg), h.witness(extra))
}

func (h *hist) rec(op string, keys, vals [][]byte) { h.log = append(h.log, opRec{op, keys, vals}) }

func applyShadow(m map[string][]byte, k, v []byte) {
	if len(v) == 0 {
		delete(m, string(k))
	} else {
		m[string(k)] = v
	}
}

// readCheck opens a trie at root over db and compares all lookups and the leaf set with m.
func (h *hist) readCheck(db database.NodeDatabase, root common.Hash, m map[string][]byte, via string) {
	tr, err := trie.New(trie.TrieID(root), db)
	if err != nil {
		h.violation("reopen-error/"+via, fmt.Sprintf("cannot open committed root %x via %s: %v", root, via, err), nil)
		return
	}
	keys := h.sp.Keys
	if len(keys) > 150 {
		keys = keys[:0:0]
		for i := 0; i < 60; i++ {
			keys = append(keys, h.sp.Key(h.rng))
		}
	}
	for _, k := range keys {
		v, err := tr.Get(k)
		if err != nil {
			h.violation("reopen-read-error/"+via, fmt.Sprintf("Get(%x) via %s: %v", k, via, err), map[string]any{"key": vrt.Hex(k)})
			return
		}
		if !bytes.Equal(v, m[string(k)]) {
			h.violation("reopen-read-vs-map/"+via, fmt.Sprintf("Get(%x)=%x via %s, map has %x", k, v, via, m[string(k)]), map[string]any{"key": vrt.Hex(k)})
			return
		}
	}
	h.count("reopen_get_checks", len(keys))
	// full leaf walk (touches every node of the new trie)
	nit, err := tr.NodeIterator(nil)
	if err != nil {
		h.violation("reopen-read-error/"+via, err.Error(), nil)
		return
	}
	it := trie.NewIterator(nit)
	n := 0
	for it.Next() {
		if want, ok := m[string(it.Key)]; !ok || !bytes.Equal(want, it.Value) {
			h.violation("reopen-read-vs-map/"+via, fmt.Sprintf("iteration via %s yields %x=%x, map has %x", via, it.Key, it.Value, want), nil)
			return
		}
		n++
	}
	if it.Err != nil {
		h.violation("reopen-read-error/"+via, fmt.Sprintf("iteration via %s: %v", via, it.Err), nil)
		return
	}
	if n != len(m) {
		h.violation("reopen-read-vs-map/"+via, fmt.Sprintf("iteration via %s yields %d leaves, map has %d", via, n, len(m)), nil)
	}
	h.count("reopen_checks_"+via, 1)
}

// judgeSet judges one committed node set against the shadow store and the reference.
func (h *hist) judgeSet(root common.Hash, set *trienode.NodeSet, collectLeaf bool) *refmpt.Trie {
	ref := refmpt.Build(h.m)
	if !bytes.Equal(root[:], ref.Root) {
		h.violation("commit-root-vs-reference", fmt.Sprintf("Commit root %x, reference root %x", root, ref.Root), map[string]any{"map": trieh.HexMap(h.m, 200)})
		return ref
	}
	if set != nil {
		for path, n := range set.Nodes {
			if n.IsDeleted() {
				if n.Hash != (common.Hash{}) {
					h.violation("nodeset-deleted-with-hash", fmt.Sprintf("deleted node at %x carries hash %x", path, n.Hash), nil)
				}
				h.sawDeletes = true
			} else if !bytes.Equal(refmpt.Keccak(n.Blob), n.Hash[:]) {
				h.violation("nodeset-hash-vs-blob", fmt.Sprintf("node at %x: hash %x is not the Keccak of its blob", path, n.Hash), nil)
			}
			if _, ok := set.Origins[path]; !ok {
				h.violation("nodeset-origin-missing", fmt.Sprintf("no origin recorded for path %x", path), nil)
			}
		}
	}
	writes, deletes, phantom, bad := h.store.Apply(set)
	h.count("nodes_written", writes)
	h.count("nodes_deleted", deletes)
	h.count("phantom_deletes", phantom)
	h.count("origin_checks", writes+deletes)
	for _, b := range bad {
		h.violation("origin-vs-previous-content", fmt.Sprintf("path %x: recorded origin %x, store held %x", b.Path, b.Have, b.Stored),
			map[string]any{"path": fmt.Sprintf("%x", b.Path)})
		break
	}
	have := h.store.Snapshot()
	missing, stale, wrong := trieh.DiffStores(have, ref.Nodes, 5)
	h.count("store_comparisons", 1)
	h.count("store_nodes_compared", len(ref.Nodes))
	ex := map[string]any{"map": trieh.HexMap(h.m, 200), "missing": missing, "stale": stale, "wrong": wrong}
	if len(stale) > 0 {
		h.violation("store-stale-node", fmt.Sprintf("after applying the node set the store holds nodes that are not part of the new trie, paths %v", stale), ex)
	}
	if len(missing) > 0 {
		h.violation("store-missing-node", fmt.Sprintf("after applying the node set nodes of the new trie are absent, paths %v", missing), ex)
	}
	if len(wrong) > 0 {
		h.violation("store-wrong-blob", fmt.Sprintf("after applying the node set nodes differ from the new trie's, paths %v", wrong), ex)
	}
	// embedded nodes present in the new trie? (a node reference shorter than 32 bytes)
	if len(ref.Sorted) > len(ref.Nodes) {
		h.sawEmbedded = true
	}
	return ref
}

// feedTDBs pushes the node set into the real trie databases and reads the new root back.
func (h *hist) feedTDBs(root common.Hash, set *trienode.NodeSet) {
	for _, t := range h.tdbs {
		if root == t.parent {
			continue
		}
		merged := trienode.NewMergedNodeSet()
		if set != nil {
			// leaves are only meaningful for account tries (hashdb decodes them as accounts)
			cp := *set
			cp.Leaves = nil
			merged.Merge(&cp)
		}
		t.block++
		if t.scheme == rawdb.PathScheme && t.pending[root] {
			// the root already names an unflushed layer (state returned to an earlier
			// content): flatten first, pathdb skips duplicate roots by design
			if err := t.db.Commit(t.parent, false); err != nil {
				h.violation("triedb-commit-error/"+t.scheme, err.Error(), nil)
				return
			}
			t.pending = map[common.Hash]bool{}
		}
		if err := t.db.Update(root, t.parent, t.block, merged, triedb.NewStateSet()); err != nil {
			h.violation("triedb-update-error/"+t.scheme, fmt.Sprintf("Update(%x <- %x): %v", root, t.parent, err), nil)
			return
		}
		t.pending[t.parent] = true
		t.pending[root] = true
		t.parent = root
		if root != types.EmptyRootHash && h.rng.Intn(2) == 0 {
			if err := t.db.Commit(root, false); err != nil {
				h.violation("triedb-commit-error/"+t.scheme, err.Error(), nil)
				return
			}
			t.pending = map[common.Hash]bool{root: true}
			h.count("triedb_commits_"+t.scheme, 1)
		}
		h.count("triedb_updates_"+t.scheme, 1)
		h.readCheck(t.db, root, h.m, "triedb-"+t.scheme)
	}
}

// finalTDBs flushes the databases, compares the persisted key space and reopens them.
func (h *hist) finalTDBs(ref *refmpt.Trie) {
	for _, t := range h.tdbs {
		root := t.parent
		need := root != types.EmptyRootHash // hash scheme: flush the reachable nodes
		if t.scheme == rawdb.PathScheme {
			need = len(t.pending) > 1 // there are unflushed diff layers
		}
		if need {
			if err := t.db.Commit(root, false); err != nil {
				h.violation("triedb-commit-error/"+t.scheme, err.Error(), nil)
				continue
			}
		}
		if t.scheme == rawdb.PathScheme {
			// persisted account-trie key space == reference node set
			have := map[string][]byte{}
			it := t.mem.NewIterator(rawdb.TrieNodeAccountPrefix, nil)
			for it.Next() {
				// not rawdb.ResolveAccountTrieNodeKey: it rejects 64-nibble paths, which are
				// legal here (two generated 32-byte keys may differ in the last nibble only)
				have[string(it.Key()[len(rawdb.TrieNodeAccountPrefix):])] = common.CopyBytes(it.Value())
			}
			it.Release()
			missing, stale, wrong := trieh.DiffStores(have, ref.Nodes, 5)
			h.count("triedb_disk_comparisons", 1)
			if len(missing)+len(stale)+len(wrong) > 0 {
				h.violation("triedb-path-disk-vs-reference", fmt.Sprintf("persisted path-scheme nodes differ from the new trie: missing %v stale %v wrong %v", missing, stale, wrong),
					map[string]any{"map": trieh.HexMap(h.m, 200)})
			}
		} else {
			for hs, blob := range ref.HashedNodes() {
				if got := rawdb.ReadLegacyTrieNode(t.mem, common.BytesToHash([]byte(hs))); !bytes.Equal(got, blob) {
					h.violation("triedb-hash-disk-vs-reference", fmt.Sprintf("node %x of the new trie not persisted under its hash", hs), nil)
					break
				}
			}
			h.count("triedb_disk_comparisons", 1)
		}
		// reopen the database over the same key-value store
		t.db.Close()
		t.open()
		h.readCheck(t.db, root, h.m, "triedb-"+t.scheme+"-reopened")
		t.db.Close()
	}
}

// stackTrieCheck compares StackTrie's emissions for the map with the reference node set
// and with a fresh regular trie's committed set.
func (h *hist) stackTrieCheck(ref *refmpt.Trie) {
	_, fixed := trieh.Classify(trieh.MapKeys(h.m))
	if fixed == 0 || len(ref.Sorted) == 0 {
		return
	}
	emitted := map[string][]byte{}
	dup := false
	st := trie.NewStackTrie(func(path []byte, hash common.Hash, blob []byte) {
		if _, ok := emitted[string(path)]; ok {
			dup = true
		}
		if !bytes.Equal(refmpt.Keccak(blob), hash[:]) {
			h.violation("stacktrie-emission-hash-vs-blob", fmt.Sprintf("path %x", path), nil)
		}
		emitted[string(path)] = common.CopyBytes(blob)
	})
	for _, kv := range ref.Sorted {
		if err := st.Update(kv.K, kv.V); err != nil {
			h.violation("stacktrie-error", err.Error(), nil)
			return
		}
	}
	root := st.Hash()
	if !bytes.Equal(root[:], ref.Root) {
		h.violation("stacktrie-root-vs-reference", fmt.Sprintf("%x vs %x", root, ref.Root), nil)
	}
	if dup {
		h.violation("stacktrie-duplicate-emission", "a path was emitted twice", nil)
	}
	fresh := trie.NewEmpty(trieh.NewStore())
	for _, kv := range ref.Sorted {
		fresh.MustUpdate(kv.K, kv.V)
	}
	_, set := fresh.Commit(false)
	committed := map[string][]byte{}
	if set != nil {
		for p, n := range set.Nodes {
			if !n.IsDeleted() {
				committed[p] = n.Blob
			}
		}
	}
	h.count("stacktrie_node_checks", 1)
	h.count("stacktrie_nodes_compared", len(emitted))
	if mi, st, wr := trieh.DiffStores(emitted, committed, 5); len(mi)+len(st)+len(wr) > 0 {
		h.violation("stacktrie-emissions-vs-committed", fmt.Sprintf("StackTrie emissions differ from the regular trie's committed nodes: not emitted %v, extra %v, different %v", mi, st, wr),
			map[string]any{"map": trieh.HexMap(h.m, 200)})
	}
	if mi, st, wr := trieh.DiffStores(emitted, ref.Nodes, 5); len(mi)+len(st)+len(wr) > 0 {
		h.violation("stacktrie-emissions-vs-reference", fmt.Sprintf("StackTrie emissions differ from the reference node set: not emitted %v, extra %v, different %v", mi, st, wr),
			map[string]any{"map": trieh.HexMap(h.m, 200)})
	}
}

func pickEntry(rng *rand.Rand, m map[string][]byte) ([]byte, bool) {
	if len(m) == 0 {
		return nil, false
	}
	ks := make([]string, 0, len(m))
	for k := range m {
		ks = append(ks, k)
	}
	sort.Strings(ks)
	return []byte(ks[rng.Intn(len(ks))]), true
}

func runHistory(r *vrt.Run, idx int) {
	rng := r.Rand("hist", idx)
	kind := trieh.SpaceKinds[idx%len(trieh.SpaceKinds)]
	pool := []int{5, 12, 40, 200, 600}[rng.Intn(5)]
	h := &hist{r: r, idx: idx, rng: rng, sp: trieh.NewSpace(rng, kind, pool), m: map[string][]byte{}, store: trieh.NewStore(), cnt: map[string]int{}, root: types.EmptyRootHash}
	r.Case("C07 history %d space=%s pool=%d", idx, kind, len(h.sp.Keys))
	withTDB := idx%3 == 0
	if withTDB {
		h.tdbs = []*tdb{newTDB(rawdb.PathScheme), newTDB(rawdb.HashScheme)}
		h.sawTDB = true
	}
	gens := 2 + rng.Intn(5) // base + 1..5 generations
	var lastRef *refmpt.Trie
	panicked := r.Guard("C07", map[string]any{"history": idx, "space": kind}, func() {
		for h.gen = 0; h.gen < gens && !h.failed; h.gen++ {
			// open the working trie on one of the stores holding the current state
			var db database.NodeDatabase = h.store
			via := "shadow"
			if withTDB && rng.Intn(2) == 0 {
				t := h.tdbs[rng.Intn(2)]
				db, via = t.db, "triedb-"+t.scheme
			}
			tr, err := trie.New(trie.TrieID(h.root), db)
			if err != nil {
				h.violation("reopen-error/"+via, err.Error(), nil)
				return
			}
			h.count("generation_opened_via_"+via, 1)
			shapeBefore, _ := trieh.RootShape(h.m)
			// modifications
			nops := 1 + rng.Intn(12)
			switch {
			case h.gen == 0:
				nops = rng.Intn(2*len(h.sp.Keys) + 1)
			case rng.Intn(4) == 0:
				nops = 101 + rng.Intn(150) // > 100 updates: parallel committer
			case rng.Intn(8) == 0:
				nops = 0
			}
			uncommitted := 0
			delAll := h.gen > 0 && rng.Intn(8) == 0
			if delAll {
				h.sawDelAll = true
				var ks [][]byte
				for k := range h.m {
					ks = append(ks, []byte(k))
				}
				sort.Slice(ks, func(i, j int) bool { return bytes.Compare(ks[i], ks[j]) < 0 })
				rng.Shuffle(len(ks), func(i, j int) { ks[i], ks[j] = ks[j], ks[i] })
				h.rec("delete-all", ks, nil)
				for _, k := range ks {
					tr.MustDelete(k)
					delete(h.m, string(k))
					uncommitted++
				}
				if rng.Intn(3) == 0 {
					nops = 0 // commit the emptied trie
				}
			}
			for o := 0; o < nops; o++ {
				switch x := rng.Intn(100); {
				case x < 45 || h.gen == 0 && x < 80:
					k, v := h.sp.Key(rng), h.sp.Val(rng)
					h.rec("update", [][]byte{k}, [][]byte{v})
					if err := tr.Update(k, v); err != nil {
						h.violation("op-error/update", err.Error(), nil)
					}
					applyShadow(h.m, k, v)
					uncommitted++
				case x < 80:
					k := h.sp.Key(rng)
					if e, ok := pickEntry(rng, h.m); ok && rng.Intn(4) != 0 {
						k = e
					}
					h.rec("delete", [][]byte{k}, nil)
					if err := tr.Delete(k); err != nil {
						h.violation("op-error/delete", err.Error(), nil)
					}
					delete(h.m, string(k))
					uncommitted++
				case x < 92:
					n := []int{3, 5, 20, 130}[rng.Intn(4)]
					var ks, vs [][]byte
					for i := 0; i < n; i++ {
						ks = append(ks, h.sp.Key(rng))
						if rng.Intn(3) == 0 {
							vs = append(vs, nil)
						} else {
							vs = append(vs, h.sp.Val(rng))
						}
					}
					h.rec("batch", ks, vs)
					if err := tr.UpdateBatch(ks, vs); err != nil {
						h.violation("op-error/batch", err.Error(), nil)
					}
					for i := range ks {
						applyShadow(h.m, ks[i], vs[i])
					}
					uncommitted += n
				case x < 96:
					h.rec("hash", nil, nil)
					tr.Hash()
					h.sawHashBetween = true
				default:
					// insert and remove again (resurrected / cancelled paths in the tracer)
					k, v := h.sp.Key(rng), h.sp.Val(rng)
					old := h.m[string(k)]
					h.rec("update", [][]byte{k}, [][]byte{v})
					tr.MustUpdate(k, v)
					h.rec("update", [][]byte{k}, [][]byte{old})
					tr.MustUpdate(k, old)
					uncommitted += 2
					h.count("cancelled_updates", 1)
				}
			}
			shapeAfter, _ := trieh.RootShape(h.m)
			if shapeBefore != shapeAfter {
				h.sawExtToBranch = true
				h.count("root_shape_changes_"+shapeBefore+"_to_"+shapeAfter, 1)
			}
			if len(h.m) == 0 && h.gen > 0 {
				h.sawEmptyGen = true
				h.count("generations_committing_empty_trie", 1)
			}
			if uncommitted > 100 && shapeAfter == "full" {
				h.sawParallel = true
				h.count("commits_parallel_committer", 1)
			}
			// commit (sometimes a copy of the trie)
			collectLeaf := rng.Intn(2) == 0
			if rng.Intn(10) == 0 {
				tr = tr.Copy()
				h.sawCopyCommit = true
				h.count("commits_of_copy", 1)
			}
			h.rec(fmt.Sprintf("commit(collectLeaf=%v)", collectLeaf), nil, nil)
			root, set := tr.Commit(collectLeaf)
			h.count("commits", 1)
			if set == nil {
				h.count("commits_nil_set", 1)
			}
			lastRef = h.judgeSet(root, set, collectLeaf)
			if h.failed {
				return
			}
			h.root = root
			h.readCheck(h.store, root, h.m, "shadow")
			if withTDB && !h.failed {
				h.feedTDBs(root, set)
			}
			if !h.failed && rng.Intn(3) == 0 {
				h.stackTrieCheck(lastRef)
			}
		}
		if withTDB && !h.failed && lastRef != nil {
			h.finalTDBs(lastRef)
		}
	})
	if withTDB && (h.failed || panicked) {
		for _, t := range h.tdbs {
			t.db.Close()
		}
	}
	h.count("histories", 1)
	h.count("generations", h.gen)
	h.flush()
	if panicked {
		return
	}
	sig := fmt.Sprintf("%s/%s/gens%d/del%v/emb%v/par%v/delall%v/tdb%v/shape%v/empty%v/copy%v/hash%v/final%s",
		kind, h.sp.ValClass, gens, h.sawDeletes, h.sawEmbedded, h.sawParallel, h.sawDelAll, h.sawTDB, h.sawExtToBranch, h.sawEmptyGen, h.sawCopyCommit, h.sawHashBetween, sizeClass(len(h.m)))
	r.Eval(sig)
	if r.WantSample() && len(h.log) > 4 && len(h.log) < 40 {
		w := h.witness(nil)
		w["signature"] = sig
		w["final_root"] = h.root.Hex()
		w["final_store_nodes"] = h.store.Len()
		r.Sample(w)
	}
}

func sizeClass(n int) string {
	switch {
	case n == 0:
		return "0"
	case n < 4:
		return "lt4"
	case n <= 16:
		return "4to16"
	case n <= 99:
		return "17to99"
	default:
		return "ge100"
	}
}

func run(r *vrt.Run) {
	r.Rule("a case is one multi-generation commit history (base trie + 1..5 generations of random modifications incl. delete-all/re-insert, cancelled updates, batches, >100 updates for the parallel committer, commit of a Copy) over a key pool (families as in C06); every third history is mirrored into real memory-backed triedb path and hash databases; non-trivial signature = (key family, value class, generations, deletions in a node set, embedded nodes present, parallel committer, delete-all, triedb mirrored, root shape change, empty trie committed, copy committed, Hash between updates, final size class)")
	n := r.N(2500, 60000)
	if r.Race() {
		n = r.N(250, 6000)
	}
	vrt.Par(n, 0, func(i int) { runHistory(r, i) })
	min := int64(10)
	if r.Race() {
		min = 3
	}
	r.Require("nodes_deleted", 100*min)
	r.Require("commits_parallel_committer", min)
	r.Require("generations_committing_empty_trie", min)
	r.Require("triedb_disk_comparisons", min)
	r.Require("stacktrie_node_checks", min)
	r.Require("reopen_checks_triedb-path", min)
	r.Require("reopen_checks_triedb-hash", min)
	r.Assume("reference trie lib/refmpt node sets (path -> blob for the root and every node of >= 32 bytes), cross-checked against go-ethereum on freshly built tries")
	r.Assume("the harness's path-keyed shadow store is the model of a path-scheme node store; triedb path/hash databases are memory-backed (rawdb.NewMemoryDatabase), flushed with Commit and reopened in-process")
}
