// C03: signing and sender recovery are inverse and strict; the cgo and pure-Go secp256k1
// backends agree.
//
// tx.go      sign/recover inverse over tx types x signers x chain ids, reference signature hash,
//
//	cross-signer matrix, tampering, arbitrary (v,r,s) against independent range rules
//
// backend.go corpus of (hash, signature, key, public key) cases evaluated by this build and by the
//
//	CGO_ENABLED=0 build of the same harness (run as a child process); outputs are diffed.
//
// The transaction-level cases are evaluated by both builds as well and their complete outputs
// are diffed, so the verdicts reached in the cgo build transfer to the pure-Go build.
package main

import (
	"bytes"
	"fmt"
	"math/big"
	"os"
	"path/filepath"
	"strings"
	"time"

	"github.com/ethereum/go-ethereum/crypto"

	"verif/lib/agg"
	"verif/lib/vrt"
)

func main() { vrt.Main("C03", run) }

var ag *agg.Agg

// judgeBackend: algebraic facts about one backend on cases whose expected result is known.
func judgeBackend(r *vrt.Run, i int, c bcase, want *expectation, res []string) {
	w := map[string]any{"case": i, "kind": c.kind, "class": c.class, "a": hx(c.a), "b": hx(c.b), "c": hx(c.c), "outputs": res, "cgo": cgoBuild}
	get := func(name string) (string, bool) {
		for _, f := range res {
			if strings.HasPrefix(f, name+"=") {
				return f[len(name)+1:], true
			}
		}
		return "", false
	}
	for _, f := range res {
		if strings.HasPrefix(f, "PANIC") {
			r.Violation("backend:panic:"+c.kind, fmt.Sprintf("%s case (%s) panicked: %s", c.kind, c.class, f), w)
		}
	}
	if want == nil {
		return
	}
	switch c.kind {
	case "sign":
		if p, ok := get("pub"); ok && want.pub != nil && p != hx(want.pub) {
			r.Violation("backend:scalarbasemult", fmt.Sprintf("S256().ScalarBaseMult(d) = %s, key says %s", p, hx(want.pub)), w)
		}
		sig, _ := get("sig")
		if want.signOK != (sig != "ERR") {
			r.Violation("backend:sign:unexpected-result:"+strings.Split(c.class, "/")[0], fmt.Sprintf("Sign: %s, expected success=%v", sig, want.signOK), w)
		} else if want.signOK {
			// inverse within this build
			s := unhx(sig)
			pub, err := crypto.Ecrecover(c.b, s)
			if err != nil || !bytes.Equal(pub, want.pub) {
				r.Violation("backend:sign-recover-inverse", fmt.Sprintf("Ecrecover(hash, Sign(hash, key)) = %x (%v), want %x", pub, err, want.pub), w)
			}
			if !crypto.VerifySignature(want.pub, c.b, s[:64]) {
				r.Violation("backend:sign-verify", "VerifySignature rejects the signature produced by Sign", w)
			}
			ag.Count(i, "backend_sign_inverse_ok", 1)
		}
	case "rec":
		rec, _ := get("ecrecover")
		stp, _ := get("sigtopub")
		if (rec == "ERR") != (stp == "ERR") || (rec != "ERR" && rec != stp) {
			r.Violation("backend:ecrecover-vs-sigtopub", fmt.Sprintf("Ecrecover = %s, SigToPub = %s", rec, stp), w)
		}
		if want.recoverPub != nil {
			if rec != hx(want.recoverPub) {
				r.Violation("backend:ecrecover:wrong-key:"+strings.Split(c.class, "/")[0], fmt.Sprintf("Ecrecover = %s, want %x", rec, want.recoverPub), w)
			}
			v, _ := get("verify-recovered")
			if v != fmt.Sprint(want.verify) {
				r.Violation("backend:verify:"+strings.Split(c.class, "/")[0], fmt.Sprintf("VerifySignature = %s, want %v", v, want.verify), w)
			}
			ag.Count(i, "backend_recover_expected_ok", 1)
		}
		if want.mustFail && rec != "ERR" {
			r.Violation("backend:ecrecover:accepts:"+want.why, fmt.Sprintf("Ecrecover accepted a signature with %s: %s", want.why, rec), w)
		}
	case "ver":
		v, _ := get("verify")
		if want.verifyKnown && v != fmt.Sprint(want.verify) {
			r.Violation("backend:verify:"+strings.Split(c.class, "/")[0], fmt.Sprintf("VerifySignature = %s, want %v", v, want.verify), w)
		}
	case "dec":
		d, _ := get("decompress")
		if want.pub != nil && d != hx(want.pub) {
			r.Violation("backend:decompress", fmt.Sprintf("DecompressPubkey = %s, want %x", d, want.pub), w)
		}
	case "cmp":
		d, _ := get("decompress")
		if d != hx(c.a) {
			r.Violation("backend:compress-roundtrip", fmt.Sprintf("DecompressPubkey(CompressPubkey(p)) = %s, want %x", d, c.a), w)
		}
	}
}

// expectation is what is known about a case by construction.
type expectation struct {
	pub         []byte
	signOK      bool
	recoverPub  []byte
	verify      bool
	verifyKnown bool
	mustFail    bool
	why         string
}

// expect derives expectations from the case class (set by the generator) and an independent
// range check of r, s and the recovery id.
func expect(c bcase, keyPub []byte) *expectation {
	cls := strings.Split(c.class, "/")[0]
	e := &expectation{}
	switch c.kind {
	case "sign":
		if cls == "valid-key" {
			e.pub, e.signOK = keyPub, true
			return e
		}
		if cls == "bad-hash-length" {
			return e // signOK false
		}
		return nil
	case "rec":
		switch cls {
		case "valid":
			e.recoverPub, e.verify = keyPub, true
		case "high-s-malleated":
			e.recoverPub, e.verify = keyPub, false // recover does not care about s; verify rejects high s
		}
		if len(c.b) != 65 {
			e.mustFail, e.why = true, "wrong-length"
		} else if len(c.a) != 32 {
			e.mustFail, e.why = true, "bad-hash-length"
		} else {
			rc := rsClass(c.b)
			if strings.Contains(rc, "r0-") || strings.HasSuffix(rc, "s0") || strings.Contains(rc, ">=N") {
				e.mustFail, e.why = true, "r-or-s-out-of-range"
			}
			if c.b[64] >= 4 {
				e.mustFail, e.why = true, "recid>=4"
			}
		}
		return e
	case "ver":
		switch cls {
		case "valid":
			e.verify, e.verifyKnown = true, true
		case "high-s", "sig63", "hash31", "pub-truncated", "pub-long":
			e.verify, e.verifyKnown = false, true
		default:
			return nil
		}
		return e
	case "dec":
		if cls == "valid" {
			e.pub = keyPub
			return e
		}
		return nil
	case "cmp":
		return e
	}
	return nil
}

// fpClass is the input class used in fingerprints of cross-build disagreements: stable per
// defect class, independent of the random instance.
func fpClass(c bcase) string {
	if c.kind != "rec" {
		return strings.Split(c.class, "/")[0]
	}
	if len(c.b) != 65 {
		return fmt.Sprintf("siglen%d", len(c.b))
	}
	if len(c.a) != 32 {
		return "bad-hash-length"
	}
	cl := recidClass(c.b)
	if rc := rsClass(c.b); strings.Contains(rc, "r0-") || strings.HasSuffix(rc, "s0") || strings.Contains(rc, ">=N") {
		cl += ":" + rc
	}
	return cl
}

func fieldsOf(line string) (id string, kv map[string]string, order []string) {
	p := strings.Fields(line)
	kv = map[string]string{}
	if len(p) == 0 {
		return "", kv, nil
	}
	for _, f := range p[1:] {
		if i := strings.IndexByte(f, '='); i > 0 {
			kv[f[:i]] = f[i+1:]
			order = append(order, f[:i])
		} else {
			kv[f] = ""
			order = append(order, f)
		}
	}
	return p[0], kv, order
}

// offsets of one round inside the three index spaces (backend, tx, range cases).
type offsets struct{ b, tx, rg int }

// round generates, evaluates and cross-compares one chunk of the workload (memory stays
// bounded in the thorough tier). It returns false if the run became inconclusive.
func round(r *vrt.Run, sib string, o offsets, nBackend, nTx, nRange int) bool {
	// ---- corpus
	cases := make([]bcase, nBackend)
	exps := make([]*expectation, nBackend)
	vrt.Par(nBackend, 0, func(i int) {
		rng := r.Rand("backend", o.b+i)
		c, pub := genBackendCase(rng)
		cases[i] = c
		exps[i] = expect(c, pub)
	})
	corpus := filepath.Join(r.Scratch, "c03-corpus.txt")
	if err := writeCorpus(corpus, cases); err != nil {
		r.Inconclusive("cannot write corpus: %v", err)
		return false
	}

	// ---- this build
	mine := evalAll(r, cases, o, nTx, nRange, true)
	for i, c := range cases {
		_, kv, order := fieldsOf(mine[i])
		res := make([]string, 0, len(order))
		pattern := make([]string, 0, len(order))
		for _, k := range order {
			res = append(res, k+"="+kv[k])
			switch v := kv[k]; {
			case v == "ERR", v == "true", v == "false":
				pattern = append(pattern, v)
			case strings.HasPrefix(k, "PANIC"):
				pattern = append(pattern, "panic")
			default:
				pattern = append(pattern, "val")
			}
		}
		judgeBackend(r, o.b+i, c, exps[i], res)
		ag.Count(i, "backend_"+c.kind, 1)
		ag.Eval(i, fmt.Sprintf("be/%s/%s/%s", c.kind, c.class, strings.Join(pattern, ",")))
		if o.b+i < 3 {
			r.Sample(map[string]any{"kind": c.kind, "class": c.class, "a": hx(c.a), "b": hx(c.b), "c": hx(c.c), "outputs": res})
		}
	}
	if !cgoBuild {
		return true // in-process checks only; run() records why this is inconclusive
	}

	// ---- the other build
	outPath := filepath.Join(r.Scratch, "c03-nocgo-out.txt")
	wd := time.Duration(r.N(900, 7200)) * time.Second
	if err := runSibling(r, sib, corpus, outPath, o, nTx, nRange, wd); err != nil {
		r.Inconclusive("pure-Go child failed: %v", err)
		return false
	}
	raw, err := os.ReadFile(outPath)
	if err != nil {
		r.Inconclusive("pure-Go child output: %v", err)
		return false
	}
	theirs := strings.Split(strings.TrimRight(string(raw), "\n"), "\n")
	if len(theirs) != len(mine) {
		r.Inconclusive("pure-Go child produced %d lines, expected %d", len(theirs), len(mine))
		return false
	}
	for i := range mine {
		ag.Count(i, "crossbuild_lines_compared", 1)
		if mine[i] == theirs[i] {
			continue
		}
		ag.Count(i, "crossbuild_lines_differ", 1)
		id, a, order := fieldsOf(mine[i])
		_, b, _ := fieldsOf(theirs[i])
		w := map[string]any{"line": id, "cgo": mine[i], "nocgo": theirs[i]}
		if i >= len(cases) {
			// transaction-level line: name the first differing output
			first := "?"
			for _, k := range order {
				if a[k] != b[k] {
					first = k
					break
				}
			}
			if i < len(cases)+nTx {
				w["replay"] = fmt.Sprintf("tx case %d (VERIF_SEED=%d)", o.tx+i-len(cases), r.Seed)
			}
			r.Violation("crossbuild:tx-level:"+strings.TrimRight(first, "0123456789/"), fmt.Sprintf("transaction-level outputs differ between cgo and pure-Go builds at %q: %s vs %s", first, a[first], b[first]), w)
			continue
		}
		c := cases[i]
		w["kind"], w["class"], w["a"], w["b"], w["c"] = c.kind, c.class, hx(c.a), hx(c.b), hx(c.c)
		for _, k := range order {
			if a[k] == b[k] {
				continue
			}
			cls := "output-differs"
			switch {
			case a[k] == "ERR":
				cls = "nocgo-accepts"
			case b[k] == "ERR":
				cls = "cgo-accepts"
			case strings.HasPrefix(a[k], "PANIC") || strings.HasPrefix(b[k], "PANIC"):
				cls = "panic-differs"
			}
			fp := fmt.Sprintf("crossbuild:%s:%s:%s", k, cls, fpClass(c))
			if c.kind == "sign" && k == "sig" && cls == "output-differs" && a["pub"] != "" && a["pub"] == b["pub"] {
				// Both builds produced a signature. Known root cause with its own fingerprint:
				// RFC 6979 (decred) reduces the digest mod N before deriving the nonce,
				// libsecp256k1 feeds the raw 32 bytes, so the nonces differ iff digest >= N. The
				// fingerprint is used only if the digest is >= N and both signatures verify under
				// the key and recover to it; any other difference keeps a different name.
				pub := unhx(a["pub"])
				valid := func(sig []byte) bool {
					if len(sig) != 65 {
						return false
					}
					rec, e := crypto.Ecrecover(c.b, sig)
					return e == nil && bytes.Equal(rec, pub) && crypto.VerifySignature(pub, c.b, sig[:64])
				}
				switch bothValid := valid(unhx(a[k])) && valid(unhx(b[k])); {
				case bothValid && len(c.b) == 32 && new(big.Int).SetBytes(c.b).Cmp(secpN) >= 0:
					fp = "crossbuild:sign-bytes-differ:hash>=N"
				case bothValid:
					fp = "crossbuild:sign-bytes-differ:hash<N"
				default:
					fp = "crossbuild:sign:invalid-signature-in-one-build"
				}
			}
			r.Violation(fp, fmt.Sprintf("%s on a %s case (%s): cgo build %s, pure-Go build %s", k, c.kind, c.class, a[k], b[k]), w)
			break
		}
	}
	return true
}

func run(r *vrt.Run) {
	r.Rule("tx cases: (tx type) x (signer Frontier..Prague, LatestSignerForChainID) x (chain id 0,1,1337,2^31,2^63,2^64+7,2^200,random) x random/boundary keys, each with the cross-signer matrix and 16 tamperings of the valid signature; range cases: structured (v,r,s) triples; backend cases: sign/recover/verify/decompress/compress/unmarshal on valid and mutated inputs (r,s at 0,1,N/2,N-1,N,N+1,P-1,P,2^256-1; recovery ids 0..255; malleated and truncated signatures; hybrid/compressed/corrupted public keys). non-trivial signature = (tx type, signer, chain-id class, tamper kind, outcome) resp. (backend op, input class, result pattern)")
	ag = agg.New(r)
	shrink := 1
	if r.Race() {
		shrink = 8
	}
	nTx := r.N(3000, 100000) / shrink
	nRange := r.N(10000, 300000) / shrink
	nBackend := r.N(20000, 2000000) / shrink

	var sib string
	if cgoBuild {
		var err error
		if sib, err = siblingBinary(); err != nil {
			r.Inconclusive("pure-Go build of this harness not found (%v): cross-build comparison not done", err)
		}
		r.Extra("nocgo_binary", sib)
	} else {
		r.Inconclusive("this is the CGO_ENABLED=0 helper build: in-process checks ran, the cross-build comparison is done by the cgo variant")
	}
	const chunk = 200000
	rounds := (nBackend + chunk - 1) / chunk
	r.Extra("rounds", rounds)
	for k := 0; k < rounds; k++ {
		o := offsets{b: k * chunk, tx: k * (nTx / rounds), rg: k * (nRange / rounds)}
		nb := min(chunk, nBackend-o.b)
		if cgoBuild && sib == "" {
			break
		}
		if !round(r, sib, o, nb, nTx/rounds, nRange/rounds) {
			break
		}
	}
	ag.Flush()
	r.Require("crossbuild_lines_compared", int64(nBackend+nTx/rounds*rounds))
	r.Require("inverse_ok", int64(nTx/4))
	r.Require("sighash_checks", int64(nTx/4))
	r.Require("backend_sign_inverse_ok", int64(nBackend/20))
	r.Require("backend_recover_expected_ok", int64(nBackend/40))
	for _, k := range []string{"tamper_reject_high-s", "tamper_reject_r-out-of-range", "tamper_reject_s-out-of-range", "tamper_reject_bad-v", "cross_reject_chain-mismatch", "cross_reject_unsupported-type", "cross_accept"} {
		r.Require(k, 50)
	}
	r.Assume("reference signature hash (tx.go: refSigHash) transcribes EIP-155/2930/1559/4844/7702 with refrlp and x/crypto Keccak-256")
	r.Assume("range rules (tx.go: mustReject): 0<r<N, 0<s<N, s<=N/2 from Homestead on, v in {27,28} / {35+2c,36+2c} / {0,1}; the two backends are compared with each other, not with a third implementation")
	r.Assume("modern signer constructors panic for chain id 0 (documented by the message 'invalid chainID'): those combinations are skipped")
}
