package main

// Transaction-level part of C03: sign / recover inverse over types x signers x chain ids,
// independence of the signature hash from V/R/S (and equality with a reference computation),
// strictness of recovery (independent big.Int range rules), tampering.

import (
	"crypto/ecdsa"
	"errors"
	"fmt"
	"math/big"
	"math/rand"
	"strings"

	"github.com/ethereum/go-ethereum/common"
	"github.com/ethereum/go-ethereum/core/types"
	"github.com/ethereum/go-ethereum/crypto"
	"github.com/holiman/uint256"
	"golang.org/x/crypto/sha3"

	"verif/lib/refrlp"
	"verif/lib/vrt"
)

var (
	secpN, _  = new(big.Int).SetString("fffffffffffffffffffffffffffffffebaaedce6af48a03bbfd25e8cd0364141", 16)
	secpP, _  = new(big.Int).SetString("fffffffffffffffffffffffffffffffffffffffffffffffffffffffefffffc2f", 16)
	secpHalfN = new(big.Int).Rsh(secpN, 1)
	two256    = new(big.Int).Lsh(big.NewInt(1), 256)
)

func keccak(b ...[]byte) (out common.Hash) {
	h := sha3.NewLegacyKeccak256()
	for _, x := range b {
		h.Write(x)
	}
	h.Sum(out[:0])
	return out
}

// ---------------------------------------------------------------------------------------
// signers (model side)

type signerKind int

const (
	sFrontier signerKind = iota
	sHomestead
	sEIP155
	sBerlin // NewEIP2930Signer
	sLondon
	sCancun
	sPrague
	sLatest // LatestSignerForChainID
	nSignerKinds
)

var signerNames = [...]string{"frontier", "homestead", "eip155", "eip2930", "london", "cancun", "prague", "latest"}

func (k signerKind) String() string { return signerNames[k] }

type signerSpec struct {
	kind  signerKind
	chain *big.Int // ignored by frontier/homestead
}

func (s signerSpec) modern() bool { return s.kind >= sBerlin }

// effective kind: LatestSignerForChainID(nil) is Homestead, otherwise Prague.
func (s signerSpec) eff() signerKind {
	if s.kind == sLatest {
		if s.chain.Sign() == 0 {
			return sHomestead
		}
		return sPrague
	}
	return s.kind
}

// constructible: the modern constructors panic for chain id <= 0 (documented by the panic
// message "invalid chainID"); those combinations are outside the domain.
func (s signerSpec) constructible() bool {
	switch s.eff() {
	case sBerlin, sLondon, sCancun, sPrague:
		return s.chain.Sign() > 0
	}
	return true
}

func (s signerSpec) make() types.Signer {
	c := new(big.Int).Set(s.chain)
	switch s.kind {
	case sFrontier:
		return types.FrontierSigner{}
	case sHomestead:
		return types.HomesteadSigner{}
	case sEIP155:
		return types.NewEIP155Signer(c)
	case sBerlin:
		return types.NewEIP2930Signer(c)
	case sLondon:
		return types.NewLondonSigner(c)
	case sCancun:
		return types.NewCancunSigner(c)
	case sPrague:
		return types.NewPragueSigner(c)
	default:
		if c.Sign() == 0 {
			return types.LatestSignerForChainID(nil)
		}
		return types.LatestSignerForChainID(c)
	}
}

// supports: which transaction types a signer handles (doc comments of the constructors).
func (s signerSpec) supports(typ byte) bool {
	switch s.eff() {
	case sFrontier, sHomestead, sEIP155:
		return typ == types.LegacyTxType
	case sBerlin:
		return typ <= types.AccessListTxType
	case sLondon:
		return typ <= types.DynamicFeeTxType
	case sCancun:
		return typ <= types.BlobTxType
	default:
		return typ <= types.SetCodeTxType
	}
}

// eip155 reports whether legacy transactions are handled with EIP-155 rules, and the chain id.
func (s signerSpec) eip155() bool { e := s.eff(); return e >= sEIP155 }

var chainIDs = func() []*big.Int {
	c := []*big.Int{big.NewInt(0), big.NewInt(1), big.NewInt(1337), big.NewInt(1 << 31), new(big.Int).Lsh(big.NewInt(1), 63)}
	c = append(c, new(big.Int).Add(new(big.Int).Lsh(big.NewInt(1), 64), big.NewInt(7)))
	c = append(c, new(big.Int).Lsh(big.NewInt(1), 200))
	return c
}()

func chainClass(c *big.Int) string {
	switch {
	case c.Sign() == 0:
		return "0"
	case c.BitLen() <= 31:
		return "small"
	case c.BitLen() <= 64:
		return "u64"
	}
	return "big"
}

// ---------------------------------------------------------------------------------------
// transactions

// txFields is the harness' own record of an unsigned transaction (source for both the
// go-ethereum TxData and the reference signature hash).
type txFields struct {
	typ        byte
	chain      *big.Int // typed transactions only
	nonce, gas uint64
	price, tip *big.Int
	to         *common.Address
	value      *big.Int
	data       []byte
	al         types.AccessList
	blobFee    *big.Int
	hashes     []common.Hash
	auths      []types.SetCodeAuthorization
}

func u256(x *big.Int) *uint256.Int {
	y, _ := uint256.FromBig(x)
	return y
}

func (f *txFields) inner(v, r, s *big.Int) types.TxData {
	switch f.typ {
	case types.LegacyTxType:
		return &types.LegacyTx{Nonce: f.nonce, GasPrice: f.price, Gas: f.gas, To: f.to, Value: f.value, Data: f.data, V: v, R: r, S: s}
	case types.AccessListTxType:
		return &types.AccessListTx{ChainID: f.chain, Nonce: f.nonce, GasPrice: f.price, Gas: f.gas, To: f.to, Value: f.value, Data: f.data, AccessList: f.al, V: v, R: r, S: s}
	case types.DynamicFeeTxType:
		return &types.DynamicFeeTx{ChainID: f.chain, Nonce: f.nonce, GasTipCap: f.tip, GasFeeCap: f.price, Gas: f.gas, To: f.to, Value: f.value, Data: f.data, AccessList: f.al, V: v, R: r, S: s}
	case types.BlobTxType:
		return &types.BlobTx{ChainID: u256(f.chain), Nonce: f.nonce, GasTipCap: u256(f.tip), GasFeeCap: u256(f.price), Gas: f.gas, To: *f.to, Value: u256(f.value), Data: f.data, AccessList: f.al, BlobFeeCap: u256(f.blobFee), BlobHashes: f.hashes, V: u256(v), R: u256(r), S: u256(s)}
	default:
		return &types.SetCodeTx{ChainID: u256(f.chain), Nonce: f.nonce, GasTipCap: u256(f.tip), GasFeeCap: u256(f.price), Gas: f.gas, To: *f.to, Value: u256(f.value), Data: f.data, AccessList: f.al, AuthList: f.auths, V: u256(v), R: u256(r), S: u256(s)}
	}
}

// sigFits: blob and set-code transactions store V/R/S in 256 bits.
func (f *txFields) sigFits(v, r, s *big.Int) bool {
	if f.typ < types.BlobTxType {
		return true
	}
	return v.BitLen() <= 256 && r.BitLen() <= 256 && s.BitLen() <= 256
}

func genFields(rng *rand.Rand, typ byte, chain *big.Int) *txFields {
	bigv := func() *big.Int {
		switch rng.Intn(4) {
		case 0:
			return new(big.Int)
		case 1:
			return new(big.Int).SetUint64(rng.Uint64())
		case 2:
			return new(big.Int).Sub(two256, big.NewInt(1))
		}
		b := make([]byte, 1+rng.Intn(32))
		rng.Read(b)
		return new(big.Int).SetBytes(b)
	}
	f := &txFields{typ: typ, chain: new(big.Int).Set(chain), nonce: rng.Uint64() >> uint(rng.Intn(64)), gas: rng.Uint64() >> uint(rng.Intn(64)),
		price: bigv(), tip: bigv(), value: bigv(), blobFee: bigv()}
	if typ >= types.BlobTxType || rng.Intn(4) > 0 {
		var a common.Address
		rng.Read(a[:])
		f.to = &a
	}
	f.data = make([]byte, []int{0, 0, 1, 4, 36, 55, 56, 100, 300}[rng.Intn(9)])
	rng.Read(f.data)
	if len(f.data) == 1 && rng.Intn(2) == 0 {
		f.data[0] &= 0x7f
	}
	for i, n := 0, rng.Intn(3); i < n; i++ {
		var t types.AccessTuple
		rng.Read(t.Address[:])
		t.StorageKeys = make([]common.Hash, rng.Intn(3))
		for j := range t.StorageKeys {
			rng.Read(t.StorageKeys[j][:])
		}
		f.al = append(f.al, t)
	}
	for i, n := 0, 1+rng.Intn(2); i < n; i++ {
		var h common.Hash
		rng.Read(h[:])
		h[0] = 1
		f.hashes = append(f.hashes, h)
	}
	for i, n := 0, rng.Intn(3); i < n; i++ {
		a := types.SetCodeAuthorization{Nonce: rng.Uint64(), V: uint8(rng.Intn(2))}
		a.ChainID.SetUint64(rng.Uint64() >> uint(rng.Intn(64)))
		rng.Read(a.Address[:])
		a.R.SetBytes(bigv().Bytes())
		a.S.SetBytes(bigv().Bytes())
		f.auths = append(f.auths, a)
	}
	return f
}

// ---- reference signature hash (refrlp + x/crypto Keccak)

func rStr(b []byte) []byte     { return refrlp.EncodeString(b) }
func rBig(x *big.Int) []byte   { return refrlp.EncodeString(x.Bytes()) }
func rU64(x uint64) []byte     { return refrlp.EncodeUint(x) }
func rList(x ...[]byte) []byte { return refrlp.EncodeListRaw(x...) }

func rTo(a *common.Address) []byte {
	if a == nil {
		return []byte{0x80}
	}
	return rStr(a[:])
}

func rAccessList(al types.AccessList) []byte {
	var tuples [][]byte
	for _, t := range al {
		var keys [][]byte
		for _, k := range t.StorageKeys {
			keys = append(keys, rStr(k[:]))
		}
		tuples = append(tuples, rList(rStr(t.Address[:]), rList(keys...)))
	}
	return rList(tuples...)
}

// refSigHash computes the hash to be signed, from the EIPs: legacy pre-155
// keccak(rlp([nonce, gasprice, gas, to, value, data])), EIP-155 appends (chainid, 0, 0);
// typed: keccak(type || rlp([chainid, ...payload fields without signature])).
func (f *txFields) refSigHash(legacy155 bool, chain *big.Int) common.Hash {
	switch f.typ {
	case types.LegacyTxType:
		items := [][]byte{rU64(f.nonce), rBig(f.price), rU64(f.gas), rTo(f.to), rBig(f.value), rStr(f.data)}
		if legacy155 {
			items = append(items, rBig(chain), []byte{0x80}, []byte{0x80})
		}
		return keccak(rList(items...))
	case types.AccessListTxType:
		return keccak([]byte{1}, rList(rBig(chain), rU64(f.nonce), rBig(f.price), rU64(f.gas), rTo(f.to), rBig(f.value), rStr(f.data), rAccessList(f.al)))
	case types.DynamicFeeTxType:
		return keccak([]byte{2}, rList(rBig(chain), rU64(f.nonce), rBig(f.tip), rBig(f.price), rU64(f.gas), rTo(f.to), rBig(f.value), rStr(f.data), rAccessList(f.al)))
	case types.BlobTxType:
		var hs [][]byte
		for _, h := range f.hashes {
			hs = append(hs, rStr(h[:]))
		}
		return keccak([]byte{3}, rList(rBig(chain), rU64(f.nonce), rBig(f.tip), rBig(f.price), rU64(f.gas), rTo(f.to), rBig(f.value), rStr(f.data), rAccessList(f.al), rBig(f.blobFee), rList(hs...)))
	default:
		var as [][]byte
		for _, a := range f.auths {
			as = append(as, rList(rBig(a.ChainID.ToBig()), rStr(a.Address[:]), rU64(a.Nonce), rU64(uint64(a.V)), rBig(a.R.ToBig()), rBig(a.S.ToBig())))
		}
		return keccak([]byte{4}, rList(rBig(chain), rU64(f.nonce), rBig(f.tip), rBig(f.price), rU64(f.gas), rTo(f.to), rBig(f.value), rStr(f.data), rAccessList(f.al), rList(as...)))
	}
}

// ---------------------------------------------------------------------------------------
// recovery model (independent range rules)

// legacyProtected: transaction.go:isProtectedV — "anything not 27 or 28 [or 0/1] is
// considered protected".
func legacyProtected(v *big.Int) bool {
	if v.BitLen() <= 8 {
		x := v.Uint64()
		return x != 27 && x != 28 && x != 1 && x != 0
	}
	return true
}

// mustReject returns a reason if recovery of a transaction of f's type carrying (v, r, s) with
// signer sp has to fail, "" if the values are admissible (recovery may still fail when r is
// not the x coordinate of a curve point).
func mustReject(f *txFields, sp signerSpec, v, r, s *big.Int) string {
	if !sp.supports(f.typ) {
		return "unsupported-type"
	}
	if f.typ != types.LegacyTxType {
		if f.chain.Cmp(sp.chain) != 0 {
			return "chain-mismatch"
		}
		if !(v.Sign() == 0 || v.Cmp(big.NewInt(1)) == 0) {
			return "bad-v"
		}
	} else {
		plain := v.Cmp(big.NewInt(27)) == 0 || v.Cmp(big.NewInt(28)) == 0
		switch {
		case !sp.eip155() || !legacyProtected(v):
			// frontier/homestead rules: v must be 27 or 28
			if !plain {
				return "bad-v"
			}
		default:
			// EIP-155: v = 35 + 2*chainid + {0,1} for the signer's chain id
			base := new(big.Int).Lsh(sp.chain, 1)
			base.Add(base, big.NewInt(35))
			d := new(big.Int).Sub(v, base)
			if !(d.Sign() == 0 || d.Cmp(big.NewInt(1)) == 0) {
				// either another chain id or no valid parity
				return "chain-mismatch-or-bad-v"
			}
		}
	}
	if r.Sign() <= 0 || r.Cmp(secpN) >= 0 {
		return "r-out-of-range"
	}
	if s.Sign() <= 0 || s.Cmp(secpN) >= 0 {
		return "s-out-of-range"
	}
	if sp.eff() != sFrontier && s.Cmp(secpHalfN) > 0 {
		return "high-s"
	}
	return ""
}

func errName(err error) string {
	switch {
	case err == nil:
		return "ok"
	case errors.Is(err, types.ErrTxTypeNotSupported):
		return "type-not-supported"
	case errors.Is(err, types.ErrInvalidChainId):
		return "invalid-chain-id"
	case errors.Is(err, types.ErrInvalidSig):
		return "invalid-sig"
	}
	return "other-error"
}

// ---------------------------------------------------------------------------------------

func keyFromRng(rng *rand.Rand) (*ecdsa.PrivateKey, []byte) {
	d := make([]byte, 32)
	switch rng.Intn(12) {
	case 0:
		d[31] = 1
	case 1:
		d = new(big.Int).Sub(secpN, big.NewInt(1)).Bytes()
	case 2:
		d[31] = byte(2 + rng.Intn(250))
	default:
		for {
			rng.Read(d)
			if x := new(big.Int).SetBytes(d); x.Sign() > 0 && x.Cmp(secpN) < 0 {
				break
			}
		}
	}
	k, err := crypto.ToECDSA(d)
	if err != nil {
		panic("harness: key generation: " + err.Error())
	}
	return k, d
}

func addrOf(k *ecdsa.PrivateKey) common.Address {
	pub := make([]byte, 64)
	k.X.FillBytes(pub[:32])
	k.Y.FillBytes(pub[32:])
	h := keccak(pub)
	return common.BytesToAddress(h[12:])
}

// txCase runs case idx. When judge is true violations are recorded on r; the returned string
// summarises every observable output and is compared across the cgo and pure-Go builds.
func txCase(r *vrt.Run, idx int, judge bool) string {
	rng := r.Rand("tx", idx)
	var out strings.Builder
	typ := byte(idx % 5)
	sp := signerSpec{kind: signerKind(idx / 5 % int(nSignerKinds)), chain: chainIDs[idx/40%len(chainIDs)]}
	if rng.Intn(10) == 0 { // random chain id now and then
		sp.chain = new(big.Int).SetUint64(rng.Uint64() >> uint(rng.Intn(64)))
	}
	w := map[string]any{"case": idx, "type": typ, "signer": sp.kind.String(), "chain": sp.chain.String()}
	viol := func(fp, format string, a ...any) {
		if judge {
			r.Violation(fp, fmt.Sprintf(format, a...), w)
		}
	}
	count := func(name string) {
		if judge {
			ag.Count(idx, name, 1)
		}
	}
	tamper := "none"
	outcome := "skipped"
	defer func() {
		if judge {
			ag.Eval(idx, fmt.Sprintf("tx/t%d/%s/chain-%s/%s/%s", typ, sp.kind, chainClass(sp.chain), tamper, outcome))
		}
	}()
	if !sp.constructible() {
		count("skipped_modern_signer_chain0")
		return "skip"
	}
	key, dbytes := keyFromRng(rng)
	want := addrOf(key)
	w["key"] = vrt.Hex(dbytes)
	// chain id carried by a typed transaction: the signer's, 0 ("not specified"), or another
	txChain := sp.chain
	chainMode := "same"
	if typ != types.LegacyTxType {
		switch rng.Intn(8) {
		case 0:
			txChain, chainMode = big.NewInt(0), "zero"
		case 1:
			txChain, chainMode = new(big.Int).Add(sp.chain, big.NewInt(1)), "other"
		}
	}
	f := genFields(rng, typ, txChain)
	signer := sp.make()
	unsigned := types.NewTx(f.inner(new(big.Int), new(big.Int), new(big.Int)))

	// ---- signature hash: reference, and independence from V/R/S
	effChain := sp.chain // modern signers hash with their own chain id
	legacy155 := sp.eip155()
	if sp.supports(typ) {
		ref := f.refSigHash(legacy155, effChain)
		h0 := signer.Hash(unsigned)
		junkV, junkR, junkS := new(big.Int).SetUint64(rng.Uint64()), new(big.Int).SetUint64(rng.Uint64()), new(big.Int).SetUint64(rng.Uint64())
		h1 := signer.Hash(types.NewTx(f.inner(junkV, junkR, junkS)))
		fmt.Fprintf(&out, "sighash=%x/%x ", h0, h1)
		if h0 != h1 {
			viol("sighash:depends-on-signature:"+sp.kind.String(), "signer.Hash changes with V/R/S: %x vs %x", h0, h1)
		}
		if !(typ == types.LegacyTxType && sp.eff() == sEIP155 && sp.chain.Sign() == 0) {
			// (EIP155Signer with chain id 0 signs unprotected; its Hash is judged via the
			// sign/recover inverse below)
			if h0 != ref {
				viol("sighash:differs-from-reference:"+sp.kind.String(), "signer.Hash = %x, reference (EIP definition) = %x", h0, ref)
			}
		}
		count("sighash_checks")
	}

	// ---- sign
	signed, err := types.SignTx(unsigned, signer, key)
	fmt.Fprintf(&out, "sign=%s ", errName(err))
	wantSignErr := ""
	switch {
	case !sp.supports(typ):
		wantSignErr = "unsupported-type"
	case typ != types.LegacyTxType && chainMode == "other":
		wantSignErr = "chain-mismatch"
	}
	if (err != nil) != (wantSignErr != "") {
		if err == nil {
			viol("sign:accepts:"+wantSignErr, "SignTx(type %d, %s signer chain %s, tx chain %s) succeeded", typ, sp.kind, sp.chain, txChain)
		} else {
			viol("sign:rejects-supported:"+sp.kind.String(), "SignTx(type %d, %s signer chain %s, tx chain %s): %v", typ, sp.kind, sp.chain, txChain, err)
		}
		outcome = "sign-unexpected"
		return out.String()
	}
	if err != nil {
		count("sign_rejected_" + wantSignErr)
		outcome = "sign-rejected-" + wantSignErr
		// recovery of the unsigned transaction with an unsupporting signer must fail as well
		if !sp.supports(typ) {
			if _, e := types.Sender(signer, types.NewTx(f.inner(big.NewInt(0), big.NewInt(1), big.NewInt(1)))); e == nil {
				viol("sender:accepts:unsupported-type", "Sender(%s signer, type %d) succeeded", sp.kind, typ)
			}
		}
		return out.String()
	}
	bin, _ := signed.MarshalBinary()
	fmt.Fprintf(&out, "signed=%x ", keccak(bin))
	w["signed_tx"] = vrt.Hex(bin)
	v, rr, s := signed.RawSignatureValues()
	if typ != types.LegacyTxType {
		f.chain = sp.chain // WithSignature stores the signer's chain id
		if signed.ChainId().Cmp(sp.chain) != 0 {
			viol("sign:chain-id-not-set", "signed typed tx has chain id %s, signer %s", signed.ChainId(), sp.chain)
		}
	}
	// what was signed, independently: the reference hash must verify under the key
	refHash := f.refSigHash(legacy155 && !(sp.eff() == sEIP155 && sp.chain.Sign() == 0), sp.chain)
	sig64 := make([]byte, 64)
	rr.FillBytes(sig64[:32])
	s.FillBytes(sig64[32:])
	pub65 := append([]byte{4}, make([]byte, 64)...)
	key.X.FillBytes(pub65[1:33])
	key.Y.FillBytes(pub65[33:])
	verified := crypto.VerifySignature(pub65, refHash[:], sig64)
	fmt.Fprintf(&out, "verify=%v ", verified)

	// ---- inverse: fresh decoded copy, no caches
	fresh := func(v, r, s *big.Int) *types.Transaction { return types.NewTx(f.inner(v, r, s)) }
	decoded := new(types.Transaction)
	if err := decoded.UnmarshalBinary(bin); err != nil {
		viol("sign:produces-undecodable-tx", "UnmarshalBinary(signed): %v", err)
		return out.String()
	}
	got, err := types.Sender(signer, decoded)
	fmt.Fprintf(&out, "sender=%x/%s ", got, errName(err))
	switch {
	case err != nil:
		viol("sender:error-on-valid:"+sp.kind.String(), "Sender(%s chain %s, SignTx(type %d)) failed: %v", sp.kind, sp.chain, typ, err)
	case got != want:
		// One known root cause has its own fingerprint: types.NewEIP155Signer(0) hashes the
		// 9-item EIP-155 form (chain id 0) in Hash() but emits an unprotected V (27/28), so
		// Sender takes the Homestead path and recovers over the 6-item hash. The fingerprint is
		// used only if exactly that is observed: EIP155Signer, chain id 0, legacy tx, unprotected
		// V, and the signature verifies under the key over the 9-item hash with chain id 0.
		fp := "sender:wrong-address:" + sp.kind.String()
		if sp.kind == sEIP155 && sp.chain.Sign() == 0 && typ == types.LegacyTxType && !legacyProtected(v) {
			h9 := f.refSigHash(true, new(big.Int))
			if crypto.VerifySignature(pub65, h9[:], sig64) && !verified {
				fp = "sender:wrong-address:eip155-chain0"
			}
		}
		viol(fp, "Sender(%s chain %s, SignTx(type %d, key)) = %x, key address %x (signature verifies over the reference hash: %v)", sp.kind, sp.chain, typ, got, want, verified)
		// stop this case: the matrix and the tamperings below presuppose a working inverse
		outcome = "inverse-broken"
		return out.String()
	default:
		if !verified {
			viol("sign:signature-not-over-reference-hash:"+sp.kind.String(), "signature of SignTx does not verify over the reference signature hash %x", refHash)
		}
		count("inverse_ok")
	}
	// cached sender must agree with an uncached computation for every other signer
	if m := mustReject(f, sp, v, rr, s); m != "" {
		viol("harness:model-rejects-valid", "model says %s for a freshly signed tx (v=%s)", m, v)
	}

	// ---- cross-signer matrix on the signed transaction (cache on one shared object too)
	shared := fresh(v, rr, s)
	for k := signerKind(0); k < nSignerKinds; k++ {
		for _, c := range []*big.Int{sp.chain, new(big.Int).Add(sp.chain, big.NewInt(1))} {
			other := signerSpec{kind: k, chain: c}
			if !other.constructible() {
				continue
			}
			os := other.make()
			a1, e1 := types.Sender(os, fresh(v, rr, s))
			a2, e2 := types.Sender(os, shared) // exercises cache invalidation
			fmt.Fprintf(&out, "x%d/%s=%x/%s ", k, chainClass(c), a1, errName(e1))
			if (e1 == nil) != (e2 == nil) || a1 != a2 {
				viol("sender:cache-differs", "Sender with %s signer on a tx previously queried with another signer: %x/%v, uncached %x/%v", k, a2, e2, a1, e1)
			}
			reason := mustReject(f, other, v, rr, s)
			switch {
			case reason != "" && e1 == nil:
				viol("sender:accepts:"+reason, "tx type %d signed with %s chain %s (v=%s): Sender with %s signer chain %s returned %x", typ, sp.kind, sp.chain, v, k, c, a1)
			case reason == "" && e1 != nil:
				viol("sender:cross-signer-rejects:"+k.String(), "tx type %d signed with %s chain %s (v=%s): Sender with %s signer chain %s: %v", typ, sp.kind, sp.chain, v, k, c, e1)
			case reason == "" && a1 != want:
				viol("sender:cross-signer-wrong-address:"+k.String(), "tx type %d signed with %s chain %s: Sender with %s signer chain %s = %x, want %x", typ, sp.kind, sp.chain, k, c, a1, want)
			}
			if reason != "" {
				count("cross_reject_" + reason)
			} else {
				count("cross_accept")
			}
		}
	}

	// ---- tampering with the valid signature
	type tam struct {
		name    string
		v, r, s *big.Int
		notOrig bool // acceptance allowed, but never with the original address
	}
	flipV := func() *big.Int {
		if typ != types.LegacyTxType {
			return new(big.Int).Xor(v, big.NewInt(1))
		}
		// 27<->28, 35+2c <-> 36+2c
		if v.Bit(0) == 1 {
			return new(big.Int).Add(v, big.NewInt(1))
		}
		return new(big.Int).Sub(v, big.NewInt(1))
	}
	hiS := new(big.Int).Sub(secpN, s)
	tams := []tam{
		{"high-s", v, rr, hiS, false},
		{"high-s-flipv", flipV(), rr, hiS, false},
		{"r-zero", v, new(big.Int), s, false},
		{"s-zero", v, rr, new(big.Int), false},
		{"r-eq-n", v, secpN, s, false},
		{"s-eq-n", v, rr, secpN, false},
		{"r-plus-n", v, new(big.Int).Add(rr, secpN), s, false},
		{"s-plus-n", v, rr, new(big.Int).Add(s, secpN), false},
		{"r-max", v, new(big.Int).Sub(two256, big.NewInt(1)), s, false},
		{"v-plus-2", new(big.Int).Add(v, big.NewInt(2)), rr, s, false},
		{"v-minus-2", new(big.Int).Sub(v, big.NewInt(2)), rr, s, false},
		{"v-plus-256", new(big.Int).Add(v, big.NewInt(256)), rr, s, false},
		{"v-plus-2^64", new(big.Int).Add(v, new(big.Int).Lsh(big.NewInt(1), 64)), rr, s, false},
		{"v-flip", flipV(), rr, s, true},
		{"r-bitflip", v, new(big.Int).Xor(rr, new(big.Int).Lsh(big.NewInt(1), uint(rng.Intn(255)))), s, true},
		{"s-bitflip", v, rr, new(big.Int).Xor(s, new(big.Int).Lsh(big.NewInt(1), uint(rng.Intn(250)))), true},
	}
	pick := rng.Intn(len(tams))
	for ti, t := range tams {
		if t.v.Sign() < 0 || !f.sigFits(t.v, t.r, t.s) {
			continue
		}
		a, e := types.Sender(signer, fresh(t.v, t.r, t.s))
		fmt.Fprintf(&out, "%s=%x/%s ", t.name, a, errName(e))
		reason := mustReject(f, sp, t.v, t.r, t.s)
		if ti == pick {
			tamper = t.name
			outcome = "tamper-" + errName(e)
		}
		switch {
		case reason != "" && e == nil:
			viol("sender:accepts:"+reason, "tamper %s on tx type %d, %s signer chain %s: Sender accepted v=%s r=%x s=%x and returned %x", t.name, typ, sp.kind, sp.chain, t.v, t.r, t.s, a)
		case e == nil && a == want && !(sp.eff() == sFrontier && t.name == "high-s-flipv"):
			// (with Frontier rules the malleated signature (r, N-s, v^1) is valid for the same key)
			viol("sender:tampered-signature-recovers-original", "tamper %s on tx type %d, %s signer: still recovers the original address", t.name, typ, sp.kind)
		}
		if reason != "" {
			count("tamper_reject_" + reason)
		} else if e == nil {
			count("tamper_admissible_accepted")
		} else {
			count("tamper_admissible_rejected")
		}
	}
	if outcome == "skipped" {
		outcome = "signed"
	}
	return out.String()
}

// rangeCase: arbitrary (v, r, s) triples against the independent range rules.
func rangeCase(r *vrt.Run, idx int, judge bool) string {
	rng := r.Rand("range", idx)
	typ := byte(rng.Intn(5))
	sp := signerSpec{kind: signerKind(rng.Intn(int(nSignerKinds))), chain: chainIDs[rng.Intn(len(chainIDs))]}
	if !sp.constructible() {
		return "skip"
	}
	f := genFields(rng, typ, sp.chain)
	special := []*big.Int{big.NewInt(0), big.NewInt(1), secpHalfN, new(big.Int).Add(secpHalfN, big.NewInt(1)), new(big.Int).Sub(secpN, big.NewInt(1)), secpN, new(big.Int).Add(secpN, big.NewInt(1)), secpP, new(big.Int).Sub(two256, big.NewInt(1)), two256}
	val := func() *big.Int {
		if rng.Intn(3) == 0 {
			return special[rng.Intn(len(special))]
		}
		b := make([]byte, 32)
		rng.Read(b)
		x := new(big.Int).SetBytes(b)
		if rng.Intn(2) == 0 {
			x.Rsh(x, 1) // below N/2 most of the time
		}
		return x
	}
	var v *big.Int
	base := new(big.Int).Lsh(sp.chain, 1)
	switch rng.Intn(8) {
	case 0:
		v = big.NewInt(int64(rng.Intn(4)))
	case 1:
		v = big.NewInt(27 + int64(rng.Intn(2)))
	case 2:
		v = new(big.Int).Add(base, big.NewInt(35+int64(rng.Intn(2))))
	case 3:
		v = new(big.Int).Add(base, big.NewInt(33+int64(rng.Intn(6))))
	case 4:
		v = big.NewInt(int64(rng.Intn(300)))
	case 5:
		v = new(big.Int).SetUint64(rng.Uint64())
	default:
		if typ == types.LegacyTxType {
			v = big.NewInt(27 + int64(rng.Intn(2)))
		} else {
			v = big.NewInt(int64(rng.Intn(2)))
		}
	}
	rr, s := val(), val()
	if !f.sigFits(v, rr, s) {
		return "skip"
	}
	w := map[string]any{"case": idx, "type": typ, "signer": sp.kind.String(), "chain": sp.chain.String(), "v": v.String(), "r": rr.Text(16), "s": s.Text(16)}
	tx := types.NewTx(f.inner(v, rr, s))
	a, err := types.Sender(sp.make(), tx)
	reason := mustReject(f, sp, v, rr, s)
	if judge {
		if reason != "" && err == nil {
			r.Violation("sender:accepts:"+reason, fmt.Sprintf("Sender(%s chain %s) accepted type %d tx with v=%s r=%x s=%x -> %x", sp.kind, sp.chain, typ, v, rr, s, a), w)
		}
		cls := "admissible-" + errName(err)
		if reason != "" {
			cls = "reject-" + reason
		}
		ag.Count(idx, "range_"+cls, 1)
		ag.Eval(idx, fmt.Sprintf("range/t%d/%s/%s", typ, sp.kind, cls))
	}
	return fmt.Sprintf("range=%x/%s", a, errName(err))
}
