package main

// Cross-build comparison of the two secp256k1 backends (crypto/signature_cgo.go vs
// crypto/signature_nocgo.go). The cgo build generates the corpus (it needs valid signatures),
// writes it to a file, evaluates it, and runs the CGO_ENABLED=0 build of this same harness as
// a child (mode "backend") that evaluates the identical file; the two output files are diffed.

import (
	"bufio"
	"bytes"
	"crypto/ecdsa"
	"encoding/hex"
	"fmt"
	"math/big"
	"math/rand"
	"os"
	"os/exec"
	"path/filepath"
	"strings"
	"syscall"
	"time"

	"github.com/ethereum/go-ethereum/crypto"

	"verif/lib/vrt"
)

type bcase struct {
	kind    string
	a, b, c []byte
	class   string // input class (evidence + fingerprint of a disagreement)
}

func hx(b []byte) string {
	if len(b) == 0 {
		return "-"
	}
	return hex.EncodeToString(b)
}

func unhx(s string) []byte {
	if s == "-" {
		return nil
	}
	b, err := hex.DecodeString(s)
	if err != nil {
		panic("harness: corpus file corrupt: " + err.Error())
	}
	return b
}

func writeCorpus(path string, cases []bcase) error {
	var buf bytes.Buffer
	for i, c := range cases {
		fmt.Fprintf(&buf, "%d %s %s %s %s\n", i, c.kind, hx(c.a), hx(c.b), hx(c.c))
	}
	return os.WriteFile(path, buf.Bytes(), 0o644)
}

func readCorpus(path string) ([]bcase, error) {
	f, err := os.Open(path)
	if err != nil {
		return nil, err
	}
	defer f.Close()
	var out []bcase
	sc := bufio.NewScanner(f)
	sc.Buffer(make([]byte, 1<<20), 1<<20)
	for sc.Scan() {
		p := strings.Fields(sc.Text())
		if len(p) != 5 {
			return nil, fmt.Errorf("bad corpus line %q", sc.Text())
		}
		out = append(out, bcase{kind: p[1], a: unhx(p[2]), b: unhx(p[3]), c: unhx(p[4])})
	}
	return out, sc.Err()
}

func pubBytes(p *ecdsa.PublicKey) []byte {
	if p == nil || p.X == nil || p.Y == nil {
		return nil
	}
	out := make([]byte, 65)
	out[0] = 4
	p.X.FillBytes(out[1:33])
	p.Y.FillBytes(out[33:])
	return out
}

// evalCase computes every observable output of one case with the crypto package of this build.
// Error texts differ between the backends by design; only accept/reject is recorded.
func evalCase(c bcase) (res []string) {
	defer func() {
		if e := recover(); e != nil {
			res = append(res, fmt.Sprintf("PANIC(%v)", e))
		}
	}()
	errOr := func(b []byte, err error) string {
		if err != nil {
			return "ERR"
		}
		return hx(b)
	}
	switch c.kind {
	case "sign":
		d := new(big.Int).SetBytes(c.a)
		prv := &ecdsa.PrivateKey{D: d}
		prv.Curve = crypto.S256()
		if d.Sign() > 0 && d.Cmp(secpN) < 0 {
			prv.X, prv.Y = crypto.S256().ScalarBaseMult(c.a)
			res = append(res, "pub="+hx(pubBytes(&prv.PublicKey)))
		}
		sig, err := crypto.Sign(c.b, prv)
		res = append(res, "sig="+errOr(sig, err))
	case "rec":
		pub, err := crypto.Ecrecover(c.a, c.b)
		res = append(res, "ecrecover="+errOr(pub, err))
		pk, err2 := crypto.SigToPub(c.a, c.b)
		res = append(res, "sigtopub="+errOr(pubBytes(pk), err2))
		if err == nil && len(c.b) >= 64 {
			res = append(res, fmt.Sprintf("verify-recovered=%v", crypto.VerifySignature(pub, c.a, c.b[:64])))
		}
	case "ver":
		res = append(res, fmt.Sprintf("verify=%v", crypto.VerifySignature(c.a, c.b, c.c)))
	case "dec":
		pk, err := crypto.DecompressPubkey(c.a)
		res = append(res, "decompress="+errOr(pubBytes(pk), err))
	case "cmp":
		pk, err := crypto.UnmarshalPubkey(c.a)
		if err != nil {
			res = append(res, "unmarshal=ERR")
			break
		}
		comp := crypto.CompressPubkey(pk)
		res = append(res, "compress="+hx(comp))
		back, err := crypto.DecompressPubkey(comp)
		res = append(res, "decompress="+errOr(pubBytes(back), err))
	case "unm":
		pk, err := crypto.UnmarshalPubkey(c.a)
		res = append(res, "unmarshal="+errOr(pubBytes(pk), err))
	}
	return res
}

// ---------------------------------------------------------------------------------------
// corpus generation (primary build only)

var specialScalars = func() [][]byte {
	vals := []*big.Int{big.NewInt(0), big.NewInt(1), big.NewInt(2), secpHalfN, new(big.Int).Add(secpHalfN, big.NewInt(1)),
		new(big.Int).Sub(secpN, big.NewInt(1)), secpN, new(big.Int).Add(secpN, big.NewInt(1)),
		new(big.Int).Sub(secpP, big.NewInt(1)), secpP, new(big.Int).Add(secpP, big.NewInt(1)),
		new(big.Int).Sub(secpP, secpN), new(big.Int).Sub(new(big.Int).Sub(secpP, secpN), big.NewInt(1)),
		new(big.Int).Sub(two256, big.NewInt(1))}
	out := make([][]byte, len(vals))
	for i, v := range vals {
		out[i] = v.FillBytes(make([]byte, 32))
	}
	return out
}()

func rsClass(sig []byte) string {
	if len(sig) < 64 {
		return "short"
	}
	cls := func(b []byte) string {
		x := new(big.Int).SetBytes(b)
		switch {
		case x.Sign() == 0:
			return "0"
		case x.Cmp(secpN) >= 0:
			return ">=N"
		case x.Cmp(secpHalfN) > 0:
			return "hi"
		}
		return "lo"
	}
	return "r" + cls(sig[:32]) + "-s" + cls(sig[32:64])
}

func recidClass(sig []byte) string {
	if len(sig) != 65 {
		return fmt.Sprintf("len%d", len(sig))
	}
	switch v := sig[64]; {
	case v <= 1:
		return "recid0-1"
	case v <= 3:
		return "recid2-3"
	case v <= 7:
		return "recid4-7"
	case v == 27 || v == 28:
		return "recid27-28"
	case v >= 229:
		return "recid229-255"
	}
	return "recid-other"
}

func genHash(rng *rand.Rand) []byte {
	h := make([]byte, 32)
	switch rng.Intn(10) {
	case 0:
		return h
	case 1:
		for i := range h {
			h[i] = 0xff
		}
		return h
	case 2:
		return append([]byte{}, specialScalars[rng.Intn(len(specialScalars))]...)
	}
	rng.Read(h)
	return h
}

// genBackendCase returns one case and the public key of the (valid) key it was built around.
func genBackendCase(rng *rand.Rand) (bcase, []byte) {
	key, d := keyFromRng(rng)
	pub := pubBytes(&key.PublicKey)
	return genBackendCaseKey(rng, key, d, pub), pub
}

func genBackendCaseKey(rng *rand.Rand, key *ecdsa.PrivateKey, d, pub []byte) bcase {
	validSig := func(h []byte) []byte {
		sig, err := crypto.Sign(h, key)
		if err != nil {
			panic("harness: Sign: " + err.Error())
		}
		return sig
	}
	switch x := rng.Intn(100); {
	case x < 15: // ---- sign
		c := bcase{kind: "sign", a: d, b: genHash(rng), class: "valid-key"}
		switch rng.Intn(10) {
		case 0:
			c.a, c.class = append([]byte{}, specialScalars[rng.Intn(len(specialScalars))]...), "special-key"
		case 1:
			c.b, c.class = make([]byte, []int{0, 31, 33, 64}[rng.Intn(4)]), "bad-hash-length"
		}
		return c
	case x < 60: // ---- recover
		h := genHash(rng)
		sig := validSig(h)
		c := bcase{kind: "rec", a: h, class: "valid"}
		switch m := rng.Intn(16); m {
		case 0:
		case 1:
			h = append([]byte{}, h...)
			h[rng.Intn(32)] ^= 1 << uint(rng.Intn(8))
			c.a, c.class = h, "hash-bitflip"
		case 2:
			sig[rng.Intn(32)] ^= 1 << uint(rng.Intn(8))
			c.class = "r-bitflip"
		case 3:
			sig[32+rng.Intn(32)] ^= 1 << uint(rng.Intn(8))
			c.class = "s-bitflip"
		case 4:
			copy(sig[:32], specialScalars[rng.Intn(len(specialScalars))])
			c.class = "r-special"
		case 5:
			copy(sig[32:64], specialScalars[rng.Intn(len(specialScalars))])
			c.class = "s-special"
		case 6, 7:
			sig[64] = []byte{0, 1, 2, 3, 4, 5, 6, 7, 8, 26, 27, 28, 29, 30, 31, 32, 34, 35, 128, 228, 229, 230, 255}[rng.Intn(23)]
			c.class = "recid"
		case 8:
			sig[64] = byte(rng.Intn(256))
			c.class = "recid"
		case 9: // malleated: (r, N-s, recid^1) is a valid signature of the same key
			s := new(big.Int).Sub(secpN, new(big.Int).SetBytes(sig[32:64]))
			s.FillBytes(sig[32:64])
			sig[64] ^= 1
			c.class = "high-s-malleated"
		case 10:
			s := new(big.Int).Sub(secpN, new(big.Int).SetBytes(sig[32:64]))
			s.FillBytes(sig[32:64])
			c.class = "high-s"
		case 11:
			sig = sig[:[]int{0, 1, 64}[rng.Intn(3)]]
			c.class = "sig-short"
		case 12:
			sig = append(sig, byte(rng.Intn(256)))
			c.class = "sig-long"
		case 13: // small r with the overflow recovery ids (x = r + N must be < P)
			r := make([]byte, 32)
			rng.Read(r[16+rng.Intn(3):])
			copy(sig[:32], r)
			sig[64] = byte(2 + rng.Intn(2))
			c.class = "r-small-overflow-recid"
		case 14:
			rng.Read(sig)
			sig[64] = byte(rng.Intn(4))
			c.class = "random-sig"
		default:
			c.a = make([]byte, []int{0, 31, 33}[rng.Intn(3)])
			c.class = "bad-hash-length"
		}
		c.b = sig
		c.class += "/" + recidClass(sig) + "/" + rsClass(sig)
		return c
	case x < 80: // ---- verify
		h := genHash(rng)
		sig := validSig(h)[:64]
		p := append([]byte{}, pub...)
		if rng.Intn(2) == 0 {
			p = crypto.CompressPubkey(&key.PublicKey)
		}
		c := bcase{kind: "ver", b: h, class: "valid"}
		switch rng.Intn(14) {
		case 0, 1:
		case 2:
			s := new(big.Int).Sub(secpN, new(big.Int).SetBytes(sig[32:64]))
			s.FillBytes(sig[32:64])
			c.class = "high-s"
		case 3:
			copy(sig[:32], specialScalars[rng.Intn(len(specialScalars))])
			c.class = "r-special"
		case 4:
			copy(sig[32:], specialScalars[rng.Intn(len(specialScalars))])
			c.class = "s-special"
		case 5:
			sig[rng.Intn(64)] ^= 1 << uint(rng.Intn(8))
			c.class = "sig-bitflip"
		case 6:
			p[0] = []byte{0, 1, 2, 3, 4, 5, 6, 7, 8, 0xff}[rng.Intn(10)]
			c.class = fmt.Sprintf("pub-prefix-%02x-len%d", p[0], len(p))
		case 7:
			p[1+rng.Intn(len(p)-1)] ^= 1 << uint(rng.Intn(8))
			c.class = fmt.Sprintf("pub-bitflip-len%d", len(p))
		case 8:
			copy(p[1:33], specialScalars[8+rng.Intn(3)]) // x = P-1, P, P+1
			c.class = fmt.Sprintf("pub-x-near-p-len%d", len(p))
		case 9:
			p = p[:rng.Intn(len(p))]
			c.class = "pub-truncated"
		case 10:
			p = append(p, 0)
			c.class = "pub-long"
		case 11:
			sig = sig[:63]
			c.class = "sig63"
		case 12:
			h = h[:31]
			c.b = h
			c.class = "hash31"
		default:
			// hybrid encodings 06/07 of the right parity
			if len(p) == 65 {
				p[0] = 6 + p[64]&1
				c.class = "pub-hybrid"
			}
		}
		c.a, c.c = p, sig
		return c
	case x < 90: // ---- decompress
		p := crypto.CompressPubkey(&key.PublicKey)
		c := bcase{kind: "dec", class: "valid"}
		switch rng.Intn(8) {
		case 0, 1:
		case 2:
			p[0] = []byte{0, 1, 4, 5, 6, 7, 0xff}[rng.Intn(7)]
			c.class = "prefix"
		case 3:
			p[1+rng.Intn(32)] ^= 1 << uint(rng.Intn(8))
			c.class = "x-bitflip"
		case 4:
			copy(p[1:], specialScalars[rng.Intn(len(specialScalars))])
			c.class = "x-special"
		case 5:
			p = p[:rng.Intn(33)]
			c.class = "short"
		case 6:
			p = append([]byte{}, pub...)
			c.class = "uncompressed-input"
		default:
			p[0] ^= 1
			c.class = "other-parity"
		}
		c.a = p
		return c
	case x < 95: // ---- compress (valid points only: CompressPubkey is documented for valid keys)
		return bcase{kind: "cmp", a: pub, class: "valid"}
	default: // ---- unmarshal
		p := append([]byte{}, pub...)
		c := bcase{kind: "unm", class: "valid"}
		switch rng.Intn(7) {
		case 0:
		case 1:
			p[0] = []byte{0, 2, 3, 6, 7}[rng.Intn(5)]
			c.class = "prefix"
		case 2:
			p[1+rng.Intn(64)] ^= 1 << uint(rng.Intn(8))
			c.class = "bitflip"
		case 3:
			copy(p[1:33], specialScalars[8+rng.Intn(3)])
			c.class = "x-near-p"
		case 4:
			copy(p[33:], specialScalars[8+rng.Intn(3)])
			c.class = "y-near-p"
		case 5:
			p = p[:rng.Intn(65)]
			c.class = "short"
		default:
			for i := 1; i < 65; i++ {
				p[i] = 0
			}
			c.class = "zero-point"
		}
		c.a = p
		return c
	}
}

// ---------------------------------------------------------------------------------------
// child side

func init() {
	vrt.RegisterChild("backend", func(r *vrt.Run) {
		if err := childBackend(r); err != nil {
			fmt.Fprintln(os.Stderr, "backend child:", err)
			os.Exit(4)
		}
	})
}

func childBackend(r *vrt.Run) error {
	cases, err := readCorpus(os.Getenv("VERIF_C03_CORPUS"))
	if err != nil {
		return err
	}
	var nTx, nRange int
	var o offsets
	fmt.Sscan(os.Getenv("VERIF_C03_NTX"), &nTx)
	fmt.Sscan(os.Getenv("VERIF_C03_NRANGE"), &nRange)
	fmt.Sscan(os.Getenv("VERIF_C03_OFFSETS"), &o.b, &o.tx, &o.rg)
	lines := evalAll(r, cases, o, nTx, nRange, false)
	return os.WriteFile(os.Getenv("VERIF_C03_OUT"), []byte(strings.Join(lines, "\n")+"\n"), 0o644)
}

// evalAll produces the comparable output lines of this build: one per backend case, one per
// transaction-level case (summary of every output), in a fixed order.
func evalAll(r *vrt.Run, cases []bcase, o offsets, nTx, nRange int, judge bool) []string {
	lines := make([]string, len(cases)+nTx+nRange)
	vrt.Par(len(cases), 0, func(i int) {
		if judge {
			r.Case("backend case #%d %s %s %s %s", o.b+i, cases[i].kind, hx(cases[i].a), hx(cases[i].b), hx(cases[i].c))
		}
		lines[i] = fmt.Sprintf("B%d %s", o.b+i, strings.Join(evalCase(cases[i]), " "))
	})
	vrt.Par(nTx, 0, func(i int) {
		idx := o.tx + i
		if judge {
			r.Case("tx case #%d", idx)
		}
		var s string
		if judge {
			r.Guard("tx", map[string]any{"case": idx}, func() { s = txCase(r, idx, true) })
		} else {
			s = txCase(r, idx, false)
		}
		lines[len(cases)+i] = fmt.Sprintf("T%d %s", idx, s)
	})
	vrt.Par(nRange, 0, func(i int) {
		idx := o.rg + i
		if judge {
			r.Case("range case #%d", idx)
		}
		var s string
		if judge {
			r.Guard("range", map[string]any{"case": idx}, func() { s = rangeCase(r, idx, true) })
		} else {
			s = rangeCase(r, idx, false)
		}
		lines[len(cases)+nTx+i] = fmt.Sprintf("R%d %s", idx, s)
	})
	return lines
}

// siblingBinary locates the CGO_ENABLED=0 build of this harness: the driver names variant
// binaries <ID>-<variant>[-alt<hash>] in one directory.
func siblingBinary() (string, error) {
	if p := os.Getenv("VERIF_C03_NOCGO"); p != "" {
		return p, nil
	}
	self, err := os.Executable()
	if err != nil {
		return "", err
	}
	base := filepath.Base(self)
	if !strings.Contains(base, "-default") {
		return "", fmt.Errorf("binary name %q has no -default part; set VERIF_C03_NOCGO", base)
	}
	p := filepath.Join(filepath.Dir(self), strings.Replace(base, "-default", "-nocgo", 1))
	if _, err := os.Stat(p); err != nil {
		return "", err
	}
	return p, nil
}

// runSibling executes the nocgo build in child mode.
func runSibling(r *vrt.Run, bin, corpus, out string, o offsets, nTx, nRange int, watchdog time.Duration) error {
	cmd := exec.Command(bin)
	cmd.Env = append(os.Environ(), "VERIF_CHILD=backend", "VERIF_OUT=", "VERIF_CASEFILE=",
		"VERIF_C03_CORPUS="+corpus, "VERIF_C03_OUT="+out, fmt.Sprintf("VERIF_C03_NTX=%d", nTx), fmt.Sprintf("VERIF_C03_NRANGE=%d", nRange), fmt.Sprintf("VERIF_C03_OFFSETS=%d %d %d", o.b, o.tx, o.rg))
	var buf bytes.Buffer
	cmd.Stdout, cmd.Stderr = &buf, &buf
	cmd.SysProcAttr = &syscall.SysProcAttr{Setpgid: true}
	if err := cmd.Start(); err != nil {
		return err
	}
	done := make(chan error, 1)
	go func() { done <- cmd.Wait() }()
	select {
	case err := <-done:
		if err != nil {
			return fmt.Errorf("%v: %s", err, tail(buf.Bytes(), 2000))
		}
		return nil
	case <-time.After(watchdog):
		syscall.Kill(-cmd.Process.Pid, syscall.SIGKILL)
		<-done
		return fmt.Errorf("watchdog (%s) expired", watchdog)
	}
}

func tail(b []byte, n int) string {
	if len(b) > n {
		b = b[len(b)-n:]
	}
	return string(b)
}
