//go:build cgo

package main

// cgoBuild tells which secp256k1 backend go-ethereum's crypto package was compiled with
// (crypto/signature_cgo.go has the same constraint plus !nacl && !js && !gofuzz).
const cgoBuild = true
