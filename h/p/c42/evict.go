package main

// Eviction order: reference priority, eviction-order oracle and the eviction-focused workload.
//
// The reference is written from the policy documented in core/txpool/blobpool/blobpool.go
// ("The eviction strategy is quite complex: ...") and priority.go, not from the heap's Less:
//
//   - an account is ranked by the lowest paying transaction anywhere in its pooled nonce
//     sequence: the minimum execution fee cap and the minimum blob fee cap over all its pooled
//     transactions (independently per dimension);
//   - jumps = floor(log1.125(txfee) - log1.125(basefee)), for the blob fee log1.17 with
//     1.17 := 1.125^(4/3);
//   - priority = min(deltaBasefee, deltaBlobfee, 0);
//   - exceeding the capacity evicts the highest nonce of the account with the lowest priority.
//
// The execution tip is documented as the "splitter inside a bucket"; the code does not refresh
// the heap when only the tip minimum changes, so accounts of equal priority are treated as ties
// (any of them may be the victim); tip inversions among ties are only counted.

import (
	"fmt"
	"math"
	"math/big"
	"sort"
	"strings"

	"github.com/ethereum/go-ethereum/common"
	"github.com/ethereum/go-ethereum/consensus/misc/eip1559"
	"github.com/ethereum/go-ethereum/consensus/misc/eip4844"
	"github.com/ethereum/go-ethereum/core/txpool/blobpool"
	"github.com/ethereum/go-ethereum/core/types"
	"github.com/ethereum/go-ethereum/params"
)

// refFees returns the base fee and blob fee the pool ranks against on the given head (the fees
// of the next block, as computed by Init and Reset).
func refFees(cfg *params.ChainConfig, head *types.Header) (*big.Int, *big.Int) {
	base := eip1559.CalcBaseFee(cfg, head)
	blob := big.NewInt(params.BlobTxMinBlobGasprice)
	if head.ExcessBlobGas != nil {
		blob = eip4844.CalcBlobFee(cfg, head)
	}
	return base, blob
}

// refBottleneck returns the minimum execution fee cap, blob fee cap and tip over the list.
func refBottleneck(l []blobpool.VerifMeta) (feeCap, blobCap, tip *big.Int) {
	for _, m := range l {
		if feeCap == nil || m.ExecFeeCap.Cmp(feeCap) < 0 {
			feeCap = m.ExecFeeCap
		}
		if blobCap == nil || m.BlobFeeCap.Cmp(blobCap) < 0 {
			blobCap = m.BlobFeeCap
		}
		if tip == nil || m.ExecTipCap.Cmp(tip) < 0 {
			tip = m.ExecTipCap
		}
	}
	return
}

// refPriority is the documented priority of an account holding the transactions l when the
// current fees are baseJ / blobJ (already converted into jumps: log1.125(basefee), log1.17(blobfee)).
func refPriority(l []blobpool.VerifMeta, baseJ, blobJ float64) int {
	feeCap, blobCap, _ := refBottleneck(l)
	dBase := int(math.Floor(feeJumps(feeCap) - baseJ))
	dBlob := int(math.Floor(blobFeeJumps(blobCap) - blobJ))
	return min(dBase, dBlob, 0)
}

// heapFees decides which fee jumps the heap order is judged with: the current ones, or - when
// the heap's recorded ones differ by less than the documented reinit slack (reinit skips the
// re-sort if both fees moved by < 0.01 jumps) - the recorded ones.
func heapFees(e *env, s *snap, head *types.Header) (baseJ, blobJ float64, stale bool) {
	base, blob := refFees(e.config, head)
	baseJ, blobJ = feeJumps(base), blobFeeJumps(blob)
	if !near(s.EvictBasefeeJumps, baseJ, 1e-9) || !near(s.EvictBlobfeeJumps, blobJ, 1e-9) {
		if near(s.EvictBasefeeJumps, baseJ, 0.0101) && near(s.EvictBlobfeeJumps, blobJ, 0.0101) {
			return s.EvictBasefeeJumps, s.EvictBlobfeeJumps, true
		}
	}
	return baseJ, blobJ, false
}

// heapInvariants checks the eviction heap of one snapshot: (a) index map <-> address array,
// (b) heap order for the reference priority, (c) heap population == accounts with pooled txs.
func heapInvariants(e *env, s *snap, head *types.Header, name func(common.Address) string, add func(fp, format string, a ...any)) {
	okHeap := true
	seen := map[common.Address]bool{}
	for i, a := range s.EvictAddrs {
		if seen[a] {
			add("evict:duplicate", "evict heap holds %s twice", name(a))
			okHeap = false
		}
		seen[a] = true
		if l, ok := s.Index[a]; !ok || len(l) == 0 {
			add("evict:ghost", "evict heap holds %s which has no pooled txs", name(a))
			okHeap = false
		}
		if j, ok := s.EvictIndex[a]; !ok || j != i {
			add("evict:index", "evict heap position of %s is %d, index map says %d (present %v)", name(a), i, j, ok)
		}
	}
	for a, j := range s.EvictIndex {
		if j < 0 || j >= len(s.EvictAddrs) || s.EvictAddrs[j] != a {
			add("evict:index", "evict index map sends %s to position %d which does not hold it (heap size %d)", name(a), j, len(s.EvictAddrs))
		}
	}
	if len(s.EvictIndex) != len(s.EvictAddrs) {
		add("evict:index", "evict index map has %d entries, the heap array %d", len(s.EvictIndex), len(s.EvictAddrs))
	}
	for a, l := range s.Index {
		if len(l) > 0 && !seen[a] {
			add("evict:missing", "%s has %d pooled txs but is not in the evict heap", name(a), len(l))
		}
	}
	if len(s.EvictAddrs) != len(s.Index) {
		add("evict:population", "evict heap has %d accounts, index %d", len(s.EvictAddrs), len(s.Index))
	}
	base, blob := refFees(e.config, head)
	wantBase, wantBlob := feeJumps(base), blobFeeJumps(blob)
	// reinit skips re-sorting when both fees moved by less than 0.01 jumps
	if !near(s.EvictBasefeeJumps, wantBase, 0.0101) || !near(s.EvictBlobfeeJumps, wantBlob, 0.0101) {
		add("evict:fees", "evict heap fee jumps (%v, %v) do not match the head's fees (%v, %v)", s.EvictBasefeeJumps, s.EvictBlobfeeJumps, wantBase, wantBlob)
		return
	}
	if !okHeap {
		return
	}
	baseJ, blobJ, _ := heapFees(e, s, head)
	for i := 1; i < len(s.EvictAddrs); i++ {
		p := (i - 1) / 2
		ci, pi := refPriority(s.Index[s.EvictAddrs[i]], baseJ, blobJ), refPriority(s.Index[s.EvictAddrs[p]], baseJ, blobJ)
		// Judged on the priority only: the execution-tip tie-break is not refreshed on every
		// append/replacement by the code (heap.Fix only on fee-jump changes).
		if ci < pi {
			var sb strings.Builder
			for k, a := range s.EvictAddrs {
				fc, bc, tip := refBottleneck(s.Index[a])
				fmt.Fprintf(&sb, " [%d]%s prio=%d (min feecap %v, min blobcap %v, min tip %v, %d txs)", k, name(a), refPriority(s.Index[a], baseJ, blobJ), fc, bc, tip, len(s.Index[a]))
			}
			add("evict:order", "evict heap: %s at slot %d (priority %d) sits below %s at slot %d (priority %d); base fee %v blob fee %v; heap:%s", name(s.EvictAddrs[i]), i, ci, name(s.EvictAddrs[p]), p, pi, base, blob, sb.String())
			break
		}
	}
}

// heapStats counts what the heap monitor saw on a snapshot (evidence only).
func (h *hist) heapStats(s *snap, head *types.Header) {
	r := h.r
	r.Count("heap_checks", 1)
	if len(s.EvictAddrs) < 2 {
		return
	}
	r.Count("heap_checks_multi_account", 1)
	baseJ, blobJ, stale := heapFees(h.e, s, head)
	if stale {
		r.Count("heap_checks_with_recorded_fees_within_reinit_slack", 1)
	}
	distinct := map[int]bool{}
	for i, a := range s.EvictAddrs {
		l := s.Index[a]
		if len(l) == 0 {
			return
		}
		pa := refPriority(l, baseJ, blobJ)
		distinct[pa] = true
		if i == 0 {
			continue
		}
		pl := s.Index[s.EvictAddrs[(i-1)/2]]
		if len(pl) == 0 {
			return
		}
		r.Count("heap_parent_child_pairs_compared", 1)
		if pa == refPriority(pl, baseJ, blobJ) {
			_, _, tc := refBottleneck(l)
			_, _, tp := refBottleneck(pl)
			if tc.Cmp(tp) < 0 {
				// observation: equal priority, the child has the lower minimum tip (the documented
				// splitter) - the code does not re-sort on tip-only changes; not judged
				r.Count("heap_tip_tiebreak_inversions_noted", 1)
			}
		}
	}
	if len(distinct) >= 2 {
		r.Count("heap_checks_with_distinct_priorities", 1)
	}
}

// judgeEviction is the eviction-order oracle: when an accepted Add pushed the store over the
// Datacap, every dropped transaction must have been, at the moment of its drop, the last
// transaction of an account whose reference priority was minimal among all accounts (ties
// allowed), and nothing is dropped once the store fits again.
func (h *hist) judgeEviction(ti *txInfo, pre, post *snap, got string) {
	r := h.r
	if got != "ok" || pre == nil || post == nil || h.dead {
		return
	}
	a := ti.from
	st := h.state(a)
	if ti.tx.Nonce() < st.Nonce {
		return
	}
	off := int(ti.tx.Nonce() - st.Nonce)
	lists := map[common.Address][]blobpool.VerifMeta{}
	for addr, l := range pre.Index {
		lists[addr] = append([]blobpool.VerifMeta(nil), l...)
	}
	if off > len(lists[a]) {
		return // not a direct insertion
	}
	nm := blobpool.VerifMeta{Hash: ti.tx.Hash(), Nonce: ti.tx.Nonce(), ExecTipCap: ti.tx.GasTipCap(), ExecFeeCap: ti.tx.GasFeeCap(), BlobFeeCap: ti.tx.BlobGasFeeCap(), StorageSize: uint32(h.lastAddSize)}
	postHas := map[common.Hash]bool{}
	for _, l := range post.Index {
		for _, m := range l {
			postHas[m.Hash] = true
			if m.Hash == nm.Hash {
				nm.StorageSize = m.StorageSize
			}
		}
	}
	sizeKnown := nm.StorageSize != 0
	stored := pre.Stored + uint64(nm.StorageSize)
	if off < len(lists[a]) {
		stored -= uint64(lists[a][off].StorageSize)
		lists[a][off] = nm
	} else {
		lists[a] = append(lists[a], nm)
	}
	dropped := 0
	for _, l := range lists {
		for _, m := range l {
			if !postHas[m.Hash] {
				dropped++
			}
		}
	}
	if dropped == 0 {
		return
	}
	if len(pre.Gapped[a]) > 0 {
		// promotions from the gapped buffer run their own insert + drop rounds inside this Add
		r.Count("overflow_evictions_skipped_gapped_promotion_possible", 1)
		return
	}
	// the pool after the Add must be the model with some tails cut off (anything else is judged
	// by the explanation rule)
	keep := map[common.Address]int{}
	for addr, l := range lists {
		pl := post.Index[addr]
		if len(pl) > len(l) {
			r.Count("overflow_evictions_unmodelled", 1)
			return
		}
		for i := range pl {
			if pl[i].Hash != l[i].Hash {
				r.Count("overflow_evictions_unmodelled", 1)
				return
			}
		}
		keep[addr] = len(pl)
	}
	for addr := range post.Index {
		if _, ok := lists[addr]; !ok {
			r.Count("overflow_evictions_unmodelled", 1)
			return
		}
	}
	base, blob := refFees(h.e.config, h.ch.headBlk().header)
	baseJ, blobJ, _ := heapFees(h.e, post, h.ch.headBlk().header)
	addrs := make([]common.Address, 0, len(lists))
	for addr := range lists {
		addrs = append(addrs, addr)
	}
	sort.Slice(addrs, func(i, j int) bool { return addrs[i].Cmp(addrs[j]) < 0 })
	// search: is there an order of the drops in which every victim is the tail of a minimal account?
	var search func(lens map[common.Address]int, left int, stored uint64, sized bool) bool
	search = func(lens map[common.Address]int, left int, stored uint64, sized bool) bool {
		if left == 0 {
			return true
		}
		if sized && stored <= datacap {
			return false // the drop loop stops as soon as the store fits
		}
		minP, first := 0, true
		for _, addr := range addrs {
			if lens[addr] == 0 {
				continue
			}
			if p := refPriority(lists[addr][:lens[addr]], baseJ, blobJ); first || p < minP {
				minP, first = p, false
			}
		}
		for _, addr := range addrs {
			n := lens[addr]
			if n == 0 || n <= keep[addr] || refPriority(lists[addr][:n], baseJ, blobJ) != minP {
				continue
			}
			lens[addr] = n - 1
			ok := search(lens, left-1, stored-uint64(lists[addr][n-1].StorageSize), sized)
			lens[addr] = n
			if ok {
				return true
			}
		}
		return false
	}
	lens := map[common.Address]int{}
	for addr, l := range lists {
		lens[addr] = len(l)
	}
	describe := func() string {
		var sb strings.Builder
		for _, addr := range addrs {
			l := lists[addr]
			fc, bc, tip := refBottleneck(l)
			fmt.Fprintf(&sb, " %s{%d txs, priority %d, min feecap %v, min blobcap %v, min tip %v, dropped:", h.addrName(addr), len(l), refPriority(l, baseJ, blobJ), fc, bc, tip)
			for _, m := range l[keep[addr]:] {
				fmt.Fprintf(&sb, " n%d", m.Nonce)
			}
			sb.WriteString("}")
		}
		return sb.String()
	}
	r.Count("overflow_evictions_checked", 1)
	r.Count("overflow_evicted_txs", dropped)
	if dropped > 1 {
		r.Count("overflow_evictions_multi_drop", 1)
	}
	if !postHas[nm.Hash] {
		r.Count("overflow_evictions_newcomer_dropped", 1)
	}
	if h.replSinceReset > 0 {
		r.Count("overflow_after_multi_tx_replacement_no_reset", 1)
		h.fOverflowAfterRepl = true
	}
	nAcc, prios := 0, map[int]bool{}
	for _, addr := range addrs {
		if len(lists[addr]) > 0 {
			nAcc++
			prios[refPriority(lists[addr], baseJ, blobJ)] = true
		}
	}
	if nAcc >= 2 && len(prios) >= 2 {
		r.Count("overflow_evictions_with_distinct_priorities", 1)
	}
	if !search(lens, dropped, stored, false) {
		h.viol("evict:wrong-victim", fmt.Sprintf("Add of %s overflowed the Datacap (stored %d + new > %d): the pool dropped %d tx(s) which are not the tails of the lowest-priority account(s) at base fee %v / blob fee %v; accounts right after the insertion:%s", h.txName(ti), pre.Stored, datacap, dropped, base, blob, describe()))
		return
	}
	if sizeKnown && !search(lens, dropped, stored, true) {
		h.viol("evict:needless-drop", fmt.Sprintf("Add of %s: the pool dropped %d tx(s) although fewer drops bring the store (%d after the insertion) within the Datacap %d; accounts right after the insertion:%s", h.txName(ti), dropped, stored, datacap, describe()))
	}
}

// ---------------------------------------------------------------- eviction-focused workload

var (
	focusBaseFees = []int64{30, 150, 500}
	focusBlobFees = []float64{3, 10, 50}
	// fee cap of an appended tx relative to the current fee: num/den (six below, one at, four above)
	focusScale = [][2]int64{{1, 8}, {1, 4}, {1, 3}, {1, 2}, {2, 3}, {9, 10}, {1, 1}, {11, 10}, {3, 2}, {2, 1}, {4, 1}}
	focusBump  = []int64{2, 2, 2, 2, 3, 4}
)

func scaleFee(fee *big.Int, s [2]int64) int64 {
	v := new(big.Int).Mul(fee, big.NewInt(s[0]))
	v.Div(v, big.NewInt(s[1]))
	if !v.IsInt64() || v.Int64() < 1 {
		return 1
	}
	return v.Int64()
}

// genTxFocus generates the next transaction of an eviction-focused history: mostly appends with
// fee caps spread below/above the pool's current base and blob fee, and valid replacements
// (100% bump or more in every dimension) of tail and non-tail transactions, preferably in
// accounts holding two or more transactions.
func (h *hist) genTxFocus() *txInfo {
	rng, e := h.rng, h.e
	var idx map[common.Address][]blobpool.VerifMeta
	if h.prev != nil {
		idx = h.prev.Index
	}
	x := rng.Intn(100)
	if x >= 97 {
		return h.genTx() // anything: gapped, stale, resubmitted, balance edge ...
	}
	base, blob := refFees(e.config, h.ch.headBlk().header)
	nb := 1
	if rng.Intn(100) < 12 {
		nb = 2
	}
	var bi []int
	for i := 0; i < nb; i++ {
		bi = append(bi, rng.Intn(len(e.blobs)))
	}
	value := int64(0)
	if rng.Intn(3) == 0 {
		value = 100
	}
	replShare := 30
	if h.prev != nil && h.prev.Stored+uint64(h.sizeOf[1]) > datacap {
		replShare = 50 // the pool is full: every append evicts
	}
	if x < replShare {
		var multi, single []int
		for i := 0; i < nAccounts; i++ {
			switch n := len(idx[e.addrs[i]]); {
			case n >= 2:
				multi = append(multi, i)
			case n == 1:
				single = append(single, i)
			}
		}
		cands := multi
		if len(multi) == 0 || (len(single) > 0 && rng.Intn(100) < 15) {
			cands = single
		}
		if len(cands) > 0 {
			ai := cands[rng.Intn(len(cands))]
			cur := idx[e.addrs[ai]]
			pos := len(cur) - 1
			if len(cur) >= 2 && rng.Intn(100) < 60 {
				pos = rng.Intn(len(cur) - 1) // a non-tail transaction
			}
			old := cur[pos]
			tip := old.ExecTipCap.Int64() * focusBump[rng.Intn(len(focusBump))]
			feeCap := old.ExecFeeCap.Int64() * focusBump[rng.Intn(len(focusBump))]
			blobCap := old.BlobFeeCap.Int64() * focusBump[rng.Intn(len(focusBump))]
			if rng.Intn(100) < 10 { // at / just under the bump threshold in one dimension
				switch rng.Intn(3) {
				case 0:
					tip = 2*old.ExecTipCap.Int64() - 1
				case 1:
					feeCap = 2*old.ExecFeeCap.Int64() - 1
				default:
					blobCap = 2*old.BlobFeeCap.Int64() - 1
				}
			}
			if feeCap < tip {
				feeCap = tip
			}
			ti := e.mkTx(ai, old.Nonce, tip, feeCap, blobCap, value, bi)
			h.remember(ti)
			return ti
		}
	}
	ai := rng.Intn(nAccounts)
	a := e.addrs[ai]
	nonce := h.state(a).Nonce + uint64(len(idx[a]))
	feeCap := scaleFee(base, focusScale[rng.Intn(len(focusScale))])
	blobCap := scaleFee(blob, focusScale[rng.Intn(len(focusScale))])
	tip := pick(rng, tipLadder)
	if tip > feeCap {
		tip = feeCap
	}
	ti := e.mkTx(ai, nonce, tip, feeCap, blobCap, value, bi)
	h.remember(ti)
	return ti
}

// noteReplacement records the shape of an accepted replacement (evidence and coverage).
func (h *hist) noteReplacement(ti *txInfo, pre *snap, off int) {
	r := h.r
	l := pre.Index[ti.from]
	if len(l) < 2 {
		return
	}
	r.Count("replacements_in_multi_tx_accounts", 1)
	h.replSinceReset++
	h.fReplMulti = true
	if off == len(l)-1 {
		r.Count("replacements_multi_tail", 1)
	} else {
		r.Count("replacements_multi_nontail", 1)
	}
	base, blob := refFees(h.e.config, h.ch.headBlk().header)
	if ti.tx.GasFeeCap().Cmp(base) < 0 {
		r.Count("replacements_multi_feecap_below_basefee", 1)
	} else {
		r.Count("replacements_multi_feecap_at_or_above_basefee", 1)
	}
	if ti.tx.BlobGasFeeCap().Cmp(blob) < 0 {
		r.Count("replacements_multi_blobcap_below_blobfee", 1)
	} else {
		r.Count("replacements_multi_blobcap_at_or_above_blobfee", 1)
	}
	baseJ, blobJ := feeJumps(base), blobFeeJumps(blob)
	after := append([]blobpool.VerifMeta(nil), l...)
	after[off] = blobpool.VerifMeta{Hash: ti.tx.Hash(), Nonce: ti.tx.Nonce(), ExecTipCap: ti.tx.GasTipCap(), ExecFeeCap: ti.tx.GasFeeCap(), BlobFeeCap: ti.tx.BlobGasFeeCap()}
	if refPriority(after, baseJ, blobJ) > refPriority(l, baseJ, blobJ) {
		r.Count("replacements_multi_raising_account_priority", 1)
	}
}
