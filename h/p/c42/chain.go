package main

import (
	"encoding/binary"
	"fmt"
	"math"
	"math/big"
	"sync"

	"github.com/ethereum/go-ethereum/common"
	"github.com/ethereum/go-ethereum/core/state"
	"github.com/ethereum/go-ethereum/core/tracing"
	"github.com/ethereum/go-ethereum/core/types"
	"github.com/ethereum/go-ethereum/params"
	"github.com/ethereum/go-ethereum/trie"
	"github.com/holiman/uint256"
)

// acct is the harness's own account state at one block.
type acct struct {
	Nonce     uint64   `json:"nonce"`
	Balance   *big.Int `json:"balance"`
	Delegated bool     `json:"delegated"`
}

type blk struct {
	header *types.Header
	block  *types.Block
	parent *blk
	state  map[common.Address]acct
}

// chain implements blobpool.BlockChain over a harness-owned block tree.
type chain struct {
	mu     sync.Mutex
	config *params.ChainConfig
	byHash map[common.Hash]*blk
	head   *blk
	final  *blk
	gen    *blk
	seq    uint64
}

const blockGasLimit = 30_000_000

// excessFor returns an excess-blob-gas value whose blob fee is about fee (Prague schedule).
func excessFor(fee float64) uint64 {
	if fee <= 1 {
		return 0
	}
	return uint64(math.Log(fee) * 5007716)
}

func mkHeader(parent *types.Header, number uint64, baseFee int64, excess uint64, extra []byte) *types.Header {
	h := &types.Header{
		Number:        new(big.Int).SetUint64(number),
		Difficulty:    big.NewInt(0),
		GasLimit:      blockGasLimit,
		GasUsed:       blockGasLimit / 2, // at target: the next base fee equals this one
		BaseFee:       big.NewInt(baseFee),
		Time:          1 + 12*number,
		Extra:         extra,
		ExcessBlobGas: &excess,
		BlobGasUsed:   new(uint64),
	}
	if parent != nil {
		h.ParentHash = parent.Hash()
	}
	return h
}

func newChain(config *params.ChainConfig, genesisState map[common.Address]acct, number uint64, baseFee int64, excess uint64) *chain {
	c := &chain{config: config, byHash: map[common.Hash]*blk{}}
	b := types.NewBlock(mkHeader(nil, number, baseFee, excess, nil), nil, nil, trie.NewStackTrie(nil))
	g := &blk{header: b.Header(), block: b, state: genesisState}
	c.byHash[b.Hash()] = g
	c.head, c.gen, c.final = g, g, g
	return c
}

func (c *chain) Config() *params.ChainConfig { return c.config }
func (c *chain) Genesis() *types.Block       { return c.gen.block }

func (c *chain) CurrentBlock() *types.Header {
	c.mu.Lock()
	defer c.mu.Unlock()
	return c.head.header
}

func (c *chain) CurrentFinalBlock() *types.Header {
	c.mu.Lock()
	defer c.mu.Unlock()
	return c.final.header
}

func (c *chain) GetBlock(hash common.Hash, number uint64) *types.Block {
	c.mu.Lock()
	defer c.mu.Unlock()
	if b, ok := c.byHash[hash]; ok && b.header.Number.Uint64() == number {
		return b.block
	}
	return nil
}

func (c *chain) lookup(hash common.Hash) *blk {
	c.mu.Lock()
	defer c.mu.Unlock()
	return c.byHash[hash]
}

func (c *chain) StateAt(header *types.Header) (*state.StateDB, error) {
	b := c.lookup(header.Hash())
	if b == nil {
		return nil, fmt.Errorf("unknown block %x", header.Hash())
	}
	sdb, err := state.New(types.EmptyRootHash, state.NewDatabaseForTesting())
	if err != nil {
		return nil, err
	}
	for a, st := range b.state {
		sdb.SetNonce(a, st.Nonce, tracing.NonceChangeUnspecified)
		sdb.SetBalance(a, uint256.MustFromBig(st.Balance), tracing.BalanceChangeUnspecified)
		if st.Delegated {
			sdb.SetCode(a, types.AddressToDelegation(common.Address{0x42}), tracing.CodeChangeUnspecified)
		}
	}
	return sdb, nil
}

func (c *chain) extend(parent *blk, txs []*types.Transaction, st map[common.Address]acct, baseFee int64, excess uint64) *blk {
	c.mu.Lock()
	defer c.mu.Unlock()
	c.seq++
	extra := make([]byte, 8)
	binary.BigEndian.PutUint64(extra, c.seq)
	h := mkHeader(parent.header, parent.header.Number.Uint64()+1, baseFee, excess, extra)
	b := types.NewBlock(h, &types.Body{Transactions: txs}, nil, trie.NewStackTrie(nil))
	n := &blk{header: b.Header(), block: b, parent: parent, state: st}
	c.byHash[b.Hash()] = n
	return n
}

func (c *chain) setHead(b *blk) { c.mu.Lock(); c.head = b; c.mu.Unlock() }
func (c *chain) headBlk() *blk  { c.mu.Lock(); defer c.mu.Unlock(); return c.head }
func (c *chain) setFinal(b *blk) {
	c.mu.Lock()
	c.final = b
	c.mu.Unlock()
}
func (c *chain) finalBlk() *blk { c.mu.Lock(); defer c.mu.Unlock(); return c.final }

// canonical returns the canonical block with the given number (walking back from the head).
func (c *chain) canonical(number uint64) *blk {
	b := c.headBlk()
	for b != nil && b.header.Number.Uint64() > number {
		b = b.parent
	}
	if b != nil && b.header.Number.Uint64() == number {
		return b
	}
	return nil
}

func copyState(s map[common.Address]acct) map[common.Address]acct {
	o := make(map[common.Address]acct, len(s))
	for a, v := range s {
		o[a] = acct{v.Nonce, new(big.Int).Set(v.Balance), v.Delegated}
	}
	return o
}

// reserver records protocol anomalies instead of panicking.
type reserver struct {
	mu        sync.Mutex
	held      map[common.Address]bool
	anomalies []string
}

func newReserver() *reserver { return &reserver{held: map[common.Address]bool{}} }

func (r *reserver) Hold(a common.Address) error {
	r.mu.Lock()
	defer r.mu.Unlock()
	if r.held[a] {
		r.anomalies = append(r.anomalies, fmt.Sprintf("double hold %x", a[:4]))
	}
	r.held[a] = true
	return nil
}

func (r *reserver) Release(a common.Address) error {
	r.mu.Lock()
	defer r.mu.Unlock()
	if !r.held[a] {
		r.anomalies = append(r.anomalies, fmt.Sprintf("release of non-held %x", a[:4]))
	}
	delete(r.held, a)
	return nil
}

func (r *reserver) Has(common.Address) bool { return false }
