package main

import (
	"bufio"
	"crypto/sha256"
	"encoding/json"
	"errors"
	"fmt"
	"math"
	"math/big"
	"os"
	"sort"
	"strings"

	"github.com/ethereum/go-ethereum/common"
	"github.com/ethereum/go-ethereum/core"
	"github.com/ethereum/go-ethereum/core/txpool"
	"github.com/ethereum/go-ethereum/core/txpool/blobpool"
	"github.com/ethereum/go-ethereum/core/types"
	"github.com/holiman/uint256"

	"verif/lib/vrt"
)

type snap = blobpool.VerifSnapshot

func classify(err error) string {
	switch {
	case err == nil:
		return "ok"
	case errors.Is(err, txpool.ErrAlreadyKnown):
		return "known"
	case errors.Is(err, txpool.ErrReplaceUnderpriced):
		return "replace-underpriced"
	case errors.Is(err, txpool.ErrTxGasPriceTooLow), errors.Is(err, txpool.ErrUnderpriced):
		return "tip-too-low"
	case errors.Is(err, core.ErrNonceTooLow):
		return "nonce-low"
	case errors.Is(err, core.ErrNonceTooHigh):
		return "nonce-high"
	case errors.Is(err, core.ErrInsufficientFunds):
		return "funds"
	case errors.Is(err, txpool.ErrAccountLimitExceeded):
		return "account-limit"
	case errors.Is(err, txpool.ErrInflightTxLimitReached):
		return "inflight"
	case errors.Is(err, core.ErrTipAboveFeeCap):
		return "tip-above-cap"
	case errors.Is(err, txpool.ErrGasLimit):
		return "gaslimit"
	}
	return "other:" + err.Error()
}

// ---------------------------------------------------------------- admission model

// predict is the naive admission model for one Add on the state described by the snapshot
// before the call: expected class, in the documented order of the checks.
func (h *hist) predict(pre *snap, ti *txInfo) string {
	tx := ti.tx
	a := ti.from
	if tx.GasFeeCap().Cmp(tx.GasTipCap()) < 0 {
		return "tip-above-cap"
	}
	if tx.GasTipCap().Cmp(big.NewInt(h.gasTip)) < 0 {
		return "tip-too-low"
	}
	if pre == nil {
		return "?"
	}
	st := h.state(a)
	cur := pre.Index[a]
	if st.Nonce > tx.Nonce() {
		return "nonce-low"
	}
	if firstGap := st.Nonce + uint64(len(cur)); tx.Nonce() > firstGap {
		allowance := min(int(math.Log10(float64(st.Nonce+1))), maxPerAcc-len(cur)) - len(pre.Gapped[a])
		if allowance >= 1 && len(pre.GappedSource) < 128 {
			return "ok-gapped"
		}
		return "nonce-high"
	}
	cost := tx.Cost()
	if st.Balance.Cmp(cost) < 0 {
		return "funds"
	}
	spent := new(big.Int)
	for _, m := range cur {
		spent.Add(spent, m.CostCap)
	}
	off := int(tx.Nonce() - st.Nonce)
	need := new(big.Int).Add(spent, cost)
	if off < len(cur) {
		need.Sub(need, cur[off].CostCap)
	}
	if st.Balance.Cmp(need) < 0 {
		return "funds"
	}
	if off >= len(cur) && len(cur) >= maxPerAcc {
		return "account-limit"
	}
	if st.Delegated || h.hasPendingAuth(a) {
		if len(cur) > 0 && !(len(cur) == 1 && cur[0].Nonce == tx.Nonce()) {
			return "inflight"
		}
	}
	if off < len(cur) {
		prev := cur[off]
		if prev.Hash == tx.Hash() {
			return "known"
		}
		bump := func(v *big.Int) *big.Int {
			x := new(big.Int).Mul(v, big.NewInt(100+priceBump))
			return x.Div(x, big.NewInt(100))
		}
		for _, p := range [][2]*big.Int{{tx.GasFeeCap(), prev.ExecFeeCap}, {tx.GasTipCap(), prev.ExecTipCap}, {tx.BlobGasFeeCap(), prev.BlobFeeCap}} {
			if p[0].Cmp(p[1]) <= 0 || p[0].Cmp(bump(p[1])) < 0 {
				return "replace-underpriced"
			}
		}
	}
	return "ok"
}

func (h *hist) judgeAdd(ti *txInfo, pre, post *snap, got, want string) {
	r := h.r
	if want == "?" || post == nil {
		return
	}
	r.Count("add_judged", 1)
	accepted := func(c string) bool { return c == "ok" || c == "ok-gapped" }
	switch {
	case got == want:
	case accepted(got) && accepted(want):
		// pooled vs buffered disagreement
		h.viol("admission:gapped-vs-pooled", fmt.Sprintf("Add of %s: got %s, model %s", h.txName(ti), got, want))
	case accepted(got):
		h.viol("admission:accepted-invalid:"+want, fmt.Sprintf("Add accepted %s (%s), model expects rejection (%s)", h.txName(ti), got, want))
	case accepted(want):
		h.viol("admission:rejected-valid:"+strings.SplitN(got, ":", 2)[0], fmt.Sprintf("Add rejected %s with %q, model expects %s", h.txName(ti), got, want))
	default:
		r.Count("add_class_mismatch", 1)
	}
	if got == "replace-underpriced" {
		r.Count("replacements_rejected", 1)
	}
	if got == "ok" && post.Stored > datacap {
		h.viol("datacap", fmt.Sprintf("after the accepted Add of %s: stored %d > Datacap %d", h.txName(ti), post.Stored, datacap))
	}
	if got == "ok" && want == "ok" && pre != nil {
		st := h.state(ti.from)
		if off := int(ti.tx.Nonce() - st.Nonce); off < len(pre.Index[ti.from]) {
			h.fReplace = true
			r.Count("replacements_accepted", 1)
			h.noteReplacement(ti, pre, off)
			old := pre.Index[ti.from][off].Hash
			if _, still := post.LookupTx[old]; still {
				h.viol("replace:old-still-pooled", fmt.Sprintf("%s was replaced by %s but is still indexed", h.hashName(old), h.txName(ti)))
			}
		}
	}
}

// ---------------------------------------------------------------- invariants (pure)

type finding struct {
	FP   string         `json:"fp"`
	Msg  string         `json:"msg"`
	Addr common.Address `json:"-"` // account concerned (nonce-sequence findings)
	Pos  int            `json:"-"` // position of the first offending transaction
}

func feeJumps(fee *big.Int) float64 {
	if fee.Sign() == 0 {
		return 0
	}
	f, _ := new(big.Float).SetInt(fee).Float64()
	return math.Log(f) / math.Log(1.125)
}

func blobFeeJumps(fee *big.Int) float64 {
	if fee.Sign() == 0 {
		return 0
	}
	f, _ := new(big.Float).SetInt(fee).Float64()
	return math.Log(f) / (math.Log(1.125) * 4 / 3)
}

func near(a, b, tol float64) bool { return math.Abs(a-b) <= tol }

// invariants recomputes every structural invariant of the property from one snapshot and the
// chain state the pool was last given.
func invariants(e *env, s *snap, st map[common.Address]acct, head *types.Header, name func(common.Address) string) []finding {
	var out []finding
	add := func(fp, format string, a ...any) { out = append(out, finding{FP: fp, Msg: fmt.Sprintf(format, a...)}) }
	idOwner := map[uint64]common.Hash{}
	slotOf := map[uint64]uint32{}
	for _, en := range s.Store {
		slotOf[en.ID] = en.Slot
	}
	var stored uint64
	indexed := map[common.Hash]blobpool.VerifMeta{}
	for a, l := range s.Index {
		as, ok := st[a]
		if !ok {
			as = acct{Balance: new(big.Int)}
		}
		if len(l) == 0 {
			add("index:empty-list", "account %s has an empty index entry", name(a))
			continue
		}
		sum := new(big.Int)
		var minTip *big.Int
		minBase, minBlob := math.Inf(1), math.Inf(1)
		for i, m := range l {
			if m.Nonce != as.Nonce+uint64(i) {
				add("index:nonce-sequence", "%s: nonce %d at position %d, state nonce %d", name(a), m.Nonce, i, as.Nonce)
				out[len(out)-1].Addr, out[len(out)-1].Pos = a, i
				break
			}
		}
		for _, m := range l {
			if prev, dup := indexed[m.Hash]; dup {
				add("index:duplicate-hash", "tx %x indexed twice (ids %d, %d)", m.Hash[:4], prev.ID, m.ID)
			}
			indexed[m.Hash] = m
			if o, dup := idOwner[m.ID]; dup {
				add("index:duplicate-id", "billy id %d used by %x and %x", m.ID, o[:4], m.Hash[:4])
			}
			idOwner[m.ID] = m.Hash
			sum.Add(sum, m.CostCap)
			stored += uint64(m.StorageSize)
			if sl, ok := slotOf[m.ID]; ok && s.StoresLevel > 0 && sl != m.StorageSize {
				add("index:storage-size", "tx %x: storageSize %d, slot on disk %d", m.Hash[:4], m.StorageSize, sl)
			}
			// eviction thresholds: running minima along the nonce chain
			bj, lj := feeJumps(m.ExecFeeCap), blobFeeJumps(m.BlobFeeCap)
			if !near(bj, m.BasefeeJumps, 1e-9) || !near(lj, m.BlobfeeJumps, 1e-9) {
				add("evict:jumps", "tx %x: basefeeJumps %v (recomputed %v), blobfeeJumps %v (recomputed %v)", m.Hash[:4], m.BasefeeJumps, bj, m.BlobfeeJumps, lj)
			}
			if minTip == nil || m.ExecTipCap.Cmp(minTip) < 0 {
				minTip = m.ExecTipCap
			}
			minBase, minBlob = math.Min(minBase, bj), math.Min(minBlob, lj)
			if m.EvictionExecTip == nil || m.EvictionExecTip.Cmp(minTip) != 0 || !near(m.EvictionExecFeeJumps, minBase, 1e-9) || !near(m.EvictionBlobFeeJumps, minBlob, 1e-9) {
				add("evict:thresholds", "%s nonce %d: eviction thresholds (tip %v, base %v, blob %v) are not the running minima (tip %v, base %v, blob %v)", name(a), m.Nonce, m.EvictionExecTip, m.EvictionExecFeeJumps, m.EvictionBlobFeeJumps, minTip, minBase, minBlob)
			}
		}
		sp := s.Spent[a]
		if sp == nil || sp.Cmp(sum) != 0 {
			add("spent:sum", "%s: spent=%v, sum of cost caps=%v", name(a), sp, sum)
		}
		if sum.Cmp(as.Balance) > 0 {
			add("spent:overdraft", "%s: total cost %v exceeds balance %v", name(a), sum, as.Balance)
		}
		if len(l) > maxPerAcc {
			add("index:account-cap", "%s holds %d > %d txs", name(a), len(l), maxPerAcc)
		}
	}
	for a := range s.Spent {
		if _, ok := s.Index[a]; !ok {
			add("spent:dangling", "spent entry for %s without index entry", name(a))
		}
	}
	if stored != s.Stored {
		add("stored", "stored=%d, sum of storage sizes=%d", s.Stored, stored)
	}
	// eviction heap: index map <-> array, population, heap order for the reference priority
	// recomputed from the accounts' transactions and the current fees (evict.go)
	if s.Head != nil {
		heapInvariants(e, s, head, name, add)
	}
	// lookup maps
	for hash, lt := range s.LookupTx {
		m, ok := indexed[hash]
		if !ok {
			add("lookup:ghost-tx", "lookup has tx %x which is not indexed", hash[:4])
			continue
		}
		if lt.ID != m.ID || lt.Size != m.Size || len(lt.VHashes) != len(m.VHashes) {
			add("lookup:tx-mismatch", "lookup entry of %x (id %d size %d) differs from index (id %d size %d)", hash[:4], lt.ID, lt.Size, m.ID, m.Size)
		}
	}
	wantBlob := map[common.Hash]map[common.Hash]bool{}
	for hash, m := range indexed {
		if _, ok := s.LookupTx[hash]; !ok {
			add("lookup:missing-tx", "indexed tx %x missing from lookup", hash[:4])
		}
		for _, vh := range m.VHashes {
			if wantBlob[vh] == nil {
				wantBlob[vh] = map[common.Hash]bool{}
			}
			wantBlob[vh][hash] = true
		}
	}
	for vh, set := range wantBlob {
		if len(s.LookupBlob[vh]) != len(set) {
			add("lookup:blob-index", "blob %x: lookup lists %d txs, index has %d", vh[:4], len(s.LookupBlob[vh]), len(set))
			continue
		}
		for _, th := range s.LookupBlob[vh] {
			if !set[th] {
				add("lookup:blob-index", "blob %x maps to tx %x which does not carry it", vh[:4], th[:4])
			}
		}
	}
	for vh := range s.LookupBlob {
		if wantBlob[vh] == nil {
			add("lookup:ghost-blob", "lookup has blob %x of no indexed tx", vh[:4])
		}
	}
	// store vs index
	if s.StoresLevel > 0 {
		onDisk := map[uint64]bool{}
		for _, en := range s.Store {
			onDisk[en.ID] = true
			if en.Err != "" {
				add("store:undecodable", "billy entry %d undecodable: %s", en.ID, en.Err)
				continue
			}
			owner, ok := idOwner[en.ID]
			if !ok {
				add("store:ghost", "billy entry %d (tx %x) is on disk but not indexed", en.ID, en.TxHash[:4])
			} else if owner != en.TxHash {
				add("store:wrong-content", "billy entry %d holds tx %x, index says %x", en.ID, en.TxHash[:4], owner[:4])
			}
		}
		for id, hash := range idOwner {
			if !onDisk[id] {
				add("store:orphan-index", "indexed tx %x (id %d) has no billy entry", hash[:4], id)
			}
		}
		if s.StoreFilled != uint64(len(idOwner)) {
			add("store:ghost", "queue store has %d filled slots, the index has %d transactions", s.StoreFilled, len(idOwner))
		}
		if s.LimboFilled != uint64(len(s.LimboIndex)) {
			add("limbo:ghost", "limbo store has %d filled slots, the limbo index has %d entries", s.LimboFilled, len(s.LimboIndex))
		}
		// limbo: index <-> groups <-> store
		lids := map[uint64]common.Hash{}
		for hash, id := range s.LimboIndex {
			lids[id] = hash
		}
		n := 0
		for blkNo, ids := range s.LimboGroups {
			for id, hash := range ids {
				n++
				if s.LimboIndex[hash] != id {
					add("limbo:groups", "limbo group %d lists id %d for %x, index says %d", blkNo, id, hash[:4], s.LimboIndex[hash])
				}
			}
		}
		if n != len(s.LimboIndex) {
			add("limbo:groups", "limbo groups hold %d entries, index %d", n, len(s.LimboIndex))
		}
		lOnDisk := map[uint64]bool{}
		for _, en := range s.LimboStore {
			lOnDisk[en.ID] = true
			if en.Err != "" {
				add("limbo:undecodable", "limbo entry %d: %s", en.ID, en.Err)
				continue
			}
			if h, ok := lids[en.ID]; !ok {
				add("limbo:ghost", "limbo store entry %d (tx %x, block %d) is not indexed", en.ID, en.TxHash[:4], en.Block)
			} else if h != en.TxHash {
				add("limbo:wrong-content", "limbo entry %d holds %x, index says %x", en.ID, en.TxHash[:4], h[:4])
			} else if s.LimboGroups[en.Block][en.ID] != en.TxHash {
				add("limbo:block", "limbo entry %d of %x stored with block %d, groups disagree", en.ID, en.TxHash[:4], en.Block)
			}
		}
		for id, hash := range lids {
			if !lOnDisk[id] {
				add("limbo:orphan-index", "limboed tx %x (id %d) has no store entry", hash[:4], id)
			}
		}
		for hash := range s.LimboIndex {
			if _, both := indexed[hash]; both {
				add("limbo:also-pooled", "tx %x is pooled and in the limbo", hash[:4])
			}
		}
	}
	// gapped buffer (consistency only)
	n := 0
	for a, l := range s.Gapped {
		n += len(l)
		for _, hash := range l {
			if s.GappedSource[hash] != a {
				add("gapped:source", "gapped tx %x filed under %s, source map says otherwise", hash[:4], name(a))
			}
		}
	}
	_ = n
	sort.Slice(out, func(i, j int) bool { return out[i].FP+out[i].Msg < out[j].FP+out[j].Msg })
	return out
}

// ---------------------------------------------------------------- per-operation check

// opInfo describes the operation just executed, for explaining index changes.
type opInfo struct {
	transactors map[common.Address]bool
	reinjected  map[common.Hash]bool
}

func (h *hist) check(op string, pre *snap) *snap {
	r := h.r
	level := 1
	// eviction-focused histories: the stores are read back on every 6th operation only (their
	// subject is the eviction order; the per-operation store checks belong to the main family)
	light := h.focus && h.opNo%6 != 0
	if light {
		level = 0
	}
	if op == "reopen" || h.opNo == h.walkAt || h.forceWalk {
		h.forceWalk = false
		level = 2 // physical walk of both stores
		r.Count("store_walks", 1)
	}
	s := h.pool.VerifSnapshot(level)
	hd := h.ch.headBlk()
	r.Count("snapshots_checked", 1)
	h.heapStats(s, hd.header)
	if s.Head == nil || s.Head.Hash() != hd.header.Hash() {
		h.viol("head-mismatch", fmt.Sprintf("after %s the pool's head is not the chain head", op))
	}
	for _, f := range invariants(h.e, s, hd.state, hd.header, h.addrName) {
		// KNOWN-FINDING class (narrow): after a Reset, recheck() decides "gapped" from the lowest
		// pooled nonce before dropping the stale prefix; when a re-injected transaction of the
		// account is stale (nonce < new state nonce) and the transaction at the state nonce is
		// missing, the rest stays pooled although it dangles. Attributed only for a gap at the
		// FRONT of the account's list, in a reorg, with such a stale re-injected transaction.
		if f.FP == "index:nonce-sequence" && f.Pos == 0 && op == "reorg" && h.cur != nil {
			for hash := range h.cur.reinjected {
				if ti := h.byHash[hash]; ti != nil && ti.from == f.Addr && ti.tx.Nonce() < hd.state[f.Addr].Nonce {
					f.FP = "index:dangling-after-reorg-with-stale-reinjected-prefix"
					h.dead = true
				}
			}
		}
		h.viol(f.FP, fmt.Sprintf("after %s: %s", op, f.Msg))
		if h.dead {
			return s
		}
	}
	// The Datacap is enforced on (successful) insertion - see judgeAdd - and at Init only (re-injection during a reorg may
	// exceed it until the next insertion; the code documents it as a soft cap).
	if s.Stored > datacap && (op == "reopen" || op == "init") {
		h.viol("datacap", fmt.Sprintf("after %s: stored %d > Datacap %d", op, s.Stored, datacap))
	}
	for _, l := range s.Index {
		for _, m := range l {
			if ti := h.byHash[m.Hash]; ti != nil {
				h.sizeOf[len(ti.bi)] = m.StorageSize
			}
		}
	}
	if h.verbose {
		var sb strings.Builder
		for i := 0; i < nAccounts; i++ {
			a := h.e.addrs[i]
			fmt.Fprintf(&sb, "A%d[", i)
			for _, m := range s.Index[a] {
				fmt.Fprintf(&sb, "%d:%x ", m.Nonce, m.Hash[:3])
			}
			fmt.Fprintf(&sb, "] g%v ", s.GappedNonces[a])
		}
		sb.WriteString(" limbo{")
		for b, ids := range s.LimboGroups {
			for _, hash := range ids {
				fmt.Fprintf(&sb, "%d:%x ", b, hash[:3])
			}
		}
		sb.WriteString("} shadow{")
		for hash, b := range h.limbo {
			fmt.Fprintf(&sb, "%d:%x ", b, hash[:3])
		}
		fmt.Fprintf(&sb, "} stored=%d", s.Stored)
		h.logf("     pool after %s: %s", op, sb.String())
	}
	// shadow limbo
	h.compareLimbo(op, s)
	if h.dead {
		return s
	}
	// explain index changes
	if pre != nil && op != "reopen" {
		h.explain(op, pre, s)
	}
	h.crossCheck(op, s, light)
	return s
}

func (h *hist) compareLimbo(op string, s *snap) {
	// actual view: hash -> block
	actual := map[common.Hash]uint64{}
	for b, ids := range s.LimboGroups {
		for _, hash := range ids {
			actual[hash] = b
		}
	}
	// KNOWN-FINDING class (narrow): a limboed transaction that a reorg dropped from one block and
	// re-included in another keeps its old block number (BlobPool.reorg passes included-minus-
	// discarded to limbo.update, which by construction never contains a re-included tx), so it
	// is finalized too early or too late. Attributed only if the transaction was re-included at a
	// different height while limboed AND the pool's limbo equals, for that transaction, what the
	// stale block number predicts (h.limboCode). Everything else keeps the generic fingerprints.
	known := func(hash common.Hash) bool {
		if !h.reincluded[hash] {
			return false
		}
		cb, cok := h.limboCode[hash]
		ab, aok := actual[hash]
		return cok == aok && cb == ab
	}
	report := func(fp, msg string, hash common.Hash) {
		if known(hash) {
			fp = "limbo:block-not-updated-on-reinclusion"
			h.dead = true // cascade control
		}
		h.viol(fp, msg)
	}
	for hash, b := range h.limbo {
		ab, ok := actual[hash]
		if !ok {
			report("limbo:missing", fmt.Sprintf("after %s: %s is included in non-finalized block %d but is not in the limbo", op, h.hashName(hash), b), hash)
		} else if ab != b {
			report("limbo:wrong-block", fmt.Sprintf("after %s: %s is tracked under block %d, it is included in block %d", op, h.hashName(hash), ab, b), hash)
		}
		if h.dead {
			return
		}
	}
	for hash, ab := range actual {
		if _, ok := h.limbo[hash]; !ok {
			fin := h.ch.finalBlk().header.Number.Uint64()
			report("limbo:stale", fmt.Sprintf("after %s: %s is in the limbo (block %d) although it is finalized, reorged out or was never offloaded (final=%d)", op, h.hashName(hash), ab, fin), hash)
			if h.dead {
				return
			}
		}
	}
}

// shadowReset advances the shadow limbo for Reset(old, new) given the blocks dropped from and
// added to the canonical chain, and records which accounts are rechecked / which transactions
// are re-injected.
func (h *hist) shadowReset(pre *snap, discarded, included []*blk) {
	r := h.r
	info := &opInfo{transactors: map[common.Address]bool{}, reinjected: map[common.Hash]bool{}}
	h.cur = info
	inclusions := map[common.Hash]uint64{}
	inDisc := map[common.Hash]*types.Transaction{}
	for _, b := range discarded {
		for _, tx := range b.block.Transactions() {
			inDisc[tx.Hash()] = tx
			from, _ := types.Sender(h.e.signer, tx)
			info.transactors[from] = true
		}
	}
	for _, b := range included {
		for _, tx := range b.block.Transactions() {
			inclusions[tx.Hash()] = b.header.Number.Uint64()
			from, _ := types.Sender(h.e.signer, tx)
			info.transactors[from] = true
		}
	}
	// included in the new chain only: the limbo entry (if any) moves to the new block
	for hash, b := range inclusions {
		if _, was := inDisc[hash]; was {
			continue
		}
		if _, ok := h.limbo[hash]; ok {
			h.limbo[hash] = b
		}
		if _, ok := h.limboCode[hash]; ok {
			h.limboCode[hash] = b
		}
	}
	// lost: pulled from the limbo and re-injected
	reinj := map[common.Address][]uint64{}
	for hash, tx := range inDisc {
		if _, re := inclusions[hash]; re {
			if ob, ok := h.limbo[hash]; ok { // dropped and re-included: tracked under the new block
				if ob != inclusions[hash] {
					h.reincluded[hash] = true // h.limboCode keeps the old number (what the code does)
					r.Count("limbo_reincluded_other_height", 1)
				}
				h.limbo[hash] = inclusions[hash]
			}
			continue
		}
		delete(h.limboCode, hash)
		if _, ok := h.limbo[hash]; ok {
			delete(h.limbo, hash)
			info.reinjected[hash] = true
			from, _ := types.Sender(h.e.signer, tx)
			reinj[from] = append(reinj[from], tx.Nonce())
			h.fReinject = true
			r.Count("reinjected_txs", 1)
		}
	}
	// recheck of every transactor: pooled txs below the new state nonce are dropped and, if the
	// new chain includes exactly them, offloaded into the limbo
	newState := h.ch.headBlk().state
	for a := range info.transactors {
		type ent struct {
			nonce uint64
			hash  common.Hash
		}
		var cur []ent
		if pre != nil {
			for _, m := range pre.Index[a] {
				cur = append(cur, ent{m.Nonce, m.Hash})
			}
		}
		for hash := range info.reinjected {
			if ti := h.byHash[hash]; ti != nil && ti.from == a {
				cur = append(cur, ent{ti.tx.Nonce(), hash})
			}
		}
		if len(cur) == 0 {
			continue
		}
		sort.Slice(cur, func(i, j int) bool { return cur[i].nonce < cur[j].nonce })
		next := newState[a].Nonce
		if cur[0].nonce > next {
			continue // dangling: dropped without offload
		}
		for _, c := range cur {
			if c.nonce < next {
				if b, ok := inclusions[c.hash]; ok {
					h.limbo[c.hash] = b
					h.limboCode[c.hash] = b
					h.fLimbo = true
					r.Count("limbo_pushes", 1)
				}
			}
		}
	}
	// finality
	fin := h.ch.finalBlk().header.Number.Uint64()
	for hash, b := range h.limbo {
		if b <= fin {
			delete(h.limbo, hash)
			r.Count("limbo_finalized", 1)
		}
	}
	for hash, b := range h.limboCode {
		if b <= fin {
			delete(h.limboCode, hash)
		}
	}
}

// explain demands a reason for every transaction that left or entered the index.
func (h *hist) explain(op string, pre, post *snap) {
	r := h.r
	now := map[common.Hash]bool{}
	for _, l := range post.Index {
		for _, m := range l {
			now[m.Hash] = true
		}
	}
	was := map[common.Hash]bool{}
	info := h.cur
	for a, l := range pre.Index {
		tipDropped := false
		for i, m := range l {
			was[m.Hash] = true
			if now[m.Hash] {
				continue
			}
			ok := false
			switch op {
			case "add":
				// replaced by the new tx, or evicted for capacity (only the account's tail)
				replaced := false
				for _, pm := range post.Index[a] {
					if pm.Nonce == m.Nonce && pm.Hash != m.Hash {
						replaced = true
					}
				}
				evicted := i == len(l)-1 || !now[l[len(l)-1].Hash] // only an account's tail is evicted
				if replaced {
					ok = true
				} else if evicted {
					// capacity eviction needs the insertion (or a promotion from the gapped
					// buffer) to have pushed the store over the Datacap
					ok = h.lastAddSize == 0 || pre.Stored+h.lastAddSize > datacap || len(pre.GappedSource) > 0
					if ok {
						h.fEvict = true
						r.Count("evictions_seen", 1)
					}
				}
			case "advance", "reorg":
				ok = info != nil && info.transactors[a]
			case "settip-raise":
				if m.ExecTipCap.Cmp(big.NewInt(h.gasTip)) < 0 {
					tipDropped = true
				}
				ok = tipDropped
				if ok {
					h.fTipDrop = true
				}
			}
			if !ok {
				h.viol("index:unexplained-removal:"+op, fmt.Sprintf("after %s: %s left the pool without a reason", op, h.hashName(m.Hash)))
			}
		}
	}
	for a, l := range post.Index {
		for _, m := range l {
			if was[m.Hash] {
				continue
			}
			ok := false
			switch op {
			case "add":
				_, gapped := pre.GappedSource[m.Hash]
				ok = m.Hash == h.lastAdd || gapped
				if gapped && m.Hash != h.lastAdd {
					h.viaGapped[m.Hash] = true // promoted from the gapped buffer
					r.Count("gapped_promotions", 1)
				}
			case "advance", "reorg":
				ok = info != nil && info.reinjected[m.Hash]
				if ok {
					h.viaReinject[m.Hash] = true
				}
			}
			if !ok {
				h.viol("index:unexplained-addition:"+op, fmt.Sprintf("after %s: %s (%s) appeared in the pool without a reason", op, h.hashName(m.Hash), h.addrName(a)))
			}
		}
	}
	// a re-injected transaction must be pooled again unless the recheck may drop it
	if (op == "reorg" || op == "advance") && info != nil {
		for hash := range info.reinjected {
			if !now[hash] {
				r.Count("reinjected_then_dropped", 1)
			}
		}
	}
}

// crossCheck compares the snapshot with the public accessors.
func (h *hist) crossCheck(op string, s *snap, light bool) {
	r := h.r
	total := 0
	var all []blobpool.VerifMeta
	for _, l := range s.Index {
		total += len(l)
		all = append(all, l...)
	}
	gq := 0
	for _, l := range s.Gapped {
		gq += len(l)
	}
	if p, q := h.pool.Stats(); p != total || q != gq {
		h.viol("api:stats", fmt.Sprintf("after %s: Stats()=(%d,%d), snapshot (%d,%d)", op, p, q, total, gq))
	}
	hd := h.ch.headBlk()
	for i := 0; i < nAccounts; i++ {
		a := h.e.addrs[i]
		want := hd.state[a].Nonce + uint64(len(s.Index[a]))
		if got := h.pool.Nonce(a); got != want {
			h.viol("api:nonce", fmt.Sprintf("after %s: Nonce(%s)=%d, expected %d", op, h.addrName(a), got, want))
		}
	}
	pend, n := h.pool.Pending(txpool.PendingFilter{BlobTxs: true, BlobVersion: types.BlobSidecarVersion1})
	if n != total {
		h.viol("api:pending-count", fmt.Sprintf("after %s: Pending() returned %d txs, index has %d", op, n, total))
	}
	for a, l := range s.Index {
		if len(pend[a]) != len(l) {
			h.viol("api:pending", fmt.Sprintf("after %s: Pending() of %s has %d txs, index %d", op, h.addrName(a), len(pend[a]), len(l)))
			continue
		}
		for i, m := range l {
			if pend[a][i].Hash != m.Hash {
				h.viol("api:pending", fmt.Sprintf("after %s: Pending() of %s differs at position %d", op, h.addrName(a), i))
			}
		}
	}
	for _, m := range all {
		if !h.pool.Has(m.Hash) || h.pool.Status(m.Hash) != txpool.TxStatusPending {
			h.viol("api:has", fmt.Sprintf("after %s: Has/Status deny pooled tx %x", op, m.Hash[:4]))
		}
		if md := h.pool.GetMetadata(m.Hash); md == nil || md.Size != m.Size {
			h.viol("api:metadata", fmt.Sprintf("after %s: GetMetadata of %x inconsistent", op, m.Hash[:4]))
		}
		if ti := h.byHash[m.Hash]; ti != nil && m.Size != ti.tx.Size() {
			h.viol("api:size", fmt.Sprintf("after %s: pool reports size %d for %s, the network encoding has %d bytes", op, m.Size, h.txName(ti), ti.tx.Size()))
		}
	}
	// full retrieval of up to two pooled txs: same hash, blobs byte-identical
	for k := 0; k < 2 && len(all) > 0 && !light; k++ {
		m := all[h.rng.Intn(len(all))]
		h.verifyGet(op, m.Hash)
	}
	// a few known-but-not-pooled hashes must be denied
	for i := 0; i < 4 && len(h.known) > 0; i++ {
		ti := h.known[h.rng.Intn(len(h.known))]
		hash := ti.tx.Hash()
		_, pooled := s.LookupTx[hash]
		_, gapped := s.GappedSource[hash]
		if !pooled && !gapped && (h.pool.Has(hash) || h.pool.Get(hash) != nil) {
			h.viol("api:has-ghost", fmt.Sprintf("after %s: Has/Get report %s which is not pooled", op, h.txName(ti)))
		}
	}
	r.Count("api_crosschecks", 1)
}

func (h *hist) verifyGet(op string, hash common.Hash) {
	ti := h.byHash[hash]
	tx := h.pool.Get(hash)
	if tx == nil || tx.Hash() != hash {
		h.viol("api:get", fmt.Sprintf("after %s: Get(%x) returned nil or another tx", op, hash[:4]))
		return
	}
	h.r.Count("get_verified", 1)
	sc := tx.BlobTxSidecar()
	if ti == nil || sc == nil {
		if sc == nil {
			h.viol("api:get-sidecar", fmt.Sprintf("after %s: Get(%x) has no sidecar", op, hash[:4]))
		}
		return
	}
	want := ti.tx.BlobTxSidecar()
	if len(sc.Blobs) != len(want.Blobs) {
		h.viol("api:get-sidecar", fmt.Sprintf("after %s: Get(%s) has %d blobs, want %d", op, h.txName(ti), len(sc.Blobs), len(want.Blobs)))
		return
	}
	for i := range sc.Blobs {
		if sha256.Sum256(sc.Blobs[i][:]) != sha256.Sum256(want.Blobs[i][:]) || sc.Commitments[i] != want.Commitments[i] {
			h.viol("api:get-sidecar", fmt.Sprintf("after %s: Get(%s): blob %d differs from the submitted one", op, h.txName(ti), i))
		}
	}
	if len(sc.Proofs) != len(want.Proofs) {
		h.viol("api:get-sidecar", fmt.Sprintf("after %s: Get(%s): %d proofs, want %d", op, h.txName(ti), len(sc.Proofs), len(want.Proofs)))
	}
}

// compareReopened: Close + New/Init on the same directory and head must reproduce the contents.
func (h *hist) compareReopened(pre, post *snap) {
	r := h.r
	// KNOWN-FINDING class (narrow): a transaction promoted from the gapped buffer is not
	// re-checked against the pool's minimum tip (addLocked -> validateTx only), so after a
	// SetGasTip raise the pool can hold a tx below its own tip floor; Init's SetGasTip drops it
	// (and its successors) on reopen. Attributed only if every missing tx is, or follows in its
	// account, such a tx (tip < gas tip AND it entered the index via the gapped buffer).
	now := map[common.Hash]bool{}
	for _, l := range post.Index {
		for _, m := range l {
			now[m.Hash] = true
		}
	}
	// KNOWN-FINDING class (narrow): re-injection during a reorg does not enforce the Datacap, so
	// the pool can persist more than the cap until the next insertion; Init enforces the cap and
	// evicts. Attributed only if the store was over the Datacap at Close (insertions never leave
	// it there), is within it after reopening, and every missing tx is the tail of its account.
	if pre.Stored > datacap && post.Stored <= datacap {
		tails := true
		gone := 0
		for a, l := range pre.Index {
			keep := len(post.Index[a])
			for i, m := range l {
				if !now[m.Hash] {
					gone++
					if i < keep {
						tails = false
					}
				}
			}
		}
		if gone > 0 && tails && len(post.LookupTx) == len(pre.LookupTx)-gone {
			h.viol("reopen:over-datacap-after-reinjection-evicted", fmt.Sprintf("stored %d > Datacap %d at Close (re-injection does not enforce the cap); Init evicts %d tx(s) on reopen", pre.Stored, datacap, gone))
			h.dead = true
			return
		}
	}
	missing, attributed, reinj := 0, 0, false
	for _, l := range pre.Index {
		cut := false
		for _, m := range l {
			if m.ExecTipCap.Cmp(big.NewInt(h.gasTip)) < 0 && (h.viaGapped[m.Hash] || h.viaReinject[m.Hash]) {
				cut = true
				reinj = reinj || h.viaReinject[m.Hash]
			}
			if !now[m.Hash] {
				missing++
				if cut {
					attributed++
				}
			}
		}
	}
	if missing > 0 && missing == attributed && len(post.LookupTx) == len(pre.LookupTx)-missing {
		fp, path := "reopen:below-gastip-tx-from-gapped-buffer-dropped", "promoted from the gapped buffer"
		if reinj {
			// same consequence, other entry path: re-injection after a reorg is "blind" too
			fp, path = "reopen:below-gastip-tx-from-reinjection-dropped", "re-injected by a reorg"
		}
		h.viol(fp, fmt.Sprintf("%d pooled tx(s) vanish on Close+reopen: %s with a tip below the pool's gas tip %d, dropped by Init", missing, path, h.gasTip))
		h.dead = true
		return
	}
	for a, l := range pre.Index {
		pl := post.Index[a]
		if len(pl) != len(l) {
			h.viol("reopen:contents", fmt.Sprintf("%s had %d txs before Close, %d after reopening", h.addrName(a), len(l), len(pl)))
			continue
		}
		for i := range l {
			if l[i].Hash != pl[i].Hash {
				h.viol("reopen:contents", fmt.Sprintf("%s position %d: %s before Close, %s after", h.addrName(a), i, h.hashName(l[i].Hash), h.hashName(pl[i].Hash)))
			}
			r.Count("reopen_txs_compared", 1)
		}
	}
	for a, l := range post.Index {
		if _, ok := pre.Index[a]; !ok {
			h.viol("reopen:contents", fmt.Sprintf("%s has %d txs after reopening, none before", h.addrName(a), len(l)))
		}
	}
	sums := func(es []blobpool.VerifStoreEntry) map[common.Hash][32]byte {
		m := map[common.Hash][32]byte{}
		for _, en := range es {
			m[en.TxHash] = en.DataSum
		}
		return m
	}
	for name, pair := range map[string][2][]blobpool.VerifStoreEntry{"store": {pre.Store, post.Store}, "limbo": {pre.LimboStore, post.LimboStore}} {
		a, b := sums(pair[0]), sums(pair[1])
		if len(a) != len(b) {
			h.viol("reopen:"+name, fmt.Sprintf("%s had %d entries before Close, %d after reopening", name, len(a), len(b)))
		}
		for hash, sum := range a {
			if b[hash] != sum {
				h.viol("reopen:"+name+"-bytes", fmt.Sprintf("%s entry of %s is not byte-identical after reopening", name, h.hashName(hash)))
			}
		}
	}
	if post.Stored != pre.Stored {
		h.viol("reopen:stored", fmt.Sprintf("stored %d before Close, %d after", pre.Stored, post.Stored))
	}
}

// ---------------------------------------------------------------- reopen + check (other process)

type reopenResult struct {
	InitErr    string    `json:"init_err,omitempty"`
	Violations []finding `json:"violations"`
	Pooled     int       `json:"pooled"`
	Limboed    int       `json:"limboed"`
	AckedGone  int       `json:"acked_missing"` // abrupt mode: acknowledged txs not present (recorded, see doc)
	Notes      int       `json:"notes"`
	AckTail    []string  `json:"ack_tail"`
}

// ackView is what the acknowledgement log says at a position.
type ackInfo struct {
	tip    int64
	gapped int
	acct   int
	nonce  uint64
	slot   uint64
}

type ackView struct {
	info      map[common.Hash]ackInfo
	head      headState
	acked     map[common.Hash]bool   // ACKed and not GONE
	ever      map[common.Hash]bool   // ever ACKed, or returned ok, or in flight in the last (incomplete) op
	limbo     map[common.Hash]uint64 // limbo listing of the last complete op
	everLimbo map[common.Hash]bool
	submitted map[common.Hash]bool // ever passed to Add
	inflight  bool                 // the log ends inside an operation (BEGIN without END)
	closed    bool                 // CLOSE is the last line
	tail      []string
}

func parseAck(path string, lines int) (*ackView, error) {
	f, err := os.Open(path)
	if err != nil {
		return nil, err
	}
	defer f.Close()
	v := &ackView{submitted: map[common.Hash]bool{}, info: map[common.Hash]ackInfo{}, acked: map[common.Hash]bool{}, ever: map[common.Hash]bool{}, limbo: map[common.Hash]uint64{}, everLimbo: map[common.Hash]bool{}}
	sc := bufio.NewScanner(f)
	sc.Buffer(make([]byte, 1<<20), 1<<24)
	cur := map[common.Hash]uint64{}
	n := 0
	for sc.Scan() {
		if lines >= 0 && n >= lines {
			break
		}
		n++
		l := sc.Text()
		v.tail = append(v.tail, l)
		if len(v.tail) > 30 {
			v.tail = v.tail[1:]
		}
		fs := strings.Fields(l)
		if len(fs) == 0 {
			continue
		}
		v.closed = false
		switch fs[0] {
		case "HEAD":
			if err := json.Unmarshal([]byte(strings.TrimPrefix(l, "HEAD ")), &v.head); err != nil {
				return nil, err
			}
		case "BEGIN":
			cur = map[common.Hash]uint64{}
			v.inflight = true
		case "ACK":
			hash := common.HexToHash(fs[1])
			v.acked[hash], v.ever[hash] = true, true
			ai := ackInfo{}
			for _, f := range fs[2:] {
				fmt.Sscanf(f, "tip=%d", &ai.tip)
				fmt.Sscanf(f, "gapped=%d", &ai.gapped)
				fmt.Sscanf(f, "acct=%d", &ai.acct)
				fmt.Sscanf(f, "nonce=%d", &ai.nonce)
				fmt.Sscanf(f, "slot=%d", &ai.slot)
			}
			v.info[hash] = ai
		case "SUBMIT":
			v.submitted[common.HexToHash(fs[1])] = true
			v.inflight = true
		case "KILLED":
			v.inflight = true
		case "RET":
			if len(fs) > 2 && strings.HasPrefix(fs[2], "ok") {
				v.ever[common.HexToHash(fs[1])] = true
			}
		case "GONE":
			delete(v.acked, common.HexToHash(fs[1]))
		case "LIMBO":
			var b uint64
			fmt.Sscanf(fs[2], "%d", &b)
			cur[common.HexToHash(fs[1])] = b
			v.everLimbo[common.HexToHash(fs[1])] = true
		case "END":
			v.limbo = cur
			v.inflight = false
		case "CLOSE":
			v.closed = true
		}
	}
	return v, sc.Err()
}

// reopenAndCheck is the "open directory D and check invariants + acknowledged set" half. It
// builds a one-block chain stub from the last HEAD line of the ack log prefix, runs New + Init
// on the directory and judges the loaded pool:
//   - always: Init succeeds, every structural invariant holds, nothing is pooled that was never
//     acknowledged, nothing is limboed that never was;
//   - exact (clean Close): the pooled set equals the acknowledged set, the limbo equals the
//     last listing;
//   - otherwise (abrupt stop): acknowledged transactions that are missing are counted
//     (AckedGone) and turned into violations only if C42_STRICT_ACK=1, because billy does not
//     persist deletions before Close, so Init may resurrect deleted entries and legitimately
//     (by the code's documented behaviour) prefer them. The crash-state oracle of the lead
//     decides how to treat these.
func reopenAndCheck(r *vrt.Run, dir, ackPath string, lines int, exact bool) reopenResult {
	var res reopenResult
	add := func(fp, format string, a ...any) {
		res.Violations = append(res.Violations, finding{FP: fp, Msg: fmt.Sprintf(format, a...)})
	}
	v, err := parseAck(ackPath, lines)
	if err != nil {
		add("harness:ack-log", "cannot parse ack log: %v", err)
		return res
	}
	res.AckTail = v.tail
	e := newEnv(r, nil)
	ch := newChain(e.config, v.head.Accounts, v.head.Number, v.head.BaseFee, v.head.Excess)
	if v.head.Final < v.head.Number {
		fb := types.NewBlockWithHeader(mkHeader(nil, v.head.Final, v.head.BaseFee, v.head.Excess, nil))
		ch.final = &blk{header: fb.Header(), block: fb}
	}
	pool := blobpool.New(blobpool.Config{Datadir: dir, Datacap: datacap, PriceBump: priceBump}, ch, nil)
	perr, stack := vrt.Recover(func() {
		if err := pool.Init(uint64(v.head.GasTip), ch.CurrentBlock(), newReserver()); err != nil {
			res.InitErr = err.Error()
		}
	})
	if perr != nil {
		add("init-panic", "Init panicked: %v\n%s", perr, stack)
		return res
	}
	if res.InitErr != "" {
		add("init-failed", "Init failed: %s", res.InitErr)
		return res
	}
	defer pool.Close()
	s := pool.VerifSnapshot(2)
	name := func(a common.Address) string { return fmt.Sprintf("%x", a[:4]) }
	for _, f := range invariants(e, s, ch.headBlk().state, ch.headBlk().header, name) {
		if !exact && f.FP == "limbo:also-pooled" {
			// after an abrupt stop a re-injected transaction is both in the queue store and (its
			// limbo deletion never reached the disk) in the limbo store: not judged here
			res.Notes++
			continue
		}
		res.Violations = append(res.Violations, f)
	}
	if s.Stored > datacap {
		add("datacap", "stored %d > Datacap %d after Init", s.Stored, datacap)
	}
	present := map[common.Hash]bool{}
	for _, l := range s.Index {
		for _, m := range l {
			present[m.Hash] = true
			res.Pooled++
			if exact && !v.ever[m.Hash] {
				add("never-acknowledged", "pooled tx %x was never acknowledged as added", m.Hash[:4])
			}
			if !v.ever[m.Hash] && !v.submitted[m.Hash] {
				add("never-submitted", "pooled tx %x was never submitted to the pool", m.Hash[:4])
			}
			if tx := pool.Get(m.Hash); tx == nil || tx.Hash() != m.Hash || tx.BlobTxSidecar() == nil {
				add("get-after-reopen", "Get(%x) does not return the transaction with its sidecar", m.Hash[:4])
			}
		}
	}
	res.Limboed = len(s.LimboIndex)
	for hash := range s.LimboIndex {
		if !v.everLimbo[hash] && exact {
			add("limbo-never-listed", "limboed tx %x was never in the limbo", hash[:4])
		}
	}
	if exact {
		// known-finding attribution, see compareReopened: missing txs that are (or follow, within
		// their account) a gapped-buffer promotion with a tip below the gas tip
		var closeStored uint64
		for hash := range v.acked {
			closeStored += v.info[hash].slot
		}
		overCapAtClose := closeStored > datacap && s.Stored <= datacap
		cutAt := map[int]uint64{}
		viaReinj := false
		for hash := range v.acked {
			if ai := v.info[hash]; ai.gapped >= 1 && ai.tip < v.head.GasTip {
				viaReinj = viaReinj || ai.gapped == 2
				if n, ok := cutAt[ai.acct]; !ok || ai.nonce < n {
					cutAt[ai.acct] = ai.nonce
				}
			}
		}
		for hash := range v.acked {
			if !present[hash] {
				ai := v.info[hash]
				if n, ok := cutAt[ai.acct]; ok && ai.nonce >= n {
					fp := "below-gastip-tx-from-gapped-buffer-dropped"
					if viaReinj {
						fp = "below-gastip-tx-from-reinjection-dropped"
					}
					add(fp, "acknowledged tx %x (tip %d, gas tip %d; entered the pool without a tip check, or sits behind such a tx) is dropped by Init", hash[:4], ai.tip, v.head.GasTip)
					continue
				}
				if overCapAtClose {
					add("over-datacap-after-reinjection-evicted", "acknowledged tx %x evicted by Init: the store held %d > Datacap %d bytes at Close", hash[:4], closeStored, datacap)
					continue
				}
				add("acked-missing", "acknowledged tx %x is not pooled after a clean Close and reopen", hash[:4])
			}
		}
		for hash := range present {
			if !v.acked[hash] {
				add("not-acked-present", "tx %x is pooled after reopen but was not in the pool at Close", hash[:4])
			}
		}
		for hash, b := range v.limbo {
			id, ok := s.LimboIndex[hash]
			if !ok || s.LimboGroups[b][id] != hash {
				add("limbo-missing", "tx %x (block %d) was in the limbo at Close, not after reopen", hash[:4], b)
			}
		}
		if len(s.LimboIndex) != len(v.limbo) {
			add("limbo-size", "limbo has %d entries after reopen, %d at Close", len(s.LimboIndex), len(v.limbo))
		}
	} else {
		// Abrupt stop. An acknowledged transaction may be missing for reasons the code documents
		// (billy persists deletions only at Close, so Init can resurrect replaced / evicted /
		// included entries): it is counted, and reported only if nothing explains its absence:
		//  - the log ends inside an operation (in-flight operations may go either way);
		//  - a competitor with the same account and nonce is pooled instead (resurrected);
		//  - a lower nonce of the account is missing or replaced as well (successors cannot stay);
		//  - some resurrected (acknowledged earlier, since removed) tx of the account is pooled
		//    (it changes the account's expenditure: overdraft cut from the tail);
		//  - resurrected entries can push the store over the Datacap (eviction at Init).
		acctOf := func(a common.Address) int {
			for i, x := range e.addrs {
				if x == a {
					return i
				}
			}
			return -1
		}
		pooledAt := map[[2]uint64]common.Hash{}
		resurrectedIn := map[int]bool{}
		for a, l := range s.Index {
			for _, m := range l {
				pooledAt[[2]uint64{uint64(acctOf(a)), m.Nonce}] = m.Hash
				if !v.acked[m.Hash] {
					resurrectedIn[acctOf(a)] = true
				}
			}
		}
		var ackedSize, minGone uint64
		for hash := range v.acked {
			ackedSize += v.info[hash].slot
		}
		for hash := range v.ever {
			if !v.acked[hash] {
				if sl := v.info[hash].slot; sl > 0 && (minGone == 0 || sl < minGone) {
					minGone = sl
				}
			}
		}
		overCap := minGone > 0 && ackedSize+minGone > datacap
		missingAt := map[int]uint64{} // lowest missing nonce per account
		for hash := range v.acked {
			if ai := v.info[hash]; !present[hash] {
				if n, ok := missingAt[ai.acct]; !ok || ai.nonce < n {
					missingAt[ai.acct] = ai.nonce
				}
			}
		}
		for hash := range v.acked {
			if present[hash] {
				continue
			}
			res.AckedGone++
			ai := v.info[hash]
			_, competitor := pooledAt[[2]uint64{uint64(ai.acct), ai.nonce}]
			explained := v.inflight || competitor || missingAt[ai.acct] < ai.nonce || resurrectedIn[ai.acct] || overCap
			if !explained || os.Getenv("C42_STRICT_ACK") == "1" {
				add("acked-missing-unexplained", "acknowledged tx %x (account %d nonce %d) is not pooled after the abrupt stop and no resurrected competitor, missing predecessor, resurrected sibling or Datacap pressure explains it", hash[:4], ai.acct, ai.nonce)
			}
		}
	}
	_ = uint256.NewInt
	return res
}
