// C42: the blob pool stays consistent across operations and restarts.
//
// A real blobpool.BlobPool (billy stores on tmpfs, small Datacap) is driven over a harness chain
// stub with valid blob transactions (precomputed blob/commitment/cell-proof sets). After every
// operation a white-box snapshot (VerifSnapshot, build tag verif; includes a physical walk of
// both billy stores) is checked against invariants recomputed from scratch, a shadow model of
// the limbo, a naive admission model and the public accessors. Close + New/Init on the same
// directory must reproduce the contents.
//
// Structure for crash-state testing (added by the lead): runWorkload(dir, ackPath) executes one
// deterministic history in a directory and writes an acknowledgement log; reopenAndCheck(dir,
// ack prefix) opens a directory and checks invariants + the acknowledged set. Both are also
// registered as child modes "c42-workload" and "c42-reopen" (parameters via environment).
package main

import (
	"crypto/ecdsa"
	"encoding/json"
	"fmt"
	"math/big"
	"math/rand"
	"os"
	"path/filepath"
	"runtime/pprof"
	"sort"
	"strconv"
	"strings"
	"sync"
	"sync/atomic"
	"syscall"
	"time"

	"github.com/ethereum/go-ethereum/common"
	"github.com/ethereum/go-ethereum/core/txpool"
	"github.com/ethereum/go-ethereum/core/txpool/blobpool"
	"github.com/ethereum/go-ethereum/core/types"
	"github.com/ethereum/go-ethereum/crypto"
	"github.com/ethereum/go-ethereum/crypto/kzg4844"
	"github.com/ethereum/go-ethereum/params"
	"github.com/holiman/uint256"

	"verif/lib/vrt"
)

func main() { vrt.Main("C42", run) }

func init() {
	vrt.RegisterChild("c42-workload", childWorkload)
	vrt.RegisterChild("c42-reopen", childReopen)
}

const (
	nAccounts = 4
	datacap   = 1_700_000
	priceBump = 100
	maxPerAcc = 16

	// race variant: bound on the Close+reopen operations per history (each is a billy Close/Open of
	// both stores plus two physical walks under race instrumentation: measured ~1 s against ~35 s
	// for the rest of a 25-op history; the bound only caps the worst case)
	raceReopensPerHist = 2
)

var (
	tipLadder     = []int64{1, 2, 3, 4, 8, 16}
	feeCapLadder  = []int64{10, 20, 40, 100, 200, 1000}
	blobCapLadder = []int64{1, 2, 4, 8, 16, 100}
	baseFeeLadder = []int64{5, 15, 30, 150, 500, 2000}
	blobFeeLadder = []float64{1, 3, 10, 50}
	gasTipLadder  = []int64{1, 1, 2, 4}
	balLadder     = []int64{50_000_000, 100_000_000, 300_000_000, 1_000_000_000, 1_000_000_000_000, 1_000_000_000_000}
)

type env struct {
	r      *vrt.Run
	keys   []*ecdsa.PrivateKey
	addrs  []common.Address
	signer types.Signer
	config *params.ChainConfig
	blobs  []*blobSet
}

func newEnv(r *vrt.Run, blobs []*blobSet) *env {
	cfg := *params.MergedTestChainConfig
	e := &env{r: r, config: &cfg, blobs: blobs}
	for i := 0; i < nAccounts; i++ {
		k, err := crypto.ToECDSA(common.LeftPadBytes([]byte{0x42, byte(i + 1)}, 32))
		if err != nil {
			panic(err)
		}
		e.keys = append(e.keys, k)
		e.addrs = append(e.addrs, crypto.PubkeyToAddress(k.PublicKey))
	}
	e.signer = types.LatestSigner(e.config)
	return e
}

// txInfo is one generated blob transaction in both forms.
type txInfo struct {
	tx   *types.Transaction      // with sidecar
	ptx  *blobpool.BlobTxForPool // storage form (precomputed cells)
	from common.Address
	bi   []int // indices of the blob sets used
}

// mkTx builds a valid signed blob transaction from precomputed blob sets.
func (e *env) mkTx(ai int, nonce uint64, tip, feeCap, blobCap int64, value int64, bi []int) *txInfo {
	var (
		blobs   []kzg4844.Blob
		commits []kzg4844.Commitment
		proofs  []kzg4844.Proof
		cells   []kzg4844.Cell
		hashes  []common.Hash
	)
	for _, i := range bi {
		b := e.blobs[i]
		blobs = append(blobs, b.Blob)
		commits = append(commits, b.Commit)
		proofs = append(proofs, b.Proofs...)
		cells = append(cells, b.Cells...)
		hashes = append(hashes, b.VHash)
	}
	inner := &types.BlobTx{
		ChainID:    uint256.MustFromBig(e.config.ChainID),
		Nonce:      nonce,
		GasTipCap:  uint256.NewInt(uint64(tip)),
		GasFeeCap:  uint256.NewInt(uint64(feeCap)),
		Gas:        21000,
		To:         common.Address{0xaa},
		Value:      uint256.NewInt(uint64(value)),
		BlobFeeCap: uint256.NewInt(uint64(blobCap)),
		BlobHashes: hashes,
		Sidecar:    types.NewBlobTxSidecar(types.BlobSidecarVersion1, blobs, commits, proofs),
	}
	tx := types.MustSignNewTx(e.keys[ai], e.signer, inner)
	ptx := &blobpool.BlobTxForPool{
		Tx: tx.WithoutBlobTxSidecar(),
		CellSidecar: &types.BlobTxCellSidecar{
			Version: types.BlobSidecarVersion1, Cells: cells, Commitments: commits, Proofs: proofs, Custody: types.CustodyBitmapAll,
		},
	}
	return &txInfo{tx: tx, ptx: ptx, from: e.addrs[ai], bi: bi}
}

// ---------------------------------------------------------------- acknowledgement log

// ackLog is the line-oriented log written by a workload. Lines (flushed one by one):
//
//	HEAD <json headState>      chain head / finality / gas tip the pool was last given
//	BEGIN <k> <description>    operation k starts
//	SUBMIT <hash>              the transaction is about to be passed to Add
//	RET <hash> <class>         Add returned for the transaction (ok, ok-gapped, or an error class)
//	ACK <hash>                 the transaction is in the pool's persistent index after the operation
//	GONE <hash>                a previously ACKed transaction left the index in this operation
//	LIMBO <hash> <block>       the transaction is in the limbo after the operation (full list follows each op)
//	END <k>                    operation k finished (all lines of k are between BEGIN and END)
//	CLOSE                      the pool was closed cleanly
type ackLog struct {
	mu sync.Mutex
	f  *os.File
	n  int
}

func newAckLog(path string) *ackLog {
	if path == "" {
		return &ackLog{}
	}
	f, err := os.Create(path)
	if err != nil {
		panic(err)
	}
	return &ackLog{f: f}
}

func (a *ackLog) linef(format string, args ...any) {
	a.mu.Lock()
	defer a.mu.Unlock()
	a.n++
	if a.f != nil {
		fmt.Fprintf(a.f, format+"\n", args...)
	}
}

func (a *ackLog) close() {
	if a.f != nil {
		a.f.Close()
	}
}

// headState is what a reopening process needs to know about the chain.
type headState struct {
	Number   uint64                  `json:"number"`
	BaseFee  int64                   `json:"basefee"`
	Excess   uint64                  `json:"excess"`
	Final    uint64                  `json:"final"`
	GasTip   int64                   `json:"gastip"`
	Accounts map[common.Address]acct `json:"accounts"`
}

// ---------------------------------------------------------------- history

type hist struct {
	e   *env
	r   *vrt.Run
	idx int
	rng *rand.Rand
	dir string

	ch     *chain
	pool   *blobpool.BlobPool
	res    *reserver
	gasTip int64

	authMu      sync.Mutex
	authPending map[common.Address]bool
	poolMu      sync.RWMutex  // held (write) while the pool object is closed and replaced
	tick        chan struct{} // race variant: wakes the concurrent reader once per operation

	known  []*txInfo
	byHash map[common.Hash]*txInfo
	limbo  map[common.Hash]uint64 // shadow limbo: tx hash -> inclusion block
	// limboCode follows the same rules except that a re-included transaction keeps its old
	// block number; used only to attribute the known finding narrowly
	limboCode   map[common.Hash]uint64
	reincluded  map[common.Hash]bool
	viaGapped   map[common.Hash]bool // entered the index by promotion from the gapped buffer
	viaReinject map[common.Hash]bool // entered the index by re-injection after a reorg
	acked       map[common.Hash]bool // currently acknowledged (in the persistent index)
	ever        map[common.Hash]bool // ever acknowledged
	ack         *ackLog
	prev        *blobpool.VerifSnapshot
	log         []string
	dead        bool
	opNo        int
	sizeOf      map[int]uint32 // observed slot size by blob count

	forceWalk        bool  // next check walks the stores physically
	walkAt           int   // operation number after which the stores are walked physically once
	killAt, storeOps int64 // kill the process at the killAt-th store observation point (0 = never)
	verbose          bool
	cur              *opInfo     // reset bookkeeping of the current operation
	lastAdd          common.Hash // transaction of the current Add
	lastAddSize      uint64      // its expected slot size (0 = unknown)

	fEvict, fReplace, fLimbo, fReinject, fReopen, fGapped, fFinal, fTipDrop, fReorg, fOverdraft bool
	reopens                                                                                     int // Close+reopen operations started in this history

	// eviction-focused family (evict.go): mostly Adds - appends with fee caps around the current
	// fees and replacements in multi-tx accounts - over a pool that is full most of the time
	focus              bool
	replSinceReset     int // accepted replacements in accounts with >= 2 txs since the last Reset / reopen / tip change
	fReplMulti         bool
	fOverflowAfterRepl bool
}

func (h *hist) logf(format string, a ...any) { h.log = append(h.log, fmt.Sprintf(format, a...)) }

func (h *hist) family() string {
	if h.focus {
		return "focus history"
	}
	return "history"
}

func (h *hist) witness() any {
	l := h.log
	if len(l) > 100 {
		l = l[len(l)-100:]
	}
	return map[string]any{"history": h.idx, "family": h.family(), "ops": append([]string{}, l...)}
}

func (h *hist) viol(fp, msg string) {
	h.r.Violation(fp, fmt.Sprintf("%s %d: %s", h.family(), h.idx, msg), h.witness())
}

func (h *hist) addrName(a common.Address) string {
	for i, x := range h.e.addrs {
		if x == a {
			return fmt.Sprintf("A%d", i)
		}
	}
	return fmt.Sprintf("%x", a[:4])
}

func (h *hist) txName(ti *txInfo) string {
	tx := ti.tx
	return fmt.Sprintf("%s/n%d/tip%v/cap%v/blobcap%v/b%d/%x", h.addrName(ti.from), tx.Nonce(), tx.GasTipCap(), tx.GasFeeCap(), tx.BlobGasFeeCap(), len(ti.bi), tx.Hash().Bytes()[:3])
}

func (h *hist) hashName(hash common.Hash) string {
	if ti := h.byHash[hash]; ti != nil {
		return h.txName(ti)
	}
	return fmt.Sprintf("%x", hash[:4])
}

func pick(rng *rand.Rand, l []int64) int64 { return l[rng.Intn(len(l))] }

func (h *hist) hasPendingAuth(a common.Address) bool {
	h.authMu.Lock()
	defer h.authMu.Unlock()
	return h.authPending[a]
}

func newHist(e *env, idx int, stream, dir, ackPath string) *hist {
	return newHistP(e, idx, stream, dir, ackPath, false)
}

func newHistP(e *env, idx int, stream, dir, ackPath string, focus bool) *hist {
	h := &hist{e: e, r: e.r, idx: idx, rng: e.r.Rand(stream, idx), dir: dir, gasTip: 1, focus: focus,
		authPending: map[common.Address]bool{}, byHash: map[common.Hash]*txInfo{}, limbo: map[common.Hash]uint64{}, limboCode: map[common.Hash]uint64{}, reincluded: map[common.Hash]bool{}, viaGapped: map[common.Hash]bool{}, viaReinject: map[common.Hash]bool{},
		acked: map[common.Hash]bool{}, ever: map[common.Hash]bool{}, sizeOf: map[int]uint32{}}
	h.ack = newAckLog(ackPath)
	h.walkAt = 5 + h.rng.Intn(18)
	if e.r.Race() {
		h.walkAt = -1
	}
	gen := map[common.Address]acct{}
	for i := 0; i < nAccounts; i++ {
		gen[e.addrs[i]] = acct{
			Nonce:     uint64(10 + h.rng.Intn(3)*95 + h.rng.Intn(5)), // 10.., 105.., 200..: gapped allowance 1 or 2
			Balance:   big.NewInt(balLadder[1+h.rng.Intn(len(balLadder)-1)]),
			Delegated: i == 3 && h.rng.Intn(2) == 0,
		}
	}
	baseFee, blobFee := pick(h.rng, baseFeeLadder), blobFeeLadder[h.rng.Intn(len(blobFeeLadder))]
	if focus {
		// rich, undelegated accounts; fees in the middle of the ladders so that fee caps fall on both sides
		h.walkAt = -1
		for a, st := range gen {
			gen[a] = acct{Nonce: st.Nonce, Balance: big.NewInt(balLadder[len(balLadder)-1])}
		}
		baseFee, blobFee = pick(h.rng, focusBaseFees), focusBlobFees[h.rng.Intn(len(focusBlobFees))]
	}
	h.ch = newChain(e.config, gen, 100, baseFee, excessFor(blobFee))
	h.open()
	return h
}

func (h *hist) poolConfig() blobpool.Config {
	return blobpool.Config{Datadir: h.dir, Datacap: datacap, PriceBump: priceBump}
}

// open creates the pool object on the directory and initialises it on the current head.
func (h *hist) open() {
	h.pool = blobpool.New(h.poolConfig(), h.ch, h.hasPendingAuth)
	h.res = newReserver()
	if err := h.pool.Init(uint64(h.gasTip), h.ch.CurrentBlock(), h.res); err != nil {
		h.viol("init-failed", fmt.Sprintf("Init on %s failed: %v", h.dir, err))
		h.dead = true
		return
	}
	h.writeHead()
	h.armKill()
}

func (h *hist) headState() headState {
	hd := h.ch.headBlk()
	return headState{Number: hd.header.Number.Uint64(), BaseFee: hd.header.BaseFee.Int64(), Excess: *hd.header.ExcessBlobGas,
		Final: h.ch.finalBlk().header.Number.Uint64(), GasTip: h.gasTip, Accounts: hd.state}
}

func (h *hist) writeHead() {
	b, _ := json.Marshal(h.headState())
	h.ack.linef("HEAD %s", b)
}

func (h *hist) state(a common.Address) acct {
	st, ok := h.ch.headBlk().state[a]
	if !ok {
		return acct{Balance: new(big.Int)}
	}
	return st
}

// ---------------------------------------------------------------- generation

func (h *hist) genTx() *txInfo {
	rng, e := h.rng, h.e
	if rng.Intn(100) < 7 && len(h.known) > 0 {
		return h.known[rng.Intn(len(h.known))]
	}
	ai := rng.Intn(nAccounts)
	a := e.addrs[ai]
	st := h.state(a)
	var cur []blobpool.VerifMeta
	if h.prev != nil {
		cur = h.prev.Index[a]
	}
	next := st.Nonce + uint64(len(cur))
	nonce := next
	var old *blobpool.VerifMeta
	switch x := rng.Intn(100); {
	case x < 52:
	case x < 74:
		if len(cur) > 0 {
			old = &cur[rng.Intn(len(cur))]
			nonce = old.Nonce
		}
	case x < 86:
		nonce = next + 1 + uint64(rng.Intn(2))
	case x < 91:
		if st.Nonce > 0 {
			nonce = st.Nonce - 1
		}
	default:
		nonce = next + uint64(rng.Intn(4))
	}
	var tip, feeCap, blobCap int64
	if old != nil && rng.Intn(100) < 85 {
		v := func(o int64) int64 { // around the 100% bump threshold
			switch rng.Intn(6) {
			case 0:
				return 2 * o
			case 1:
				return 2*o - 1
			case 2:
				return o
			case 3:
				return o + 1
			case 4:
				return 2*o + 1
			default:
				return 4 * o
			}
		}
		tip, feeCap, blobCap = v(old.ExecTipCap.Int64()), v(old.ExecFeeCap.Int64()), v(old.BlobFeeCap.Int64())
		if rng.Intn(100) < 60 { // mostly a fully valid bump, so that replacements happen
			tip, feeCap, blobCap = 2*old.ExecTipCap.Int64(), 2*old.ExecFeeCap.Int64(), 2*old.BlobFeeCap.Int64()
		}
		if feeCap < tip {
			feeCap = tip
		}
	} else {
		tip, feeCap, blobCap = pick(rng, tipLadder), pick(rng, feeCapLadder), pick(rng, blobCapLadder)
		if rng.Intn(100) < 3 {
			tip = feeCap + 1 // tip above fee cap
		}
	}
	nb := 1
	switch x := rng.Intn(100); {
	case x < 68:
	case x < 90:
		nb = 2
	default:
		nb = 3
	}
	var bi []int
	for i := 0; i < nb; i++ {
		bi = append(bi, rng.Intn(len(e.blobs)))
	}
	value := int64(0)
	if x := rng.Intn(100); x < 15 {
		// at the edge of the remaining balance
		spent := new(big.Int)
		if h.prev != nil && h.prev.Spent[a] != nil {
			spent.Set(h.prev.Spent[a])
		}
		own := int64(21000)*feeCap + int64(nb)*131072*blobCap
		edge := new(big.Int).Sub(st.Balance, spent)
		edge.Sub(edge, big.NewInt(own))
		edge.Add(edge, big.NewInt(int64(rng.Intn(3)-1)))
		if edge.Sign() > 0 && edge.IsInt64() {
			value = edge.Int64()
		}
	} else if x < 40 {
		value = 100
	}
	ti := e.mkTx(ai, nonce, tip, feeCap, blobCap, value, bi)
	h.remember(ti)
	return ti
}

func (h *hist) remember(ti *txInfo) {
	if h.byHash[ti.tx.Hash()] == nil {
		h.byHash[ti.tx.Hash()] = ti
		h.known = append(h.known, ti)
	}
}

// buildChild builds a child of parent including a nonce-ordered subset of the candidates and
// occasionally a blob transaction the pool never saw. Account state changes only for accounts
// with a transaction in the block (the pool rechecks exactly those).
func (h *hist) buildChild(parent *blk, cands []*txInfo) *blk {
	rng, e := h.rng, h.e
	st := copyState(parent.state)
	by := map[common.Address][]*txInfo{}
	seen := map[common.Hash]bool{}
	for _, ti := range cands {
		if !seen[ti.tx.Hash()] {
			seen[ti.tx.Hash()] = true
			by[ti.from] = append(by[ti.from], ti)
		}
	}
	var included []*types.Transaction
	incl := 60
	if h.focus {
		incl = 30 // keep the pool full
	}
	for i := 0; i < nAccounts; i++ {
		a := e.addrs[i]
		l := by[a]
		sort.SliceStable(l, func(x, y int) bool { return l[x].tx.Nonce() < l[y].tx.Nonce() })
		s := st[a]
		touched := false
		for _, ti := range l {
			if ti.tx.Nonce() != s.Nonce || rng.Intn(100) >= incl {
				if ti.tx.Nonce() > s.Nonce {
					break
				}
				continue
			}
			included = append(included, ti.tx.WithoutBlobTxSidecar())
			s.Nonce++
			touched = true
			s.Balance = new(big.Int).Sub(s.Balance, ti.tx.Cost())
			if s.Balance.Sign() < 0 {
				s.Balance.SetInt64(0)
			}
		}
		if rng.Intn(100) < 8 { // included without ever being published
			ft := e.mkTx(i, s.Nonce, 5, 5000, 200, int64(rng.Intn(1000)), []int{rng.Intn(len(e.blobs))})
			included = append(included, ft.tx.WithoutBlobTxSidecar())
			s.Nonce++
			touched = true
		}
		if touched {
			if x := rng.Intn(100); x < 25 {
				s.Balance = big.NewInt(pick(rng, balLadder))
			} else if x < 30 && i >= 2 {
				s.Delegated = !s.Delegated
			}
		}
		st[a] = s
	}
	baseFee := parent.header.BaseFee.Int64()
	excess := *parent.header.ExcessBlobGas
	if rng.Intn(100) < 45 {
		baseFee = pick(rng, baseFeeLadder)
	}
	if rng.Intn(100) < 35 {
		excess = excessFor(blobFeeLadder[rng.Intn(len(blobFeeLadder))])
	}
	return h.ch.extend(parent, included, st, baseFee, excess)
}

func (h *hist) poolCands() []*txInfo {
	var out []*txInfo
	if h.prev != nil {
		for _, l := range h.prev.Index {
			for _, m := range l {
				if ti := h.byHash[m.Hash]; ti != nil {
					out = append(out, ti)
				}
			}
		}
	}
	sort.Slice(out, func(i, j int) bool { return out[i].tx.Hash().Cmp(out[j].tx.Hash()) < 0 })
	return out
}

// moveFinal advances finality to head-lag (never backwards).
func (h *hist) moveFinal() {
	lag := uint64(h.rng.Intn(5))
	hd := h.ch.headBlk().header.Number.Uint64()
	cur := h.ch.finalBlk().header.Number.Uint64()
	if hd < lag || hd-lag <= cur {
		return
	}
	if b := h.ch.canonical(hd - lag); b != nil {
		h.ch.setFinal(b)
		h.fFinal = true
	}
}

// ---------------------------------------------------------------- operations

func (h *hist) begin(desc string) {
	h.opNo++
	h.cur = nil
	h.ack.linef("BEGIN %d %s", h.opNo, desc)
	h.logf("%s", desc)
}

// end diffs the persistent index against the acknowledged set and writes ACK/GONE/LIMBO lines.
func (h *hist) end(s *blobpool.VerifSnapshot) {
	if s != nil {
		now := map[common.Hash]bool{}
		for _, l := range s.Index {
			for _, m := range l {
				now[m.Hash] = true
			}
		}
		var add, gone []common.Hash
		for hash := range now {
			if !h.acked[hash] {
				add = append(add, hash)
			}
		}
		for hash := range h.acked {
			if !now[hash] {
				gone = append(gone, hash)
			}
		}
		sort.Slice(add, func(i, j int) bool { return add[i].Cmp(add[j]) < 0 })
		sort.Slice(gone, func(i, j int) bool { return gone[i].Cmp(gone[j]) < 0 })
		for _, hash := range add {
			h.acked[hash], h.ever[hash] = true, true
			g, tip, ai, nonce := 0, int64(0), -1, uint64(0)
			if h.viaGapped[hash] {
				g = 1
			}
			if h.viaReinject[hash] {
				g = 2
			}
			if ti := h.byHash[hash]; ti != nil {
				tip, nonce = ti.tx.GasTipCap().Int64(), ti.tx.Nonce()
				for i, a := range h.e.addrs {
					if a == ti.from {
						ai = i
					}
				}
			}
			slot := uint32(0)
			for _, l := range s.Index {
				for _, mm := range l {
					if mm.Hash == hash {
						slot = mm.StorageSize
					}
				}
			}
			h.ack.linef("ACK %x tip=%d gapped=%d acct=%d nonce=%d slot=%d", hash, tip, g, ai, nonce, slot)
		}
		for _, hash := range gone {
			delete(h.acked, hash)
			h.ack.linef("GONE %x", hash)
		}
		var lh []common.Hash
		for hash := range s.LimboIndex {
			lh = append(lh, hash)
		}
		sort.Slice(lh, func(i, j int) bool { return lh[i].Cmp(lh[j]) < 0 })
		for _, hash := range lh {
			blkNo := uint64(0)
			for b, ids := range s.LimboGroups {
				for _, x := range ids {
					if x == hash {
						blkNo = b
					}
				}
			}
			h.ack.linef("LIMBO %x %d", hash, blkNo)
		}
	}
	h.ack.linef("END %d", h.opNo)
}

func (h *hist) opAdd(real bool) {
	var ti *txInfo
	if h.focus {
		ti = h.genTxFocus()
	} else {
		ti = h.genTx()
	}
	h.begin(fmt.Sprintf("add %s real=%v", h.txName(ti), real))
	pre := h.prev
	want := h.predict(pre, ti)
	h.lastAdd, h.lastAddSize = ti.tx.Hash(), uint64(h.sizeOf[len(ti.bi)])
	h.ack.linef("SUBMIT %x", ti.tx.Hash())
	var err error
	if real {
		// the full public path: ValidateTxBasics + cell computation + KZG cell verification
		err = h.pool.Add([]*types.Transaction{ti.tx}, true)[0]
		h.r.Count("op_add_full_kzg", 1)
	} else {
		// the cheap public path: stateless validation, then the pooled form with precomputed cells
		if err = h.pool.ValidateTxBasics(ti.tx); err == nil {
			err = h.pool.AddPooledTx(ti.ptx)
		}
		h.r.Count("op_add", 1)
	}
	post := h.check("add", pre)
	got := classify(err)
	if got == "ok" && post != nil {
		if _, g := post.GappedSource[ti.tx.Hash()]; g {
			if _, in := post.LookupTx[ti.tx.Hash()]; !in {
				got = "ok-gapped"
				h.fGapped = true
			}
		}
	}
	h.ack.linef("RET %x %s", ti.tx.Hash(), strings.SplitN(got, ":", 2)[0])
	h.logf("  -> %s (model %s)", got, want)
	h.r.Count("add_result_"+strings.SplitN(got, ":", 2)[0], 1)
	h.judgeAdd(ti, pre, post, got, want)
	h.judgeEviction(ti, pre, post, got)
	h.prev = post
	h.end(post)
}

func (h *hist) opReset(reorg bool) {
	rng := h.rng
	old := h.ch.headBlk()
	anc := old
	var discarded []*blk
	if reorg {
		d := 1 + rng.Intn(3)
		fin := h.ch.finalBlk().header.Number.Uint64()
		for i := 0; i < d && anc.parent != nil && anc.parent.header.Number.Uint64() >= fin; i++ {
			discarded = append(discarded, anc)
			anc = anc.parent
		}
		if anc == old {
			reorg = false
		}
	}
	cands := h.poolCands()
	reinclude := rng.Intn(100) < 50 // offer the reorged-out txs for inclusion on the new branch
	for _, b := range discarded {
		if !reinclude {
			break
		}
		for _, tx := range b.block.Transactions() {
			if ti := h.byHash[tx.Hash()]; ti != nil {
				cands = append(cands, ti)
			}
		}
	}
	length := 1
	if reorg {
		length = 1 + rng.Intn(len(discarded)+1)
	} else if rng.Intn(100) < 20 {
		length = 2
	}
	tip := anc
	var included []*blk
	for i := 0; i < length; i++ {
		tip = h.buildChild(tip, cands)
		included = append(included, tip)
	}
	h.ch.setHead(tip)
	h.moveFinal()
	kind := "advance"
	if reorg {
		kind = "reorg"
		h.fReorg = true
	}
	h.begin(fmt.Sprintf("%s %d->%d (fork %d, +%d blocks) basefee=%v blobexcess=%d final=%d state=%s", kind, old.header.Number, tip.header.Number,
		anc.header.Number, length, tip.header.BaseFee, *tip.header.ExcessBlobGas, h.ch.finalBlk().header.Number, h.stateStr(tip)))
	for _, b := range included {
		for _, tx := range b.block.Transactions() {
			h.logf("    block %d includes %s", b.header.Number, h.hashName(tx.Hash()))
		}
	}
	h.writeHead()
	pre := h.prev
	h.shadowReset(pre, discarded, included)
	h.replSinceReset = 0
	h.pool.Reset(old.header, tip.header)
	h.r.Count("op_"+kind, 1)
	post := h.check(kind, pre)
	h.prev = post
	h.end(post)
}

func (h *hist) opResetSame() {
	hd := h.ch.headBlk()
	h.moveFinal()
	h.begin(fmt.Sprintf("reset same head %d final=%d", hd.header.Number, h.ch.finalBlk().header.Number))
	h.writeHead()
	pre := h.prev
	h.shadowReset(pre, nil, nil)
	h.replSinceReset = 0
	h.pool.Reset(hd.header, hd.header)
	h.r.Count("op_reset_same", 1)
	post := h.check("reset-same", pre)
	h.prev = post
	h.end(post)
}

func (h *hist) opSetTip() {
	v := pick(h.rng, gasTipLadder)
	h.begin(fmt.Sprintf("settip %d (was %d)", v, h.gasTip))
	pre := h.prev
	old := h.gasTip
	h.gasTip = v
	h.replSinceReset = 0
	h.pool.SetGasTip(big.NewInt(v))
	h.writeHead()
	h.r.Count("op_settip", 1)
	op := "settip"
	if v > old {
		op = "settip-raise"
	}
	post := h.check(op, pre)
	h.prev = post
	h.end(post)
}

// opReopen closes the pool and opens the same directory again: contents must be reproduced.
func (h *hist) opReopen() {
	h.begin("close + reopen")
	pre := h.pool.VerifSnapshot(2)
	h.poolMu.Lock()
	if err := h.pool.Close(); err != nil {
		h.viol("close-failed", fmt.Sprintf("Close: %v", err))
	}
	h.ack.linef("CLOSE")
	h.replSinceReset = 0
	h.open()
	h.poolMu.Unlock()
	if h.dead {
		return
	}
	h.r.Count("op_reopen", 1)
	h.fReopen = true
	post := h.check("reopen", pre)
	if post != nil {
		h.compareReopened(pre, post)
	}
	h.prev = post
	h.end(post)
}

func (h *hist) stateStr(b *blk) string {
	var sb strings.Builder
	for i := 0; i < nAccounts; i++ {
		s := b.state[h.e.addrs[i]]
		fmt.Fprintf(&sb, "A%d{n%d b%v d%v} ", i, s.Nonce, s.Balance, s.Delegated)
	}
	return sb.String()
}

// armKill installs the store observer on the current pool object (again after every reopen).
func (h *hist) armKill() {
	if h.killAt == 0 || h.pool == nil {
		return
	}
	h.pool.VerifOnStoreOp(func(store, op string, phase int) {
		h.storeOps++
		if h.storeOps == h.killAt {
			h.ack.linef("KILLED at store observation %d (%s %s phase %d)", h.storeOps, store, op, phase)
			h.ack.close()
			syscall.Kill(os.Getpid(), syscall.SIGKILL)
			select {}
		}
	})
}

// runWorkload executes the history. It is the "run history H in directory D with ack log"
// half; stopAfter < 0 runs all ops and closes cleanly, otherwise the function returns after
// that many operations WITHOUT closing the pool (the caller exits the process: abrupt stop).
func (h *hist) runWorkload(nOps, stopAfter int) {
	r := h.r
	if h.dead {
		return
	}
	if r.Race() {
		// a concurrent reader over the public accessors, so that the race detector observes the
		// pool's locking (results are not judged: they interleave with the operations)
		var done atomic.Bool
		var wg sync.WaitGroup
		h.tick = make(chan struct{}, 4)
		wg.Add(1)
		go func() {
			defer wg.Done()
			rng := r.Rand("reader", h.idx)
			for range h.tick { // one burst of reads per operation, concurrent with it
				if done.Load() {
					return
				}
				h.poolMu.RLock()
				p := h.pool
				a := h.e.addrs[rng.Intn(nAccounts)]
				p.Stats()
				p.Nonce(a)
				pend, _ := p.Pending(txpool.PendingFilter{BlobTxs: true, BlobVersion: types.BlobSidecarVersion1})
				for _, l := range pend {
					for _, lt := range l {
						p.Has(lt.Hash)
						p.GetMetadata(lt.Hash)
						p.GetBlobHashes(lt.Hash)
						if rng.Intn(8) == 0 {
							p.Get(lt.Hash)
						}
					}
				}
				h.poolMu.RUnlock()
				r.Count("race_reader_rounds", 1)
			}
		}()
		defer func() { done.Store(true); close(h.tick); wg.Wait() }()
	}
	h.begin(fmt.Sprintf("init %s tip=%d basefee=%v", h.stateStr(h.ch.headBlk()), h.gasTip, h.ch.headBlk().header.BaseFee))
	h.prev = h.check("init", nil)
	h.end(h.prev)
	for step := 0; step < nOps && !h.dead; step++ {
		if stopAfter >= 0 && step >= stopAfter {
			// kill model: the process dies right after a completed operation
			h.ack.close()
			syscall.Kill(os.Getpid(), syscall.SIGKILL)
			select {}
		}
		r.Case("C42 history %d step %d dir %s", h.idx, step, h.dir)
		if h.tick != nil {
			select {
			case h.tick <- struct{}{}:
			default:
			}
		}
		panicked := r.Guard("op", h.witness(), func() {
			if h.focus {
				switch x := h.rng.Intn(100); {
				case x < 85:
					h.opAdd(false)
				case x < 93:
					h.opReset(false)
				case x < 96:
					h.opReset(true)
				default:
					h.opResetSame()
				}
				return
			}
			switch x := h.rng.Intn(100); {
			case x < 59:
				// one Add in about 250 goes through the full public path (cell computation and
				// KZG verification, ~0.5 s CPU); the others use the cheap public path
				h.opAdd(h.rng.Intn(250) == 0)
			case x < 76:
				h.opReset(false)
			case x < 85:
				h.opReset(true)
			case x < 88:
				h.opResetSame()
			case x < 93:
				h.opSetTip()
			case x < 95:
				a := h.e.addrs[h.rng.Intn(nAccounts)]
				h.authMu.Lock()
				h.authPending[a] = !h.authPending[a]
				v := h.authPending[a]
				h.authMu.Unlock()
				h.begin(fmt.Sprintf("pending-auth %s = %v", h.addrName(a), v))
				h.end(nil)
			default:
				// (under the race detector at most raceReopensPerHist per history: billy.Open
				// allocates and compacts every shelf, which is pathologically slow with race
				// instrumentation; the concurrent reader is held off by poolMu while the pool
				// object is closed and replaced)
				if stopAfter < 0 && (!r.Race() || h.reopens < raceReopensPerHist) {
					h.reopens++
					h.opReopen()
				}
			}
		})
		if panicked {
			h.dead = true
		}
	}
	if !h.dead && stopAfter < 0 {
		h.begin("final check")
		h.forceWalk = !r.Race() && !h.focus
		h.end(h.check("final", h.prev))
		if err := h.pool.Close(); err != nil {
			h.viol("close-failed", fmt.Sprintf("Close: %v", err))
		}
		h.ack.linef("CLOSE")
	}
}

func (h *hist) signature() string {
	if h.focus {
		if !(h.fEvict || h.fReplMulti) {
			return ""
		}
		return fmt.Sprintf("focus/ev%v/rpm%v/oar%v/lb%v/ri%v/gp%v/fn%v/rg%v/od%v", h.fEvict, h.fReplMulti, h.fOverflowAfterRepl, h.fLimbo, h.fReinject, h.fGapped, h.fFinal, h.fReorg, h.fOverdraft)
	}
	if !(h.fEvict || h.fReplace || h.fLimbo || h.fReinject || h.fReopen) {
		return ""
	}
	return fmt.Sprintf("ev%v/rp%v/lb%v/ri%v/ro%v/gp%v/fn%v/td%v/rg%v/od%v", h.fEvict, h.fReplace, h.fLimbo, h.fReinject, h.fReopen, h.fGapped, h.fFinal, h.fTipDrop, h.fReorg, h.fOverdraft)
}

// ---------------------------------------------------------------- child modes

// childWorkload: VERIF_CHILD=c42-workload. Parameters: C42_DIR (pool directory), C42_ACK (ack log
// path), C42_BLOBS (precomputed blob sets), C42_HIST (history index), C42_OPS (number of ops),
// C42_STOP (stop abruptly after that many ops without Close; -1 = run all and Close).
func childWorkload(r *vrt.Run) {
	blobs, err := loadBlobSets(os.Getenv("C42_BLOBS"))
	if err != nil {
		fmt.Println("C42-CHILD-ERROR cannot load blob sets:", err)
		os.Exit(4)
	}
	idx, _ := strconv.Atoi(os.Getenv("C42_HIST"))
	nOps, _ := strconv.Atoi(os.Getenv("C42_OPS"))
	stop, err := strconv.Atoi(os.Getenv("C42_STOP"))
	if err != nil {
		stop = -1
	}
	e := newEnv(r, blobs)
	h := newHist(e, idx, "child", os.Getenv("C42_DIR"), os.Getenv("C42_ACK"))
	if n, err := strconv.Atoi(os.Getenv("C42_KILLSTOREOP")); err == nil && n > 0 {
		// kill model inside an operation: die at the n-th observation point of the billy
		// stores (before/after each Put/Delete); count-based, never time-based
		h.killAt = int64(n)
		h.armKill()
	}
	h.runWorkload(nOps, stop)
	h.ack.close()
	fmt.Printf("C42-WORKLOAD-DONE ops=%d violations=%d sig=%s\n", h.opNo, r.NumViolations(), h.signature())
	if r.NumViolations() > 0 {
		os.Exit(1)
	}
	os.Exit(0) // abrupt when stop >= 0: the pool was never closed
}

// childReopen: VERIF_CHILD=c42-reopen. Parameters: C42_DIR, C42_ACK, C42_ACKLINES (number of ack
// log lines that had been written at the crash position; empty = all), C42_MODE (exact|abrupt).
// Prints one line "C42-REOPEN-RESULT <json>".
func childReopen(r *vrt.Run) {
	lines := -1
	if v := os.Getenv("C42_ACKLINES"); v != "" {
		lines, _ = strconv.Atoi(v)
	}
	res := reopenAndCheck(r, os.Getenv("C42_DIR"), os.Getenv("C42_ACK"), lines, os.Getenv("C42_MODE") != "abrupt")
	b, _ := json.Marshal(res)
	fmt.Printf("C42-REOPEN-RESULT %s\n", b)
	os.Exit(0)
}

// ---------------------------------------------------------------- top level

func run(r *vrt.Run) {
	if p := os.Getenv("C42_PROF"); p != "" {
		f, _ := os.Create(p)
		pprof.StartCPUProfile(f)
		defer pprof.StopCPUProfile()
	}
	r.Rule("each case is one history over a fresh BlobPool directory (Datacap 1.7 MB: 2-6 txs fit, bump 100%) and a harness chain with 4 accounts (one possibly delegated, pending-auth flag toggled): ops Add (cheap path ValidateTxBasics+AddPooledTx with precomputed cells; a few through the full Add with KZG), head advance with inclusions (also never-published blob txs), fee changes, reorgs 1-3 deep above finality, finality lag 0-4, SetGasTip, reset on the same head, Close+New/Init on the same directory; txs carry 1-3 of the precomputed blobs, nonces next/replacement/gapped/stale, fees around the 100% bump thresholds, values at the balance edge. Child flows run a history in a child process, stop it cleanly or abruptly at an operation boundary and reopen the directory in another child. A history is non-trivial if it showed eviction, replacement, limbo traffic, re-injection or a reopen; signature = vector of those flags plus gapped/finality/tip-drop/reorg/overdraft flags. Eviction-focused histories (signature prefix focus/): 4 rich undelegated accounts, 40 ops, 85% Adds of which ~45% are valid replacements (bump x2..x8 per fee dimension) of tail / non-tail txs preferably in accounts with >=2 pooled txs and the rest appends with fee caps at 1/8..4x the pool's current base / blob fee, so the pool (6 one-blob txs) is full most of the time and almost every append overflows the Datacap; few head changes in between. After every operation the eviction heap (index map, population, heap order) is judged with a priority recomputed from each account's pooled transactions and the current fees by the documented policy; every capacity eviction is judged by the eviction-order oracle (victims = tails of minimal-priority accounts, ties allowed, no needless drop); non-trivial if it showed an eviction or a replacement in a multi-tx account")
	nBlobs := 6
	if r.Race() {
		nBlobs = 2 // KZG under the race detector is ~10x slower
	}
	t0 := time.Now()
	blobs := makeBlobSets(nBlobs)
	r.Extra("blob_precompute_s", time.Since(t0).Seconds())
	blobFile := filepath.Join(r.Scratch, "c42-blobs.gob")
	if err := saveBlobSets(blobFile, blobs); err != nil {
		panic(err)
	}
	e := newEnv(r, blobs)
	nHist := r.N(100, 4000)

	nOps := 25
	nChild := r.N(9, 150)
	nFocus, nFocusOps := r.N(100, 4000), 40
	if r.Race() {
		nHist = r.N(4, 24)
		nChild = r.N(0, 9) // cross-process flows add nothing under the race detector
		nFocus = r.N(1, 6)
	}
	if v := os.Getenv("C42_HIST"); v != "" { // debugging aid: one history, verbose
		i, _ := strconv.Atoi(v)
		h := newHist(e, i, "hist", filepath.Join(r.Scratch, "dbg"), "")
		h.verbose = true
		h.runWorkload(nOps, -1)
		for _, l := range h.log {
			fmt.Println(l)
		}
		return
	}
	if v := os.Getenv("C42_FOCUS"); v != "" { // debugging aid: one eviction-focused history, verbose
		i, _ := strconv.Atoi(v)
		h := newHistP(e, i, "focus", filepath.Join(r.Scratch, "dbg"), "", true)
		h.verbose = true
		h.runWorkload(nFocusOps, -1)
		for _, l := range h.log {
			fmt.Println(l)
		}
		return
	}
	if v := os.Getenv("C42_NHIST"); v != "" {
		nHist, _ = strconv.Atoi(v)
	}
	if v := os.Getenv("C42_NFOCUS"); v != "" {
		nFocus, _ = strconv.Atoi(v)
	}
	if v := os.Getenv("C42_NCHILD"); v != "" {
		nChild, _ = strconv.Atoi(v)
	}
	vrt.Par(nHist, 0, func(i int) {
		dir := filepath.Join(r.Scratch, fmt.Sprintf("h%d", i))
		h := newHist(e, i, "hist", dir, "")
		h.runWorkload(nOps, -1)
		sig := h.signature()
		r.Eval(sig)
		if sig != "" && r.WantSample() {
			l := h.log
			if len(l) > 12 {
				l = l[:12]
			}
			r.Sample(map[string]any{"history": i, "signature": sig, "first_ops": l})
		}
		os.RemoveAll(dir)
	})
	// eviction-focused histories (evict.go)
	vrt.Par(nFocus, 0, func(i int) {
		dir := filepath.Join(r.Scratch, fmt.Sprintf("f%d", i))
		h := newHistP(e, i, "focus", dir, "", true)
		h.runWorkload(nFocusOps, -1)
		sig := h.signature()
		r.Eval(sig)
		r.Count("focus_histories", 1)
		if sig != "" && h.fOverflowAfterRepl && r.WantSample() {
			l := h.log
			if len(l) > 16 {
				l = l[:16]
			}
			r.Sample(map[string]any{"focus_history": i, "signature": sig, "first_ops": l})
		}
		os.RemoveAll(dir)
	})
	// child flows: workload in one process (clean close or abrupt stop at an op boundary),
	// reopen + check in another
	vrt.Par(nChild, 2, func(i int) {
		dir := filepath.Join(r.Scratch, fmt.Sprintf("c%d", i))
		ackPath := filepath.Join(r.Scratch, fmt.Sprintf("c%d.ack", i))
		os.MkdirAll(dir, 0o755)
		rng := r.Rand("childflow", i)
		stop, killOp, mode := -1, 0, "exact"
		switch i % 3 {
		case 1: // SIGKILL right after a completed operation
			stop, mode = 6+rng.Intn(nOps-6), "abrupt"
		case 2: // SIGKILL inside an operation, at a billy store observation point
			killOp, mode = 4+rng.Intn(40), "abrupt-inside"
		}
		envv := []string{"C42_DIR=" + dir, "C42_ACK=" + ackPath, "C42_BLOBS=" + blobFile, fmt.Sprintf("C42_HIST=%d", i), fmt.Sprintf("C42_OPS=%d", nOps), fmt.Sprintf("C42_STOP=%d", stop), fmt.Sprintf("C42_KILLSTOREOP=%d", killOp)}
		r.Case("C42 child flow %d (%s)", i, mode)
		cr := r.Child("c42-workload", envv, 10*time.Minute)
		if cr.TimedOut {
			r.Inconclusive("child workload %d timed out", i)
			return
		}
		killed := cr.Exit == -1 && strings.Contains(cr.Signal, "kill")
		if mode != "exact" && !killed && cr.Exit == 0 {
			r.Count("child_flows_kill_point_not_reached", 1) // history ended (or stopped by a finding) before the kill point
			mode = "exact"
		}
		if cr.Exit == 1 {
			// the child's monitor found something: re-raise with the child's fingerprints
			n := 0
			for _, l := range strings.Split(string(cr.Output), "\n") {
				if rest, ok := strings.CutPrefix(l, "violation[C42] "); ok {
					if fp, msg, ok := strings.Cut(rest, ": "); ok {
						r.Violation(fp, fmt.Sprintf("child flow %d: %s", i, msg), map[string]any{"flow": i, "mode": mode, "stop": stop})
						n++
					}
				}
			}
			if n > 0 {
				r.Count("child_flows_stopped_by_finding", 1)
				return
			}
		}
		if cr.Exit != 0 && !killed {
			r.Violation("child-workload-failed", fmt.Sprintf("workload child %d exit=%d signal=%s: %s", i, cr.Exit, cr.Signal, tail(cr.Output, 1500)), map[string]any{"flow": i})
			return
		}
		rmode := mode
		if mode == "abrupt-inside" {
			rmode = "abrupt"
		}
		cr = r.Child("c42-reopen", append(envv, "C42_MODE="+rmode), 10*time.Minute)
		if cr.TimedOut {
			r.Inconclusive("child reopen %d timed out", i)
			return
		}
		var res reopenResult
		found := false
		for _, l := range strings.Split(string(cr.Output), "\n") {
			if strings.HasPrefix(l, "C42-REOPEN-RESULT ") {
				if json.Unmarshal([]byte(strings.TrimPrefix(l, "C42-REOPEN-RESULT ")), &res) == nil {
					found = true
				}
			}
		}
		if !found {
			r.Violation("reopen-child-died", fmt.Sprintf("reopen child %d (%s) exit=%d signal=%s without result: %s", i, mode, cr.Exit, cr.Signal, tail(cr.Output, 1500)), map[string]any{"flow": i, "mode": mode})
			return
		}
		for _, v := range res.Violations {
			r.Violation("reopen-"+rmode+":"+v.FP, fmt.Sprintf("child flow %d: %s", i, v.Msg), map[string]any{"flow": i, "mode": mode, "stop": stop, "ack_tail": res.AckTail})
		}
		r.Count("child_flows_"+mode, 1)
		r.Count("child_reopened_txs", res.Pooled)
		r.Count("child_abrupt_acked_missing_noted", res.AckedGone)
		r.Count("child_reopened_limbo", res.Limboed)
		r.Eval(fmt.Sprintf("child/%s/pooled%v/limbo%v", mode, res.Pooled > 0, res.Limboed > 0))
		os.RemoveAll(dir)
	})
	r.Assume("harness chain stub: per-block account state chosen by the harness; account state changes only for accounts having a transaction in the block (the pool rechecks exactly those)")
	r.Assume("blob sets are valid KZG commitments/cell proofs computed once by go-ethereum's own kzg4844 package; most Adds use the public cheap path (ValidateTxBasics + AddPooledTx) to stay within budget")
	r.Extra("datacap", datacap)
	if r.Race() && r.Quick() {
		r.Require("op_add", int64(nHist)*5)
		r.Require("snapshots_checked", int64(nHist)*10)
		return
	}
	// eviction order: heap monitor and eviction-order oracle must have had material
	r.Require("heap_checks", int64(nHist+nFocus)*10)
	r.Require("heap_checks_with_distinct_priorities", int64(nFocus)*5)
	r.Require("replacements_in_multi_tx_accounts", int64(nFocus)*2)
	r.Require("replacements_multi_nontail", int64(nFocus/2)+1)
	r.Require("replacements_multi_tail", int64(nFocus/2)+1)
	r.Require("replacements_multi_raising_account_priority", int64(nFocus/4)+1)
	r.Require("overflow_evictions_checked", int64(nFocus)*2)
	r.Require("overflow_evictions_with_distinct_priorities", int64(nFocus))
	r.Require("overflow_after_multi_tx_replacement_no_reset", int64(nFocus/2)+1)
	r.Require("replacements_accepted", int64(nHist/10)+1)
	r.Require("evictions_seen", int64(nHist/10)+1)
	r.Require("limbo_pushes", int64(nHist/10)+1)
	r.Require("limbo_finalized", int64(nHist/20)+1)
	r.Require("reinjected_txs", int64(nHist/30)+1)
	r.Require("op_reopen", int64(nHist/10)+1)
	r.Require("reopen_txs_compared", int64(nHist/10)+1)
	r.Require("add_judged", int64(nHist)*5)
	if nChild >= 3 {
		r.Require("child_flows_exact", 1)
		r.Require("child_flows_abrupt", 1)
		r.Require("child_flows_abrupt-inside", 1)
	}
}

func tail(b []byte, n int) string {
	if len(b) > n {
		b = b[len(b)-n:]
	}
	return string(b)
}
