package main

import (
	"crypto/sha256"
	"encoding/gob"
	"os"
	"sync"

	"github.com/ethereum/go-ethereum/common"
	"github.com/ethereum/go-ethereum/crypto/kzg4844"
)

// blobSet is one precomputed valid blob with commitment, cell proofs, cells and versioned hash.
type blobSet struct {
	Blob   kzg4844.Blob
	Commit kzg4844.Commitment
	Proofs []kzg4844.Proof // 128 cell proofs (v1 sidecar)
	Cells  []kzg4844.Cell  // 128 cells (storage form)
	VHash  common.Hash
}

// makeBlobSets computes n blob sets (expensive: ~1 s CPU each) in parallel.
func makeBlobSets(n int) []*blobSet {
	out := make([]*blobSet, n)
	var wg sync.WaitGroup
	for i := 0; i < n; i++ {
		wg.Add(1)
		go func(i int) {
			defer wg.Done()
			s := &blobSet{}
			for j := 0; j < 64; j++ { // a few non-zero field elements, canonical (top byte 0)
				s.Blob[j*32+1] = byte(i + 1)
				s.Blob[j*32+31] = byte(j)
			}
			var err error
			if s.Commit, err = kzg4844.BlobToCommitment(&s.Blob); err != nil {
				panic(err)
			}
			if s.Proofs, err = kzg4844.ComputeCellProofs(&s.Blob); err != nil {
				panic(err)
			}
			if s.Cells, err = kzg4844.ComputeCells([]kzg4844.Blob{s.Blob}); err != nil {
				panic(err)
			}
			s.VHash = kzg4844.CalcBlobHashV1(sha256.New(), &s.Commit)
			out[i] = s
		}(i)
	}
	wg.Wait()
	return out
}

func saveBlobSets(path string, sets []*blobSet) error {
	f, err := os.Create(path)
	if err != nil {
		return err
	}
	defer f.Close()
	return gob.NewEncoder(f).Encode(sets)
}

func loadBlobSets(path string) ([]*blobSet, error) {
	f, err := os.Open(path)
	if err != nil {
		return nil, err
	}
	defer f.Close()
	var sets []*blobSet
	err = gob.NewDecoder(f).Decode(&sets)
	return sets, err
}
