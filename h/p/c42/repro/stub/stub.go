// Package stub: minimal blobpool.BlockChain (block tree with explicit per-block account state)
// and blob transaction helpers for the stand-alone C42 reproducers. No oracle code.
package stub

import (
	"crypto/ecdsa"
	"crypto/sha256"
	"fmt"
	"math/big"

	"github.com/ethereum/go-ethereum/common"
	"github.com/ethereum/go-ethereum/core/state"
	"github.com/ethereum/go-ethereum/core/tracing"
	"github.com/ethereum/go-ethereum/core/types"
	"github.com/ethereum/go-ethereum/crypto/kzg4844"
	"github.com/ethereum/go-ethereum/params"
	"github.com/ethereum/go-ethereum/trie"
	"github.com/holiman/uint256"
)

type Acct struct {
	Nonce   uint64
	Balance int64
}

type Chain struct {
	Cfg    *params.ChainConfig
	blocks map[common.Hash]*types.Block
	states map[common.Hash]map[common.Address]Acct
	Head   *types.Block
	Final  *types.Block
	gen    *types.Block
	seq    byte
}

func header(parent *types.Block, number uint64, extra byte) *types.Header {
	excess := uint64(0)
	h := &types.Header{Number: new(big.Int).SetUint64(number), Difficulty: big.NewInt(0), GasLimit: 30_000_000, GasUsed: 15_000_000,
		BaseFee: big.NewInt(10), Time: 1 + 12*number, Extra: []byte{extra}, ExcessBlobGas: &excess, BlobGasUsed: new(uint64)}
	if parent != nil {
		h.ParentHash = parent.Hash()
	}
	return h
}

func New(st map[common.Address]Acct) *Chain {
	cfg := *params.MergedTestChainConfig
	c := &Chain{Cfg: &cfg, blocks: map[common.Hash]*types.Block{}, states: map[common.Hash]map[common.Address]Acct{}}
	b := types.NewBlock(header(nil, 100, 0), nil, nil, trie.NewStackTrie(nil))
	c.blocks[b.Hash()], c.states[b.Hash()], c.Head, c.Final, c.gen = b, st, b, b, b
	return c
}

func (c *Chain) Extend(parent *types.Block, txs []*types.Transaction, st map[common.Address]Acct) *types.Block {
	c.seq++
	b := types.NewBlock(header(parent, parent.NumberU64()+1, c.seq), &types.Body{Transactions: txs}, nil, trie.NewStackTrie(nil))
	c.blocks[b.Hash()], c.states[b.Hash()] = b, st
	return b
}

func (c *Chain) Config() *params.ChainConfig      { return c.Cfg }
func (c *Chain) CurrentBlock() *types.Header      { return c.Head.Header() }
func (c *Chain) CurrentFinalBlock() *types.Header { return c.Final.Header() }
func (c *Chain) Genesis() *types.Block            { return c.gen }
func (c *Chain) GetBlock(hash common.Hash, number uint64) *types.Block {
	if b := c.blocks[hash]; b != nil && b.NumberU64() == number {
		return b
	}
	return nil
}
func (c *Chain) StateAt(h *types.Header) (*state.StateDB, error) {
	st, ok := c.states[h.Hash()]
	if !ok {
		return nil, fmt.Errorf("unknown block")
	}
	sdb, err := state.New(types.EmptyRootHash, state.NewDatabaseForTesting())
	if err != nil {
		return nil, err
	}
	for a, s := range st {
		sdb.SetNonce(a, s.Nonce, tracing.NonceChangeUnspecified)
		sdb.SetBalance(a, uint256.NewInt(uint64(s.Balance)), tracing.BalanceChangeUnspecified)
	}
	return sdb, nil
}

type Reserver struct{}

func (Reserver) Hold(common.Address) error    { return nil }
func (Reserver) Release(common.Address) error { return nil }
func (Reserver) Has(common.Address) bool      { return false }

// Blob is one valid blob with commitment and cell proofs.
type Blob struct {
	Blob   kzg4844.Blob
	Commit kzg4844.Commitment
	Proofs []kzg4844.Proof
	VHash  common.Hash
}

func NewBlob(seed byte) *Blob {
	b := &Blob{}
	b.Blob[1] = seed
	b.Commit, _ = kzg4844.BlobToCommitment(&b.Blob)
	b.Proofs, _ = kzg4844.ComputeCellProofs(&b.Blob)
	b.VHash = kzg4844.CalcBlobHashV1(sha256.New(), &b.Commit)
	return b
}

// Tx builds a signed one-blob transaction (v1 sidecar).
func Tx(cfg *params.ChainConfig, key *ecdsa.PrivateKey, b *Blob, nonce uint64, tip, feeCap, blobCap uint64) *types.Transaction {
	return types.MustSignNewTx(key, types.LatestSigner(cfg), &types.BlobTx{
		ChainID: uint256.MustFromBig(cfg.ChainID), Nonce: nonce, GasTipCap: uint256.NewInt(tip), GasFeeCap: uint256.NewInt(feeCap), Gas: 21000,
		To: common.Address{0xaa}, Value: uint256.NewInt(0), BlobFeeCap: uint256.NewInt(blobCap), BlobHashes: []common.Hash{b.VHash},
		Sidecar: types.NewBlobTxSidecar(types.BlobSidecarVersion1, []kzg4844.Blob{b.Blob}, []kzg4844.Commitment{b.Commit}, b.Proofs),
	})
}
