// Stand-alone reproducer (no oracle code) for C42 known finding
// "reopen:below-gastip-tx-from-reinjection-dropped".
//
// T (tip 2) is pooled, included in B101 (moved to the limbo), then the pool's minimum tip is
// raised to 4. A reorg to the empty sibling B101' re-injects T "blindly" (no tip check), so the
// pool persists a tx below its own tip floor; Close + New/Init with the same gas tip drops it
// (Init -> SetGasTip): reopening does not reproduce the contents.
package main

import (
	"fmt"
	"math/big"
	"os"

	"github.com/ethereum/go-ethereum/common"
	"github.com/ethereum/go-ethereum/core/txpool/blobpool"
	"github.com/ethereum/go-ethereum/core/types"
	"github.com/ethereum/go-ethereum/crypto"

	"verif/p/c42/repro/stub"
)

func main() {
	key, _ := crypto.ToECDSA(common.LeftPadBytes([]byte{0x42, 1}, 32))
	a := crypto.PubkeyToAddress(key.PublicKey)
	st := func(nonce uint64) map[common.Address]stub.Acct {
		return map[common.Address]stub.Acct{a: {Nonce: nonce, Balance: 1_000_000_000_000}}
	}
	ch := stub.New(st(10))
	dir, _ := os.MkdirTemp("/dev/shm", "c42-repro-")
	defer os.RemoveAll(dir)
	T := stub.Tx(ch.Cfg, key, stub.NewBlob(4), 10, 2, 100, 10)
	g := ch.Head
	b101 := ch.Extend(g, []*types.Transaction{T.WithoutBlobTxSidecar()}, st(11))
	b101x := ch.Extend(g, nil, st(10))

	cfg := blobpool.Config{Datadir: dir, Datacap: 100_000_000, PriceBump: 100}
	pool := blobpool.New(cfg, ch, nil)
	if err := pool.Init(1, g.Header(), stub.Reserver{}); err != nil {
		panic(err)
	}
	show := func(when string, p *blobpool.BlobPool) int {
		pend, _ := p.Stats()
		fmt.Printf("%-50s Stats(): pooled=%d  Has(T)=%v\n", when, pend, p.Has(T.Hash()))
		return pend
	}
	fmt.Println("gas tip 1; Add(T tip=2):", pool.Add([]*types.Transaction{T}, true))
	ch.Head = b101
	pool.Reset(g.Header(), b101.Header())
	show("head B101 {T} (T in the limbo):", pool)
	pool.SetGasTip(big.NewInt(4))
	ch.Head = b101x
	pool.Reset(b101.Header(), b101x.Header())
	before := show("SetGasTip(4); reorg to B101' {}: T re-injected:", pool)
	pool.Close()
	pool = blobpool.New(cfg, ch, nil)
	if err := pool.Init(4, b101x.Header(), stub.Reserver{}); err != nil {
		panic(err)
	}
	after := show("after Close + New/Init(gasTip=4) on the same dir:", pool)
	pool.Close()
	fmt.Printf("expected: reopening reproduces the %d pooled tx(s) (or T is not re-injected below the tip floor)\n", before)
	fmt.Printf("observed: %d pooled before Close, %d after reopening\n", before, after)
}
