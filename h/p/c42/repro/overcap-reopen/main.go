// Stand-alone reproducer (no oracle code) for C42 known finding
// "reopen:over-datacap-after-reinjection-evicted".
//
// Datacap = 2 one-blob slots. The pool holds n11, n12 (full); n10 sits in the limbo (included in
// B101). A reorg to the empty sibling B101' re-injects n10 without enforcing the Datacap, so the
// pool persists 3 transactions, one slot over the cap. Close + New/Init on the same directory
// enforces the cap (Init: `for p.stored > Datacap { p.drop() }`) and evicts one of them:
// reopening does not reproduce the contents. (The same over-cap state makes the next Add panic,
// see ../add-panic-after-overcap.)
package main

import (
	"fmt"
	"os"

	"github.com/ethereum/go-ethereum/common"
	"github.com/ethereum/go-ethereum/core/txpool/blobpool"
	"github.com/ethereum/go-ethereum/core/types"
	"github.com/ethereum/go-ethereum/crypto"

	"verif/p/c42/repro/stub"
)

func main() {
	key, _ := crypto.ToECDSA(common.LeftPadBytes([]byte{0x42, 1}, 32))
	a := crypto.PubkeyToAddress(key.PublicKey)
	st := func(nonce uint64) map[common.Address]stub.Acct {
		return map[common.Address]stub.Acct{a: {Nonce: nonce, Balance: 1_000_000_000_000}}
	}
	ch := stub.New(st(10))
	dir, _ := os.MkdirTemp("/dev/shm", "c42-repro-")
	defer os.RemoveAll(dir)
	b := stub.NewBlob(3)
	tx := func(n uint64) *types.Transaction { return stub.Tx(ch.Cfg, key, b, n, 3, 100, 10) }
	n10, n11, n12 := tx(10), tx(11), tx(12)
	g := ch.Head
	b101 := ch.Extend(g, []*types.Transaction{n10.WithoutBlobTxSidecar()}, st(11))
	b101x := ch.Extend(g, nil, st(10))

	const slot = 278656 // billy slot of a one-blob transaction in pooled (cell) form
	cfg := blobpool.Config{Datadir: dir, Datacap: 2 * slot, PriceBump: 100}
	pool := blobpool.New(cfg, ch, nil)
	if err := pool.Init(1, g.Header(), stub.Reserver{}); err != nil {
		panic(err)
	}
	show := func(when string, p *blobpool.BlobPool) int {
		pend, _ := p.Stats()
		fmt.Printf("%-46s pooled=%d  Has(n10,n11,n12)=%v,%v,%v  Datacap=%d bytes = 2 slots\n", when, pend, p.Has(n10.Hash()), p.Has(n11.Hash()), p.Has(n12.Hash()), 2*slot)
		return pend
	}
	fmt.Println("Add(n10):", pool.Add([]*types.Transaction{n10}, true))
	ch.Head = b101
	pool.Reset(g.Header(), b101.Header())
	fmt.Println("Add(n11,n12):", pool.Add([]*types.Transaction{n11, n12}, true))
	show("head B101 {n10}; pool [n11 n12]:", pool)
	ch.Head = b101x
	pool.Reset(b101.Header(), b101x.Header())
	before := show("reorg to B101' {}; n10 re-injected:", pool)
	pool.Close()
	pool = blobpool.New(cfg, ch, nil)
	if err := pool.Init(1, b101x.Header(), stub.Reserver{}); err != nil {
		panic(err)
	}
	after := show("after Close + New/Init on the same dir:", pool)
	pool.Close()
	fmt.Printf("expected: reopening reproduces the %d pooled txs (or re-injection respects the Datacap)\n", before)
	fmt.Printf("observed: %d pooled before Close, %d after reopening\n", before, after)
}
