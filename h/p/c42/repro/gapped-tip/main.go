// Stand-alone reproducer (no oracle code) for C42 known finding
// "reopen:below-gastip-tx-from-gapped-buffer-dropped".
//
// A nonce-gapped blob tx is buffered in memory (Add returns nil). The pool's minimum tip is then
// raised; the buffer is not filtered. When the gap is filled, the buffered tx is promoted through
// addLocked -> validateTx, which does not re-check the minimum tip, so the pool now persists a tx
// below its own tip floor. Close + New/Init with the same gas tip drops it (Init -> SetGasTip):
// reopening does not reproduce the contents.
package main

import (
	"fmt"
	"math/big"
	"os"

	"github.com/ethereum/go-ethereum/common"
	"github.com/ethereum/go-ethereum/core/txpool/blobpool"
	"github.com/ethereum/go-ethereum/core/types"
	"github.com/ethereum/go-ethereum/crypto"

	"verif/p/c42/repro/stub"
)

func main() {
	key, _ := crypto.ToECDSA(common.LeftPadBytes([]byte{0x42, 1}, 32))
	a := crypto.PubkeyToAddress(key.PublicKey)
	ch := stub.New(map[common.Address]stub.Acct{a: {Nonce: 10, Balance: 1_000_000_000_000}}) // nonce 10: one gapped tx allowed
	dir, _ := os.MkdirTemp("/dev/shm", "c42-repro-")
	defer os.RemoveAll(dir)
	b := stub.NewBlob(7)
	n10 := stub.Tx(ch.Cfg, key, b, 10, 3, 100, 10)
	n11 := stub.Tx(ch.Cfg, key, b, 11, 1, 100, 10) // tip 1

	cfg := blobpool.Config{Datadir: dir, Datacap: 100_000_000, PriceBump: 100}
	pool := blobpool.New(cfg, ch, nil)
	if err := pool.Init(1, ch.Head.Header(), stub.Reserver{}); err != nil {
		panic(err)
	}
	show := func(when string, p *blobpool.BlobPool) (int, int) {
		pend, queued := p.Stats()
		fmt.Printf("%-52s Stats(): pooled=%d buffered(gapped)=%d  Has(n10)=%v Has(n11)=%v Status(n11)=%v\n", when, pend, queued, p.Has(n10.Hash()), p.Has(n11.Hash()), p.Status(n11.Hash()))
		return pend, queued
	}
	fmt.Println("gas tip 1; Add(n11 tip=1, nonce gap):", pool.Add([]*types.Transaction{n11}, true))
	show("n11 buffered:", pool)
	pool.SetGasTip(big.NewInt(2))
	show("SetGasTip(2):", pool)
	fmt.Println("Add(n10 tip=3) fills the gap:", pool.Add([]*types.Transaction{n10}, true))
	before, _ := show("n11 (tip 1 < gas tip 2) promoted into the pool:", pool)
	fmt.Println("Add(fresh tx with tip 1) for comparison:", pool.Add([]*types.Transaction{stub.Tx(ch.Cfg, key, b, 12, 1, 100, 10)}, true))
	pool.Close()
	pool = blobpool.New(cfg, ch, nil)
	if err := pool.Init(2, ch.Head.Header(), stub.Reserver{}); err != nil {
		panic(err)
	}
	after, _ := show("after Close + New/Init(gasTip=2) on the same dir:", pool)
	pool.Close()
	fmt.Printf("expected: reopening reproduces the %d pooled txs (or n11 is never admitted below the tip floor)\n", before)
	fmt.Printf("observed: %d pooled before Close, %d after reopening\n", before, after)
}
