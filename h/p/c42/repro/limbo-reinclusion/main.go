// Stand-alone reproducer (no oracle code) for C42 known finding
// "limbo:block-not-updated-on-reinclusion".
//
//	G(100) - B101 {T} ...............................  T offloaded into the limbo under block 101
//	      \- B101' {} - B102' {T} - B103' {}            reorg: T dropped from 101, re-included in 102'
//	                 \- B102'' {} - B103'' {} - B104''   later reorg above finality drops 102'
//
// BlobPool.reorg() calls limbo.update only for included-minus-discarded transactions, which by
// construction never contains a re-included one, so T stays tracked under block 101. When block
// 101' becomes final, limbo.finalize(101) deletes T's blobs although T's actual block 102' is not
// final; the following (legal) reorg that drops 102' can then not re-inject T.
// Expected: T tracked under 102 after the first reorg, retained while 102' is not final, and
// pooled again after the second reorg.
package main

import (
	"fmt"
	"os"

	"github.com/ethereum/go-ethereum/common"
	"github.com/ethereum/go-ethereum/core/txpool/blobpool"
	"github.com/ethereum/go-ethereum/core/types"
	"github.com/ethereum/go-ethereum/crypto"

	"verif/p/c42/repro/stub"
)

func main() {
	key, _ := crypto.ToECDSA(common.LeftPadBytes([]byte{0x42, 1}, 32))
	a := crypto.PubkeyToAddress(key.PublicKey)
	st := func(nonce uint64) map[common.Address]stub.Acct {
		return map[common.Address]stub.Acct{a: {Nonce: nonce, Balance: 1_000_000_000_000}}
	}
	ch := stub.New(st(10))
	dir, _ := os.MkdirTemp("/dev/shm", "c42-repro-")
	defer os.RemoveAll(dir)
	T := stub.Tx(ch.Cfg, key, stub.NewBlob(9), 10, 3, 100, 10)
	bare := T.WithoutBlobTxSidecar()

	g := ch.Head
	b101 := ch.Extend(g, []*types.Transaction{bare}, st(11))
	b101x := ch.Extend(g, nil, st(10))
	b102x := ch.Extend(b101x, []*types.Transaction{bare}, st(11))
	b103x := ch.Extend(b102x, nil, st(11))
	b102y := ch.Extend(b101x, nil, st(10))
	b103y := ch.Extend(b102y, nil, st(10))
	b104y := ch.Extend(b103y, nil, st(10))

	pool := blobpool.New(blobpool.Config{Datadir: dir, Datacap: 100_000_000, PriceBump: 100}, ch, nil)
	if err := pool.Init(1, g.Header(), stub.Reserver{}); err != nil {
		panic(err)
	}
	defer pool.Close()
	show := func(when string) {
		s := pool.VerifSnapshot(0)
		blocks := map[uint64]int{}
		for b, ids := range s.LimboGroups {
			blocks[b] = len(ids)
		}
		pend, _ := pool.Stats()
		fmt.Printf("%-58s pooled=%d Has(T)=%v  limbo(block->#txs)=%v  final=%d\n", when, pend, pool.Has(T.Hash()), blocks, ch.Final.NumberU64())
	}
	move := func(from, to *types.Block) { ch.Head = to; pool.Reset(from.Header(), to.Header()) }

	fmt.Println("Add(T):", pool.Add([]*types.Transaction{T}, true))
	show("T pooled at G(100):")
	move(g, b101)
	show("head B101 (includes T):")
	move(b101, b102x)
	show("reorg to B101'-B102' (T re-included in 102'):")
	fmt.Println("  expected limbo: map[102:1]   (T's inclusion block is 102 now)")
	ch.Final = b101x
	move(b102x, b103x)
	show("head B103', final = B101' (block 102' is NOT final):")
	fmt.Println("  expected limbo: map[102:1]   (retained until block 102 is final)")
	move(b103x, b104y)
	show("reorg to B102''-B104'' (fork at final 101', drops T):")
	fmt.Printf("expected: T is pooled again (Has(T)=true); observed: Has(T)=%v\n", pool.Has(T.Hash()))
}
