// Stand-alone reproducer (no oracle code) for C42 known finding
// "op:panic:core/txpool/blobpool.(*BlobPool).addLocked".
//
// Datacap = 2 one-blob slots. The pool holds n11, n12 (full); n10 sits in the limbo (included in
// B101). A reorg to the empty sibling B101' re-injects n10 without enforcing the Datacap, so the
// store is one slot over the cap. The next Add (n13) makes the eviction loop drop TWO transactions
// of the sender's own account (n13 itself and n12). addLocked then evaluates
// txs[offset-1].announced on its stale local slice, whose slot offset-1 was nil-ed by drop():
// nil pointer dereference inside BlobPool.Add.
// Expected: Add returns (nil or an error) and the pool stays consistent.
package main

import (
	"fmt"
	"os"
	"runtime/debug"

	"github.com/ethereum/go-ethereum/common"
	"github.com/ethereum/go-ethereum/core/txpool/blobpool"
	"github.com/ethereum/go-ethereum/core/types"
	"github.com/ethereum/go-ethereum/crypto"

	"verif/p/c42/repro/stub"
)

func main() {
	key, _ := crypto.ToECDSA(common.LeftPadBytes([]byte{0x42, 1}, 32))
	a := crypto.PubkeyToAddress(key.PublicKey)
	st := func(nonce uint64) map[common.Address]stub.Acct {
		return map[common.Address]stub.Acct{a: {Nonce: nonce, Balance: 1_000_000_000_000}}
	}
	ch := stub.New(st(10))
	dir, _ := os.MkdirTemp("/dev/shm", "c42-repro-")
	defer os.RemoveAll(dir)
	b := stub.NewBlob(3)
	tx := func(n uint64) *types.Transaction { return stub.Tx(ch.Cfg, key, b, n, 3, 100, 10) }
	n10, n11, n12, n13 := tx(10), tx(11), tx(12), tx(13)

	g := ch.Head
	b101 := ch.Extend(g, []*types.Transaction{n10.WithoutBlobTxSidecar()}, st(11))
	b101x := ch.Extend(g, nil, st(10))

	const slot = 278656 // billy slot of a one-blob transaction in pooled (cell) form
	pool := blobpool.New(blobpool.Config{Datadir: dir, Datacap: 2 * slot, PriceBump: 100}, ch, nil)
	if err := pool.Init(1, g.Header(), stub.Reserver{}); err != nil {
		panic(err)
	}
	show := func(when string) {
		s := pool.VerifSnapshot(0)
		pend, _ := pool.Stats()
		fmt.Printf("%-40s pooled=%d stored=%d Datacap=%d\n", when, pend, s.Stored, 2*slot)
	}
	fmt.Println("Add(n10):", pool.Add([]*types.Transaction{n10}, true))
	ch.Head = b101
	pool.Reset(g.Header(), b101.Header())
	fmt.Println("Add(n11,n12):", pool.Add([]*types.Transaction{n11, n12}, true))
	show("head B101 {n10}; pool [n11 n12]:")
	ch.Head = b101x
	pool.Reset(b101.Header(), b101x.Header())
	show("reorg to B101' {}; n10 re-injected:")
	func() {
		defer func() {
			if e := recover(); e != nil {
				fmt.Printf("observed: Add(n13) PANICS: %v\n", e)
				for i, l := range splitLines(string(debug.Stack())) {
					if i >= 8 && i <= 13 {
						fmt.Println("   ", l)
					}
				}
			}
		}()
		fmt.Println("Add(n13):", pool.Add([]*types.Transaction{n13}, true))
		show("after Add(n13):")
	}()
	fmt.Println("expected: Add(n13) returns; the pool evicts down to the Datacap and stays consistent")
}

func splitLines(s string) []string {
	var out []string
	cur := ""
	for _, c := range s {
		if c == '\n' {
			out = append(out, cur)
			cur = ""
		} else {
			cur += string(c)
		}
	}
	return append(out, cur)
}
