// Stand-alone reproducer (no oracle code) for C42 known finding
// "index:dangling-after-reorg-with-stale-reinjected-prefix".
//
//	G(100) - B101 {T10, P11}        P11 was never published (blobs unknown to the pool); pool then accepts T12
//	      \- B101' {X10}            reorg: another tx X10 takes nonce 10; state nonce of A becomes 11
//
// Reset re-injects T10 from the limbo (P11 cannot be re-injected). recheck() decides "gapped"
// from the lowest pooled nonce (10 <= 11: not gapped), drops the stale T10, and keeps T12 although
// the account's next nonce is 11: the pool's transactions are no longer contiguous from the state
// nonce. Expected: T12 dropped (or buffered) as dangling; Nonce(A) == 11.
package main

import (
	"fmt"
	"os"

	"github.com/ethereum/go-ethereum/common"
	"github.com/ethereum/go-ethereum/core/txpool"
	"github.com/ethereum/go-ethereum/core/txpool/blobpool"
	"github.com/ethereum/go-ethereum/core/types"
	"github.com/ethereum/go-ethereum/crypto"

	"verif/p/c42/repro/stub"
)

func main() {
	key, _ := crypto.ToECDSA(common.LeftPadBytes([]byte{0x42, 1}, 32))
	a := crypto.PubkeyToAddress(key.PublicKey)
	st := func(nonce uint64) map[common.Address]stub.Acct {
		return map[common.Address]stub.Acct{a: {Nonce: nonce, Balance: 1_000_000_000_000}}
	}
	ch := stub.New(st(10))
	dir, _ := os.MkdirTemp("/dev/shm", "c42-repro-")
	defer os.RemoveAll(dir)
	b := stub.NewBlob(5)
	T10 := stub.Tx(ch.Cfg, key, b, 10, 3, 100, 10)
	P11 := stub.Tx(ch.Cfg, key, b, 11, 3, 100, 10)
	T12 := stub.Tx(ch.Cfg, key, b, 12, 3, 100, 10)
	X10 := stub.Tx(ch.Cfg, key, b, 10, 5, 300, 30)

	g := ch.Head
	b101 := ch.Extend(g, []*types.Transaction{T10.WithoutBlobTxSidecar(), P11.WithoutBlobTxSidecar()}, st(12))
	b101x := ch.Extend(g, []*types.Transaction{X10.WithoutBlobTxSidecar()}, st(11))

	pool := blobpool.New(blobpool.Config{Datadir: dir, Datacap: 100_000_000, PriceBump: 100}, ch, nil)
	if err := pool.Init(1, g.Header(), stub.Reserver{}); err != nil {
		panic(err)
	}
	defer pool.Close()
	show := func(when string, stateNonce uint64) {
		pend, _ := pool.Pending(txpool.PendingFilter{BlobTxs: true, BlobVersion: types.BlobSidecarVersion1})
		var nonces []uint64
		for _, lazy := range pend[a] {
			nonces = append(nonces, lazy.Resolve().Nonce())
		}
		fmt.Printf("%-44s state nonce=%d  Pending() nonces=%v  Nonce(A)=%d  Has(T10)=%v Has(T12)=%v\n", when, stateNonce, nonces, pool.Nonce(a), pool.Has(T10.Hash()), pool.Has(T12.Hash()))
	}
	fmt.Println("Add(T10):", pool.Add([]*types.Transaction{T10}, true))
	ch.Head = b101
	pool.Reset(g.Header(), b101.Header())
	fmt.Println("Add(T12):", pool.Add([]*types.Transaction{T12}, true))
	show("head B101 {T10,P11}, T12 pooled:", 12)
	ch.Head = b101x
	pool.Reset(b101.Header(), b101x.Header())
	show("reorg to B101' {X10}:", 11)
	fmt.Println("expected: pooled nonces contiguous from the state nonce 11 (T12 dropped as dangling), Nonce(A)=11")
	fmt.Printf("observed: T12 (nonce 12) is still pooled and offered by Pending() although nonce 11 is missing; Nonce(A)=%d\n", pool.Nonce(a))
}
