// C20: the path database recovers consistently from crashes.
//
// A workload child drives a real pathdb (rawdb.Open over a recording key-value store +
// real state-history freezer files) through Update / cap-triggered flushes / Commit /
// Recover / Journal+Close+reopen / Close-without-journal+reopen, under strace. The parent
// interprets the syscall journal (freezer and journal files) together with the key-value
// operation log (lib/kvrec, each durable operation has a marker in the journal), builds the
// crash states the kill and power-loss models allow and a reopen child opens each with the
// real recovery code and compares the outcome with the statehist ground truth.
package main

import (
	"bufio"
	"bytes"
	"encoding/json"
	"fmt"
	"math/rand"
	"os"
	"os/exec"
	"path/filepath"
	"sort"
	"strings"
	"sync"
	"time"

	"github.com/ethereum/go-ethereum/common"
	"github.com/ethereum/go-ethereum/core/rawdb"
	"github.com/ethereum/go-ethereum/ethdb"
	"github.com/ethereum/go-ethereum/ethdb/memorydb"
	"github.com/ethereum/go-ethereum/log"
	"github.com/ethereum/go-ethereum/triedb/pathdb"

	"verif/lib/kvrec"
	"verif/lib/refmpt"
	"verif/lib/statehist"
	"verif/lib/sysjournal"
	"verif/lib/vrt"
)

func main() {
	vrt.RegisterChild("c20-workload", workloadChild)
	vrt.RegisterChild("c20-reopen", reopenChild)
	vrt.Main("C20", run)
}

// ---------------------------------------------------------------------------------------

type Plan struct {
	Seed      int64  `json:"seed"`
	Hi        int    `json:"hi"`
	Accounts  int    `json:"accounts"`
	Slots     int    `json:"slots"`
	Big       bool   `json:"big"`
	Buffer    int    `json:"buffer"`
	Async     bool   `json:"async"`
	StateHist uint64 `json:"state_hist"`
	TrieHist  int64  `json:"trie_hist"`
	MaxDiff   int    `json:"max_diff"`
	JournalFS bool   `json:"journal_fs"`
	RawKeys   bool   `json:"raw_keys"`
	NOps      int    `json:"nops"`
	// Script, when non-empty, fixes the kinds of the first operations (directed scenario:
	// journal written with an un-flushed write buffer, restart, rollback inside the buffer).
	Script string `json:"script,omitempty"`
}

// Step is one executed operation, logged by the workload after it completed.
type Step struct {
	Kind string `json:"kind"` // U C R J X
	Arg  int    `json:"arg"`  // R/X: chain index the chain was truncated to
}

func genPlan(r *vrt.Run, hi int) Plan {
	rng := r.Rand("plan", hi)
	p := Plan{Seed: r.Seed, Hi: hi, Accounts: 6 + rng.Intn(10), Slots: 3 + rng.Intn(5), Big: rng.Intn(2) == 0}
	p.Buffer = []int{512, 1024, 2048, 4096, 16384}[rng.Intn(5)]
	p.Async = rng.Intn(2) == 0
	p.StateHist = []uint64{0, 0, 6, 12}[rng.Intn(4)]
	p.TrieHist = []int64{-1, -1, -1, 0}[rng.Intn(4)]
	p.MaxDiff = []int{2, 3, 5, 8}[rng.Intn(4)]
	p.JournalFS = rng.Intn(2) == 0
	p.RawKeys = rng.Intn(2) == 0
	p.NOps = 8 + rng.Intn(r.N(22, 34))
	if hi%3 == 2 {
		// Directed family: a large buffer and a small layer cap keep merged transitions in the
		// write buffer, the journal persists them, and a rollback after the restart stays
		// inside the buffer, so the persistent state id does not move.
		p.Buffer = []int{4096, 16384, 1 << 20}[rng.Intn(3)]
		p.MaxDiff = []int{2, 3}[rng.Intn(2)]
		p.JournalFS = rng.Intn(3) == 0 // a journal file's unlink is durable at once in the crash model; the key-value journal is not
		sc := strings.Repeat("U", 5+rng.Intn(6)) + "J" + strings.Repeat("U", rng.Intn(3)) + "R" + strings.Repeat("U", 1+rng.Intn(3))
		if rng.Intn(2) == 0 {
			sc += "J" + strings.Repeat("U", rng.Intn(2)) + "R" + strings.Repeat("U", 1+rng.Intn(2))
		}
		p.Script = sc
		if p.NOps < len(sc)+2 {
			p.NOps = len(sc) + 2
		}
	}
	return p
}

func (p *Plan) config(root string) *pathdb.Config {
	c := &pathdb.Config{
		WriteBufferSize: p.Buffer, NoAsyncFlush: !p.Async, NoAsyncGeneration: true,
		TrieCleanSize: 0, StateCleanSize: 0,
		StateHistory: p.StateHist, TrienodeHistory: p.TrieHist,
	}
	if p.JournalFS {
		c.JournalDirectory = filepath.Join(root, "journal")
	}
	return c
}

// Model regenerates the states of a history from the step log.
type Model struct {
	h     *statehist.History
	chain []*statehist.State
	rngU  *rand.Rand
}

func newModel(p *Plan) *Model {
	src := rand.New(rand.NewSource(p.Seed*1000003 + int64(p.Hi)*7919 + 17))
	h := statehist.New(statehist.Config{Accounts: p.Accounts, Slots: p.Slots, BigValues: p.Big}, src)
	return &Model{h: h, chain: []*statehist.State{h.Genesis()}, rngU: src}
}

func (m *Model) head() *statehist.State { return m.chain[len(m.chain)-1] }

func (m *Model) applyU() *statehist.Edge {
	e := m.h.DeriveFresh(m.head(), m.rngU)
	m.chain = append(m.chain, e.Child)
	return e
}

func (m *Model) apply(s Step) {
	switch s.Kind {
	case "U":
		m.applyU()
	case "R", "X":
		m.chain = m.chain[:s.Arg+1]
	}
}

func (m *Model) index(root common.Hash) int {
	for i := len(m.chain) - 1; i >= 0; i-- {
		if m.chain[i].Root == root {
			return i
		}
	}
	return -1
}

// ---------------------------------------------------------------------------------------
// Workload child

func openDB(kv ethdb.KeyValueStore, root string, p *Plan) (ethdb.Database, *pathdb.Database, error) {
	disk, err := rawdb.Open(kv, rawdb.OpenOptions{Ancient: filepath.Join(root, "ancient")})
	if err != nil {
		return nil, nil, err
	}
	return disk, pathdb.New(disk, p.config(root), false), nil
}

func diskRoot(db *pathdb.Database) common.Hash {
	r, _ := db.VerifLayerTreeShape()
	return r
}

func workloadChild(r *vrt.Run) {
	root, marksPath, planPath, oplog, stepsPath := os.Getenv("C20_ROOT"), os.Getenv("C20_MARKS"), os.Getenv("C20_PLAN"), os.Getenv("C20_OPLOG"), os.Getenv("C20_STEPS")
	var p Plan
	b, err := os.ReadFile(planPath)
	if err != nil || json.Unmarshal(b, &p) != nil {
		fmt.Println("workload: cannot read plan")
		os.Exit(4)
	}
	pathdb.VerifSetMaxDiffLayers(p.MaxDiff)
	mf, err := os.OpenFile(marksPath, os.O_CREATE|os.O_WRONLY|os.O_APPEND, 0o644)
	if err != nil {
		os.Exit(4)
	}
	mark := func(format string, a ...any) { mf.WriteString(fmt.Sprintf(format, a...) + "\n") }
	kv, err := kvrec.New(oplog, mf)
	if err != nil {
		os.Exit(4)
	}
	sf, _ := os.Create(stepsPath)
	disk, db, err := openDB(kv, root, &p)
	if err != nil {
		fmt.Println("workload: open:", err)
		os.Exit(5)
	}
	m := newModel(&p)
	rng := rand.New(rand.NewSource(p.Seed*31 + int64(p.Hi)))
	block := uint64(0)
	mark("START")
	for i := 0; i < p.NOps; i++ {
		kind := "U"
		if i < len(p.Script) {
			kind = string(p.Script[i])
		} else if len(m.chain) > 2 {
			switch k := rng.Intn(100); {
			case k < 66:
			case k < 74:
				kind = "C"
			case k < 82:
				kind = "R"
			case k < 91:
				kind = "J"
			default:
				kind = "X"
			}
		}
		// a rollback needs a recoverable ancestor below the disk layer
		target := -1
		if kind == "R" {
			di := m.index(diskRoot(db))
			var cands []int
			for j := di - 1; j >= 0; j-- {
				if db.Recoverable(m.chain[j].Root) {
					cands = append(cands, j)
				}
			}
			if len(cands) == 0 {
				kind = "U"
			} else {
				target = cands[rng.Intn(len(cands))]
				if rng.Intn(2) == 0 {
					target = cands[0]
				}
			}
		}
		mark("B %d %s", i, kind)
		step := Step{Kind: kind}
		var err error
		switch kind {
		case "U":
			e := m.applyU()
			block++
			err = db.Update(e.Child.Root, e.Parent.Root, block, e.NodeSet(), e.StateSet(p.RawKeys))
		case "C":
			// committing the disk layer itself is an error by contract
			if diskRoot(db) != m.head().Root {
				err = db.Commit(m.head().Root, false)
			}
		case "R":
			err = db.Recover(m.chain[target].Root)
			step.Arg = target
			m.chain = m.chain[:target+1]
		case "J", "X":
			if kind == "J" {
				err = db.Journal(m.head().Root)
			}
			if err == nil {
				err = db.Close()
			}
			if err == nil {
				disk.Close()
				disk, db, err = openDB(kv, root, &p)
			}
			if err == nil && kind == "X" {
				// diff layers are gone: the chain continues from whatever is the disk layer
				di := m.index(diskRoot(db))
				if di < 0 {
					err = fmt.Errorf("disk layer root %x after restart is not on the chain", diskRoot(db))
				} else {
					step.Arg = di
					m.chain = m.chain[:di+1]
				}
			}
			if err == nil && kind == "J" {
				if _, e2 := db.StateReader(m.head().Root); e2 != nil {
					err = fmt.Errorf("head state unavailable after clean journal+restart: %v", e2)
				}
			}
		}
		if err != nil {
			mark("E %d err", i)
			fmt.Printf("workload: op %d (%s) failed: %v\n", i, kind, err)
			os.Exit(6)
		}
		sb, _ := json.Marshal(step)
		sf.Write(append(sb, '\n'))
		mark("E %d ok", i)
	}
	mark("END")
	sf.Close()
	kv.Close()
}

// ---------------------------------------------------------------------------------------
// Reopen child

type Expect struct {
	Plan     Plan   `json:"plan"`
	Steps    []Step `json:"steps"`     // steps completed before the crash position
	InFlight *Step  `json:"in_flight"` // the operation in flight, if any
	KVN      uint64 `json:"kv_n"`      // number of key-value operations that survive
	AckPSID  uint64 `json:"ack_psid"`  // persistent state id acknowledged under this crash model
	Model    string `json:"model"`
	Desc     string `json:"desc"`
	Oplog    string `json:"oplog"`
}

type Verdict struct {
	OK             bool   `json:"ok"`
	FP             string `json:"fp,omitempty"`
	Msg            string `json:"msg,omitempty"`
	PSID           uint64 `json:"psid"`
	BufferRestored bool   `json:"buffer_restored"` // the journal restored an un-flushed write buffer below the disk layer root
	Layers         int    `json:"layers"`          // diff layers restored from the journal
	Recovered      int    `json:"recovered"`       // depth of the rollback performed after reopening (0 = none possible)
	DiskIdx        int    `json:"disk_idx"`        // index of the recovered disk state on the chain (-1: a state of an abandoned fork)
}

func reopenChild(r *vrt.Run) {
	// make log.Crit messages of the recovery code visible to the parent
	log.SetDefault(log.NewLogger(log.NewTerminalHandlerWithLevel(os.Stderr, log.LevelCrit, false)))
	f, err := os.Open(os.Getenv("C20_LIST"))
	if err != nil {
		os.Exit(4)
	}
	sc := bufio.NewScanner(f)
	for sc.Scan() {
		dir := sc.Text()
		if dir == "" {
			continue
		}
		fmt.Printf("BEGIN %s\n", dir)
		v := checkState(dir)
		b, _ := json.Marshal(v)
		fmt.Printf("RESULT %s %s\n", dir, b)
	}
}

func bad(fp, format string, a ...any) Verdict { return Verdict{FP: fp, Msg: fmt.Sprintf(format, a...)} }

// readsEqual compares every touched account, slot and trie node read at st.Root with the model.
func readsEqual(db *pathdb.Database, h *statehist.History, st *statehist.State) string {
	sr, err := db.StateReader(st.Root)
	if err != nil {
		return "StateReader: " + err.Error()
	}
	nr, err := db.NodeReader(st.Root)
	if err != nil {
		return "NodeReader: " + err.Error()
	}
	for _, a := range h.TouchedAccounts() {
		got, err := sr.(statehist.AccountRLPReader).AccountRLP(a)
		if err != nil || !bytes.Equal(got, st.Account(a)) {
			return fmt.Sprintf("account %x = %x (err %v), want %x", a, got, err, st.Account(a))
		}
	}
	for _, k := range h.TouchedSlots() {
		got, err := sr.Storage(k.Addr, k.Slot)
		if err != nil || !bytes.Equal(got, st.Storage(k.Addr, k.Slot)) {
			return fmt.Sprintf("slot %x/%x = %x (err %v), want %x", k.Addr, k.Slot, got, err, st.Storage(k.Addr, k.Slot))
		}
	}
	for _, k := range h.TouchedNodes() {
		want := st.Node(k.Owner, []byte(k.Path))
		if len(want) == 0 {
			continue
		}
		got, err := nr.Node(k.Owner, []byte(k.Path), common.BytesToHash(refmpt.Keccak(want)))
		if err != nil || !bytes.Equal(got, want) {
			return fmt.Sprintf("node %x/%x differs (err %v)", k.Owner, k.Path, err)
		}
	}
	return ""
}

func checkState(dir string) (v Verdict) {
	var e Expect
	b, err := os.ReadFile(filepath.Join(dir, "expect.json"))
	if err != nil || json.Unmarshal(b, &e) != nil {
		return bad("harness", "cannot read expect.json")
	}
	p := &e.Plan
	pathdb.VerifSetMaxDiffLayers(p.MaxDiff)
	m := newModel(p)
	for _, s := range e.Steps {
		m.apply(s)
	}
	chainBefore := append([]*statehist.State{}, m.chain...)
	if e.InFlight != nil {
		m.apply(*e.InFlight)
	}
	chainAfter := m.chain
	mem, n, err := kvrec.Load(e.Oplog, e.KVN)
	if err != nil || n != e.KVN {
		return bad("harness", "oplog load: %v (%d of %d)", err, n, e.KVN)
	}
	root := filepath.Join(dir, "root")
	defer func() {
		if pv := recover(); pv != nil {
			v = bad("reopen-panic", "panic during reopen/checks: %v", pv)
		}
	}()
	disk, db, err := openDB(mem, root, p)
	if err != nil {
		return bad("reopen-error", "rawdb.Open failed: %v", err)
	}
	defer func() {
		if db != nil {
			db.Close()
		}
	}()
	// (a) the disk layer is a state of the history, identified by the persisted root node
	psid := rawdb.ReadPersistentStateID(disk)
	v.PSID = psid
	droot := statehist.EmptyRoot
	if blob := rawdb.ReadAccountTrieNode(disk, nil); len(blob) > 0 {
		droot = common.BytesToHash(refmpt.Keccak(blob))
	}
	st := m.h.ByRoot[droot]
	if st == nil {
		return bad("disk-root-unknown", "disk root %x (persistent state id %d) is not a state of the history", droot, psid)
	}
	// The layer tree's disk layer may be ahead of the key-value content: a loaded journal
	// carries the un-flushed write buffer. Its root must be a state of the history as well.
	lroot := diskRoot(db)
	lst := m.h.ByRoot[lroot]
	if lst == nil {
		return bad("disk-layer-root-unknown", "disk layer root %x after reopen is not a state of the history", lroot)
	}
	if psid > 0 {
		if id := rawdb.ReadStateID(disk, droot); id == nil || *id != psid {
			return bad("state-id-mismatch", "persistent state id %d but state id of disk root is %v", psid, id)
		}
	}
	// (e) acknowledged state is not lost: the surviving key-value prefix is never shorter than
	// the last SyncKeyValue (crash model), so what remains to be observed is that reopening
	// itself does not move the persistent state id away from what that prefix recorded (a
	// rollback in flight lowers it legitimately, which the prefix reflects).
	if psid != e.AckPSID {
		return bad("persistent-id-changed-by-reopen", "persistent state id %d after reopen, the surviving key-value prefix recorded %d", psid, e.AckPSID)
	}
	// (b) raw key spaces and reads equal the model's state
	if diffs := st.DiffRaw(statehist.ScanRaw(disk), 5); len(diffs) > 0 {
		return bad("disk-state-mismatch", "raw key spaces differ from the state at root %x (id %d): %s", droot, psid, strings.Join(diffs, "; "))
	}
	if msg := readsEqual(db, m.h, lst); msg != "" {
		return bad("disk-read-mismatch", "reads at disk layer root %x (key-value root %x): %s", lroot, droot, msg)
	}
	if lroot != droot {
		v.BufferRestored = true
	}
	// (c) alignment of the state history with the persistent state id is enforced by the
	// opening code itself (excess truncated, a gap is fatal = "reopen-died") and is observed
	// behaviourally through (f).
	// (d) restored diff layers serve their own state
	for _, x := range m.h.States {
		if x.Root == lroot {
			continue
		}
		if _, err := db.StateReader(x.Root); err != nil {
			continue
		}
		v.Layers++
		if msg := readsEqual(db, m.h, x); msg != "" {
			return bad("restored-layer-mismatch", "layer %x restored from the journal on disk root %x: %s", x.Root, droot, msg)
		}
	}
	// (f) rollback from the recovered state to a reported-recoverable ancestor
	chain := chainAfter
	idx := -1
	for i := len(chain) - 1; i >= 0; i-- {
		if chain[i].Root == lroot {
			idx = i
			break
		}
	}
	if idx < 0 {
		chain = chainBefore
		for i := len(chain) - 1; i >= 0; i-- {
			if chain[i].Root == lroot {
				idx = i
				break
			}
		}
	}
	v.DiskIdx = idx
	if idx > 0 {
		target := -1
		for j := idx - 1; j >= 0 && j >= idx-6; j-- {
			if db.Recoverable(chain[j].Root) {
				target = j
			} else {
				break
			}
		}
		if target >= 0 {
			if err := db.Recover(chain[target].Root); err != nil {
				return bad("recover-after-crash-failed", "Recover(%x) (reported recoverable, %d below the disk state) failed: %v", chain[target].Root, idx-target, err)
			}
			if msg := readsEqual(db, m.h, chain[target]); msg != "" {
				return bad("recover-after-crash-mismatch", "after Recover to %d below the disk state: %s", idx-target, msg)
			}
			v.Recovered = idx - target
			st = chain[target]
		}
	}
	// continuation: the recovered database accepts a new transition on top of its disk state,
	// flushes it, and the raw key spaces then equal that new state
	if v.Recovered == 0 {
		st = lst
	}
	e2 := m.h.DeriveFresh(st, rand.New(rand.NewSource(int64(psid)*977+int64(e.KVN))))
	if err := db.Update(e2.Child.Root, e2.Parent.Root, 1<<40, e2.NodeSet(), e2.StateSet(p.RawKeys)); err != nil {
		return bad("continue-update", "Update on top of the recovered disk state failed: %v", err)
	}
	if err := db.Commit(e2.Child.Root, false); err != nil {
		return bad("continue-commit", "Commit after recovery failed: %v", err)
	}
	if err := db.VerifWaitFlush(); err != nil {
		return bad("continue-flush", "background flush after recovery failed: %v", err)
	}
	if diffs := e2.Child.DiffRaw(statehist.ScanRaw(disk), 5); len(diffs) > 0 {
		return bad("continue-raw", "raw key spaces after recovery + one committed transition differ: %s", strings.Join(diffs, "; "))
	}
	v.OK = true
	return v
}

// ---------------------------------------------------------------------------------------
// Parent

func psidOf(db *memorydb.Database) uint64 { return rawdb.ReadPersistentStateID(db) }

func run(r *vrt.Run) {
	r.Rule("a case = (generated pathdb history, crash position, crash-state variant); histories: 8-40 operations of Update (cap-triggered flushes with maxDiffLayers 2-8 and 0.5-16 KiB buffers, sync/async), Commit, Recover, Journal+Close+reopen, Close-without-journal+reopen, state history limits 0/6/12, trienode history on/off, journal in KV or in a file; positions: mutating file syscalls and key-value operations between the first and last workload mark (quick: sampled, thorough: a larger sample, all if few); variants: kill, and power-loss file cuts combined with key-value log prefixes not shorter than the last SyncKeyValue. non-trivial signature = (crash model, in-flight operation kind, event kind at the position, recovery outcome: layers restored?, history truncated?, rollback depth class)")
	if _, err := exec.LookPath("strace"); err != nil {
		r.Inconclusive("strace not available: %v", err)
		return
	}
	nh := r.N(8, 36)
	posPer := r.N(36, 200)
	nRandom := r.N(1, 2)
	var mu sync.Mutex
	total := 0
	vrt.Par(nh, 0, func(hi int) {
		rng := r.Rand("hist", hi)
		p := genPlan(r, hi)
		base := filepath.Join(r.Scratch, fmt.Sprintf("h%d", hi))
		root := filepath.Join(base, "root")
		os.MkdirAll(root, 0o755)
		defer os.RemoveAll(base)
		marks, planPath, oplog, stepsPath, journal := filepath.Join(base, "MARKS"), filepath.Join(base, "plan.json"), filepath.Join(base, "oplog"), filepath.Join(base, "steps"), filepath.Join(base, "journal.txt")
		pb, _ := json.Marshal(p)
		os.WriteFile(planPath, pb, 0o644)
		r.Case("history %d: record workload %s", hi, pb)
		cr := r.Child("c20-workload", []string{"C20_ROOT=" + root, "C20_MARKS=" + marks, "C20_PLAN=" + planPath, "C20_OPLOG=" + oplog, "C20_STEPS=" + stepsPath}, 10*time.Minute, sysjournal.StracePrefix(journal, 1<<20)...)
		if cr.TimedOut {
			r.Inconclusive("history %d: workload watchdog", hi)
			return
		}
		if cr.Exit != 0 {
			r.Violation("workload-op-failed", fmt.Sprintf("history %d: workload exit %d: %s", hi, cr.Exit, tail(cr.Output, 800)), map[string]any{"plan": p})
			return
		}
		var steps []Step
		sb, _ := os.ReadFile(stepsPath)
		for _, l := range strings.Split(strings.TrimSpace(string(sb)), "\n") {
			var s Step
			if json.Unmarshal([]byte(l), &s) == nil {
				steps = append(steps, s)
			}
		}
		if len(steps) != p.NOps {
			r.Inconclusive("history %d: %d steps logged, %d expected", hi, len(steps), p.NOps)
			return
		}
		evs, err := sysjournal.Parse(journal)
		if err != nil {
			r.Inconclusive("history %d: journal parse: %v", hi, err)
			return
		}
		fs := sysjournal.NewFS(root, marks)
		interesting := map[int]string{}
		for i, ev := range evs {
			if info := fs.Step(i, ev); info.Mutating {
				interesting[i] = ev.Name
			}
		}
		if err := fs.SelfCheck(); err != nil {
			r.Inconclusive("history %d: journal self-check failed: %v", hi, err)
			return
		}
		r.Count("journals_selfchecked", 1)
		// marks
		begin, end := make([]int, p.NOps), make([]int, p.NOps)
		for i := range begin {
			begin[i], end[i] = 1<<60, 1<<60
		}
		first, last := -1, -1
		type kvm struct {
			pos int
			seq uint64
		}
		var kvs, syncs []kvm
		for _, mk := range fs.Marks {
			var k int
			var s uint64
			switch {
			case mk.Text == "START":
				first = mk.Pos
			case mk.Text == "END":
				last = mk.Pos
			case strings.HasPrefix(mk.Text, "B "):
				fmt.Sscanf(mk.Text, "B %d", &k)
				begin[k] = mk.Pos
			case strings.HasPrefix(mk.Text, "E "):
				fmt.Sscanf(mk.Text, "E %d", &k)
				end[k] = mk.Pos
			case strings.HasPrefix(mk.Text, "KVSYNC "):
				fmt.Sscanf(mk.Text, "KVSYNC %d", &s)
				syncs = append(syncs, kvm{mk.Pos, s})
			case strings.HasPrefix(mk.Text, "KV "):
				fmt.Sscanf(mk.Text, "KV %d", &s)
				kvs = append(kvs, kvm{mk.Pos, s})
				interesting[mk.Pos] = "kvop"
			}
		}
		if first < 0 || last < 0 {
			r.Inconclusive("history %d: START/END marks missing", hi)
			return
		}
		r.Count("kv_operations", len(kvs))
		// persistent state id after every key-value operation
		psids := []uint64{0}
		if _, err := kvrec.Walk(oplog, func(seq uint64, db *memorydb.Database) bool {
			psids = append(psids, psidOf(db))
			return true
		}); err != nil {
			r.Inconclusive("history %d: oplog walk: %v", hi, err)
			return
		}
		var cands []int
		for pos := range interesting {
			if pos > first && pos < last {
				cands = append(cands, pos)
			}
		}
		chosen := map[int]bool{}
		if len(cands) <= posPer {
			for _, c := range cands {
				chosen[c] = true
			}
		} else {
			// deterministic order before sampling
			sort.Ints(cands)
			var special []int
			for _, c := range cands {
				switch interesting[c] {
				case "ftruncate", "renameat", "renameat2", "rename", "unlinkat", "unlink", "kvop":
					special = append(special, c)
				}
			}
			// positions inside a rollback first: Recover interleaves key-value writes, a
			// key-value sync and freezer truncations, the ordering the property is about
			var inR []int
			for _, c := range cands {
				if interesting[c] == "kvop" {
					continue
				}
				for k := range steps {
					if steps[k].Kind == "R" && begin[k] <= c && c < end[k] {
						inR = append(inR, c)
						break
					}
				}
			}
			rng.Shuffle(len(inR), func(i, j int) { inR[i], inR[j] = inR[j], inR[i] })
			for _, c := range inR {
				if len(chosen) >= posPer/2 {
					break
				}
				chosen[c] = true
			}
			r.Count("crash_positions_inside_rollback", len(chosen))
			rng.Shuffle(len(special), func(i, j int) { special[i], special[j] = special[j], special[i] })
			for _, c := range special {
				if len(chosen) >= posPer*5/6 {
					break
				}
				chosen[c] = true
			}
			for len(chosen) < posPer {
				chosen[cands[rng.Intn(len(cands))]] = true
			}
		}
		type job struct {
			dir string
			cs  sysjournal.CrashState
			exp *Expect
			sig string
		}
		var jobs []job
		seen := map[string]bool{}
		fs2 := sysjournal.NewFS(root, marks)
		sdir := filepath.Join(base, "states")
		for i, ev := range evs {
			fs2.Step(i, ev)
			if !chosen[i] {
				continue
			}
			completed, inflight := 0, -1
			for k := 0; k < p.NOps; k++ {
				if end[k] <= i {
					completed = k + 1
				} else if begin[k] <= i {
					inflight = k
				}
			}
			var kvAt, syncAt uint64
			for _, k := range kvs {
				if k.pos <= i {
					kvAt = k.seq
				}
			}
			for _, s := range syncs {
				if s.pos <= i {
					syncAt = s.seq
				}
			}
			mk := func(cs sysjournal.CrashState, kvn uint64, model string) {
				key := fmt.Sprintf("%x|%d|%d|%d", cs.Hash(), kvn, completed, inflight)
				if seen[key] {
					return
				}
				seen[key] = true
				e := &Expect{Plan: p, Steps: steps[:completed], KVN: kvn, Model: model, Oplog: oplog}
				kind := "none"
				if inflight >= 0 {
					e.InFlight = &steps[inflight]
					kind = steps[inflight].Kind
				}
				e.AckPSID = psids[min(int(kvn), len(psids)-1)]
				e.Desc = fmt.Sprintf("after journal line %d (%s): files %s, key-value log prefix %d of %d (last sync %d)", ev.Line, interesting[i], cs.Desc, kvn, kvAt, syncAt)
				jobs = append(jobs, job{dir: filepath.Join(sdir, fmt.Sprintf("s%d", len(jobs))), cs: cs, exp: e, sig: fmt.Sprintf("%s/inflight=%s/at=%s", model, kind, interesting[i])})
			}
			kill := fs2.KillState()
			mk(kill, kvAt, "kill")
			// power: file variants x key-value prefixes in [syncAt, kvAt]
			pick := func() uint64 {
				if kvAt <= syncAt {
					return kvAt
				}
				switch rng.Intn(3) {
				case 0:
					return syncAt
				case 1:
					return kvAt
				}
				return syncAt + uint64(rng.Int63n(int64(kvAt-syncAt)+1))
			}
			if kvAt > syncAt {
				pk := kill
				pk.Model, pk.Desc = "power", "all current"
				mk(pk, syncAt, "power")
				mk(pk, pick(), "power")
			}
			for _, cs := range fs2.PowerStates(rng, nRandom) {
				mk(cs, pick(), "power")
			}
		}
		r.Count("crash_positions", len(chosen))
		const batch = 48
		for s := 0; s < len(jobs); s += batch {
			eidx := min(s+batch, len(jobs))
			pending := jobs[s:eidx]
			for len(pending) > 0 {
				var list bytes.Buffer
				for _, j := range pending {
					if err := j.cs.Materialize(filepath.Join(j.dir, "root")); err != nil {
						r.Inconclusive("materialize: %v", err)
						return
					}
					eb, _ := json.Marshal(j.exp)
					os.WriteFile(filepath.Join(j.dir, "expect.json"), eb, 0o644)
					list.WriteString(j.dir + "\n")
				}
				lpath := filepath.Join(base, "list.txt")
				os.WriteFile(lpath, list.Bytes(), 0o644)
				r.Case("history %d: reopen batch starting with %s", hi, pending[0].exp.Desc)
				cr := r.Child("c20-reopen", []string{"C20_LIST=" + lpath}, 15*time.Minute)
				results := map[string]Verdict{}
				begun := ""
				for _, line := range strings.Split(string(cr.Output), "\n") {
					if strings.HasPrefix(line, "BEGIN ") {
						begun = strings.TrimPrefix(line, "BEGIN ")
					} else if strings.HasPrefix(line, "RESULT ") {
						rest := strings.TrimPrefix(line, "RESULT ")
						sp := strings.IndexByte(rest, ' ')
						var v Verdict
						if sp > 0 && json.Unmarshal([]byte(rest[sp+1:]), &v) == nil {
							results[rest[:sp]] = v
							if rest[:sp] == begun {
								begun = ""
							}
						}
					}
				}
				var next []job
				died := false
				for _, j := range pending {
					v, ok := results[j.dir]
					switch {
					case ok:
						judge(r, &p, j.exp, j.cs, v, j.sig, hi)
						os.RemoveAll(j.dir)
					case j.dir == begun && !died:
						died = true
						if cr.TimedOut {
							r.Inconclusive("history %d: reopen child watchdog on %s", hi, j.exp.Desc)
						} else {
							site := critSite(cr.Output)
							r.Violation("reopen-died:"+site+":"+j.exp.Model, fmt.Sprintf("history %d: process died (exit %d %s) while reopening: %s\n%s", hi, cr.Exit, cr.Signal, j.exp.Desc, tail(cr.Output, 1500)), witness(j.exp, j.cs))
							r.Eval(j.sig + "/died")
						}
						os.RemoveAll(j.dir)
					default:
						next = append(next, j)
					}
				}
				if len(next) == len(pending) {
					r.Inconclusive("history %d: reopen child made no progress (exit %d): %s", hi, cr.Exit, tail(cr.Output, 400))
					return
				}
				pending = next
			}
		}
		mu.Lock()
		total += len(jobs)
		mu.Unlock()
		if r.WantSample() && len(jobs) > 0 {
			kinds := ""
			for _, s := range steps {
				kinds += s.Kind
			}
			j := jobs[len(jobs)/2]
			r.Sample(map[string]any{"history": hi, "plan": p, "steps": kinds, "journal_events": len(evs), "kv_operations": len(kvs), "kv_syncs": len(syncs), "crash_states": len(jobs), "example_state": j.exp.Desc, "example_model": j.exp.Model, "example_ack_psid": j.exp.AckPSID})
		}
	})
	r.Extra("crash_states_reopened", total)
	r.Require("journals_selfchecked", int64(nh*3/4))
	r.Require("states_kill", 40)
	r.Require("states_power", 40)
	r.Require("journal_layers_restored", 3)
	r.Require("rollback_after_crash", 5)
	r.Assume("key-value store = recording memorydb with ordered durability (a suffix of operations after the last SyncKeyValue may be lost, never reordered or torn); Pebble's own recovery is not exercised")
	r.Assume("file crash model of lib/sysjournal (per-file cuts with zero tails; renames/unlinks atomic and durable; small in-place records sector-atomic)")
	r.Assume("ground truth states from lib/statehist (reference trie refmpt)")
}

func critSite(out []byte) string {
	s := string(out)
	for _, l := range strings.Split(s, "\n") {
		if strings.Contains(l, "CRIT") {
			// keep the message text up to the first key=value
			i := strings.Index(l, "]")
			msg := strings.TrimSpace(l[i+1:])
			if j := strings.Index(msg, "  "); j > 0 {
				msg = msg[:j]
			}
			return "crit:" + strings.ReplaceAll(msg, " ", "-")
		}
	}
	if i := strings.Index(s, "panic:"); i >= 0 {
		return "panic:" + vrt.PanicSite(s[i:])
	}
	if i := strings.Index(s, "fatal error:"); i >= 0 {
		return "fatal"
	}
	return "exit"
}

func witness(e *Expect, cs sysjournal.CrashState) map[string]any {
	files := map[string]string{}
	for p, b := range cs.Files {
		files[p] = vrt.Hex(b)
	}
	return map[string]any{"plan": e.Plan, "steps": e.Steps, "in_flight": e.InFlight, "kv_prefix": e.KVN, "ack_psid": e.AckPSID, "crash_model": e.Model, "crash_state": e.Desc, "files": files, "note": "the key-value content is the first kv_prefix operations of the workload's operation log (regenerate by re-running the history with the same seed)"}
}

func judge(r *vrt.Run, p *Plan, e *Expect, cs sysjournal.CrashState, v Verdict, sig string, hi int) {
	r.Count("states_"+e.Model, 1)
	if !v.OK {
		if v.FP == "harness" {
			r.Inconclusive("checker: %s", v.Msg)
			return
		}
		kind := "none"
		if e.InFlight != nil {
			kind = e.InFlight.Kind
		}
		r.Violation(v.FP+":"+e.Model+":inflight-"+kind, fmt.Sprintf("history %d (%d steps done), %s: %s", hi, len(e.Steps), e.Desc, v.Msg), witness(e, cs))
		r.Eval(sig + "/violated")
		return
	}
	lay := "nolayers"
	if v.Layers > 0 {
		lay = "layers"
		r.Count("journal_layers_restored", 1)
	}
	rb := "norollback"
	if v.Recovered > 0 {
		rb = fmt.Sprintf("rollback%d", min(v.Recovered, 3))
		r.Count("rollback_after_crash", 1)
	}
	if v.DiskIdx < 0 {
		r.Count("disk_state_on_abandoned_fork", 1)
	}
	if v.BufferRestored {
		r.Count("journal_buffer_restored", 1)
	}
	r.Eval(sig + "/" + lay + "/" + rb)
}

func tail(b []byte, n int) string {
	if len(b) > n {
		b = b[len(b)-n:]
	}
	return string(b)
}
