// C30: a position is accepted as a jump target exactly when it holds JUMPDEST and is not
// inside PUSH immediate data; cached analyses keyed by code hash agree with a fresh one.
//
// White-box (verif hooks in core/vm): codeBitmap, Contract.validJumpdest / isCode on frames
// with (a) a code hash and a shared JumpDestCache, cold then warm, (b) no code hash
// (initcode path, local analysis only). Black-box: the real interpreter executes
// "PUSH0 CALLDATALOAD JUMP || code" (target from calldata, one code hash for all targets,
// so the EVM's cache goes cold -> warm) and "PUSH2 t JUMP || code" with exactly enough gas
// to execute the landing JUMPDEST: ErrInvalidJump <=> reference says invalid.
// Reference: the linear scan refScan below.
package main

import (
	"errors"
	"fmt"
	"math/big"
	"sync"

	"github.com/ethereum/go-ethereum/common"
	"github.com/ethereum/go-ethereum/core"
	"github.com/ethereum/go-ethereum/core/state"
	"github.com/ethereum/go-ethereum/core/tracing"
	"github.com/ethereum/go-ethereum/core/types"
	"github.com/ethereum/go-ethereum/core/vm"
	"github.com/ethereum/go-ethereum/core/vm/runtime"
	"github.com/ethereum/go-ethereum/params"
	"github.com/holiman/uint256"
	"golang.org/x/crypto/sha3"

	"verif/lib/vrt"
)

func main() { vrt.Main("C30", run) }

// refScan is the definition: walk the code from 0; an opcode 0x60+k-1 (PUSHk, k=1..32) is
// followed by k bytes of immediate data (fewer if the code ends). data[i] = byte i is
// immediate data.
func refScan(code []byte) (data []bool) {
	data = make([]bool, len(code))
	for pc := 0; pc < len(code); pc++ {
		if op := code[pc]; op >= 0x60 && op <= 0x7f {
			for k := int(op) - 0x5f; k > 0 && pc+1 < len(code); k-- {
				pc++
				data[pc] = true
			}
		}
	}
	return data
}

func refValid(code []byte, data []bool, pos uint64) bool {
	return pos < uint64(len(code)) && code[pos] == 0x5b && !data[pos]
}

func keccak(b []byte) (h common.Hash) {
	d := sha3.NewLegacyKeccak256()
	d.Write(b)
	d.Sum(h[:0])
	return
}

// recCache wraps a JumpDestCache, records traffic and keeps a private copy of every stored
// vector so that later mutation of a shared vector is noticed.
type recCache struct {
	inner  vm.JumpDestCache
	mu     sync.Mutex
	copies map[common.Hash][]byte
	live   map[common.Hash]vm.BitVec
	loads  int
	hits   int
	stores int
}

func newRecCache(inner vm.JumpDestCache) *recCache {
	return &recCache{inner: inner, copies: map[common.Hash][]byte{}, live: map[common.Hash]vm.BitVec{}}
}

func (c *recCache) Load(h common.Hash) (vm.BitVec, bool) {
	v, ok := c.inner.Load(h)
	c.mu.Lock()
	c.loads++
	if ok {
		c.hits++
	}
	c.mu.Unlock()
	return v, ok
}

func (c *recCache) Store(h common.Hash, v vm.BitVec) {
	c.mu.Lock()
	c.stores++
	c.copies[h] = append([]byte{}, v...)
	c.live[h] = v
	c.mu.Unlock()
	c.inner.Store(h, v)
}

type mapCache map[common.Hash]vm.BitVec

func (m mapCache) Load(h common.Hash) (vm.BitVec, bool) { v, ok := m[h]; return v, ok }
func (m mapCache) Store(h common.Hash, v vm.BitVec)     { m[h] = v }

type checker struct {
	r      *vrt.Run
	shared *recCache // production cache core.NewJumpDestCache(), shared by all workers
}

func (c *checker) witness(code []byte, extra map[string]any) map[string]any {
	w := map[string]any{"code": vrt.Hex(code), "len": len(code)}
	for k, v := range extra {
		w[k] = v
	}
	return w
}

// extraTargets are targets outside the code or beyond 64 bits.
func extraTargets(n int) []*uint256.Int {
	l := uint64(n)
	out := []*uint256.Int{
		uint256.NewInt(l), uint256.NewInt(l + 1), uint256.NewInt(l + 7), uint256.NewInt(l + 8), uint256.NewInt(l + 40),
		uint256.NewInt(1 << 32), uint256.NewInt(1<<63 - 1), uint256.NewInt(1 << 63), uint256.NewInt(^uint64(0)),
	}
	// overflowing: low 64 bits point at a valid-looking position
	for _, low := range []uint64{0, 1, l / 2, l - 1} {
		if l == 0 {
			low = 0
		}
		v := new(uint256.Int).Lsh(uint256.NewInt(1), 64)
		v.Add(v, uint256.NewInt(low))
		out = append(out, v)
		w := new(uint256.Int).Lsh(uint256.NewInt(1), 255)
		w.Add(w, uint256.NewInt(low))
		out = append(out, w)
	}
	return out
}

// whiteBox judges one code through the hooks. Returns number of position checks.
func (c *checker) whiteBox(code []byte, family string) int {
	r := c.r
	data := refScan(code)
	n := len(code)
	checks := 0

	// 1. codeBitmap vs reference, every position; vector long enough for every position.
	bits := vm.VerifCodeBitmap(code)
	if len(bits)*8 < n {
		r.Violation("codeBitmap:too-short", fmt.Sprintf("bitmap of %d bytes for code of %d bytes", len(bits), n), c.witness(code, nil))
		return 0
	}
	for i := 0; i < n; i++ {
		if got := vm.VerifCodeSegment(bits, uint64(i)); got == data[i] {
			r.Violation("codeBitmap:bit", fmt.Sprintf("[%s] position %d: codeSegment=%v but reference says data=%v", family, i, got, data[i]), c.witness(code, map[string]any{"pos": i, "bitmap": vrt.Hex(bits)}))
			break
		}
	}
	checks += n
	// the analysis must not modify the code
	// (callers pass state-owned slices)

	hash := keccak(code)
	caller := common.Address{1}
	self := common.Address{2}
	mk := func(h common.Hash, cache vm.JumpDestCache) *vm.Contract {
		ct := vm.NewContract(caller, self, new(uint256.Int), vm.NewGasBudget(1000, 0), cache)
		ct.SetCallCode(h, code)
		return ct
	}
	judge := func(ct *vm.Contract, mode string) {
		for i := 0; i < n; i++ {
			want := refValid(code, data, uint64(i))
			if got := vm.VerifValidJumpdest(ct, uint256.NewInt(uint64(i))); got != want {
				r.Violation("validJumpdest:"+mode, fmt.Sprintf("[%s] %s: validJumpdest(%d)=%v, reference %v (byte 0x%02x, inPushData=%v)", family, mode, i, got, want, code[i], data[i]), c.witness(code, map[string]any{"pos": i, "mode": mode}))
				return
			}
			if got := vm.VerifIsCode(ct, uint64(i)); got == data[i] {
				r.Violation("isCode:"+mode, fmt.Sprintf("[%s] %s: isCode(%d)=%v, reference data=%v", family, mode, i, got, data[i]), c.witness(code, map[string]any{"pos": i, "mode": mode}))
				return
			}
		}
		for _, t := range extraTargets(n) {
			if vm.VerifValidJumpdest(ct, t) {
				r.Violation("validJumpdest:out-of-range:"+mode, fmt.Sprintf("[%s] %s: validJumpdest(%s) accepted for code of length %d", family, mode, t.Hex(), n), c.witness(code, map[string]any{"target": t.Hex(), "mode": mode}))
				return
			}
		}
	}
	// 2. frame with code hash on a private map cache: cold (analysis + Store), then a second
	// frame: warm (Load).
	priv := newRecCache(mapCache{})
	judge(mk(hash, priv), "hash-cold")
	judge(mk(hash, priv), "hash-warm")
	checks += 4 * n
	if n > 0 {
		if priv.stores != 1 || priv.hits != 1 || priv.loads != 2 {
			// expected traffic: cold frame = 1 miss + 1 store, warm frame = 1 hit (informational)
			r.Count("cache_traffic_unexpected", 1)
		}
		if priv.stores > 0 {
			r.Count("cache_cold_store", 1)
		}
		if priv.hits > 0 {
			r.Count("cache_warm_hit", 1)
		}
	}
	// 3. production cache shared by all workers and codes (interference between codes)
	judge(mk(hash, c.shared), "shared-cache")
	checks += 2 * n
	// 4. no code hash: analysis must stay local; another code afterwards must not see it
	zero := newRecCache(mapCache{})
	ct := mk(common.Hash{}, zero)
	judge(ct, "nohash")
	checks += 2 * n
	if n > 0 {
		r.Count("nohash_frames", 1)
		// a different code, also without hash, on the same cache
		other := append([]byte{}, code...)
		for i := range other {
			if other[i] == 0x5b {
				other[i] = 0x60 // JUMPDEST -> PUSH1: shifts data/code roles
			} else if other[i] >= 0x60 && other[i] <= 0x7f {
				other[i] = 0x5b
			}
		}
		odata := refScan(other)
		oct := vm.NewContract(caller, self, new(uint256.Int), vm.NewGasBudget(1000, 0), zero)
		oct.SetCallCode(common.Hash{}, other)
		for i := 0; i < n; i++ {
			if got, want := vm.VerifValidJumpdest(oct, uint256.NewInt(uint64(i))), refValid(other, odata, uint64(i)); got != want {
				r.Violation("validJumpdest:nohash-interference", fmt.Sprintf("[%s] second hash-less code on the same cache: validJumpdest(%d)=%v, reference %v", family, i, got, want), c.witness(other, map[string]any{"pos": i, "first_code": vrt.Hex(code)}))
				break
			}
		}
		checks += n
	}
	// stored vectors must still equal their snapshot (nobody mutates a shared analysis)
	for h, cp := range priv.copies {
		if string(priv.live[h]) != string(cp) {
			r.Violation("cache:stored-vector-mutated", fmt.Sprintf("[%s] analysis stored for %x changed after Store", family, h), c.witness(code, nil))
		}
	}
	return checks
}

// ---- black box ------------------------------------------------------------------------

type bbEnv struct {
	cfg   *runtime.Config
	evm   *vm.EVM
	state *state.StateDB
	n     int
}

func chainConfig(prague bool) *params.ChainConfig {
	zero := uint64(0)
	cc := &params.ChainConfig{
		ChainID: big.NewInt(1), HomesteadBlock: new(big.Int), EIP150Block: new(big.Int), EIP155Block: new(big.Int),
		EIP158Block: new(big.Int), ByzantiumBlock: new(big.Int), ConstantinopleBlock: new(big.Int), PetersburgBlock: new(big.Int),
		IstanbulBlock: new(big.Int), MuirGlacierBlock: new(big.Int), BerlinBlock: new(big.Int), LondonBlock: new(big.Int),
		TerminalTotalDifficulty: big.NewInt(0), ShanghaiTime: &zero, CancunTime: &zero,
		BlobScheduleConfig: params.DefaultBlobSchedule,
	}
	if prague {
		cc.PragueTime = &zero
	}
	return cc
}

func newEnv(prague bool, cache vm.JumpDestCache) *bbEnv {
	st, err := state.New(types.EmptyRootHash, state.NewDatabaseForTesting())
	if err != nil {
		panic(err)
	}
	cfg := &runtime.Config{
		ChainConfig: chainConfig(prague), Difficulty: new(big.Int), BlockNumber: new(big.Int), GasLimit: 30_000_000,
		GasPrice: new(big.Int), Value: new(big.Int), BaseFee: big.NewInt(params.InitialBaseFee), BlobBaseFee: big.NewInt(1),
		Random: new(common.Hash), State: st, GetHashFn: func(uint64) common.Hash { return common.Hash{} },
		Origin: common.Address{0xaa},
	}
	evm := runtime.NewEnv(cfg)
	if cache != nil {
		evm.SetJumpDestCache(cache)
	}
	rules := cfg.ChainConfig.Rules(cfg.BlockNumber, true, cfg.Time)
	st.Prepare(rules, cfg.Origin, cfg.Coinbase, nil, vm.ActivePrecompiles(rules), nil)
	return &bbEnv{cfg: cfg, evm: evm, state: st}
}

func be32(v *uint256.Int) []byte { b := v.Bytes32(); return b[:] }

// blackBox executes jumps into prefix||code through the interpreter.
func (c *checker) blackBox(code []byte, family string, rngPick func(n int) int) int {
	r := c.r
	checks := 0
	// --- calldata-driven: one code, many targets, cache of the EVM goes cold -> warm
	full := append([]byte{0x5f, 0x35, 0x56}, code...) // PUSH0 CALLDATALOAD JUMP
	data := refScan(full)
	const gas = 2 + 3 + 8 + 1 // up to and including the landing JUMPDEST
	for _, mode := range []string{"evm-private-cache", "evm-shared-cache"} {
		var cache vm.JumpDestCache
		if mode == "evm-shared-cache" {
			cache = c.shared
		}
		env := newEnv(false, cache)
		addr := common.Address{0xc0, 0xde}
		env.state.CreateAccount(addr)
		env.state.SetCode(addr, full, tracing.CodeChangeUnspecified)
		try := func(t *uint256.Int, want bool) bool {
			_, _, err := env.evm.Call(env.cfg.Origin, addr, be32(t), vm.NewGasBudget(gas, 0), new(uint256.Int))
			got := !errors.Is(err, vm.ErrInvalidJump)
			if got != want {
				r.Violation("exec:calldata-jump:"+mode, fmt.Sprintf("[%s] %s: JUMP to %s in PUSH0 CALLDATALOAD JUMP||code: err=%v, reference valid=%v", family, mode, t.Hex(), err, want), c.witness(full, map[string]any{"target": t.Hex(), "err": fmt.Sprint(err), "mode": mode}))
				return false
			}
			if want && err != nil && !errors.Is(err, vm.ErrOutOfGas) {
				// after the JUMPDEST no gas is left: the only outcomes are nil (STOP / end of
				// code / zero-cost op) or out of gas / invalid opcode; never another jump error
				r.Count("exec_valid_then_"+errClass(err), 1)
			}
			return true
		}
		for i := 0; i < len(full); i++ {
			if !try(uint256.NewInt(uint64(i)), refValid(full, data, uint64(i))) {
				break
			}
			checks++
		}
		for _, t := range extraTargets(len(full)) {
			if !try(t, false) {
				break
			}
			checks++
		}
	}
	r.Count("exec_calldata_codes", 1)
	// --- literal PUSH2 form of the design entry: a different code (and hash) per target
	if len(code) > 0 {
		env := newEnv(false, c.shared)
		addr := common.Address{0xc0, 0xdf}
		env.state.CreateAccount(addr)
		for k := 0; k < 12; k++ {
			t := rngPick(len(code) + 6) // position in PUSH2 hi lo JUMP || code (may hit the prefix and just past the end)
			lit := append([]byte{0x61, byte(t >> 8), byte(t), 0x56}, code...)
			ld := refScan(lit)
			env.state.SetCode(addr, lit, tracing.CodeChangeUnspecified)
			_, _, err := env.evm.Call(env.cfg.Origin, addr, nil, vm.NewGasBudget(3+8+1, 0), new(uint256.Int))
			want := refValid(lit, ld, uint64(t))
			if got := !errors.Is(err, vm.ErrInvalidJump); got != want {
				r.Violation("exec:push2-jump", fmt.Sprintf("[%s] PUSH2 %d JUMP||code: err=%v, reference valid=%v", family, t, err, want), c.witness(lit, map[string]any{"target": t, "err": fmt.Sprint(err)}))
				break
			}
			checks++
		}
		r.Count("exec_push2_cases", 12)
	}
	// --- initcode (no code hash): CREATE with PUSH0 CALLDATALOAD... has no calldata, use PUSH2
	if len(code) > 0 {
		env := newEnv(false, nil)
		env.state.CreateAccount(env.cfg.Origin)
		for k := 0; k < 4; k++ {
			t := rngPick(len(code) + 4)
			lit := append([]byte{0x61, byte(t >> 8), byte(t), 0x56}, code...)
			ld := refScan(lit)
			_, _, _, err := env.evm.Create(env.cfg.Origin, lit, vm.NewGasBudget(3+8+1, 0), new(uint256.Int))
			want := refValid(lit, ld, uint64(t))
			if got := !errors.Is(err, vm.ErrInvalidJump); got != want {
				r.Violation("exec:initcode-jump", fmt.Sprintf("[%s] CREATE with initcode PUSH2 %d JUMP||code: err=%v, reference valid=%v", family, t, err, want), c.witness(lit, map[string]any{"target": t, "err": fmt.Sprint(err)}))
				break
			}
			checks++
		}
		r.Count("exec_initcode_cases", 4)
	}
	return checks
}

// delegation: account A carries an EIP-7702 designator to B; calling A executes B's code
// and the analysis is keyed by B's code hash. A and B are judged through one shared cache.
func (c *checker) delegation(code []byte, family string) int {
	r := c.r
	full := append([]byte{0x5f, 0x35, 0x56}, code...)
	data := refScan(full)
	cache := newRecCache(mapCache{})
	env := newEnv(true, cache)
	a, b := common.Address{0xa1}, common.Address{0xb2}
	env.state.CreateAccount(a)
	env.state.CreateAccount(b)
	env.state.SetCode(b, full, tracing.CodeChangeUnspecified)
	env.state.SetCode(a, types.AddressToDelegation(b), tracing.CodeChangeUnspecified)
	checks := 0
	for i := 0; i < len(full); i++ {
		want := refValid(full, data, uint64(i))
		for _, who := range []common.Address{a, b} {
			_, _, err := env.evm.Call(env.cfg.Origin, who, be32(uint256.NewInt(uint64(i))), vm.NewGasBudget(2+3+8+1, 0), new(uint256.Int))
			if got := !errors.Is(err, vm.ErrInvalidJump); got != want {
				r.Violation("exec:delegated-jump", fmt.Sprintf("[%s] call to %x (A delegates to B): JUMP to %d: err=%v, reference valid=%v", family, who[:1], i, err, want), c.witness(full, map[string]any{"target": i, "err": fmt.Sprint(err)}))
				return checks
			}
			checks++
		}
	}
	r.Count("exec_delegation_codes", 1)
	return checks
}

func errClass(err error) string {
	switch {
	case err == nil:
		return "nil"
	case errors.Is(err, vm.ErrOutOfGas):
		return "oog"
	case errors.Is(err, vm.ErrInvalidJump):
		return "invalidjump"
	default:
		var io *vm.ErrInvalidOpCode
		if errors.As(err, &io) {
			return "invalidop"
		}
		return "other"
	}
}

// shape signature of a code: which analysis paths it drives.
func shape(code []byte) string {
	data := refScan(code)
	var short, mid8, mid16, long, trunc, jdData, jdCode bool
	for pc := 0; pc < len(code); pc++ {
		op := code[pc]
		if data[pc] {
			if op == 0x5b {
				jdData = true
			}
			continue
		}
		if op == 0x5b {
			jdCode = true
		}
		if op >= 0x60 && op <= 0x7f {
			k := int(op) - 0x5f
			switch {
			case k < 8:
				short = true
			case k < 16:
				mid8 = true
			case k < 32:
				mid16 = true
			default:
				long = true
			}
			if pc+k >= len(code) {
				trunc = true
			}
		}
	}
	lb := 0
	for l := len(code); l > 0; l >>= 2 {
		lb++
	}
	return fmt.Sprintf("L%d/s%v/m%v/w%v/x%v/trunc%v/jdData%v/jdCode%v", lb, short, mid8, mid16, long, trunc, jdData, jdCode)
}

func run(r *vrt.Run) {
	r.Rule("exhaustive: all codes of length <= 5 (thorough 6) over {STOP, JUMPDEST, PUSH1, PUSH2, PUSH32, PUSH0}; one PUSHn (n=1..32) at every alignment 0..70 in a JUMPDEST-filled buffer of 140 bytes and every truncation of the code inside/just after the push data; PUSHn PUSHm pairs at alignments 0..15; random: dense-PUSH codes to 600 bytes (thorough also to 49152) with JUMPDEST bytes inside data. Every position (plus out-of-range and >64-bit targets) is judged white-box on cold/warm/shared/hash-less frames; a subset black-box through the interpreter. signature = (family, length bucket, which push-width fast paths occur, truncated trailing push, JUMPDEST in data / in code)")
	c := &checker{r: r, shared: newRecCache(core.NewJumpDestCache())}
	var posChecks, execChecks int64
	var mu sync.Mutex
	add := func(p, e int) {
		mu.Lock()
		posChecks += int64(p)
		execChecks += int64(e)
		mu.Unlock()
	}
	doCode := func(code []byte, family string, bb bool, pick func(n int) int) {
		p := c.whiteBox(code, family)
		e := 0
		if bb {
			e = c.blackBox(code, family, pick)
		}
		add(p, e)
		r.Eval(family + "/" + shape(code))
	}

	// ---- E1: small alphabet, exhaustive
	alpha := []byte{0x00, 0x5b, 0x60, 0x61, 0x7f, 0x5f}
	maxL := r.N(5, 6)
	if r.Race() {
		maxL = 4
	}
	var fam [][]byte
	var rec func(prefix []byte)
	rec = func(prefix []byte) {
		fam = append(fam, append([]byte{}, prefix...))
		if len(prefix) == maxL {
			return
		}
		for _, a := range alpha {
			rec(append(prefix, a))
		}
	}
	rec(nil)
	vrt.Par(len(fam), 0, func(i int) {
		r.Case("E1 code=%x", fam[i])
		rng := r.Rand("e1", i)
		doCode(fam[i], "alpha", i%16 == 0 || len(fam[i]) <= 3, rng.Intn)
	})
	r.Count("exhaustive_small_codes", len(fam))

	// ---- E2: single PUSHn at every alignment, all truncations
	type e2 struct{ n, a, l int }
	var e2s []e2
	for n := 1; n <= 32; n++ {
		for a := 0; a <= 70; a++ {
			for l := a + 1; l <= a+1+n+2; l++ {
				e2s = append(e2s, e2{n, a, l})
			}
			e2s = append(e2s, e2{n, a, 140})
		}
	}
	stride := 1
	if r.Race() {
		stride = 15
	}
	vrt.Par(len(e2s)/stride, 0, func(j int) {
		i := j * stride
		x := e2s[i]
		code := make([]byte, x.l)
		for k := range code {
			code[k] = 0x5b
		}
		code[x.a] = byte(0x5f + x.n)
		r.Case("E2 push%d at %d len %d", x.n, x.a, x.l)
		rng := r.Rand("e2", i)
		doCode(code, "single-push", i%64 == 0, rng.Intn)
	})
	r.Count("exhaustive_single_push_codes", len(e2s)/stride)

	// ---- E3: adjacent pairs PUSHn PUSHm
	nPairs := 32 * 32 * 16
	if r.Race() {
		nPairs /= 16
	}
	vrt.Par(nPairs, 0, func(i int) {
		n, m, a := 1+i%32, 1+(i/32)%32, (i/1024)%16
		code := make([]byte, 100)
		for k := range code {
			code[k] = 0x5b
		}
		code[a] = byte(0x5f + n)
		code[a+1+n] = byte(0x5f + m)
		r.Case("E3 push%d push%d at %d", n, m, a)
		rng := r.Rand("e3", i)
		doCode(code, "push-pair", i%128 == 0, rng.Intn)
	})
	if !r.Race() {
		r.Exhaustive(true)
	}
	r.Extra("exhaustive_family", fmt.Sprintf("all codes of length <= %d over {00,5b,60,61,7f,5f}; single PUSH1..32 at alignment 0..70 in JUMPDEST filler incl. every truncation; PUSHn PUSHm pairs at alignment 0..15", maxL))

	// ---- R: random dense-push codes
	nr := r.N(2500, 150000)
	if r.Race() {
		nr /= 16
	}
	vrt.Par(nr, 0, func(i int) {
		rng := r.Rand("rand", i)
		l := rng.Intn(601)
		if !r.Quick() && i%50 == 0 {
			l = rng.Intn(49153)
		}
		code := make([]byte, l)
		style := rng.Intn(4)
		for k := range code {
			x := rng.Intn(100)
			switch {
			case x < 30 && style != 3:
				code[k] = 0x5b
			case x < 60:
				switch style {
				case 0:
					code[k] = byte(0x60 + rng.Intn(32))
				case 1: // wide pushes: 8/16-bit fast paths
					code[k] = byte(0x67 + rng.Intn(25))
				case 2:
					code[k] = []byte{0x60, 0x66, 0x67, 0x68, 0x6e, 0x6f, 0x70, 0x76, 0x77, 0x7e, 0x7f}[rng.Intn(11)]
				default:
					code[k] = byte(0x60 + rng.Intn(32))
				}
			case x < 70:
				code[k] = []byte{0x5a, 0x5c, 0x5f, 0x80, 0x00, 0xff, 0xe0}[rng.Intn(7)] // neighbours of the PUSH range
			default:
				code[k] = byte(rng.Intn(256))
			}
		}
		r.Case("R i=%d len=%d code=%x", i, l, code[:min(l, 1800)])
		bb := i%8 == 0 && l <= 700
		doCode(code, "random", bb, rng.Intn)
		if i%100 == 0 && l <= 700 {
			add(0, c.delegation(code, "random"))
		}
		if i < 3 {
			data := refScan(code)
			valid := 0
			for p := range code {
				if refValid(code, data, uint64(p)) {
					valid++
				}
			}
			r.Sample(map[string]any{"family": "random", "len": l, "code": vrt.Hex(code[:min(l, 96)]), "valid_jumpdests": valid})
		}
	})

	// ---- C: the same codes judged concurrently through the one shared production cache
	// (block processing and the prefetcher share it between goroutines)
	nc := 300
	if r.Race() {
		nc = 120
	}
	ccodes := make([][]byte, nc)
	for i := range ccodes {
		rng := r.Rand("conc", i)
		code := make([]byte, 20+rng.Intn(400))
		for k := range code {
			switch x := rng.Intn(10); {
			case x < 4:
				code[k] = 0x5b
			case x < 8:
				code[k] = byte(0x60 + rng.Intn(32))
			default:
				code[k] = byte(rng.Intn(256))
			}
		}
		ccodes[i] = code
	}
	conc := newRecCache(core.NewJumpDestCache())
	var wg sync.WaitGroup
	for w := 0; w < 16; w++ {
		wg.Add(1)
		go func(w int) {
			defer wg.Done()
			n := 0
			for round := 0; round < 2; round++ {
				for j := range ccodes {
					code := ccodes[(j*7+w*13)%nc]
					data := refScan(code)
					ct := vm.NewContract(common.Address{1}, common.Address{2}, new(uint256.Int), vm.NewGasBudget(1000, 0), conc)
					ct.SetCallCode(keccak(code), code)
					for i := range code {
						if got, want := vm.VerifValidJumpdest(ct, uint256.NewInt(uint64(i))), refValid(code, data, uint64(i)); got != want {
							r.Violation("validJumpdest:concurrent-shared-cache", fmt.Sprintf("worker %d: validJumpdest(%d)=%v, reference %v", w, i, got, want), c.witness(code, map[string]any{"pos": i}))
							break
						}
					}
					n += len(code)
				}
			}
			add(n, 0)
			r.Count("concurrent_position_checks", n)
			r.EvalN(fmt.Sprintf("concurrent/worker%d", w%2), 2*nc)
		}(w)
	}
	wg.Wait()
	conc.mu.Lock()
	r.Count("concurrent_cache_hits", conc.hits)
	for h, cp := range conc.copies {
		if string(conc.live[h]) != string(cp) {
			r.Violation("cache:stored-vector-mutated", fmt.Sprintf("analysis stored in the concurrently shared cache for %x changed after Store", h), nil)
		}
	}
	conc.mu.Unlock()
	r.Require("concurrent_cache_hits", 100)

	r.Count("position_checks_whitebox", int(posChecks))
	r.Count("position_checks_executed", int(execChecks))
	c.shared.mu.Lock()
	r.Count("shared_cache_loads", c.shared.loads)
	r.Count("shared_cache_hits", c.shared.hits)
	r.Count("shared_cache_stores", c.shared.stores)
	// every vector stored in the shared production cache is unchanged
	for h, cp := range c.shared.copies {
		if string(c.shared.live[h]) != string(cp) {
			r.Violation("cache:stored-vector-mutated", fmt.Sprintf("analysis stored in the shared cache for %x changed after Store", h), nil)
		}
	}
	c.shared.mu.Unlock()
	r.Require("cache_cold_store", 100)
	r.Require("cache_warm_hit", 100)
	r.Require("shared_cache_hits", 100)
	r.Require("position_checks_executed", 10000)
	r.Require("nohash_frames", 100)
	r.Assume("reference: 10-line linear scan refScan (PUSH1..PUSH32 = 0x60..0x7f followed by k immediate bytes, truncated by end of code)")
	r.Assume("black-box verdict uses a gas limit that ends execution right after the landing JUMPDEST, so ErrInvalidJump can only stem from the judged JUMP")
}
