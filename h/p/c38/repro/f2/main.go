// Reproducer for C38 finding F2 (fingerprint I1:stale-canonical-above-head).
// Public go-ethereum API only.
//
// History (hash scheme, full node): import 1..14; Stop; reopen; SetHead(7) (the states of
// 1..7 were garbage collected on shutdown, so the head *block* rewinds to genesis while the head
// *header* stays at 7); SetCanonical(block 1). Observed: head block and head header are #1, yet
// the number->hash index still maps 2..7 and the by-number readers serve them.
package main

import (
	"fmt"
	"math/big"

	"github.com/ethereum/go-ethereum/common"
	"github.com/ethereum/go-ethereum/consensus/ethash"
	"github.com/ethereum/go-ethereum/core"
	"github.com/ethereum/go-ethereum/core/rawdb"
	"github.com/ethereum/go-ethereum/core/types"
	"github.com/ethereum/go-ethereum/crypto"
	"github.com/ethereum/go-ethereum/params"
)

func main() {
	key, _ := crypto.HexToECDSA("b71c71a67e1177ad4e901695e1b4b9ee17ae16c6668d313eac2f96dbcda3f291")
	addr := crypto.PubkeyToAddress(key.PublicKey)
	config := *params.TestChainConfig
	signer := types.LatestSigner(&config)
	engine := ethash.NewFaker()
	gspec := &core.Genesis{Config: &config, BaseFee: big.NewInt(params.InitialBaseFee), Alloc: types.GenesisAlloc{addr: {Balance: new(big.Int).Lsh(big.NewInt(1), 80)}}}
	_, blocks, _ := core.GenerateChainWithGenesis(gspec, engine, 14, func(i int, b *core.BlockGen) {
		to := common.HexToAddress("0xbeef")
		b.AddTx(types.MustSignNewTx(key, signer, &types.LegacyTx{Nonce: b.TxNonce(addr), To: &to, Value: big.NewInt(1), Gas: 21000, GasPrice: big.NewInt(100 * params.GWei)}))
	})
	db := rawdb.NewMemoryDatabase()
	cfg := core.DefaultConfig() // hash scheme, not archive
	cfg.SnapshotLimit = 0
	bc, err := core.NewBlockChain(db, gspec, engine, cfg)
	if err != nil {
		panic(err)
	}
	if _, err := bc.InsertChain(blocks); err != nil {
		panic(err)
	}
	bc.Stop()
	bc, err = core.NewBlockChain(db, gspec, engine, cfg)
	if err != nil {
		panic(err)
	}
	defer bc.Stop()
	show := func(what string) {
		fmt.Printf("%-22s CurrentBlock=#%d CurrentHeader=#%d canonical numbers present:", what, bc.CurrentBlock().Number, bc.CurrentHeader().Number)
		for n := uint64(0); n <= 15; n++ {
			if rawdb.ReadCanonicalHash(db, n) != (common.Hash{}) {
				fmt.Printf(" %d", n)
			}
		}
		fmt.Println()
	}
	show("after reopen")
	if err := bc.SetHead(7); err != nil {
		panic(err)
	}
	show("after SetHead(7)")
	b1 := bc.GetBlockByHash(blocks[0].Hash())
	if _, err := bc.SetCanonical(b1); err != nil {
		panic(err)
	}
	show("after SetCanonical(#1)")
	b5 := bc.GetBlockByNumber(5)
	fmt.Printf("GetBlockByNumber(5) != nil: %v (head is #%d)\n", b5 != nil, bc.CurrentHeader().Number)
	tx := blocks[4].Transactions()[0]
	lookup, _ := bc.GetCanonicalTransaction(tx.Hash())
	if lookup != nil {
		fmt.Printf("GetCanonicalTransaction(tx of block 5) resolves to block #%d although the canonical head is #%d\n", lookup.BlockIndex, bc.CurrentBlock().Number)
	} else {
		fmt.Println("GetCanonicalTransaction(tx of block 5) = nil")
	}
	fmt.Println("EXPECTED by the property: the number->hash index ends at the head (no entry above CurrentHeader).")
	variant2()
}
