package main

import (
	"fmt"
	"math/big"

	"github.com/ethereum/go-ethereum/common"
	"github.com/ethereum/go-ethereum/consensus/ethash"
	"github.com/ethereum/go-ethereum/core"
	"github.com/ethereum/go-ethereum/core/rawdb"
	"github.com/ethereum/go-ethereum/core/types"
	"github.com/ethereum/go-ethereum/crypto"
	"github.com/ethereum/go-ethereum/params"
)

// variant2: same precondition (header chain ahead of the rewound head block), but the next
// import is a *different branch* B. The import extends the low head block, reorg() is never
// invoked: the old header chain's number->hash entries stay above the head (not even parent
// linked to it), and the transaction lookup cache keeps resolving to blocks of branch A after
// B has overwritten those numbers.
func variant2() {
	fmt.Println("---- variant 2: import of another branch while the header chain is ahead of the head block")
	key, _ := crypto.HexToECDSA("b71c71a67e1177ad4e901695e1b4b9ee17ae16c6668d313eac2f96dbcda3f291")
	addr := crypto.PubkeyToAddress(key.PublicKey)
	config := *params.TestChainConfig
	signer := types.LatestSigner(&config)
	engine := ethash.NewFaker()
	gspec := &core.Genesis{Config: &config, BaseFee: big.NewInt(params.InitialBaseFee), Alloc: types.GenesisAlloc{addr: {Balance: new(big.Int).Lsh(big.NewInt(1), 80)}}}
	gen := func(tag byte) func(int, *core.BlockGen) {
		return func(i int, b *core.BlockGen) {
			b.SetExtra([]byte{tag})
			to := common.BytesToAddress([]byte{tag})
			b.AddTx(types.MustSignNewTx(key, signer, &types.LegacyTx{Nonce: b.TxNonce(addr), To: &to, Value: big.NewInt(1), Gas: 21000, GasPrice: big.NewInt(100 * params.GWei)}))
		}
	}
	gendb, chainA, _ := core.GenerateChainWithGenesis(gspec, engine, 14, gen('A'))
	genesis := rawdb.ReadBlock(gendb, rawdb.ReadCanonicalHash(gendb, 0), 0)
	chainB, _ := core.GenerateChain(&config, genesis, engine, gendb, 10, gen('B'))

	db := rawdb.NewMemoryDatabase()
	cfg := core.DefaultConfig()
	cfg.SnapshotLimit = 0
	bc, _ := core.NewBlockChain(db, gspec, engine, cfg)
	if _, err := bc.InsertChain(chainA); err != nil {
		panic(err)
	}
	bc.Stop()
	bc, _ = core.NewBlockChain(db, gspec, engine, cfg)
	defer bc.Stop()
	if err := bc.SetHead(12); err != nil {
		panic(err)
	}
	txA10 := chainA[9].Transactions()[0]
	l, _ := bc.GetCanonicalTransaction(txA10.Hash()) // an RPC client looks the transaction up (fills the lookup cache)
	fmt.Printf("after SetHead(12): CurrentBlock=#%d CurrentHeader=#%d; lookup(tx of A10) -> #%d %x\n", bc.CurrentBlock().Number, bc.CurrentHeader().Number, l.BlockIndex, l.BlockHash.Bytes()[:4])
	if _, err := bc.InsertChain(chainB[:3]); err != nil {
		panic(err)
	}
	fmt.Printf("after InsertChain(B1..B3): CurrentBlock=#%d %x CurrentHeader=#%d\n", bc.CurrentBlock().Number, bc.CurrentBlock().Hash().Bytes()[:4], bc.CurrentHeader().Number)
	for n := uint64(3); n <= 13; n++ {
		h := rawdb.ReadCanonicalHash(db, n)
		if h == (common.Hash{}) {
			continue
		}
		hdr := rawdb.ReadHeader(db, h, n)
		fmt.Printf("  canonical[%d] = %x (branch %s) parent %x\n", n, h.Bytes()[:4], hdr.Extra, hdr.ParentHash.Bytes()[:4])
	}
	if _, err := bc.InsertChain(chainB[3:]); err != nil {
		panic(err)
	}
	l, _ = bc.GetCanonicalTransaction(txA10.Hash())
	fmt.Printf("after InsertChain(B4..B10): head=#%d branch %s; canonical[10]=%x; lookup(tx of A10) -> ", bc.CurrentBlock().Number, bc.CurrentBlock().Extra, rawdb.ReadCanonicalHash(db, 10).Bytes()[:4])
	if l == nil {
		fmt.Println("nil")
	} else {
		fmt.Printf("#%d %x  (a block of branch A that is not canonical)\n", l.BlockIndex, l.BlockHash.Bytes()[:4])
	}
	fmt.Println("EXPECTED by the property: canonical index parent-linked and ending at the head; lookups resolve only to canonical blocks.")
}
