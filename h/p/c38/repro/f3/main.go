// Reproducer for C38 finding F3 (fingerprint I3:canonical-block-without-receipts).
// Public go-ethereum API only.
//
// History (hash scheme, full node, no snapshots): import 1..10; Stop (persists the states of
// HEAD=10 and HEAD-1=9); reopen; SetHead(8) (deletes blocks 9,10 but not their states; state 8
// is gone, the head block rewinds to genesis); InsertChain(8,9,10): the side-chain path stores
// 9 and 10 *without receipts* (writeBlockWithoutState) and then imports nothing because the
// state of 10 is found on disk; InsertChain(1..10): 1..8 are re-executed, 9 and 10 are "known
// blocks with state" and are adopted without execution. Observed: blocks 9 and 10 are canonical,
// carry transactions, and have no receipts.
package main

import (
	"fmt"
	"math/big"

	"github.com/ethereum/go-ethereum/common"
	"github.com/ethereum/go-ethereum/consensus/ethash"
	"github.com/ethereum/go-ethereum/core"
	"github.com/ethereum/go-ethereum/core/rawdb"
	"github.com/ethereum/go-ethereum/core/types"
	"github.com/ethereum/go-ethereum/crypto"
	"github.com/ethereum/go-ethereum/params"
)

func main() {
	key, _ := crypto.HexToECDSA("b71c71a67e1177ad4e901695e1b4b9ee17ae16c6668d313eac2f96dbcda3f291")
	addr := crypto.PubkeyToAddress(key.PublicKey)
	emitter := common.HexToAddress("0xee01")
	config := *params.TestChainConfig
	signer := types.LatestSigner(&config)
	engine := ethash.NewFaker()
	gspec := &core.Genesis{Config: &config, BaseFee: big.NewInt(params.InitialBaseFee), Alloc: types.GenesisAlloc{
		addr:    {Balance: new(big.Int).Lsh(big.NewInt(1), 80)},
		emitter: {Code: common.FromHex("600160006000a100"), Balance: big.NewInt(1)}, // LOG1(topic=1); STOP
	}}
	_, blocks, _ := core.GenerateChainWithGenesis(gspec, engine, 10, func(i int, b *core.BlockGen) {
		b.AddTx(types.MustSignNewTx(key, signer, &types.LegacyTx{Nonce: b.TxNonce(addr), To: &emitter, Gas: 50000, GasPrice: big.NewInt(100 * params.GWei)}))
	})
	db := rawdb.NewMemoryDatabase()
	cfg := core.DefaultConfig() // hash scheme, not archive
	cfg.SnapshotLimit = 0
	bc, err := core.NewBlockChain(db, gspec, engine, cfg)
	if err != nil {
		panic(err)
	}
	if _, err := bc.InsertChain(blocks); err != nil {
		panic(err)
	}
	bc.Stop()
	if bc, err = core.NewBlockChain(db, gspec, engine, cfg); err != nil {
		panic(err)
	}
	defer bc.Stop()
	logCh := make(chan []*types.Log, 100)
	bc.SubscribeLogsEvent(logCh)
	show := func(what string, err error) {
		fmt.Printf("%-26s err=%v CurrentBlock=#%d CurrentHeader=#%d\n", what, err, bc.CurrentBlock().Number, bc.CurrentHeader().Number)
	}
	show("SetHead(8)", bc.SetHead(8))
	_, err = bc.InsertChain(blocks[7:])
	show("InsertChain(8,9,10)", err)
	_, err = bc.InsertChain(blocks)
	show("InsertChain(1..10)", err)
	announced := map[uint64]int{}
	for len(logCh) > 0 {
		for _, l := range <-logCh {
			announced[l.BlockNumber]++
		}
	}
	for n := uint64(7); n <= 10; n++ {
		b := bc.GetBlockByNumber(n)
		if b == nil {
			fmt.Printf("block %d: not canonical\n", n)
			continue
		}
		rs := bc.GetReceiptsByHash(b.Hash())
		tx := b.Transactions()[0]
		lookup, ltx := bc.GetCanonicalTransaction(tx.Hash())
		var rerr error
		if lookup != nil {
			_, rerr = bc.GetCanonicalReceipt(ltx, lookup.BlockHash, lookup.BlockIndex, lookup.Index)
		}
		fmt.Printf("block %d: canonical=%v txs=%d receipts=%d logsAnnounced=%d GetCanonicalReceipt err=%v\n", n, b.Hash() == blocks[n-1].Hash(), len(b.Transactions()), len(rs), announced[n], rerr)
	}
	fmt.Println("EXPECTED by the property: every canonical block's transactions resolve to their receipts (1 receipt with 1 log per block here).")
}
