// Reproducer for C38 finding F1 (fingerprint I4:known-block-reimport:added-logs-not-emitted).
// Public go-ethereum API only.
//
// History: import chain A (1..6); import fork B (4'..7') from block 3 -> B is canonical;
// InsertChain(A4..A6) again (the blocks are known, their state is available, they are not
// canonical). Observed: A becomes canonical again, the logs of B4'..B7' are announced on the
// RemovedLogsEvent feed, but the logs of A4..A6 appear on no feed (no LogsEvent, no ChainEvent).
package main

import (
	"fmt"
	"math/big"

	"github.com/ethereum/go-ethereum/common"
	"github.com/ethereum/go-ethereum/consensus/ethash"
	"github.com/ethereum/go-ethereum/core"
	"github.com/ethereum/go-ethereum/core/rawdb"
	"github.com/ethereum/go-ethereum/core/types"
	"github.com/ethereum/go-ethereum/crypto"
	"github.com/ethereum/go-ethereum/params"
)

func main() {
	key, _ := crypto.HexToECDSA("b71c71a67e1177ad4e901695e1b4b9ee17ae16c6668d313eac2f96dbcda3f291")
	addr := crypto.PubkeyToAddress(key.PublicKey)
	emitter := common.HexToAddress("0xee01")
	config := *params.TestChainConfig
	signer := types.LatestSigner(&config)
	engine := ethash.NewFaker()
	gspec := &core.Genesis{
		Config:  &config,
		BaseFee: big.NewInt(params.InitialBaseFee),
		Alloc: types.GenesisAlloc{
			addr:    {Balance: new(big.Int).Lsh(big.NewInt(1), 80)},
			emitter: {Code: common.FromHex("600160006000a100"), Balance: big.NewInt(1)}, // LOG1(topic=1); STOP
		},
	}
	gen := func(tag byte) func(int, *core.BlockGen) {
		return func(i int, b *core.BlockGen) {
			b.SetExtra([]byte{tag})
			tx := types.MustSignNewTx(key, signer, &types.LegacyTx{Nonce: b.TxNonce(addr), To: &emitter, Gas: 50000, GasPrice: big.NewInt(100 * params.GWei), Data: []byte{tag}})
			b.AddTx(tx)
		}
	}
	gendb, chainA, _ := core.GenerateChainWithGenesis(gspec, engine, 6, gen('A'))
	chainB, _ := core.GenerateChain(&config, chainA[2], engine, gendb, 4, gen('B'))

	bc, err := core.NewBlockChain(rawdb.NewMemoryDatabase(), gspec, engine, core.DefaultConfig())
	if err != nil {
		panic(err)
	}
	defer bc.Stop()
	rmCh := make(chan core.RemovedLogsEvent, 100)
	logCh := make(chan []*types.Log, 100)
	chainCh := make(chan core.ChainEvent, 100)
	headCh := make(chan core.ChainHeadEvent, 100)
	bc.SubscribeRemovedLogsEvent(rmCh)
	bc.SubscribeLogsEvent(logCh)
	bc.SubscribeChainEvent(chainCh)
	bc.SubscribeChainHeadEvent(headCh)
	drain := func(what string) {
		rm, lg, ce, he := 0, 0, 0, 0
		var rmBlocks, lgBlocks []uint64
		for {
			select {
			case e := <-rmCh:
				for _, l := range e.Logs {
					rm++
					rmBlocks = append(rmBlocks, l.BlockNumber)
				}
				continue
			case ls := <-logCh:
				for _, l := range ls {
					lg++
					lgBlocks = append(lgBlocks, l.BlockNumber)
				}
				continue
			case <-chainCh:
				ce++
				continue
			case <-headCh:
				he++
				continue
			default:
			}
			break
		}
		fmt.Printf("%-28s head=#%d %x  removedLogs=%d (blocks %v)  addedLogs=%d (blocks %v)  chainEvents=%d headEvents=%d\n", what, bc.CurrentBlock().Number, bc.CurrentBlock().Hash().Bytes()[:4], rm, rmBlocks, lg, lgBlocks, ce, he)
	}
	if _, err := bc.InsertChain(chainA); err != nil {
		panic(err)
	}
	drain("InsertChain(A1..A6)")
	if _, err := bc.InsertChain(chainB); err != nil {
		panic(err)
	}
	drain("InsertChain(B4'..B7')")
	for _, b := range chainA[3:] {
		fmt.Printf("  before re-import: A%d known=%v hasState=%v canonical=%v\n", b.NumberU64(), bc.HasBlock(b.Hash(), b.NumberU64()), bc.HasState(b.Root()), bc.GetCanonicalHash(b.NumberU64()) == b.Hash())
	}
	if _, err := bc.InsertChain(chainA[3:]); err != nil {
		panic(err)
	}
	drain("InsertChain(A4..A6) again")
	fmt.Printf("canonical head is A6: %v\n", bc.CurrentBlock().Hash() == chainA[5].Hash())
	fmt.Println("EXPECTED by the property: the third operation announces the 3 logs of A4..A6 as added (LogsEvent) besides the 4 removed logs of B4'..B7'.")
	fmt.Println("OBSERVED: see the last line above: addedLogs=0 chainEvents=0.")
}
