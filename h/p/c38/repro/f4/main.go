// Stress reproducer for C38 finding F4 (fingerprint
// I3:lookup-resolves-noncanonical:stale-cache:sethead-races-with-reader). Public API only.
//
// BlockChain.SetHead purges txLookupCache without taking txLookupLock, while
// GetCanonicalTransaction reads the database and then adds the result to the cache under the read
// lock only. A reader that read the lookup entry before SetHead deleted the block and adds it to
// the cache after the purge leaves a permanent cache entry: afterwards GetCanonicalTransaction
// resolves the transaction to a block that no longer exists / is not canonical.
package main

import (
	"fmt"
	"math/big"
	"os"
	"strconv"
	"sync"
	"sync/atomic"

	"github.com/ethereum/go-ethereum/common"
	"github.com/ethereum/go-ethereum/consensus/ethash"
	"github.com/ethereum/go-ethereum/core"
	"github.com/ethereum/go-ethereum/core/rawdb"
	"github.com/ethereum/go-ethereum/core/types"
	"github.com/ethereum/go-ethereum/crypto"
	"github.com/ethereum/go-ethereum/params"
)

func main() {
	iters := 400
	if len(os.Args) > 1 {
		iters, _ = strconv.Atoi(os.Args[1])
	}
	key, _ := crypto.HexToECDSA("b71c71a67e1177ad4e901695e1b4b9ee17ae16c6668d313eac2f96dbcda3f291")
	addr := crypto.PubkeyToAddress(key.PublicKey)
	config := *params.TestChainConfig
	signer := types.LatestSigner(&config)
	engine := ethash.NewFaker()
	gspec := &core.Genesis{Config: &config, BaseFee: big.NewInt(params.InitialBaseFee), Alloc: types.GenesisAlloc{addr: {Balance: new(big.Int).Lsh(big.NewInt(1), 80)}}}
	_, blocks, _ := core.GenerateChainWithGenesis(gspec, engine, 20, func(i int, b *core.BlockGen) {
		to := common.HexToAddress("0xbeef")
		for j := 0; j < 4; j++ {
			b.AddTx(types.MustSignNewTx(key, signer, &types.LegacyTx{Nonce: b.TxNonce(addr), To: &to, Value: big.NewInt(1), Gas: 21000, GasPrice: big.NewInt(100 * params.GWei)}))
		}
	})
	cfg := core.DefaultConfig()
	cfg.ArchiveMode, cfg.SnapshotLimit, cfg.TrieCleanLimit = true, 0, 4
	cfg.TxLookupLimit = 0
	db := rawdb.NewMemoryDatabase()
	bc, err := core.NewBlockChain(db, gspec, engine, cfg)
	if err != nil {
		panic(err)
	}
	defer bc.Stop()
	var txs []common.Hash
	for _, b := range blocks[10:] {
		for _, tx := range b.Transactions() {
			txs = append(txs, tx.Hash())
		}
	}
	stale := 0
	for it := 0; it < iters; it++ {
		if _, err := bc.InsertChain(blocks); err != nil {
			panic(err)
		}
		var stop atomic.Bool
		var wg sync.WaitGroup
		for g := 0; g < 3; g++ {
			wg.Add(1)
			go func(g int) {
				defer wg.Done()
				for i := g; !stop.Load(); i++ {
					bc.GetCanonicalTransaction(txs[i%len(txs)])
				}
			}(g)
		}
		if err := bc.SetHead(10); err != nil {
			panic(err)
		}
		stop.Store(true)
		wg.Wait()
		// the chain is at rest now: head #10, blocks 11..20 deleted
		for _, h := range txs {
			if l, _ := bc.GetCanonicalTransaction(h); l != nil {
				stale++
				if stale <= 3 {
					fmt.Printf("iteration %d: head=#%d, GetCanonicalTransaction(%x) resolves to #%d %x; block known: %v, canonical hash at that number: %x\n",
						it, bc.CurrentBlock().Number, h.Bytes()[:4], l.BlockIndex, l.BlockHash.Bytes()[:4], bc.GetHeaderByHash(l.BlockHash) != nil, rawdb.ReadCanonicalHash(db, l.BlockIndex).Bytes()[:4])
				}
			}
		}
	}
	fmt.Printf("%d stale resolutions in %d iterations (expected 0: after SetHead(10) no transaction of blocks 11..20 may resolve)\n", stale, iters)
}
