package main

import (
	"bytes"
	"fmt"
	"os"
	"time"

	"github.com/ethereum/go-ethereum/common"
	"github.com/ethereum/go-ethereum/core"
	"github.com/ethereum/go-ethereum/core/rawdb"
	"github.com/ethereum/go-ethereum/core/state"
	"github.com/ethereum/go-ethereum/core/types"
	"github.com/ethereum/go-ethereum/triedb"
)

// readIndex judges I1 and returns the canonical chain (up to the head header) as model blocks.
func (s *sut) readIndex() (*snapshotState, bool) {
	bc, db, t := s.bc, s.db, s.t
	h := bc.CurrentBlock()
	hh := bc.CurrentHeader()
	ok := true
	bad := func(fp, msg string) { s.viol(fp, msg, nil); ok = false }
	if h == nil || hh == nil {
		bad("I1:nil-head", "CurrentBlock or CurrentHeader is nil")
		return nil, false
	}
	if got := rawdb.ReadHeadBlockHash(db); got != h.Hash() {
		bad("I1:head-block-marker", fmt.Sprintf("ReadHeadBlockHash=%x CurrentBlock=%x (#%d)", got, h.Hash(), h.Number))
	}
	if got := rawdb.ReadHeadHeaderHash(db); got != hh.Hash() {
		bad("I1:head-header-marker", fmt.Sprintf("ReadHeadHeaderHash=%x CurrentHeader=%x (#%d)", got, hh.Hash(), hh.Number))
	}
	if hh.Number.Cmp(h.Number) < 0 {
		bad("I1:header-behind-block", fmt.Sprintf("CurrentHeader #%d is behind CurrentBlock #%d", hh.Number, h.Number))
		return nil, false
	}
	st := &snapshotState{headNum: h.Number.Uint64()}
	var prev *mblock
	for n := uint64(0); n <= hh.Number.Uint64(); n++ {
		hash := rawdb.ReadCanonicalHash(db, n)
		if hash == (common.Hash{}) {
			bad("I1:canonical-gap", fmt.Sprintf("no canonical hash at #%d (head block #%d, head header #%d)", n, h.Number, hh.Number))
			return nil, false
		}
		mb := t.byHash[hash]
		if mb == nil {
			bad("I1:canonical-unknown-block", fmt.Sprintf("canonical hash %x at #%d is not a block of the tree", hash, n))
			return nil, false
		}
		if mb.num != n {
			bad("I1:canonical-wrong-number", fmt.Sprintf("canonical hash at #%d belongs to block #%d", n, mb.num))
			return nil, false
		}
		if n > 0 && mb.parent != prev {
			bad("I1:canonical-not-parent-linked", fmt.Sprintf("canonical #%d %s has parent %s but canonical #%d is %s", n, mb, mb.parent, n-1, prev))
			return nil, false
		}
		if num, found := rawdb.ReadHeaderNumber(db, hash); !found || num != n {
			bad("I1:header-number-mapping", fmt.Sprintf("ReadHeaderNumber(%s) = %d,%v", mb, num, found))
		}
		if hdr := rawdb.ReadHeader(db, hash, n); hdr == nil || hdr.Hash() != hash {
			bad("I1:canonical-header-missing", fmt.Sprintf("header of canonical %s not readable", mb))
		}
		// the cached reader API must agree with the database
		if got := bc.GetCanonicalHash(n); got != hash {
			bad("I1:cached-canonical-hash", fmt.Sprintf("GetCanonicalHash(%d)=%x, database has %x", n, got, hash))
		}
		if hd := bc.GetHeaderByNumber(n); hd == nil || hd.Hash() != hash {
			bad("I1:cached-header-by-number", fmt.Sprintf("GetHeaderByNumber(%d) disagrees with canonical hash %x", n, hash))
		}
		if n <= st.headNum {
			blk := bc.GetBlockByNumber(n)
			if blk == nil || blk.Hash() != hash {
				bad("I1:block-by-number", fmt.Sprintf("GetBlockByNumber(%d) missing or not the canonical block %s", n, mb))
			} else if len(blk.Transactions()) != len(mb.block.Transactions()) {
				bad("I1:block-body", fmt.Sprintf("body of %s has %d txs, model %d", mb, len(blk.Transactions()), len(mb.block.Transactions())))
			}
		}
		if ntx := len(mb.block.Transactions()); ntx > 0 {
			if rs := rawdb.ReadRawReceipts(db, hash, n); len(rs) != ntx {
				// not fatal for the index walk: recorded once per block, dependent checks are skipped
				if st.noReceipts == nil {
					st.noReceipts = map[common.Hash]bool{}
				}
				st.noReceipts[hash] = true
				st.noReceiptsList = append(st.noReceiptsList, mb)
			}
		}
		st.canon = append(st.canon, mb)
		prev = mb
	}
	if st.canon[st.headNum].hash() != h.Hash() {
		bad("I1:head-not-canonical", fmt.Sprintf("CurrentBlock #%d %x is not the canonical block %s", h.Number, h.Hash(), st.canon[st.headNum]))
		return nil, false
	}
	if prev.hash() != hh.Hash() {
		bad("I1:head-header-not-canonical", fmt.Sprintf("CurrentHeader #%d %x is not the canonical block %s", hh.Number, hh.Hash(), prev))
	}
	for n := hh.Number.Uint64() + 1; n <= t.maxNum+3; n++ {
		if hash := rawdb.ReadCanonicalHash(db, n); hash != (common.Hash{}) {
			// not fatal: the chain below is consistent; dependent lookups are not judged again
			st.staleAbove = true
			fp := "I1:stale-canonical-above-head"
			if s.staleIsHeaderChainLeftover(st, hh.Number.Uint64()) {
				// known finding F2: the header chain was ahead of the (rewound) head block and
				// writeHeadBlock moved the head header back onto the same chain without removing
				// the header chain's number->hash entries above it
				fp = "I1:stale-canonical-above-head:header-chain-ahead-of-rewound-block"
			}
			s.viol(fp, fmt.Sprintf("canonical hash %x at #%d above the head header #%d (head block #%d)", hash, n, hh.Number, h.Number), nil)
			break
		}
		if got := bc.GetCanonicalHash(n); got != (common.Hash{}) {
			bad("I1:stale-cached-canonical-above-head", fmt.Sprintf("GetCanonicalHash(%d)=%x above the head header #%d", n, got, hh.Number))
			break
		}
	}
	if f := bc.CurrentFinalBlock(); f != nil {
		st.finalHash = f.Hash()
	}
	s.r.Count("index_entries_checked", len(st.canon))
	return st, ok
}

// checkState judges I2: the head block's state is available and equals the model's.
func (s *sut) checkState(head *mblock) {
	bc := s.bc
	if !bc.HasState(head.block.Root()) {
		s.viol("I2:head-state-missing", fmt.Sprintf("HasState(root of head %s) = false", head), nil)
		return
	}
	sdb, err := bc.StateAt(head.block.Header())
	if err != nil {
		s.viol("I2:head-state-unreadable", fmt.Sprintf("StateAt(head %s): %v", head, err), nil)
		return
	}
	tdb := triedb.NewDatabase(s.t.gendb, triedb.HashDefaults)
	defer tdb.Close()
	ref, err := state.New(head.block.Root(), state.NewDatabase(tdb, nil))
	if err != nil {
		s.r.Inconclusive("generator state of %s unreadable: %v", head, err)
		return
	}
	for i, a := range s.t.addrs {
		if got := sdb.GetNonce(a); got != head.nonces[i] {
			s.viol("I2:head-state-nonce", fmt.Sprintf("nonce of sender %d at head %s = %d, model %d", i, head, got, head.nonces[i]), nil)
		}
		if got, want := sdb.GetBalance(a), ref.GetBalance(a); got.Cmp(want) != 0 {
			s.viol("I2:head-state-balance", fmt.Sprintf("balance of sender %d at head %s = %v, generator state %v", i, head, got, want), nil)
		}
	}
	for i, a := range s.t.emit {
		if got := sdb.GetState(a, common.Hash{}).Big().Uint64(); got != head.counter[i] {
			s.viol("I2:head-state-storage", fmt.Sprintf("call counter of emitter %d at head %s = %d, model %d", i, head, got, head.counter[i]), nil)
		}
	}
	s.r.Count("head_states_checked", 1)
}

// waitIndexer waits (bounded) until the background tx indexer has caught up with the current
// head. The indexer's in-memory tail is published only after a run completed, so
// Indexed == expected window implies the run that established the tail has finished. The
// outcome decides only which lookups are *required* to resolve, never a verdict by itself.
func (s *sut) waitIndexer(headNum uint64) {
	s.quiescent, s.tailBound = false, 0
	if headNum == 0 {
		s.quiescent = true
		return
	}
	total := s.limit
	if s.limit == 0 || total > headNum {
		total = headNum + 1
	}
	deadline := time.Now().Add(5 * time.Second)
	for i := 0; ; i++ {
		// The indexer publishes (head, tail) non-atomically: right after a head event its head may
		// still be the previous one. Cross-check with the tail stored in the database: at rest
		// in-memory tail == database tail, hence Indexed + tail - 1 must be the current head.
		p, err := s.bc.TxIndexProgress()
		dbtail := rawdb.ReadTxIndexTail(s.db)
		if err == nil && dbtail != nil && p.Remaining == 0 && p.Indexed == total && p.Indexed+*dbtail-1 == headNum {
			s.quiescent = true
			s.tailBound = headNum + 1 - total
			s.r.Count("index_quiescent_steps", 1)
			return
		}
		if time.Now().After(deadline) {
			fmt.Printf("NOTQUIESCENT case %d op %q progress %+v total %d head %d\n", s.idx, s.lastOp(), p, total, headNum)
			s.r.Count("index_not_quiescent_steps", 1)
			return
		}
		if i < 50 {
			time.Sleep(200 * time.Microsecond)
		} else {
			time.Sleep(2 * time.Millisecond)
		}
	}
}

func sameLog(a, b *types.Log, removed bool) string {
	switch {
	case a.Address != b.Address:
		return "address"
	case len(a.Topics) != len(b.Topics):
		return "topics"
	case !bytes.Equal(a.Data, b.Data):
		return "data"
	case a.BlockNumber != b.BlockNumber:
		return "blockNumber"
	case a.BlockHash != b.BlockHash:
		return "blockHash"
	case a.TxHash != b.TxHash:
		return "txHash"
	case a.TxIndex != b.TxIndex:
		return "txIndex"
	case a.Index != b.Index:
		return "logIndex"
	case a.Removed != removed:
		return "removed-flag"
	}
	for i := range a.Topics {
		if a.Topics[i] != b.Topics[i] {
			return "topics"
		}
	}
	return ""
}

func sameReceipt(got, want *types.Receipt) string {
	switch {
	case got.Status != want.Status:
		return "status"
	case got.CumulativeGasUsed != want.CumulativeGasUsed:
		return "cumulativeGasUsed"
	case got.GasUsed != want.GasUsed:
		return "gasUsed"
	case got.TxHash != want.TxHash:
		return "txHash"
	case got.BlockHash != want.BlockHash:
		return "blockHash"
	case got.BlockNumber == nil || got.BlockNumber.Cmp(want.BlockNumber) != 0:
		return "blockNumber"
	case got.TransactionIndex != want.TransactionIndex:
		return "transactionIndex"
	case len(got.Logs) != len(want.Logs):
		return "logs-length"
	case got.Type != want.Type:
		return "type"
	}
	for i := range got.Logs {
		if d := sameLog(got.Logs[i], want.Logs[i], false); d != "" {
			return "log." + d
		}
	}
	return ""
}

// checkLookups judges I3.
func (s *sut) checkLookups(st *snapshotState) {
	bc, t := s.bc, s.t
	type pos struct {
		num uint64
		idx int
	}
	where := map[common.Hash]pos{}
	for _, mb := range st.canon {
		for i, tx := range mb.block.Transactions() {
			where[tx.Hash()] = pos{mb.num, i}
		}
	}
	for _, h := range s.lookupSample(st) {
		lookup, tx := bc.GetCanonicalTransaction(h)
		s.r.Count("lookups_checked", 1)
		if lookup == nil {
			p, canonical := where[h]
			if !canonical {
				s.r.Count("lookups_absent_noncanonical_tx", 1)
				continue
			}
			if s.quiescent && p.num >= s.tailBound && p.num <= st.headNum {
				s.viol("I3:canonical-tx-unresolvable", fmt.Sprintf("tx %x is in canonical block %s (index window starts at #%d, head #%d, indexer idle) but GetCanonicalTransaction finds nothing", h, st.canon[p.num], s.tailBound, st.headNum), map[string]any{"tx": h.Hex()})
			} else {
				s.r.Count("lookups_absent_outside_window", 1)
			}
			continue
		}
		s.r.Count("lookups_resolved", 1)
		n := lookup.BlockIndex
		if n >= uint64(len(st.canon)) && st.staleAbove {
			s.r.Count("lookups_into_stale_index_above_head", 1) // consequence of I1:stale-canonical-above-head
			continue
		}
		if n < uint64(len(st.canon)) && st.noReceipts[st.canon[n].hash()] {
			continue // consequence of I3:canonical-block-without-receipts
		}
		if n >= uint64(len(st.canon)) || st.canon[n].hash() != lookup.BlockHash {
			s.debugLookup(h, st)
			fp := "I3:lookup-resolves-noncanonical"
			if lookup.BlockHash != rawdb.ReadCanonicalHash(s.db, n) {
				// served from the in-memory lookup cache; the database does not resolve it this way
				fp += ":stale-cache"
				switch {
				case s.importedUnderHeaderChain:
					fp += ":import-under-header-chain-ahead" // consequence of known finding F2
				case s.lastKind == "sethead" && s.prev != nil && n < uint64(len(s.prev.canon)) && s.prev.canon[n].hash() == lookup.BlockHash:
					fp += ":sethead-races-with-reader" // SetHead purges the cache without taking txLookupLock
				}
			}
			s.viol(fp, fmt.Sprintf("tx %x resolves to block #%d %x which is not canonical", h, n, lookup.BlockHash), map[string]any{"tx": h.Hex()})
			continue
		}
		mb := st.canon[n]
		txs := mb.block.Transactions()
		if lookup.Index >= uint64(len(txs)) || txs[lookup.Index].Hash() != h || tx == nil || tx.Hash() != h {
			s.viol("I3:lookup-wrong-position", fmt.Sprintf("tx %x resolves to %s index %d which does not hold it", h, mb, lookup.Index), map[string]any{"tx": h.Hex()})
			continue
		}
		if t.txSeen[h] > 1 {
			s.r.Count("lookups_resolved_tx_in_competing_blocks", 1)
		}
		want := mb.receipts[lookup.Index]
		rc, err := bc.GetCanonicalReceipt(tx, lookup.BlockHash, n, lookup.Index)
		if err != nil || rc == nil {
			s.viol("I3:receipt-unresolvable", fmt.Sprintf("GetCanonicalReceipt(tx %x in %s): %v", h, mb, err), map[string]any{"tx": h.Hex()})
			continue
		}
		if d := sameReceipt(rc, want); d != "" {
			s.viol("I3:receipt-mismatch:"+d, fmt.Sprintf("receipt of tx %x in %s differs from the model in %s", h, mb, d), map[string]any{"tx": h.Hex()})
		}
		if rawdb.ReadTxLookupEntry(s.db, h) == nil {
			// Served from the lookup cache while the database entry was unindexed (outside the
			// window): legal unless the block is inside the required window.
			if s.quiescent && n >= s.tailBound && n <= st.headNum {
				s.viol("I3:lookup-only-in-cache", fmt.Sprintf("tx %x of %s (inside the index window) resolves from the cache but has no database entry", h, mb), map[string]any{"tx": h.Hex()})
			}
			s.r.Count("lookups_resolved_from_cache_only", 1)
			continue
		}
		rc2, bh, bn, ti := rawdb.ReadCanonicalReceipt(s.db, h, t.config)
		if rc2 == nil || bh != lookup.BlockHash || bn != n || ti != lookup.Index {
			s.viol("I3:rawdb-receipt-lookup", fmt.Sprintf("ReadCanonicalReceipt(tx %x) = (%v, %x, %d, %d), lookup says (%x, %d, %d)", h, rc2 != nil, bh, bn, ti, lookup.BlockHash, n, lookup.Index), map[string]any{"tx": h.Hex()})
		} else if d := sameReceipt(rc2, want); d != "" {
			s.viol("I3:rawdb-receipt-mismatch:"+d, fmt.Sprintf("ReadCanonicalReceipt of tx %x in %s differs from the model in %s", h, mb, d), map[string]any{"tx": h.Hex()})
		}
		s.r.Count("receipts_compared", 2)
	}
	// receipts by block for a few canonical blocks
	for n := st.headNum; n+3 > st.headNum && n > 0; n-- {
		mb := st.canon[n]
		if st.noReceipts[mb.hash()] {
			continue
		}
		rs := bc.GetReceiptsByHash(mb.hash())
		if len(rs) != len(mb.receipts) {
			s.viol("I3:block-receipts-length", fmt.Sprintf("GetReceiptsByHash(%s) has %d receipts, model %d", mb, len(rs), len(mb.receipts)), nil)
			continue
		}
		for i := range rs {
			if d := sameReceipt(rs[i], mb.receipts[i]); d != "" {
				s.viol("I3:block-receipt-mismatch:"+d, fmt.Sprintf("receipt %d of %s differs in %s", i, mb, d), nil)
			}
		}
	}
}

func concatLogs(blocks []*mblock) (out []*types.Log) {
	for _, b := range blocks {
		out = append(out, b.logs...)
	}
	return
}

func descLogs(ls []*types.Log) []string {
	var out []string
	for i, l := range ls {
		if i == 40 {
			out = append(out, "...")
			break
		}
		out = append(out, fmt.Sprintf("#%d/%x/log%d/removed=%v", l.BlockNumber, l.BlockHash.Bytes()[:4], l.Index, l.Removed))
	}
	return out
}

func merge(a, b map[string]any) map[string]any {
	out := map[string]any{}
	for k, v := range a {
		out[k] = v
	}
	for k, v := range b {
		out[k] = v
	}
	return out
}

func trunc(s string, n int) string {
	if len(s) > n {
		return s[:n]
	}
	return s
}

// checkAll is used right after opening: index, state and lookups without an operation.
func (s *sut) checkAll(what string, _ *snapshotState, _ *opResult) *snapshotState {
	st, _ := s.readIndex()
	if st == nil {
		return nil
	}
	s.reportNoReceipts(st, nil)
	s.cur = st
	s.checkState(st.canon[st.headNum])
	return st
}

var _ = core.ChainEvent{}

// lookupSample picks the transactions whose lookups are judged in this step: everything in the
// blocks whose canonical status changed in the last operation, everything in the 12 blocks
// around the index tail and below the head, plus a random sample of the whole tree.
func (s *sut) lookupSample(st *snapshotState) []common.Hash {
	seen := map[common.Hash]bool{}
	var out []common.Hash
	add := func(b *mblock) {
		for _, tx := range b.block.Transactions() {
			if !seen[tx.Hash()] {
				seen[tx.Hash()] = true
				out = append(out, tx.Hash())
			}
		}
	}
	for _, b := range s.touched {
		add(b)
	}
	for n := int(st.headNum); n > int(st.headNum)-6 && n > 0; n-- {
		add(st.canon[n])
	}
	for n := int(s.tailBound) - 6; n < int(s.tailBound)+6; n++ {
		if n > 0 && n < len(st.canon) {
			add(st.canon[n])
		}
	}
	if len(s.t.txList) > 0 {
		for i := 0; i < 120; i++ {
			s.sampleX = s.sampleX*6364136223846793005 + 1442695040888963407
			h := s.t.txList[(s.sampleX>>33)%uint64(len(s.t.txList))]
			if !seen[h] {
				seen[h] = true
				out = append(out, h)
			}
		}
	}
	return out
}

// staleIsHeaderChainLeftover classifies canonical entries found above the head header: true iff
// before the operation the header chain was ahead of the head block and every entry above the new
// head header is the old header chain's entry (the new head may lie on that chain or on another
// branch: in both cases the import extended the lower head block without invoking reorg()).
func (s *sut) staleIsHeaderChainLeftover(post *snapshotState, hdrNum uint64) bool {
	pre := s.cur
	if os.Getenv("C38_DEBUG") != "" && pre != nil {
		fmt.Printf("DEBUG stale classify: pre head block #%d header #%d, post header #%d same-chain=%v\n", pre.headNum, len(pre.canon)-1, hdrNum, hdrNum < uint64(len(pre.canon)) && pre.canon[hdrNum] == post.canon[hdrNum])
	}
	if pre == nil || uint64(len(pre.canon)-1) <= pre.headNum {
		return false
	}
	if hdrNum >= uint64(len(pre.canon)) {
		return false
	}
	for n := hdrNum + 1; n <= s.t.maxNum+3; n++ {
		hash := rawdb.ReadCanonicalHash(s.db, n)
		if hash == (common.Hash{}) {
			continue
		}
		if n >= uint64(len(pre.canon)) || pre.canon[n].hash() != hash {
			return false
		}
	}
	return true
}

// reportNoReceipts reports canonical blocks without receipts found by readIndex. adopted holds
// the blocks that, before an import, were stored without receipts while their state was
// available (known finding F3: such a block is adopted as "known" without execution).
func (s *sut) reportNoReceipts(post *snapshotState, adopted map[common.Hash]bool) {
	for _, mb := range post.noReceiptsList {
		if s.reportedNoReceipts[mb.hash()] {
			continue
		}
		s.reportedNoReceipts[mb.hash()] = true
		fp := "I3:canonical-block-without-receipts"
		if adopted[mb.hash()] {
			fp = "I3:canonical-block-without-receipts:known-block-adopted-without-execution"
		}
		s.viol(fp, fmt.Sprintf("canonical block %s has %d transactions but no stored receipts", mb, len(mb.block.Transactions())), nil)
	}
}
