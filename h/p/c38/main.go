// C38: the canonical chain index stays consistent under reorgs.
//
// A real core.BlockChain (memory key-value store + file freezer under r.Scratch, tx indexing on,
// hash and path state schemes, pre-merge and post-merge configs) is driven through random
// operation sequences (InsertChain of arbitrary tree segments, SetCanonical, SetHead,
// SetFinalized+Freeze, restart) over a random block tree produced by the chain maker. After
// every operation the monitors judge the number->hash index, head markers, head state,
// transaction/receipt lookups and the chain events emitted during the operation against the
// block-tree model. Which head the implementation chooses is not judged, only its consistency.
package main

import (
	"fmt"
	"os"
	"path/filepath"
	"strconv"
	"sync"
	"sync/atomic"

	"github.com/ethereum/go-ethereum/common"
	"github.com/ethereum/go-ethereum/core"
	"github.com/ethereum/go-ethereum/core/rawdb"
	"github.com/ethereum/go-ethereum/core/types"
	"github.com/ethereum/go-ethereum/ethdb"
	"github.com/ethereum/go-ethereum/event"

	"verif/lib/vrt"
)

func main() { vrt.Main("C38", run) }

type sut struct {
	r     *vrt.Run
	t     *tree
	idx   int
	db    ethdb.Database
	bc    *core.BlockChain
	cfg   *core.BlockChainConfig
	desc  string
	limit uint64 // tx lookup limit (0 = whole chain)

	chRm    chan core.RemovedLogsEvent
	chLogs  chan []*types.Log
	chChain chan core.ChainEvent
	chHead  chan core.ChainHeadEvent
	subs    []event.Subscription

	cur                      *snapshotState
	touched                  []*mblock
	failed                   bool
	importedUnderHeaderChain bool
	lastKind                 string
	prev                     *snapshotState
	reportedNoReceipts       map[common.Hash]bool
	sampleX                  uint64
	oplog                    []string
	restarted                bool // a restart happened in this case (signature)
	quiescent                bool
	tailBound                uint64
	stopReader               func()
}

type events struct {
	removed []*types.Log
	rmCalls int
	logs    []*types.Log
	chain   []core.ChainEvent
	heads   []core.ChainHeadEvent
}

func (s *sut) witness(extra map[string]any) map[string]any {
	w := map[string]any{"case": s.idx, "config": s.desc, "ops": append([]string{}, s.oplog...), "rerun": fmt.Sprintf("VERIF_SEED=%d VERIF_TIER=%s VERIF_ONLY=%d", s.r.Seed, s.r.Tier, s.idx)}
	for k, v := range extra {
		w[k] = v
	}
	return w
}

func (s *sut) viol(fp, msg string, extra map[string]any) {
	// After a violation that leaves the database in an inconsistent state the rest of the case
	// would only report consequences of it: the case stops (pure event omissions excepted).
	if fp != "I4:known-block-reimport:added-logs-not-emitted" { // F1 leaves the database consistent
		s.failed = true
	}
	s.r.Violation(fp, fmt.Sprintf("case %d (%s) after op %q: %s", s.idx, s.desc, s.lastOp(), msg), s.witness(extra))
}

func (s *sut) lastOp() string {
	if len(s.oplog) == 0 {
		return "open"
	}
	return s.oplog[len(s.oplog)-1]
}

func (s *sut) open() error {
	bc, err := core.NewBlockChain(s.db, s.t.gspec, s.t.engine, s.cfg)
	if err != nil {
		return err
	}
	s.bc = bc
	s.chRm = make(chan core.RemovedLogsEvent, 4096)
	s.chLogs = make(chan []*types.Log, 4096)
	s.chChain = make(chan core.ChainEvent, 4096)
	s.chHead = make(chan core.ChainHeadEvent, 4096)
	s.subs = []event.Subscription{
		bc.SubscribeRemovedLogsEvent(s.chRm),
		bc.SubscribeLogsEvent(s.chLogs),
		bc.SubscribeChainEvent(s.chChain),
		bc.SubscribeChainHeadEvent(s.chHead),
	}
	return nil
}

func (s *sut) close() {
	if s.bc == nil {
		return
	}
	for _, sub := range s.subs {
		sub.Unsubscribe()
	}
	s.bc.Stop()
}

// drain collects the events delivered so far. All BlockChain feeds are sent synchronously
// from the goroutine executing the operation (event.Feed.Send blocks until every subscriber
// channel accepted the value; our channels are buffered far beyond what one operation emits),
// hence after the operation returned everything it emitted sits in the channel buffers.
func (s *sut) drain() *events {
	ev := &events{}
	for {
		select {
		case e := <-s.chRm:
			ev.rmCalls++
			ev.removed = append(ev.removed, e.Logs...)
		case l := <-s.chLogs:
			ev.logs = append(ev.logs, l...)
		case c := <-s.chChain:
			ev.chain = append(ev.chain, c)
		case h := <-s.chHead:
			ev.heads = append(ev.heads, h)
		default:
			return ev
		}
	}
}

// startReader runs concurrent readers of the public lookup API while an operation executes.
// Their results are not judged (any view is legal mid-operation); they exist for the race
// detector and for panics.
func (s *sut) startReader(seed int64) {
	var stop atomic.Bool
	var wg sync.WaitGroup
	hashes := make([]common.Hash, 0, 64)
	for h := range s.t.txs {
		hashes = append(hashes, h)
		if len(hashes) == 64 {
			break
		}
	}
	bc := s.bc
	max := s.t.maxNum
	wg.Add(1)
	go func() {
		defer wg.Done()
		x := uint64(seed)*2862933555777941757 + 3037000493
		for i := 0; !stop.Load() && i < 4000; i++ {
			x = x*6364136223846793005 + 1442695040888963407
			n := (x >> 33) % (max + 2)
			switch (x >> 20) % 6 {
			case 0:
				if b := bc.GetBlockByNumber(n); b != nil {
					bc.GetReceiptsByHash(b.Hash())
				}
			case 1:
				bc.CurrentBlock()
				bc.CurrentHeader()
			case 2:
				if len(hashes) > 0 {
					bc.GetCanonicalTransaction(hashes[int(n)%len(hashes)])
				}
			case 3:
				bc.GetHeaderByNumber(n)
			case 4:
				bc.GetCanonicalHash(n)
			case 5:
				bc.TxIndexProgress()
			}
		}
	}()
	s.stopReader = func() { stop.Store(true); wg.Wait() }
}

func run(r *vrt.Run) {
	r.Rule("case = random block tree (trunk + forks from random fork points incl. forks of forks and equal-height competitors, 0-6 log-emitting / reverting / plain transactions per block, competing blocks sharing transactions) x chain config (state scheme hash|path, snapshots, archive, pre|post-merge, tx lookup limit 0|8|40) x random operation sequence (InsertChain of tree segments in order / with known prefix / gapped / shuffled, SetCanonical, SetHead, SetFinalized+Freeze, restart); every operation is one evaluation; non-trivial signature = (op kind, outcome class, reorg drop-depth bucket, add-depth bucket, equal height, scheme, merged, after restart)")
	nCases := r.N(40, 2500)
	nOps := r.N(15, 25)
	if r.Race() {
		nCases = r.N(7, 150)
	}
	only := -1
	if v := os.Getenv("VERIF_ONLY"); v != "" {
		only, _ = strconv.Atoi(v)
	}
	workers := 0
	if r.Race() {
		workers = 4
	}
	if only >= 0 {
		runCase(r, only, nOps) // replay of a single case (see "rerun" in witnesses)
	} else {
		vrt.Par(nCases, workers, func(i int) { runCase(r, i, nOps) })
	}
	if only < 0 {
		q := int64(1)
		if r.Race() {
			q = 10 // the race variant runs a sixth of the cases; coverage is carried by the default variant
		}
		r.Require("ops_insert_reorg", 20/q)
		r.Require("ops_setcanonical_reorg", 10/q)
		r.Require("ops_sethead_rewind", 10/q)
		r.Require("ops_restart", 10/q)
		r.Require("removed_logs_compared", 100/q)
		r.Require("lookups_checked", 1000/q)
		r.Require("index_quiescent_steps", 100/q)
	}
	r.Assume("block tree, receipts and logs of the model come from core.GenerateChain (chain maker + state transition), which shares no code with BlockChain's index, reorg, rewind and event logic; import re-validates every block against it")
	r.Assume("SetHead is judged only for index/marker/state consistency and its ChainHeadEvent (it emits no removed-log events by design); removed logs are expected in ascending block order as documented in core/blockchain.go:reorg")
}

func runCase(r *vrt.Run, idx int, nOps int) {
	rng := r.Rand("case", idx)
	merged := rng.Intn(2) == 0
	t := newTree(merged)
	// ----- tree -----
	total := 10 + rng.Intn(111)
	trunk := 5 + rng.Intn(total-4)
	if trunk > 90 {
		trunk = 90
	}
	t.extend(rng, t.genesis, trunk)
	tips := []*mblock{t.all[len(t.all)-1]}
	for len(t.all)-1 < total {
		fp := t.all[rng.Intn(len(t.all))]
		if rng.Intn(3) == 0 { // shallow fork near a tip
			tip := tips[rng.Intn(len(tips))]
			d := uint64(1 + rng.Intn(6))
			if d > tip.num {
				d = tip.num
			}
			fp = ancestorAt(tip, tip.num-d)
		}
		n := 1 + rng.Intn(40)
		if rng.Intn(3) == 0 { // equal-height competitor of some tip
			tip := tips[rng.Intn(len(tips))]
			if tip.num > fp.num {
				n = int(tip.num - fp.num)
			}
		}
		if rem := total - (len(t.all) - 1); n > rem {
			n = rem
		}
		nb := t.extend(rng, fp, n)
		tips = append(tips, nb[len(nb)-1])
	}
	// ----- chain under test -----
	s := &sut{r: r, t: t, idx: idx, reportedNoReceipts: map[common.Hash]bool{}}
	dir := filepath.Join(r.Scratch, fmt.Sprintf("c38-%d", idx))
	os.MkdirAll(dir, 0o755)
	defer os.RemoveAll(dir)
	db, err := rawdb.Open(rawdb.NewMemoryDatabase(), rawdb.OpenOptions{Ancient: filepath.Join(dir, "ancient")})
	if err != nil {
		r.Inconclusive("cannot open database: %v", err)
		return
	}
	defer db.Close()
	s.db = db
	cfg := core.DefaultConfig()
	scheme := rawdb.HashScheme
	if rng.Intn(2) == 0 {
		scheme = rawdb.PathScheme
	}
	cfg.StateScheme = scheme
	cfg.TrieCleanLimit = 4 // MB; the defaults make every instance mmap and fault in large caches
	cfg.SnapshotLimit = 4
	if scheme == rawdb.HashScheme {
		if rng.Intn(3) == 0 {
			cfg.SnapshotLimit = 0
		}
		if rng.Intn(4) == 0 {
			cfg.ArchiveMode = true
		}
	}
	cfg.TxLookupLimit = []int64{0, 8, 40}[rng.Intn(3)]
	s.limit = uint64(cfg.TxLookupLimit)
	s.cfg = cfg
	s.desc = fmt.Sprintf("scheme=%s merged=%v snaps=%v archive=%v txlimit=%d blocks=%d", scheme, merged, cfg.SnapshotLimit > 0, cfg.ArchiveMode, cfg.TxLookupLimit, len(t.all)-1)
	r.Case("case %d %s open", idx, s.desc)
	if err := s.open(); err != nil {
		s.viol("open:error", err.Error(), nil)
		return
	}
	defer func() { s.close() }()
	if c := s.checkAll("open", nil, nil); c == nil {
		return
	}
	for op := 0; op < nOps; op++ {
		if !s.step(rng, op) || s.failed {
			return
		}
	}
	if r.WantSample() {
		r.Sample(map[string]any{"case": idx, "config": s.desc, "ops": s.oplog})
	}
}

func bucket(n int) string {
	switch {
	case n == 0:
		return "0"
	case n == 1:
		return "1"
	case n <= 4:
		return "2-4"
	case n <= 16:
		return "5-16"
	default:
		return "17+"
	}
}
