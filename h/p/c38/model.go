package main

import (
	"crypto/ecdsa"
	"encoding/binary"
	"fmt"
	"math/big"
	"math/rand"

	"github.com/ethereum/go-ethereum/common"
	"github.com/ethereum/go-ethereum/consensus"
	"github.com/ethereum/go-ethereum/consensus/beacon"
	"github.com/ethereum/go-ethereum/consensus/ethash"
	"github.com/ethereum/go-ethereum/core"
	"github.com/ethereum/go-ethereum/core/rawdb"
	"github.com/ethereum/go-ethereum/core/types"
	"github.com/ethereum/go-ethereum/crypto"
	"github.com/ethereum/go-ethereum/ethdb"
	"github.com/ethereum/go-ethereum/params"
	"github.com/ethereum/go-ethereum/triedb"

	"verif/lib/logemit"
)

// The block-tree model: every block ever generated for a case, with parent links, its
// transactions, receipts and logs (as produced by the chain maker, which executes the same
// state transition but shares none of the BlockChain index/reorg/event code).

type mblock struct {
	block    *types.Block
	receipts types.Receipts
	parent   *mblock
	num      uint64
	logs     []*types.Log // flattened, derived fields set
	// model state after this block
	nonces  []uint64 // per sender
	counter []uint64 // per emitter: number of successful calls
}

func (b *mblock) hash() common.Hash { return b.block.Hash() }

type tree struct {
	merged  bool
	config  *params.ChainConfig
	engine  consensus.Engine
	gspec   *core.Genesis
	gendb   ethdb.Database // generator database: holds the state of every generated block (hash scheme, all nodes)
	genesis *mblock
	all     []*mblock // all[0] = genesis
	byHash  map[common.Hash]*mblock
	keys    []*ecdsa.PrivateKey
	addrs   []common.Address
	emit    []common.Address
	signer  types.Signer
	txs     map[common.Hash]*types.Transaction // every transaction of the tree
	txSeen  map[common.Hash]int                // number of blocks containing it
	txList  []common.Hash
	maxNum  uint64
}

var (
	topicPool = func() []common.Hash {
		var t []common.Hash
		for i := 0; i < 5; i++ {
			t = append(t, crypto.Keccak256Hash([]byte{byte(i), 'T'}))
		}
		return t
	}()
)

func newTree(merged bool) *tree {
	t := &tree{merged: merged, byHash: map[common.Hash]*mblock{}, txs: map[common.Hash]*types.Transaction{}, txSeen: map[common.Hash]int{}}
	var cfg params.ChainConfig
	if merged {
		cfg = *params.MergedTestChainConfig
		t.engine = beacon.New(ethash.NewFaker())
	} else {
		cfg = *params.TestChainConfig
		t.engine = ethash.NewFaker()
	}
	t.config = &cfg
	t.signer = types.LatestSigner(t.config)
	alloc := types.GenesisAlloc{}
	for i := 0; i < 5; i++ {
		k, _ := crypto.ToECDSA(crypto.Keccak256([]byte{byte(i), 'k', 'e', 'y'}))
		t.keys = append(t.keys, k)
		a := crypto.PubkeyToAddress(k.PublicKey)
		t.addrs = append(t.addrs, a)
		alloc[a] = types.Account{Balance: new(big.Int).Lsh(big.NewInt(1), 90)}
	}
	for i := 0; i < 2; i++ {
		a := common.BytesToAddress([]byte{0xee, byte(i + 1)})
		t.emit = append(t.emit, a)
		alloc[a] = types.Account{Code: logemit.Code(), Balance: big.NewInt(1)}
	}
	if merged {
		alloc[params.BeaconRootsAddress] = types.Account{Code: params.BeaconRootsCode, Balance: big.NewInt(1)}
		alloc[params.HistoryStorageAddress] = types.Account{Code: params.HistoryStorageCode, Balance: big.NewInt(1)}
		alloc[params.WithdrawalQueueAddress] = types.Account{Code: params.WithdrawalQueueCode, Balance: big.NewInt(1)}
		alloc[params.ConsolidationQueueAddress] = types.Account{Code: params.ConsolidationQueueCode, Balance: big.NewInt(1)}
	}
	t.gspec = &core.Genesis{Config: t.config, GasLimit: 30_000_000, BaseFee: big.NewInt(params.InitialBaseFee), Alloc: alloc}
	if merged {
		t.gspec.Difficulty = common.Big0
	}
	t.gendb = rawdb.NewMemoryDatabase()
	tdb := triedb.NewDatabase(t.gendb, triedb.HashDefaults)
	gb, err := t.gspec.Commit(t.gendb, tdb, nil)
	if err != nil {
		panic(err)
	}
	tdb.Close()
	g := &mblock{block: gb, num: 0, nonces: make([]uint64, len(t.keys)), counter: make([]uint64, len(t.emit))}
	t.genesis = g
	t.all = []*mblock{g}
	t.byHash[gb.Hash()] = g
	return t
}

// txFor builds the transaction of (sender, nonce, variant): its content is a pure function of
// these three values, hence competing blocks that pick the same variant carry the same
// transaction (same hash).
func (t *tree) txFor(sender int, nonce uint64, variant int, baseFee *big.Int) (*types.Transaction, int, bool) {
	var seed [8]byte
	binary.LittleEndian.PutUint64(seed[:], uint64(sender)<<40|nonce<<8|uint64(variant))
	rng := rand.New(rand.NewSource(int64(binary.LittleEndian.Uint64(crypto.Keccak256(seed[:])[:8]) >> 1)))
	em := rng.Intn(len(t.emit))
	kind := rng.Intn(10)
	var recs []logemit.Record
	revert := false
	switch {
	case kind == 0: // plain value transfer, no logs
		tx := types.MustSignNewTx(t.keys[sender], t.signer, &types.LegacyTx{Nonce: nonce, To: &t.addrs[(sender+1)%len(t.addrs)], Value: big.NewInt(int64(1 + rng.Intn(1000))), Gas: 21000, GasPrice: big.NewInt(200 * params.GWei)})
		return tx, -1, false
	case kind == 1: // reverting call: logs emitted before the revert must not appear anywhere
		revert = true
		fallthrough
	default:
		for n := rng.Intn(4); n >= 0; n-- {
			rec := logemit.Record{}
			for k := rng.Intn(4); k > 0; k-- {
				rec.Topics = append(rec.Topics, topicPool[rng.Intn(len(topicPool))])
			}
			rec.Data = make([]byte, rng.Intn(40))
			rng.Read(rec.Data)
			recs = append(recs, rec)
		}
		if kind == 2 {
			recs = nil // successful call without logs
		}
	}
	data := logemit.Encode(recs, revert)
	gas := logemit.Gas(recs, revert)
	var inner types.TxData
	if t.merged && rng.Intn(2) == 0 {
		inner = &types.DynamicFeeTx{ChainID: t.config.ChainID, Nonce: nonce, To: &t.emit[em], Gas: gas, GasFeeCap: big.NewInt(200 * params.GWei), GasTipCap: big.NewInt(int64(1+rng.Intn(5)) * params.GWei), Data: data}
	} else {
		inner = &types.LegacyTx{Nonce: nonce, To: &t.emit[em], Gas: gas, GasPrice: big.NewInt(200 * params.GWei), Data: data}
	}
	return types.MustSignNewTx(t.keys[sender], t.signer, inner), em, !revert
}

// extend generates n blocks on top of parent and adds them to the tree. Returns the new nodes.
func (t *tree) extend(rng *rand.Rand, parent *mblock, n int) []*mblock {
	type meta struct {
		nonces  []uint64
		counter []uint64
	}
	metas := make([]meta, n)
	cur := meta{append([]uint64{}, parent.nonces...), append([]uint64{}, parent.counter...)}
	blocks, receipts := core.GenerateChain(t.config, parent.block, t.engine, t.gendb, n, func(i int, b *core.BlockGen) {
		var extra [6]byte
		rng.Read(extra[:])
		b.SetExtra(extra[:]) // makes every generated block distinct even when otherwise identical
		b.SetCoinbase(common.BytesToAddress([]byte{0xc0, byte(rng.Intn(3))}))
		if rng.Intn(4) == 0 {
			b.OffsetTime(int64(rng.Intn(20)))
		}
		ntx := 0
		if rng.Intn(5) != 0 {
			ntx = 1 + rng.Intn(6)
		}
		for j := 0; j < ntx; j++ {
			s := rng.Intn(len(t.keys))
			// variant 0 with probability 3/4: competing blocks mostly share transactions
			variant := 0
			if rng.Intn(4) == 0 {
				variant = 1 + rng.Intn(2)
			}
			tx, em, ok := t.txFor(s, cur.nonces[s], variant, b.BaseFee())
			b.AddTx(tx)
			cur.nonces[s]++
			if em >= 0 && ok {
				cur.counter[em]++
			}
		}
		if t.merged && rng.Intn(4) == 0 {
			b.AddWithdrawal(&types.Withdrawal{Validator: uint64(rng.Intn(100)), Address: t.addrs[rng.Intn(len(t.addrs))], Amount: uint64(1 + rng.Intn(1000))})
		}
		metas[i] = meta{append([]uint64{}, cur.nonces...), append([]uint64{}, cur.counter...)}
	})
	var out []*mblock
	p := parent
	for i, b := range blocks {
		if _, dup := t.byHash[b.Hash()]; dup {
			panic("duplicate generated block")
		}
		mb := &mblock{block: b, receipts: receipts[i], parent: p, num: b.NumberU64(), nonces: metas[i].nonces, counter: metas[i].counter}
		for _, r := range receipts[i] {
			mb.logs = append(mb.logs, r.Logs...)
		}
		for _, tx := range b.Transactions() {
			if _, ok := t.txs[tx.Hash()]; !ok {
				t.txList = append(t.txList, tx.Hash())
			}
			t.txs[tx.Hash()] = tx
			t.txSeen[tx.Hash()]++
		}
		t.byHash[b.Hash()] = mb
		t.all = append(t.all, mb)
		if mb.num > t.maxNum {
			t.maxNum = mb.num
		}
		out = append(out, mb)
		p = mb
	}
	return out
}

// path returns the blocks from (excluding) ancestor anc down to b, ascending.
func path(anc, b *mblock) []*mblock {
	var out []*mblock
	for x := b; x != nil && x != anc; x = x.parent {
		out = append(out, x)
	}
	for i, j := 0, len(out)-1; i < j; i, j = i+1, j-1 {
		out[i], out[j] = out[j], out[i]
	}
	return out
}

// ancestorAt returns the ancestor of b (or b) with the given number.
func ancestorAt(b *mblock, num uint64) *mblock {
	for b != nil && b.num > num {
		b = b.parent
	}
	return b
}

func isAncestor(a, b *mblock) bool { return ancestorAt(b, a.num) == a }

func (b *mblock) String() string {
	return fmt.Sprintf("#%d[%x]", b.num, b.hash().Bytes()[:4])
}
