package main

import (
	"fmt"
	"math/rand"
	"os"
	"time"

	"github.com/ethereum/go-ethereum/common"
	"github.com/ethereum/go-ethereum/core/rawdb"
	"github.com/ethereum/go-ethereum/core/types"
)

type opResult struct {
	kind                  string
	err                   error
	mustFail              bool      // contract: error, no side effects, no events
	seg                   []*mblock // insert: submitted blocks
	silentOK              map[common.Hash]bool
	storedWithoutReceipts map[common.Hash]bool // known with state but stored without receipts before the import
	target                *mblock              // setcanonical
	n                     uint64               // sethead
	fin                   *mblock
	froze                 bool
	subkind               string
	restarted             bool
}

type snapshotState struct {
	canon     []*mblock // index = number, up to the head header
	headNum   uint64    // head block number
	finalHash common.Hash

	staleAbove     bool                 // canonical hashes exist above the head header (reported once per step)
	noReceipts     map[common.Hash]bool // canonical blocks whose receipts are missing
	noReceiptsList []*mblock
}

func (s *sut) known(b *mblock) bool { return s.bc.GetBlockByHash(b.hash()) != nil }

// allowed reports whether b may be made canonical without reorganising frozen (finalized and
// moved to the ancient store) blocks. Reorgs below the freezer boundary are outside the
// contract of BlockChain (ancient data is immutable); the workload never attempts them.
func (s *sut) allowed(b *mblock, pre *snapshotState) bool {
	frozen, _ := s.db.Ancients()
	if frozen <= 1 {
		return true
	}
	fl := frozen - 1
	if fl >= uint64(len(pre.canon)) {
		fl = uint64(len(pre.canon)) - 1
	}
	return b.num >= fl && ancestorAt(b, fl) == pre.canon[fl]
}

func (s *sut) step(rng *rand.Rand, opi int) bool {
	if os.Getenv("C38_DEBUG") != "" {
		t0 := time.Now()
		defer func() {
			if d := time.Since(t0); d > 500*time.Millisecond {
				fmt.Printf("SLOW case %d op %q took %v\n", s.idx, s.lastOp(), d)
			}
		}()
	}
	pre := s.cur
	tStart := time.Now()
	t := s.t
	var res opResult
	k := rng.Intn(100)
	if opi == 0 {
		k = 0 // always start with an import
	}
	switch {
	case k < 50: // ---------------- InsertChain
		res.kind = "insert"
		var b *mblock
		for try := 0; try < 50; try++ {
			b = t.all[1+rng.Intn(len(t.all)-1)]
			if s.allowed(b, pre) {
				break
			}
			b = nil
		}
		if b == nil {
			return true
		}
		// nearest ancestor known to the chain
		a := b
		for a.num > 0 && !s.known(a) {
			a = a.parent
		}
		seg := path(a, b)
		res.subkind = "inorder"
		// include some already known blocks in front
		if rng.Intn(3) == 0 || len(seg) == 0 {
			back := 1 + rng.Intn(5)
			for i := 0; i < back && a.num > 0 && s.allowed(a, pre); i++ {
				seg = append([]*mblock{a}, seg...)
				a = a.parent
			}
			res.subkind = "knownprefix"
		}
		if len(seg) == 0 {
			return true
		}
		// sometimes only a prefix of the path
		if len(seg) > 1 && rng.Intn(3) == 0 {
			seg = seg[:1+rng.Intn(len(seg))]
		}
		switch m := rng.Intn(12); {
		case m == 0 && len(seg) >= 2 && !s.known(seg[0]) && seg[0].num > 0:
			// gap: drop the first unknown block, the rest has an unknown ancestor
			seg = seg[1:]
			res.subkind = "gap"
			res.mustFail = true
		case m == 1 && len(seg) >= 2:
			i := rng.Intn(len(seg) - 1)
			j := i + 1 + rng.Intn(len(seg)-i-1)
			seg = append([]*mblock{}, seg...)
			seg[i], seg[j] = seg[j], seg[i]
			res.subkind = "shuffled"
			res.mustFail = true
		}
		res.seg = seg
		res.silentOK = map[common.Hash]bool{}
		res.storedWithoutReceipts = s.storedWithoutReceipts()
		blocks := make(types.Blocks, len(seg))
		for i, mb := range seg {
			blocks[i] = mb.block
		}
		// Blocks that are known together with their state may be adopted without re-execution
		// (writeKnownBlock); that includes ancestors re-imported by the side-chain path.
		for _, mb := range t.all[1:] {
			if s.bc.HasBlockAndState(mb.hash(), mb.num) {
				res.silentOK[mb.hash()] = true
			}
		}
		s.logop("InsertChain(%s %s..%s n=%d)", res.subkind, seg[0], seg[len(seg)-1], len(seg))
		s.startReader(int64(opi))
		_, res.err = s.bc.InsertChain(blocks)
		s.stopReader()
	case k < 68: // ---------------- SetCanonical
		res.kind = "setcanonical"
		var b *mblock
		for try := 0; try < 80; try++ {
			c := t.all[1+rng.Intn(len(t.all)-1)]
			if s.known(c) && s.allowed(c, pre) {
				b = c
				break
			}
		}
		if b == nil {
			return true
		}
		res.target = b
		res.storedWithoutReceipts = s.storedWithoutReceipts()
		s.logop("SetCanonical(%s)", b)
		blk := s.bc.GetBlockByHash(b.hash())
		s.startReader(int64(opi))
		_, res.err = s.bc.SetCanonical(blk)
		s.stopReader()
	case k < 82: // ---------------- SetHead
		res.kind = "sethead"
		hh := uint64(len(pre.canon) - 1)
		var n uint64
		switch rng.Intn(4) {
		case 0:
			n = uint64(rng.Intn(int(hh) + 2))
		case 1:
			n = 0
			if rng.Intn(2) == 0 {
				n = hh + 1
			}
		default:
			d := uint64(rng.Intn(8))
			if d > hh {
				d = hh
			}
			n = hh - d
		}
		res.n = n
		s.logop("SetHead(%d)", n)
		s.startReader(int64(opi))
		res.err = s.bc.SetHead(n)
		s.stopReader()
	case k < 90: // ---------------- SetFinalized (+ Freeze)
		res.kind = "finalize"
		if pre.headNum == 0 {
			return true
		}
		f := pre.canon[1+rng.Intn(int(pre.headNum))]
		res.fin = f
		s.logop("SetFinalized(%s)+Freeze", f)
		s.bc.SetFinalized(f.block.Header())
		// The background freezer would pick the finalized marker up on its one-minute timer;
		// trigger the cycle explicitly so that its effect is deterministic.
		if fr, ok := s.db.(interface{ Freeze() error }); ok {
			if err := fr.Freeze(); err == nil {
				res.froze = true
			}
		}
	default: // ---------------- restart
		res.kind = "restart"
		s.logop("restart")
		s.close()
		if err := s.open(); err != nil {
			s.viol("I5:reopen-error", err.Error(), nil)
			// reopen a usable instance is impossible; stop the case
			s.bc = nil
			return false
		}
		s.restarted = true
	}
	ev := s.drain()
	if os.Getenv("C38_DEBUG") != "" {
		fmt.Printf("OPTIME case %d op %q exec %v\n", s.idx, s.lastOp(), time.Since(tStart))
	}
	return s.judge(pre, &res, ev)
}

func (s *sut) logop(format string, a ...any) {
	op := fmt.Sprintf(format, a...)
	s.oplog = append(s.oplog, op)
	s.r.Case("case %d (%s) op %d: %s   [VERIF_ONLY=%d]", s.idx, s.desc, len(s.oplog), op, s.idx)
}

// storedWithoutReceipts returns the tree blocks that are present in the database with
// transactions but without receipts (left behind by insertSideChain -> writeBlockWithoutState,
// which expects them to be executed later).
func (s *sut) storedWithoutReceipts() map[common.Hash]bool {
	out := map[common.Hash]bool{}
	for _, mb := range s.t.all[1:] {
		if len(mb.block.Transactions()) > 0 && rawdb.HasBody(s.db, mb.hash(), mb.num) && len(rawdb.ReadRawReceipts(s.db, mb.hash(), mb.num)) == 0 {
			out[mb.hash()] = true
		}
	}
	return out
}
