package main

import (
	"fmt"
	"github.com/ethereum/go-ethereum/common"
	"os"
	"runtime/pprof"
	"time"

	"github.com/ethereum/go-ethereum/core/rawdb"
)

func (s *sut) debugIndex(st *snapshotState) {
	if os.Getenv("C38_DEBUG") == "" {
		return
	}
	tail := rawdb.ReadTxIndexTail(s.db)
	p, _ := s.bc.TxIndexProgress()
	t := "nil"
	if tail != nil {
		t = fmt.Sprint(*tail)
	}
	fmt.Printf("DEBUG after %q: head=%d hdr=%d dbtail=%s progress=%+v quiescent=%v bound=%d\n", s.lastOp(), st.headNum, len(st.canon)-1, t, p, s.quiescent, s.tailBound)
	for _, mb := range st.canon {
		missing := 0
		for _, tx := range mb.block.Transactions() {
			if rawdb.ReadTxLookupEntry(s.db, tx.Hash()) == nil {
				missing++
			}
		}
		if missing > 0 {
			fmt.Printf("   block %s: %d/%d lookups missing in db\n", mb, missing, len(mb.block.Transactions()))
		}
	}
}

func init() {
	if f := os.Getenv("C38_PROF"); f != "" {
		fh, _ := os.Create(f)
		pprof.StartCPUProfile(fh)
		go func() {
			time.Sleep(25 * time.Second)
			pprof.StopCPUProfile()
			fh.Close()
		}()
	}
}

func (s *sut) debugLookup(h common.Hash, st *snapshotState) {
	if os.Getenv("C38_DEBUG") == "" {
		return
	}
	n := rawdb.ReadTxLookupEntry(s.db, h)
	fmt.Printf("DEBUG lookup %x: db entry=%v", h[:4], n)
	if n != nil {
		ch := rawdb.ReadCanonicalHash(s.db, *n)
		fmt.Printf(" canonical[%d]=%x headBlock=%d headHeader=%d", *n, ch[:4], st.headNum, len(st.canon)-1)
		if *n < uint64(len(st.canon)) {
			fmt.Printf(" model canon=%s", st.canon[*n])
		}
	}
	l, _ := s.bc.GetCanonicalTransaction(h)
	if l != nil {
		fmt.Printf(" api: #%d %x idx %d", l.BlockIndex, l.BlockHash[:4], l.Index)
	}
	fmt.Println()
}
