package main

import (
	"fmt"
	"os"
	"runtime/pprof"
	"time"

	"github.com/ethereum/go-ethereum/core/rawdb"
)

func (s *sut) debugIndex(st *snapshotState) {
	if os.Getenv("C38_DEBUG") == "" {
		return
	}
	tail := rawdb.ReadTxIndexTail(s.db)
	p, _ := s.bc.TxIndexProgress()
	t := "nil"
	if tail != nil {
		t = fmt.Sprint(*tail)
	}
	fmt.Printf("DEBUG after %q: head=%d hdr=%d dbtail=%s progress=%+v quiescent=%v bound=%d\n", s.lastOp(), st.headNum, len(st.canon)-1, t, p, s.quiescent, s.tailBound)
	for _, mb := range st.canon {
		missing := 0
		for _, tx := range mb.block.Transactions() {
			if rawdb.ReadTxLookupEntry(s.db, tx.Hash()) == nil {
				missing++
			}
		}
		if missing > 0 {
			fmt.Printf("   block %s: %d/%d lookups missing in db\n", mb, missing, len(mb.block.Transactions()))
		}
	}
}

func init() {
	if f := os.Getenv("C38_PROF"); f != "" {
		fh, _ := os.Create(f)
		pprof.StartCPUProfile(fh)
		go func() {
			time.Sleep(25 * time.Second)
			pprof.StopCPUProfile()
			fh.Close()
		}()
	}
}
