package main

import (
	"fmt"

	"github.com/ethereum/go-ethereum/common"
	"github.com/ethereum/go-ethereum/core/rawdb"
	"github.com/ethereum/go-ethereum/core/types"
)

// matchAdded matches the emitted (non-removed) logs against the blocks in announce, in order.
// Blocks in silentOK may be skipped (adopted without re-execution). Returns the number of logs
// consumed, the skipped blocks that have logs, and a mismatch description ("" = match).
func matchAdded(got []*types.Log, announce []*mblock, silentOK map[common.Hash]bool) (int, []*mblock, string) {
	gi := 0
	var silent []*mblock
	for _, b := range announce {
		match := gi+len(b.logs) <= len(got)
		if match {
			for j, l := range b.logs {
				if sameLog(got[gi+j], l, false) != "" {
					match = false
					break
				}
			}
		}
		if match {
			gi += len(b.logs)
			continue
		}
		if silentOK[b.hash()] {
			silent = append(silent, b)
			continue
		}
		return gi, silent, fmt.Sprintf("logs of added block %s (%d logs) not found at position %d of the %d emitted logs", b, len(b.logs), gi, len(got))
	}
	if gi != len(got) {
		return gi, silent, fmt.Sprintf("%d extra logs emitted beyond the added segment", len(got)-gi)
	}
	return gi, silent, ""
}

type candidate struct {
	announce []*mblock
	silent   []*mblock
	consumed int
	f, vi    int
}

// chainEventsFit reports whether the emitted chain events are an ascending subsequence of announce.
func chainEventsFit(ev *events, announce []*mblock) bool {
	ai := 0
	for _, ce := range ev.chain {
		h := ce.Header.Hash()
		for ai < len(announce) && announce[ai].hash() != h {
			ai++
		}
		if ai == len(announce) {
			return false
		}
		ai++
	}
	return true
}

func matchRemoved(got []*types.Log, dropped []*mblock, noReceipts map[common.Hash]bool) string {
	gi := 0
	for _, b := range dropped {
		match := gi+len(b.logs) <= len(got)
		if match {
			for j, l := range b.logs {
				if sameLog(got[gi+j], l, true) != "" {
					match = false
					break
				}
			}
		}
		if match {
			gi += len(b.logs)
			continue
		}
		if noReceipts[b.hash()] && len(got) >= gi {
			continue
		}
		return fmt.Sprintf("logs of dropped block %s (%d logs) not found at position %d of the %d removed logs (ascending order, Removed flag set)", b, len(b.logs), gi, len(got))
	}
	if gi != len(got) {
		return fmt.Sprintf("%d removed logs emitted beyond the %d dropped blocks", len(got)-gi, len(dropped))
	}
	return ""
}

// judge evaluates one executed operation.
func (s *sut) judge(pre *snapshotState, res *opResult, ev *events) bool {
	r := s.r
	post, ok := s.readIndex()
	if post == nil {
		r.Eval("")
		return false
	}
	s.reportNoReceipts(post, res.storedWithoutReceipts)
	s.prev = pre
	s.cur = post
	r.Count("ops_"+res.kind, 1)
	errs := ""
	if res.err != nil {
		errs = res.err.Error()
	}
	O := pre.canon[:pre.headNum+1]
	N := post.canon[:post.headNum+1]
	if res.kind == "restart" {
		s.importedUnderHeaderChain = false // fresh lookup cache
	}
	if (res.kind == "insert" || res.kind == "setcanonical") && uint64(len(pre.canon)-1) > pre.headNum && O[len(O)-1] != N[len(N)-1] {
		// imported while the header chain was ahead of the head block: reorg() (which cleans the
		// index above the head and purges the lookup cache) is not necessarily invoked (known finding F2)
		s.importedUnderHeaderChain = true
	}
	s.lastKind = res.kind
	fork := 0
	for fork+1 < len(O) && fork+1 < len(N) && O[fork+1] == N[fork+1] {
		fork++
	}
	newHead := N[len(N)-1]
	headChanged := O[len(O)-1] != newHead
	w := map[string]any{"old_head": O[len(O)-1].String(), "new_head": newHead.String(), "fork": O[fork].String(), "dropped": len(O) - 1 - fork, "added": len(N) - 1 - fork, "err": errs}
	outcome := "ok"
	if res.err != nil {
		outcome = "err"
	}
	detour, reannounced := false, false

	noEvents := func(what string) {
		if len(ev.removed) > 0 {
			s.viol("I4:"+what+":unexpected-removed-logs", fmt.Sprintf("%d removed logs emitted", len(ev.removed)), w)
		}
		if len(ev.logs) > 0 {
			s.viol("I4:"+what+":unexpected-logs", fmt.Sprintf("%d logs emitted", len(ev.logs)), w)
		}
		if len(ev.chain) > 0 {
			s.viol("I4:"+what+":unexpected-chain-event", fmt.Sprintf("%d chain events emitted", len(ev.chain)), w)
		}
	}
	unchanged := func(what string) {
		if headChanged || len(pre.canon) != len(post.canon) || pre.canon[len(pre.canon)-1] != post.canon[len(post.canon)-1] {
			s.viol("I1:"+what+":side-effect", fmt.Sprintf("canonical chain changed: head block %s -> %s, head header %s -> %s", O[len(O)-1], newHead, pre.canon[len(pre.canon)-1], post.canon[len(post.canon)-1]), w)
		}
	}

	switch res.kind {
	case "insert", "setcanonical":
		if res.mustFail {
			r.Count("insert_mustfail_"+res.subkind, 1)
			outcome = "rejected"
			if res.err == nil {
				s.viol("I1:insert-"+res.subkind+":accepted", "InsertChain accepted a segment that is not importable ("+res.subkind+")", w)
			}
			unchanged("insert-" + res.subkind)
			noEvents("insert-" + res.subkind)
			if len(ev.heads) > 0 {
				s.viol("I4:insert-"+res.subkind+":unexpected-head-event", "chain head event emitted by a rejected import", w)
			}
			break
		}
		if res.err != nil {
			r.Count("ops_"+res.kind+"_error", 1)
			r.Count("err:"+res.kind+":"+trunc(errs, 60), 1)
		}
		if res.kind == "setcanonical" && res.err == nil && newHead != res.target {
			s.viol("I1:setcanonical-head", fmt.Sprintf("SetCanonical(%s) returned nil but the head is %s", res.target, newHead), w)
		}
		// The emitted events must describe the switch O -> N exactly, relative to a common
		// ancestor f of both chains: removed = logs of O above f (ascending, Removed set),
		// added = logs of N above f (ascending). f is normally the fork point. Two documented
		// deviations are accepted and counted:
		//  * an import that has to re-execute pruned canonical ancestors rewinds the canonical
		//    chain to the nearest block with state and re-adds the blocks (f below the fork point);
		//  * the block the head is rewound to is announced again as new head (ChainEvent + logs):
		//    SetCanonical(ancestor) and the first block of such a re-import.
		var (
			announce []*mblock
			silent   []*mblock
			consumed int
			found    bool
			firstErr string
			fallback *candidate
		)
		silentOK := map[common.Hash]bool{}
		if res.kind == "insert" {
			for h := range res.silentOK {
				silentOK[h] = true
			}
		}
		// blocks without stored receipts (reported separately as I3:canonical-block-without-receipts)
		// cannot have their logs announced or withdrawn by reorg()
		noRc := map[common.Hash]bool{}
		for h := range post.noReceipts {
			silentOK[h], noRc[h] = true, true
		}
		for h := range pre.noReceipts {
			silentOK[h], noRc[h] = true, true
		}
		inSeg := map[common.Hash]bool{}
		for _, b := range res.seg {
			inSeg[b.hash()] = true
		}
		for f := fork; f >= 0 && !found; f-- {
			if f < fork && res.kind != "insert" {
				break
			}
			if d := matchRemoved(ev.removed, O[f+1:], noRc); d != "" {
				if f == fork {
					firstErr = "removed logs: " + d
				}
				continue
			}
			var variants [][]*mblock
			switch {
			case f == fork && res.kind == "setcanonical" && res.err == nil && len(N) == fork+1:
				variants = [][]*mblock{{res.target}} // rewind to an ancestor: the target is announced
			case res.kind == "insert" && f > 0:
				// the block the chain is rewound to may itself be re-executed (pruned state,
				// missing snapshot layer) and is then announced again as new head
				variants = [][]*mblock{N[f+1:], N[f:]}
			case f == fork:
				variants = [][]*mblock{N[f+1:]}
			default:
				variants = [][]*mblock{N[f+1:]}
			}
			for vi, v := range variants {
				c, sl, d := matchAdded(ev.logs, v, silentOK)
				if d == "" && !chainEventsFit(ev, v) && f > 0 {
					// blocks without logs leave f ambiguous for the log feeds; the chain events
					// disambiguate. Keep the first log-only match as a fallback for reporting.
					if fallback == nil {
						fallback = &candidate{v, sl, c, f, vi}
					}
					continue
				}
				if d == "" {
					announce, silent, consumed, found = v, sl, c, true
					detour = f < fork
					reannounced = vi == 1 || (f == fork && res.kind == "setcanonical" && len(N) == fork+1 && len(v) == 1)
					fork = f
					break
				}
				if f == fork && firstErr == "" {
					firstErr = "added logs: " + d
				}
			}
		}
		if !found && fallback != nil {
			announce, silent, consumed, found = fallback.announce, fallback.silent, fallback.consumed, true
			detour = fallback.f < fork
			fork = fallback.f
		}
		dropped, added := O[fork+1:], N[fork+1:]
		if !found {
			fp := "I4:added-logs-mismatch"
			if len(firstErr) > 7 && firstErr[:7] == "removed" {
				fp = "I4:removed-logs-mismatch"
			}
			s.viol(fp, firstErr, merge(w, map[string]any{"removed_got": descLogs(ev.removed), "removed_want": descLogs(concatLogs(dropped)), "added_got": descLogs(ev.logs), "added_want": descLogs(concatLogs(added))}))
			announce = added
		} else {
			r.Count("removed_logs_compared", len(ev.removed))
			r.Count("added_logs_compared", consumed)
			if detour {
				r.Count("ops_described_via_older_ancestor", 1)
			}
			if reannounced {
				r.Count("ops_reannouncing_rewound_head", 1)
			}
		}
		if res.kind == "insert" && len(dropped) > 0 {
			r.Count("ops_insert_reorg", 1)
		}
		if res.kind == "setcanonical" && len(dropped) > 0 {
			r.Count("ops_setcanonical_reorg", 1)
		}
		nSilentLogs := 0
		var silentNames []string
		for _, b := range silent {
			if len(b.logs) > 0 && !post.noReceipts[b.hash()] {
				nSilentLogs++
				silentNames = append(silentNames, b.String())
			}
		}
		if nSilentLogs > 0 {
			r.Count("known_reimport_blocks_without_log_event", nSilentLogs)
			{
				s.viol("I4:known-block-reimport:added-logs-not-emitted", fmt.Sprintf("InsertChain made %d already-known blocks with logs canonical (%v) without emitting their logs (the logs of the %d dropped blocks were announced as removed)", nSilentLogs, silentNames, len(dropped)), merge(w, map[string]any{"added_got": descLogs(ev.logs), "added_want": descLogs(concatLogs(announce))}))
			}
		}
		// --- chain events: ascending subset of the announced blocks, each at most once, content = model
		ai := 0
		seenCE := map[common.Hash]bool{}
		for _, ce := range ev.chain {
			hsh := ce.Header.Hash()
			for ai < len(announce) && announce[ai].hash() != hsh {
				ai++
			}
			if ai == len(announce) {
				s.viol("I4:chain-event-unexpected-block", fmt.Sprintf("ChainEvent for #%d %x which did not become canonical in this operation (or out of order / duplicate)", ce.Header.Number, hsh.Bytes()[:4]), w)
				break
			}
			b := announce[ai]
			ai++
			seenCE[hsh] = true
			if len(ce.Transactions) != len(b.block.Transactions()) || len(ce.Receipts) != len(b.receipts) {
				if !post.noReceipts[b.hash()] {
					s.viol("I4:chain-event-content", fmt.Sprintf("ChainEvent of %s carries %d txs / %d receipts, model %d / %d", b, len(ce.Transactions), len(ce.Receipts), len(b.block.Transactions()), len(b.receipts)), w)
				}
				continue
			}
			for i, rc := range ce.Receipts {
				if ce.Transactions[i].Hash() != b.block.Transactions()[i].Hash() {
					s.viol("I4:chain-event-content", fmt.Sprintf("ChainEvent of %s tx %d differs", b, i), w)
					break
				}
				if rc.Status != b.receipts[i].Status || rc.CumulativeGasUsed != b.receipts[i].CumulativeGasUsed || len(rc.Logs) != len(b.receipts[i].Logs) {
					s.viol("I4:chain-event-content", fmt.Sprintf("ChainEvent of %s receipt %d differs", b, i), w)
					break
				}
			}
			r.Count("chain_events_checked", 1)
		}
		if n := len(ev.chain); n > 0 && ev.chain[n-1].Header.Hash() != newHead.hash() && !silentOK[newHead.hash()] {
			s.viol("I4:last-chain-event-not-head", fmt.Sprintf("last ChainEvent is #%d, the head is %s", ev.chain[n-1].Header.Number, newHead), w)
		}
		if res.kind == "insert" {
			for _, b := range added {
				// blocks made canonical by the reorg itself (known side-chain ancestors of the
				// imported segment) are announced through their logs only
				if inSeg[b.hash()] && !silentOK[b.hash()] && !seenCE[b.hash()] {
					s.viol("I4:chain-event-missing", fmt.Sprintf("block %s was imported and became canonical without a ChainEvent", b), w)
					break
				}
			}
		}
		// --- head events
		if n := len(ev.heads); n > 0 {
			if ev.heads[n-1].Header.Hash() != newHead.hash() {
				s.viol("I4:last-head-event-not-head", fmt.Sprintf("last ChainHeadEvent is #%d %x, the head is %s", ev.heads[n-1].Header.Number, ev.heads[n-1].Header.Hash().Bytes()[:4], newHead), w)
			}
			r.Count("head_events_checked", n)
		} else if headChanged {
			s.viol("I4:head-event-missing", fmt.Sprintf("head moved %s -> %s without a ChainHeadEvent", O[len(O)-1], newHead), w)
		}
	case "sethead":
		if res.err != nil {
			r.Count("err:sethead:"+trunc(errs, 60), 1)
		}
		// SetHead never switches forks: the new chain is a prefix of the old one, not above n.
		if len(N)-1 > fork {
			s.viol("I1:sethead-not-prefix", fmt.Sprintf("SetHead(%d) produced a chain that is not a prefix of the old one", res.n), w)
		}
		if res.n < uint64(len(pre.canon)-1) {
			if got := uint64(len(post.canon) - 1); got > res.n {
				s.viol("I1:sethead-header-above-target", fmt.Sprintf("SetHead(%d): head header is #%d", res.n, got), w)
			}
			if post.headNum > res.n {
				s.viol("I1:sethead-block-above-target", fmt.Sprintf("SetHead(%d): head block is #%d", res.n, post.headNum), w)
			}
			for _, b := range pre.canon[res.n+1:] {
				if s.bc.GetHeaderByHash(b.hash()) != nil || s.bc.GetBlockByHash(b.hash()) != nil {
					s.viol("I1:sethead-block-not-deleted", fmt.Sprintf("SetHead(%d): old canonical block %s is still readable", res.n, b), w)
					break
				}
			}
		} else {
			unchanged("sethead-above-head")
		}
		if len(O)-1 > fork {
			r.Count("ops_sethead_rewind", 1)
			if post.headNum < res.n {
				r.Count("ops_sethead_rewind_beyond_target", 1)
			}
		}
		noEvents("sethead")
		if n := len(ev.heads); n == 0 {
			if res.err == nil {
				s.viol("I4:sethead:head-event-missing", "SetHead emitted no ChainHeadEvent", w)
			}
		} else if ev.heads[n-1].Header.Hash() != newHead.hash() {
			s.viol("I4:sethead:last-head-event-not-head", fmt.Sprintf("last ChainHeadEvent is #%d, the head is %s", ev.heads[n-1].Header.Number, newHead), w)
		}
	case "finalize":
		unchanged("finalize")
		noEvents("finalize")
		if f := s.bc.CurrentFinalBlock(); f == nil || f.Hash() != res.fin.hash() {
			s.viol("I1:finalized-marker", fmt.Sprintf("CurrentFinalBlock is not %s after SetFinalized", res.fin), w)
		}
		if got := rawdb.ReadFinalizedBlockHash(s.db); got != res.fin.hash() {
			s.viol("I1:finalized-marker-db", fmt.Sprintf("ReadFinalizedBlockHash = %x after SetFinalized(%s)", got, res.fin), w)
		}
		if fr, _ := s.db.Ancients(); fr > 1 {
			r.Count("steps_with_frozen_blocks", 1)
		}
	case "restart":
		// I5: same head, same head header, same finalized block
		r.Count("ops_restart", 1)
		if headChanged {
			s.viol("I5:head-changed-by-restart", fmt.Sprintf("head block %s before Stop, %s after reopening", O[len(O)-1], newHead), w)
		}
		if a, b := pre.canon[len(pre.canon)-1], post.canon[len(post.canon)-1]; a != b {
			s.viol("I5:head-header-changed-by-restart", fmt.Sprintf("head header %s before Stop, %s after reopening", a, b), w)
		}
		if pre.finalHash != post.finalHash {
			s.viol("I5:finalized-changed-by-restart", fmt.Sprintf("finalized %x before Stop, %x after reopening", pre.finalHash, post.finalHash), w)
		}
	}
	dropped, added := O[fork+1:], N[fork+1:]
	// I2, I3 after every operation
	s.touched = append(append([]*mblock{}, dropped...), added...)
	s.checkState(newHead)
	s.waitIndexer(post.headNum)
	s.debugIndex(post)
	s.checkLookups(post)

	sig := fmt.Sprintf("%s/%s/%s/drop%s/add%s/eq%v/detour%v/%s/merged%v/restarted%v", res.kind, res.subkind, outcome, bucket(len(dropped)), bucket(len(added)), len(dropped) > 0 && len(O) == len(N), detour, s.cfg.StateScheme, s.t.merged, s.restarted)
	if res.kind == "finalize" || (res.kind == "insert" && !res.mustFail && len(added) == 0 && len(dropped) == 0) {
		// nothing moved: counted, but not a distinct non-trivial situation beyond its kind
		sig = fmt.Sprintf("%s/%s/%s/nochange", res.kind, res.subkind, outcome)
	}
	r.Eval(sig)
	return ok
}
