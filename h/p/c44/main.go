// C44: RLPx delivers authenticated messages intact and in order.
//
// Two rlpx.Conn are connected through a harness pipe (pipe.go) that short-reads and
// fragments arbitrarily and can tamper with the byte stream. Oracle: what a side reads is
// exactly the sequence the other side wrote successfully, up to the first wire modification,
// where an error must be reported; handshake packets that were modified or carry invalid
// curve points must make Handshake fail.
package main

import (
	"bytes"
	"crypto/ecdsa"
	"crypto/sha256"
	"encoding/binary"
	"errors"
	"fmt"
	"io"
	"math/rand"
	"os"
	"strings"
	"sync"

	"github.com/ethereum/go-ethereum/crypto"
	"github.com/ethereum/go-ethereum/p2p/rlpx"
	"github.com/golang/snappy"

	"verif/lib/vrt"
)

func main() { vrt.Main("C44", run) }

const maxUint24 = 1<<24 - 1

func intSize(c uint64) int {
	if c < 128 {
		return 1
	}
	n := 0
	for ; c > 0; c >>= 8 {
		n++
	}
	return n + 1
}

// ---------------------------------------------------------------- plans

type planMsg struct {
	code uint64
	size int
	pat  int // 0 random, 1 zeros, 2 text, 3 half zero/half random, 4 garbage (raw mode only)
	seed int64
	// raw mode (writer has snappy off, reader on): the harness compresses itself
	raw bool
}

func (m planMsg) payload() []byte {
	b := make([]byte, m.size)
	rng := rand.New(rand.NewSource(m.seed))
	switch m.pat {
	case 0, 4:
		rng.Read(b)
	case 1:
	case 2:
		w := []byte(fmt.Sprintf("rlpx-%d-", m.seed&0xffff))
		for i := range b {
			b[i] = w[i%len(w)]
		}
	case 3:
		rng.Read(b[len(b)/2:])
	}
	if len(b) >= 8 {
		binary.LittleEndian.PutUint64(b, uint64(m.seed))
	}
	return b
}

type sentMsg struct {
	code   uint64
	n      int
	sum    [32]byte
	head   []byte
	failed bool
	any    bool // content undefined (garbage compressed data): anything may be delivered
}

type tamperSpec struct {
	dir    int    // 0: initiator->recipient stream, 1: the other one
	widx   int    // write index in that direction (0 = handshake packet, k+1 = frame k)
	kind   string // flip, replace, truncate, insert, delete, dup, swap, drop
	region string // hs: any/prefix/pub/iv/ct/tag ; frame: header/hmac/body/pad/bmac
	rel    uint64 // position selector inside the region
	fixed  int    // >=0: absolute position (exhaustive handshake sweep)
	val    byte
	n      int
	padLen int
	// insert only: 1 = aim at the last byte of the unit and let the first inserted byte repeat
	// the byte it displaces (the unit then reaches the reader unmodified and the stream first
	// differs in the NEXT unit); 2 = same position, first inserted byte certainly different
	echo int
	// filled by the proxy
	applied bool
	pos     int
	plen    int
}

func regionBounds(widx int, region string, plen, padLen int) (int, int) {
	if widx == 0 { // handshake packet: prefix(2) R(65) IV(16) ct tag(32)
		switch region {
		case "prefix":
			return 0, 2
		case "pub":
			return 2, 67
		case "iv":
			return 67, 83
		case "ct":
			return 83, plen - 32
		case "tag":
			return plen - 32, plen
		}
		return 0, plen
	}
	switch region { // frame: header(16) hmac(16) body bmac(16)
	case "header":
		return 0, 16
	case "hmac":
		return 16, 32
	case "pad":
		if padLen > 0 {
			return plen - 16 - padLen, plen - 16
		}
		return 32, plen - 16
	case "body":
		return 32, plen - 16
	case "bmac":
		return plen - 16, plen
	}
	return 0, plen
}

// install puts the tamper function on the link.
func (t *tamperSpec) install(l *link, rng *rand.Rand) {
	h := l.half[t.dir]
	h.rec = true
	var held []byte
	h.tamper = func(widx int, p []byte) ([]byte, bool) {
		if t.kind == "swap" && widx == t.widx+1 && held != nil {
			out := append(append([]byte{}, p...), held...)
			held = nil
			return out, false
		}
		if widx != t.widx {
			return p, false
		}
		t.applied = true
		t.plen = len(p)
		lo, hi := regionBounds(t.widx, t.region, len(p), t.padLen)
		if hi <= lo {
			lo, hi = 0, len(p)
		}
		pos := lo + int(t.rel%uint64(hi-lo))
		if t.fixed >= 0 {
			pos = t.fixed % len(p)
		}
		if t.kind == "insert" && t.echo != 0 {
			pos = len(p) - 1
		}
		t.pos = pos
		q := append([]byte{}, p...)
		switch t.kind {
		case "flip":
			q[pos] ^= 1 << (t.val & 7)
		case "replace":
			v := t.val
			if v == 0 {
				v = 0x55
			}
			q[pos] ^= v
		case "truncate":
			return q[:pos], true
		case "insert":
			ins := make([]byte, t.n)
			rng.Read(ins)
			switch t.echo {
			case 1:
				ins[0] = p[pos]
			case 2:
				ins[0] = p[pos] ^ (1 + ins[0]%255)
			}
			q = append(append(append([]byte{}, p[:pos]...), ins...), p[pos:]...)
		case "delete":
			e := min(len(p), pos+t.n)
			q = append(append([]byte{}, p[:pos]...), p[e:]...)
		case "dup":
			q = append(q, p...)
		case "drop":
			q = nil
		case "swap":
			held = q
			return nil, false
		}
		return q, false
	}
	h.atClose = func() []byte { b := held; held = nil; return b }
}

type sessionPlan struct {
	kind       string // plain, tamper-hs, tamper-frame, rawsnappy, wrongdest
	snappy     bool
	concurrent bool
	split      bool
	frag       [2]int
	msgs       [2][]planMsg // msgs[d]: written by side d
	tamper     *tamperSpec
	sizeClass  string
}

// ---------------------------------------------------------------- session execution

type sideRes struct {
	hsErr    error
	remote   *ecdsa.PublicKey
	mu       sync.Mutex
	sent     []sentMsg
	writeErr error
	wExpFail bool
	got      int
	mismatch string
	readErr  error
	panicked string
}

func (s *sideRes) sentAt(i int) (sentMsg, bool) {
	s.mu.Lock()
	defer s.mu.Unlock()
	if i < len(s.sent) {
		return s.sent[i], true
	}
	return sentMsg{}, false
}

func digest(code uint64, b []byte) sentMsg {
	return sentMsg{code: code, n: len(b), sum: sha256.Sum256(b), head: append([]byte{}, b[:min(len(b), 24)]...)}
}

func runSide(l *link, side int, key *ecdsa.PrivateKey, dial *ecdsa.PublicKey, sp *sessionPlan, me, peer *sideRes, wg *sync.WaitGroup) {
	defer wg.Done()
	defer l.done()
	ep := l.end(side)
	defer ep.CloseWrite()
	if perr, st := vrt.Recover(func() {
		conn := rlpx.NewConn(ep, dial)
		pub, err := conn.Handshake(key)
		me.hsErr, me.remote = err, pub
		if err != nil {
			return
		}
		wsnappy := sp.snappy
		if sp.kind == "rawsnappy" {
			// the writer side (0) runs without compression and sends pre-compressed data
			wsnappy = false
			conn.SetSnappy(side == 1)
		} else {
			conn.SetSnappy(sp.snappy)
		}
		writer := func() {
			defer ep.CloseWrite()
			for _, m := range sp.msgs[side] {
				pl := m.payload()
				wire := pl
				exp := digest(m.code, pl)
				expFail := false
				if m.raw {
					if m.pat == 4 {
						wire = pl // garbage, expected content undefined
						exp.any = true
					} else {
						wire = snappy.Encode(nil, pl)
					}
					expFail = intSize(m.code)+len(wire) > maxUint24
				} else {
					wl := len(pl)
					if wsnappy && len(pl) <= maxUint24 {
						wl = len(snappy.Encode(nil, pl))
					}
					expFail = len(pl) > maxUint24 || intSize(m.code)+wl > maxUint24
				}
				me.mu.Lock()
				me.sent = append(me.sent, exp)
				me.mu.Unlock()
				_, err := conn.Write(m.code, wire)
				if err != nil {
					me.mu.Lock()
					me.sent[len(me.sent)-1].failed = true
					me.writeErr, me.wExpFail = err, expFail
					me.mu.Unlock()
					return
				}
				if expFail {
					me.mu.Lock()
					me.writeErr, me.wExpFail = errors.New("write succeeded"), true
					me.mu.Unlock()
				}
			}
		}
		reader := func() {
			for {
				code, data, _, err := conn.Read()
				if err != nil {
					me.readErr = err
					return
				}
				want, ok := peer.sentAt(me.got)
				if !ok {
					me.mismatch = fmt.Sprintf("message #%d (code %d, %d bytes) delivered but never written", me.got, code, len(data))
					return
				}
				if want.any {
					me.got++
					continue
				}
				if code != want.code || len(data) != want.n || sha256.Sum256(data) != want.sum {
					me.mismatch = fmt.Sprintf("message #%d: got code=%d len=%d head=%x, written code=%d len=%d head=%x (write failed=%v)",
						me.got, code, len(data), data[:min(len(data), 24)], want.code, want.n, want.head, want.failed)
					return
				}
				me.got++
			}
		}
		if sp.concurrent {
			var w sync.WaitGroup
			w.Add(1)
			l.add(1)
			go func() {
				defer w.Done()
				defer l.done()
				if perr, st := vrt.Recover(writer); perr != nil {
					me.mu.Lock()
					me.panicked = fmt.Sprintf("%v\n%s", perr, st)
					me.mu.Unlock()
				}
			}()
			reader()
			w.Wait()
		} else {
			writer()
			reader()
		}
	}); perr != nil {
		me.mu.Lock()
		me.panicked = fmt.Sprintf("%v\n%s", perr, st)
		me.mu.Unlock()
	}
}

func errStr(e error) string {
	if e == nil {
		return "<nil>"
	}
	return e.Error()
}

func errClass(e error) string {
	switch {
	case e == nil:
		return "ok"
	case errors.Is(e, io.EOF):
		return "eof"
	case errors.Is(e, io.ErrUnexpectedEOF):
		return "ueof"
	}
	var te timeoutErr
	if errors.As(e, &te) {
		return "timeout"
	}
	s := e.Error()
	for _, k := range []string{"header MAC", "frame MAC", "too big", "invalid message", "invalid public key", "16MB", "snappy", "rlp", "message code"} {
		if bytes.Contains([]byte(s), []byte(k)) {
			return k
		}
	}
	return "other"
}

func runSession(r *vrt.Run, idx int, rng *rand.Rand, sp *sessionPlan) {
	keyA, keyB := genKey(rng), genKey(rng)
	dial := &keyB.PublicKey
	if sp.kind == "wrongdest" {
		dial = &genKey(rng).PublicKey
	}
	l := newLink(rng, sp.frag[0], sp.frag[1])
	l.half[0].split, l.half[1].split = sp.split, sp.split
	if sp.tamper != nil {
		sp.tamper.install(l, rand.New(rand.NewSource(rng.Int63())))
	}
	var resA, resB sideRes
	var wg sync.WaitGroup
	wg.Add(2)
	l.add(2)
	go runSide(l, 0, keyA, dial, sp, &resA, &resB, &wg)
	go runSide(l, 1, keyB, nil, sp, &resB, &resA, &wg)
	wg.Wait()

	res := [2]*sideRes{&resA, &resB}
	// Attribution of the tampering (false alarm corrected, see VALIDATION.md): the modified
	// unit is the one containing the first byte position at which the stream offered to the
	// reader differs from the stream the writer wrote, whatever position the mutation was
	// aimed at. An inserted byte that repeats the byte it displaces at the end of a packet
	// (or a deletion followed by an equal byte) leaves that packet bit-identical for the
	// reader; the stream is then first modified in the next unit, and that one must be rejected.
	diffOff, diffUnit := -1, -1
	if sp.tamper != nil {
		diffOff, diffUnit = l.half[sp.tamper.dir].firstDiff()
	}
	if replayDump && sp.tamper != nil {
		dumpStreams(r, l.half[sp.tamper.dir], sp.tamper)
	}
	wit := func() map[string]any {
		w := map[string]any{"session": idx, "kind": sp.kind, "snappy": sp.snappy, "concurrent": sp.concurrent, "split": sp.split,
			"frag":   []string{chunkNames[sp.frag[0]], chunkNames[sp.frag[1]]},
			"hsErrA": errStr(resA.hsErr), "hsErrB": errStr(resB.hsErr)}
		for d := 0; d < 2; d++ {
			var ms []string
			for i, m := range sp.msgs[d] {
				if i >= 12 {
					ms = append(ms, "...")
					break
				}
				ms = append(ms, fmt.Sprintf("code=%d size=%d pat=%d", m.code, m.size, m.pat))
			}
			w[fmt.Sprintf("msgs%d", d)] = ms
			w[fmt.Sprintf("read%d", 1-d)] = fmt.Sprintf("got=%d err=%s mismatch=%s", res[1-d].got, errStr(res[1-d].readErr), res[1-d].mismatch)
			w[fmt.Sprintf("writeErr%d", d)] = errStr(res[d].writeErr)
		}
		if t := sp.tamper; t != nil {
			w["tamper"] = fmt.Sprintf("dir=%d widx=%d kind=%s region=%s pos=%d/%d n=%d echo=%d applied=%v", t.dir, t.widx, t.kind, t.region, t.pos, t.plen, t.n, t.echo, t.applied)
			h := l.half[t.dir]
			w["stream"] = fmt.Sprintf("written %d bytes, write end offsets %v; offered to the reader %d bytes; first differing offset %d = unit %d (0 handshake packet, k+1 frame k)",
				len(h.orig), h.bounds[:min(len(h.bounds), 16)], len(h.mut), diffOff, diffUnit)
			if diffOff >= 0 {
				lo, hi := max(diffOff-8, 0), diffOff+24
				w["written_at_diff"] = fmt.Sprintf("[%d..) %x", lo, h.orig[min(lo, len(h.orig)):min(hi, len(h.orig))])
				w["offered_at_diff"] = fmt.Sprintf("[%d..) %x", lo, h.mut[min(lo, len(h.mut)):min(hi, len(h.mut))])
			}
		}
		return w
	}
	for d, s := range res {
		if s.panicked != "" {
			r.Violation("panic:"+vrt.PanicSite(s.panicked), fmt.Sprintf("side %d panicked: %s", d, s.panicked), wit())
			return
		}
	}
	t := sp.tamper
	outcome := "ok"

	// ---- handshake verdict
	switch {
	case sp.kind == "wrongdest":
		r.Count("hs_wrongdest", 1)
		if resA.hsErr == nil {
			r.Violation("handshake:wrong-dialdest-succeeds", "initiator handshake succeeded although the recipient does not own dialDest", wit())
		}
		if resB.hsErr == nil {
			r.Violation("handshake:undecryptable-auth-accepted", "recipient handshake succeeded on an auth packet encrypted to another key", wit())
		}
		r.Eval("wrongdest/" + errClass(resA.hsErr) + "/" + errClass(resB.hsErr))
		return
	case t != nil && t.widx == 0 && !t.applied:
		r.Eval("")
		return
	case t != nil && t.widx == 0 && diffUnit == 0:
		// the handshake packet as offered to the victim differs from the written one at
		// packet offset diffOff (>= the aimed position; equal to it for flip/replace/truncate)
		victim := res[1-t.dir]
		r.Count("hs_tamper_"+t.kind, 1)
		hsCover(t.dir, diffOff)
		if victim.hsErr == nil {
			r.Violation("handshake:tampered-packet-accepted:"+t.kind,
				fmt.Sprintf("side %d completed the handshake although its incoming handshake packet was modified (%s at %d of %d, first differing byte %d)", 1-t.dir, t.kind, t.pos, t.plen, diffOff), wit())
		}
		r.Eval(fmt.Sprintf("tamper-hs/dir%d/%s/%s/frag%s/%s", t.dir, t.kind, hsRegion(diffOff, t.plen), chunkNames[sp.frag[t.dir]], errClass(victim.hsErr)))
		return
	default:
		// untampered handshake, or a mutation aimed at a handshake packet that left every byte
		// of the packet as it was (the stream first differs behind it): the handshake has to
		// succeed and the frame verdict below applies to the first differing unit.
		if t != nil && t.widx == 0 {
			r.Count("hs_tamper_packet_left_intact_"+t.kind, 1)
		}
		if resA.hsErr != nil || resB.hsErr != nil {
			r.Violation("handshake:genuine-fails", fmt.Sprintf("untampered handshake failed: A: %v, B: %v", resA.hsErr, resB.hsErr), wit())
			return
		}
		if !resA.remote.Equal(&keyB.PublicKey) || !resB.remote.Equal(&keyA.PublicKey) {
			r.Violation("handshake:wrong-remote-key", "handshake returned a remote key different from the peer's key", wit())
			return
		}
		r.Count("hs_ok", 1)
	}

	// ---- message verdict per direction
	for d := 0; d < 2; d++ {
		w, rd := res[d], res[1-d]
		nOK := 0
		for _, s := range w.sent {
			if s.failed {
				break
			}
			nOK++
		}
		r.Count("msgs_written", nOK)
		r.Count("msgs_delivered", rd.got)
		if w.writeErr != nil {
			if !w.wExpFail {
				r.Violation("write:fails-within-limit", fmt.Sprintf("dir %d: Write of message #%d failed: %v", d, len(w.sent)-1, w.writeErr), wit())
				continue
			}
			if w.writeErr.Error() == "write succeeded" {
				// over-limit write accepted: whatever happens now must not be a wrong delivery;
				// the prefix check below decides (the message itself must then arrive intact).
				r.Count("overlimit_write_accepted", 1)
			} else {
				r.Count("overlimit_write_rejected", 1)
				outcome = "overlimit"
			}
		}
		if rd.mismatch != "" {
			fp := "deliver:corrupt-or-unwritten"
			if t != nil && t.dir == d {
				fp = "deliver:after-tamper:" + t.kind
			}
			r.Violation(fp, fmt.Sprintf("dir %d: %s", d, rd.mismatch), wit())
			continue
		}
		lo, hi := nOK, nOK
		if t != nil && t.dir == d && t.applied && diffOff >= 0 {
			// frames in front of the first differing byte arrive intact and are delivered;
			// the frame containing it (unit diffUnit = frame diffUnit-1) must be rejected.
			// diffUnit == number of writes: bytes were appended behind an intact stream,
			// every written message is delivered and the surplus must not be.
			k := min(diffUnit-1, nOK)
			lo, hi = k, k
			aimed := t.widx
			if t.kind == "dup" {
				aimed++ // the copy sits in front of the next frame
			}
			if diffUnit != aimed {
				r.Count("tamper_first_diff_in_later_unit", 1)
				r.Count("tamper_first_diff_in_later_unit_"+t.kind, 1)
			}
			r.Count("frame_tamper_"+t.kind+"_"+t.region, 1)
			outcome = "tamper:" + errClass(rd.readErr)
			if diffUnit != aimed {
				outcome = "tamper-later-unit:" + errClass(rd.readErr)
			}
		}
		if t != nil && t.dir == d && t.applied && diffOff < 0 {
			r.Count("tamper_left_stream_identical", 1) // judged as an untampered session
		}
		if sp.kind == "rawsnappy" && d == 0 {
			for i, m := range sp.msgs[0] {
				if i >= nOK {
					break
				}
				if m.pat == 4 { // garbage: error or (unlikely) a decodable block; both fine
					lo, hi = i, i+1
					break
				}
				if m.size > maxUint24 {
					lo, hi = i, i
					r.Count("raw_oversize_snappy", 1)
					outcome = "rawover:" + errClass(rd.readErr)
					break
				}
			}
		}
		switch {
		case rd.got < lo:
			fp := "deliver:lost-or-early-error"
			r.Violation(fp, fmt.Sprintf("dir %d: only %d of %d intact messages were delivered before error %v", d, rd.got, lo, rd.readErr), wit())
		case rd.got > hi:
			fp := "deliver:no-error-at-modified-frame"
			if sp.kind == "rawsnappy" {
				fp = "deliver:oversize-snappy-accepted"
			}
			r.Violation(fp, fmt.Sprintf("dir %d: %d messages delivered, at most %d expected (an error had to be reported at #%d)", d, rd.got, hi, hi), wit())
		}
	}
	tk := "none"
	if t != nil {
		tk = t.kind + "/" + t.region
		if !t.applied {
			tk = "unapplied"
		}
	}
	r.Eval(fmt.Sprintf("%s/sn%v/conc%v/split%v/frag%s-%s/size%s/n%d/tamper=%s/%s", sp.kind, sp.snappy, sp.concurrent, sp.split,
		chunkNames[sp.frag[0]], chunkNames[sp.frag[1]], sp.sizeClass, bucket(len(sp.msgs[0])+len(sp.msgs[1])), tk, outcome))
	if sp.kind == "plain" && r.WantSample() {
		r.Sample(wit())
	}
}

// replayDump (VERIF_C44_REPLAY) makes tamper sessions log the written and the offered stream
// around the mutation and around the first differing byte.
var replayDump bool

func dumpStreams(r *vrt.Run, h *half, t *tamperSpec) {
	off, unit := h.firstDiff()
	r.Logf("replay: tamper dir=%d widx=%d kind=%s region=%s pos=%d/%d n=%d applied=%v", t.dir, t.widx, t.kind, t.region, t.pos, t.plen, t.n, t.applied)
	r.Logf("replay: written %d bytes in %d writes, unit end offsets %v; offered to the reader %d bytes", len(h.orig), len(h.bounds), h.bounds, len(h.mut))
	r.Logf("replay: first differing stream offset %d, inside unit %d", off, unit)
	if !t.applied || t.widx >= len(h.bounds) {
		return
	}
	start := 0
	if t.widx > 0 {
		start = h.bounds[t.widx-1]
	}
	end := h.bounds[t.widx]
	same := end <= len(h.mut) && bytes.Equal(h.orig[start:end], h.mut[start:end])
	r.Logf("replay: aimed-at unit %d = stream [%d,%d): bytes at these offsets in the offered stream identical to the written ones: %v", t.widx, start, end, same)
	at := start + t.pos
	win := func(b []byte, lo, hi int) string {
		lo, hi = max(lo, 0), min(hi, len(b))
		if lo >= hi {
			return ""
		}
		return vrt.Hex(b[lo:hi])
	}
	r.Logf("replay: written [%d,%d): %s", at-4, at+44, win(h.orig, at-4, at+44))
	r.Logf("replay: offered [%d,%d): %s", at-4, at+44, win(h.mut, at-4, at+44))
}

func bucket(n int) int {
	switch {
	case n <= 1:
		return n
	case n <= 4:
		return 4
	case n <= 16:
		return 16
	case n <= 64:
		return 64
	}
	return 256
}

func hsRegion(pos, plen int) string {
	switch {
	case pos < 2:
		return "prefix"
	case pos < 67:
		return "pub"
	case pos < 83:
		return "iv"
	case pos < plen-32:
		return "ct"
	}
	return "tag"
}

var (
	hsMu    sync.Mutex
	hsCov   = [2]map[int]bool{{}, {}}
	hsCovTo = 380 // shortest possible handshake packet is longer than this
)

func hsCover(dir, pos int) {
	hsMu.Lock()
	hsCov[dir][pos] = true
	hsMu.Unlock()
}

// ---------------------------------------------------------------- plan generation

var smallSizes = []int{0, 1, 2, 7, 8, 9, 14, 15, 16, 17, 30, 31, 32, 33, 46, 47, 48, 49, 55, 56, 63, 64, 65, 127, 128, 129, 255, 256, 257}
var mediumSizes = []int{1000, 1023, 1024, 1025, 4095, 4096, 4097, 16383, 16384, 65535, 65536, 65537}
var codeBases = []uint64{0, 1, 16, 100, 127, 128, 255, 256, 65535, 1 << 32, 1<<63 - 1000, 1<<64 - 300}

func genMsgs(rng *rand.Rand, n int, allowMedium bool, big int) []planMsg {
	base := codeBases[rng.Intn(len(codeBases))]
	ms := make([]planMsg, n)
	for i := range ms {
		sz := smallSizes[rng.Intn(len(smallSizes))]
		switch x := rng.Intn(10); {
		case x == 0:
			sz = rng.Intn(300)
		case x == 1 && allowMedium:
			sz = mediumSizes[rng.Intn(len(mediumSizes))]
		case x == 2 && allowMedium:
			sz = rng.Intn(70000)
		}
		ms[i] = planMsg{code: base + uint64(i), size: sz, pat: rng.Intn(4), seed: rng.Int63()}
	}
	if big > 0 && n > 0 {
		ms[rng.Intn(n)].size = big
	}
	return ms
}

func fragPair(rng *rand.Rand, noTiny bool) [2]int {
	f := [2]int{rng.Intn(5), rng.Intn(5)}
	if noTiny {
		f = [2]int{2 + rng.Intn(3), 2 + rng.Intn(3)}
	}
	return f
}

func sizeClassOf(sp *sessionPlan) string {
	mx := 0
	for d := 0; d < 2; d++ {
		for _, m := range sp.msgs[d] {
			mx = max(mx, m.size)
		}
	}
	switch {
	case mx <= 17:
		return "tiny"
	case mx <= 300:
		return "small"
	case mx <= 70000:
		return "medium"
	case mx < 8<<20:
		return "big"
	case mx <= maxUint24:
		return "limit"
	}
	return "over"
}

// limitPlans are the deterministic boundary cases around the 16 MiB limit.
func limitPlan(i int, rng *rand.Rand) *sessionPlan {
	type lc struct {
		snappy bool
		code   uint64
		size   int
		pat    int
	}
	cases := []lc{
		{false, 1, maxUint24 - 1, 0},   // fsize == max: ok
		{false, 1, maxUint24, 1},       // fsize == max+1: error
		{false, 1, maxUint24 + 1, 1},   // len > max: error
		{false, 128, maxUint24 - 2, 3}, // two-byte code, fsize == max: ok
		{false, 128, maxUint24 - 1, 1}, // error
		{true, 1, maxUint24, 1},        // compressible, plain size == max: ok
		{true, 1, maxUint24 + 1, 1},    // plain size > max: error
		{true, 1, maxUint24 - 20, 0},   // incompressible: compressed frame > max: error
		{true, 300, 8 << 20, 3},        // ok
		{false, 77, 1<<20 + 1, 0},      // ok
	}
	c := cases[i%len(cases)]
	sp := &sessionPlan{kind: "plain", snappy: c.snappy, frag: fragPair(rng, true), concurrent: rng.Intn(2) == 0}
	d := rng.Intn(2)
	pre := genMsgs(rng, 1+rng.Intn(3), false, 0)
	sp.msgs[d] = append(pre, planMsg{code: c.code + 5000, size: c.size, pat: c.pat, seed: rng.Int63()})
	if rng.Intn(2) == 0 { // sometimes keep going after the big one (only used if the write succeeds)
		sp.msgs[d] = append(sp.msgs[d], planMsg{code: c.code + 5001, size: 33, pat: 0, seed: rng.Int63()})
	}
	sp.msgs[1-d] = genMsgs(rng, rng.Intn(3), false, 0)
	return sp
}

func plainPlan(r *vrt.Run, rng *rand.Rand) *sessionPlan {
	sp := &sessionPlan{kind: "plain", snappy: rng.Intn(2) == 0, concurrent: r.Race() || rng.Intn(3) == 0, split: rng.Intn(3) == 0}
	big := 0
	if rng.Intn(12) == 0 {
		big = 1<<20 + rng.Intn(3) - 1
	}
	sp.frag = fragPair(rng, big > 0)
	for d := 0; d < 2; d++ {
		n := rng.Intn(12)
		switch rng.Intn(8) {
		case 0:
			n = 50 + rng.Intn(151)
			if r.Race() {
				n = 20 + rng.Intn(40)
			}
		case 1:
			n = 1
		}
		// byte-wise reading of large messages only costs time
		sp.msgs[d] = genMsgs(rng, n, sp.frag[d] >= 2, 0)
	}
	if big > 0 {
		d := rng.Intn(2)
		if len(sp.msgs[d]) == 0 {
			sp.msgs[d] = genMsgs(rng, 1, false, 0)
		}
		sp.msgs[d][rng.Intn(len(sp.msgs[d]))].size = big
	}
	return sp
}

var frameKinds = []string{"flip", "flip", "replace", "truncate", "insert", "delete", "dup", "swap", "drop"}
var frameRegions = []string{"header", "hmac", "body", "pad", "bmac"}
var hsKinds = []string{"flip", "flip", "replace", "truncate", "insert", "delete"}
var hsRegions = []string{"any", "any", "prefix", "pub", "iv", "ct", "tag"}

func tamperFramePlan(r *vrt.Run, rng *rand.Rand) *sessionPlan {
	sp := &sessionPlan{kind: "tamper-frame", snappy: rng.Intn(2) == 0, concurrent: r.Race() || rng.Intn(4) == 0, split: rng.Intn(4) == 0, frag: fragPair(rng, false)}
	d := rng.Intn(2)
	n := 1 + rng.Intn(8)
	sp.msgs[d] = genMsgs(rng, n, rng.Intn(4) == 0, 0)
	sp.msgs[1-d] = genMsgs(rng, rng.Intn(3), false, 0)
	t := &tamperSpec{dir: d, kind: frameKinds[rng.Intn(len(frameKinds))], region: frameRegions[rng.Intn(len(frameRegions))], rel: rng.Uint64(), fixed: -1,
		val: byte(rng.Intn(256)), n: 1 + rng.Intn(40)}
	k := rng.Intn(n)
	if t.kind == "swap" {
		if n < 2 {
			sp.msgs[d] = append(sp.msgs[d], genMsgs(rng, 1, false, 0)...)
			sp.msgs[d][1].code = sp.msgs[d][0].code + 1
			n = 2
		}
		k = rng.Intn(n - 1)
	}
	switch t.kind {
	case "dup", "swap", "drop":
		t.region = "frame"
	}
	t.widx = k + 1
	m := sp.msgs[d][k]
	wl := m.size
	if sp.snappy {
		wl = len(snappy.Encode(nil, m.payload()))
	}
	if p := (intSize(m.code) + wl) % 16; p > 0 {
		t.padLen = 16 - p
	}
	if t.region == "pad" && t.padLen == 0 {
		t.region = "body"
	}
	if t.kind == "insert" && rng.Intn(3) == 0 {
		t.n = 16 * (1 + rng.Intn(4)) // keep the alignment
	}
	if t.kind == "insert" && rng.Intn(4) == 0 {
		// boundary case that random bytes hit only once in 256 tries: the frame itself stays
		// intact, the surplus bytes sit in front of the next frame (or at the end of the stream)
		t.echo, t.region = 1, "bmac"
	}
	sp.tamper = t
	return sp
}

func tamperHSPlan(r *vrt.Run, rng *rand.Rand, fixed int, dir int) *sessionPlan {
	sp := &sessionPlan{kind: "tamper-hs", snappy: false, frag: fragPair(rng, false), split: rng.Intn(4) == 0}
	for d := 0; d < 2; d++ {
		sp.msgs[d] = genMsgs(rng, rng.Intn(3), false, 0)
	}
	t := &tamperSpec{dir: dir, widx: 0, kind: hsKinds[rng.Intn(len(hsKinds))], region: hsRegions[rng.Intn(len(hsRegions))], rel: rng.Uint64(), fixed: fixed,
		val: byte(rng.Intn(256)), n: 1 + rng.Intn(40)}
	if fixed >= 0 {
		t.kind = []string{"flip", "replace"}[rng.Intn(2)]
	}
	if t.kind == "insert" && rng.Intn(4) == 0 {
		t.echo, t.region = 1, "tag" // the packet stays intact, see tamperFramePlan
	}
	sp.tamper = t
	return sp
}

func rawSnappyPlan(r *vrt.Run, rng *rand.Rand, over bool) *sessionPlan {
	sp := &sessionPlan{kind: "rawsnappy", frag: fragPair(rng, true)}
	ms := genMsgs(rng, 1+rng.Intn(4), true, 0)
	for i := range ms {
		ms[i].raw = true
	}
	if over {
		// compressible plaintext larger than the limit: must be refused by the reader
		ms = append(ms, planMsg{code: 9, size: maxUint24 + 1 + rng.Intn(1<<20), pat: 1, seed: rng.Int63(), raw: true})
		if rng.Intn(2) == 0 {
			ms = append(ms, planMsg{code: 10, size: 5, pat: 0, seed: rng.Int63(), raw: true})
		}
	} else {
		ms = append(ms, planMsg{code: 11, size: 1 + rng.Intn(200), pat: 4, seed: rng.Int63(), raw: true})
	}
	sp.msgs[0] = ms
	return sp
}

// ---------------------------------------------------------------- crafted handshake packets

// runCrafted plays a malicious peer with hand-made handshake packets against one genuine
// rlpx.Conn; everything happens on the calling goroutine (the pipe never blocks a writer and
// reports "timeout" when the only party is blocked).
func runCrafted(r *vrt.Run, idx int, rng *rand.Rand) {
	victim, attacker := genKey(rng), genKey(rng)
	mode := idx % 14
	l := newLink(rng, rng.Intn(5), rng.Intn(5))
	l.add(1)
	var pkt []byte
	name := ""
	expectOK := false
	asInitiator := true // attacker is the initiator, victim the recipient
	switch mode {
	case 0: // positive control: genuine hand-made auth
		name, expectOK = "auth-genuine", true
		pkt = sealTo(rng, &victim.PublicKey, makeAuthPlain(rng, attacker, &victim.PublicKey, nil, 0))
	case 1, 2, 3: // initiator public key not on the curve
		name = "auth-initpub-offcurve"
		x, y := offCurvePoint(rng, mode-1)
		bad := append(pad32(x), pad32(y)...)
		pkt = sealTo(rng, &victim.PublicKey, makeAuthPlain(rng, attacker, &victim.PublicKey, bad, 0))
	case 4, 5: // ECIES ephemeral point not on the curve, keyed as unchecked code would derive
		name = "auth-ecies-offcurve"
		x, y := offCurvePoint(rng, mode-4)
		z := sharedX(x, y, victim.D)
		if z == nil {
			z = make([]byte, 32)
			r.Count("offcurve_scalarmult_nil", 1)
		}
		pkt = eciesSeal(rng, x, y, z, makeAuthPlain(rng, attacker, &victim.PublicKey, nil, 0), 100+rng.Intn(100))
	case 6: // broken signatures: must not panic; r=0/s=0/bad v/r>=N must fail
		name = "auth-badsig"
		pkt = sealTo(rng, &victim.PublicKey, makeAuthPlain(rng, attacker, &victim.PublicKey, nil, []int{1, 2, 3, 5}[rng.Intn(4)]))
	case 7: // random signature bytes: outcome free, no panic
		name = "auth-randsig"
		pkt = sealTo(rng, &victim.PublicKey, makeAuthPlain(rng, attacker, &victim.PublicKey, nil, 4))
	case 8: // size prefix out of range / below the ECIES overhead
		name = "auth-badsize"
		pkt = sealTo(rng, &victim.PublicKey, makeAuthPlain(rng, attacker, &victim.PublicKey, nil, 0))
		sz := []int{0, 1, 64, 112, 113, 2049, 4000, 65535}[rng.Intn(8)]
		binary.BigEndian.PutUint16(pkt, uint16(sz))
		if sz > len(pkt)-2 {
			pkt = append(pkt, make([]byte, sz-(len(pkt)-2))...)
		}
	case 9: // positive control for the response direction
		name, expectOK, asInitiator = "resp-genuine", true, false
		e := genKey(rng)
		pkt = sealTo(rng, &victim.PublicKey, makeAuthRespPlain(rng, crypto.FromECDSAPub(&e.PublicKey)[1:]))
	case 10, 11: // response with off-curve ephemeral key
		name, asInitiator = "resp-randompub-offcurve", false
		x, y := offCurvePoint(rng, mode-10)
		pkt = sealTo(rng, &victim.PublicKey, makeAuthRespPlain(rng, append(pad32(x), pad32(y)...)))
	case 12: // response whose ECIES point is off-curve
		name, asInitiator = "resp-ecies-offcurve", false
		x, y := offCurvePoint(rng, rng.Intn(2))
		z := sharedX(x, y, victim.D)
		if z == nil {
			z = make([]byte, 32)
			r.Count("offcurve_scalarmult_nil", 1)
		}
		e := genKey(rng)
		pkt = eciesSeal(rng, x, y, z, makeAuthRespPlain(rng, crypto.FromECDSAPub(&e.PublicKey)[1:]), 100+rng.Intn(100))
	case 13: // random bytes
		name = "auth-random-bytes"
		asInitiator = rng.Intn(2) == 0
		pkt = make([]byte, 2+rng.Intn(600))
		rng.Read(pkt)
		if rng.Intn(2) == 0 {
			binary.BigEndian.PutUint16(pkt, uint16(len(pkt)-2))
		}
	}
	// the attacker's bytes are queued before the victim starts; extra frame bytes may follow
	att := l.end(0)
	att.Write(pkt)
	var conn *rlpx.Conn
	if asInitiator {
		conn = rlpx.NewConn(l.end(1), nil)
	} else {
		conn = rlpx.NewConn(l.end(1), &attacker.PublicKey)
	}
	var pub *ecdsa.PublicKey
	var err error
	w := map[string]any{"case": idx, "mode": name, "packet": vrt.Hex(pkt), "victimKey": vrt.Hex(crypto.FromECDSA(victim))}
	if r.Guard("handshake", w, func() { pub, err = conn.Handshake(victim) }) {
		return
	}
	r.Count("crafted_"+name, 1)
	switch {
	case expectOK && err != nil:
		r.Violation("crafted:genuine-rejected:"+name, fmt.Sprintf("well-formed hand-made handshake packet rejected: %v", err), w)
	case expectOK && !pub.Equal(&attacker.PublicKey):
		r.Violation("crafted:wrong-remote-key", "remote key differs from the key in the packet / dialDest", w)
	case !expectOK && err == nil && name != "auth-randsig" && name != "auth-random-bytes":
		r.Violation("crafted:invalid-accepted:"+name, "handshake succeeded on a packet carrying an invalid curve point / signature / size", w)
	}
	r.Eval(fmt.Sprintf("crafted/%s/%d/%s", name, mode, errClass(err)))
}

// ---------------------------------------------------------------- main

func run(r *vrt.Run) {
	r.Rule("a case is one RLPx session between two fresh random keys over a fragmenting pipe (read chunk mode per direction: 1/16/512/4096/full bytes, optional split writes), with 0..200 uniquely numbered messages per direction (sizes 0..64 KiB by class, 1 MiB, and the 16 MiB boundary cases), snappy on/off, sequential or concurrent reader/writer; tamper cases modify one handshake packet or one frame (flip/replace/truncate/insert/delete/dup/swap/drop at a region-relative offset; a quarter of the insertions go in front of the last byte of the unit and start with a copy of that byte, so that the unit stays intact and the next one is the first modified one); the modified unit is determined by comparing the written with the offered byte stream; crafted cases are hand-made handshake packets with off-curve points, bad signatures and sizes. signature = (kind, snappy, concurrency, split, chunk modes, size class, message count bucket, tamper kind+region, outcome class); sessions with an unapplied tamper are trivial")

	race := r.Race()
	nPlain := r.N(400, 30000)
	nTF := r.N(2200, 280000)
	nTH := r.N(800, 120000)
	nCraft := r.N(700, 40000)
	nLimit := r.N(10, 60)
	nRaw := r.N(6, 60)
	if race {
		nPlain, nTF, nTH, nCraft, nLimit, nRaw = nPlain/6, nTF/8, nTH/8, nCraft/8, 2, 2
	}

	if spec := os.Getenv("VERIF_C44_REPLAY"); spec != "" {
		// deterministic replay of single sessions: "tframe:94273,ths:55609" (stream:index, as
		// in the "session" field of a witness; same VERIF_SEED). Never conclusive.
		replayDump = true
		for _, it := range strings.Split(spec, ",") {
			var idx int
			name, num, _ := strings.Cut(it, ":")
			fmt.Sscan(num, &idx)
			rng := r.Rand(name, idx)
			var sp *sessionPlan
			switch name {
			case "tframe":
				sp = tamperFramePlan(r, rng)
			case "ths":
				fixed, dir := -1, rng.Intn(2)
				if s := 2 * 520 * 2; idx < s && !race {
					dir, fixed = idx%2, (idx/2)%520
				}
				sp = tamperHSPlan(r, rng, fixed, dir)
			case "plain":
				sp = plainPlan(r, rng)
			default:
				r.Inconclusive("unknown replay stream %q", name)
				return
			}
			if sp.tamper != nil {
				fmt.Sscan(os.Getenv("VERIF_C44_ECHO"), &sp.tamper.echo)
			}
			sp.sizeClass = sizeClassOf(sp)
			r.Case("replay %s %d", name, idx)
			runSession(r, idx, rng, sp)
		}
		r.Inconclusive("replay mode (VERIF_C44_REPLAY=%s)", spec)
		return
	}

	r.Logf("limit cases")
	vrt.Par(nLimit, 3, func(i int) {
		rng := r.Rand("limit", i)
		r.Case("limit %d", i)
		sp := limitPlan(i, rng)
		if race {
			// large buffers are very slow under the race detector (shadow memory faults)
			sp = limitPlan(9, rng)
			for d := range sp.msgs {
				for j := range sp.msgs[d] {
					sp.msgs[d][j].size = min(sp.msgs[d][j].size, 200000)
				}
			}
		}
		sp.sizeClass = sizeClassOf(sp)
		runSession(r, i, rng, sp)
		r.Count("sessions_limit", 1)
	})
	r.Logf("raw snappy cases")
	vrt.Par(nRaw, 3, func(i int) {
		rng := r.Rand("raw", i)
		r.Case("rawsnappy %d", i)
		sp := rawSnappyPlan(r, rng, i%2 == 0 && !race)
		sp.sizeClass = sizeClassOf(sp)
		runSession(r, i, rng, sp)
		r.Count("sessions_rawsnappy", 1)
	})
	r.Logf("plain sessions")
	vrt.Par(nPlain, 0, func(i int) {
		rng := r.Rand("plain", i)
		r.Case("plain %d", i)
		var sp *sessionPlan
		if i%40 == 39 {
			sp = &sessionPlan{kind: "wrongdest", frag: fragPair(rng, false)}
		} else {
			sp = plainPlan(r, rng)
		}
		sp.sizeClass = sizeClassOf(sp)
		runSession(r, i, rng, sp)
		r.Count("sessions_plain", 1)
		if sp.concurrent {
			r.Count("sessions_concurrent", 1)
		}
	})
	r.Logf("frame tampering")
	vrt.Par(nTF, 0, func(i int) {
		rng := r.Rand("tframe", i)
		r.Case("tamper-frame %d", i)
		sp := tamperFramePlan(r, rng)
		sp.sizeClass = sizeClassOf(sp)
		runSession(r, i, rng, sp)
		r.Count("sessions_tamper_frame", 1)
	})
	r.Logf("handshake tampering")
	sweep := 0
	if !r.Quick() && !race {
		sweep = 2 * 520 * 2 // every byte offset of both packets, twice
	}
	vrt.Par(nTH, 0, func(i int) {
		rng := r.Rand("ths", i)
		r.Case("tamper-hs %d", i)
		fixed, dir := -1, rng.Intn(2)
		if i < sweep {
			dir, fixed = i%2, (i/2)%520
		}
		sp := tamperHSPlan(r, rng, fixed, dir)
		sp.sizeClass = sizeClassOf(sp)
		runSession(r, i, rng, sp)
		r.Count("sessions_tamper_hs", 1)
	})
	r.Logf("crafted handshakes")
	vrt.Par(nCraft, 0, func(i int) {
		rng := r.Rand("craft", i)
		r.Case("crafted %d", i)
		runCrafted(r, i, rng)
	})

	for d := 0; d < 2; d++ {
		n := 0
		for p := range hsCov[d] {
			if p < hsCovTo {
				n++
			}
		}
		r.Extra(fmt.Sprintf("hs_packet_offsets_tampered_dir%d_below_%d", d, hsCovTo), n)
		if sweep > 0 && n < hsCovTo {
			r.Inconclusive("handshake packet sweep incomplete: dir %d covered %d of %d offsets", d, n, hsCovTo)
		}
	}
	r.Require("hs_ok", int64(nPlain/2))
	r.Require("msgs_delivered", int64(nPlain))
	r.Require("crafted_auth-genuine", 1)
	r.Require("crafted_resp-genuine", 1)
	r.Require("crafted_auth-ecies-offcurve", 1)
	if !race {
		r.Require("tamper_first_diff_in_later_unit_insert", 5)
		r.Require("hs_tamper_packet_left_intact_insert", 3)
		r.Require("overlimit_write_rejected", 3)
		r.Require("raw_oversize_snappy", 1)
	}
	r.Assume("golang/snappy block format (used by the harness to predict compressed sizes and to pre-compress in the raw-snappy cases)")
	r.Assume("crypto.S256().ScalarMult as the model of what unchecked code would derive from an off-curve point; crypto.Sign/ToECDSA for key material")
	r.Assume("a read that can never complete is reported by the pipe as a timeout error (stands for the caller's read deadline)")
}
