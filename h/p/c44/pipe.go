package main

import (
	"io"
	"math/rand"
	"net"
	"runtime"
	"sync"
	"time"
)

// link is an in-memory duplex byte pipe between two endpoints. Writes never block
// (unbounded buffers); reads return arbitrary short counts chosen by a per-direction PRNG.
// Every write passes through an optional tamper function of its direction.
//
// Deadlock detection replaces wall-clock deadlines: the harness declares how many goroutines
// use the link (live); when every live goroutine is blocked in Read on an empty, open
// direction, all of them fail with a timeout error (this is what a read deadline would
// eventually do on a real connection).
type link struct {
	mu   sync.Mutex
	cond *sync.Cond
	live int
	dead bool
	half [2]*half // half[d] carries bytes written by endpoint d
}

type half struct {
	buf     []byte
	off     int
	closed  bool // writer closed / stream truncated: reader sees EOF after buf drains
	cut     bool // truncated by tamper: later writes are swallowed
	blocked int  // readers blocked on this half
	writes  int  // number of Write calls seen (index of the next one)
	total   int  // bytes accepted from the writer (before tampering)
	chunk   chunker
	tamper  func(widx int, p []byte) (out []byte, cut bool)
	atClose func() []byte // bytes flushed when the writer closes (held frames)
	split   bool          // deliver a write in several appends with yields in between
	srng    *rand.Rand
	// stream recording (tamper sessions): the oracle attributes a modification to the first
	// byte position at which the stream offered to the reader differs from the stream the
	// writer wrote, never to the position the mutation was aimed at.
	rec    bool
	orig   []byte // every byte accepted from the writer, untampered
	bounds []int  // end offset in orig of every Write (unit u = orig[bounds[u-1]:bounds[u]])
	mut    []byte // every byte made available to the reader
}

// deliver appends bytes to the reader's buffer (caller holds the link mutex).
func (h *half) deliver(b []byte) {
	h.buf = append(h.buf, b...)
	if h.rec {
		h.mut = append(h.mut, b...)
	}
}

// firstDiff compares the written stream with the stream offered to the reader. off is the first
// byte offset at which they differ (the shorter length if one is a prefix of the other), -1 if
// they are identical. unit is the index of the write (0 = handshake packet, k+1 = frame k)
// whose bytes contain off; len(bounds) if off lies behind everything that was written (bytes
// were appended to an otherwise intact stream). Call after all users of the link are done.
func (h *half) firstDiff() (off, unit int) {
	n := min(len(h.orig), len(h.mut))
	off = -1
	for i := 0; i < n; i++ {
		if h.orig[i] != h.mut[i] {
			off = i
			break
		}
	}
	if off < 0 {
		if len(h.orig) == len(h.mut) {
			return -1, -1
		}
		off = n
	}
	for u, e := range h.bounds {
		if off < e {
			return off, u
		}
	}
	return off, len(h.bounds)
}

// chunker decides how many bytes a Read may return at most.
type chunker struct {
	mode int // 0: 1 byte, 1: 1..16, 2: 1..512, 3: 1..4096, 4: as requested
	rng  *rand.Rand
}

var chunkNames = []string{"1", "16", "512", "4096", "full"}

func (c *chunker) next() int {
	switch c.mode {
	case 0:
		return 1
	case 1:
		return 1 + c.rng.Intn(16)
	case 2:
		return 1 + c.rng.Intn(512)
	case 3:
		return 1 + c.rng.Intn(4096)
	}
	return 1 << 30
}

type timeoutErr struct{}

func (timeoutErr) Error() string   { return "harness pipe: all parties blocked (deadline)" }
func (timeoutErr) Timeout() bool   { return true }
func (timeoutErr) Temporary() bool { return false }

func newLink(rng *rand.Rand, mode0, mode1 int) *link {
	l := &link{}
	l.cond = sync.NewCond(&l.mu)
	l.half[0] = &half{chunk: chunker{mode0, rand.New(rand.NewSource(rng.Int63()))}, srng: rand.New(rand.NewSource(rng.Int63()))}
	l.half[1] = &half{chunk: chunker{mode1, rand.New(rand.NewSource(rng.Int63()))}, srng: rand.New(rand.NewSource(rng.Int63()))}
	return l
}

// add registers n more goroutines using the link (call before starting them).
func (l *link) add(n int) { l.mu.Lock(); l.live += n; l.mu.Unlock() }

// done unregisters a goroutine.
func (l *link) done() {
	l.mu.Lock()
	l.live--
	l.checkDeadlock()
	l.mu.Unlock()
}

// checkDeadlock declares a deadlock if all live goroutines are blocked on empty open halves.
func (l *link) checkDeadlock() {
	if l.dead || l.live <= 0 {
		return
	}
	blocked := 0
	for _, h := range l.half {
		if h.blocked > 0 && (len(h.buf)-h.off > 0 || h.closed) {
			return // somebody is about to make progress
		}
		blocked += h.blocked
	}
	if blocked >= l.live {
		l.dead = true
		l.cond.Broadcast()
	}
}

type endpoint struct {
	l    *link
	side int // writes to half[side], reads from half[1-side]
}

func (l *link) end(side int) *endpoint { return &endpoint{l, side} }

func (e *endpoint) Read(p []byte) (int, error) {
	if len(p) == 0 {
		return 0, nil
	}
	l := e.l
	h := l.half[1-e.side]
	l.mu.Lock()
	defer l.mu.Unlock()
	for {
		if avail := len(h.buf) - h.off; avail > 0 {
			n := min(len(p), avail, h.chunk.next())
			copy(p, h.buf[h.off:h.off+n])
			h.off += n
			if h.off == len(h.buf) {
				h.buf, h.off = h.buf[:0], 0
			} else if h.off > 1<<16 && h.off > len(h.buf)/2 {
				h.buf = append(h.buf[:0], h.buf[h.off:]...)
				h.off = 0
			}
			return n, nil
		}
		if h.closed {
			return 0, io.EOF
		}
		if l.dead {
			return 0, timeoutErr{}
		}
		h.blocked++
		l.checkDeadlock()
		if !l.dead {
			l.cond.Wait()
		}
		h.blocked--
	}
}

func (e *endpoint) Write(p []byte) (int, error) {
	l := e.l
	h := l.half[e.side]
	l.mu.Lock()
	if h.closed && !h.cut {
		l.mu.Unlock()
		return 0, io.ErrClosedPipe
	}
	widx := h.writes
	h.writes++
	h.total += len(p)
	if h.rec {
		h.orig = append(h.orig, p...)
		h.bounds = append(h.bounds, len(h.orig))
	}
	if h.cut {
		l.mu.Unlock()
		return len(p), nil
	}
	out := p
	cut := false
	if h.tamper != nil {
		out, cut = h.tamper(widx, p)
	}
	if h.split && len(out) > 1 && !cut {
		// deliver in pieces, letting the reader run in between
		pieces := 1 + h.srng.Intn(4)
		rest := out
		for i := 0; i < pieces && len(rest) > 1; i++ {
			n := 1 + h.srng.Intn(len(rest)-1)
			h.deliver(rest[:n])
			rest = rest[n:]
			l.cond.Broadcast()
			l.mu.Unlock()
			runtime.Gosched()
			l.mu.Lock()
		}
		h.deliver(rest)
	} else {
		h.deliver(out)
	}
	if cut {
		h.cut, h.closed = true, true
	}
	l.cond.Broadcast()
	l.mu.Unlock()
	return len(p), nil
}

// CloseWrite ends the outgoing stream (reader sees EOF after draining).
func (e *endpoint) CloseWrite() {
	l := e.l
	h := l.half[e.side]
	l.mu.Lock()
	if !h.closed {
		if h.atClose != nil {
			h.deliver(h.atClose())
		}
		h.closed = true
	}
	l.cond.Broadcast()
	l.mu.Unlock()
}

func (e *endpoint) Close() error                     { e.CloseWrite(); return nil }
func (e *endpoint) LocalAddr() net.Addr              { return pipeAddr{} }
func (e *endpoint) RemoteAddr() net.Addr             { return pipeAddr{} }
func (e *endpoint) SetDeadline(time.Time) error      { return nil }
func (e *endpoint) SetReadDeadline(time.Time) error  { return nil }
func (e *endpoint) SetWriteDeadline(time.Time) error { return nil }

type pipeAddr struct{}

func (pipeAddr) Network() string { return "verifpipe" }
func (pipeAddr) String() string  { return "verifpipe" }
