package main

// Hand-made RLPx handshake packets (EIP-8 format) so that the harness can play a malicious
// peer: ECIES written from SEC 1 / the RLPx spec with a caller-chosen ephemeral point R and
// shared secret z, which lets it place off-curve points on the wire.

import (
	"crypto/aes"
	"crypto/cipher"
	"crypto/ecdsa"
	"crypto/hmac"
	"crypto/sha256"
	"encoding/binary"
	"math/big"
	"math/rand"

	"github.com/ethereum/go-ethereum/crypto"
	"github.com/ethereum/go-ethereum/rlp"
)

type craftAuth struct {
	Signature       [65]byte
	InitiatorPubkey [64]byte
	Nonce           [32]byte
	Version         uint
}

type craftAuthResp struct {
	RandomPubkey [64]byte
	Nonce        [32]byte
	Version      uint
}

// eciesSeal builds prefix || R || IV || AES-128-CTR(m) || HMAC-SHA256 with the given
// ephemeral point (rx, ry) and 32-byte shared secret z. padLen zero bytes are appended to m.
func eciesSeal(rng *rand.Rand, rx, ry *big.Int, z []byte, m []byte, padLen int) []byte {
	m = append(append([]byte{}, m...), make([]byte, padLen)...)
	// NIST SP 800-56 concatenation KDF, one round of SHA-256 gives 32 bytes.
	h := sha256.New()
	h.Write([]byte{0, 0, 0, 1})
	h.Write(z)
	k := h.Sum(nil)
	ke := k[:16]
	kmh := sha256.Sum256(k[16:32])
	iv := make([]byte, 16)
	rng.Read(iv)
	blk, _ := aes.NewCipher(ke)
	ct := make([]byte, len(m))
	cipher.NewCTR(blk, iv).XORKeyStream(ct, m)
	em := append(iv, ct...)
	size := 65 + len(em) + 32
	prefix := make([]byte, 2)
	binary.BigEndian.PutUint16(prefix, uint16(size))
	mac := hmac.New(sha256.New, kmh[:])
	mac.Write(em)
	mac.Write(prefix)
	tag := mac.Sum(nil)
	out := append([]byte{}, prefix...)
	out = append(out, 4)
	out = append(out, pad32(rx)...)
	out = append(out, pad32(ry)...)
	out = append(out, em...)
	out = append(out, tag...)
	return out
}

func pad32(x *big.Int) []byte {
	b := x.Bytes()
	if len(b) > 32 {
		b = b[len(b)-32:]
	}
	return append(make([]byte, 32-len(b)), b...)
}

// sharedX returns the x coordinate of d*(x,y) as computed by the curve implementation in
// use (also for points that are not on the curve: this is what code lacking an on-curve
// check would derive), or nil.
func sharedX(x, y *big.Int, d *big.Int) (z []byte) {
	defer func() {
		if recover() != nil {
			z = nil
		}
	}()
	sx, _ := crypto.S256().ScalarMult(x, y, pad32(d))
	if sx == nil {
		return nil
	}
	return pad32(sx)
}

// offCurvePoint returns a point with coordinates below the field prime that is not on
// secp256k1. kind 0: random x,y; 1: on-curve x with y+1; 2: (x, 0); 3: (0, 0) .
func offCurvePoint(rng *rand.Rand, kind int) (*big.Int, *big.Int) {
	c := crypto.S256()
	p := c.Params().P
	for {
		var x, y *big.Int
		switch kind {
		case 0:
			x = new(big.Int).Rand(rng, p)
			y = new(big.Int).Rand(rng, p)
		case 1:
			k := genKey(rng)
			x = k.PublicKey.X
			y = new(big.Int).Add(k.PublicKey.Y, big.NewInt(1))
			y.Mod(y, p)
		case 2:
			x = new(big.Int).Rand(rng, p)
			y = new(big.Int)
		default:
			x, y = new(big.Int), new(big.Int)
		}
		if !c.IsOnCurve(x, y) {
			return x, y
		}
	}
}

// genKey derives a secp256k1 key deterministically from rng.
func genKey(rng *rand.Rand) *ecdsa.PrivateKey {
	for {
		b := make([]byte, 32)
		rng.Read(b)
		k, err := crypto.ToECDSA(b)
		if err == nil {
			return k
		}
	}
}

func xorBytes(a, b []byte) []byte {
	o := make([]byte, len(a))
	for i := range a {
		o[i] = a[i] ^ b[i]
	}
	return o
}

// makeAuthPlain returns the RLP plaintext of an auth message from initiator key ik to
// recipient public key rpub. If badPub is non-nil it replaces the initiator public key field.
// sigMode: 0 genuine, 1 r=0, 2 s=0, 3 recovery id 4..255, 4 random bytes, 5 r>=N.
func makeAuthPlain(rng *rand.Rand, ik *ecdsa.PrivateKey, rpub *ecdsa.PublicKey, badPub []byte, sigMode int) []byte {
	var m craftAuth
	rng.Read(m.Nonce[:])
	eph := genKey(rng)
	token := sharedX(rpub.X, rpub.Y, ik.D)
	if token == nil {
		token = make([]byte, 32)
	}
	sig, _ := crypto.Sign(xorBytes(token, m.Nonce[:]), eph)
	copy(m.Signature[:], sig)
	switch sigMode {
	case 1:
		copy(m.Signature[:32], make([]byte, 32))
	case 2:
		copy(m.Signature[32:64], make([]byte, 32))
	case 3:
		m.Signature[64] = byte(4 + rng.Intn(252))
	case 4:
		rng.Read(m.Signature[:])
		m.Signature[64] = byte(rng.Intn(4))
	case 5:
		for i := 0; i < 32; i++ {
			m.Signature[i] = 0xff
		}
	}
	copy(m.InitiatorPubkey[:], crypto.FromECDSAPub(&ik.PublicKey)[1:])
	if badPub != nil {
		copy(m.InitiatorPubkey[:], badPub)
	}
	m.Version = 4
	b, _ := rlp.EncodeToBytes(&m)
	return b
}

// makeAuthRespPlain returns the RLP plaintext of an auth response carrying the given
// ephemeral public key bytes.
func makeAuthRespPlain(rng *rand.Rand, ephPub []byte) []byte {
	var m craftAuthResp
	copy(m.RandomPubkey[:], ephPub)
	rng.Read(m.Nonce[:])
	m.Version = 4
	b, _ := rlp.EncodeToBytes(&m)
	return b
}

// sealTo encrypts plaintext to pub with a genuine ephemeral key.
func sealTo(rng *rand.Rand, pub *ecdsa.PublicKey, plain []byte) []byte {
	e := genKey(rng)
	z := sharedX(pub.X, pub.Y, e.D)
	return eciesSeal(rng, e.PublicKey.X, e.PublicKey.Y, z, plain, 100+rng.Intn(100))
}
