package main

import (
	"context"
	"fmt"
	"runtime"
	"strings"
	"sync"
	"time"

	"github.com/ethereum/go-ethereum/rpc"
)

// svc is the test service registered as namespace "test" on a per-session rpc.Server.
type svc struct {
	mu      sync.Mutex
	latches map[int]chan struct{}
	bg      sync.WaitGroup
}

func newSvc() *svc { return &svc{latches: map[int]chan struct{}{}} }

func (s *svc) latch(i int) chan struct{} {
	s.mu.Lock()
	defer s.mu.Unlock()
	ch, ok := s.latches[i]
	if !ok {
		ch = make(chan struct{})
		s.latches[i] = ch
	}
	return ch
}

// release opens latch i (idempotent).
func (s *svc) release(i int) {
	ch := s.latch(i)
	s.mu.Lock()
	defer s.mu.Unlock()
	select {
	case <-ch:
	default:
		close(ch)
	}
}

type echoResult struct {
	S string `json:"s"`
	I int    `json:"i"`
}

type codedErr struct{ code int }

func (e *codedErr) Error() string  { return fmt.Sprintf("test failure %d", e.code) }
func (e *codedErr) ErrorCode() int { return e.code }

func (s *svc) Echo(str string, i int) echoResult { return echoResult{str, i} }

func (s *svc) Fail(code int) (int, error) { return 0, &codedErr{code} }

func (s *svc) Panic() string { panic("test service panic") }

func (s *svc) Nothing() {}

func (s *svc) Large(n int) string { return strings.Repeat("x", n) }

func (s *svc) Sleep(us int) int {
	time.Sleep(time.Duration(us) * time.Microsecond)
	return us
}

func (s *svc) SleepCtx(ctx context.Context, us int) (int, error) {
	t := time.NewTimer(time.Duration(us) * time.Microsecond)
	defer t.Stop()
	select {
	case <-t.C:
		return us, nil
	case <-ctx.Done():
		return 0, ctx.Err()
	}
}

// Block waits for the harness-controlled latch and ignores its context.
func (s *svc) Block(latch int) int {
	<-s.latch(latch)
	return latch
}

// BlockCtx waits for the latch or for cancellation of the call context.
func (s *svc) BlockCtx(ctx context.Context, latch int) (int, error) {
	select {
	case <-s.latch(latch):
		return latch, nil
	case <-ctx.Done():
		return 0, ctx.Err()
	}
}

// Events is the subscription "events": it emits k notifications before returning (they are
// buffered by the Notifier until the server activates it) and bg more from a goroutine that
// races with the writing of the response.
func (s *svc) Events(ctx context.Context, k int, bg int) (*rpc.Subscription, error) {
	notifier, ok := rpc.NotifierFromContext(ctx)
	if !ok {
		return nil, rpc.ErrNotificationsUnsupported
	}
	sub := notifier.CreateSubscription()
	for i := 0; i < k; i++ {
		notifier.Notify(sub.ID, i)
	}
	if bg > 0 {
		s.bg.Add(1)
		go func() {
			defer s.bg.Done()
			for i := k; i < k+bg; i++ {
				if i%2 == 0 {
					runtime.Gosched()
				}
				if notifier.Notify(sub.ID, i) != nil {
					return
				}
			}
		}()
	}
	return sub, nil
}
