// C49: JSON-RPC answers every call exactly once.
//
// A per-session rpc.Server with a test service is driven (a) over an in-memory duplex pipe
// through ServeCodec with raw JSON written by the harness and the raw output bytes recorded,
// and (b) through ServeHTTP with per-request context deadlines in the range of the method
// latencies. An offline matcher (match.go) decides exactly-once from the recorded bytes.
// No verdict depends on timing: a call may be answered by its result, its error or the
// timeout error - exactly one of them.
package main

import (
	"bytes"
	"context"
	"encoding/json"
	"fmt"
	"io"
	"math/rand"
	"net/http"
	"net/http/httptest"
	"runtime"
	"strings"
	"sync"
	"sync/atomic"
	"time"

	"github.com/ethereum/go-ethereum/rpc"

	"verif/lib/sched"
	"verif/lib/vrt"
)

func main() { vrt.Main("C49", run) }

// duplex is the harness end of the in-memory connection handed to rpc.NewCodec: the server
// reads requests from one synchronous pipe and writes responses to another. Write deadlines
// are ignored so that no response can be lost to a wall-clock write timeout.
type duplex struct {
	r *io.PipeReader
	w *io.PipeWriter
}

func (d *duplex) Read(p []byte) (int, error)       { return d.r.Read(p) }
func (d *duplex) Write(p []byte) (int, error)      { return d.w.Write(p) }
func (d *duplex) SetWriteDeadline(time.Time) error { return nil }
func (d *duplex) Close() error                     { d.r.Close(); return d.w.Close() }

type sessParams struct {
	ItemLimit int
	RespLimit int
	NMsgs     int
	NHTTP     int
	Garbage   string // "", "syntax", "truncated"
	Gmp       int
}

type sessionResult struct {
	Params   sessParams    `json:"params"`
	Steps    []step        `json:"steps,omitempty"`
	Output   string        `json:"output,omitempty"`
	HTTP     []httpOutcome `json:"http,omitempty"`
	Findings []finding     `json:"findings,omitempty"`
}

type httpOutcome struct {
	Msg    *message `json:"msg"`
	Status int      `json:"status"`
	Body   string   `json:"body"`
}

// reader consumes the server's output, records it and keeps just enough online knowledge
// (number of responses, announced and seen notifications) to pace the session. The verdict
// is computed offline from buf.
type reader struct {
	buf       bytes.Buffer // written by the reader goroutine only; read after done
	responses atomic.Int64
	notifWant atomic.Int64
	notifSeen atomic.Int64
	done      chan struct{}
	subK      map[string]int
}

func (rd *reader) loop(src io.Reader) {
	defer close(rd.done)
	tee := io.TeeReader(src, &rd.buf)
	dec := json.NewDecoder(tee)
	for {
		var raw json.RawMessage
		if err := dec.Decode(&raw); err != nil {
			io.Copy(io.Discard, tee) // keep recording whatever follows
			return
		}
		t := bytes.TrimSpace(raw)
		if len(t) == 0 {
			continue
		}
		note := func(e json.RawMessage) {
			var o struct {
				ID     json.RawMessage `json:"id"`
				Result json.RawMessage `json:"result"`
			}
			if json.Unmarshal(e, &o) == nil && len(o.Result) > 0 && o.Result[0] == '"' && len(o.ID) > 0 {
				if k, ok := rd.subK[idKey(o.ID)]; ok {
					rd.notifWant.Add(int64(k))
				}
			}
		}
		if t[0] == '[' {
			var elems []json.RawMessage
			json.Unmarshal(raw, &elems)
			for _, e := range elems {
				note(e)
			}
			rd.responses.Add(1)
			continue
		}
		var o struct {
			Method string `json:"method"`
		}
		json.Unmarshal(raw, &o)
		if o.Method != "" {
			rd.notifSeen.Add(1)
			continue
		}
		note(raw)
		rd.responses.Add(1)
	}
}

func genSession(rng *rand.Rand, sess int, gmp int) (sessParams, []step, []*message, []*message) {
	p := sessParams{Gmp: gmp}
	p.ItemLimit = []int{0, 0, 3, 8, 25}[rng.Intn(5)]
	p.RespLimit = []int{0, 0, 120, 2500, 60000}[rng.Intn(5)]
	p.NMsgs = 20 + rng.Intn(60)
	p.NHTTP = 6 + rng.Intn(14)
	p.Garbage = []string{"", "", "syntax", "syntax", "truncated"}[rng.Intn(5)]

	g := &gen{rng: rng, sess: sess, itemLimit: p.ItemLimit, maxSleep: 300}
	var steps []step
	var msgs []*message
	pendingLatches := []int{}
	for i := 0; i < p.NMsgs; i++ {
		m := g.genMessage(i)
		msgs = append(msgs, m)
		steps = append(steps, step{Op: "send", Msg: m})
		pendingLatches = append(pendingLatches, latchesOf(m)...)
		for len(pendingLatches) > 0 && rng.Intn(3) == 0 {
			k := rng.Intn(len(pendingLatches))
			steps = append(steps, step{Op: "release", Latch: pendingLatches[k]})
			pendingLatches = append(pendingLatches[:k], pendingLatches[k+1:]...)
		}
		switch rng.Intn(6) {
		case 0:
			steps = append(steps, step{Op: "wait"})
		case 1:
			steps = append(steps, step{Op: "yield"})
		}
	}
	for _, l := range pendingLatches {
		steps = append(steps, step{Op: "release", Latch: l})
	}
	// HTTP requests (same server, concurrent with the pipe script)
	gh := &gen{rng: rng, sess: sess, nextID: 50000, nextLatch: 50000, itemLimit: p.ItemLimit, http: true, maxSleep: 4000}
	var hmsgs []*message
	for i := 0; i < p.NHTTP; i++ {
		var m *message
		switch w := rng.Intn(20); {
		case w == 0:
			m = &message{Index: 1000 + i, Kind: "garbage", Raw: garbage[rng.Intn(len(garbage))], HTTP: true}
		case w == 1:
			m = &message{Index: 1000 + i, Kind: "empty-body", Raw: "", HTTP: true}
		default:
			m = gh.genMessage(1000 + i)
		}
		if rng.Intn(10) < 7 {
			// deadlines in the range of the method latencies (0.1 - 6 ms), so that both the
			// timer and the method win
			m.TimeoutUs = 100 + rng.Intn([]int{400, 2000, 6000}[rng.Intn(3)])
		}
		hmsgs = append(hmsgs, m)
	}
	return p, steps, msgs, hmsgs
}

type sessStats struct {
	timeoutsWon, methodWon int
	httpWithDeadline       int
	limitHit, tooLarge     int
	quiesceTimedOut        bool
}

// runSession executes one session; ok=false means the watchdog abandoned it.
func runSession(r *vrt.Run, rng *rand.Rand, sess int, gmp int) (res *sessionResult, st matchStats, ss sessStats, ok bool) {
	p, steps, msgs, hmsgs := genSession(rng, sess, gmp)
	res = &sessionResult{Params: p}

	service := newSvc()
	server := rpc.NewServer()
	if err := server.RegisterName("test", service); err != nil {
		panic(err)
	}
	server.SetBatchLimits(p.ItemLimit, p.RespLimit)

	reqR, reqW := io.Pipe()
	respR, respW := io.Pipe()
	conn := &duplex{r: reqR, w: respW}
	served := make(chan struct{})
	go func() {
		defer close(served)
		server.ServeCodec(rpc.NewCodec(conn), 0)
	}()

	rd := &reader{done: make(chan struct{}), subK: map[string]int{}}
	for _, m := range msgs {
		for _, it := range m.Items {
			if it.Method == "test_subscribe" && !m.TooLarge {
				rd.subK[it.IDKey] = it.SubK
			}
		}
	}
	go rd.loop(respR)

	// HTTP side
	var hwg sync.WaitGroup
	outcomes := make([]httpOutcome, len(hmsgs))
	hseeds := make([]int64, len(hmsgs))
	for i := range hseeds {
		hseeds[i] = rng.Int63()
	}
	nWorkers := 1 + rng.Intn(3)
	var next atomic.Int64
	for w := 0; w < nWorkers; w++ {
		hwg.Add(1)
		go func() {
			defer hwg.Done()
			for {
				i := int(next.Add(1)) - 1
				if i >= len(hmsgs) {
					return
				}
				outcomes[i] = doHTTP(server, service, hmsgs[i], rand.New(rand.NewSource(hseeds[i])))
			}
		}()
	}

	// pipe script
	expected := int64(0)
	abandoned := false
	scriptDone := make(chan struct{})
	go func() {
		defer close(scriptDone)
		blockedBy := map[int]int{} // latch -> responses withheld until it is released
		countable := int64(0)
		for _, s := range steps {
			switch s.Op {
			case "send":
				if _, err := reqW.Write([]byte(s.Msg.Raw)); err != nil {
					return
				}
				// a separator is needed after top-level scalars ("null" "null" would fuse)
				reqW.Write([]byte([]string{"\n", " ", "\r\n"}[rng.Intn(3)]))
				e := int64(expectedResponses(s.Msg))
				expected += e
				if l := latchesOf(s.Msg); len(l) > 0 && !s.Msg.TooLarge {
					blockedBy[l[len(l)-1]] += int(e)
				} else {
					countable += e
				}
			case "release":
				service.release(s.Latch)
				countable += int64(blockedBy[s.Latch])
				delete(blockedBy, s.Latch)
			case "wait":
				// pacing only: let the server catch up with what it can answer (bounded)
				for i := 0; i < 3000 && rd.responses.Load() < countable; i++ {
					runtime.Gosched()
				}
			case "yield":
				runtime.Gosched()
			}
		}
	}()

	deadline := time.After(300 * time.Second) // watchdog: inconclusive only
	select {
	case <-scriptDone:
	case <-deadline:
		abandoned = true
	}
	if !abandoned {
		// Let the server answer everything before the connection is torn down. Pacing only:
		// the verdict is taken from the state after the server has finished all handlers.
		t0 := time.Now()
		for rd.responses.Load() < expected || rd.notifSeen.Load() < rd.notifWant.Load() {
			if time.Since(t0) > 30*time.Second {
				ss.quiesceTimedOut = true
				break
			}
			time.Sleep(50 * time.Microsecond)
		}
		switch p.Garbage {
		case "syntax":
			gm := &message{Index: len(msgs), Kind: "garbage", Raw: garbage[rng.Intn(len(garbage))]}
			msgs = append(msgs, gm)
			steps = append(steps, step{Op: "send", Msg: gm})
			reqW.Write([]byte(gm.Raw))
		case "truncated":
			gm := &message{Index: len(msgs), Kind: "truncated", Raw: `{"jsonrpc":"2.0","id":1,"method":"test_ec`}
			msgs = append(msgs, gm)
			steps = append(steps, step{Op: "send", Msg: gm})
			reqW.Write([]byte(gm.Raw))
		}
		// Half-close: the server sees EOF, waits for all call goroutines, closes the codec.
		reqW.Close()
		select {
		case <-rd.done:
		case <-deadline:
			abandoned = true
		}
	}
	hdone := make(chan struct{})
	go func() { hwg.Wait(); close(hdone) }()
	select {
	case <-hdone:
	case <-deadline:
		abandoned = true
	}
	if abandoned {
		for _, m := range append(append([]*message{}, msgs...), hmsgs...) {
			for _, l := range latchesOf(m) {
				service.release(l)
			}
		}
		reqW.Close()
		conn.Close()
		buf := make([]byte, 1<<16)
		buf = buf[:runtime.Stack(buf, true)]
		r.Inconclusive("session %d did not finish within the watchdog (params %+v); goroutines: %s", sess, p, trunc(string(buf), 3000))
		r.Count("sessions_abandoned", 1)
		return res, st, ss, false
	}
	<-served
	server.Stop()

	// ---- offline matching ----
	out := rd.buf.Bytes()
	mt := newMatcher(msgs)
	mt.complete = true
	mt.respLimit = p.RespLimit
	mt.run(out)
	res.Findings = append(res.Findings, mt.findings...)
	st = mt.st
	for i, o := range outcomes {
		hm := newMatcher([]*message{hmsgs[i]})
		hm.complete = true
		hm.respLimit = p.RespLimit
		hm.timeouts = hmsgs[i].TimeoutUs > 0
		hm.run([]byte(o.Body))
		// a refused request (HTTP status != 200) carries a plain-text body: none is generated here
		for _, f := range hm.findings {
			f.FP = "http:" + f.FP
			f.Msg = fmt.Sprintf("HTTP request %q (deadline %dus) -> status %d body %q: %s", trunc(hmsgs[i].Raw, 200), hmsgs[i].TimeoutUs, o.Status, trunc(o.Body, 300), f.Msg)
			res.Findings = append(res.Findings, f)
		}
		if hmsgs[i].TimeoutUs > 0 {
			ss.httpWithDeadline++
			ss.timeoutsWon += hm.st.Timeouts
			ss.methodWon += hm.st.Results + hm.st.Errors
		}
		addStats(&st, hm.st)
	}
	ss.limitHit = st.LimitHit
	ss.tooLarge = st.BatchTooLarge
	if len(res.Findings) > 0 {
		res.Steps = steps
		res.Output = trunc(string(out), 200000)
		res.HTTP = outcomes
	}
	return res, st, ss, true
}

func addStats(a *matchStats, b matchStats) {
	a.Responses += b.Responses
	a.Arrays += b.Arrays
	a.Notifs += b.Notifs
	a.Results += b.Results
	a.Errors += b.Errors
	a.Timeouts += b.Timeouts
	a.TooLargeItems += b.TooLargeItems
	a.BatchTooLarge += b.BatchTooLarge
	a.OrphanNotifs += b.OrphanNotifs
	a.NoIDMember += b.NoIDMember
	a.InvalidIDEchoed += b.InvalidIDEchoed
	a.Malformed += b.Malformed
	a.OrderPreserved += b.OrderPreserved
	a.OrderNotPreseved += b.OrderNotPreseved
	a.LimitChecked += b.LimitChecked
	a.LimitHit += b.LimitHit
	a.NotifCountMismatch += b.NotifCountMismatch
	a.TruncatedAnswered += b.TruncatedAnswered
	a.SubsActivated += b.SubsActivated
}

// doHTTP serves one request through Server.ServeHTTP with an optional context deadline.
func doHTTP(server *rpc.Server, service *svc, m *message, rng *rand.Rand) httpOutcome {
	ctx := context.Background()
	if m.TimeoutUs > 0 {
		var cancel context.CancelFunc
		ctx, cancel = context.WithTimeout(ctx, time.Duration(m.TimeoutUs)*time.Microsecond)
		defer cancel()
	}
	req, err := http.NewRequestWithContext(ctx, http.MethodPost, "http://c49.test/", strings.NewReader(m.Raw))
	if err != nil {
		panic(err)
	}
	req.Header.Set("content-type", "application/json")
	// latches of this request are released by a timer goroutine (methods over HTTP are
	// context aware as well); when it fires relative to the deadline is irrelevant to the verdict
	if ls := latchesOf(m); len(ls) > 0 {
		d := time.Duration(rng.Intn(3000)) * time.Microsecond
		go func() {
			time.Sleep(d)
			for _, l := range ls {
				service.release(l)
			}
		}()
	}
	rec := httptest.NewRecorder()
	server.ServeHTTP(rec, req)
	return httpOutcome{Msg: m, Status: rec.Code, Body: rec.Body.String()}
}

func run(r *vrt.Run) {
	r.Rule("each case is one generated session against a fresh rpc.Server (random SetBatchLimits item limit in {0,3,8,25} and response limit in {0,120,2500,60000}) with a test service (echo, fail, panic, nothing, large 0-70kB, sleep, ctx-aware sleep, latch-blocked, ctx-aware latch-blocked, subscribe emitting k buffered + bg racing notifications, unknown method, bad params): 20-80 raw messages over a ServeCodec pipe (singles, batches of 1-30 elements mixing calls, notifications, invalid elements with and without id, response-shaped and subscription-shaped elements, duplicate ids, empty batches; pipelined, with latch releases and pacing steps; optional final syntax garbage or truncated input) plus 6-20 concurrent ServeHTTP requests with context deadlines of 0.1-6 ms against method latencies of 0-4 ms; GOMAXPROCS in {1,4,16 (or the environment's limit)}; sched perturbation at the rpc yield points. Non-trivial signature = (item limit hit, response limit hit, garbage kind, subscriptions activated, timeout-vs-completion orders observed over HTTP {timer first, method first}, batch with duplicate ids present, GOMAXPROCS, message-count bucket)")
	ctl := sched.New(uint64(r.Seed)*0x9e3779b97f4a7c15 + 4949)
	ctl.Intensity = 50
	rpc.VerifYieldHook = ctl.Hook

	n := r.N(300, 20000)
	if r.Race() {
		n = r.N(60, 3000) // about 1 CPU-second per session under -race (a goroutine per call, deep stacks)
	}
	orig := runtime.GOMAXPROCS(0)
	// phases {1, 4, 16}; the top phase follows the environment when that is throttled
	gmps := []int{1, 4, min(16, max(orig, 4))}
	per := n / len(gmps)
	for gi, gmp := range gmps {
		runtime.GOMAXPROCS(gmp)
		vrt.Par(per, 8, func(k int) {
			i := gi*per + k
			if r.NumViolations() >= 30 || r.Counter("sessions_abandoned") >= 3 {
				r.Count("sessions_skipped_after_failures", 1)
				return
			}
			rng := r.Rand("session", i)
			r.Case("session %d gomaxprocs=%d", i, gmp)
			res, st, ss, ok := runSession(r, rng, i, gmp)
			if !ok {
				return
			}
			for _, f := range res.Findings {
				r.Violation(f.FP, f.Msg, res)
			}
			r.Count("sessions", 1)
			r.Count("pipe_messages", res.Params.NMsgs)
			r.Count("http_requests", res.Params.NHTTP)
			r.Count("http_requests_with_deadline", ss.httpWithDeadline)
			r.Count("responses_single", st.Responses)
			r.Count("responses_batch", st.Arrays)
			r.Count("notifications", st.Notifs)
			r.Count("calls_answered_result", st.Results)
			r.Count("calls_answered_error", st.Errors)
			r.Count("calls_answered_timeout", st.Timeouts)
			r.Count("calls_answered_response_too_large", st.TooLargeItems)
			r.Count("batches_refused_item_limit", st.BatchTooLarge)
			r.Count("batches_response_limit_checked", st.LimitChecked)
			r.Count("batches_response_limit_hit", st.LimitHit)
			r.Count("http_timer_first", ss.timeoutsWon)
			r.Count("http_method_first", ss.methodWon)
			r.Count("subscriptions_activated", st.SubsActivated)
			r.Count("recorded_orphan_notifications", st.OrphanNotifs)
			r.Count("recorded_error_without_id_member", st.NoIDMember)
			r.Count("recorded_invalid_id_echoed", st.InvalidIDEchoed)
			r.Count("recorded_malformed_response", st.Malformed)
			r.Count("recorded_batch_order_preserved", st.OrderPreserved)
			r.Count("recorded_batch_order_not_preserved", st.OrderNotPreseved)
			r.Count("recorded_notification_count_mismatch", st.NotifCountMismatch)
			r.Count("recorded_truncated_input_answered", st.TruncatedAnswered)
			if ss.quiesceTimedOut {
				r.Count("quiesce_timed_out", 1)
			}
			sig := fmt.Sprintf("il=%v/rl=%v/g=%s/subs=%v/tf=%v/mf=%v/gmp=%d/n=%d", ss.tooLarge > 0, ss.limitHit > 0, res.Params.Garbage, st.SubsActivated > 0, ss.timeoutsWon > 0, ss.methodWon > 0, gmp, res.Params.NMsgs/30)
			r.Eval(sig)
			if i < 2 && r.WantSample() {
				r.Sample(map[string]any{"params": res.Params, "responses": st.Responses, "arrays": st.Arrays, "notifications": st.Notifs})
			}
		})
	}
	runtime.GOMAXPROCS(orig)
	for k, v := range ctl.Hits() {
		r.Count("yield_"+strings.ReplaceAll(k, "-", "_"), int(v))
	}
	r.Extra("sched_signature", fmt.Sprintf("%016x", ctl.Signature()))
	r.Extra("gomaxprocs_phases", gmps)

	r.Require("http_timer_first", 20)
	r.Require("http_method_first", 20)
	r.Require("batches_refused_item_limit", 10)
	r.Require("batches_response_limit_hit", 10)
	r.Require("subscriptions_activated", 20)
	r.Require("responses_batch", 200)
	r.Require("yield_rpc_timeout_single", 5)
	r.Require("yield_rpc_timeout_batch", 5)
	r.Require("yield_rpc_batch_next", 100)
	r.Require("yield_rpc_activate", 100)
	r.Assume("the harness connection (two io.Pipe halves, write deadlines ignored) delivers bytes in order; json.Decoder (encoding/json) as output parser")
	r.Assume("after the request side is closed the server finishes all call goroutines before closing the codec (handler.close waits on callWG): a call unanswered at output EOF is unanswered for good")
}
