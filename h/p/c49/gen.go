package main

import (
	"bytes"
	"encoding/json"
	"fmt"
	"math/rand"
	"strings"
)

// item is one element of a request (the single message itself, or a batch element), with
// what the generator knows about it.
type item struct {
	Class  string `json:"class"` // call | notif | invalid-id | invalid-noid | response | subnotif
	Raw    string `json:"raw"`
	IDKey  string `json:"id,omitempty"` // canonical id (call, invalid-id)
	Method string `json:"method,omitempty"`
	SubK   int    `json:"subk,omitempty"` // notifications a successful subscribe emits
	Latch  int    `json:"latch"`          // latch the method blocks on, -1 if none
	IsCall bool   `json:"iscall,omitempty"`
	SleepU int    `json:"sleep_us,omitempty"`
}

type message struct {
	Index     int    `json:"index"`
	Kind      string `json:"kind"` // single | batch | garbage | truncated | empty-body
	Raw       string `json:"raw"`
	Items     []item `json:"items,omitempty"`
	TooLarge  bool   `json:"too_large,omitempty"`
	HTTP      bool   `json:"http,omitempty"`
	TimeoutUs int    `json:"timeout_us,omitempty"` // HTTP: context deadline, 0 = none
}

type step struct {
	Op    string   `json:"op"` // send | release | wait | yield
	Msg   *message `json:"msg,omitempty"`
	Latch int      `json:"latch,omitempty"`
}

type gen struct {
	rng       *rand.Rand
	sess      int
	nextID    int
	nextLatch int
	itemLimit int
	http      bool
	maxSleep  int // microseconds
}

// idKey canonicalises a JSON id for "JSON-equal" comparison.
func idKey(raw []byte) string {
	dec := json.NewDecoder(bytes.NewReader(raw))
	dec.UseNumber()
	var v any
	if err := dec.Decode(&v); err != nil {
		return "raw:" + string(raw)
	}
	switch x := v.(type) {
	case nil:
		return "null"
	case string:
		return "s:" + x
	case json.Number:
		return "n:" + string(x)
	case bool:
		return fmt.Sprintf("b:%v", x)
	}
	return "raw:" + string(raw)
}

// freshID returns the raw JSON of a session-unique id in one of several spellings.
func (g *gen) freshID() string {
	g.nextID++
	n := g.sess*100000 + g.nextID
	switch g.rng.Intn(10) {
	case 0:
		return fmt.Sprintf(`"s%d"`, n)
	case 1:
		return fmt.Sprintf(`"id %d \"q\""`, n) // escapes: decodes to: id N "q"
	case 2:
		return fmt.Sprintf(`%d.5`, n)
	case 3:
		return fmt.Sprintf(`-%d`, n)
	case 4:
		return fmt.Sprintf(`"%d"`, n)
	}
	return fmt.Sprintf(`%d`, n)
}

func (g *gen) callBody(id string, notif bool) item {
	it := item{Latch: -1}
	idPart := ""
	if !notif {
		idPart = `"id":` + id + `,`
		it.IDKey = idKey([]byte(id))
		it.Class = "call"
		it.IsCall = true
	} else {
		it.Class = "notif"
	}
	method, params := "", ""
	w := g.rng.Intn(100)
	switch {
	case w < 30:
		method, params = "test_echo", fmt.Sprintf(`["v%d",%d]`, g.rng.Intn(100), g.rng.Intn(1000))
	case w < 40:
		method, params = "test_fail", fmt.Sprintf(`[%d]`, 400+g.rng.Intn(50))
	case w < 44:
		method, params = "test_panic", `[]`
	case w < 48:
		method, params = "test_nothing", ``
	case w < 57:
		// sizes chosen against the response limits {120, 2500, 60000}; the big one is rare
		// (every byte is copied a dozen times on its way, which is expensive under -race)
		n := []int{0, 10, 150, 1500, 1500, 9000}[g.rng.Intn(6)]
		if g.rng.Intn(12) == 0 {
			n = 70000
		}
		method, params = "test_large", fmt.Sprintf(`[%d]`, n)
	case w < 67:
		it.SleepU = g.rng.Intn(g.maxSleep + 1)
		method, params = "test_sleep", fmt.Sprintf(`[%d]`, it.SleepU)
	case w < 73:
		it.SleepU = g.rng.Intn(g.maxSleep + 1)
		method, params = "test_sleepCtx", fmt.Sprintf(`[%d]`, it.SleepU)
	case w < 79:
		g.nextLatch++
		it.Latch = g.nextLatch
		if g.http {
			// over HTTP every blocking method is context aware or released by a timer goroutine
			method = "test_blockCtx"
		} else {
			method = "test_block"
		}
		params = fmt.Sprintf(`[%d]`, it.Latch)
	case w < 83:
		g.nextLatch++
		it.Latch = g.nextLatch
		method, params = "test_blockCtx", fmt.Sprintf(`[%d]`, it.Latch)
	case w < 92:
		if notif {
			method, params = "test_echo", `["n",1]`
			break
		}
		k, bg := g.rng.Intn(4), g.rng.Intn(4)
		method, params = "test_subscribe", fmt.Sprintf(`["events",%d,%d]`, k, bg)
		it.SubK = k + bg
	case w < 95:
		method, params = "test_doesNotExist", `[1]`
	case w < 97:
		method, params = "other_subscribe", `["nosuch"]`
	default:
		method, params = "test_echo", `["too","many",3]` // invalid params
	}
	it.Method = method
	p := ""
	if params != "" {
		p = `,"params":` + params
	}
	it.Raw = `{"jsonrpc":"2.0",` + idPart + `"method":"` + method + `"` + p + `}`
	return it
}

func (g *gen) genItem(inBatch bool, dupFrom []item) item {
	w := g.rng.Intn(100)
	switch {
	case w < 68:
		id := g.freshID()
		dup := false
		if inBatch && len(dupFrom) > 0 && g.rng.Intn(8) == 0 {
			// deliberate duplicate id inside the batch: each must be answered
			for _, d := range dupFrom {
				if d.Class == "call" && d.Method != "test_subscribe" {
					var m struct {
						ID json.RawMessage `json:"id"`
					}
					json.Unmarshal([]byte(d.Raw), &m)
					id = string(m.ID)
					dup = true
					break
				}
			}
		}
		it := g.callBody(id, false)
		for dup && it.Method == "test_subscribe" {
			it = g.callBody(id, false) // ids of subscribe calls stay unique (their result names the subscription)
		}
		return it
	case w < 80:
		return g.callBody("", true)
	case w < 86:
		id := g.freshID()
		raw := ""
		switch g.rng.Intn(4) {
		case 0:
			raw = `{"id":` + id + `,"method":"test_echo","params":["x",1]}`
		case 1:
			raw = `{"jsonrpc":"2.1","id":` + id + `,"method":"test_echo","params":["x",1]}`
		case 2:
			raw = `{"jsonrpc":"2.0","id":` + id + `}`
		default:
			raw = `{"id":` + id + `}`
		}
		return item{Class: "invalid-id", Raw: raw, IDKey: idKey([]byte(id)), Latch: -1}
	case w < 93:
		raws := []string{`1`, `null`, `"str"`, `{"foo":"bar"}`, `{"jsonrpc":"2.0","id":{"a":1},"method":"test_echo"}`, `{"id":[],"method":"test_foo"}`, `true`, `{}`, `[]`, `{"jsonrpc":"2.0","method":""}`}
		if !inBatch {
			raws = raws[:8] // a top-level [] is the empty batch, handled as its own kind
		}
		return item{Class: "invalid-noid", Raw: raws[g.rng.Intn(len(raws))], Latch: -1}
	case w < 97:
		// looks like a response to a request the server never made: silently dropped
		id := g.freshID()
		raw := `{"jsonrpc":"2.0","id":` + id + `,"result":1}`
		if g.rng.Intn(2) == 0 {
			raw = `{"jsonrpc":"2.0","id":` + id + `,"error":{"code":-1,"message":"e"}}`
		}
		return item{Class: "response", Raw: raw, Latch: -1}
	default:
		// looks like a subscription notification for a client subscription: dropped
		return item{Class: "subnotif", Raw: `{"jsonrpc":"2.0","method":"test_subscription","params":{"subscription":"0xdead","result":1}}`, Latch: -1}
	}
}

func (g *gen) genMessage(idx int) *message {
	m := &message{Index: idx, HTTP: g.http}
	w := g.rng.Intn(100)
	switch {
	case w < 55:
		m.Kind = "single"
		it := g.genItem(false, nil)
		m.Items = []item{it}
		m.Raw = it.Raw
	case w < 58:
		m.Kind = "batch" // empty batch
		m.Raw = `[]`
	default:
		m.Kind = "batch"
		n := 1 + g.rng.Intn(6)
		if g.rng.Intn(4) == 0 {
			n = 1 + g.rng.Intn(30)
		}
		var raws []string
		for i := 0; i < n; i++ {
			it := g.genItem(true, m.Items)
			m.Items = append(m.Items, it)
			raws = append(raws, it.Raw)
		}
		sep := ","
		if g.rng.Intn(5) == 0 {
			sep = " ,\n "
		}
		m.Raw = "[" + strings.Join(raws, sep) + "]"
		m.TooLarge = g.itemLimit > 0 && n > g.itemLimit
	}
	return m
}

// latchesOf lists the latches the methods of m may block on (none if the batch is refused).
func latchesOf(m *message) []int {
	var l []int
	for _, it := range m.Items {
		if it.Latch >= 0 {
			l = append(l, it.Latch)
		}
	}
	return l
}

// expectedResponses is the number of response-type top-level outputs m produces (0 or 1).
func expectedResponses(m *message) int {
	switch m.Kind {
	case "garbage":
		return 1
	case "truncated", "empty-body":
		return 0
	case "batch":
		if len(m.Items) == 0 || m.TooLarge {
			return 1
		}
	}
	for _, it := range m.Items {
		switch it.Class {
		case "call", "invalid-id", "invalid-noid":
			return 1
		}
	}
	return 0
}

var garbage = []string{`'f`, `}`, `{"jsonrpc":"2.0",,}`, `nul!`, `{"jsonrpc":"2.0","id":1,"method":"test_echo","params":["x",1]]`, "\x00"}
