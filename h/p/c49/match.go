package main

import (
	"bytes"
	"encoding/json"
	"fmt"
	"io"
	"strings"
)

// finding is one refutation found by the offline matcher.
type finding struct {
	FP  string `json:"fingerprint"`
	Msg string `json:"msg"`
}

type matchStats struct {
	Responses, Arrays, Notifs        int
	Results, Errors, Timeouts        int // per answered call: outcome class
	TooLargeItems                    int // -32003 answers
	BatchTooLarge                    int
	OrphanNotifs                     int
	NoIDMember                       int // error objects without an "id" member (recorded, not judged)
	InvalidIDEchoed                  int // error objects echoing an object/array id (recorded, not judged)
	Malformed                        int // neither/both of result and error (recorded)
	OrderPreserved, OrderNotPreseved int
	LimitChecked, LimitHit           int
	NotifCountMismatch               int
	TruncatedAnswered                int
	SubsActivated                    int
}

type respObj struct {
	hasID   bool
	idNull  bool
	key     string
	isErr   bool
	code    int
	resStr  string // result if it is a JSON string
	size    int    // len(result)+len(error) as written
	bad     bool
	hasMeth bool
	badID   bool
	method  string
	params  json.RawMessage
}

func parseObj(raw json.RawMessage) (respObj, bool) {
	var m map[string]json.RawMessage
	if err := json.Unmarshal(raw, &m); err != nil || m == nil {
		return respObj{}, false
	}
	var o respObj
	if id, ok := m["id"]; ok {
		o.hasID = true
		if t := bytes.TrimSpace(id); string(t) == "null" {
			o.idNull = true
		} else if len(t) > 0 && (t[0] == '{' || t[0] == '[') {
			// An object/array is not a valid id. The server answers such elements with id null
			// on the normal path but echoes the raw value when it fails the rest of a batch
			// (timeout, response too large). Handling of malformed input beyond "one error
			// response" is recorded, not judged: treated like null.
			o.idNull = true
			o.badID = true
		} else {
			o.key = idKey(id)
		}
	}
	if me, ok := m["method"]; ok {
		o.hasMeth = true
		json.Unmarshal(me, &o.method)
		o.params = m["params"]
	}
	res, hasRes := m["result"]
	er, hasErr := m["error"]
	o.bad = hasRes == hasErr
	o.size = len(res) + len(er)
	if hasErr {
		o.isErr = true
		var e struct {
			Code int `json:"code"`
		}
		json.Unmarshal(er, &e)
		o.code = e.Code
	}
	if hasRes && len(res) > 0 && res[0] == '"' {
		json.Unmarshal(res, &o.resStr)
	}
	return o, true
}

type batchExp struct {
	msg      *message
	ids      map[string]int
	lenient  int
	answered int
	firstKey string // too-large: id of the first call ("" = null)
	order    []string
}

type matcher struct {
	complete  bool // the stream was read to EOF after the server finished all handlers
	respLimit int  // SetBatchLimits maxResponseSize (0 = none)
	timeouts  bool // a request timeout may fire (HTTP with deadline): limit-prefix check is skipped

	singles    map[string]*singleExp
	batchOf    map[string]*batchExp
	batches    []*batchExp
	noIDBatch  map[int]int // element count -> pending batches that have no id'd element
	nullStrict int
	nullOpt    int
	subK       map[string]int

	single   *message // set when exactly one message is expected (HTTP)
	findings []finding
	st       matchStats
}

type singleExp struct {
	msg      *message
	answered int
}

func (mt *matcher) fail(fp, format string, a ...any) {
	mt.findings = append(mt.findings, finding{fp, fmt.Sprintf(format, a...)})
}

func newMatcher(msgs []*message) *matcher {
	mt := &matcher{singles: map[string]*singleExp{}, batchOf: map[string]*batchExp{}, noIDBatch: map[int]int{}, subK: map[string]int{}}
	if len(msgs) == 1 {
		mt.single = msgs[0]
	}
	for _, m := range msgs {
		switch m.Kind {
		case "garbage":
			mt.nullStrict++
			continue
		case "truncated":
			mt.nullOpt++
			continue
		case "empty-body":
			continue
		}
		if m.Kind == "single" {
			it := m.Items[0]
			switch it.Class {
			case "call", "invalid-id":
				mt.singles[it.IDKey] = &singleExp{msg: m}
				if it.SubK > 0 || it.Method == "test_subscribe" {
					mt.subK[it.IDKey] = it.SubK
				}
			case "invalid-noid":
				mt.nullStrict++
			}
			continue
		}
		// batch
		if len(m.Items) == 0 {
			mt.nullStrict++ // empty batch: one error object with id null
			continue
		}
		b := &batchExp{msg: m, ids: map[string]int{}}
		if m.TooLarge {
			for _, it := range m.Items {
				if it.IsCall {
					b.firstKey = it.IDKey
					break
				}
			}
			for _, it := range m.Items {
				if it.IDKey != "" {
					mt.batchOf[it.IDKey] = b
				}
			}
			if b.firstKey == "" {
				mt.noIDBatch[1]++
			}
			mt.batches = append(mt.batches, b)
			continue
		}
		for _, it := range m.Items {
			switch it.Class {
			case "call", "invalid-id":
				b.ids[it.IDKey]++
				b.order = append(b.order, it.IDKey)
				mt.batchOf[it.IDKey] = b
				if it.Method == "test_subscribe" {
					mt.subK[it.IDKey] = it.SubK
				}
			case "invalid-noid":
				b.lenient++
				b.order = append(b.order, "")
			}
		}
		if len(b.ids) == 0 {
			if b.lenient > 0 {
				mt.noIDBatch[b.lenient]++
			}
		}
		mt.batches = append(mt.batches, b)
	}
	return mt
}

// run parses the recorded output bytes and matches them against the expectations.
func (mt *matcher) run(out []byte) {
	dec := json.NewDecoder(bytes.NewReader(out))
	respPos := map[string]int{}    // subscription id -> position of the response carrying it
	notifPos := map[string][]int{} // subscription id -> positions of notifications
	subOf := map[string]string{}   // subscription id -> idKey of the subscribe call
	nullSeen, nullResults := 0, 0
	pos := 0
	for {
		var raw json.RawMessage
		err := dec.Decode(&raw)
		if err == io.EOF {
			break
		}
		if err != nil {
			mt.fail("invalid-json-output", "output is not a sequence of JSON values: %v at offset %d: %q", err, dec.InputOffset(), trunc(string(out[min(int(dec.InputOffset()), len(out)):]), 80))
			return
		}
		pos++
		t := bytes.TrimSpace(raw)
		if len(t) == 0 {
			continue
		}
		switch t[0] {
		case '{':
			o, ok := parseObj(raw)
			if !ok {
				mt.fail("invalid-json-output", "cannot parse object %q", trunc(string(raw), 100))
				continue
			}
			if o.hasMeth {
				mt.st.Notifs++
				if !strings.HasSuffix(o.method, "_subscription") {
					mt.fail("unexpected-request", "server wrote a request/notification %q", trunc(string(raw), 120))
					continue
				}
				var p struct {
					Subscription string `json:"subscription"`
				}
				json.Unmarshal(o.params, &p)
				notifPos[p.Subscription] = append(notifPos[p.Subscription], pos)
				continue
			}
			mt.st.Responses++
			if o.bad {
				mt.st.Malformed++
			}
			if !o.hasID || o.idNull {
				if !o.hasID {
					mt.st.NoIDMember++
				}
				if o.badID {
					mt.st.InvalidIDEchoed++
				}
				nullSeen++
				if !o.isErr {
					nullResults++
				}
				continue
			}
			se := mt.singles[o.key]
			if se == nil {
				if b := mt.batchOf[o.key]; b != nil {
					mt.fail("batch-split", "id %s belongs to batch message #%d but was answered by a single response object", o.key, b.msg.Index)
				} else {
					mt.fail("unexpected-response", "response with id %s which no call of this connection carries (notification answered, foreign connection or invented id): %q", o.key, trunc(string(raw), 120))
				}
				continue
			}
			se.answered++
			if se.answered > 1 {
				mt.fail("duplicate-response", "call id %s (message #%d %s) was answered %d times", o.key, se.msg.Index, se.msg.Items[0].Method, se.answered)
			}
			mt.outcome(o)
			if o.resStr != "" {
				if _, isSub := mt.subK[o.key]; isSub {
					respPos[o.resStr] = pos
					subOf[o.resStr] = o.key
				}
			}
		case '[':
			mt.st.Arrays++
			var elems []json.RawMessage
			if err := json.Unmarshal(raw, &elems); err != nil {
				mt.fail("invalid-json-output", "cannot parse array: %v", err)
				continue
			}
			if len(elems) == 0 {
				mt.fail("empty-array-output", "server wrote an empty batch response")
				continue
			}
			var objs []respObj
			okAll := true
			for _, e := range elems {
				o, ok := parseObj(e)
				if !ok || o.hasMeth {
					mt.fail("batch-element", "batch response element is not a response object: %q", trunc(string(e), 100))
					okAll = false
					break
				}
				objs = append(objs, o)
			}
			if !okAll {
				continue
			}
			mt.matchArray(objs, pos, respPos, subOf)
		default:
			mt.fail("invalid-json-output", "top-level output value is neither object nor array: %q", trunc(string(raw), 60))
		}
	}
	// single responses with id null / without id
	switch {
	case nullSeen > mt.nullStrict+mt.nullOpt && mt.timeouts && mt.onlyNotification():
		mt.fail("notification-answered-on-timeout", "a single notification whose request timeout fired was answered by an error response (%d response objects without id)", nullSeen)
	case nullSeen > mt.nullStrict+mt.nullOpt:
		mt.fail("unexpected-null-response", "%d response objects with id null (or no id) were written, at most %d are explained by invalid single requests / empty batches / parse errors (a notification was answered?)", nullSeen, mt.nullStrict+mt.nullOpt)
	case nullSeen < mt.nullStrict && mt.complete:
		mt.fail("no-response-invalid", "%d invalid single requests / empty batches / parse errors had to be answered by an error with id null, only %d such responses were written", mt.nullStrict, nullSeen)
	}
	if nullSeen > mt.nullStrict && mt.nullOpt > 0 {
		mt.st.TruncatedAnswered += min(nullSeen-mt.nullStrict, mt.nullOpt)
	}
	if nullResults > 0 {
		mt.fail("unexpected-null-response", "%d non-error responses with id null", nullResults)
	}
	if mt.complete {
		for k, se := range mt.singles {
			if se.answered == 0 {
				mt.fail("no-response", "call id %s (message #%d, %s) was never answered although the server had finished all handlers", k, se.msg.Index, se.msg.Items[0].Method+se.msg.Items[0].Class)
			}
		}
		for _, b := range mt.batches {
			if b.answered == 0 && mt.timeouts && len(b.ids) > 0 {
				mt.fail("batch-timeout-unanswered-calls", "batch message #%d (%d items, call ids %v) with a request timeout was never answered at all", b.msg.Index, len(b.msg.Items), b.ids)
			} else if b.answered == 0 && (len(b.ids) > 0 || b.msg.TooLarge && b.firstKey != "") {
				mt.fail("no-batch-response", "batch message #%d (%d items) was never answered", b.msg.Index, len(b.msg.Items))
			}
		}
		for n, c := range mt.noIDBatch {
			if c > 0 && mt.timeouts {
				mt.fail("batch-timeout-unanswered-calls", "a batch with a request timeout whose %d answerable (invalid) elements carry no id was never answered at all", n)
			} else if c > 0 {
				mt.fail("no-batch-response", "%d batch(es) whose %d answerable elements carry no id were never answered", c, n)
			}
		}
	}
	// subscription notification ordering
	for s, ps := range notifPos {
		rp, ok := respPos[s]
		if !ok {
			mt.st.OrphanNotifs += len(ps)
			continue
		}
		mt.st.SubsActivated++
		if ps[0] < rp {
			mt.fail("notification-before-response", "a notification for subscription %s is output value #%d, before the response carrying that subscription id (#%d)", s, ps[0], rp)
		}
		if k := mt.subK[subOf[s]]; mt.complete && len(ps) != k {
			mt.st.NotifCountMismatch++ // delivery is not claimed by the property: recorded only
		}
	}
}

func (mt *matcher) outcome(o respObj) {
	switch {
	case !o.isErr:
		mt.st.Results++
	case o.code == -32002:
		mt.st.Timeouts++
	case o.code == -32003:
		mt.st.TooLargeItems++
	default:
		mt.st.Errors++
	}
}

func (mt *matcher) matchArray(objs []respObj, pos int, respPos map[string]int, subOf map[string]string) {
	var b *batchExp
	nulls := 0
	got := map[string]int{}
	for _, o := range objs {
		if !o.hasID || o.idNull {
			if !o.hasID {
				mt.st.NoIDMember++
			}
			if o.badID {
				mt.st.InvalidIDEchoed++
			}
			nulls++
			if !o.isErr {
				mt.fail("batch-id-multiset", "batch response contains a non-error element without id")
			}
			continue
		}
		got[o.key]++
		ob := mt.batchOf[o.key]
		if ob == nil {
			if se := mt.singles[o.key]; se != nil {
				mt.fail("single-in-batch", "id %s of single message #%d was answered inside a batch response", o.key, se.msg.Index)
			} else {
				mt.fail("unexpected-response", "batch response element with id %s which no call of this connection carries", o.key)
			}
			return
		}
		if b != nil && ob != b {
			mt.fail("batch-mixed", "one batch response mixes ids of batch messages #%d and #%d", b.msg.Index, ob.msg.Index)
			return
		}
		b = ob
	}
	if b == nil {
		// no id'd element: matched by element count
		if mt.noIDBatch[len(objs)] > 0 {
			mt.noIDBatch[len(objs)]--
			if len(objs) == 1 && objs[0].code == -32600 {
				// may be a refused (too large) batch without calls; counted below if so
			}
		} else if mt.timeouts && mt.single != nil && mt.single.Kind == "batch" && !mt.single.TooLarge && len(mt.batches) == 1 && len(mt.batches[0].ids) > 0 && len(objs) <= mt.batches[0].lenient {
			mt.batches[0].answered++
			mt.fail("batch-timeout-unanswered-calls", "batch message #%d with a request timeout: only %d id-less error element(s) were written, the calls %v were never answered", mt.single.Index, len(objs), mt.batches[0].ids)
		} else {
			mt.fail("unexpected-batch-response", "batch response of %d id-less errors matches no pending batch", len(objs))
		}
		return
	}
	b.answered++
	if b.answered > 1 {
		mt.fail("batch-answered-twice", "batch message #%d was answered by %d arrays", b.msg.Index, b.answered)
		return
	}
	if b.msg.TooLarge {
		mt.st.BatchTooLarge++
		want := b.firstKey
		ok := len(objs) == 1 && objs[0].isErr && objs[0].code == -32600
		if ok {
			if want == "" {
				ok = !objs[0].hasID || objs[0].idNull
			} else {
				ok = objs[0].key == want
			}
		}
		if !ok {
			mt.fail("batch-too-large-answer", "batch message #%d exceeds the item limit (%d items) and must be answered by one -32600 error carrying the first call's id %q; got %d elements", b.msg.Index, len(b.msg.Items), want, len(objs))
		}
		return
	}
	// multiset of ids
	same := len(got) == len(b.ids) && nulls == b.lenient
	for k, n := range b.ids {
		if got[k] != n {
			same = false
		}
	}
	if !same && mt.timeouts && subMultiset(got, b.ids) && nulls <= b.lenient {
		mt.fail("batch-timeout-unanswered-calls", "batch message #%d with a request timeout: response ids %v (+%d without id) are only a part of the call ids %v (+%d invalid elements without id): the remaining calls were never answered", b.msg.Index, got, nulls, b.ids, b.lenient)
		return
	}
	if !same {
		mt.fail("batch-id-multiset", "batch message #%d: response ids %v (+%d without id) differ from the call ids %v (+%d invalid elements without id)", b.msg.Index, got, nulls, b.ids, b.lenient)
		return
	}
	// order (recorded only)
	pres := len(objs) == len(b.order)
	for i := 0; pres && i < len(objs); i++ {
		if objs[i].key != b.order[i] {
			pres = false
		}
	}
	if pres {
		mt.st.OrderPreserved++
	} else {
		mt.st.OrderNotPreseved++
	}
	for _, o := range objs {
		if o.hasID && !o.idNull {
			mt.outcome(o)
			if o.resStr != "" {
				if _, isSub := mt.subK[o.key]; isSub {
					respPos[o.resStr] = pos
					subOf[o.resStr] = o.key
				}
			}
		}
	}
	// response size limit, as documented by SetBatchLimits and server_test.go: responses are
	// kept up to and including the one that pushes the cumulative len(result)+len(error) over
	// the limit, every later element is answered by -32003 "response too large".
	if mt.respLimit > 0 && !mt.timeouts {
		mt.st.LimitChecked++
		cum, over := 0, -1
		for i, o := range objs {
			if over >= 0 {
				if !(o.isErr && o.code == -32003) {
					mt.fail("batch-response-limit", "batch message #%d: element %d follows the element that exceeded the response size limit %d (cumulative %d) but is not a -32003 error", b.msg.Index, i, mt.respLimit, cum)
					break
				}
				continue
			}
			if o.isErr && o.code == -32003 {
				mt.fail("batch-response-limit", "batch message #%d: element %d is a -32003 error although the cumulative response size %d had not exceeded the limit %d", b.msg.Index, i, cum, mt.respLimit)
				break
			}
			cum += o.size
			if cum > mt.respLimit {
				over = i
				mt.st.LimitHit++
			}
		}
	}
}

func trunc(s string, n int) string {
	if len(s) > n {
		return s[:n] + "..."
	}
	return s
}

// onlyNotification reports whether the only expectation is a single notification.
func (mt *matcher) onlyNotification() bool {
	return mt.single != nil && mt.single.Kind == "single" && mt.single.Items[0].Class == "notif"
}

func subMultiset(a, b map[string]int) bool {
	for k, n := range a {
		if n > b[k] {
			return false
		}
	}
	return true
}
