//go:build amd64 && !purego && gc

package main

// same constraint as /repo/crypto/keccak/keccakf_amd64.go
const permImpl = "keccakf_amd64.s (assembly)"
