//go:build !amd64 || purego || !gc

package main

// same constraint as /repo/crypto/keccak/keccakf.go
const permImpl = "keccakf.go (generic Go)"
