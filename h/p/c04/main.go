// C04: the client's Keccak-256 (one-shot, streaming, reusable state with Read) equals the
// reference legacy Keccak for every input and every write splitting.
//
// Voices: (1) go-ethereum crypto / crypto/keccak as built (amd64 assembly permutation in the
// default variant, the generic Go permutation in the "purego" variant), (2)
// golang.org/x/crypto/sha3 legacy Keccak, (3) verif/lib/refhash written from FIPS-202.
// (2) and (3) are first compared with each other on the whole corpus; geth is then judged
// against that table.
package main

import (
	"bytes"
	"fmt"
	"hash"
	"io"
	"sync"

	"github.com/ethereum/go-ethereum/crypto"
	"github.com/ethereum/go-ethereum/crypto/keccak"
	"golang.org/x/crypto/sha3"

	"verif/lib/refhash"
	"verif/lib/vrt"
)

func main() { vrt.Main("C04", run) }

const rate = 136

// corpus is one long buffer; the message of length L is its prefix. ref[L] is the agreed
// reference digest of that prefix.
type corpus struct {
	name string
	buf  []byte
	ref  [][32]byte
}

func lenClass(l int) string {
	m := l % rate
	var c string
	switch {
	case m == 0:
		c = "r0"
	case m == 1:
		c = "r1"
	case m == rate-2:
		c = "r134"
	case m == rate-1:
		c = "r135"
	case m%8 == 0:
		c = fmt.Sprintf("lane%d", m/32)
	default:
		c = fmt.Sprintf("mid%d", m/32)
	}
	return fmt.Sprintf("b%d/%s", min(l/rate, 5), c)
}

func xref(msg []byte) (h [32]byte) {
	d := sha3.NewLegacyKeccak256()
	d.Write(msg)
	d.Sum(h[:0])
	return
}

func xsqueeze(msg []byte, n int) []byte {
	d := sha3.NewLegacyKeccak256()
	d.Write(msg)
	out := make([]byte, n)
	d.(io.Reader).Read(out)
	return out
}

type ctx struct {
	r *vrt.Run
}

func (c *ctx) bad(fp string, co *corpus, l int, got []byte, want []byte, extra map[string]any) {
	w := map[string]any{"corpus": co.name, "len": l, "msg": vrt.Hex(co.buf[:min(l, 2048)]), "got": vrt.Hex(got), "want": vrt.Hex(want)}
	for k, v := range extra {
		w[k] = v
	}
	c.r.Violation(fp, fmt.Sprintf("%s: corpus=%s len=%d got %x want %x %v", fp, co.name, l, got, want, extra), w)
}

// oneShot judges every whole-message API for the prefix of length l.
func (c *ctx) oneShot(co *corpus, l int, st crypto.KeccakState) {
	r := c.r
	msg := co.buf[:l]
	want := co.ref[l][:]
	lc := lenClass(l)
	if got := crypto.Keccak256(msg); !bytes.Equal(got, want) {
		c.bad("oneshot:Keccak256", co, l, got, want, nil)
	}
	r.Eval("Keccak256/" + lc)
	if got := crypto.Keccak256Hash(msg); !bytes.Equal(got[:], want) {
		c.bad("oneshot:Keccak256Hash", co, l, got[:], want, nil)
	}
	r.Eval("Keccak256Hash/" + lc)
	// variadic form = concatenation (three parts incl. an empty one)
	a, b := l/3, l-l/3
	if got := crypto.Keccak256(msg[:a], nil, msg[a:b], msg[b:]); !bytes.Equal(got, want) {
		c.bad("oneshot:Keccak256-variadic", co, l, got, want, map[string]any{"cuts": []int{a, b}})
	}
	r.Eval("Keccak256var/" + lc)
	if got := crypto.Keccak256Hash(msg[:a], msg[a:]); !bytes.Equal(got[:], want) {
		c.bad("oneshot:Keccak256Hash-variadic", co, l, got[:], want, map[string]any{"cuts": []int{a}})
	}
	r.Eval("Keccak256Hashvar/" + lc)
	// HashData on a reused state (left in squeezing state by the previous call)
	if got := crypto.HashData(st, msg); !bytes.Equal(got[:], want) {
		c.bad("oneshot:HashData-reused-state", co, l, got[:], want, nil)
	}
	r.Eval("HashData/" + lc)
	// fresh hash.Hash, Sum
	h := keccak.NewLegacyKeccak256()
	h.Write(msg)
	if got := h.Sum(nil); !bytes.Equal(got, want) {
		c.bad("hash:Sum", co, l, got, want, nil)
	}
	// Sum twice and with a prefix: appends, does not disturb
	pre := []byte{0xaa, 0xbb}
	if got := h.Sum(pre); !bytes.Equal(got[:2], pre) || !bytes.Equal(got[2:], want) {
		c.bad("hash:Sum-append", co, l, got, want, nil)
	}
	if h.Size() != 32 || h.BlockSize() != rate {
		r.Violation("hash:Size-BlockSize", fmt.Sprintf("Size=%d BlockSize=%d", h.Size(), h.BlockSize()), nil)
	}
	r.Eval("NewLegacyKeccak256.Sum/" + lc)
}

// twoSplit judges every split of the prefix l into two writes, with a mid-stream Sum.
func (c *ctx) twoSplit(co *corpus, l int, st crypto.KeccakState) {
	r := c.r
	msg := co.buf[:l]
	want := co.ref[l][:]
	var out [32]byte
	for k := 0; k <= l; k++ {
		st.Reset()
		st.Write(msg[:k])
		// Sum mid-stream = digest of the prefix written so far, and must not disturb
		if k%3 == 0 || k%rate == 0 || k%rate == rate-1 || k%rate == 1 {
			if got := st.Sum(nil); !bytes.Equal(got, co.ref[k][:]) {
				c.bad("state:Sum-midstream", co, k, got, co.ref[k][:], map[string]any{"total": l})
			}
		}
		st.Write(msg[k:])
		st.Read(out[:])
		if !bytes.Equal(out[:], want) {
			c.bad("state:split2", co, l, out[:], want, map[string]any{"cut": k})
		}
	}
	r.EvalN("split2/"+lenClass(l), l+1)
	r.Count("two_way_splits", l+1)
}

// kSplit: random k-way split (k <= 9) with empty writes and Sum calls interleaved, final
// output through Read in random chunk sizes (crossing the rate boundary when long).
func (c *ctx) kSplit(co *corpus, idx int) {
	r := c.r
	rng := r.Rand("ksplit-"+co.name, idx)
	maxL := len(co.buf)
	var l int
	switch rng.Intn(4) {
	case 0: // around rate multiples
		l = rate*rng.Intn(maxL/rate) + rng.Intn(5) - 2
	case 1:
		l = rng.Intn(2*rate + 3)
	default:
		l = rng.Intn(maxL + 1)
	}
	if l < 0 {
		l = 0
	}
	if l > maxL {
		l = maxL
	}
	msg := co.buf[:l]
	k := 1 + rng.Intn(9)
	cuts := make([]int, 0, k+1)
	for i := 0; i < k-1; i++ {
		switch rng.Intn(3) {
		case 0: // at/near a block boundary
			if l >= rate {
				p := rate*(1+rng.Intn(l/rate)) + rng.Intn(3) - 1
				if p >= 0 && p <= l {
					cuts = append(cuts, p)
					continue
				}
			}
			fallthrough
		default:
			cuts = append(cuts, rng.Intn(l+1))
		}
	}
	sortInts(cuts)
	cuts = append(cuts, l)
	r.Case("ksplit corpus=%s idx=%d len=%d cuts=%v", co.name, idx, l, cuts)
	st := crypto.NewKeccakState()
	if rng.Intn(2) == 0 {
		// dirty it first: absorb and squeeze something, then Reset
		st.Write(co.buf[:rng.Intn(300)])
		var tmp [40]byte
		st.Read(tmp[:rng.Intn(40)])
		st.Reset()
	}
	pos := 0
	sums := 0
	empties := 0
	for _, cpos := range cuts {
		if rng.Intn(4) == 0 {
			st.Write(nil)
			st.Write([]byte{})
			empties++
		}
		n, err := st.Write(msg[pos:cpos])
		if n != cpos-pos || err != nil {
			r.Violation("state:Write-return", fmt.Sprintf("Write(%d bytes) = %d, %v", cpos-pos, n, err), nil)
		}
		pos = cpos
		if rng.Intn(3) == 0 {
			sums++
			if got := st.Sum(nil); !bytes.Equal(got, co.ref[pos][:]) {
				c.bad("state:Sum-midstream", co, pos, got, co.ref[pos][:], map[string]any{"cuts": cuts, "total": l})
			}
		}
	}
	// squeeze
	total := 32
	if rng.Intn(2) == 0 {
		total = 1 + rng.Intn(3*rate+10)
	}
	out := make([]byte, 0, total)
	chunks := []int{}
	for len(out) < total {
		n := 1 + rng.Intn(total-len(out))
		if rng.Intn(3) == 0 {
			n = min(total-len(out), 1+rng.Intn(40))
		}
		if rng.Intn(8) == 0 {
			st.Read(nil) // empty read must not consume
		}
		buf := make([]byte, n)
		rn, err := st.Read(buf)
		if rn != n || err != nil {
			r.Violation("state:Read-return", fmt.Sprintf("Read(%d bytes) = %d, %v", n, rn, err), nil)
		}
		out = append(out, buf...)
		chunks = append(chunks, n)
	}
	want := refhash.Keccak256Squeeze(msg, total)
	xw := xsqueeze(msg, total)
	if !bytes.Equal(want, xw) || !bytes.Equal(want[:min(32, total)], co.ref[l][:min(32, total)]) {
		r.Violation("references-disagree:squeeze", fmt.Sprintf("len=%d total=%d ref=%x x=%x", l, total, want, xw), map[string]any{"msg": vrt.Hex(msg), "n": total})
	}
	if !bytes.Equal(out, want) {
		c.bad("state:ksplit-read", co, l, out, want, map[string]any{"cuts": cuts, "read_chunks": chunks})
	}
	sq := "sq32"
	switch {
	case total > 2*rate:
		sq = "sq>2rate"
	case total > rate:
		sq = "sq>rate"
	case total != 32:
		sq = "sq<=rate"
	}
	if total > rate {
		r.Count("squeeze_across_rate", 1)
	}
	r.Count("midstream_sums", sums)
	r.Count("empty_writes", empties)
	r.Eval(fmt.Sprintf("ksplit/%s/k%d/%s/rd%d/sum%v/empty%v", lenClass(l), k, sq, min(len(chunks), 4), sums > 0, empties > 0))
	if idx < 2 && r.WantSample() {
		r.Sample(map[string]any{"api": "NewKeccakState write-splits + Read", "corpus": co.name, "len": l, "cuts": cuts, "read_chunks": chunks, "out": vrt.Hex(out[:min(len(out), 32)])})
	}
}

func sortInts(a []int) {
	for i := 1; i < len(a); i++ {
		for j := i; j > 0 && a[j] < a[j-1]; j-- {
			a[j], a[j-1] = a[j-1], a[j]
		}
	}
}

func run(r *vrt.Run) {
	maxLen := 4*rate + 8
	splitMax := 2*rate + 2
	r.Rule("messages are prefixes (every length 0..552, exhaustive in length) of several content buffers (counter pattern, zeros, 0xff, seeded random); APIs: Keccak256, Keccak256Hash (+variadic), HashData on a reused state, NewLegacyKeccak256+Sum, NewKeccakState with every 2-way split for lengths <= 274 (mid-stream Sum), random k-way splits (k<=9, empty writes, Sums, Read in random chunks up to 3 rate blocks), state reuse with Reset, concurrent pooled one-shot; thorough adds sampled lengths to 64 KiB. signature = (API, full blocks (cap 5), length-mod-136 class, split/squeeze shape)")
	c := &ctx{r: r}

	// ---- corpora and reference tables (x/crypto vs refhash) ----
	mk := func(name string, fill func(b []byte)) *corpus {
		b := make([]byte, maxLen)
		fill(b)
		return &corpus{name: name, buf: b}
	}
	corpora := []*corpus{
		mk("counter", func(b []byte) {
			for i := range b {
				b[i] = byte(i*7 + 1)
			}
		}),
		mk("zeros", func(b []byte) {}),
		mk("ones", func(b []byte) {
			for i := range b {
				b[i] = 0xff
			}
		}),
		mk("random-a", func(b []byte) { r.Rand("corpus", 0).Read(b) }),
		mk("random-b", func(b []byte) { r.Rand("corpus", 1).Read(b) }),
	}
	if r.Race() {
		corpora = corpora[2:4]
	}
	for _, co := range corpora {
		co.ref = make([][32]byte, maxLen+1)
		vrt.Par(maxLen+1, 0, func(l int) {
			a := refhash.Keccak256(co.buf[:l])
			b := xref(co.buf[:l])
			if a != b {
				r.Violation("references-disagree", fmt.Sprintf("refhash %x vs x/crypto %x at corpus=%s len=%d", a, b, co.name, l), nil)
			}
			co.ref[l] = a
			r.Count("reference_digests_agreed", 1)
		})
	}
	if r.Violated() {
		return
	}

	// ---- exhaustive in length: one-shot APIs and all 2-way splits ----
	for _, co := range corpora {
		co := co
		vrt.Par(maxLen+1, 0, func(l int) {
			r.Case("oneshot/split2 corpus=%s len=%d", co.name, l)
			st := crypto.NewKeccakState()
			c.oneShot(co, l, st)
			if l <= splitMax {
				c.twoSplit(co, l, st)
			}
		})
	}
	r.Exhaustive(true)
	r.Extra("exhaustive_family", fmt.Sprintf("every message length 0..%d for %d content buffers through every one-shot API; every 2-way write split of every length <= %d", maxLen, len(corpora), splitMax))
	r.Sample(map[string]any{"api": "crypto.Keccak256", "corpus": "counter", "len": 135, "digest": vrt.Hex(crypto.Keccak256(corpora[0].buf[:135]))})

	// ---- random k-way splits ----
	nk := r.N(40000, 1500000)
	if r.Race() {
		nk /= 8
	}
	for _, co := range corpora {
		co := co
		vrt.Par(nk, 0, func(i int) { c.kSplit(co, i) })
	}

	// ---- one state reused across many messages (Reset between, left in any phase) ----
	reuse := r.N(1000, 20000)
	if r.Race() {
		reuse /= 4
	}
	vrt.Par(len(corpora), 0, func(ci int) {
		co := corpora[ci]
		rng := r.Rand("reuse", ci)
		st := crypto.NewKeccakState()
		var hh hash.Hash = keccak.NewLegacyKeccak256()
		for i := 0; i < reuse; i++ {
			l := rng.Intn(maxLen + 1)
			r.Case("reuse corpus=%s i=%d len=%d", co.name, i, l)
			st.Reset()
			st.Write(co.buf[:l])
			var out [32]byte
			phase := rng.Intn(4)
			switch phase {
			case 0: // leave absorbing, judged by Sum
				copy(out[:], st.Sum(nil))
			case 1: // partial read then the rest
				k := rng.Intn(33)
				st.Read(out[:k])
				st.Read(out[k:])
			case 2: // full read + extra squeeze left over
				st.Read(out[:])
				var extra [200]byte
				st.Read(extra[:rng.Intn(200)])
			case 3:
				st.Read(out[:])
			}
			if out != co.ref[l] {
				c.bad("state:reuse-reset", co, l, out[:], co.ref[l][:], map[string]any{"iteration": i, "phase": phase})
			}
			hh.Reset()
			hh.Write(co.buf[:l])
			if got := hh.Sum(nil); !bytes.Equal(got, co.ref[l][:]) {
				c.bad("hash:reuse-reset", co, l, got, co.ref[l][:], map[string]any{"iteration": i})
			}
			r.Eval(fmt.Sprintf("reuse/%s/phase%d", lenClass(l), phase))
			r.Count("state_reuses", 1)
		}
	})

	// ---- concurrent use of the sync.Pool backed one-shot API ----
	workers := 16
	per := r.N(6000, 300000)
	if r.Race() {
		per /= 3
	}
	var wg sync.WaitGroup
	for w := 0; w < workers; w++ {
		wg.Add(1)
		go func(w int) {
			defer wg.Done()
			rng := r.Rand("pool", w)
			for i := 0; i < per; i++ {
				co := corpora[rng.Intn(len(corpora))]
				l := rng.Intn(maxLen + 1)
				if i%256 == 0 {
					r.Case("pool worker=%d i=%d corpus=%s len=%d", w, i, co.name, l)
				}
				switch i % 3 {
				case 0:
					if got := crypto.Keccak256(co.buf[:l]); !bytes.Equal(got, co.ref[l][:]) {
						c.bad("pool:Keccak256-concurrent", co, l, got, co.ref[l][:], map[string]any{"worker": w})
					}
				case 1:
					if got := crypto.Keccak256Hash(co.buf[:l/2], co.buf[l/2:l]); got != co.ref[l] {
						c.bad("pool:Keccak256Hash-concurrent", co, l, got[:], co.ref[l][:], map[string]any{"worker": w})
					}
				case 2:
					st := crypto.NewKeccakState()
					if got := crypto.HashData(st, co.buf[:l]); got != co.ref[l] {
						c.bad("pool:HashData-concurrent", co, l, got[:], co.ref[l][:], map[string]any{"worker": w})
					}
				}
			}
			r.EvalN(fmt.Sprintf("pool/worker%d", w), per)
			r.Count("pool_concurrent_digests", per)
		}(w)
	}
	wg.Wait()

	// ---- thorough: sampled long messages ----
	if !r.Quick() {
		nl := 40000
		if r.Race() {
			nl = 2000
		}
		vrt.Par(nl, 0, func(i int) {
			rng := r.Rand("long", i)
			l := rng.Intn(64 << 10)
			if rng.Intn(3) == 0 {
				l = rate*rng.Intn(480) + rng.Intn(3) - 1
				if l < 0 {
					l = 0
				}
			}
			msg := make([]byte, l)
			rng.Read(msg)
			r.Case("long i=%d len=%d", i, l)
			want := refhash.Keccak256(msg)
			if x := xref(msg); x != want {
				r.Violation("references-disagree", fmt.Sprintf("long len=%d", l), map[string]any{"msg": vrt.Hex(msg)})
				return
			}
			got := crypto.Keccak256(msg)
			st := crypto.NewKeccakState()
			pos := 0
			for pos < l {
				n := 1 + rng.Intn(3000)
				if pos+n > l {
					n = l - pos
				}
				st.Write(msg[pos : pos+n])
				pos += n
			}
			var out [32]byte
			st.Read(out[:])
			if !bytes.Equal(got, want[:]) || out != want {
				r.Violation("long:digest", fmt.Sprintf("len=%d oneshot=%x stream=%x want %x", l, got, out, want), map[string]any{"msg": vrt.Hex(msg)})
			}
			r.Eval(fmt.Sprintf("long/%s/kib%d", lenClass(l), l>>12))
			r.Count("long_messages", 1)
		})
	}

	r.Require("two_way_splits", 1000)
	r.Require("squeeze_across_rate", 100)
	r.Require("midstream_sums", 100)
	r.Require("empty_writes", 100)
	r.Require("pool_concurrent_digests", 1000)
	r.Extra("permutation", permImpl)
	r.Assume("reference digests: golang.org/x/crypto/sha3 legacy Keccak and verif/lib/refhash (FIPS-202 transcription with computed round constants/rotation offsets) must agree on every message before go-ethereum is judged")
	r.Assume("which permutation is exercised is decided by the build variant: default = keccakf_amd64.s, purego = generic keccakf.go (crypto/keccak honours the purego tag)")
}
