package main

import (
	"bytes"
	"encoding/hex"
	"encoding/json"
	"fmt"
	"math/big"
	"os"
	"os/exec"
	"path/filepath"
	"sort"
	"strconv"
	"strings"
	"syscall"
	"time"

	"verif/lib/refevm"
)

// TxSpec is a transaction plus the key the tool signs it with.
type TxSpec struct {
	Tx  *refevm.Tx
	Key []byte // 32-byte secp256k1 secret key
}

// Case is one generated transition-tool input.
type Case struct {
	Fork refevm.Fork
	Pre  refevm.State
	Env  *refevm.Env
	Txs  []*TxSpec
	Tags []string // generator features used (for signatures and triage)
}

func hx(b []byte) string     { return "0x" + hex.EncodeToString(b) }
func hxu(x uint64) string    { return "0x" + strconv.FormatUint(x, 16) }
func hxb(x *big.Int) string  { return "0x" + x.Text(16) }
func hx32(x *big.Int) string { h := refevm.WordToHash(x); return hx(h[:]) }

// ---- input JSON ----

func allocJSON(s refevm.State) map[string]any {
	out := map[string]any{}
	for a, acc := range s {
		m := map[string]any{"balance": hxb(acc.Balance)}
		if acc.Nonce != 0 {
			m["nonce"] = hxu(acc.Nonce)
		}
		if len(acc.Code) > 0 {
			m["code"] = hx(acc.Code)
		}
		if len(acc.Storage) > 0 {
			st := map[string]string{}
			for k, v := range acc.Storage {
				st[hx(k[:])] = hx32(v)
			}
			m["storage"] = st
		}
		out[a.Hex()] = m
	}
	return out
}

func envJSON(e *refevm.Env) map[string]any {
	m := map[string]any{
		"currentCoinbase":  e.Coinbase.Hex(),
		"currentGasLimit":  hxu(e.GasLimit),
		"currentNumber":    hxu(e.Number),
		"currentTimestamp": hxu(e.Timestamp),
		"currentRandom":    hxb(e.Random.Big()),
	}
	if e.BaseFee != nil {
		m["currentBaseFee"] = hxb(e.BaseFee)
	}
	if e.ParentBaseFee != nil {
		m["parentBaseFee"] = hxb(e.ParentBaseFee)
		m["parentGasUsed"] = hxu(e.ParentGasUsed)
		m["parentGasLimit"] = hxu(e.ParentGasLimit)
	}
	if e.ExcessBlobGas != nil {
		m["currentExcessBlobGas"] = hxu(*e.ExcessBlobGas)
	}
	if e.ParentExcessBlobGas != nil {
		m["parentExcessBlobGas"] = hxu(*e.ParentExcessBlobGas)
	}
	if e.ParentBlobGasUsed != nil {
		m["parentBlobGasUsed"] = hxu(*e.ParentBlobGasUsed)
	}
	if e.BlockHashes != nil {
		bh := map[string]string{}
		for n, h := range e.BlockHashes {
			bh[hxu(n)] = hx(h[:])
		}
		m["blockHashes"] = bh
	}
	ws := []any{}
	for _, w := range e.Withdrawals {
		ws = append(ws, map[string]any{"index": hxu(w.Index), "validatorIndex": hxu(w.Validator), "address": w.Address.Hex(), "amount": hxu(w.Amount)})
	}
	m["withdrawals"] = ws
	if e.ParentBeaconRoot != nil {
		m["parentBeaconBlockRoot"] = hx(e.ParentBeaconRoot[:])
	}
	return m
}

func txJSON(ts *TxSpec) map[string]any {
	tx := ts.Tx
	m := map[string]any{
		"type":  hxu(uint64(tx.Type)),
		"nonce": hxu(tx.Nonce),
		"gas":   hxu(tx.Gas),
		"value": hxb(tx.Value),
		"input": hx(tx.Data),
		"v":     "0x0", "r": "0x0", "s": "0x0",
		"secretKey": hx(ts.Key),
	}
	if tx.To != nil {
		m["to"] = tx.To.Hex()
	} else {
		m["to"] = nil
	}
	if tx.Type >= 1 {
		m["chainId"] = "0x1"
		al := []any{}
		for _, t := range tx.AccessList {
			ks := []string{}
			for _, k := range t.Keys {
				ks = append(ks, hx(k[:]))
			}
			al = append(al, map[string]any{"address": t.Address.Hex(), "storageKeys": ks})
		}
		m["accessList"] = al
	}
	if tx.Type <= 1 {
		m["gasPrice"] = hxb(tx.GasPrice)
	} else {
		m["maxFeePerGas"] = hxb(tx.MaxFee)
		m["maxPriorityFeePerGas"] = hxb(tx.MaxTip)
	}
	if tx.Type == 3 {
		m["maxFeePerBlobGas"] = hxb(tx.MaxFeePerBlobGas)
		hs := []string{}
		for _, h := range tx.BlobHashes {
			hs = append(hs, hx(h[:]))
		}
		m["blobVersionedHashes"] = hs
	}
	if tx.Type == 4 {
		as := []any{}
		for _, a := range tx.AuthList {
			as = append(as, map[string]any{"chainId": hxb(a.ChainID), "address": a.Address.Hex(), "nonce": hxu(a.Nonce),
				"yParity": hxu(a.YParity), "r": hxb(a.R), "s": hxb(a.S)})
		}
		m["authorizationList"] = as
	}
	return m
}

// InputJSON is the stdin document of `evm t8n`.
func (c *Case) InputJSON() []byte {
	txs := []any{}
	for _, t := range c.Txs {
		txs = append(txs, txJSON(t))
	}
	b, err := json.Marshal(map[string]any{"alloc": allocJSON(c.Pre), "env": envJSON(c.Env), "txs": txs})
	if err != nil {
		panic(err)
	}
	return b
}

// ---- output JSON ----

type hexNum struct{ *big.Int }

func (h *hexNum) UnmarshalJSON(b []byte) error {
	s := strings.Trim(string(b), `"`)
	if s == "null" || s == "" {
		return nil
	}
	v, ok := new(big.Int).SetString(s, 0)
	if !ok {
		return fmt.Errorf("bad number %q", s)
	}
	h.Int = v
	return nil
}

type hexBytes []byte

func (h *hexBytes) UnmarshalJSON(b []byte) error {
	s := strings.Trim(string(b), `"`)
	if s == "null" {
		return nil
	}
	s = strings.TrimPrefix(s, "0x")
	if len(s)%2 == 1 {
		s = "0" + s
	}
	v, err := hex.DecodeString(s)
	*h = v
	return err
}

type gLog struct {
	Address   hexBytes   `json:"address"`
	Topics    []hexBytes `json:"topics"`
	Data      hexBytes   `json:"data"`
	BlockHash hexBytes   `json:"blockHash"`
	LogIndex  hexNum     `json:"logIndex"`
}

type gReceipt struct {
	Type     hexNum   `json:"type"`
	Status   hexNum   `json:"status"`
	CumGas   hexNum   `json:"cumulativeGasUsed"`
	Bloom    hexBytes `json:"logsBloom"`
	Logs     []gLog   `json:"logs"`
	TxHash   hexBytes `json:"transactionHash"`
	Contract hexBytes `json:"contractAddress"`
	GasUsed  hexNum   `json:"gasUsed"`
	TxIndex  hexNum   `json:"transactionIndex"`
}

type gResult struct {
	StateRoot    hexBytes   `json:"stateRoot"`
	TxRoot       hexBytes   `json:"txRoot"`
	ReceiptsRoot hexBytes   `json:"receiptsRoot"`
	LogsHash     hexBytes   `json:"logsHash"`
	LogsBloom    hexBytes   `json:"logsBloom"`
	Receipts     []gReceipt `json:"receipts"`
	Rejected     []struct {
		Index int    `json:"index"`
		Error string `json:"error"`
	} `json:"rejected"`
	GasUsed         hexNum     `json:"gasUsed"`
	BaseFee         hexNum     `json:"currentBaseFee"`
	WithdrawalsRoot hexBytes   `json:"withdrawalsRoot"`
	ExcessBlobGas   hexNum     `json:"currentExcessBlobGas"`
	BlobGasUsed     hexNum     `json:"blobGasUsed"`
	RequestsHash    hexBytes   `json:"requestsHash"`
	Requests        []hexBytes `json:"requests"`
}

type gAccount struct {
	Balance hexNum              `json:"balance"`
	Nonce   hexNum              `json:"nonce"`
	Code    hexBytes            `json:"code"`
	Storage map[string]hexBytes `json:"storage"`
}

type gOutput struct {
	Alloc  map[string]gAccount `json:"alloc"`
	Result *gResult            `json:"result"`
}

// T8nRun is the outcome of one tool invocation.
type T8nRun struct {
	Exit   int
	Signal string
	Stdout []byte
	Stderr []byte
	Out    *gOutput
	Err    error
}

// evmBinary locates the evm binary built by the driver next to this harness binary.
func evmBinary() string {
	if p := os.Getenv("C26_EVM"); p != "" {
		return p
	}
	self, err := os.Executable()
	if err == nil {
		base := filepath.Base(self)
		if strings.Contains(base, "-default") {
			p := filepath.Join(filepath.Dir(self), strings.Replace(base, "-default", "-evm", 1))
			if _, err := os.Stat(p); err == nil {
				return p
			}
		}
	}
	return "/verif/.build/C26-evm"
}

func runT8n(bin string, c *Case, extra ...string) *T8nRun {
	args := []string{"t8n", "--input.alloc", "stdin", "--input.env", "stdin", "--input.txs", "stdin",
		"--state.fork", c.Fork.String(), "--state.chainid", "1", "--state.reward", "-1",
		"--output.result", "stdout", "--output.alloc", "stdout"}
	args = append(args, extra...)
	cmd := exec.Command(bin, args...)
	cmd.Stdin = bytes.NewReader(c.InputJSON())
	var so, se bytes.Buffer
	cmd.Stdout, cmd.Stderr = &so, &se
	r := &T8nRun{}
	if err := cmd.Start(); err != nil {
		r.Err, r.Exit = err, 127
		return r
	}
	done := make(chan error, 1)
	go func() { done <- cmd.Wait() }()
	var err error
	select {
	case err = <-done:
	case <-time.After(10 * time.Minute): // watchdog only: makes the case an error, never a verdict
		cmd.Process.Kill()
		err = <-done
		r.Err = fmt.Errorf("watchdog")
	}
	r.Stdout, r.Stderr = so.Bytes(), se.Bytes()
	if err != nil {
		if ee, ok := err.(*exec.ExitError); ok {
			ws := ee.Sys().(syscall.WaitStatus)
			if ws.Signaled() {
				r.Exit, r.Signal = -1, ws.Signal().String()
			} else {
				r.Exit = ws.ExitStatus()
			}
		} else {
			r.Exit = 127
			if r.Err == nil {
				r.Err = err
			}
		}
		return r
	}
	var out gOutput
	if err := json.Unmarshal(r.Stdout, &out); err != nil {
		r.Err = fmt.Errorf("cannot parse tool output: %v", err)
		return r
	}
	r.Out = &out
	return r
}

// allocToState converts the tool's post alloc into the model representation.
func allocToState(a map[string]gAccount) (refevm.State, error) {
	s := refevm.State{}
	for k, v := range a {
		ab, err := hex.DecodeString(strings.TrimPrefix(k, "0x"))
		if err != nil || len(ab) != 20 {
			return nil, fmt.Errorf("bad address %q", k)
		}
		acc := &refevm.Account{Balance: new(big.Int), Storage: map[refevm.Hash]*big.Int{}, Code: v.Code}
		if v.Balance.Int != nil {
			acc.Balance = v.Balance.Int
		}
		if v.Nonce.Int != nil {
			acc.Nonce = v.Nonce.Uint64()
		}
		for sk, sv := range v.Storage {
			kb, err := hex.DecodeString(strings.TrimPrefix(sk, "0x"))
			if err != nil {
				return nil, fmt.Errorf("bad storage key %q", sk)
			}
			val := new(big.Int).SetBytes(sv)
			if val.Sign() != 0 {
				acc.Storage[refevm.BytesToHash(kb)] = val
			}
		}
		s[refevm.BytesToAddress(ab)] = acc
	}
	return s, nil
}

// diffStates lists the differences between two states (first few).
func diffStates(ref, got refevm.State) []string {
	var out []string
	addrs := map[refevm.Address]bool{}
	for a := range ref {
		addrs[a] = true
	}
	for a := range got {
		addrs[a] = true
	}
	var list []refevm.Address
	for a := range addrs {
		list = append(list, a)
	}
	sort.Slice(list, func(i, j int) bool { return bytes.Compare(list[i][:], list[j][:]) < 0 })
	for _, a := range list {
		r, g := ref[a], got[a]
		switch {
		case r == nil:
			out = append(out, fmt.Sprintf("%s: exists in geth only (nonce %d balance %s code %d bytes)", a.Hex(), g.Nonce, g.Balance, len(g.Code)))
			continue
		case g == nil:
			out = append(out, fmt.Sprintf("%s: exists in refevm only (nonce %d balance %s code %d bytes)", a.Hex(), r.Nonce, r.Balance, len(r.Code)))
			continue
		}
		if r.Nonce != g.Nonce {
			out = append(out, fmt.Sprintf("%s: nonce ref %d geth %d", a.Hex(), r.Nonce, g.Nonce))
		}
		if r.Balance.Cmp(g.Balance) != 0 {
			out = append(out, fmt.Sprintf("%s: balance ref %s geth %s (ref-geth %s)", a.Hex(), r.Balance, g.Balance, new(big.Int).Sub(r.Balance, g.Balance)))
		}
		if !bytes.Equal(r.Code, g.Code) {
			out = append(out, fmt.Sprintf("%s: code ref %x geth %x", a.Hex(), r.Code, g.Code))
		}
		keys := map[refevm.Hash]bool{}
		for k := range r.Storage {
			keys[k] = true
		}
		for k := range g.Storage {
			keys[k] = true
		}
		for k := range keys {
			rv, gv := r.Storage[k], g.Storage[k]
			if rv == nil {
				rv = new(big.Int)
			}
			if gv == nil {
				gv = new(big.Int)
			}
			if rv.Cmp(gv) != 0 {
				out = append(out, fmt.Sprintf("%s: slot %s ref %s geth %s", a.Hex(), k.Hex(), hxb(rv), hxb(gv)))
			}
		}
	}
	return out
}
