package main

import (
	"crypto/elliptic"
	"crypto/sha256"
	"encoding/binary"
	"math/big"
	"math/rand"

	"github.com/ethereum/go-ethereum/crypto/kzg4844"

	pg "verif/lib/proggen"
	"verif/lib/refevm"
)

// This file holds the harness's own targeted programs (the "extra source" next to proggen):
// straight-line probes whose every intermediate value and measured gas difference is written
// to a result buffer in memory which is finally emitted as LOG0 and hashed into storage slot
// 0xaa, so that any semantic or gas difference of a single operation shows up in receipts
// and post-state.

const resBase = 0x1000

type pb struct {
	a    *pg.Asm
	rng  *rand.Rand
	fork refevm.Fork
	nres int
	full bool // access probes always include the call-family measurement
}

func newPB(rng *rand.Rand, fork refevm.Fork) *pb {
	a := pg.NewAsm()
	a.UsePush0 = true
	return &pb{a: a, rng: rng, fork: fork}
}

// save pops the top of the stack into the result buffer.
func (p *pb) save() {
	p.a.Push(resBase + 32*p.nres).Op(pg.MSTORE)
	p.nres++
}

// measure runs f (which must leave exactly one value) and records the value and the gas
// consumed between the two GAS instructions.
func (p *pb) measure(f func()) {
	p.a.Op(pg.GAS)
	f()
	p.a.Op(pg.GAS, pg.SWAP2, pg.SWAP1)
	p.save()
	p.a.Op(pg.SUB)
	p.save()
}

// finish emits the result buffer as a log and stores its hash.
func (p *pb) finish() []byte {
	p.finishCode()
	return p.a.Bytes()
}

func (p *pb) finishCode() {
	n := 32 * p.nres
	p.a.Push(n).Push(resBase).Op(pg.LOG0)
	p.a.Push(n).Push(resBase).Op(pg.KECCAK256).Push(0xaa).Op(pg.SSTORE)
	p.a.Op(pg.STOP)
}

func (p *pb) pushAddr(a refevm.Address) { p.a.PushN(20, a[:]) }

var allOnes = new(big.Int).Sub(new(big.Int).Lsh(big.NewInt(1), 256), big.NewInt(1))

// ---- probes ----

// accessProbe measures address-touching operations twice (cold, then warm) on addr.
func (p *pb) accessProbe(addr refevm.Address) {
	ops := []byte{pg.BALANCE, pg.EXTCODESIZE, pg.EXTCODEHASH}
	p.rng.Shuffle(len(ops), func(i, j int) { ops[i], ops[j] = ops[j], ops[i] })
	for _, op := range ops[:1+p.rng.Intn(3)] {
		op := op
		p.measure(func() { p.pushAddr(addr); p.a.Op(op) })
	}
	if p.rng.Intn(2) == 0 {
		// EXTCODECOPY of the first 32 bytes, then read them back
		p.measure(func() {
			p.a.Push(32).Push(0).Push(0x40)
			p.pushAddr(addr)
			p.a.Op(pg.EXTCODECOPY).Push(0x40).Op(pg.MLOAD)
		})
	}
	if p.full || p.rng.Intn(2) == 0 {
		op := pick(p.rng, byte(pg.CALL), pg.STATICCALL, pg.DELEGATECALL, pg.CALLCODE)
		gas := pick(p.rng, big.NewInt(0), big.NewInt(2300), big.NewInt(50000), allOnes)
		for i := 0; i < 2; i++ {
			p.measure(func() {
				p.a.Push(32).Push(0x80).Push(4).Push(0)
				if op == pg.CALL || op == pg.CALLCODE {
					p.a.Push(pick(p.rng, 0, 0, 1))
				}
				p.pushAddr(addr)
				p.a.Push(gas).Op(op)
			})
			p.a.Op(pg.RETURNDATASIZE)
			p.save()
		}
	}
}

// sstoreSeq performs a random sequence of stores over a few slots and small values,
// measuring each (EIP-2200/2929/3529 branches; refunds show up in the transaction's gas).
func (p *pb) sstoreSeq(n int) {
	for i := 0; i < n; i++ {
		slot := pick(p.rng, 0, 1, 2, 3, 16)
		val := pick(p.rng, 0, 0, 1, 2)
		if p.rng.Intn(4) == 0 {
			p.measure(func() { p.a.Push(slot).Op(pg.SLOAD) })
			continue
		}
		p.measure(func() { p.a.Push(val).Push(slot).Op(pg.SSTORE).Push(slot).Op(pg.SLOAD) })
	}
}

// tstoreSeq does the same on transient storage.
func (p *pb) tstoreSeq(n int) {
	for i := 0; i < n; i++ {
		slot := pick(p.rng, 0, 1, 2)
		p.measure(func() { p.a.Push(p.rng.Intn(3)).Push(slot).Op(pg.TSTORE).Push(slot).Op(pg.TLOAD) })
	}
}

// precompileProbe calls a precompile with a constant input; records flag, return data size,
// hash of the return data, the output window and the gas consumed.
func (p *pb) precompileProbe(addr int, input []byte, gas *big.Int, op byte) {
	a := p.a
	if len(input) > 0 {
		l := a.Data(input)
		a.Push(len(input)).PushLabel(l).Push(0).Op(pg.CODECOPY)
	}
	p.measure(func() {
		a.Push(64).Push(0x800).Push(len(input)).Push(0)
		if op == pg.CALL || op == pg.CALLCODE {
			a.Push(0)
		}
		a.Push(addr).Push(gas).Op(op)
	})
	a.Op(pg.RETURNDATASIZE)
	p.save()
	a.Op(pg.RETURNDATASIZE).Push(0).Push(0x900).Op(pg.RETURNDATACOPY)
	a.Op(pg.RETURNDATASIZE).Push(0x900).Op(pg.KECCAK256)
	p.save()
	a.Push(0x800).Op(pg.MLOAD)
	p.save()
	a.Push(0x820).Op(pg.MLOAD)
	p.save()
}

// ---- precompile inputs ----

func be32(x *big.Int) []byte { b := make([]byte, 32); x.FillBytes(b); return b }

func cat(bs ...[]byte) []byte {
	var out []byte
	for _, b := range bs {
		out = append(out, b...)
	}
	return out
}

var (
	bnG2 = cat(
		be32(hexBig("198e9393920d483a7260bfb731fb5d25f1aa493335a9e71297e485b7aef312c2")),
		be32(hexBig("1800deef121f1e76426a00665e5c4479674322d4f75edadd46debd5cd992f6ed")),
		be32(hexBig("090689d0585ff075ec9e99ad690c3395bc4b313370b38ef355acdadcd122975b")),
		be32(hexBig("12c85ea5db8c6deb4aab71808dcb408fe3d1e7690c43d37b4ce6cc0166fa7daa")))
	bnP  = hexBig("30644e72e131a029b85045b68181585d97816a916871ca8d3c208c16d87cfd47")
	blsP = hexBig("1a0111ea397fe69a4b1ba7b6434bacd764774b84f38512bf6730d2a0f6b0f6241eabfffeb153ffffb9feffffffffaaab")

	kzgInput []byte // a valid point-evaluation input (built once; trusted helper: go-ethereum crypto/kzg4844)
)

func hexBig(s string) *big.Int {
	v, ok := new(big.Int).SetString(s, 16)
	if !ok {
		panic(s)
	}
	return v
}

func init() {
	var blob kzg4844.Blob
	for i := 0; i < 8; i++ {
		blob[32*i+31] = byte(i + 1)
	}
	commit, err := kzg4844.BlobToCommitment(&blob)
	if err != nil {
		panic(err)
	}
	var point kzg4844.Point
	point[31] = 5
	proof, claim, err := kzg4844.ComputeProof(&blob, point)
	if err != nil {
		panic(err)
	}
	vh := sha256.Sum256(commit[:])
	vh[0] = 0x01
	kzgInput = cat(vh[:], point[:], claim[:], commit[:], proof[:])
}

// bnPoint returns k*G1 through the (trusted) bn254 scalar multiplication.
func bnPoint(k int64) []byte {
	out, _ := refevm.RunPrecompile(refevm.Cancun, refevm.BytesToAddress([]byte{7}), cat(be32(big.NewInt(1)), be32(big.NewInt(2)), be32(big.NewInt(k))))
	return out
}

func bnNeg(pt []byte) []byte {
	y := new(big.Int).SetBytes(pt[32:64])
	if y.Sign() != 0 {
		y.Sub(bnP, y)
	}
	return cat(pt[:32], be32(y))
}

func blsFp(rng *rand.Rand) []byte {
	b := make([]byte, 64)
	rng.Read(b[17:]) // < 2^376 < p
	return b
}

func blsG1(rng *rand.Rand) []byte {
	out, _ := refevm.RunPrecompile(refevm.Prague, refevm.BytesToAddress([]byte{0x10}), blsFp(rng))
	return out
}

func blsG2(rng *rand.Rand) []byte {
	out, _ := refevm.RunPrecompile(refevm.Prague, refevm.BytesToAddress([]byte{0x11}), cat(blsFp(rng), blsFp(rng)))
	return out
}

func blsNegG1(pt []byte) []byte {
	y := new(big.Int).SetBytes(pt[64:128])
	if y.Sign() != 0 {
		y.Sub(blsP, y)
	}
	yb := make([]byte, 64)
	y.FillBytes(yb)
	return cat(pt[:64], yb)
}

// precompileInput builds an input for precompile n: mostly well-formed, sometimes broken.
func precompileInput(rng *rand.Rand, fork refevm.Fork, n int) []byte {
	var in []byte
	rnd := func(k int) []byte { b := make([]byte, k); rng.Read(b); return b }
	switch n {
	case 1:
		k := keys[rng.Intn(len(keys))]
		h := rnd(32)
		v, r, s := refevm.SignRecoverable(k.Key, h)
		in = cat(h, be32(big.NewInt(int64(27+v))), be32(r), be32(s))
		switch rng.Intn(8) {
		case 0:
			in[63] = pick(rng, byte(0), 1, 26, 29)
		case 1:
			in[32] = 1 // v with high bytes set
		case 2:
			copy(in[64:96], make([]byte, 32)) // r = 0
		case 3:
			nn := hexBig("fffffffffffffffffffffffffffffffebaaedce6af48a03bbfd25e8cd0364141")
			copy(in[96:128], be32(new(big.Int).Sub(nn, s))) // high s (accepted by ecrecover)
		case 4:
			in = in[:pick(rng, 0, 64, 100, 127)]
		case 5:
			in = append(in, rnd(10)...)
		}
	case 2, 3, 4:
		in = rnd(pick(rng, 0, 1, 31, 32, 33, 64, 100, 300))
	case 5:
		bl, el, ml := pick(rng, 0, 1, 8, 32, 33, 64), pick(rng, 0, 1, 2, 32, 33, 40), pick(rng, 0, 1, 8, 32, 33, 64)
		in = cat(be32(big.NewInt(int64(bl))), be32(big.NewInt(int64(el))), be32(big.NewInt(int64(ml))), rnd(bl), rnd(el), rnd(ml))
		switch rng.Intn(8) {
		case 0: // zero exponent
			copy(in[96+bl:], make([]byte, el))
		case 1: // zero modulus
			copy(in[96+bl+el:], make([]byte, ml))
		case 2: // truncated
			in = in[:rng.Intn(len(in)+1)]
		case 3: // huge declared length
			copy(in[pick(rng, 0, 32, 64):], be32(pick(rng, allOnes, big.NewInt(1025), big.NewInt(1024), new(big.Int).Lsh(big.NewInt(1), 64), big.NewInt(100000))))
		case 4: // leading-zero exponent longer than 32 bytes
			if el > 32 {
				copy(in[96+bl:], make([]byte, 20))
			}
		}
	case 6:
		in = cat(bnPoint(int64(1+rng.Intn(50))), bnPoint(int64(1+rng.Intn(50))))
		switch rng.Intn(6) {
		case 0:
			in[rng.Intn(len(in))] ^= 1
		case 1:
			in = in[:rng.Intn(len(in))]
		case 2:
			copy(in[:64], make([]byte, 64)) // infinity
		}
	case 7:
		in = cat(bnPoint(int64(1+rng.Intn(50))), pick(rng, rnd(32), be32(big.NewInt(0)), be32(big.NewInt(2)), be32(allOnes)))
		if rng.Intn(6) == 0 {
			in[rng.Intn(64)] ^= 1
		}
	case 8:
		k := rng.Intn(4)
		for i := 0; i < k; i++ {
			pt := bnPoint(int64(1 + rng.Intn(50)))
			in = append(in, cat(pt, bnG2, bnNeg(pt), bnG2)...)
		}
		switch rng.Intn(6) {
		case 0:
			in = append(in, cat(bnPoint(3), bnG2)...) // product != 1
		case 1:
			in = append(in, 0) // bad length
		case 2:
			if len(in) > 0 {
				in[rng.Intn(len(in))] ^= 1
			}
		}
	case 9:
		in = make([]byte, 213)
		rng.Read(in)
		binary.BigEndian.PutUint32(in, uint32(pick(rng, 0, 1, 12, 100, 5000)))
		in[212] = pick(rng, byte(0), 1, 1, 2)
		if rng.Intn(8) == 0 {
			in = in[:pick(rng, 0, 212)]
		} else if rng.Intn(8) == 0 {
			in = append(in, 0)
		}
	case 0x0a:
		in = append([]byte{}, kzgInput...)
		switch rng.Intn(6) {
		case 0:
			in[rng.Intn(len(in))] ^= 1
		case 1:
			in[0] = 2
		case 2:
			in = in[:191]
		}
	case 0x0b:
		in = cat(blsG1(rng), blsG1(rng))
		mutate(rng, &in)
	case 0x0c:
		for i, k := 0, pick(rng, 1, 1, 2, 3, 5); i < k; i++ {
			in = append(in, cat(blsG1(rng), rnd(32))...)
		}
		mutate(rng, &in)
	case 0x0d:
		in = cat(blsG2(rng), blsG2(rng))
		mutate(rng, &in)
	case 0x0e:
		for i, k := 0, pick(rng, 1, 1, 2, 3); i < k; i++ {
			in = append(in, cat(blsG2(rng), rnd(32))...)
		}
		mutate(rng, &in)
	case 0x0f:
		for i, k := 0, pick(rng, 1, 1, 2); i < k; i++ {
			p1, q := blsG1(rng), blsG2(rng)
			in = append(in, cat(p1, q, blsNegG1(p1), q)...)
		}
		if rng.Intn(4) == 0 {
			in = append(in, cat(blsG1(rng), blsG2(rng))...)
		}
		mutate(rng, &in)
	case 0x10:
		in = blsFp(rng)
		mutate(rng, &in)
	case 0x11:
		in = cat(blsFp(rng), blsFp(rng))
		mutate(rng, &in)
	case 0x100:
		h := rnd(32)
		r, s, qx, qy := p256Sign(rng, h)
		in = cat(h, be32(r), be32(s), be32(qx), be32(qy))
		switch rng.Intn(6) {
		case 0:
			in[rng.Intn(len(in))] ^= 1
		case 1:
			in = in[:159]
		case 2:
			in = append(in, 0)
		case 3:
			copy(in[32:64], make([]byte, 32))
		}
	}
	return in
}

// mutate occasionally breaks an input (bit flip, truncation, extension, empty).
func mutate(rng *rand.Rand, in *[]byte) {
	switch rng.Intn(10) {
	case 0:
		if len(*in) > 0 {
			(*in)[rng.Intn(len(*in))] ^= byte(1 << rng.Intn(8))
		}
	case 1:
		*in = (*in)[:rng.Intn(len(*in)+1)]
	case 2:
		*in = append(*in, 0)
	case 3:
		*in = nil
	}
}

// p256Sign produces a P-256 key and ECDSA signature deterministically from the case PRNG
// (textbook ECDSA over math/big; crypto/ecdsa would mix in process randomness).
func p256Sign(rng *rand.Rand, hash []byte) (r, s, qx, qy *big.Int) {
	c := elliptic.P256()
	n := c.Params().N
	scalar := func() *big.Int {
		b := make([]byte, 32)
		rng.Read(b)
		k := new(big.Int).SetBytes(b)
		k.Mod(k, new(big.Int).Sub(n, big.NewInt(1)))
		return k.Add(k, big.NewInt(1))
	}
	d := scalar()
	qx, qy = c.ScalarBaseMult(d.Bytes())
	for {
		k := scalar()
		x, _ := c.ScalarBaseMult(k.Bytes())
		r = new(big.Int).Mod(x, n)
		if r.Sign() == 0 {
			continue
		}
		s = new(big.Int).Mul(r, d)
		s.Add(s, new(big.Int).SetBytes(hash))
		s.Mul(s, new(big.Int).ModInverse(k, n))
		s.Mod(s, n)
		if s.Sign() != 0 {
			return
		}
	}
}

// precompileList returns the precompile numbers of a fork.
func precompileList(f refevm.Fork) []int {
	l := []int{1, 2, 3, 4, 5, 6, 7, 8, 9, 0x0a}
	if f >= refevm.Prague {
		l = append(l, 0x0b, 0x0c, 0x0d, 0x0e, 0x0f, 0x10, 0x11)
	}
	if f >= refevm.Osaka {
		l = append(l, 0x100)
	}
	return l
}

// ownProgram builds one targeted program.
func ownProgram(g *caseGen, self refevm.Address, selfNonce uint64) []byte {
	rng, fork := g.rng, g.fork
	p := newPB(rng, fork)
	kind := rng.Intn(12)
	if g.c.Env.GasLimit >= 1<<42 && rng.Intn(2) == 0 {
		kind = 12
	} else if len(g.delegated) > 0 && g.fork >= refevm.Prague && rng.Intn(3) == 0 {
		kind = 13
	}
	if kind < 12 && rng.Intn(25) == 0 {
		// EIP-3860 inside the EVM: CREATE/CREATE2 with init code of exactly the limit (runs the
		// all-zero init code, i.e. STOP) and one byte above it (exceptional halt of the frame,
		// therefore performed in a self-call whose failure is recorded)
		g.tag("own:initcode-limit")
		op := pick(rng, byte(pg.CREATE), pg.CREATE2)
		over := p.a.NewLabel()
		p.a.Op(pg.CALLDATASIZE).JumpIf(over)
		p.measure(func() {
			p.a.Push(0).Push(0).Push(1).Push(0).Push(0).Op(pg.ADDRESS).Push(allOnes).Op(pg.CALL)
		})
		p.measure(func() {
			if op == pg.CREATE2 {
				p.a.Push(7)
			}
			p.a.Push(49152).Push(0).Push(0).Op(op)
		})
		p.finishCode()
		p.a.Bind(over)
		if op == pg.CREATE2 {
			p.a.Push(7)
		}
		p.a.Push(49153).Push(0).Push(0).Op(op, pg.STOP)
		return p.a.Bytes()
	}
	switch {
	case kind == 13: // EIP-7702: code-reading and call-family operations on delegated accounts
		g.tag("own:delegated")
		p.full = true
		for _, a := range g.delegated {
			p.accessProbe(a)
		}
	case kind == 12: // unbounded self-recursion: reaches the 1024 depth limit when gas allows
		g.tag("own:recurse")
		g.recursers = append(g.recursers, self)
		p.a.Op(pg.PUSH0, pg.TLOAD).Push(1).Op(pg.ADD, pg.DUP1, pg.PUSH0, pg.TSTORE) // depth counter in transient slot 0
		p.save()
		op := pick(rng, byte(pg.CALL), pg.CALL, pg.DELEGATECALL, pg.CALLCODE, pg.STATICCALL)
		p.measure(func() {
			p.a.Push(0).Push(0).Push(0).Push(0)
			if op == pg.CALL || op == pg.CALLCODE {
				p.a.Push(0)
			}
			p.a.Op(pg.ADDRESS, pg.GAS, op)
		})
		p.a.Op(pg.PUSH0, pg.TLOAD)
		p.save()
	case kind == 10: // every PUSHn / DUPn / SWAPn once, with the stack contents recorded
		g.tag("own:stacksweep")
		for i := 1; i <= 17; i++ {
			p.a.Push(i)
		}
		for n := 1; n <= 16; n++ {
			p.a.Op(byte(0x80 + n - 1))
			p.save()
		}
		for n := 1; n <= 16; n++ {
			p.a.Op(byte(0x90+n-1), pg.DUP1)
			p.save()
		}
		for i := 1; i <= 17; i++ {
			p.save()
		}
		for n := 1; n <= 32; n++ {
			b := make([]byte, n)
			rng.Read(b)
			p.a.PushN(n, b)
			p.save()
		}
		p.a.Op(pg.PUSH0)
		p.save()
	case kind == 11: // every arithmetic / comparison / bitwise operation on interesting operands
		g.tag("own:arithsweep")
		ops2 := []byte{pg.ADD, pg.MUL, pg.SUB, pg.DIV, pg.SDIV, pg.MOD, pg.SMOD, pg.EXP, pg.SIGNEXTEND, pg.LT, pg.GT, pg.SLT, pg.SGT, pg.EQ,
			pg.AND, pg.OR, pg.XOR, pg.BYTE, pg.SHL, pg.SHR, pg.SAR}
		word := func() *big.Int {
			switch rng.Intn(8) {
			case 0:
				return new(big.Int)
			case 1:
				return big.NewInt(int64(rng.Intn(300)))
			case 2:
				return new(big.Int).Set(allOnes)
			case 3:
				return new(big.Int).Lsh(big.NewInt(1), 255)
			case 4:
				return new(big.Int).Sub(allOnes, big.NewInt(int64(rng.Intn(300))))
			case 5:
				return new(big.Int).Lsh(big.NewInt(1), uint(rng.Intn(256)))
			}
			return randHash(rng).Big()
		}
		for _, op := range ops2 {
			op := op
			p.measure(func() { p.a.Push(word()).Push(word()).Op(op) })
		}
		for _, op := range []byte{pg.ADDMOD, pg.MULMOD} {
			op := op
			p.measure(func() { p.a.Push(word()).Push(word()).Push(word()).Op(op) })
		}
		ops1 := []byte{pg.ISZERO, pg.NOT}
		if fork >= refevm.Osaka {
			ops1 = append(ops1, pg.CLZ)
		}
		for _, op := range ops1 {
			op := op
			p.measure(func() { p.a.Push(word()).Op(op) })
		}
	case kind < 4: // precompile probes
		g.tag("own:precompile")
		pcs := precompileList(fork)
		for i, n := 0, 1+rng.Intn(3); i < n; i++ {
			pc := pcs[rng.Intn(len(pcs))]
			in := precompileInput(rng, fork, pc)
			var a refevm.Address
			a[18], a[19] = byte(pc>>8), byte(pc)
			need := refevm.PrecompileGas(fork, a, in)
			gas := allOnes
			if need.IsUint64() && rng.Intn(3) == 0 {
				// exact / one short / a little more than the required gas
				gas = new(big.Int).Add(need, big.NewInt(int64(pick(rng, 0, -1, 1, 100))))
				if gas.Sign() < 0 {
					gas = new(big.Int)
				}
			}
			p.precompileProbe(pc, in, gas, pick(rng, byte(pg.CALL), pg.CALL, pg.STATICCALL, pg.DELEGATECALL, pg.CALLCODE))
		}
	case kind < 6: // storage gas/refund patterns
		g.tag("own:sstore")
		g.refunders = append(g.refunders, self)
		p.sstoreSeq(2 + rng.Intn(8))
		if rng.Intn(2) == 0 {
			p.tstoreSeq(1 + rng.Intn(4))
		}
	case kind < 8: // access cost probes
		g.tag("own:access")
		for i, n := 0, 1+rng.Intn(3); i < n; i++ {
			var a refevm.Address
			switch rng.Intn(6) {
			case 0:
				a = refevm.BytesToAddress([]byte{byte(1 + rng.Intn(17))})
			case 1:
				a = refevm.BytesToAddress([]byte{0xde, 0xad, byte(rng.Intn(3))})
			case 2:
				a = g.c.Env.Coinbase
			default:
				a = g.univ[rng.Intn(len(g.univ))]
			}
			if len(g.delegated) > 0 && rng.Intn(2) == 0 {
				a = g.delegated[rng.Intn(len(g.delegated))] // EIP-7702 resolution costs
			}
			p.accessProbe(a)
		}
	case kind < 9: // CREATE / CREATE2 collisions with pre-existing accounts
		g.tag("own:collision")
		runtime := []byte{pg.PUSH1, 0x2a, pg.PUSH0, pg.SSTORE, pg.STOP}
		init := pg.InitCodeReturning(runtime)
		l := p.a.Data(init)
		p.a.Push(len(init)).PushLabel(l).Push(0).Op(pg.CODECOPY)
		is2 := rng.Intn(2) == 0
		var victim refevm.Address
		if is2 {
			salt := refevm.WordToHash(big.NewInt(int64(rng.Intn(3))))
			victim = refevm.Create2Address(self, salt, init)
			p.measure(func() { p.a.PushN(32, salt[:]).Push(len(init)).Push(0).Push(0).Op(pg.CREATE2) })
		} else {
			victim = refevm.CreateAddress(self, selfNonce)
			p.measure(func() { p.a.Push(len(init)).Push(0).Push(0).Op(pg.CREATE) })
		}
		p.a.Op(pg.RETURNDATASIZE)
		p.save()
		// what already lives at the target address
		if _, exists := g.c.Pre[victim]; !exists {
			acc := g.c.Pre.GetOrNew(victim)
			switch rng.Intn(5) {
			case 0:
				acc.Balance = big.NewInt(5) // balance only: no collision
			case 1:
				acc.Nonce = 1
			case 2:
				acc.Code = []byte{0x00}
			case 3:
				if g.ft.StorageOnlyCollision {
					acc.Balance = big.NewInt(1)
					acc.Storage[refevm.Hash{}] = big.NewInt(1) // storage only (EIP-7610)
					g.tag("own:collision:storage-only")
				} else {
					acc.Nonce = 2
				}
			case 4:
				delete(g.c.Pre, victim) // nothing there
			}
		}
		// a second identical creation (CREATE2: same address again -> collision with the first)
		if is2 && rng.Intn(2) == 0 {
			p.measure(func() { p.a.Push(0).Push(len(init)).Push(0).Push(0).Op(pg.CREATE2) })
		}
	default: // factory: create a self-destructing child, call it, fund it again, inspect it
		g.tag("own:selfdestruct-factory")
		ben := g.univ[rng.Intn(len(g.univ))]
		rt := pg.NewAsm()
		rt.PushN(20, ben[:]).Op(pg.SELFDESTRUCT)
		var init []byte
		if rng.Intn(3) == 0 {
			init = rt.Bytes() // self-destructs during init
		} else {
			init = pg.InitCodeReturning(rt.Bytes())
		}
		l := p.a.Data(init)
		p.a.Push(len(init)).PushLabel(l).Push(0).Op(pg.CODECOPY)
		p.a.Push(len(init)).Push(0).Push(pick(rng, 0, 1)).Op(pg.CREATE) // [child]
		p.a.Op(pg.DUP1)
		p.save()
		for i, n := 0, 1+rng.Intn(2); i < n; i++ {
			p.measure(func() {
				p.a.Push(0).Push(0).Push(0).Push(0).Push(pick(rng, 0, 1)).Op(0x86).Push(100000).Op(pg.CALL)
			})
		}
		p.a.Op(pg.DUP1, pg.EXTCODESIZE)
		p.save()
		p.a.Op(pg.DUP1, pg.BALANCE)
		p.save()
		p.a.Op(pg.POP)
	}
	return p.finish()
}
