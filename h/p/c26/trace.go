package main

import (
	"bufio"
	"bytes"
	"encoding/hex"
	"encoding/json"
	"fmt"
	"math/big"
	"os"
	"path/filepath"
	"strconv"
	"strings"

	"verif/lib/refevm"
	"verif/lib/vrt"
)

type gStep struct {
	PC      uint64   `json:"pc"`
	Op      int      `json:"op"`
	Gas     string   `json:"gas"`
	GasCost string   `json:"gasCost"`
	MemSize int      `json:"memSize"`
	Stack   []string `json:"stack"`
	Depth   int      `json:"depth"`
	OpName  string   `json:"opName"`
	Refund  int64    `json:"refund"`
	Error   string   `json:"error"`
	Output  *string  `json:"output"`
}

func parseU(s string) uint64 {
	v, _ := strconv.ParseUint(strings.TrimPrefix(s, "0x"), 16, 64)
	return v
}

// localise re-runs both sides with tracing and describes the first diverging step.
func localise(r *vrt.Run, bin string, c *Case, txs []*refevm.Tx) string {
	dir, err := os.MkdirTemp(r.Scratch, "trace-")
	if err != nil {
		return "no scratch dir: " + err.Error()
	}
	defer os.RemoveAll(dir)
	run := runT8n(bin, c, "--trace", "--output.basedir", dir)
	// geth trace files: trace-<counter>-<tx hash>.jsonl; they are matched to input transactions
	// through the transaction hashes of geth's receipts (receipt i belongs to the i-th input
	// transaction that geth did not reject)
	files, _ := filepath.Glob(filepath.Join(dir, "trace-*.jsonl"))
	byHash := map[string][]gStep{}
	for _, f := range files {
		parts := strings.SplitN(strings.TrimSuffix(filepath.Base(f), ".jsonl"), "-", 3)
		if len(parts) < 3 {
			continue
		}
		h := strings.ToLower(parts[2])
		fh, err := os.Open(f)
		if err != nil {
			continue
		}
		sc := bufio.NewScanner(fh)
		sc.Buffer(make([]byte, 1<<20), 1<<26)
		for sc.Scan() {
			var s gStep
			if json.Unmarshal(sc.Bytes(), &s) == nil && s.Output == nil && s.Gas != "" {
				// a faulting operation is logged twice (OnOpcode, then OnFault): keep one line
				if l := byHash[h]; s.Error != "" && len(l) > 0 && l[len(l)-1].PC == s.PC && l[len(l)-1].Depth == s.Depth && l[len(l)-1].Op == s.Op && l[len(l)-1].Gas == s.Gas {
					l[len(l)-1].Error = s.Error
					continue
				}
				byHash[h] = append(byHash[h], s)
			}
		}
		fh.Close()
	}
	gsteps := map[int][]gStep{} // by input transaction index
	gIncluded := map[int]bool{}
	if run.Out != nil && run.Out.Result != nil {
		grej := map[int]bool{}
		for _, rj := range run.Out.Result.Rejected {
			grej[rj.Index] = true
		}
		k := 0
		for i := range txs {
			if grej[i] {
				continue
			}
			gIncluded[i] = true
			if k < len(run.Out.Result.Receipts) {
				gsteps[i] = byHash["0x"+hex.EncodeToString(run.Out.Result.Receipts[k].TxHash)]
			}
			k++
		}
	}
	// model trace per input transaction index
	rsteps := map[int][]refevm.Step{}
	sink := func(i int) func(*refevm.Step) {
		return func(s *refevm.Step) {
			if len(rsteps[i]) < 2_000_000 {
				rsteps[i] = append(rsteps[i], *s)
			}
		}
	}
	var ref *refevm.BlockResult
	if perr, _ := vrt.Recover(func() { ref, _ = refevm.Transition(c.Fork, c.Pre, c.Env, txs, sink, nil) }); perr != nil {
		return fmt.Sprintf("refevm panicked while tracing: %v", perr)
	}
	rejected := map[int]bool{}
	for k, i := range ref.Rejected {
		rejected[i] = true
		if gIncluded[i] {
			return fmt.Sprintf("tx %d: rejected by the model (%s) but included by geth", i, ref.RejectReasons[k])
		}
	}
	for ti := range txs {
		if rejected[ti] {
			continue
		}
		if !gIncluded[ti] {
			return fmt.Sprintf("tx %d: included by the model but rejected by geth", ti)
		}
		gs, rs := gsteps[ti], rsteps[ti]
		n := len(gs)
		if len(rs) < n {
			n = len(rs)
		}
		for k := 0; k < n; k++ {
			g, m := gs[k], rs[k]
			top := ""
			if len(m.Stack) > 0 {
				top = "0x" + m.Stack[len(m.Stack)-1].Text(16)
			}
			gtop := ""
			if len(g.Stack) > 0 {
				gtop = g.Stack[len(g.Stack)-1]
			}
			same := g.PC == m.PC && g.Op == int(m.Op) && parseU(g.Gas) == m.Gas && g.Depth == m.Depth && len(g.Stack) == len(m.Stack) && eqWord(gtop, top) &&
				// geth updates the refund counter inside SSTORE's gas function, i.e. before the step is
				// logged: at an SSTORE step its value already includes that store (checked at the next step)
				(g.Refund == m.Refund || g.Op == 0x55)
			if !same {
				prev := ""
				if k > 0 {
					p := gs[k-1]
					prev = fmt.Sprintf(" (previous step: pc=%d op=%s gas=%s cost=%s depth=%d; model cost=%d)", p.PC, p.OpName, p.Gas, p.GasCost, p.Depth, rs[k-1].GasCost)
				}
				return fmt.Sprintf("tx %d step %d: geth{pc=%d op=0x%02x(%s) gas=%d depth=%d stack=%d top=%s mem=%d refund=%d} model{pc=%d op=0x%02x gas=%d depth=%d stack=%d top=%s mem=%d refund=%d}%s",
					ti, k, g.PC, g.Op, g.OpName, parseU(g.Gas), g.Depth, len(g.Stack), gtop, g.MemSize, g.Refund, m.PC, m.Op, m.Gas, m.Depth, len(m.Stack), top, m.MemSize, m.Refund, prev)
			}
		}
		if len(gs) != len(rs) {
			last := ""
			if n > 0 {
				last = fmt.Sprintf(" last common step: pc=%d op=%s gas=%s cost=%s (model cost %d, err %q, geth err %q)", gs[n-1].PC, gs[n-1].OpName, gs[n-1].Gas, gs[n-1].GasCost, rs[n-1].GasCost, rs[n-1].Err, gs[n-1].Error)
			}
			return fmt.Sprintf("tx %d: trace lengths differ: geth %d steps, model %d steps;%s", ti, len(gs), len(rs), last)
		}
	}
	return "traces of all transactions agree step by step (difference is outside the interpreter: validity, settlement, system calls, withdrawals, requests or root)"
}

func eqWord(a, b string) bool {
	if a == "" || b == "" {
		return a == b
	}
	x, ok1 := new(big.Int).SetString(strings.TrimPrefix(a, "0x"), 16)
	y, ok2 := new(big.Int).SetString(strings.TrimPrefix(b, "0x"), 16)
	return ok1 && ok2 && x.Cmp(y) == 0
}

var _ = bytes.Equal
