// C26: state transitions conform to the execution specification (Cancun, Prague, Osaka).
//
// Oracle: refevm (verif/lib/refevm), an independently written executable model of the
// yellow paper and the EIPs. THIS IS NOT EELS (not installable here). Every generated
// (alloc, env, txs) is run through `evm t8n` built from /repo/cmd/evm and through the model;
// any difference in post alloc, roots, receipts, rejected set, gas, fees, withdrawals root
// or requests is a violation; on a difference both sides are re-run with tracing and the
// first diverging step is reported.
package main

import (
	"encoding/json"
	"fmt"
	"os"
	"path/filepath"
	"runtime/pprof"
	"sort"
	"strings"
	"sync"

	"verif/lib/refevm"
	"verif/lib/vrt"
)

func main() { vrt.Main("C26", run) }

var forks = []refevm.Fork{refevm.Cancun, refevm.Prague, refevm.Osaka}

type covAgg struct {
	mu       sync.Mutex
	ops      [3][256]uint64
	pre      [3]map[refevm.Address]uint64
	halts    map[string]uint64
	frames   uint64
	maxDepth int
}

func (a *covAgg) add(f refevm.Fork, c *refevm.Coverage) {
	a.mu.Lock()
	defer a.mu.Unlock()
	for i, n := range c.Ops {
		a.ops[f][i] += n
	}
	if a.pre[f] == nil {
		a.pre[f] = map[refevm.Address]uint64{}
	}
	for k, n := range c.Precompiles {
		a.pre[f][k] += n
	}
	for k, n := range c.Halts {
		a.halts[k] += n
	}
	a.frames += c.Frames
	if c.MaxDepth > a.maxDepth {
		a.maxDepth = c.MaxDepth
	}
}

func bucket(n int) string {
	switch {
	case n == 0:
		return "0"
	case n <= 2:
		return "1-2"
	case n <= 16:
		return "3-16"
	case n <= 256:
		return "17-256"
	}
	return ">256"
}

func run(r *vrt.Run) {
	r.Rule("per fork (Cancun, Prague, Osaka): pre-state of 3-5 funded EOAs (optionally delegated or carrying plain code), 1-5 contracts with proggen programs (structured/raw/mutated, 75%) or this package's targeted probe programs (precompile calls with crafted valid/invalid inputs and exact/short gas, SSTORE/TSTORE sequences with measured gas, cold/warm access probes incl. EIP-7702 delegated accounts, CREATE/CREATE2 collisions, init-code size limit, self-destruct factory, unbounded self-recursion to depth 1024, PUSH/DUP/SWAP and arithmetic sweeps), system contracts (real EIP-4788/2935/7002/7251 code, deposit stub, occasionally absent/failing request contracts); env with given or parent-derived base fee / excess blob gas, 0-4 withdrawals, full BLOCKHASH window; 1-12 transactions of types 0-4 (model-steered nonces) incl. deliberately invalid ones, gas limits at intrinsic/floor boundaries, EIP-7623 floor-vs-refund probes, access lists, blobs, authorisation lists (valid, wrong chain/nonce/parity, high-s, duplicates), request-contract and deposit transactions (well-formed and malformed logs). Non-trivial signature = (fork, tx types present, rejected present, status mix, distinct-opcode bucket, max depth bucket, frame bucket, halting reasons seen, requests present, generator tags)")
	bin := evmBinary()
	if _, err := os.Stat(bin); err != nil {
		r.Inconclusive("evm binary not found at %s (declare the build_only variant or set C26_EVM)", bin)
		return
	}
	ft := allFeatures
	// 576-byte deposit logs with wrong offset/size words: go-ethereum accepts them while
	// EIP-6110 (is_valid_deposit_event_data) makes the block invalid. Known divergence,
	// listed in known_findings.json (narrow fingerprint deposit-log-layout-accepted); kept to a
	// small share of the cases; C26_BAD_DEPOSIT_LAYOUT=0 switches the trigger off.
	ft.BadDepositLayout = os.Getenv("C26_BAD_DEPOSIT_LAYOUT") != "0"
	// contract creation onto a storage-only account: EIP-7610 says collision, go-ethereum
	// checks a hard-coded list of mainnet addresses instead. Known divergence, same policy.
	ft.StorageOnlyCollision = os.Getenv("C26_STORAGE_ONLY_COLLISION") != "0"
	// counts, not time budgets: one case costs ~0.05 CPU-s in the model and 0.4-1 CPU-s in the
	// tool on this machine (dominated by the start-up of the 58 MB evm binary)
	perFork := r.N(400, 15000)
	if v := os.Getenv("C26_N"); v != "" {
		fmt.Sscan(v, &perFork)
	}
	if pf := os.Getenv("C26_PROF"); pf != "" { // development aid
		if fh, err := os.Create(pf); err == nil {
			pprof.StartCPUProfile(fh)
			defer pprof.StopCPUProfile()
		}
	}
	agg := &covAgg{halts: map[string]uint64{}}
	vrt.Par(perFork*len(forks), 16, func(i int) {
		fork := forks[i%len(forks)]
		idx := i / len(forks)
		rng := r.Rand("case-"+fork.String(), idx)
		c := genCase(rng, fork, ft)
		r.Case("fork=%s idx=%d tags=%v", fork, idx, c.Tags)
		judge(r, bin, c, idx, agg)
	})
	// coverage obligations
	for _, f := range forks {
		missing := []string{}
		for op := 0; op < 256; op++ {
			if validOp(f, byte(op)) && agg.ops[f][op] == 0 {
				missing = append(missing, fmt.Sprintf("0x%02x", op))
			}
		}
		r.Extra("opcodes_never_executed_"+f.String(), missing)
		n := 0
		for op := 0; op < 256; op++ {
			if agg.ops[f][op] > 0 {
				n++
			}
		}
		r.Count("distinct_opcodes_"+f.String(), n)
		if len(missing) > 0 {
			r.Inconclusive("coverage obligation not met: %s opcodes never executed: %v", f, missing)
		}
		var pmiss []string
		for _, p := range refevm.PrecompileAddresses(f) {
			if agg.pre[f][p] == 0 {
				pmiss = append(pmiss, p.Hex())
			}
		}
		r.Count("precompiles_called_"+f.String(), len(refevm.PrecompileAddresses(f))-len(pmiss))
		if len(pmiss) > 0 {
			r.Inconclusive("coverage obligation not met: %s precompiles never called: %v", f, pmiss)
		}
	}
	r.Count("frames", int(agg.frames))
	r.Count("max_call_depth", agg.maxDepth)
	hk := []string{}
	for k, n := range agg.halts {
		hk = append(hk, fmt.Sprintf("%s=%d", k, n))
	}
	sort.Strings(hk)
	r.Extra("halting_reasons", hk)
	r.Count("distinct_halting_reasons", len(agg.halts))
	for _, reason := range []string{"stop", "return", "revert", "selfdestruct", refevm.HaltOOG, refevm.HaltUnderflow, refevm.HaltOverflow,
		refevm.HaltInvalidOp, refevm.HaltBadJump, refevm.HaltStatic, refevm.HaltRetBounds, refevm.HaltCodeSize, refevm.HaltCodePrefix,
		refevm.HaltCodeStoreOOG, refevm.HaltInitcodeSize, refevm.HaltPrecompile, "precompile " + refevm.HaltOOG, refevm.HaltCollision} {
		if agg.halts[reason] == 0 {
			r.Inconclusive("coverage obligation not met: halting reason %q never observed", reason)
		}
	}
	r.Require("max_call_depth", 1024)
	r.Require("cases_with_requests", 10)
	r.Require("cases_invalid_block", 3)
	r.Require("floor_binding_only_after_refund", 5) // EIP-7623 floor vs refund order is exercised
	r.Require("cases_with_rejected", 10)
	r.Require("receipts_compared", 100)
	r.Assume("ORACLE IS NOT EELS: refevm, an independently written model of the yellow paper + EIPs (lib/refevm); a misreading shared by model and client goes unnoticed")
	r.Assume("precompile outputs for bn254 (0x06-0x08), KZG point evaluation (0x0a), BLS12-381 (0x0b-0x11) and P-256 (0x100) are taken from go-ethereum's implementations; only their gas and call framing are modelled")
	r.Assume("secp256k1 recovery by decred/secp256k1, Keccak/RIPEMD by x/crypto, SHA-256/big-integer arithmetic by the Go standard library; reference trie refmpt; system contract bytecode taken from params (EIP-4788/2935/7002/7251 deployed code)")
	r.Assume("pre-states contain no empty accounts (EIP-7523) and no code at precompile addresses; error messages of rejected transactions are not compared")
}

// validOp reports whether op is assigned in the fork (own table, from the EIPs).
func validOp(f refevm.Fork, op byte) bool {
	switch {
	case op <= 0x0b, op >= 0x10 && op <= 0x1d, op == 0x20, op >= 0x30 && op <= 0x4a, op >= 0x50 && op <= 0x5f,
		op >= 0x60 && op <= 0xa4, op >= 0xf0 && op <= 0xf5, op == 0xfa, op == 0xfd, op == 0xff:
		return true
	case op == 0x1e:
		return f >= refevm.Osaka
	}
	return false // 0xfe (INVALID) is deliberately not "valid": it is counted as a halting reason
}

func judge(r *vrt.Run, bin string, c *Case, idx int, agg *covAgg) {
	txs := make([]*refevm.Tx, len(c.Txs))
	for i, t := range c.Txs {
		txs[i] = t.Tx
	}
	cov := refevm.NewCoverage()
	var ref *refevm.BlockResult
	var refPost refevm.State
	if perr, stack := vrt.Recover(func() { ref, refPost = refevm.Transition(c.Fork, c.Pre, c.Env, txs, nil, cov) }); perr != nil {
		// a crash of the model is a harness error, not a verdict about geth
		r.Inconclusive("refevm panicked on fork=%s idx=%d: %v\n%s", c.Fork, idx, perr, stack)
		dumpCase(r, c, fmt.Sprintf("refevm-panic-%s-%d", c.Fork, idx))
		return
	}
	agg.add(c.Fork, cov)
	for _, reason := range ref.RejectReasons {
		r.Count("reject:"+reason, 1)
	}
	for i, tr := range ref.TxResults {
		if !tr.Rejected && c.Fork >= refevm.Prague {
			// EIP-7623 situations: floor binding at all / binding only because of the refund
			_, floor := refevm.IntrinsicGas(c.Fork, txs[i])
			before := txs[i].Gas - tr.GasLeftExec
			if tr.GasUsed == floor.Uint64() && before-tr.Refund < floor.Uint64() {
				r.Count("floor_binding", 1)
				if before >= floor.Uint64() {
					r.Count("floor_binding_only_after_refund", 1)
				}
			}
		}
		if tr.Refund > 0 {
			r.Count("txs_with_refund", 1)
		}
		if !tr.Rejected {
			if tr.Reason == "" {
				r.Count("txresult:success", 1)
			} else {
				r.Count("txresult:"+tr.Reason, 1)
			}
		}
	}
	if os.Getenv("C26_MODEL_ONLY") == "1" { // timing/tuning aid, never used by the driver
		r.Eval("")
		return
	}
	run := runT8n(bin, c)
	if run.Err != nil && run.Exit == 127 {
		r.Inconclusive("cannot run %s: %v", bin, run.Err)
		return
	}
	mm := compare(c, ref, refPost, run)
	// signature
	types := map[int]bool{}
	for _, t := range txs {
		types[t.Type] = true
	}
	tl := []int{}
	for t := range types {
		tl = append(tl, t)
	}
	sort.Ints(tl)
	ok, fail := 0, 0
	for _, rc := range ref.Receipts {
		if rc.Status == 1 {
			ok++
		} else {
			fail++
		}
	}
	nops := 0
	for _, n := range cov.Ops {
		if n > 0 {
			nops++
		}
	}
	halts := []string{}
	for k := range cov.Halts {
		halts = append(halts, k)
	}
	sort.Strings(halts)
	tags := append([]string{}, c.Tags...)
	sort.Strings(tags)
	sig := fmt.Sprintf("%s/types%v/rej%v/ok%v/fail%v/ops%d/depth%s/frames%s/halts%v/req%d/tool%v/%v", c.Fork, tl, len(ref.Rejected) > 0, ok > 0, fail > 0,
		nops/8, bucket(cov.MaxDepth), bucket(int(cov.Frames)), halts, len(ref.Requests), ref.ToolError != "", tags)
	if len(ref.Receipts) == 0 && ref.ToolError == "" && len(ref.Rejected) == 0 {
		sig = ""
	}
	r.Eval(sig)
	r.Count("receipts_compared", len(ref.Receipts))
	r.Count("txs_rejected", len(ref.Rejected))
	if len(ref.Rejected) > 0 {
		r.Count("cases_with_rejected", 1)
	}
	if ref.ToolError != "" {
		r.Count("cases_invalid_block", 1)
	}
	if len(ref.Requests) > 0 {
		r.Count("cases_with_requests", 1)
	}
	for _, t := range txs {
		r.Count(fmt.Sprintf("txs_type%d", t.Type), 1)
	}
	r.Count("cases_"+c.Fork.String(), 1)
	if r.WantSample() && len(ref.Receipts) > 0 && cov.Frames > 2 {
		r.Sample(map[string]any{"fork": c.Fork.String(), "idx": idx, "tags": tags, "txs": len(txs), "receipts": len(ref.Receipts), "rejected": ref.Rejected,
			"gasUsed": ref.GasUsed, "stateRoot": ref.StateRoot.Hex(), "frames": cov.Frames, "distinct_opcodes": nops, "halts": halts})
	}
	if len(mm) == 0 {
		return
	}
	// localise: first diverging trace step
	loc := localise(r, bin, c, txs)
	classes := []string{}
	msg := ""
	for _, m := range mm {
		classes = append(classes, m.Field)
		msg += m.Msg + "; "
	}
	fp := fmt.Sprintf("%s:%s", c.Fork, classes[0])
	// Known divergences: the narrow fingerprint is used only if the case contains the trigger
	// AND flipping exactly that one rule in the model makes every compared output equal.
	explained := func(q refevm.Quirks) bool {
		env2 := *c.Env
		env2.Quirks = q
		var ref2 *refevm.BlockResult
		var post2 refevm.State
		if perr, _ := vrt.Recover(func() { ref2, post2 = refevm.Transition(c.Fork, c.Pre, &env2, txs, nil, nil) }); perr != nil {
			return false
		}
		return len(compare(c, ref2, post2, run)) == 0
	}
	switch {
	case ref.ToolError == "invalid deposit log layout" && explained(refevm.Quirks{NoDepositLayoutCheck: true}):
		fp = "deposit-log-layout-accepted"
		r.Count("known:deposit-log-layout-accepted", 1)
	case cov.Halts[refevm.HaltCollisionStorageOnly] > 0 && explained(refevm.Quirks{NoStorageCollision: true}):
		fp = "eip7610-storage-only-collision"
		r.Count("known:eip7610-storage-only-collision", 1)
	}
	witness := map[string]any{"fork": c.Fork.String(), "idx": idx, "tags": tags, "mismatches": mm, "first_divergence": loc,
		"input": json.RawMessage(c.InputJSON()), "t8n_stderr": tail(run.Stderr, 2000)}
	r.Violation(fp, fmt.Sprintf("fork=%s idx=%d: %s first divergence: %s", c.Fork, idx, msg, loc), witness)
}

func dumpCase(r *vrt.Run, c *Case, name string) {
	os.MkdirAll(r.Replay, 0o755)
	os.WriteFile(filepath.Join(r.Replay, name+".json"), c.InputJSON(), 0o644)
}

var _ = strings.Join
