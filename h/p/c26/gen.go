package main

import (
	"fmt"
	"math/big"
	"math/rand"

	"github.com/ethereum/go-ethereum/common"
	"github.com/ethereum/go-ethereum/params"

	"verif/lib/proggen"
	"verif/lib/refevm"
)

// Features switches generator features on/off. A feature whose modelling is not finished is
// switched off HERE (the comparison is never loosened).
type Features struct {
	Proggen          bool // proggen programs as contract code
	OwnProgs         bool // this package's targeted programs (precompile inputs, refund patterns, ...)
	AccessList       bool
	DynFee           bool
	Blob             bool
	SetCode          bool
	InvalidTxs       bool // deliberately invalid transactions (rejections)
	Withdrawals      bool
	SystemTxs        bool // transactions to the request system contracts / deposit stub
	CreateTxs        bool
	Delegated        bool // EOAs with a delegation designator in the pre-state
	BadDeposits      bool // deposit logs of the wrong length (invalid block)
	BadDepositLayout bool // 576-byte deposit logs with wrong offset/size words (EIP-6110 layout validation)
	// StorageOnlyCollision: CREATE/CREATE2 onto an account with storage but neither nonce nor
	// code (EIP-7610). go-ethereum only rejects a fixed list of 28 mainnet addresses.
	StorageOnlyCollision bool
	GasBoundary          bool // gas limits at intrinsic/floor boundaries and tight execution gas
	DerivedFees          bool // base fee / excess blob gas derived from parent fields
}

var allFeatures = Features{Proggen: true, OwnProgs: true, AccessList: true, DynFee: true, Blob: true, SetCode: true, InvalidTxs: true,
	Withdrawals: true, SystemTxs: true, CreateTxs: true, Delegated: true, BadDeposits: true, GasBoundary: true, DerivedFees: true}

type keyPair struct {
	Key  []byte
	Addr refevm.Address
}

var keys []keyPair

func init() {
	for i := 0; i < 7; i++ {
		k := refevm.Keccak256([]byte(fmt.Sprintf("verif c26 key %d", i)))
		keys = append(keys, keyPair{k, refevm.AddressOfKey(k)})
	}
}

func contractAddr(i int) refevm.Address {
	var a refevm.Address
	a[0], a[17], a[18], a[19] = 0xc0, 0xde, 0x00, byte(i)
	return a
}

func pick[T any](rng *rand.Rand, xs ...T) T { return xs[rng.Intn(len(xs))] }

func ether(n int64) *big.Int { return new(big.Int).Mul(big.NewInt(n), big.NewInt(1e18)) }

func randHash(rng *rand.Rand) (h refevm.Hash) {
	rng.Read(h[:])
	return
}

func randWord(rng *rand.Rand) *big.Int {
	switch rng.Intn(6) {
	case 0:
		return new(big.Int)
	case 1:
		return big.NewInt(1)
	case 2:
		return big.NewInt(int64(rng.Intn(256)))
	case 3:
		return new(big.Int).Sub(new(big.Int).Lsh(big.NewInt(1), 256), big.NewInt(1))
	default:
		return randHash(rng).Big()
	}
}

type caseGen struct {
	rng          *rand.Rand
	fork         refevm.Fork
	ft           Features
	c            *Case
	eoas         []keyPair        // funded signers present in the pre-state
	conts        []refevm.Address // generated contracts
	univ         []refevm.Address // address universe for references
	nonce        map[refevm.Address]uint64
	tags         map[string]bool
	codeSender   *keyPair // signer whose account carries plain code
	blockGasLeft uint64
	recursers    []refevm.Address // contracts carrying the loop-free self-recursion probe
	refunders    []refevm.Address // contracts carrying the SSTORE gas/refund probe
	delegated    []refevm.Address // accounts carrying a delegation designator in the pre-state
	steerEnv     *refevm.BlockEnv // incremental model run used for steering only
	steerState   refevm.State
	steerCtx     *refevm.BlockCtx
}

func (g *caseGen) tag(s string) { g.tags[s] = true }

func genCase(rng *rand.Rand, fork refevm.Fork, ft Features) *Case {
	g := &caseGen{rng: rng, fork: fork, ft: ft, nonce: map[refevm.Address]uint64{}, tags: map[string]bool{}}
	g.c = &Case{Fork: fork, Pre: refevm.State{}}
	g.genUniverse()
	g.genEnv()
	g.genAccounts()
	g.genTxs()
	for t := range g.tags {
		g.c.Tags = append(g.c.Tags, t)
	}
	return g.c
}

// genUniverse fixes the address universe first (programs and the environment reference it).
func (g *caseGen) genUniverse() {
	rng := g.rng
	nE := 3 + rng.Intn(3)
	nC := 1 + rng.Intn(5)
	for i := 0; i < nE; i++ {
		g.eoas = append(g.eoas, keys[i])
		g.univ = append(g.univ, keys[i].Addr)
	}
	for i := 0; i < nC; i++ {
		g.conts = append(g.conts, contractAddr(i))
		g.univ = append(g.univ, contractAddr(i))
	}
}

func (g *caseGen) genAccounts() {
	rng, pre := g.rng, g.c.Pre
	// EOAs
	for _, k := range g.eoas {
		acc := pre.GetOrNew(k.Addr)
		acc.Balance = pick(rng, ether(1000), ether(1000), ether(1000), ether(1), ether(1), big.NewInt(int64(rng.Intn(5_000_000))*1e9))
		if g.c.Env.GasLimit >= 1<<42 {
			acc.Balance = ether(10_000_000) // can afford the huge-gas transactions
		}
		acc.Nonce = pick(rng, uint64(0), 0, 1, 7, 1<<32)
		g.nonce[k.Addr] = acc.Nonce
	}
	// an account with a known key but plain code: transactions from it are invalid (EIP-3607)
	if g.ft.InvalidTxs && rng.Intn(8) == 0 {
		k := g.eoas[len(g.eoas)-1]
		pre[k.Addr].Code = []byte{0x00}
		g.codeSender = &k
		g.tag("sender-with-code")
	}
	// delegated EOAs in the pre-state. Before Prague a designator is plain code that cannot
	// have been deployed (EIP-3541); such an account is then only a call target, never a
	// sender (go-ethereum accepts it as sender on every fork, EIP-3607 as written does not;
	// the situation is unreachable on a real chain and is reported, not generated).
	if g.ft.Delegated && (rng.Intn(3) == 0 || (g.fork >= refevm.Prague && rng.Intn(3) == 0)) && g.codeSender == nil {
		k := g.eoas[rng.Intn(len(g.eoas))]
		if g.fork < refevm.Prague {
			k = g.eoas[len(g.eoas)-1]
			g.eoas = g.eoas[:len(g.eoas)-1]
		}
		var target refevm.Address
		switch rng.Intn(6) {
		case 0:
			target = refevm.BytesToAddress([]byte{byte(1 + rng.Intn(10))}) // precompile
		case 1:
			target = keys[(rng.Intn(len(g.eoas)))].Addr // another EOA (possibly itself / delegated)
		case 2:
			target = refevm.BytesToAddress([]byte{0xde, 0xad}) // nonexistent
		default:
			target = g.conts[rng.Intn(len(g.conts))]
		}
		pre[k.Addr].Code = append([]byte{0xef, 0x01, 0x00}, target[:]...)
		if pre[k.Addr].Nonce == 0 {
			pre[k.Addr].Nonce = 1
			g.nonce[k.Addr] = 1
		}
		g.delegated = append(g.delegated, k.Addr)
		g.tag("pre-delegated")
	}
	// contracts
	addrs := make([]common.Address, len(g.univ))
	for i, a := range g.univ {
		addrs[i] = common.Address(a)
	}
	for _, a := range g.conts {
		acc := pre.GetOrNew(a)
		acc.Nonce = pick(rng, uint64(1), 1, 1, 0, 5)
		acc.Balance = pick(rng, new(big.Int), big.NewInt(1), big.NewInt(1000), ether(1))
		acc.Code = g.genCode(a, acc.Nonce, addrs)
		// pre-existing storage on the slots the programs use
		for _, s := range []int64{0, 1, 2, 3, 4, 5, 16, 17, 18, 19} {
			if rng.Intn(3) == 0 {
				v := pick(rng, big.NewInt(1), big.NewInt(2), randWord(rng))
				if v.Sign() != 0 {
					acc.Storage[refevm.WordToHash(big.NewInt(s))] = v
				}
			}
		}
	}
	// system contracts
	sys := func(a refevm.Address, code []byte) {
		acc := pre.GetOrNew(a)
		acc.Nonce, acc.Code = 1, code
	}
	if rng.Intn(10) != 0 {
		sys(refevm.BeaconRootsAddress, params.BeaconRootsCode)
	}
	if g.fork >= refevm.Prague {
		if rng.Intn(10) != 0 {
			sys(refevm.HistoryAddress, params.HistoryStorageCode)
		}
		sys(refevm.WithdrawalReqAddress, params.WithdrawalQueueCode)
		sys(refevm.ConsolidationAddress, params.ConsolidationQueueCode)
		sys(refevm.DepositAddress, depositStub)
		if g.ft.BadDeposits && rng.Intn(25) == 0 {
			// a request contract that is absent, fails, or returns arbitrary bytes (EIP-7002 /
			// EIP-7251: absent code or a failing system call invalidates the block)
			a := pick(rng, refevm.WithdrawalReqAddress, refevm.ConsolidationAddress)
			switch rng.Intn(3) {
			case 0:
				delete(pre, a)
				g.tag("sys:request-contract-absent")
			case 1:
				pre[a].Code = []byte{proggen.PUSH0, proggen.PUSH0, proggen.REVERT}
				g.tag("sys:request-contract-reverts")
			case 2:
				b := make([]byte, rng.Intn(100))
				rng.Read(b)
				pre[a].Code = proggen.ReturnConst(b)
				g.tag("sys:request-contract-custom")
			}
		}
		if rng.Intn(4) == 0 {
			// pre-existing excess in the request contracts (slot 0), incl. the inhibitor value
			v := pick(rng, big.NewInt(1), big.NewInt(int64(rng.Intn(40))), new(big.Int).Sub(new(big.Int).Lsh(big.NewInt(1), 256), big.NewInt(1)))
			if acc := pre[pick(rng, refevm.WithdrawalReqAddress, refevm.ConsolidationAddress)]; v.Sign() != 0 && acc != nil {
				acc.Storage[refevm.Hash{}] = v
			}
		}
	}
}

// depositStub logs its call data under the deposit event topic (LOG1), or under another
// topic when the call value is odd, or without topic when the call data is empty.
//
//	CALLDATASIZE PUSH0 PUSH0 CALLDATACOPY  PUSH32 topic  CALLVALUE PUSH1 1 AND XOR  CALLDATASIZE PUSH0 LOG1 STOP
var depositStub = func() []byte {
	a := proggen.NewAsm()
	a.Op(proggen.CALLDATASIZE, proggen.PUSH0, proggen.PUSH0, proggen.CALLDATACOPY)
	a.PushN(32, refevm.DepositEventTopic[:])
	a.Op(proggen.CALLVALUE).Push(1).Op(proggen.AND, proggen.XOR)
	a.Op(proggen.CALLDATASIZE, proggen.PUSH0, 0xa1, proggen.STOP)
	return a.Bytes()
}()

func (g *caseGen) genCode(self refevm.Address, selfNonce uint64, addrs []common.Address) []byte {
	rng := g.rng
	if g.ft.OwnProgs && (!g.ft.Proggen || rng.Intn(4) == 0) {
		g.tag("ownprog")
		return ownProgram(g, self, selfNonce)
	}
	if !g.ft.Proggen {
		return []byte{0x00}
	}
	o := proggen.Opts{Fork: g.fork.String(), Addrs: addrs, MaxLen: pick(rng, 64, 200, 384, 800), AllowGasDependent: true}
	if rng.Intn(8) == 0 {
		o.Hostile = 0.1
	}
	p := proggen.Gen(rng, o)
	g.tag("prog:" + p.Kind)
	return p.Code
}

func (g *caseGen) genEnv() {
	rng := g.rng
	e := &refevm.Env{ChainID: big.NewInt(1)}
	g.c.Env = e
	e.Coinbase = pick(rng, refevm.BytesToAddress([]byte{0xc0, 0x1b, 0xa5, 0xe0}), g.univ[rng.Intn(len(g.univ))], refevm.BytesToAddress([]byte{0xc0, 0x1b, 0xa5, 0xe0}))
	e.Number = pick(rng, uint64(1), 2, uint64(3+rng.Intn(250)), 256, 257, 300, 8191, 8192, 20_000_000)
	e.Timestamp = pick(rng, uint64(1000), 1_700_000_000, uint64(rng.Intn(1<<30)+1))
	e.GasLimit = pick(rng, uint64(30_000_000), 30_000_000, 30_000_000, 100_000_000, 100_000_000, 100_000_000, 5_000_000, 500_000, 1<<42)
	e.Random = randHash(rng)
	if g.ft.DerivedFees && rng.Intn(2) == 0 {
		e.ParentBaseFee = pick(rng, big.NewInt(7), big.NewInt(1_000_000_000), big.NewInt(int64(1+rng.Intn(1000))), big.NewInt(0))
		e.ParentGasLimit = pick(rng, uint64(30_000_000), 5000, 1_000_000)
		e.ParentGasUsed = pick(rng, e.ParentGasLimit/2, 0, e.ParentGasLimit, uint64(rng.Int63n(int64(e.ParentGasLimit)+1)))
		g.tag("derived-basefee")
	} else {
		e.BaseFee = pick(rng, big.NewInt(7), big.NewInt(1_000_000_000), big.NewInt(int64(rng.Intn(1000))), big.NewInt(0))
	}
	// blob environment
	u := func(x uint64) *uint64 { return &x }
	if g.ft.DerivedFees && rng.Intn(2) == 0 {
		e.ParentExcessBlobGas = u(pick(rng, uint64(0), 131072*3, 131072*6, uint64(rng.Intn(40))*131072, 50_000_000))
		e.ParentBlobGasUsed = u(uint64(rng.Intn(10)) * 131072)
		if e.ParentBaseFee == nil {
			// the tool reads parentBaseFee for the EIP-7918 reserve price
			e.ParentBaseFee = pick(rng, big.NewInt(7), big.NewInt(1_000_000_000), big.NewInt(int64(1+rng.Intn(1000))))
			e.ParentGasLimit = 30_000_000
			e.ParentGasUsed = pick(rng, uint64(15_000_000), 0, 30_000_000)
		}
		g.tag("derived-excess")
	} else {
		e.ExcessBlobGas = u(pick(rng, uint64(0), 0, 131072*3, uint64(rng.Intn(60))*131072, 20_000_000, 60_000_000))
	}
	// block hashes: everything the BLOCKHASH window can ask for
	e.BlockHashes = map[uint64]refevm.Hash{}
	lo := uint64(0)
	if e.Number > 256 {
		lo = e.Number - 256
	}
	for n := lo; n < e.Number; n++ {
		e.BlockHashes[n] = refevm.BytesToHash(refevm.Keccak256([]byte(fmt.Sprintf("block %d", n))))
	}
	br := randHash(rng)
	e.ParentBeaconRoot = &br
	if g.ft.Withdrawals {
		for i, n := 0, pick(rng, 0, 0, 1, 2, 4); i < n; i++ {
			w := refevm.Withdrawal{Index: uint64(i) + pick(rng, uint64(0), 1000), Validator: uint64(rng.Intn(100000)),
				Amount: pick(rng, uint64(0), 1, 32_000_000_000, uint64(rng.Int63()), ^uint64(0))}
			w.Address = pick(rng, g.univ[rng.Intn(len(g.univ))], refevm.BytesToAddress([]byte{0x77, byte(i)}), e.Coinbase)
			e.Withdrawals = append(e.Withdrawals, w)
			g.tag("withdrawal")
		}
	}
}

// target picks a transaction destination.
func (g *caseGen) target() *refevm.Address {
	rng := g.rng
	var a refevm.Address
	switch x := rng.Intn(20); {
	case x < 11:
		a = g.conts[rng.Intn(len(g.conts))]
	case x < 13:
		a = g.univ[rng.Intn(len(g.univ))]
	case x < 14:
		a = refevm.BytesToAddress([]byte{byte(1 + rng.Intn(17))})
		g.tag("to-precompile")
	case x < 15:
		a = refevm.BytesToAddress([]byte{0xde, 0xad, byte(rng.Intn(3))})
	case x < 16:
		a = pick(rng, refevm.BeaconRootsAddress, refevm.HistoryAddress)
		g.tag("to-syscontract")
	default:
		a = g.conts[rng.Intn(len(g.conts))]
	}
	return &a
}

func (g *caseGen) genTxs() {
	rng := g.rng
	n := pick(rng, 1, 2, 3, 4, 6, 8, 12)
	g.blockGasLeft = g.c.Env.GasLimit
	base := g.c.Env.BaseFee
	if base == nil {
		base = refevm.CalcBaseFee(g.c.Env.ParentBaseFee, g.c.Env.ParentGasUsed, g.c.Env.ParentGasLimit)
	}
	for i := 0; i < n; i++ {
		k := g.eoas[rng.Intn(len(g.eoas))]
		if g.codeSender != nil && k.Addr == g.codeSender.Addr && rng.Intn(3) != 0 {
			k = g.eoas[0]
		}
		tx := &refevm.Tx{From: k.Addr, Nonce: g.nonce[k.Addr], Value: new(big.Int)}
		// type
		types := []int{0}
		if g.ft.AccessList {
			types = append(types, 1)
		}
		if g.ft.DynFee {
			types = append(types, 2, 2)
		}
		if g.ft.Blob {
			types = append(types, 3)
		}
		if g.ft.SetCode && g.fork >= refevm.Prague {
			types = append(types, 4, 4)
		} else if g.ft.SetCode && g.ft.InvalidTxs && rng.Intn(25) == 0 {
			types = []int{4} // transaction type not yet valid in this fork: rejected
			g.tag("type4-before-prague")
		}
		tx.Type = types[rng.Intn(len(types))]
		// destination and data
		tx.To = g.target()
		tx.Data = g.calldata()
		floorProbe := false
		if g.fork >= refevm.Prague && ((len(g.refunders) > 0 && rng.Intn(2) == 0) || (tx.Type == 4 && rng.Intn(4) == 0)) {
			// EIP-7623 floor against refunds: calldata-heavy transaction whose execution earns
			// SSTORE-clearing / authorisation refunds (floor between used-before and used-after refund)
			if len(g.refunders) > 0 {
				a := g.refunders[rng.Intn(len(g.refunders))]
				tx.To = &a
			}
			tx.Data = make([]byte, 100+rng.Intn(700))
			for i := range tx.Data {
				tx.Data[i] = byte(1 + rng.Intn(255))
			}
			g.tag("floor-vs-refund")
			floorProbe = true
		} else if g.ft.CreateTxs && tx.Type <= 2 && rng.Intn(6) == 0 {
			tx.To = nil
			tx.Data = g.initcode()
			g.tag("create-tx")
		}
		if g.ft.SystemTxs && g.fork >= refevm.Prague && tx.To != nil && rng.Intn(6) == 0 {
			g.systemTx(tx)
		}
		tx.Value = pick(rng, new(big.Int), new(big.Int), big.NewInt(1), big.NewInt(int64(rng.Intn(1000))), tx.Value)
		if tx.Value == nil {
			tx.Value = new(big.Int)
		}
		// fees
		bump := big.NewInt(int64(rng.Intn(50)))
		fee := new(big.Int).Add(base, bump)
		if tx.Type <= 1 {
			tx.GasPrice = fee
		} else {
			tx.MaxFee = new(big.Int).Add(fee, big.NewInt(int64(rng.Intn(100))))
			tx.MaxTip = pick(rng, new(big.Int), big.NewInt(1), bump, new(big.Int).Set(tx.MaxFee))
		}
		if tx.Type >= 1 && rng.Intn(2) == 0 {
			for j, m := 0, 1+rng.Intn(3); j < m; j++ {
				t := refevm.AccessTuple{Address: pick(rng, g.univ[rng.Intn(len(g.univ))], refevm.BytesToAddress([]byte{byte(rng.Intn(20))}), g.c.Env.Coinbase)}
				for q, nk := 0, rng.Intn(4); q < nk; q++ {
					t.Keys = append(t.Keys, refevm.WordToHash(big.NewInt(int64(pick(rng, 0, 1, 2, 3, 4, 5, 16, 17, 0xfe)))))
				}
				tx.AccessList = append(tx.AccessList, t)
			}
			g.tag("accesslist")
		}
		if tx.Type == 3 {
			g.blobFields(tx)
		}
		if tx.Type == 4 {
			g.authList(tx, k)
		}
		// gas: what validity needs plus an execution allowance
		{
			intr, floor := refevm.IntrinsicGas(g.fork, tx)
			need := intr.Uint64()
			if floor.Uint64() > need {
				need = floor.Uint64()
			}
			tx.Gas = need + pick(rng, uint64(rng.Intn(3000)), uint64(rng.Intn(60_000)), 100_000, 300_000, 300_000, 1_000_000, 1_000_000, 3_000_000)
			// Huge gas (enough for 1024 nested frames despite the 63/64 rule) only for calls
			// to the loop-free self-recursion probe: any loop would run practically forever.
			if g.fork < refevm.Osaka && len(g.recursers) > 0 && rng.Intn(2) == 0 && g.c.Env.GasLimit >= 1<<42 && tx.Type != 3 {
				a := g.recursers[rng.Intn(len(g.recursers))]
				tx.To = &a
				tx.Gas = 1 << 40
				g.tag("huge-gas")
			}
		}
		if floorProbe {
			g.tuneFloorProbe(tx)
		} else if g.ft.GasBoundary && rng.Intn(10) == 0 {
			g.gasBoundary(tx)
		}
		invalid := false
		if g.ft.InvalidTxs && rng.Intn(9) == 0 {
			invalid = g.makeInvalid(tx, base)
		}
		if !invalid {
			if g.fork >= refevm.Osaka && tx.Gas > 1<<24 {
				tx.Gas = 1 << 24
			}
			// keep within the gas the block has left (unless that makes it unexecutable anyway)
			if intr, _ := refevm.IntrinsicGas(g.fork, tx); tx.Gas > g.blockGasLeft && g.blockGasLeft > intr.Uint64()+1000 {
				tx.Gas = g.blockGasLeft
			}
		}
		g.tag(fmt.Sprintf("txtype%d", tx.Type))
		g.c.Txs = append(g.c.Txs, &TxSpec{Tx: tx, Key: k.Key})
		g.steer()
	}
}

// steer runs the model on the transactions generated so far and takes the senders' next
// nonces and the remaining block gas from it (the oracle steers generation only; the
// verdict never depends on this).
func (g *caseGen) steer() {
	defer func() { recover() }() // a model crash here only costs steering; judge() reports it
	if !g.ensureSteer() {
		return
	}
	tx := g.c.Txs[len(g.c.Txs)-1].Tx
	trial, tbc := g.steerState.Copy(), *g.steerCtx
	if r, _ := refevm.ApplyTx(trial, g.steerEnv, &tbc, tx, nil, nil); !r.Rejected {
		g.steerState, *g.steerCtx = trial, tbc
	}
	for _, k := range keys {
		if acc := g.steerState[k.Addr]; acc != nil {
			g.nonce[k.Addr] = acc.Nonce
		}
	}
	g.blockGasLeft = g.steerCtx.GasLeft
}

// tuneFloorProbe sizes the (all non-zero) calldata of tx so that the EIP-7623 floor lies
// between the gas used before and after the refund, using a trial run of the model.
func (g *caseGen) tuneFloorProbe(tx *refevm.Tx) {
	defer func() { recover() }()
	if !g.ensureSteer() {
		return
	}
	trial, tbc := g.steerState.Copy(), *g.steerCtx
	r, _ := refevm.ApplyTx(trial, g.steerEnv, &tbc, tx, nil, nil)
	if r.Rejected || r.Refund == 0 {
		return
	}
	intr, _ := refevm.IntrinsicGas(g.fork, tx)
	exec := tx.Gas - intr.Uint64() - r.GasLeftExec
	if exec < r.Refund/2+24 {
		return
	}
	n := int((exec - r.Refund/2) / 24)
	if n < 1 || n > 6000 {
		return
	}
	tx.Data = make([]byte, n)
	for i := range tx.Data {
		tx.Data[i] = byte(1 + g.rng.Intn(255))
	}
	_, floor := refevm.IntrinsicGas(g.fork, tx)
	tx.Gas = floor.Uint64() + 200_000
	g.tag("floor-vs-refund-tuned")
}

// ensureSteer prepares the incremental model run used for steering.
func (g *caseGen) ensureSteer() bool {
	if g.steerEnv == nil {
		be, ok := refevm.NewBlockEnv(g.fork, g.c.Env)
		if !ok {
			return false
		}
		g.steerEnv, g.steerState = be, g.c.Pre.Copy()
		g.steerCtx = &refevm.BlockCtx{GasLeft: g.c.Env.GasLimit}
		if g.c.Env.ParentBeaconRoot != nil {
			refevm.SystemCall(g.steerState, be, refevm.BeaconRootsAddress, g.c.Env.ParentBeaconRoot[:])
		}
		if g.fork >= refevm.Prague && g.c.Env.BlockHashes != nil {
			ph := g.c.Env.BlockHashes[g.c.Env.Number-1]
			refevm.SystemCall(g.steerState, be, refevm.HistoryAddress, ph[:])
		}
	}
	return true
}

func (g *caseGen) calldata() []byte {
	rng := g.rng
	n := pick(rng, 0, 0, 4, 32, 36, 68, rng.Intn(200), 1000)
	b := make([]byte, n)
	switch rng.Intn(3) {
	case 0: // zeros
	case 1:
		rng.Read(b)
	case 2:
		for i := range b {
			if rng.Intn(2) == 0 {
				b[i] = byte(rng.Intn(256))
			}
		}
	}
	return b
}

func (g *caseGen) initcode() []byte {
	rng := g.rng
	addrs := make([]common.Address, len(g.univ))
	for i, a := range g.univ {
		addrs[i] = common.Address(a)
	}
	p := proggen.Gen(rng, proggen.Opts{Fork: g.fork.String(), Addrs: addrs, MaxLen: 200, AllowGasDependent: true})
	switch rng.Intn(4) {
	case 0:
		return p.Code // the program itself is the init code
	case 1:
		return proggen.InitCodeReturning(append([]byte{0xef}, p.Code...))
	default:
		return proggen.InitCodeReturning(p.Code)
	}
}

func (g *caseGen) systemTx(tx *refevm.Tx) {
	rng := g.rng
	switch rng.Intn(3) {
	case 0:
		a := refevm.WithdrawalReqAddress
		tx.To = &a
		tx.Data = make([]byte, pick(rng, 56, 56, 56, 55, 0))
		rng.Read(tx.Data)
		tx.Value = pick(rng, big.NewInt(1), big.NewInt(1000), big.NewInt(0), ether(1))
		g.tag("sys:withdrawal-request")
	case 1:
		a := refevm.ConsolidationAddress
		tx.To = &a
		tx.Data = make([]byte, pick(rng, 96, 96, 96, 97, 0))
		rng.Read(tx.Data)
		tx.Value = pick(rng, big.NewInt(1), big.NewInt(1000), big.NewInt(0), ether(1))
		g.tag("sys:consolidation-request")
	case 2:
		a := refevm.DepositAddress
		tx.To = &a
		tx.Data = depositData(rng, g.ft.BadDeposits && rng.Intn(6) == 0, g.ft.BadDepositLayout)
		tx.Value = pick(rng, big.NewInt(0), big.NewInt(0), big.NewInt(2), big.NewInt(1))
		g.tag("sys:deposit")
	}
}

// depositData builds the ABI encoding of a DepositEvent; malformed variants break one
// offset/size word or the total length.
func depositData(rng *rand.Rand, malformed, layout bool) []byte {
	d := make([]byte, 576)
	put := func(off int, v int64) { big.NewInt(v).FillBytes(d[off : off+32]) }
	put(0, 160)
	put(32, 256)
	put(64, 320)
	put(96, 384)
	put(128, 512)
	put(160, 48)
	put(256, 32)
	put(320, 8)
	put(384, 96)
	put(512, 8)
	rng.Read(d[192:240])
	rng.Read(d[288:320])
	rng.Read(d[352:360])
	rng.Read(d[416:512])
	rng.Read(d[544:552])
	if malformed {
		k := 2
		if layout {
			k = 4
		}
		switch rng.Intn(k) {
		case 0:
			return d[:575]
		case 1:
			return append(d, 0)
		case 2:
			put(32*rng.Intn(5), int64(rng.Intn(600)))
		case 3:
			put(pick(rng, 160, 256, 320, 384, 512), int64(rng.Intn(100)))
		}
	}
	return d
}

func (g *caseGen) blobFields(tx *refevm.Tx) {
	rng := g.rng
	n := pick(rng, 1, 1, 2, 3, 6)
	for i := 0; i < n; i++ {
		h := randHash(rng)
		h[0] = 0x01
		tx.BlobHashes = append(tx.BlobHashes, h)
	}
	ex := uint64(0)
	e := g.c.Env
	if e.ExcessBlobGas != nil {
		ex = *e.ExcessBlobGas
	} else {
		ex = refevm.CalcExcessBlobGas(g.fork, *e.ParentExcessBlobGas, *e.ParentBlobGasUsed, e.ParentBaseFee)
	}
	bf := refevm.BlobBaseFee(g.fork, ex)
	tx.MaxFeePerBlobGas = new(big.Int).Add(bf, big.NewInt(int64(rng.Intn(10))))
	g.tag("blob")
}

func (g *caseGen) authList(tx *refevm.Tx, sender keyPair) {
	rng := g.rng
	n := pick(rng, 1, 1, 2, 3)
	localNonce := map[refevm.Address]uint64{}
	for i := 0; i < n; i++ {
		signer := pick(rng, keys[rng.Intn(len(g.eoas))], keys[rng.Intn(len(keys))], sender)
		a := refevm.Auth{ChainID: pick(rng, big.NewInt(1), big.NewInt(1), big.NewInt(0), big.NewInt(2))}
		switch rng.Intn(8) {
		case 0:
			a.Address = refevm.Address{} // reset
		case 1:
			a.Address = refevm.BytesToAddress([]byte{byte(1 + rng.Intn(17))})
		case 2:
			a.Address = keys[rng.Intn(len(keys))].Addr
		default:
			a.Address = g.conts[rng.Intn(len(g.conts))]
		}
		// expected nonce of the authority at processing time
		nn, seen := localNonce[signer.Addr]
		if !seen {
			nn = g.nonce[signer.Addr]
			if _, ok := g.c.Pre[signer.Addr]; !ok {
				nn = 0
			}
			if signer.Addr == sender.Addr {
				nn++ // the sender's nonce is bumped before the list is processed
			}
		}
		a.Nonce = pick(rng, nn, nn, nn, nn, nn+1, 0)
		yp, r, s := refevm.SignRecoverable(signer.Key, a.SigHash())
		a.YParity, a.R, a.S = uint64(yp), r, s
		valid := a.Nonce == nn && (a.ChainID.Int64() == 0 || a.ChainID.Int64() == 1)
		switch rng.Intn(12) {
		case 0: // high-s twin of the same signature (valid for ecrecover, invalid for EIP-7702)
			n, _ := new(big.Int).SetString("fffffffffffffffffffffffffffffffebaaedce6af48a03bbfd25e8cd0364141", 16)
			a.S = new(big.Int).Sub(n, a.S)
			a.YParity ^= 1
			valid = false
		case 1: // other parity: recovers some other (non-existent) authority
			a.YParity ^= 1
			valid = false
		case 2:
			a.YParity = pick(rng, uint64(2), 27, 255)
			valid = false
		case 3:
			a.R = new(big.Int)
			valid = false
		}
		if valid {
			localNonce[signer.Addr] = nn + 1
			if _, d := refevm.ParseDelegation(preCode(g.c.Pre, signer.Addr)); len(preCode(g.c.Pre, signer.Addr)) == 0 || d {
				// becomes effective: later transactions of that signer need the bumped nonce
				g.nonce[signer.Addr] = nn + 1
				if signer.Addr == sender.Addr {
					g.nonce[signer.Addr] = nn // the generic sender bump follows
				}
			}
		}
		tx.AuthList = append(tx.AuthList, a)
	}
	g.tag("authlist")
}

func (g *caseGen) gasBoundary(tx *refevm.Tx) {
	rng := g.rng
	intr, floor := refevm.IntrinsicGas(g.fork, tx)
	i, f := intr.Uint64(), floor.Uint64()
	opts := []uint64{i, i + 1, i - 1, i + uint64(rng.Intn(3000)), i + uint64(rng.Intn(40000))}
	if f > 0 {
		opts = append(opts, f, f+1, f-1)
	}
	tx.Gas = opts[rng.Intn(len(opts))]
	g.tag("gas-boundary")
}

// makeInvalid turns tx into a (probably) rejected one; it reports whether it did.
func (g *caseGen) makeInvalid(tx *refevm.Tx, base *big.Int) bool {
	rng := g.rng
	g.tag("invalid-tx")
	switch rng.Intn(12) {
	case 0:
		tx.Nonce += pick(rng, uint64(1), 5)
	case 1:
		if tx.Nonce == 0 {
			return false
		}
		tx.Nonce--
	case 2:
		tx.Value = ether(1_000_000)
	case 3:
		if base.Sign() == 0 {
			return false
		}
		low := new(big.Int).Sub(base, big.NewInt(1))
		if tx.Type <= 1 {
			tx.GasPrice = low
		} else {
			tx.MaxFee = low
			if tx.MaxTip.Cmp(low) > 0 {
				tx.MaxTip = new(big.Int).Set(low)
			}
		}
	case 4:
		if tx.Type < 2 {
			return false
		}
		tx.MaxTip = new(big.Int).Add(tx.MaxFee, big.NewInt(1))
	case 5:
		tx.Gas = g.c.Env.GasLimit + 1
	case 6:
		if g.fork < refevm.Osaka {
			return false
		}
		tx.Gas = 1<<24 + 1
		if tx.Gas > g.c.Env.GasLimit {
			return true
		}
		// the sender must be able to afford it, otherwise the reason differs (still rejected)
	case 7:
		if tx.Type != 3 {
			return false
		}
		switch rng.Intn(4) {
		case 0:
			tx.BlobHashes[rng.Intn(len(tx.BlobHashes))][0] = pick(rng, byte(0), 2, 0xff)
		case 1:
			// (an empty hash list is refused by the tool's JSON decoder already, i.e. it is
			// not expressible at this interface)
			tx.BlobHashes[0][0] = 0
		case 2:
			for len(tx.BlobHashes) < pick(rng, 7, 10) {
				h := randHash(rng)
				h[0] = 1
				tx.BlobHashes = append(tx.BlobHashes, h)
			}
		case 3:
			if tx.MaxFeePerBlobGas.Sign() == 0 {
				return false
			}
			tx.MaxFeePerBlobGas = new(big.Int).Sub(refevm.BlobBaseFee(g.fork, g.excess()), big.NewInt(1))
		}
	case 8:
		if tx.Type != 4 {
			return false
		}
		tx.AuthList = nil
	case 9:
		if tx.To != nil {
			return false
		}
		tx.Data = append(tx.Data, make([]byte, 49153-len(tx.Data)%49153)...)
		if len(tx.Data) <= 49152 {
			tx.Data = make([]byte, 49153)
		}
		tx.Gas = 10_000_000
	case 10:
		// sender with code (not a delegation)
		c := g.conts[rng.Intn(len(g.conts))]
		_ = c
		return false
	case 11:
		intr, _ := refevm.IntrinsicGas(g.fork, tx)
		tx.Gas = intr.Uint64() - 1 - uint64(rng.Intn(100))
	}
	return true
}

func (g *caseGen) excess() uint64 {
	e := g.c.Env
	if e.ExcessBlobGas != nil {
		return *e.ExcessBlobGas
	}
	return refevm.CalcExcessBlobGas(g.fork, *e.ParentExcessBlobGas, *e.ParentBlobGasUsed, e.ParentBaseFee)
}

func preCode(s refevm.State, a refevm.Address) []byte {
	if acc := s[a]; acc != nil {
		return acc.Code
	}
	return nil
}
