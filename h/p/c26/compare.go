package main

import (
	"bytes"
	"fmt"
	"math/big"

	"verif/lib/refevm"
)

// Mismatch is one disagreement between the tool and the model.
type Mismatch struct {
	Field string // stable class name (becomes part of the fingerprint)
	Msg   string
}

func u64eq(field string, ref uint64, got hexNum, out *[]Mismatch) {
	if got.Int == nil || !got.IsUint64() || got.Uint64() != ref {
		*out = append(*out, Mismatch{field, fmt.Sprintf("%s: ref %d geth %v", field, ref, got.Int)})
	}
}

// compare judges the tool output against the model's result. It returns the mismatches
// (empty = agreement).
func compare(c *Case, ref *refevm.BlockResult, refPost refevm.State, run *T8nRun) []Mismatch {
	var mm []Mismatch
	add := func(field, format string, a ...any) { mm = append(mm, Mismatch{field, fmt.Sprintf(format, a...)}) }

	if run.Signal != "" {
		add("tool-crash", "evm t8n died with signal %s: %s", run.Signal, tail(run.Stderr, 800))
		return mm
	}
	if bytes.Contains(run.Stderr, []byte("panic:")) || bytes.Contains(run.Stderr, []byte("goroutine ")) {
		add("tool-crash", "evm t8n panicked (exit %d): %s", run.Exit, tail(run.Stderr, 1500))
		return mm
	}
	if ref.ToolError != "" {
		if run.Exit == 0 {
			cls := "tool-error-expected"
			if ref.ToolError == "invalid deposit log layout" {
				cls = "deposit-log-layout-accepted" // known divergence: go-ethereum checks only the length
			}
			add(cls, "model: %s (block invalid), but evm t8n exited 0", ref.ToolError)
		}
		return mm
	}
	if run.Exit != 0 || run.Out == nil || run.Out.Result == nil {
		add("tool-error-unexpected", "evm t8n failed (exit %d, %v): %s", run.Exit, run.Err, tail(run.Stderr, 800))
		return mm
	}
	g := run.Out.Result

	// rejected set
	{
		var gr []int
		for _, r := range g.Rejected {
			gr = append(gr, r.Index)
		}
		if fmt.Sprint(gr) != fmt.Sprint(ref.Rejected) {
			detail := ""
			for _, r := range g.Rejected {
				detail += fmt.Sprintf(" geth[%d]=%q", r.Index, r.Error)
			}
			for i, idx := range ref.Rejected {
				detail += fmt.Sprintf(" ref[%d]=%q", idx, ref.RejectReasons[i])
			}
			add("rejected", "rejected indices: ref %v geth %v;%s", ref.Rejected, gr, detail)
			return mm // everything downstream differs as a consequence
		}
	}
	// receipts
	if len(g.Receipts) != len(ref.Receipts) {
		add("receipts-count", "receipts: ref %d geth %d", len(ref.Receipts), len(g.Receipts))
	} else {
		for i := range ref.Receipts {
			rr, gr := &ref.Receipts[i], &g.Receipts[i]
			p := fmt.Sprintf("receipt %d (tx %d)", i, rr.TxIndex)
			if gr.Status.Int == nil || gr.Status.Uint64() != rr.Status {
				add("receipt-status", "%s status: ref %d geth %v (ref reason %q)", p, rr.Status, gr.Status.Int, ref.TxResults[rr.TxIndex].Reason)
			}
			if gr.CumGas.Int == nil || gr.CumGas.Uint64() != rr.CumGas {
				add("receipt-cumgas", "%s cumulativeGasUsed: ref %d geth %v", p, rr.CumGas, gr.CumGas.Int)
			}
			if gr.GasUsed.Int == nil || gr.GasUsed.Uint64() != rr.GasUsed {
				add("receipt-gas", "%s gasUsed: ref %d geth %v (ref reason %q)", p, rr.GasUsed, gr.GasUsed.Int, ref.TxResults[rr.TxIndex].Reason)
			}
			// the tool omits "type" for legacy receipts
			if (gr.Type.Int == nil && rr.Type != 0) || (gr.Type.Int != nil && int(gr.Type.Uint64()) != rr.Type) {
				add("receipt-type", "%s type: ref %d geth %v", p, rr.Type, gr.Type.Int)
			}
			if !bytes.Equal(gr.Bloom, rr.Bloom[:]) {
				add("receipt-bloom", "%s bloom differs", p)
			}
			if rr.Contract != nil && !bytes.Equal(gr.Contract, rr.Contract[:]) {
				add("receipt-contract", "%s contractAddress: ref %x geth %x", p, rr.Contract[:], []byte(gr.Contract))
			}
			if len(gr.Logs) != len(rr.Logs) {
				add("receipt-logs", "%s logs: ref %d geth %d", p, len(rr.Logs), len(gr.Logs))
			} else {
				for j := range rr.Logs {
					rl, gl := &rr.Logs[j], &gr.Logs[j]
					same := bytes.Equal(gl.Address, rl.Address[:]) && bytes.Equal(gl.Data, rl.Data) && len(gl.Topics) == len(rl.Topics)
					if same {
						for k := range rl.Topics {
							same = same && bytes.Equal(gl.Topics[k], rl.Topics[k][:])
						}
					}
					if !same {
						add("receipt-logs", "%s log %d differs: ref {%x %x %x} geth {%x %x %x}", p, j, rl.Address[:], rl.Topics, rl.Data, []byte(gl.Address), gl.Topics, []byte(gl.Data))
					}
				}
			}
		}
	}
	u64eq("gasUsed", ref.GasUsed, g.GasUsed, &mm)
	if g.BaseFee.Int == nil || g.BaseFee.Cmp(ref.BaseFee) != 0 {
		add("currentBaseFee", "currentBaseFee: ref %s geth %v", ref.BaseFee, g.BaseFee.Int)
	}
	if (ref.ExcessBlobGas == nil) != (g.ExcessBlobGas.Int == nil) {
		add("currentExcessBlobGas", "currentExcessBlobGas presence: ref %v geth %v", ref.ExcessBlobGas != nil, g.ExcessBlobGas.Int != nil)
	} else if ref.ExcessBlobGas != nil {
		u64eq("currentExcessBlobGas", *ref.ExcessBlobGas, g.ExcessBlobGas, &mm)
		u64eq("blobGasUsed", *ref.BlobGasUsed, g.BlobGasUsed, &mm)
	}
	if !bytes.Equal(g.LogsBloom, ref.LogsBloom[:]) {
		add("logsBloom", "block logsBloom differs")
	}
	if !bytes.Equal(g.LogsHash, ref.LogsHash[:]) {
		add("logsHash", "logsHash: ref %x geth %x", ref.LogsHash[:], []byte(g.LogsHash))
	}
	if !bytes.Equal(g.ReceiptsRoot, ref.ReceiptsRoot[:]) {
		add("receiptsRoot", "receiptsRoot: ref %x geth %x", ref.ReceiptsRoot[:], []byte(g.ReceiptsRoot))
	}
	if !bytes.Equal(g.WithdrawalsRoot, ref.WithdrawalsRoot[:]) {
		add("withdrawalsRoot", "withdrawalsRoot: ref %x geth %x", ref.WithdrawalsRoot[:], []byte(g.WithdrawalsRoot))
	}
	if c.Fork >= refevm.Prague {
		if ref.RequestsHash == nil || !bytes.Equal(g.RequestsHash, ref.RequestsHash[:]) {
			add("requestsHash", "requestsHash: ref %x geth %x", ref.RequestsHash, []byte(g.RequestsHash))
		}
		if len(g.Requests) != len(ref.Requests) {
			add("requests", "requests: ref %x geth %x", ref.Requests, g.Requests)
		} else {
			for i := range ref.Requests {
				if !bytes.Equal(g.Requests[i], ref.Requests[i]) {
					add("requests", "request %d: ref %x geth %x", i, ref.Requests[i], []byte(g.Requests[i]))
				}
			}
		}
	} else if len(g.RequestsHash) != 0 {
		add("requestsHash", "requestsHash present before Prague")
	}
	// post state
	gPost, err := allocToState(run.Out.Alloc)
	if err != nil {
		add("tool-output", "post alloc unreadable: %v", err)
		return mm
	}
	if d := diffStates(refPost, gPost); len(d) > 0 {
		if len(d) > 12 {
			d = append(d[:12], fmt.Sprintf("… %d more", len(d)-12))
		}
		msg := ""
		for _, s := range d {
			msg += "\n   " + s
		}
		add("post-alloc", "post-state alloc differs:%s", msg)
	}
	// state root: against the model, and geth's root against geth's own alloc through refmpt
	if !bytes.Equal(g.StateRoot, ref.StateRoot[:]) {
		add("stateRoot", "stateRoot: ref %x geth %x", ref.StateRoot[:], []byte(g.StateRoot))
	}
	if own := gPost.Root(); !bytes.Equal(g.StateRoot, own[:]) {
		add("stateRoot-vs-own-alloc", "geth stateRoot %x but the reference trie over geth's own post alloc gives %x", []byte(g.StateRoot), own[:])
	}
	return mm
}

func tail(b []byte, n int) string {
	if len(b) > n {
		b = b[len(b)-n:]
	}
	return string(b)
}

var _ = big.NewInt
