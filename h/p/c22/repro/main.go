// Reproducer for the C22 known finding (no oracle code): iterators of the legacy snapshot
// tree that are continued after Tree.Cap flattened layers underneath them deliver a partial
// result and report no error.
//
//	go run -tags verif ./p/c22/repro
//
// Same layer contents as core/state/snapshot.testAccountIteratorFlattening (whose final
// verification is commented out upstream), plus one more layer.
package main

import (
	"fmt"

	"github.com/ethereum/go-ethereum/common"
	"github.com/ethereum/go-ethereum/core/rawdb"
	"github.com/ethereum/go-ethereum/core/state/snapshot"
	"github.com/ethereum/go-ethereum/core/types"
	"github.com/ethereum/go-ethereum/log"
	"github.com/ethereum/go-ethereum/triedb"
)

func accounts(keys ...byte) map[common.Hash][]byte {
	m := map[common.Hash][]byte{}
	for _, k := range keys {
		m[common.Hash{k}] = []byte{0xc4, 0x01, 0x80, 0x80, k} // some non-empty value
	}
	return m
}

func build() (*snapshot.Tree, common.Hash) {
	diskdb := rawdb.NewMemoryDatabase()
	tdb := triedb.NewDatabase(rawdb.NewMemoryDatabase(), triedb.HashDefaults)
	tree, err := snapshot.New(snapshot.Config{CacheSize: 1}, diskdb, tdb, types.EmptyRootHash)
	if err != nil {
		panic(err)
	}
	parent := types.EmptyRootHash
	for i, set := range []map[common.Hash][]byte{
		accounts(0xaa, 0xee, 0xff, 0xf0),
		accounts(0xbb, 0xdd, 0xf0),
		accounts(0xcc, 0xf0, 0xff),
		accounts(0xc1),
	} {
		root := common.Hash{byte(i + 2)}
		if err := tree.Update(root, parent, set, nil); err != nil {
			panic(err)
		}
		parent = root
	}
	return tree, parent // 8 distinct accounts at the head
}

func drain(it snapshot.AccountIterator, n int) int {
	for it.Next() {
		n++
	}
	return n
}

func main() {
	log.SetDefault(log.NewLogger(log.DiscardHandler()))
	for pre := 0; pre <= 3; pre++ {
		tree, head := build()
		it, _ := tree.AccountIterator(head, common.Hash{})
		n := 0
		for i := 0; i < pre && it.Next(); i++ {
			n++
		}
		if err := tree.Cap(head, 2); err != nil {
			panic(err)
		}
		n = drain(it, n)
		fmt.Printf("fast iterator,   %d consumed before Cap(head, 2): delivered %d of 8 accounts, Error() = %v\n", pre, n, it.Error())
		it.Release()
	}
	for pre := 0; pre <= 3; pre++ {
		tree, head := build()
		it, _ := tree.VerifBinaryAccountIterator(head, common.Hash{})
		n := 0
		for i := 0; i < pre && it.Next(); i++ {
			n++
		}
		if err := tree.Cap(head, 2); err != nil {
			panic(err)
		}
		n = drain(it, n)
		fmt.Printf("binary iterator, %d consumed before Cap(head, 2): delivered %d of 8 accounts, Error() = %v\n", pre, n, it.Error())
		it.Release()
	}
	tree, head := build()
	it, _ := tree.AccountIterator(head, common.Hash{})
	fmt.Printf("reference: fast iterator without Cap delivers %d of 8 accounts, Error() = %v\n", drain(it, 0), it.Error())
}
