// C22: flat-state iterators enumerate exactly the live entries.
//
// pathdb.Database (fast iterators, binary iterators through a verif accessor) and
// core/state/snapshot.Tree (fast + binary) are fed layer stacks from verif/lib/statehist;
// every iterator is compared with statehist's ordered view of the state, and the pathdb
// iterators additionally with an iteration of the state/storage tries served by the same
// database.
package main

import (
	"bytes"
	"fmt"
	"math/rand"
	"os"
	"path/filepath"
	"strings"
	"sync/atomic"

	"github.com/ethereum/go-ethereum/common"
	"github.com/ethereum/go-ethereum/core/rawdb"
	"github.com/ethereum/go-ethereum/core/state/snapshot"
	"github.com/ethereum/go-ethereum/log"
	"github.com/ethereum/go-ethereum/trie"
	"github.com/ethereum/go-ethereum/triedb"
	"github.com/ethereum/go-ethereum/triedb/pathdb"

	"verif/lib/statehist"
	"verif/lib/vrt"
)

func main() { vrt.Main("C22", run) }

// iter is the common part of pathdb's and snapshot's account/storage iterators.
type iter interface {
	Next() bool
	Error() error
	Hash() common.Hash
	Release()
}

type acctIter interface {
	iter
	Account() []byte
}

type slotIter interface {
	iter
	Slot() []byte
}

// value returns the current value; what starts with "account" or "storage" (the fast
// iterators implement both accessors).
func value(it iter, what string) []byte {
	if strings.HasPrefix(what, "account") {
		return it.(acctIter).Account()
	}
	return it.(slotIter).Slot()
}

var otherViolations atomic.Int64

type ctx struct {
	r     *vrt.Run
	impl  string // "pathdb" | "snapshot"
	cfg   any
	oplog []string
	bad   bool
	// inStaleCompare is set while an iterator created before a flatten/cap is drained
	inStaleCompare bool
}

// fpSnapMix: an iterator of the legacy snapshot tree that is continued after Tree.Cap
// flattened layers underneath it delivers a mix of states WITHOUT reporting an error
// (fastIterator.next and binaryIterator.next treat a sub-iterator whose Next() failed with
// ErrSnapshotStale as exhausted). Observed on the unchanged tree and reported as a suspected
// genuine defect; such reports do not stop the run.
const fpSnapMix = "snapshot:iterator-continued-after-cap:silent-mix"

func (c *ctx) viol(fp, msg string, extra map[string]any) {
	w := map[string]any{"impl": c.impl, "config": c.cfg, "ops": tail(c.oplog, 40)}
	for k, v := range extra {
		w[k] = v
	}
	if c.impl == "snapshot" && c.inStaleCompare {
		c.r.Count("snapshot_continued_after_cap_silent_mix", 1)
		c.r.Violation(fpSnapMix, msg, w)
		return
	}
	c.bad = true
	otherViolations.Add(1)
	c.r.Violation(fp, msg, w)
}

func tail(l []string, n int) []string {
	if len(l) > n {
		return append([]string{fmt.Sprintf("... %d earlier ops", len(l)-n)}, l[len(l)-n:]...)
	}
	return l
}

// compare drains it and compares with want. mayFail: the iterator was created before a
// flatten happened; then an error is acceptable, but every entry delivered before the error
// must still be the original content in order (never a mix).
func (c *ctx) compare(it iter, want []statehist.KV, what string, skip int, mayFail bool, st *statehist.State) bool {
	defer it.Release()
	c.inStaleCompare = mayFail
	defer func() { c.inStaleCompare = false }()
	i := skip
	for it.Next() {
		h, v := it.Hash(), value(it, what)
		if err := it.Error(); err != nil {
			break
		}
		if v == nil && mayFail {
			// value retrieval failed on a stale layer; Error() reports it on the next step
			if it.Error() != nil {
				break
			}
		}
		if i >= len(want) {
			c.viol(c.impl+":"+what+":extra-entry", fmt.Sprintf("%s at state %d: extra entry %x (value %x) after the %d expected ones", what, st.ID, h, v, len(want)), map[string]any{"root": st.Root.Hex()})
			return false
		}
		if h != want[i].Hash {
			kind := "missing-or-disordered"
			if st != nil && bytes.Compare(h[:], want[i].Hash[:]) < 0 {
				kind = "unexpected-entry"
			}
			c.viol(c.impl+":"+what+":"+kind, fmt.Sprintf("%s at state %d: entry %d is %x, want %x (value %x)", what, st.ID, i, h, want[i].Hash, v), map[string]any{"root": st.Root.Hex()})
			return false
		}
		if !bytes.Equal(v, want[i].Value) {
			if mayFail && v == nil {
				break
			}
			c.viol(c.impl+":"+what+":wrong-value", fmt.Sprintf("%s at state %d: entry %x has value %x, want %x", what, st.ID, h, v, want[i].Value), map[string]any{"root": st.Root.Hex()})
			return false
		}
		i++
	}
	if err := it.Error(); err != nil {
		if mayFail {
			c.r.Count(c.impl+"_stale_iterator_errors", 1)
			return true
		}
		c.viol(c.impl+":"+what+":error", fmt.Sprintf("%s at live state %d failed: %v", what, st.ID, err), map[string]any{"root": st.Root.Hex()})
		return false
	}
	if i != len(want) {
		c.viol(c.impl+":"+what+":missing-entry", fmt.Sprintf("%s at state %d: ended after %d entries, want %d (next expected %x)", what, st.ID, i, len(want), want[i].Hash), map[string]any{"root": st.Root.Hex()})
		return false
	}
	if mayFail {
		c.r.Count(c.impl+"_stale_iterator_original_content", 1)
	}
	return true
}

// seeks returns seek positions of all classes for a sorted key list.
func seeks(rng *rand.Rand, keys []statehist.KV) map[string]common.Hash {
	m := map[string]common.Hash{"zero": {}, "max": common.MaxHash}
	if len(keys) > 0 {
		k := keys[rng.Intn(len(keys))].Hash
		m["exact"] = k
		m["between"] = inc(k)
		m["after-last"] = inc(keys[len(keys)-1].Hash)
		first := keys[0].Hash
		if first != (common.Hash{}) {
			m["before-first"] = dec(first)
		}
	} else {
		var k common.Hash
		rng.Read(k[:])
		m["random"] = k
	}
	return m
}

func inc(h common.Hash) common.Hash {
	for i := 31; i >= 0; i-- {
		h[i]++
		if h[i] != 0 {
			break
		}
	}
	return h
}

func dec(h common.Hash) common.Hash {
	for i := 31; i >= 0; i-- {
		h[i]--
		if h[i] != 0xff {
			break
		}
	}
	return h
}

// storageTargets picks accounts whose storage iterators are checked at st: accounts with
// storage, plus accounts that have storage in some other state but none here (destructed /
// wiped / never created), plus an account unknown to the history.
func storageTargets(h *statehist.History, st *statehist.State, rng *rand.Rand, n int) []common.Hash {
	var with, without []common.Hash
	seen := map[common.Hash]bool{}
	for _, k := range h.TouchedSlots() {
		if seen[k.Addr] {
			continue
		}
		seen[k.Addr] = true
		if len(st.Storages[k.Addr]) > 0 {
			with = append(with, k.Addr)
		} else {
			without = append(without, k.Addr)
		}
	}
	rng.Shuffle(len(with), func(i, j int) { with[i], with[j] = with[j], with[i] })
	rng.Shuffle(len(without), func(i, j int) { without[i], without[j] = without[j], without[i] })
	out := append([]common.Hash{}, with[:min(n, len(with))]...)
	out = append(out, without[:min(2, len(without))]...)
	return out
}

// ---- pathdb -------------------------------------------------------------------------------

type pconfig struct {
	Max       int  `json:"maxDiffLayers"`
	Buffer    int  `json:"writeBuffer"`
	Async     bool `json:"asyncFlush"`
	Clean     int  `json:"cleanCache"`
	Accounts  int  `json:"accounts"`
	Slots     int  `json:"slots"`
	Prefix    int  `json:"prefix"`
	CommitPfx bool `json:"commitPrefix"`
	Stack     int  `json:"stack"`
	BigValues bool `json:"bigValues"`
}

type pdut struct {
	*ctx
	db      *pathdb.Database
	h       *statehist.History
	chain   []*statehist.State
	edges   []*statehist.Edge // edges[i] leads to chain[i] (edges[0] = nil)
	diskIdx int
	max     int
}

func (d *pdut) extend(rng *rand.Rand, rawKeys bool) bool {
	parent := d.chain[len(d.chain)-1]
	e := d.h.DeriveFresh(parent, rng)
	id := len(d.chain)
	if err := d.db.Update(e.Child.Root, e.Parent.Root, uint64(id), e.NodeSet(), e.StateSet(rawKeys)); err != nil {
		d.viol("pathdb:update-failed", fmt.Sprintf("Update %d failed: %v", id, err), nil)
		return false
	}
	d.chain = append(d.chain, e.Child)
	d.edges = append(d.edges, e)
	if id-d.diskIdx > d.max {
		d.diskIdx = id - d.max
		d.r.Count("pathdb_flatten_events", 1)
	}
	d.oplog = append(d.oplog, fmt.Sprintf("update %d (%v)", id, e.Ops))
	return true
}

func (d *pdut) baseKind() string {
	_, ls := d.db.VerifLayerTreeShape()
	for _, l := range ls {
		if l.Disk {
			switch {
			case l.Frozen && l.BufferLayers > 0:
				return "buffer+frozen"
			case l.Frozen:
				return "frozen"
			case l.BufferLayers > 0:
				return "buffer"
			}
		}
	}
	return "disk-only"
}

// overlap describes the tombstone/overwrite pattern of the diff stack below state index i.
func (d *pdut) overlap(i int) string {
	tomb, over := false, false
	seen := map[common.Hash]bool{}
	for j := i; j > d.diskIdx; j-- {
		for k, v := range d.edges[j].Accounts {
			if v == nil {
				tomb = true
			}
			if seen[k] {
				over = true
			}
			seen[k] = true
		}
		for _, m := range d.edges[j].Storages {
			for _, v := range m {
				if v == nil {
					tomb = true
				}
			}
		}
	}
	return fmt.Sprintf("tomb%v/over%v", tomb, over)
}

// checkRoot runs all iterator kinds with all seek classes at chain[i].
func (d *pdut) checkRoot(i int, rng *rand.Rand) bool {
	st := d.chain[i]
	all := st.AccountsFrom(common.Hash{})
	for class, seek := range seeks(rng, all) {
		want := st.AccountsFrom(seek)
		it, err := d.db.AccountIterator(st.Root, seek)
		if err != nil {
			d.viol("pathdb:account-fast:open", fmt.Sprintf("AccountIterator(state %d) failed: %v", st.ID, err), nil)
			return false
		}
		if !d.compare(it, want, "account-fast", 0, false, st) {
			return false
		}
		bit, err := d.db.VerifBinaryAccountIterator(st.Root, seek)
		if err != nil {
			d.viol("pathdb:account-binary:open", fmt.Sprintf("binary account iterator (state %d) failed: %v", st.ID, err), nil)
			return false
		}
		if !d.compare(bit, want, "account-binary", 0, false, st) {
			return false
		}
		d.r.Count("pathdb_account_iterations_seek_"+class, 2)
		d.r.Count("pathdb_entries_compared", 2*len(want))
	}
	for _, acct := range storageTargets(d.h, st, rng, 3) {
		slots := st.StorageFrom(acct, common.Hash{})
		if len(slots) == 0 {
			d.r.Count("pathdb_storage_iterations_empty_account", 1)
		}
		for class, seek := range seeks(rng, slots) {
			want := st.StorageFrom(acct, seek)
			it, err := d.db.StorageIterator(st.Root, acct, seek)
			if err != nil {
				d.viol("pathdb:storage-fast:open", fmt.Sprintf("StorageIterator(state %d) failed: %v", st.ID, err), nil)
				return false
			}
			if !d.compare(it, want, "storage-fast", 0, false, st) {
				return false
			}
			bit, err := d.db.VerifBinaryStorageIterator(st.Root, acct, seek)
			if err != nil {
				d.viol("pathdb:storage-binary:open", fmt.Sprintf("binary storage iterator (state %d) failed: %v", st.ID, err), nil)
				return false
			}
			if !d.compare(bit, want, "storage-binary", 0, false, st) {
				return false
			}
			d.r.Count("pathdb_storage_iterations_seek_"+class, 2)
			d.r.Count("pathdb_entries_compared", 2*len(want))
		}
	}
	return true
}

// trieAgreement iterates the account trie (and one storage trie) at chain[i] through the
// same database and compares with the flat fast iterator's output (and statehist).
func (d *pdut) trieAgreement(i int, rng *rand.Rand) bool {
	st := d.chain[i]
	tr, err := trie.New(trie.StateTrieID(st.Root), d.db)
	if err != nil {
		d.viol("pathdb:trie-open", fmt.Sprintf("cannot open state trie of state %d: %v", st.ID, err), nil)
		return false
	}
	var seek common.Hash
	if rng.Intn(2) == 0 {
		rng.Read(seek[:1])
	}
	nit, err := tr.NodeIterator(seek[:])
	if err != nil {
		d.viol("pathdb:trie-open", fmt.Sprintf("node iterator: %v", err), nil)
		return false
	}
	flat, err := d.db.AccountIterator(st.Root, seek)
	if err != nil {
		d.viol("pathdb:account-fast:open", fmt.Sprintf("AccountIterator(state %d) failed: %v", st.ID, err), nil)
		return false
	}
	defer flat.Release()
	tit := trie.NewIterator(nit)
	n := 0
	for tit.Next() {
		if !flat.Next() {
			d.viol("pathdb:trie-disagreement", fmt.Sprintf("state %d: trie iteration yields account %x, flat iterator ended (err %v)", st.ID, tit.Key, flat.Error()), map[string]any{"root": st.Root.Hex()})
			return false
		}
		full, err := statehist.SlimToFull(flat.Account())
		if err != nil || flat.Hash() != common.BytesToHash(tit.Key) || !bytes.Equal(full, tit.Value) {
			d.viol("pathdb:trie-disagreement", fmt.Sprintf("state %d: trie iteration yields %x=%x, flat iterator %x=%x", st.ID, tit.Key, tit.Value, flat.Hash(), flat.Account()), map[string]any{"root": st.Root.Hex()})
			return false
		}
		n++
	}
	if tit.Err != nil {
		d.viol("pathdb:trie-iteration-error", fmt.Sprintf("state %d: %v", st.ID, tit.Err), nil)
		return false
	}
	if flat.Next() {
		d.viol("pathdb:trie-disagreement", fmt.Sprintf("state %d: flat iterator yields %x beyond the end of the trie iteration", st.ID, flat.Hash()), map[string]any{"root": st.Root.Hex()})
		return false
	}
	if n != len(st.AccountsFrom(seek)) {
		d.viol("pathdb:trie-disagreement", fmt.Sprintf("state %d: trie and flat iteration agree on %d accounts, model has %d", st.ID, n, len(st.AccountsFrom(seek))), nil)
		return false
	}
	d.r.Count("pathdb_trie_agreement_accounts", n)
	// one storage trie
	for acct := range st.Storages {
		str, err := trie.New(trie.StorageTrieID(st.Root, acct, st.StorageRoot(acct)), d.db)
		if err != nil {
			d.viol("pathdb:trie-open", fmt.Sprintf("cannot open storage trie %x of state %d: %v", acct, st.ID, err), nil)
			return false
		}
		snit, err := str.NodeIterator(nil)
		if err != nil {
			d.viol("pathdb:trie-open", fmt.Sprintf("node iterator: %v", err), nil)
			return false
		}
		sflat, err := d.db.StorageIterator(st.Root, acct, common.Hash{})
		if err != nil {
			d.viol("pathdb:storage-fast:open", fmt.Sprintf("StorageIterator failed: %v", err), nil)
			return false
		}
		stit := trie.NewIterator(snit)
		m := 0
		for stit.Next() {
			if !sflat.Next() || sflat.Hash() != common.BytesToHash(stit.Key) || !bytes.Equal(sflat.Slot(), stit.Value) {
				d.viol("pathdb:trie-disagreement", fmt.Sprintf("state %d account %x: storage trie yields %x=%x, flat iterator %x=%x", st.ID, acct, stit.Key, stit.Value, sflat.Hash(), sflat.Slot()), map[string]any{"root": st.Root.Hex()})
				sflat.Release()
				return false
			}
			m++
		}
		if sflat.Next() || m != len(st.Storages[acct]) {
			d.viol("pathdb:trie-disagreement", fmt.Sprintf("state %d account %x: storage trie has %d slots, flat iterator continues / model has %d", st.ID, acct, m, len(st.Storages[acct])), nil)
			sflat.Release()
			return false
		}
		sflat.Release()
		d.r.Count("pathdb_trie_agreement_slots", m)
		break
	}
	return true
}

type held struct {
	it   iter
	want []statehist.KV
	what string
	used int
	st   *statehist.State
	flat int // flatten events when created
}

func pathdbCase(r *vrt.Run, idx, max int) {
	rng := r.Rand("pathdb", idx)
	cfg := pconfig{Max: max}
	cfg.Buffer = []int{0, 512, 2048, 8192, 65536}[rng.Intn(5)]
	cfg.Async = rng.Intn(2) == 0
	cfg.Clean = []int{0, 32 * 1024}[rng.Intn(2)]
	cfg.Accounts = 3 + rng.Intn(24)
	cfg.Slots = 2 + rng.Intn(10)
	cfg.BigValues = rng.Intn(3) == 0
	cfg.Prefix = rng.Intn(12)
	cfg.CommitPfx = rng.Intn(2) == 0
	if max >= 64 {
		cfg.Stack = 1 + rng.Intn(60)
	} else {
		cfg.Stack = max + rng.Intn(3*max+6) // forces flattening into the write buffer
	}
	if r.Race() && cfg.Stack > 20 {
		cfg.Stack = 20
	}
	r.Case("pathdb stack %d cfg=%+v", idx, cfg)
	dir := filepath.Join(r.Scratch, fmt.Sprintf("p-%d", idx))
	os.RemoveAll(dir)
	disk, err := rawdb.Open(rawdb.NewMemoryDatabase(), rawdb.OpenOptions{Ancient: dir})
	if err != nil {
		r.Inconclusive("cannot open database: %v", err)
		return
	}
	db := pathdb.New(disk, &pathdb.Config{WriteBufferSize: cfg.Buffer, NoAsyncFlush: !cfg.Async, NoAsyncGeneration: true,
		TrieCleanSize: cfg.Clean, StateCleanSize: cfg.Clean, StateHistory: 8}, false)
	defer func() { db.Close(); disk.Close(); os.RemoveAll(dir) }()
	d := &pdut{ctx: &ctx{r: r, impl: "pathdb", cfg: cfg}, db: db, max: max}
	d.h = statehist.New(statehist.Config{Accounts: cfg.Accounts, Slots: cfg.Slots, BigValues: cfg.BigValues, MaxOps: 2 + rng.Intn(5)}, rng)
	d.chain = []*statehist.State{d.h.Genesis()}
	d.edges = []*statehist.Edge{nil}

	for i := 0; i < cfg.Prefix; i++ {
		if !d.extend(rng, true) {
			return
		}
	}
	if cfg.CommitPfx && len(d.chain)-1 > d.diskIdx {
		if err := db.Commit(d.chain[len(d.chain)-1].Root, false); err != nil {
			d.viol("pathdb:commit-failed", err.Error(), nil)
			return
		}
		d.diskIdx = len(d.chain) - 1
		d.oplog = append(d.oplog, fmt.Sprintf("commit %d", d.diskIdx))
	}
	bases, overlaps := map[string]bool{}, map[string]bool{}
	var holds []held
	flattens := func() int { return int(r.Counter("pathdb_flatten_events")) } // only compared for equality per case below
	_ = flattens
	caseFlat := 0
	for s := 0; s < cfg.Stack; s++ {
		before := d.diskIdx
		if !d.extend(rng, true) {
			return
		}
		if d.diskIdx != before {
			caseFlat++
		}
		// iterators held across the insertion of new layers (and possibly a flatten)
		for _, hd := range holds {
			mayFail := hd.flat != caseFlat
			if !d.compare(hd.it, hd.want, hd.what+":held", hd.used, mayFail, hd.st) {
				return
			}
			if mayFail {
				r.Count("pathdb_held_across_flatten", 1)
			} else {
				r.Count("pathdb_held_across_update", 1)
			}
		}
		holds = nil
		if s%3 != 0 && s != cfg.Stack-1 {
			continue
		}
		bk := d.baseKind()
		bases[bk] = true
		r.Count("pathdb_base_"+bk, 1)
		// check the head, the disk layer and a few layers in between
		targets := []int{len(d.chain) - 1, d.diskIdx}
		for k := 0; k < 2; k++ {
			targets = append(targets, d.diskIdx+rng.Intn(len(d.chain)-d.diskIdx))
		}
		for _, i := range targets {
			if !d.checkRoot(i, rng) {
				return
			}
			overlaps[d.overlap(i)] = true
			r.Count("pathdb_roots_checked", 1)
		}
		if !d.trieAgreement(targets[rng.Intn(len(targets))], rng) {
			return
		}
		// open iterators to be continued after the next insertion
		if s != cfg.Stack-1 {
			i := d.diskIdx + rng.Intn(len(d.chain)-d.diskIdx)
			st := d.chain[i]
			var seek common.Hash
			want := st.AccountsFrom(seek)
			used := 0
			mk := func(it iter, what string) {
				n := 0
				if len(want) > 0 {
					n = rng.Intn(len(want) + 1)
				}
				for k := 0; k < n; k++ {
					if !it.Next() || it.Hash() != want[k].Hash || !bytes.Equal(value(it, what), want[k].Value) {
						d.viol("pathdb:"+what+":prefix", fmt.Sprintf("%s at state %d: entry %d wrong before any change", what, st.ID, k), nil)
						return
					}
				}
				used = n
				holds = append(holds, held{it, want, what, used, st, caseFlat})
			}
			if it, err := db.AccountIterator(st.Root, seek); err == nil {
				mk(it, "account-fast")
			}
			if it, err := db.VerifBinaryAccountIterator(st.Root, seek); err == nil {
				mk(it, "account-binary")
			}
			if d.bad {
				return
			}
		}
	}
	for _, hd := range holds {
		hd.it.Release()
	}
	bs, os := "", ""
	for _, k := range []string{"disk-only", "buffer", "frozen", "buffer+frozen"} {
		if bases[k] {
			bs += k + ","
		}
	}
	for _, k := range []string{"tombfalse/overfalse", "tombtrue/overfalse", "tombfalse/overtrue", "tombtrue/overtrue"} {
		if overlaps[k] {
			os += k + ","
		}
	}
	r.Eval(fmt.Sprintf("pathdb/max%d/stack%d/base:%s/overlap:%s/flat%d/async%v", max, cls(cfg.Stack), bs, os, cls(caseFlat), cfg.Async))
	r.Count("pathdb_cases", 1)
	if r.WantSample() {
		r.Sample(map[string]any{"impl": "pathdb", "config": cfg, "ops_tail": tail(d.oplog, 8)})
	}
}

func cls(n int) int {
	switch {
	case n <= 1:
		return n
	case n <= 4:
		return 2
	case n <= 16:
		return 3
	case n <= 40:
		return 4
	}
	return 5
}

// ---- snapshot.Tree ------------------------------------------------------------------------

type sconfig struct {
	Accounts  int  `json:"accounts"`
	Slots     int  `json:"slots"`
	Stack     int  `json:"stack"`
	CapEvery  int  `json:"capEvery"`
	BigValues bool `json:"bigValues"`
}

type sdut struct {
	*ctx
	tree  *snapshot.Tree
	h     *statehist.History
	chain []*statehist.State
	caps  int
}

func (d *sdut) live() (disk common.Hash, idx []int) {
	disk, roots := d.tree.VerifLayerRoots()
	set := map[common.Hash]bool{}
	for _, r := range roots {
		set[r] = true
	}
	for i, st := range d.chain {
		if set[st.Root] {
			idx = append(idx, i)
		}
	}
	return
}

func (d *sdut) checkRoot(st *statehist.State, isDisk bool, rng *rand.Rand) bool {
	all := st.AccountsFrom(common.Hash{})
	for class, seek := range seeks(rng, all) {
		want := st.AccountsFrom(seek)
		it, err := d.tree.AccountIterator(st.Root, seek)
		if err != nil {
			d.viol("snapshot:account-fast:open", fmt.Sprintf("AccountIterator(state %d) failed: %v", st.ID, err), nil)
			return false
		}
		if !d.compare(it, want, "account-fast", 0, false, st) {
			return false
		}
		n := 1
		if !isDisk {
			bit, err := d.tree.VerifBinaryAccountIterator(st.Root, seek)
			if err != nil {
				d.viol("snapshot:account-binary:open", err.Error(), nil)
				return false
			}
			if !d.compare(bit, want, "account-binary", 0, false, st) {
				return false
			}
			n = 2
		}
		d.r.Count("snapshot_account_iterations_seek_"+class, n)
		d.r.Count("snapshot_entries_compared", n*len(want))
	}
	for _, acct := range storageTargets(d.h, st, rng, 3) {
		slots := st.StorageFrom(acct, common.Hash{})
		if len(slots) == 0 {
			d.r.Count("snapshot_storage_iterations_empty_account", 1)
		}
		for class, seek := range seeks(rng, slots) {
			want := st.StorageFrom(acct, seek)
			it, err := d.tree.StorageIterator(st.Root, acct, seek)
			if err != nil {
				d.viol("snapshot:storage-fast:open", fmt.Sprintf("StorageIterator(state %d) failed: %v", st.ID, err), nil)
				return false
			}
			if !d.compare(it, want, "storage-fast", 0, false, st) {
				return false
			}
			n := 1
			if !isDisk {
				bit, err := d.tree.VerifBinaryStorageIterator(st.Root, acct, seek)
				if err != nil {
					d.viol("snapshot:storage-binary:open", err.Error(), nil)
					return false
				}
				if !d.compare(bit, want, "storage-binary", 0, false, st) {
					return false
				}
				n = 2
			}
			d.r.Count("snapshot_storage_iterations_seek_"+class, n)
			d.r.Count("snapshot_entries_compared", n*len(want))
		}
	}
	return true
}

func snapshotCase(r *vrt.Run, idx int) {
	rng := r.Rand("snapshot", idx)
	cfg := sconfig{Accounts: 3 + rng.Intn(24), Slots: 2 + rng.Intn(10), Stack: 1 + rng.Intn(60), CapEvery: []int{0, 0, 5, 12, 30}[rng.Intn(5)], BigValues: rng.Intn(3) == 0}
	if r.Race() && cfg.Stack > 20 {
		cfg.Stack = 20
	}
	r.Case("snapshot stack %d cfg=%+v", idx, cfg)
	diskdb := rawdb.NewMemoryDatabase()
	tdb := triedb.NewDatabase(rawdb.NewMemoryDatabase(), triedb.HashDefaults)
	tree, err := snapshot.New(snapshot.Config{CacheSize: 1}, diskdb, tdb, statehist.EmptyRoot)
	if err != nil {
		r.Inconclusive("cannot create snapshot tree: %v", err)
		return
	}
	defer func() { tree.Release(); tdb.Close(); diskdb.Close() }()
	d := &sdut{ctx: &ctx{r: r, impl: "snapshot", cfg: cfg}, tree: tree}
	d.h = statehist.New(statehist.Config{Accounts: cfg.Accounts, Slots: cfg.Slots, BigValues: cfg.BigValues, MaxOps: 2 + rng.Intn(5)}, rng)
	d.chain = []*statehist.State{d.h.Genesis()}
	var holds []held
	diskOnly, tomb := false, false
	for s := 0; s < cfg.Stack; s++ {
		e := d.h.DeriveFresh(d.chain[len(d.chain)-1], rng)
		if err := tree.Update(e.Child.Root, e.Parent.Root, e.AccountsCopy(), e.StoragesCopy()); err != nil {
			d.viol("snapshot:update-failed", err.Error(), nil)
			return
		}
		d.chain = append(d.chain, e.Child)
		d.oplog = append(d.oplog, fmt.Sprintf("update %d (%v)", len(d.chain)-1, e.Ops))
		for _, v := range e.Accounts {
			if v == nil {
				tomb = true
			}
		}
		capped := false
		if cfg.CapEvery > 0 && s%cfg.CapEvery == cfg.CapEvery-1 {
			keep := []int{0, 1, 2, 8}[rng.Intn(4)]
			if err := tree.Cap(e.Child.Root, keep); err != nil {
				d.viol("snapshot:cap-failed", err.Error(), nil)
				return
			}
			d.caps++
			capped = true
			d.oplog = append(d.oplog, fmt.Sprintf("cap head keep %d", keep))
			r.Count("snapshot_cap_events", 1)
		}
		for _, hd := range holds {
			if !d.compare(hd.it, hd.want, hd.what+":held", hd.used, capped, hd.st) && d.bad {
				return
			}
			if capped {
				r.Count("snapshot_held_across_cap", 1)
			} else {
				r.Count("snapshot_held_across_update", 1)
			}
		}
		holds = nil
		if s%3 != 0 && s != cfg.Stack-1 && !capped {
			continue
		}
		disk, live := d.live()
		if len(live) == 1 {
			diskOnly = true
			r.Count("snapshot_disk_only_states", 1)
		}
		rng.Shuffle(len(live), func(i, j int) { live[i], live[j] = live[j], live[i] })
		// head + disk + up to 2 others
		checked := 0
		for _, i := range live {
			st := d.chain[i]
			if i != len(d.chain)-1 && st.Root != disk && checked >= 2 {
				continue
			}
			if !d.checkRoot(st, st.Root == disk, rng) {
				return
			}
			checked++
			r.Count("snapshot_roots_checked", 1)
		}
		if s != cfg.Stack-1 && len(live) > 0 {
			st := d.chain[live[rng.Intn(len(live))]]
			want := st.AccountsFrom(common.Hash{})
			mk := func(it iter, what string) {
				n := 0
				if len(want) > 0 {
					n = rng.Intn(len(want) + 1)
				}
				for k := 0; k < n; k++ {
					if !it.Next() || it.Hash() != want[k].Hash || !bytes.Equal(value(it, what), want[k].Value) {
						d.viol("snapshot:"+what+":prefix", fmt.Sprintf("%s at state %d: entry %d wrong before any change", what, st.ID, k), nil)
						return
					}
				}
				holds = append(holds, held{it, want, what, n, st, 0})
			}
			if it, err := tree.AccountIterator(st.Root, common.Hash{}); err == nil {
				mk(it, "account-fast")
			}
			if st.Root != disk {
				if it, err := tree.VerifBinaryAccountIterator(st.Root, common.Hash{}); err == nil {
					mk(it, "account-binary")
				}
			}
			if d.bad {
				return
			}
		}
	}
	for _, hd := range holds {
		hd.it.Release()
	}
	r.Eval(fmt.Sprintf("snapshot/stack%d/caps%d/diskonly%v/tomb%v/slots%d", cls(cfg.Stack), cls(d.caps), diskOnly, tomb, cls(cfg.Slots)))
	r.Count("snapshot_cases", 1)
	if r.WantSample() && idx%7 == 0 {
		r.Sample(map[string]any{"impl": "snapshot", "config": cfg, "ops_tail": tail(d.oplog, 8)})
	}
}

func run(r *vrt.Run) {
	log.SetDefault(log.NewLogger(log.DiscardHandler()))
	r.Rule("pathdb: statehist layer stacks (prefix chain, optionally committed to disk; 1..60 diff layers for maxDiffLayers=128, or stacks growing past maxDiffLayers 2/4/8 so that layers are flattened into the live/frozen write buffer); at the head, the disk layer and random layers in between: fast and binary account iterators and storage iterators (accounts with storage, destructed/wiped/absent accounts) with seek classes zero/exact/between/before-first/after-last/max; agreement of flat iteration with an iteration of the state and storage tries; iterators held across Update (must be unaffected) and across a flatten (error or original content). snapshot.Tree: same with diff layers from Tree.Update (flat diffs of the same statehist edges) and Cap(head, 0/1/2/8). signature = (impl, maxDiffLayers, stack depth class, base kinds seen, tombstone/overwrite overlap patterns, flatten class) resp. (stack, caps, disk-only, tombstones)")
	groups := []int{128, 2, 4, 8}
	per := r.N(25, 3000)
	if r.Race() {
		per = r.N(6, 200)
	}
	idx := 0
	for _, m := range groups {
		pathdb.VerifSetMaxDiffLayers(m)
		base := idx
		vrt.Par(per, 0, func(i int) { pathdbCase(r, base+i, m) })
		idx += per
		if otherViolations.Load() > 0 {
			break
		}
	}
	pathdb.VerifSetMaxDiffLayers(128)
	if otherViolations.Load() == 0 {
		n := r.N(100, 12000)
		if r.Race() {
			n = r.N(24, 800)
		}
		vrt.Par(n, 0, func(i int) { snapshotCase(r, i) })
	}
	r.Require("pathdb_cases", 20)
	r.Require("snapshot_cases", 20)
	r.Require("pathdb_base_disk-only", 10)
	r.Require("pathdb_base_buffer", 10)
	r.Require("pathdb_held_across_flatten", 10)
	r.Require("pathdb_held_across_update", 10)
	r.Require("snapshot_held_across_cap", 10)
	r.Require("snapshot_disk_only_states", 5)
	r.Require("pathdb_storage_iterations_empty_account", 10)
	r.Require("pathdb_trie_agreement_accounts", 100)
	r.Assume("statehist (reference MPT + own account RLP) gives the ordered live entries of every state; diff layers of both implementations are created only through Update with statehist's flat diffs")
	r.Assume("an iterator created before a flatten/cap may fail with an error or deliver the original content; a mix is a violation (design section 7)")
}
