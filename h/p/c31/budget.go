// C31, budget level: black-box monitor of the exported vm.GasBudget API.
//
// The harness drives a stack of frames (parent Forward -> child ops -> child exit -> parent
// Absorb) through the real API and, in lock-step, through a naive model written from the
// EIP-8037 comments in core/vm/gascosts.go. After every operation it checks
//
//   - field-by-field equality with the model,
//   - the two per-frame conservation identities
//     exec dimension : ExecutionGas + Spilled + UsedExecutionGas == execution gas at frame entry
//     state dimension: StateGas + UsedStateGas - Spilled       == reservoir at frame entry
//     (their sum is the frame invariant Exec+State+UsedExec+UsedState == initial Exec+State),
//   - no field ever exceeds the root's initial total (an unsigned underflow would),
//   - CanAfford(c) == Charge(c) succeeds; a failed charge leaves the budget untouched;
//     Charge returns the prior budget,
//   - ExitRevert / ExitHalt hand back exactly the reservoir the frame was entered with,
//     UsedStateGas == 0, Spilled == 0, (halt) ExecutionGas == 0, (revert) ExecutionGas gets the
//     borrowed gas back,
//   - tree conservation: after Absorb the parent's Exec+State+UsedExec+UsedState equals its
//     value before Forward.
//
// Domain (the documented contract of the callers): Forward(x) only with x <= ExecutionGas;
// RefundState(s) only with s <= net state gas charged in the currently live frame tree (sum of
// UsedStateGas over the live stack: refunds exist only for state created, and still alive,
// in this transaction); root budget with ExecutionGas+StateGas <= 2^63-1 (params.MaxGasLimit;
// the struct uses int64 casts). Costs are arbitrary uint64.
package main

import (
	"errors"
	"fmt"
	"math"
	"math/rand"
	"sync"

	"github.com/ethereum/go-ethereum/core/vm"

	"verif/lib/vrt"
)

// ---------------------------------------------------------------------------------------
// naive model (from the comments of gascosts.go / EIP-8037 text)
// ---------------------------------------------------------------------------------------

// mframe is the model of one frame. All quantities are bounded by the root total
// (<= 2^63-1), so int64 arithmetic is exact.
type mframe struct {
	gasLeft    int64 // execution gas still available to the frame
	reservoir  int64 // state-gas reservoir currently held by the frame
	borrowed   int64 // execution gas lent to state charges (own + absorbed successful children)
	spentExec  int64 // execution gas consumed (forwarded gas counts until it is handed back)
	spentState int64 // net state gas charged (own + absorbed successful children)

	entryGas int64 // gasLeft at frame entry
	entryRes int64 // reservoir at frame entry
}

func (m *mframe) canAfford(e, s uint64) bool {
	if e > math.MaxInt64 || s > math.MaxInt64 {
		return false // more than any budget in the domain
	}
	if int64(e) > m.gasLeft {
		return false
	}
	// the state part may take the whole reservoir and then whatever execution gas remains
	// after the execution part was paid
	rest := m.gasLeft - int64(e)
	need := int64(s)
	if need <= m.reservoir {
		return true
	}
	return need-m.reservoir <= rest
}

func (m *mframe) charge(e, s uint64) bool {
	if !m.canAfford(e, s) {
		return false
	}
	fromRes := min(int64(s), m.reservoir)
	fromGas := int64(s) - fromRes
	m.reservoir -= fromRes
	m.gasLeft -= int64(e) + fromGas
	m.borrowed += fromGas
	m.spentExec += int64(e)
	m.spentState += int64(s)
	return true
}

// refund gives state gas back, last-borrowed-first: the execution gas that was borrowed is
// repaid before the reservoir is refilled.
func (m *mframe) refund(s uint64) {
	back := min(int64(s), m.borrowed)
	m.gasLeft += back
	m.borrowed -= back
	m.reservoir += int64(s) - back
	m.spentState -= int64(s)
}

func (m *mframe) drain() {
	m.spentExec += m.gasLeft
	m.gasLeft = 0
}

func (m *mframe) forward(x uint64) mframe {
	c := mframe{gasLeft: int64(x), reservoir: m.reservoir, entryGas: int64(x), entryRes: m.reservoir}
	m.gasLeft -= int64(x)
	m.spentExec += int64(x)
	m.reservoir = 0
	return c
}

const (
	exitOK = iota
	exitRevert
	exitHalt
)

// leftover is what a finished child hands to its parent in the model.
type leftover struct {
	gas, reservoir, borrowed, spentState int64
}

func (m *mframe) exit(kind int) leftover {
	switch kind {
	case exitOK:
		return leftover{m.gasLeft, m.reservoir, m.borrowed, m.spentState}
	case exitRevert:
		// all state gas charged by the frame is refilled: borrowed execution gas goes back
		// to gas left, the reservoir is what the frame started with
		return leftover{m.gasLeft + m.borrowed, m.entryRes, 0, 0}
	default:
		// same, but all execution gas is burnt
		return leftover{0, m.entryRes, 0, 0}
	}
}

func (m *mframe) absorb(l leftover) {
	m.gasLeft += l.gas
	m.spentExec -= l.gas      // unused forwarded gas is not spent
	m.spentExec -= l.borrowed // gas the child lent to state charges is state usage, not execution usage
	m.borrowed += l.borrowed
	m.reservoir = l.reservoir
	m.spentState += l.spentState
}

// ---------------------------------------------------------------------------------------
// lock-step driver
// ---------------------------------------------------------------------------------------

const maxDepth = 8

type frame struct {
	g vm.GasBudget
	m mframe
	// monitor bookkeeping (not part of the model)
	entryE, entryS uint64 // budget at frame entry
	sumBeforeFwd   uint64 // parent's Exec+State+UsedExec+UsedState before its outstanding Forward
	fwdRes         uint64 // reservoir handed to the outstanding child
}

type machine struct {
	st    [maxDepth]frame
	depth int    // index of the live (top) frame
	total uint64 // root Exec+State at start
	// shape flags for evidence
	flags uint32
}

const (
	fChargeOK uint32 = 1 << iota
	fChargeFail
	fExecOnlyOK
	fExecOnlyFail
	fSpill
	fRefund
	fRefundRepaid   // refund repaid borrowed execution gas
	fRefundNegative // refund drove a frame's UsedStateGas negative
	fForward
	fExitOK
	fExitRevert
	fExitHalt
	fExitWithSpill // exit of a frame that had Spilled > 0
	fDrain
	fDepth2 // reached nesting depth >= 2
	fDepth4
)

type op struct {
	Kind string `json:"k"` // ce ch rf fw ex dr
	A    uint64 `json:"a"`
	B    uint64 `json:"b,omitempty"`
}

type reporter interface {
	fail(fp, msg string)
}

func newMachine(e, s uint64) *machine {
	mc := &machine{total: e + s}
	mc.st[0] = frame{g: vm.NewGasBudget(e, s), m: mframe{gasLeft: int64(e), reservoir: int64(s), entryGas: int64(e), entryRes: int64(s)}, entryE: e, entryS: s}
	return mc
}

func sum4(g vm.GasBudget) uint64 {
	return g.ExecutionGas + g.StateGas + g.UsedExecutionGas + uint64(g.UsedStateGas)
}

// netState is the net state gas charged in the live frame tree (bound for RefundState).
func (mc *machine) netState() int64 {
	var n int64
	for i := 0; i <= mc.depth; i++ {
		n += mc.st[i].m.spentState
	}
	return n
}

// checkFrame verifies model equality and the invariants of frame f.
// outstanding: the frame has a child in flight (its reservoir was handed over).
func (mc *machine) checkFrame(rp reporter, f *frame, what string) {
	g, m := f.g, f.m
	if g.ExecutionGas != uint64(m.gasLeft) || g.StateGas != uint64(m.reservoir) || g.Spilled != uint64(m.borrowed) ||
		g.UsedExecutionGas != uint64(m.spentExec) || g.UsedStateGas != m.spentState {
		rp.fail("budget:model-mismatch:"+what, fmt.Sprintf("after %s: impl %v model {gas %d res %d borrowed %d spentExec %d spentState %d}", what, g, m.gasLeft, m.reservoir, m.borrowed, m.spentExec, m.spentState))
	}
	// no underflow: every field is bounded by the root total
	if g.ExecutionGas > mc.total || g.StateGas > mc.total || g.UsedExecutionGas > mc.total || g.Spilled > mc.total ||
		g.UsedStateGas > int64(mc.total) || g.UsedStateGas < -int64(mc.total) {
		rp.fail("budget:underflow:"+what, fmt.Sprintf("after %s: field out of range (root total %d): %v", what, mc.total, g))
	}
	// execution dimension
	if g.ExecutionGas+g.Spilled+g.UsedExecutionGas != f.entryE {
		rp.fail("budget:exec-conservation:"+what, fmt.Sprintf("after %s: Exec+Spilled+UsedExec = %d, frame entered with %d: %v", what, g.ExecutionGas+g.Spilled+g.UsedExecutionGas, f.entryE, g))
	}
}

// checkTop additionally verifies the identities that need the reservoir to be at home.
func (mc *machine) checkTop(rp reporter, what string) {
	f := &mc.st[mc.depth]
	mc.checkFrame(rp, f, what)
	g := f.g
	if int64(g.StateGas)+g.UsedStateGas-int64(g.Spilled) != int64(f.entryS) {
		rp.fail("budget:state-conservation:"+what, fmt.Sprintf("after %s: State+UsedState-Spilled = %d, frame entered with reservoir %d: %v", what, int64(g.StateGas)+g.UsedStateGas-int64(g.Spilled), f.entryS, g))
	}
	if sum4(g) != f.entryE+f.entryS {
		rp.fail("budget:frame-invariant:"+what, fmt.Sprintf("after %s: Exec+State+UsedExec+UsedState = %d, initial Exec+State = %d: %v", what, sum4(g), f.entryE+f.entryS, g))
	}
	if g.Used(vm.NewGasBudget(f.entryE, f.entryS)) != g.UsedExecutionGas+uint64(g.UsedStateGas) {
		rp.fail("budget:used-scalar:"+what, fmt.Sprintf("after %s: Used(initial) = %d but UsedExec+UsedState = %d", what, g.Used(vm.NewGasBudget(f.entryE, f.entryS)), g.UsedExecutionGas+uint64(g.UsedStateGas)))
	}
}

// feasible reports whether o may be applied in the current state (domain of the API).
func (mc *machine) feasible(o op) bool {
	f := &mc.st[mc.depth]
	switch o.Kind {
	case "rf":
		return o.A <= math.MaxInt64 && int64(o.A) <= mc.netState()
	case "fw":
		return o.A <= f.g.ExecutionGas && mc.depth+1 < maxDepth
	case "ex":
		return mc.depth > 0
	}
	return true
}

// apply executes one feasible operation on implementation and model and checks everything.
// variant selects between equivalent API entry points (wrappers).
func (mc *machine) apply(rp reporter, o op, variant int) {
	f := &mc.st[mc.depth]
	switch o.Kind {
	case "ce": // ChargeExecutionOnly(a)
		before := f.g
		can := f.g.CanAfford(vm.GasCosts{ExecutionGas: o.A})
		var ok bool
		if variant&1 == 0 {
			ok = f.g.ChargeExecutionOnly(o.A)
		} else {
			var prior vm.GasBudget
			prior, ok = f.g.ChargeExecution(o.A)
			if prior != before {
				rp.fail("budget:charge-prior", fmt.Sprintf("ChargeExecution(%d) returned prior %v, budget was %v", o.A, prior, before))
			}
		}
		mok := f.m.charge(o.A, 0)
		if ok != can {
			rp.fail("budget:canafford-vs-charge:exec", fmt.Sprintf("CanAfford(<%d,0>)=%v but execution charge ok=%v on %v", o.A, can, ok, before))
		}
		if ok != mok {
			rp.fail("budget:model-mismatch:charge-exec-result", fmt.Sprintf("execution charge %d on %v: impl ok=%v model ok=%v", o.A, before, ok, mok))
		}
		if !ok && f.g != before {
			rp.fail("budget:failed-charge-mutates:exec", fmt.Sprintf("failed execution charge %d changed %v into %v", o.A, before, f.g))
		}
		if ok {
			mc.flags |= fExecOnlyOK
		} else {
			mc.flags |= fExecOnlyFail
		}
		mc.checkTop(rp, "charge-exec")
	case "ch": // Charge(<a,b>)
		before := f.g
		c := vm.GasCosts{ExecutionGas: o.A, StateGas: o.B}
		can := f.g.CanAfford(c)
		var (
			prior vm.GasBudget
			ok    bool
		)
		if variant&1 == 1 && o.A == 0 {
			prior, ok = f.g.ChargeState(o.B)
		} else {
			prior, ok = f.g.Charge(c)
		}
		mok := f.m.charge(o.A, o.B)
		if prior != before {
			rp.fail("budget:charge-prior", fmt.Sprintf("Charge(%v) returned prior %v, budget was %v", c, prior, before))
		}
		if ok != can {
			rp.fail("budget:canafford-vs-charge", fmt.Sprintf("CanAfford(%v)=%v but Charge ok=%v on %v", c, can, ok, before))
		}
		if ok != mok {
			rp.fail("budget:model-mismatch:charge-result", fmt.Sprintf("Charge(%v) on %v: impl ok=%v model ok=%v", c, before, ok, mok))
		}
		if !ok && f.g != before {
			rp.fail("budget:failed-charge-mutates", fmt.Sprintf("failed Charge(%v) changed %v into %v", c, before, f.g))
		}
		if ok {
			mc.flags |= fChargeOK
			if f.g.Spilled > before.Spilled {
				mc.flags |= fSpill
			}
		} else {
			mc.flags |= fChargeFail
		}
		mc.checkTop(rp, "charge")
	case "rf":
		before := f.g
		f.g.RefundState(o.A)
		f.m.refund(o.A)
		mc.flags |= fRefund
		if f.g.Spilled < before.Spilled {
			mc.flags |= fRefundRepaid
		}
		if f.g.UsedStateGas < 0 {
			mc.flags |= fRefundNegative
		}
		// LIFO: the reservoir is refilled only once nothing is borrowed any more
		if f.g.StateGas > before.StateGas && f.g.Spilled != 0 {
			rp.fail("budget:refund-order", fmt.Sprintf("RefundState(%d) refilled the reservoir while execution gas is still borrowed: %v -> %v", o.A, before, f.g))
		}
		mc.checkTop(rp, "refund")
	case "dr":
		f.g.DrainExecution()
		f.m.drain()
		mc.flags |= fDrain
		if f.g.ExecutionGas != 0 {
			rp.fail("budget:drain", fmt.Sprintf("DrainExecution left %v", f.g))
		}
		mc.checkTop(rp, "drain")
	case "fw":
		f.sumBeforeFwd = sum4(f.g)
		f.fwdRes = f.g.StateGas
		var child vm.GasBudget
		if variant&1 == 1 && o.A == f.g.ExecutionGas {
			child = f.g.ForwardAll()
		} else {
			child = f.g.Forward(o.A)
		}
		mchild := f.m.forward(o.A)
		if child.ExecutionGas != o.A || child.StateGas != f.fwdRes || child.UsedExecutionGas != 0 || child.UsedStateGas != 0 || child.Spilled != 0 {
			rp.fail("budget:forward-child", fmt.Sprintf("Forward(%d) with reservoir %d produced child %v", o.A, f.fwdRes, child))
		}
		if f.g.StateGas != 0 {
			rp.fail("budget:forward-parent-reservoir", fmt.Sprintf("parent keeps reservoir after Forward: %v", f.g))
		}
		mc.checkFrame(rp, f, "forward")
		mc.depth++
		mc.st[mc.depth] = frame{g: child, m: mchild, entryE: child.ExecutionGas, entryS: child.StateGas}
		mc.flags |= fForward
		if mc.depth >= 2 {
			mc.flags |= fDepth2
		}
		if mc.depth >= 4 {
			mc.flags |= fDepth4
		}
		mc.checkTop(rp, "enter")
	case "ex":
		kind := int(o.A)
		g := f.g
		var out vm.GasBudget
		switch kind {
		case exitOK:
			if variant&1 == 1 {
				out = g.Exit(nil)
			} else {
				out = g.ExitSuccess()
			}
			mc.flags |= fExitOK
			if out != g {
				rp.fail("budget:exit-success", fmt.Sprintf("ExitSuccess changed %v into %v", g, out))
			}
		case exitRevert:
			if variant&1 == 1 {
				out = g.Exit(vm.ErrExecutionReverted)
			} else {
				out = g.ExitRevert()
			}
			mc.flags |= fExitRevert
			if out.StateGas != f.entryS {
				rp.fail("budget:revert-reservoir", fmt.Sprintf("ExitRevert of %v (entered with reservoir %d) hands back reservoir %d", g, f.entryS, out.StateGas))
			}
			if out.UsedStateGas != 0 || out.Spilled != 0 {
				rp.fail("budget:revert-usage", fmt.Sprintf("ExitRevert of %v leaves state usage %v", g, out))
			}
			if out.ExecutionGas != g.ExecutionGas+g.Spilled {
				rp.fail("budget:revert-exec", fmt.Sprintf("ExitRevert of %v returns execution gas %d, want remaining+borrowed %d", g, out.ExecutionGas, g.ExecutionGas+g.Spilled))
			}
		default:
			if variant&1 == 1 {
				out = g.Exit(errHalt)
			} else {
				out = g.ExitHalt()
			}
			mc.flags |= fExitHalt
			if out.StateGas != f.entryS {
				rp.fail("budget:halt-reservoir", fmt.Sprintf("ExitHalt of %v (entered with reservoir %d) hands back reservoir %d", g, f.entryS, out.StateGas))
			}
			if out.UsedStateGas != 0 || out.Spilled != 0 || out.ExecutionGas != 0 {
				rp.fail("budget:halt-usage", fmt.Sprintf("ExitHalt of %v leaves %v", g, out))
			}
			if out.UsedExecutionGas != f.entryE {
				rp.fail("budget:halt-exec", fmt.Sprintf("ExitHalt of %v (entered with %d execution gas) reports UsedExecutionGas %d", g, f.entryE, out.UsedExecutionGas))
			}
		}
		if g.Spilled > 0 {
			mc.flags |= fExitWithSpill
		}
		lo := f.m.exit(kind)
		mc.depth--
		p := &mc.st[mc.depth]
		p.g.Absorb(out)
		p.m.absorb(lo)
		if got := sum4(p.g); got != p.sumBeforeFwd {
			rp.fail("budget:tree-conservation:"+exitName(kind), fmt.Sprintf("parent Exec+State+UsedExec+UsedState was %d before Forward, is %d after Absorb(%v) [%s exit]: %v", p.sumBeforeFwd, got, out, exitName(kind), p.g))
		}
		mc.checkTop(rp, "absorb-"+exitName(kind))
	}
}

var errHalt = errors.New("out of gas (harness)")

func exitName(k int) string { return [...]string{"success", "revert", "halt"}[k] }

// ---------------------------------------------------------------------------------------
// exhaustive family
// ---------------------------------------------------------------------------------------

type exhReporter struct {
	r     *vrt.Run
	trail []op
	e, s  uint64
	bad   bool // the last operation was refuted: do not explore below it
}

func (x *exhReporter) fail(fp, msg string) {
	x.bad = true
	if x.r.NumViolations() >= 60 {
		x.r.Count("violations_suppressed", 1)
		return
	}
	x.r.Violation(fp, msg, map[string]any{"family": "exhaustive", "exec": x.e, "state": x.s, "ops": append([]op{}, x.trail...)})
}

// exhaustive enumerates every feasible operation sequence of length <= maxLen over the value
// set 0..v for the initial budget and every operand, by depth-first search with the machine
// copied by value at every node. Returns the number of sequences (nodes) judged.
func exhaustive(r *vrt.Run, v uint64, maxLen int) int64 {
	var alphabet []op
	for a := uint64(0); a <= v; a++ {
		alphabet = append(alphabet, op{Kind: "ce", A: a})
	}
	for a := uint64(0); a <= v; a++ {
		for b := uint64(0); b <= v; b++ {
			alphabet = append(alphabet, op{Kind: "ch", A: a, B: b})
		}
	}
	for a := uint64(0); a <= v; a++ {
		alphabet = append(alphabet, op{Kind: "rf", A: a})
	}
	for a := uint64(0); a <= v; a++ {
		alphabet = append(alphabet, op{Kind: "fw", A: a})
	}
	for k := uint64(0); k < 3; k++ {
		alphabet = append(alphabet, op{Kind: "ex", A: k})
	}
	alphabet = append(alphabet, op{Kind: "dr"})

	type task struct {
		e, s  uint64
		first int
	}
	var tasks []task
	for e := uint64(0); e <= v; e++ {
		for s := uint64(0); s <= v; s++ {
			for i := range alphabet {
				tasks = append(tasks, task{e, s, i})
			}
		}
	}
	var (
		mu     sync.Mutex
		shapes = map[uint64]int64{}
		nodes  int64
	)
	vrt.Par(len(tasks), 0, func(ti int) {
		t := tasks[ti]
		rp := &exhReporter{r: r, e: t.e, s: t.s}
		local := map[uint64]int64{}
		var n int64
		var rec func(mc machine, length int)
		rec = func(mc machine, length int) {
			n++
			local[uint64(mc.flags)|uint64(length)<<32]++
			if length == maxLen {
				return
			}
			for _, o := range alphabet {
				if !mc.feasible(o) {
					continue
				}
				next := mc
				rp.trail = append(rp.trail, o)
				next.apply(rp, o, 0)
				if rp.bad {
					rp.bad = false // states below a refuted step carry no information
				} else {
					rec(next, length+1)
				}
				rp.trail = rp.trail[:len(rp.trail)-1]
			}
		}
		r.Case("exhaustive v=%d len<=%d exec=%d state=%d first=%v", v, maxLen, t.e, t.s, alphabet[t.first])
		mc := newMachine(t.e, t.s)
		if t.first == 0 {
			// the empty sequence, once per initial budget
			n++
			mc.checkTop(rp, "init")
			local[0]++
		}
		if mc.feasible(alphabet[t.first]) {
			rp.trail = append(rp.trail[:0], alphabet[t.first])
			mc.apply(rp, alphabet[t.first], 0)
			if !rp.bad {
				rec(*mc, 1)
			}
			rp.bad = false
		}
		mu.Lock()
		nodes += n
		for k, c := range local {
			shapes[k] += c
		}
		mu.Unlock()
	})
	for k, c := range shapes {
		sig := ""
		if uint32(k) != 0 {
			sig = fmt.Sprintf("exh/len%d/%s", k>>32, flagString(uint32(k)))
		}
		r.EvalN(sig, int(c))
		countFlags(r, "exh_", uint32(k), c)
	}
	return nodes
}

func flagString(f uint32) string {
	names := []string{"chg", "chgfail", "exe", "exefail", "spill", "refund", "repaid", "negused", "fwd", "xok", "xrev", "xhalt", "xspill", "drain", "d2", "d4"}
	s := ""
	for i, n := range names {
		if f&(1<<i) != 0 {
			s += n + ","
		}
	}
	return s
}

func countFlags(r *vrt.Run, prefix string, f uint32, c int64) {
	names := []string{"charge_ok", "charge_fail", "execonly_ok", "execonly_fail", "spill", "refund", "refund_repaid_spill", "refund_negative_used", "forward", "exit_success", "exit_revert", "exit_halt", "exit_with_spill", "drain", "depth_ge2", "depth_ge4"}
	for i, n := range names {
		if f&(1<<i) != 0 {
			r.Count(prefix+"seqs_with_"+n, int(c))
		}
	}
}

// ---------------------------------------------------------------------------------------
// random frame trees
// ---------------------------------------------------------------------------------------

type treeReporter struct {
	r    *vrt.Run
	idx  int
	e, s uint64
	ops  []op
	bad  bool
}

func (t *treeReporter) fail(fp, msg string) {
	t.bad = true
	if t.r.NumViolations() >= 60 {
		t.r.Count("violations_suppressed", 1)
		return
	}
	t.r.Violation(fp, msg, map[string]any{"family": "random-tree", "index": t.idx, "exec": t.e, "state": t.s, "ops": append([]op{}, t.ops...)})
}

var boundary = []uint64{0, 1, 2, 3, 21000, 1 << 24, 1<<24 + 1, 1<<32 - 1, 1 << 32, 1<<62 - 1, 1 << 62, 1<<63 - 1, 1 << 63, 1<<63 + 1, math.MaxUint64 - 1, math.MaxUint64}

// pick draws a value that is boundary-biased relative to the anchors (current balances).
func pick(rng *rand.Rand, anchors ...uint64) uint64 {
	switch rng.Intn(10) {
	case 0:
		return boundary[rng.Intn(len(boundary))]
	case 1:
		return uint64(rng.Intn(8))
	case 2:
		return rng.Uint64()
	case 3:
		return rng.Uint64() >> uint(rng.Intn(64))
	}
	a := anchors[rng.Intn(len(anchors))]
	switch rng.Intn(8) {
	case 0:
		return a
	case 1:
		return a + 1
	case 2:
		return a - 1
	case 3:
		return a / 2
	case 4:
		return a - a/64 // all but one 64th
	case 5:
		if a > 0 {
			return rng.Uint64() % a
		}
		return 0
	case 6:
		return a + uint64(rng.Intn(4))
	default:
		return a - uint64(rng.Intn(4))
	}
}

// randomTree runs one random frame tree of nops operations (depth <= maxDepth-2), then
// closes all open frames and checks the root.
func randomTree(r *vrt.Run, idx int, nops int) {
	rng := r.Rand("tree", idx)
	// initial budget with total <= 2^63-1
	var e, s uint64
	switch rng.Intn(6) {
	case 0:
		e, s = uint64(rng.Intn(6)), uint64(rng.Intn(6))
	case 1:
		e = math.MaxInt64 - uint64(rng.Intn(3))
		s = uint64(rng.Intn(int(math.MaxInt64-e) + 1))
	case 2:
		s = math.MaxInt64 - uint64(rng.Intn(3))
		e = uint64(rng.Intn(int(math.MaxInt64-s) + 1))
	case 3:
		// Amsterdam-like: execution capped at 2^24, rest reservoir
		e = 1<<24 - uint64(rng.Intn(60000))
		s = uint64(rng.Intn(3)) * uint64(rng.Intn(1<<26))
	default:
		e = pick(rng, 1<<24, 1<<32, 1<<62) % (1 << 62)
		s = pick(rng, 183600, 1<<24, 1<<62) % (1 << 62)
	}
	rp := &treeReporter{r: r, idx: idx, e: e, s: s}
	r.Case("tree %d exec=%d state=%d", idx, e, s)
	mc := newMachine(e, s)
	mc.checkTop(rp, "init")
	limit := 1 + rng.Intn(6) // depth limit of this tree
	for i := 0; i < nops && !rp.bad; i++ {
		f := &mc.st[mc.depth]
		g := f.g
		var o op
		switch k := rng.Intn(20); {
		case k < 3:
			o = op{Kind: "ce", A: pick(rng, g.ExecutionGas)}
		case k < 9:
			o = op{Kind: "ch", A: pick(rng, g.ExecutionGas, g.ExecutionGas/2), B: pick(rng, g.StateGas, g.ExecutionGas, g.ExecutionGas+g.StateGas, 183600, 97920)}
			if rng.Intn(3) == 0 {
				o.A = 0
			}
			if rng.Intn(4) == 0 && g.ExecutionGas >= o.A {
				// exactly affordable / one more than affordable
				o.B = g.StateGas + (g.ExecutionGas - o.A) + uint64(rng.Intn(2))
			}
		case k < 12:
			net := mc.netState()
			if net <= 0 {
				continue
			}
			o = op{Kind: "rf", A: pick(rng, uint64(net), g.Spilled, uint64(max(f.m.spentState, 0)))}
			if int64(o.A) > net || o.A > math.MaxInt64 {
				o.A = uint64(net)
			}
		case k < 16:
			if mc.depth >= limit {
				continue
			}
			o = op{Kind: "fw", A: pick(rng, g.ExecutionGas, g.ExecutionGas-g.ExecutionGas/64)}
			if o.A > g.ExecutionGas {
				o.A = g.ExecutionGas
			}
		case k < 19:
			o = op{Kind: "ex", A: uint64(rng.Intn(3))}
		default:
			if rng.Intn(4) != 0 {
				continue
			}
			o = op{Kind: "dr"}
		}
		if !mc.feasible(o) {
			continue
		}
		rp.ops = append(rp.ops, o)
		mc.apply(rp, o, rng.Intn(2))
	}
	// close the tree
	for mc.depth > 0 && !rp.bad {
		o := op{Kind: "ex", A: uint64(rng.Intn(3))}
		rp.ops = append(rp.ops, o)
		mc.apply(rp, o, rng.Intn(2))
	}
	root := mc.st[0].g
	if !rp.bad {
		// what the transaction level relies on (settleGas): usage is non-negative in both
		// dimensions and adds up to limit - left
		if root.UsedStateGas < 0 {
			// allowed by the API only if refunds exceeded charges, which the domain excludes
			rp.fail("budget:root-negative-state-usage", fmt.Sprintf("root UsedStateGas %d < 0 although refunds never exceeded net charges: %v", root.UsedStateGas, root))
		}
		if used := mc.total - (root.ExecutionGas + root.StateGas); used != root.UsedExecutionGas+uint64(root.UsedStateGas) || used < uint64(root.UsedStateGas) {
			rp.fail("budget:root-usage", fmt.Sprintf("root: total %d left %d but UsedExec %d UsedState %d", mc.total, root.ExecutionGas+root.StateGas, root.UsedExecutionGas, root.UsedStateGas))
		}
	}
	sig := fmt.Sprintf("tree/%s", flagString(mc.flags))
	if mc.flags == 0 {
		sig = ""
	}
	r.Eval(sig)
	countFlags(r, "tree_", mc.flags, 1)
	r.Count("tree_ops", len(rp.ops))
	if idx < 2 && r.WantSample() {
		r.Sample(map[string]any{"family": "random-tree", "exec": e, "state": s, "ops": rp.ops, "root_after": root.String()})
	}
}

// wideTree exercises budgets whose total lies in [2^63, 2^64-1], outside the domain of the
// signed accumulator. Only the identities that are meaningful modulo 2^64 are judged there:
// CanAfford == Charge ok, a failed charge does not mutate, and the frame invariant in
// wrapping arithmetic.
func wideTree(r *vrt.Run, idx int) {
	rng := r.Rand("wide", idx)
	e := pick(rng, math.MaxUint64, 1<<63)
	s := pick(rng, math.MaxUint64-e)
	if s > math.MaxUint64-e {
		s = math.MaxUint64 - e
	}
	r.Case("wide %d exec=%d state=%d", idx, e, s)
	g := vm.NewGasBudget(e, s)
	var ops []op
	fail := func(fp, msg string) {
		r.Violation(fp, msg, map[string]any{"family": "wide", "exec": e, "state": s, "ops": ops})
	}
	for i := 0; i < 12; i++ {
		c := vm.GasCosts{ExecutionGas: pick(rng, g.ExecutionGas), StateGas: pick(rng, g.StateGas, g.ExecutionGas, g.StateGas+g.ExecutionGas)}
		if rng.Intn(3) == 0 {
			c.ExecutionGas = 0
		}
		ops = append(ops, op{Kind: "ch", A: c.ExecutionGas, B: c.StateGas})
		before := g
		can := g.CanAfford(c)
		_, ok := g.Charge(c)
		if can != ok {
			fail("budget:canafford-vs-charge", fmt.Sprintf("CanAfford(%v)=%v Charge ok=%v on %v", c, can, ok, before))
		}
		// affordability in exact arithmetic: e <= E and s <= S + (E - e)
		want := c.ExecutionGas <= before.ExecutionGas && (c.StateGas <= before.StateGas || c.StateGas-before.StateGas <= before.ExecutionGas-c.ExecutionGas)
		if ok != want {
			fail("budget:affordability", fmt.Sprintf("Charge(%v) on %v: ok=%v, exact arithmetic says %v", c, before, ok, want))
		}
		if !ok && g != before {
			fail("budget:failed-charge-mutates", fmt.Sprintf("failed Charge(%v) changed %v into %v", c, before, g))
		}
		if sum4(g) != e+s {
			fail("budget:frame-invariant:wide", fmt.Sprintf("Exec+State+UsedExec+UsedState (mod 2^64) = %d, initial %d: %v", sum4(g), e+s, g))
		}
		if g.ExecutionGas > before.ExecutionGas || g.StateGas > before.StateGas {
			fail("budget:underflow:wide", fmt.Sprintf("Charge(%v) increased a balance: %v -> %v", c, before, g))
		}
	}
	r.Eval("")
	r.Count("wide_trees", 1)
}
