// C31: two-dimensional gas accounting conserves gas.
//
// Two layers (see budget.go and tx.go):
//   - budget level: black-box monitor of vm.GasBudget against a naive model and the
//     conservation identities, bounded-exhaustive + random frame trees;
//   - transaction level: core.ApplyMessage on generated transactions (Amsterdam and older rule
//     sets) with the settlement identities observed from the result, the gas pool and the
//     balance-change stream.
package main

import (
	"fmt"
	"os"

	"verif/lib/vrt"
)

func main() { vrt.Main("C31", run) }

func run(r *vrt.Run) {
	r.Rule("budget level: (a) EVERY feasible sequence of <= L operations {ChargeExecutionOnly(a), Charge(<a,b>), RefundState(a), Forward(a), Exit success/revert/halt + Absorb, DrainExecution} with root budget and operands from 0..V, families (V=2,L=5) and (V=3,L=4) in the quick tier, (V=2,L=6) and (V=3,L=5) in the thorough tier; (b) random frame trees, <= 40 operations, nesting <= 6, root total <= 2^63-1, operands boundary-biased around the live balances and up to 2^64-1; (c) charge sequences on budgets with total in [2^63,2^64-1] judged modulo 2^64. transaction level: core.ApplyMessage on generated blocks of transactions (see tx.go). non-trivial signature = set of operation kinds/outcomes that occurred (successful/failed charge, spill, refund, refund repaying a spill, refund driving UsedStateGas negative, forward, exit kinds, exit with live spill, nesting depth) resp. (rule set, tx kind, outcome class, refund/floor/state-gas features) for transactions")
	only := os.Getenv("C31_ONLY") // debugging aid: "budget" | "tx"

	if only == "" || only == "budget" {
		type fam struct {
			v uint64
			l int
		}
		fams := []fam{{2, 5}, {3, 4}}
		if !r.Quick() {
			fams = []fam{{2, 6}, {3, 5}}
		}
		if r.Race() {
			fams = []fam{{2, 4}, {3, 3}}
		}
		desc := ""
		for _, f := range fams {
			n := exhaustive(r, f.v, f.l)
			r.Count(fmt.Sprintf("exhaustive_sequences_v%d_len%d", f.v, f.l), int(n))
			r.Count("exhaustive_sequences", int(n))
			desc += fmt.Sprintf("all feasible GasBudget operation sequences of length <= %d with root budget and operands in 0..%d (%d sequences); ", f.l, f.v, n)
			r.Logf("exhaustive family v=%d len<=%d: %d sequences", f.v, f.l, n)
		}
		r.Exhaustive(true)
		r.Extra("exhaustive_family", desc)

		nt := r.N(200000, 20000000)
		if r.Race() {
			nt /= 10
		}
		vrt.Par(nt, 0, func(i int) { randomTree(r, i, 40) })
		vrt.Par(nt/10, 0, func(i int) { wideTree(r, i) })
		r.Require("tree_seqs_with_spill", 100)
		r.Require("tree_seqs_with_refund_repaid_spill", 100)
		r.Require("tree_seqs_with_exit_with_spill", 100)
		r.Require("tree_seqs_with_exit_revert", 100)
		r.Require("tree_seqs_with_exit_halt", 100)
		r.Require("tree_seqs_with_refund_negative_used", 20)
		r.Require("exh_seqs_with_refund_repaid_spill", 100)
		r.Require("exh_seqs_with_exit_with_spill", 100)
	}
	if only == "" || only == "tx" {
		runTx(r)
	}
	r.Assume("naive reservoir model (mframe in budget.go, ~90 lines) written from the comments of core/vm/gascosts.go")
	r.Assume("domain of the GasBudget API as used by its callers: Forward(x) with x <= ExecutionGas; RefundState(s) with s <= net state gas charged in the live frame tree; root total <= params.MaxGasLimit = 2^63-1")
}
