// C31, transaction level: settlement identities observed on core.ApplyMessage.
//
// For generated blocks (1..8 transactions, generated contracts, rule sets Byzantium ..
// Amsterdam) every message is applied with the real state transition on top of a shared
// GasPool, the way the block processor / miner do it. Observed: the ExecutionResult, the
// pool accessors before/after, the balance-change and gas-change event streams and the
// refund counter. Judged:
//
//   - UsedGas <= MaxUsedGas <= GasLimit;
//   - refund = min(refund counter, pre-refund usage / q), q = 5 from London on, 2 before
//     (EIP-3529), hence refund <= usage/q; UsedGas = max(usage - refund, calldata floor) from
//     Prague on (EIP-7623), usage - refund before;
//   - pool: legacy: used = sum of UsedGas = initial - remaining <= block gas limit;
//     Amsterdam: both cumulative dimensions <= block gas limit, per transaction the execution
//     contribution <= min(GasLimit, MaxTxGas) and the state contribution <= GasLimit (the
//     reservations checked up front), CumulativeUsed = sum of UsedGas;
//   - a transaction is rejected with ErrGasLimitReached exactly when its reservation does not
//     fit, and such a rejection leaves the pool untouched;
//   - the sender is debited GasLimit*price (+ blob fee) up front and gets back exactly
//     (GasLimit - UsedGas)*price; the fee recipient gets UsedGas*(price - baseFee);
//   - ApplyMessage never fails *after* execution (pool overflow / negative usage errors of
//     settleGas).
package main

import (
	"errors"
	"fmt"
	"math/big"
	"math/rand"
	"strings"

	"github.com/ethereum/go-ethereum/common"
	"github.com/ethereum/go-ethereum/core"
	"github.com/ethereum/go-ethereum/core/state"
	"github.com/ethereum/go-ethereum/core/tracing"
	"github.com/ethereum/go-ethereum/core/types"
	"github.com/ethereum/go-ethereum/core/vm"
	"github.com/ethereum/go-ethereum/params"
	"github.com/holiman/uint256"

	"verif/lib/execenv"
	"verif/lib/proggen"
	"verif/lib/vrt"
)

func runTx(r *vrt.Run) {
	n := r.N(800, 80000)
	if r.Race() {
		n /= 8
	}
	vrt.Par(n, 0, func(i int) { txBlock(r, i) })
	r.Require("tx_applied", 1000)
	r.Require("tx_amsterdam_applied", 300)
	r.Require("tx_refund_capped", 20)
	r.Require("tx_refund_uncapped", 20)
	r.Require("tx_floor_applied", 10)
	r.Require("tx_state_gas_used", 50)
	r.Require("tx_state_gas_spilled", 10)
	r.Require("tx_rejected_pool", 20)
	r.Require("tx_pre_london_refund", 5)
	r.Assume("gas-change and balance-change events (core/tracing hooks) report the amounts the state transition actually applied; cross-checked against ExecutionResult and the EIP formulas")
}

var forkWeights = []struct {
	f execenv.Fork
	w int
}{
	{execenv.Amsterdam, 45}, {execenv.Osaka, 10}, {execenv.Prague, 12}, {execenv.Cancun, 7}, {execenv.Shanghai, 4},
	{execenv.London, 7}, {execenv.Berlin, 5}, {execenv.Istanbul, 5}, {execenv.Byzantium, 5},
}

func pickFork(rng *rand.Rand) execenv.Fork {
	t := 0
	for _, fw := range forkWeights {
		t += fw.w
	}
	x := rng.Intn(t)
	for _, fw := range forkWeights {
		if x < fw.w {
			return fw.f
		}
		x -= fw.w
	}
	return execenv.Amsterdam
}

// events collected during one ApplyMessage.
type events struct {
	bal []balEv
	gas []gasEv
}
type balEv struct {
	addr      common.Address
	prev, new *big.Int
	reason    tracing.BalanceChangeReason
}
type gasEv struct {
	old, new tracing.Gas
	reason   tracing.GasChangeReason
}

func (e *events) sum(addr common.Address, reason tracing.BalanceChangeReason) *big.Int {
	s := new(big.Int)
	for _, b := range e.bal {
		if b.addr == addr && b.reason == reason {
			s.Add(s, new(big.Int).Sub(b.new, b.prev))
		}
	}
	return s
}

type txDesc struct {
	Fork     string `json:"fork"`
	Type     uint8  `json:"type"`
	To       string `json:"to"`
	Gas      uint64 `json:"gas"`
	Value    string `json:"value"`
	Price    string `json:"price"`
	Data     string `json:"data"`
	Blobs    int    `json:"blobs,omitempty"`
	Auths    int    `json:"auths,omitempty"`
	Outcome  string `json:"outcome"`
	UsedGas  uint64 `json:"used_gas,omitempty"`
	PeakUsed uint64 `json:"peak_used,omitempty"`
}

func txBlock(r *vrt.Run, idx int) {
	rng := r.Rand("txblock", idx)
	fork := pickFork(rng)
	chain := execenv.NewChain(fork)

	// ---- world -------------------------------------------------------------------------
	const nContracts, nSenders = 6, 4
	w := &execenv.World{Fork: fork, Coinbase: common.HexToAddress("0xc01bba5e00000000000000000000000000000001")}
	for i := 0; i < nContracts; i++ {
		w.Contracts = append(w.Contracts, common.BytesToAddress([]byte{0xc0, 0xde, byte(i + 1)}))
	}
	type sender struct {
		key   int
		addr  common.Address
		nonce uint64
	}
	var senders []*sender
	for i := 0; i < nSenders; i++ {
		_, a := execenv.Key(i)
		senders = append(senders, &sender{key: i, addr: a})
		w.EOAs = append(w.EOAs, a)
	}
	for i := 0; i < 3; i++ {
		_, a := execenv.Key(100 + i)
		w.EOAs = append(w.EOAs, a)
	}
	for i := 0; i < 4; i++ {
		w.Fresh = append(w.Fresh, common.BytesToAddress([]byte{0xf4, 0xe5, byte(idx), byte(i + 1)}))
	}
	strict := rng.Intn(3) == 0
	alloc := map[common.Address]execenv.Account{}
	var progFeat execenv.Features
	for i, a := range w.Contracts {
		var code []byte
		if rng.Intn(4) == 0 {
			p := proggen.Gen(rng, proggen.Opts{Fork: fork.ProggenName(), Addrs: append(append([]common.Address{}, w.Contracts...), w.EOAs...), MaxLen: 300, AllowGasDependent: true})
			code = p.Code
		} else {
			p := execenv.GenProgram(rng, w, execenv.GenOpts{Strict: strict, MaxStmts: 4 + rng.Intn(8)})
			code = p.Code
			progFeat |= p.Feat
		}
		acc := execenv.Account{Code: code, Nonce: 1, Balance: uint256.NewInt(0), Storage: map[common.Hash]common.Hash{}}
		if rng.Intn(3) > 0 {
			acc.Balance = uint256.NewInt(1_000_000_000_000_000_000)
		}
		// pre-existing storage so that clears earn refunds
		for s := 0; s < 4; s++ {
			if rng.Intn(2) == 0 {
				acc.Storage[common.BigToHash(big.NewInt(int64(s)))] = common.BigToHash(big.NewInt(int64(1 + rng.Intn(3))))
			}
		}
		if rng.Intn(2) == 0 || i == 0 {
			for s := 16; s < 40; s++ {
				acc.Storage[common.BigToHash(big.NewInt(int64(s)))] = common.BigToHash(big.NewInt(5))
			}
		}
		alloc[a] = acc
	}
	rich := new(uint256.Int).Exp(uint256.NewInt(10), uint256.NewInt(24))
	for _, a := range w.EOAs {
		alloc[a] = execenv.Account{Balance: rich.Clone()}
	}
	if rng.Intn(2) == 0 {
		alloc[w.Coinbase] = execenv.Account{Balance: uint256.NewInt(12345)}
	}
	statedb, _, err := execenv.NewState(alloc, fork >= execenv.Prague)
	if err != nil {
		r.Inconclusive("state construction failed: %v", err)
		return
	}

	// ---- header, pool, evm ---------------------------------------------------------------
	hp := execenv.HeaderParams{Coinbase: w.Coinbase, Random: common.Hash{0x52}}
	switch rng.Intn(5) {
	case 0:
		hp.GasLimit = 300_000 + uint64(rng.Intn(3_000_000))
	case 1:
		hp.GasLimit = 20_000_000 + uint64(rng.Intn(3_000_000))
	default:
		hp.GasLimit = 30_000_000 + uint64(rng.Intn(30_000_000))
	}
	hp.BaseFee = big.NewInt(int64(7 + rng.Intn(50_000_000_000)))
	if rng.Intn(4) == 0 {
		hp.BaseFee = big.NewInt(7)
	}
	hp.ExcessBlobGas = uint64(rng.Intn(3)) * 5_000_000
	header := chain.Header(fork, hp)
	rules := chain.Rules(header)
	signer := types.MakeSigner(chain.Cfg, header.Number, header.Time)

	ev := &events{}
	hooks := &tracing.Hooks{
		OnBalanceChange: func(a common.Address, prev, new *big.Int, reason tracing.BalanceChangeReason) {
			ev.bal = append(ev.bal, balEv{a, new1(prev), new1(new), reason})
		},
		OnGasChangeV2: func(old, new tracing.Gas, reason tracing.GasChangeReason) {
			switch reason {
			case tracing.GasChangeTxRefunds, tracing.GasChangeTxDataFloor, tracing.GasChangeTxLeftOverReturned, tracing.GasChangeTxIntrinsicGas:
				ev.gas = append(ev.gas, gasEv{old, new, reason})
			}
		},
	}
	hooked := state.NewHookedState(statedb, hooks)
	blockCtx := core.NewEVMBlockContext(header, chain, nil)
	evm := vm.NewEVM(blockCtx, hooked, chain.Cfg, vm.Config{Tracer: hooks})
	defer evm.Release()
	gp := core.NewGasPool(header.GasLimit)
	baseFee := new(big.Int)
	if header.BaseFee != nil {
		baseFee.Set(header.BaseFee)
	}

	var (
		sumUsed  uint64
		ntx      = 1 + rng.Intn(8)
		amster   = rules.IsAmsterdam
		forkName = fork.String()
	)
	for j := 0; j < ntx; j++ {
		s := senders[rng.Intn(len(senders))]
		s.nonce = statedb.GetNonce(s.addr)
		// ---- generate the transaction --------------------------------------------------
		var (
			to     *common.Address
			data   []byte
			kind   string
			create bool
		)
		switch k := rng.Intn(20); {
		case k < 12:
			a := w.Contracts[rng.Intn(len(w.Contracts))]
			to, kind = &a, "call"
		case k < 14:
			a := w.EOAs[rng.Intn(len(w.EOAs))]
			to, kind = &a, "transfer"
		case k < 16:
			a := w.Fresh[rng.Intn(len(w.Fresh))]
			to, kind = &a, "newacct"
		default:
			create, kind = true, "create"
		}
		if create {
			data = execenv.GenInitCode(rng, w, execenv.GenOpts{Strict: strict}).Code
		} else {
			l := rng.Intn(60)
			if rules.IsPrague && rng.Intn(5) == 0 {
				l = 300 + rng.Intn(3000) // calldata-floor dominated
			}
			data = make([]byte, l)
			rng.Read(data)
			if l > 0 {
				data[0] = byte(rng.Intn(4))
			}
			if l > 1 && rng.Intn(2) == 0 {
				data[1] = 0
			}
		}
		value := new(big.Int)
		switch rng.Intn(4) {
		case 0:
			value.SetInt64(int64(1 + rng.Intn(1_000_000)))
		case 1:
			if kind == "newacct" || kind == "create" {
				value.SetInt64(1)
			}
		}
		var al types.AccessList
		if rules.IsBerlin && rng.Intn(4) == 0 {
			al = types.AccessList{{Address: w.Contracts[rng.Intn(len(w.Contracts))], StorageKeys: []common.Hash{{}, common.BigToHash(big.NewInt(1))}}}
		}
		// fees
		tip := big.NewInt(int64(rng.Intn(3_000_000_000)))
		if rng.Intn(4) == 0 {
			tip.SetInt64(0)
		}
		feeCap := new(big.Int).Add(baseFee, tip)
		if rng.Intn(2) == 0 {
			feeCap.Add(feeCap, big.NewInt(int64(rng.Intn(1_000_000_000))))
		}
		// tx type
		txType := uint8(types.LegacyTxType)
		switch {
		case rules.IsPrague && !create && rng.Intn(6) == 0:
			txType = types.SetCodeTxType
		case rules.IsCancun && !create && rng.Intn(8) == 0:
			txType = types.BlobTxType
		case rules.IsLondon && rng.Intn(3) > 0:
			txType = types.DynamicFeeTxType
		case rules.IsBerlin && rng.Intn(3) == 0:
			txType = types.AccessListTxType
		}
		if txType == types.LegacyTxType {
			al = nil // legacy transactions carry no access list
		}
		var auths []types.SetCodeAuthorization
		if txType == types.SetCodeTxType {
			na := 1 + rng.Intn(3)
			for q := 0; q < na; q++ {
				// authorities: fresh keys (new accounts), existing EOAs, the sender itself
				var ak int
				switch rng.Intn(4) {
				case 0:
					ak = 100 + rng.Intn(3)
				case 1:
					ak = s.key
				default:
					ak = 200 + rng.Intn(4)
				}
				key, aaddr := execenv.Key(ak)
				nonce := statedb.GetNonce(aaddr)
				if ak == s.key {
					nonce = s.nonce + 1
				}
				if rng.Intn(6) == 0 {
					nonce += 3 // invalid authorization
				}
				target := w.Contracts[rng.Intn(len(w.Contracts))]
				if rng.Intn(5) == 0 {
					target = common.Address{} // clear
				}
				auth, err := types.SignSetCode(key, types.SetCodeAuthorization{ChainID: *uint256.MustFromBig(chain.Cfg.ChainID), Address: target, Nonce: nonce})
				if err == nil {
					auths = append(auths, auth)
				}
			}
		}
		var blobHashes []common.Hash
		if txType == types.BlobTxType {
			for q := 0; q < 1+rng.Intn(3); q++ {
				blobHashes = append(blobHashes, common.Hash{0x01, byte(q), byte(idx)})
			}
		}
		// gas limit
		intrinsic, ierr := core.IntrinsicGas(data, al, auths, s.addr, to, uint256.MustFromBig(value), rules)
		if ierr != nil {
			continue
		}
		var floor uint64
		if rules.IsPrague {
			floor, _ = core.FloorDataGas(rules, s.addr, to, uint256.MustFromBig(value), data, al)
		}
		minGas := max(intrinsic, floor)
		var gas uint64
		switch k := rng.Intn(20); {
		case k < 8:
			gas = minGas + 200_000 + uint64(rng.Intn(3_000_000))
		case k < 11:
			gas = minGas + uint64(rng.Intn(60_000))
		case k < 12:
			gas = minGas
		case k < 13:
			gas = minGas - 1 - uint64(rng.Intn(100)) // rejected: intrinsic / floor
		case k < 15:
			gas = params.MaxTxGas - uint64(rng.Intn(3)) + uint64(rng.Intn(2))*uint64(rng.Intn(5_000_000)) // around / above the EIP-7825 cap
		case k < 17:
			// around what is left in the pool
			left := gp.Gas()
			if amster {
				left = header.GasLimit - gp.CumulativeState()
			}
			gas = left - uint64(rng.Intn(3)) + uint64(rng.Intn(3))
		default:
			gas = minGas + 50_000 + uint64(rng.Intn(400_000))
		}
		var txdata types.TxData
		price := new(big.Int).Set(feeCap)
		switch txType {
		case types.LegacyTxType:
			txdata = &types.LegacyTx{Nonce: s.nonce, GasPrice: price, Gas: gas, To: to, Value: value, Data: data}
		case types.AccessListTxType:
			txdata = &types.AccessListTx{ChainID: chain.Cfg.ChainID, Nonce: s.nonce, GasPrice: price, Gas: gas, To: to, Value: value, Data: data, AccessList: al}
		case types.DynamicFeeTxType:
			txdata = &types.DynamicFeeTx{ChainID: chain.Cfg.ChainID, Nonce: s.nonce, GasTipCap: tip, GasFeeCap: feeCap, Gas: gas, To: to, Value: value, Data: data, AccessList: al}
		case types.BlobTxType:
			txdata = &types.BlobTx{ChainID: uint256.MustFromBig(chain.Cfg.ChainID), Nonce: s.nonce, GasTipCap: uint256.MustFromBig(tip), GasFeeCap: uint256.MustFromBig(feeCap), Gas: gas, To: *to, Value: uint256.MustFromBig(value), Data: data, AccessList: al,
				BlobFeeCap: uint256.MustFromBig(new(big.Int).Add(blockCtx.BlobBaseFee, big.NewInt(int64(rng.Intn(5))))), BlobHashes: blobHashes}
		case types.SetCodeTxType:
			txdata = &types.SetCodeTx{ChainID: uint256.MustFromBig(chain.Cfg.ChainID), Nonce: s.nonce, GasTipCap: uint256.MustFromBig(tip), GasFeeCap: uint256.MustFromBig(feeCap), Gas: gas, To: *to, Value: uint256.MustFromBig(value), Data: data, AccessList: al, AuthList: auths}
		}
		key, _ := execenv.Key(s.key)
		tx, err := types.SignNewTx(key, signer, txdata)
		if err != nil {
			r.Inconclusive("signing failed: %v", err)
			return
		}
		msg, err := core.TransactionToMessage(tx, signer, header.BaseFee)
		if err != nil {
			r.Inconclusive("TransactionToMessage failed: %v", err)
			return
		}
		toStr := "create"
		if to != nil {
			toStr = to.Hex()
		}
		desc := txDesc{Fork: forkName, Type: txType, To: toStr, Gas: gas, Value: value.String(), Price: msg.GasPrice.String(), Data: vrt.Hex(data), Blobs: len(blobHashes), Auths: len(auths)}
		r.Case("txblock %d tx %d %+v", idx, j, desc)
		witness := func() map[string]any {
			return map[string]any{"block_index": idx, "tx_index": j, "tx": desc, "block_gas_limit": header.GasLimit, "base_fee": baseFee.String(), "pool_before": poolString(gp)}
		}

		// ---- expectations about the pool reservation -----------------------------------
		before := gp.Snapshot()
		fits := gas <= before.Gas()
		if amster {
			fits = header.GasLimit-before.CumulativeExecution() >= min(gas, params.MaxTxGas) && header.GasLimit-before.CumulativeState() >= gas
		}
		tooHigh := rules.IsOsaka && !amster && gas > params.MaxTxGas

		// ---- apply -----------------------------------------------------------------------
		ev.bal, ev.gas = ev.bal[:0], ev.gas[:0]
		statedb.SetTxContext(tx.Hash(), j, uint32(j+1))
		snap := statedb.Snapshot()
		res, err := core.ApplyMessage(evm, msg, gp)
		if err != nil {
			desc.Outcome = "rejected: " + err.Error()
			switch {
			case strings.Contains(err.Error(), "block gas overflow") || strings.Contains(err.Error(), "negative topmost frame"):
				r.Violation("tx:settle-error", fmt.Sprintf("ApplyMessage failed after execution: %v", err), witness())
			case errors.Is(err, core.ErrGasLimitReached):
				r.Count("tx_rejected_pool", 1)
				if fits && !tooHigh {
					r.Violation("tx:pool-spurious-reject", fmt.Sprintf("transaction with gas %d fits the pool (%s) but was rejected: %v", gas, poolString(before), err), witness())
				}
				if !samePool(gp, before) {
					r.Violation("tx:pool-changed-on-reject", fmt.Sprintf("rejected transaction changed the pool: %s -> %s", poolString(before), poolString(gp)), witness())
				}
			default:
				r.Count("tx_rejected_other", 1)
				if !fits && !tooHigh && !errors.Is(err, core.ErrGasLimitTooHigh) {
					// every other pre-check precedes the pool reservation, so this is fine; but
					// the intrinsic-gas check follows it: a transaction that does not fit must
					// not get that far
					if errors.Is(err, core.ErrIntrinsicGas) || errors.Is(err, core.ErrFloorDataGas) || errors.Is(err, core.ErrInsufficientFunds) {
						r.Violation("tx:pool-missing-reject", fmt.Sprintf("transaction with gas %d does not fit the pool (%s) but got past the reservation: %v", gas, poolString(before), err), witness())
					}
				}
			}
			// what every caller does on a consensus error
			statedb.RevertToSnapshot(snap)
			gp.Set(before)
			r.Eval(fmt.Sprintf("tx/%s/%s/rejected/%s", forkName, kind, errClass(err)))
			continue
		}
		r.Count("tx_applied", 1)
		if amster {
			r.Count("tx_amsterdam_applied", 1)
		}
		if !fits {
			r.Violation("tx:pool-missing-reject", fmt.Sprintf("transaction with gas %d does not fit the pool (%s) but was applied", gas, poolString(before)), witness())
		}
		if tooHigh {
			r.Violation("tx:maxtxgas", fmt.Sprintf("Osaka transaction with gas %d > MaxTxGas was applied", gas), witness())
		}
		desc.UsedGas, desc.PeakUsed = res.UsedGas, res.MaxUsedGas
		desc.Outcome = "ok"
		if res.Err != nil {
			desc.Outcome = res.Err.Error()
		}
		refundCounter := statedb.GetRefund()

		// ---- result bounds -------------------------------------------------------------
		if res.UsedGas > gas || res.MaxUsedGas > gas || res.UsedGas > res.MaxUsedGas {
			r.Violation("tx:used-gas-bound", fmt.Sprintf("UsedGas %d, MaxUsedGas %d, GasLimit %d", res.UsedGas, res.MaxUsedGas, gas), witness())
		}
		q := params.RefundQuotient
		if rules.IsLondon {
			q = params.RefundQuotientEIP3529
		}
		if res.MaxUsedGas-res.UsedGas > res.MaxUsedGas/q {
			r.Violation("tx:refund-cap", fmt.Sprintf("MaxUsedGas-UsedGas = %d exceeds MaxUsedGas/%d = %d", res.MaxUsedGas-res.UsedGas, q, res.MaxUsedGas/q), witness())
		}
		// ---- exact settlement from the gas-change events ----------------------------------
		var (
			pre, refund, leftReturned  uint64
			haveRefundEv, floorApplied bool
		)
		for _, g := range ev.gas {
			switch g.reason {
			case tracing.GasChangeTxRefunds:
				haveRefundEv = true
				pre = gas - g.old.Execution
				refund = g.new.Execution - g.old.Execution
			case tracing.GasChangeTxDataFloor:
				floorApplied = true
			case tracing.GasChangeTxLeftOverReturned:
				leftReturned = g.old.Execution
			}
		}
		if !haveRefundEv {
			r.Violation("tx:no-refund-event", "no GasChangeTxRefunds event for an applied transaction", witness())
		} else {
			wantRefund := min(pre/q, refundCounter)
			if refund != wantRefund {
				r.Violation("tx:refund-amount", fmt.Sprintf("refund %d, want min(usage %d / %d, counter %d) = %d", refund, pre, q, refundCounter, wantRefund), witness())
			}
			if refund > pre/q {
				r.Violation("tx:refund-cap", fmt.Sprintf("refund %d exceeds pre-refund usage %d / %d", refund, pre, q), witness())
			}
			wantUsed := pre - refund
			if rules.IsPrague && wantUsed < floor {
				wantUsed = floor
			}
			if res.UsedGas != wantUsed {
				r.Violation("tx:used-gas-formula", fmt.Sprintf("UsedGas %d, want max(usage %d - refund %d, floor %d) = %d", res.UsedGas, pre, refund, floor, wantUsed), witness())
			}
			if wantPeak := max(pre, map[bool]uint64{true: floor}[rules.IsPrague && pre-refund < floor]); res.MaxUsedGas != wantPeak {
				r.Violation("tx:peak-gas-formula", fmt.Sprintf("MaxUsedGas %d, want %d (usage %d, floor %d)", res.MaxUsedGas, wantPeak, pre, floor), witness())
			}
			if leftReturned != gas-res.UsedGas {
				r.Violation("tx:leftover", fmt.Sprintf("gas returned %d != GasLimit %d - UsedGas %d", leftReturned, gas, res.UsedGas), witness())
			}
			if pre < intrinsic {
				r.Violation("tx:usage-below-intrinsic", fmt.Sprintf("pre-refund usage %d below intrinsic gas %d", pre, intrinsic), witness())
			}
			if refund > 0 {
				if refund < refundCounter {
					r.Count("tx_refund_capped", 1)
				} else {
					r.Count("tx_refund_uncapped", 1)
				}
				if !rules.IsLondon {
					r.Count("tx_pre_london_refund", 1)
				}
			}
			if floorApplied {
				r.Count("tx_floor_applied", 1)
			}
		}
		// ---- ether side ----------------------------------------------------------------------
		price256 := msg.GasPrice.ToBig()
		blobFee := new(big.Int)
		if len(blobHashes) > 0 {
			blobFee.Mul(big.NewInt(int64(len(blobHashes)*params.BlobTxBlobGasPerBlob)), blockCtx.BlobBaseFee)
		}
		wantBuy := new(big.Int).Mul(new(big.Int).SetUint64(gas), price256)
		wantBuy.Add(wantBuy, blobFee)
		if got := new(big.Int).Neg(ev.sum(s.addr, tracing.BalanceDecreaseGasBuy)); got.Cmp(wantBuy) != 0 {
			r.Violation("tx:gas-buy", fmt.Sprintf("sender debited %v for gas, want GasLimit*price + blob fee = %v", got, wantBuy), witness())
		}
		wantReturn := new(big.Int).Mul(new(big.Int).SetUint64(gas-res.UsedGas), price256)
		if got := ev.sum(s.addr, tracing.BalanceIncreaseGasReturn); got.Cmp(wantReturn) != 0 {
			r.Violation("tx:gas-return", fmt.Sprintf("sender got back %v, want (GasLimit-UsedGas)*price = %v", got, wantReturn), witness())
		}
		tipPer := new(big.Int).Set(price256)
		if rules.IsLondon {
			tipPer.Sub(tipPer, baseFee)
		}
		wantFee := new(big.Int).Mul(new(big.Int).SetUint64(res.UsedGas), tipPer)
		if got := ev.sum(w.Coinbase, tracing.BalanceIncreaseRewardTransactionFee); got.Cmp(wantFee) != 0 {
			r.Violation("tx:fee-payment", fmt.Sprintf("fee recipient got %v, want UsedGas*tip = %v", got, wantFee), witness())
		}
		// ---- pool ------------------------------------------------------------------------------
		sumUsed += res.UsedGas
		if gp.CumulativeUsed() != sumUsed {
			r.Violation("tx:pool-cumulative", fmt.Sprintf("CumulativeUsed %d != sum of UsedGas %d", gp.CumulativeUsed(), sumUsed), witness())
		}
		stateSig := ""
		if amster {
			dExec := gp.CumulativeExecution() - before.CumulativeExecution()
			dState := gp.CumulativeState() - before.CumulativeState()
			if dExec > min(gas, params.MaxTxGas) || dState > gas {
				r.Violation("tx:pool-reservation-exceeded", fmt.Sprintf("contribution exec %d state %d exceeds reservation exec %d state %d", dExec, dState, min(gas, params.MaxTxGas), gas), witness())
			}
			if gp.CumulativeExecution() > header.GasLimit || gp.CumulativeState() > header.GasLimit || gp.Used() > header.GasLimit {
				r.Violation("tx:pool-limit", fmt.Sprintf("pool beyond the block gas limit %d: %s", header.GasLimit, poolString(gp)), witness())
			}
			if gp.Used() != max(gp.CumulativeExecution(), gp.CumulativeState()) {
				r.Violation("tx:pool-used", fmt.Sprintf("Used() %d != max of the dimensions: %s", gp.Used(), poolString(gp)), witness())
			}
			if haveRefundEv {
				// tx_execution_gas = max(usage - tx_state_gas, floor)
				if want := max(pre-dState, floor); pre < dState || dExec != want {
					r.Violation("tx:pool-dimensions", fmt.Sprintf("execution contribution %d, want max(usage %d - state %d, floor %d)", dExec, pre, dState, floor), witness())
				}
			}
			if dState > 0 {
				r.Count("tx_state_gas_used", 1)
				stateSig = "/state"
				reservoir := uint64(0)
				if gas-intrinsic > params.MaxTxGas-intrinsic {
					reservoir = gas - params.MaxTxGas
				}
				if dState > reservoir {
					r.Count("tx_state_gas_spilled", 1)
					stateSig = "/state-spill"
				}
				if reservoir > 0 {
					r.Count("tx_with_reservoir", 1)
					stateSig += "/reservoir"
				}
			}
		} else {
			if gp.Used() != sumUsed || gp.Gas() != header.GasLimit-sumUsed {
				r.Violation("tx:pool-legacy", fmt.Sprintf("pool %s but sum of UsedGas is %d (limit %d)", poolString(gp), sumUsed, header.GasLimit), witness())
			}
			if gp.Used() > header.GasLimit {
				r.Violation("tx:pool-limit", fmt.Sprintf("pool beyond the block gas limit %d: %s", header.GasLimit, poolString(gp)), witness())
			}
		}
		// finalise like ApplyTransactionWithEVM
		if rules.IsByzantium {
			hooked.Finalise(rules)
		} else {
			statedb.IntermediateRoot(rules)
		}
		outcome := "ok"
		switch {
		case res.Err == nil:
		case errors.Is(res.Err, vm.ErrExecutionReverted):
			outcome = "revert"
		default:
			outcome = "halt"
		}
		r.Count("tx_outcome_"+kind+"_"+outcome, 1)
		sig := fmt.Sprintf("tx/%s/%s/t%d/%s%s", forkName, kind, txType, outcome, stateSig)
		if refund > 0 {
			sig += map[bool]string{true: "/refund-capped", false: "/refund"}[refund < refundCounter]
		}
		if floorApplied {
			sig += "/floor"
		}
		r.Eval(sig)
		if idx < 3 && j == 0 && r.WantSample() {
			r.Sample(map[string]any{"family": "transaction", "tx": desc, "pool_after": poolString(gp), "refund": refund, "refund_counter": refundCounter, "program_features": uint32(progFeat)})
		}
	}
}

func new1(b *big.Int) *big.Int {
	if b == nil {
		return new(big.Int)
	}
	return new(big.Int).Set(b)
}

func samePool(a, b *core.GasPool) bool {
	return a.Gas() == b.Gas() && a.CumulativeUsed() == b.CumulativeUsed() && a.CumulativeExecution() == b.CumulativeExecution() && a.CumulativeState() == b.CumulativeState()
}

func poolString(g *core.GasPool) string {
	return fmt.Sprintf("{remaining %d used %d exec %d state %d}", g.Gas(), g.CumulativeUsed(), g.CumulativeExecution(), g.CumulativeState())
}

func errClass(err error) string {
	for _, e := range []error{core.ErrGasLimitReached, core.ErrIntrinsicGas, core.ErrFloorDataGas, core.ErrGasLimitTooHigh, core.ErrInsufficientFunds, core.ErrInsufficientFundsForTransfer, core.ErrNonceTooHigh, core.ErrNonceTooLow, core.ErrFeeCapTooLow} {
		if errors.Is(err, e) {
			return e.Error()
		}
	}
	return "other"
}
