// C15: block access lists (EIP-7928) record exactly the net state changes.
//
// Part A (construction): Amsterdam-rule histories from the C13 generator (biased towards
// change-and-restore) run in lock-step on StateDB and the reference account model. After every
// transaction the list returned by Finalise is compared with the model's pre/post states of
// that transaction and with the harness's record of which accounts / slots the issued
// operations referenced. The per-transaction lists are merged per block; the merged list's
// encoding object must be strictly sorted, pass Validate, be byte-identical to the canonical
// encoding computed with refrlp from the model-derived expectation, round-trip through RLP,
// have a stable hash, and answer Lookup queries like a naive scan.
//
// Part B (encoding): random valid lists (0-40 accounts) built with refrlp must decode, validate,
// re-encode identically and hash to keccak(bytes); the same content inserted in random order
// through the construction API must produce the same bytes; one-edit invalid lists must be
// rejected by decode or Validate; boundary-valid lists (index n+1, code of exactly the maximum
// size, item count exactly at the limit) must be accepted.
package main

import (
	"bytes"
	"fmt"
	"math/big"
	"math/rand"
	"os"
	"runtime/debug"
	"runtime/pprof"
	"sort"
	"strings"
	"time"

	"github.com/ethereum/go-ethereum/common"
	"github.com/ethereum/go-ethereum/core/types/bal"
	"github.com/ethereum/go-ethereum/rlp"
	"github.com/holiman/uint256"

	am "verif/lib/acctmodel"
	"verif/lib/refmpt"
	sd "verif/lib/sdbdrive"
	"verif/lib/vrt"
)

func main() { vrt.Main("C15", run) }

const bigGas = uint64(1) << 40

// ---------------------------------------------------------------- part A

type expAcc struct {
	writes map[[32]byte]map[uint32][32]byte
	reads  map[[32]byte]bool
	bal    map[uint32][32]byte
	nonce  map[uint32]uint64
	code   map[uint32][]byte
}

func newExpAcc() *expAcc {
	return &expAcc{writes: map[[32]byte]map[uint32][32]byte{}, reads: map[[32]byte]bool{}, bal: map[uint32][32]byte{}, nonce: map[uint32]uint64{}, code: map[uint32][]byte{}}
}

type blockRun struct {
	r       *vrt.Run
	fail    *sd.Failure
	exp     map[[20]byte]*expAcc
	merged  *bal.ConstructionBlockAccessList
	counts  map[string]int
	shapes  map[string]bool
	ops     []sd.Op
	windows int
}

func (b *blockRun) failf(fp, format string, a ...any) {
	if b.fail == nil {
		b.fail = &sd.Failure{FP: fp, Msg: fmt.Sprintf(format, a...), At: len(b.ops)}
	}
}

func balOf(a *am.Account) *big.Int {
	if a == nil {
		return new(big.Int)
	}
	return a.Balance
}
func nonceOf(a *am.Account) uint64 {
	if a == nil {
		return 0
	}
	return a.Nonce
}
func codeOf(a *am.Account) []byte {
	if a == nil {
		return nil
	}
	return a.Code
}
func slotOf(a *am.Account, k am.Hash) am.Hash {
	if a == nil {
		return am.Hash{}
	}
	return a.Storage[k]
}

// onTxEnd judges the list of one transaction and accumulates the block-level expectation.
func (b *blockRun) onTxEnd(p *sd.Pair, pre map[am.Address]*am.Account, idx uint32, refs *sd.TxRefs, list *bal.ConstructionBlockAccessList) {
	b.windows++
	if list == nil {
		b.failf("construct:nil-list", "Finalise under Amsterdam rules returned a nil access list for index %d", idx)
		return
	}
	for a := range list.Accounts {
		known := false
		for _, u := range sd.Addrs {
			known = known || u == a
		}
		if !known || !refs.Any[a] {
			b.failf("construct:unreferenced-account", "index %d: account %x is listed but no operation of this transaction referenced it", idx, a)
			return
		}
	}
	for _, a := range sd.Addrs {
		ma := sd.MA(a)
		pa, qa := pre[ma], p.M.Accounts[ma]
		acc := list.Accounts[a]
		balCh := balOf(pa).Cmp(balOf(qa)) != 0
		nonceCh := nonceOf(pa) != nonceOf(qa)
		codeCh := !bytes.Equal(codeOf(pa), codeOf(qa))
		var slotCh []common.Hash
		for _, k := range sd.Slots {
			if slotOf(pa, sd.MH(k)) != slotOf(qa, sd.MH(k)) {
				slotCh = append(slotCh, k)
			}
		}
		changed := balCh || nonceCh || codeCh || len(slotCh) > 0
		b.counts["accounts_judged"]++
		if acc == nil {
			if changed {
				b.failf("construct:changed-account-missing", "index %d: account %x changed (balance %v nonce %v code %v slots %d) but is not listed", idx, a, balCh, nonceCh, codeCh, len(slotCh))
				return
			}
			if refs.State[a] {
				b.failf("construct:accessed-account-missing", "index %d: account %x was accessed by an operation but is not listed", idx, a)
				return
			}
			continue
		}
		if !refs.State[a] && !changed {
			b.failf("construct:warm-only-account-listed", "index %d: account %x is listed although its state was neither accessed nor changed", idx, a)
			return
		}
		e := b.exp[a]
		if e == nil {
			e = newExpAcc()
			b.exp[a] = e
		}
		// balance
		for i := range acc.BalanceChanges {
			if i != idx {
				b.failf("construct:foreign-index", "index %d: account %x carries a balance change for index %d", idx, a, i)
				return
			}
		}
		got, has := acc.BalanceChanges[idx]
		switch {
		case balCh && !has:
			b.failf("construct:balance-change-missing", "index %d: balance of %x changed %v -> %v but no balance change is recorded", idx, a, balOf(pa), balOf(qa))
			return
		case !balCh && has:
			b.failf("construct:balance-change-spurious", "index %d: balance of %x is %v before and after the transaction but a balance change (%v) is recorded", idx, a, balOf(pa), got)
			return
		case has && got.ToBig().Cmp(balOf(qa)) != 0:
			b.failf("construct:balance-change-value", "index %d: balance change of %x records %v, post-transaction balance is %v", idx, a, got, balOf(qa))
			return
		}
		if balCh {
			e.bal[idx] = b32(balOf(qa))
			b.counts["changes.balance"]++
		}
		// nonce
		for i := range acc.NonceChanges {
			if i != idx {
				b.failf("construct:foreign-index", "index %d: account %x carries a nonce change for index %d", idx, a, i)
				return
			}
		}
		gn, hasN := acc.NonceChanges[idx]
		switch {
		case nonceCh && !hasN:
			b.failf("construct:nonce-change-missing", "index %d: nonce of %x changed %d -> %d but no nonce change is recorded", idx, a, nonceOf(pa), nonceOf(qa))
			return
		case !nonceCh && hasN:
			b.failf("construct:nonce-change-spurious", "index %d: nonce of %x is %d before and after the transaction but a nonce change (%d) is recorded", idx, a, nonceOf(pa), gn)
			return
		case hasN && gn != nonceOf(qa):
			b.failf("construct:nonce-change-value", "index %d: nonce change of %x records %d, post-transaction nonce is %d", idx, a, gn, nonceOf(qa))
			return
		}
		if nonceCh {
			e.nonce[idx] = nonceOf(qa)
			b.counts["changes.nonce"]++
		}
		// code
		for i := range acc.CodeChange {
			if i != idx {
				b.failf("construct:foreign-index", "index %d: account %x carries a code change for index %d", idx, a, i)
				return
			}
		}
		gc, hasC := acc.CodeChange[idx]
		switch {
		case codeCh && !hasC:
			b.failf("construct:code-change-missing", "index %d: code of %x changed %x -> %x but no code change is recorded", idx, a, codeOf(pa), codeOf(qa))
			return
		case !codeCh && hasC:
			b.failf("construct:code-change-spurious", "index %d: code of %x is unchanged (%x) but a code change (%x) is recorded", idx, a, codeOf(pa), gc)
			return
		case hasC && !bytes.Equal(gc, codeOf(qa)):
			b.failf("construct:code-change-value", "index %d: code change of %x records %x, post-transaction code is %x", idx, a, gc, codeOf(qa))
			return
		}
		if codeCh {
			e.code[idx] = append([]byte(nil), codeOf(qa)...)
			b.counts["changes.code"]++
		}
		// storage
		for k, m := range acc.StorageWrites {
			inU := false
			for _, u := range sd.Slots {
				inU = inU || u == k
			}
			if !inU {
				b.failf("construct:foreign-slot", "index %d: account %x lists a write to slot %x which no operation referenced", idx, a, k)
				return
			}
			for i := range m {
				if i != idx {
					b.failf("construct:foreign-index", "index %d: account %x slot %x carries a write for index %d", idx, a, k, i)
					return
				}
			}
		}
		for k := range acc.StorageReads {
			if !refs.Slots[a][k] {
				b.failf("construct:unreferenced-slot-read", "index %d: account %x lists a read of slot %x which no operation referenced", idx, a, k)
				return
			}
		}
		for _, k := range sd.Slots {
			pv, qv := slotOf(pa, sd.MH(k)), slotOf(qa, sd.MH(k))
			w, hasW := acc.StorageWrites[k][idx]
			_, hasR := acc.StorageReads[k]
			b.counts["slots_judged"]++
			switch {
			case pv != qv && !hasW:
				b.failf("construct:storage-write-missing", "index %d: slot %x/%x changed %x -> %x but no write is recorded", idx, a, k, pv, qv)
				return
			case pv != qv && w != common.Hash(qv):
				b.failf("construct:storage-write-value", "index %d: write to %x/%x records %x, post-transaction value is %x", idx, a, k, w, qv)
				return
			case pv != qv && hasR:
				b.failf("construct:storage-written-slot-in-reads", "index %d: slot %x/%x was changed but is also listed as read", idx, a, k)
				return
			case pv == qv && hasW:
				b.failf("construct:storage-write-spurious", "index %d: slot %x/%x has value %x before and after the transaction but a write (%x) is recorded", idx, a, k, pv, w)
				return
			case pv == qv && refs.Slots[a][k] && !hasR:
				b.failf("construct:storage-read-missing", "index %d: slot %x/%x was referenced and left unchanged but is not listed as read", idx, a, k)
				return
			}
			if pv != qv {
				if e.writes[k] == nil {
					e.writes[k] = map[uint32][32]byte{}
				}
				e.writes[k][idx] = qv
				delete(e.reads, k)
				b.counts["changes.storage"]++
				if refs.Slots[a][k] && p.Stats["op.SetState.restore"] > 0 {
					b.shapes["restore"] = true
				}
			} else if refs.Slots[a][k] {
				if len(e.writes[k]) == 0 {
					e.reads[k] = true
				}
				b.counts["reads.storage"]++
			}
		}
		if !changed && (p.Stats["op.AddBalance"] > 0) {
			b.counts["accounts_listed_unchanged"]++
		}
	}
	b.merged.Merge(list)
	b.counts["tx_lists_judged"]++
}

func (b *blockRun) expectedList() List {
	var l List
	for a, e := range b.exp {
		acc := Acc{Addr: a}
		for k, m := range e.writes {
			w := SW{Slot: k}
			for i, v := range m {
				w.Ch = append(w.Ch, IV{i, v})
			}
			acc.Writes = append(acc.Writes, w)
		}
		for k := range e.reads {
			acc.Reads = append(acc.Reads, k)
		}
		for i, v := range e.bal {
			acc.Bal = append(acc.Bal, IV{i, v})
		}
		for i, v := range e.nonce {
			acc.Nonce = append(acc.Nonce, IN{i, v})
		}
		for i, v := range e.code {
			acc.Code = append(acc.Code, IC{i, v})
		}
		l = append(l, acc)
	}
	return l.Canon()
}

// checkEncoded runs the encoding-level oracles on a geth encoding object that is expected to
// encode to want (the canonical bytes of l) for a block of ntx transactions.
func checkEncoded(fail func(fp, format string, a ...any), counts map[string]int, enc *bal.BlockAccessList, l List, want []byte, ntx int, gas uint64, rng *rand.Rand) {
	got, err := rlp.EncodeToBytes(enc)
	if err != nil {
		fail("encode:error", "EncodeRLP failed: %v", err)
		return
	}
	if !bytes.Equal(got, want) {
		fail("encode:bytes-differ-from-canonical", "encoding differs from the canonical encoding of the expected content\n got  %x\n want %x", clip(got), clip(want))
		return
	}
	// strictly sorted / duplicate free (checked on the object itself, independent of the bytes)
	e := *enc
	for i := range e {
		if i > 0 && bytes.Compare(e[i-1].Address[:], e[i].Address[:]) >= 0 {
			fail("encode:accounts-not-strictly-sorted", "accounts %x, %x out of order", e[i-1].Address, e[i].Address)
			return
		}
		sc := e[i].StorageChanges
		for j := range sc {
			if j > 0 && sc[j-1].Slot.Cmp(sc[j].Slot) >= 0 {
				fail("encode:write-slots-not-strictly-sorted", "account %x", e[i].Address)
				return
			}
			for k := 1; k < len(sc[j].SlotChanges); k++ {
				if sc[j].SlotChanges[k-1].BlockAccessIndex >= sc[j].SlotChanges[k].BlockAccessIndex {
					fail("encode:slot-changes-not-strictly-sorted", "account %x", e[i].Address)
					return
				}
			}
		}
		for j := 1; j < len(e[i].StorageReads); j++ {
			if e[i].StorageReads[j-1].Cmp(e[i].StorageReads[j]) >= 0 {
				fail("encode:read-slots-not-strictly-sorted", "account %x", e[i].Address)
				return
			}
		}
		for j := 1; j < len(e[i].BalanceChanges); j++ {
			if e[i].BalanceChanges[j-1].BlockAccessIndex >= e[i].BalanceChanges[j].BlockAccessIndex {
				fail("encode:balance-changes-not-strictly-sorted", "account %x", e[i].Address)
				return
			}
		}
		for j := 1; j < len(e[i].NonceChanges); j++ {
			if e[i].NonceChanges[j-1].BlockAccessIndex >= e[i].NonceChanges[j].BlockAccessIndex {
				fail("encode:nonce-changes-not-strictly-sorted", "account %x", e[i].Address)
				return
			}
		}
		for j := 1; j < len(e[i].CodeChanges); j++ {
			if e[i].CodeChanges[j-1].BlockAccessIndex >= e[i].CodeChanges[j].BlockAccessIndex {
				fail("encode:code-changes-not-strictly-sorted", "account %x", e[i].Address)
				return
			}
		}
	}
	if err := enc.Validate(gas, ntx); err != nil {
		fail("validate:rejects-valid", "Validate(gas=%d, txs=%d) rejected a valid list: %v", gas, ntx, err)
		return
	}
	wantHash := common.BytesToHash(refmpt.Keccak(want))
	if h := enc.Hash(); h != wantHash {
		fail("hash:differs-from-keccak-of-canonical", "Hash() = %x, keccak(canonical encoding) = %x", h, wantHash)
		return
	}
	var dec bal.BlockAccessList
	if err := rlp.DecodeBytes(want, &dec); err != nil {
		fail("decode:rejects-valid", "decoding the canonical encoding failed: %v", err)
		return
	}
	re, err := rlp.EncodeToBytes(&dec)
	if err != nil || !bytes.Equal(re, want) {
		fail("roundtrip:decode-encode-differs", "encode(decode(x)) != x (err %v)\n got  %x\n want %x", err, clip(re), clip(want))
		return
	}
	if h := dec.Hash(); h != wantHash {
		fail("hash:decoded-form-differs", "Hash() of the decoded form = %x, want %x", h, wantHash)
		return
	}
	if err := dec.Validate(gas, ntx); err != nil {
		fail("validate:rejects-valid-decoded", "Validate rejected the decoded valid list: %v", err)
		return
	}
	if c := dec.Copy(); c != nil {
		if cb, _ := rlp.EncodeToBytes(c); !bytes.Equal(cb, want) {
			fail("copy:encoding-differs", "Copy() of the decoded list encodes differently")
			return
		}
	}
	counts["encodings_checked"]++
	// Lookup against the naive scan
	lk := dec.Lookup()
	var addrs [][20]byte
	for _, a := range l {
		addrs = append(addrs, a.Addr)
	}
	addrs = append(addrs, [20]byte{0xde, 0xad})
	for q := 0; q < 12; q++ {
		addr := addrs[rng.Intn(len(addrs))]
		limit := uint32(rng.Intn(ntx + 4))
		acc := l.find(addr)
		gb, gn, gc, hb, hn, hc := lk.AccountChanges(common.Address(addr), limit)
		var wb [32]byte
		var wn uint64
		var wc []byte
		var eb, en, ec bool
		if acc != nil {
			wb, eb = latestIV(acc.Bal, limit)
			wn, en = acc.latestNonce(limit)
			wc, ec = acc.latestCode(limit)
		}
		counts["lookups"]++
		if hb != eb || hn != en || hc != ec || (eb && gb.Bytes32() != wb) || (en && gn != wn) || (ec && !bytes.Equal(gc, wc)) {
			fail("lookup:AccountChanges", "AccountChanges(%x, %d) = (%v,%d,%x,%v,%v,%v), naive scan (%x,%d,%x,%v,%v,%v)", addr, limit, gb, gn, clip(gc), hb, hn, hc, wb, wn, clip(wc), eb, en, ec)
			return
		}
		if c2, h2 := lk.Code(common.Address(addr), limit); h2 != ec || (ec && !bytes.Equal(c2, wc)) {
			fail("lookup:Code", "Code(%x, %d) disagrees with the naive scan", addr, limit)
			return
		}
		var slot [32]byte
		if acc != nil && len(acc.Writes) > 0 && rng.Intn(4) != 0 {
			slot = acc.Writes[rng.Intn(len(acc.Writes))].Slot
		} else {
			slot = randWord(rng)
		}
		var ws [32]byte
		var es bool
		if acc != nil {
			for _, w := range acc.Writes {
				if w.Slot == slot {
					ws, es = latestIV(w.Ch, limit)
				}
			}
		}
		gs, hs := lk.Storage(common.Address(addr), common.Hash(slot), limit)
		counts["lookups"]++
		if hs != es || (es && gs != common.Hash(ws)) {
			fail("lookup:Storage", "Storage(%x, %x, %d) = (%x,%v), naive scan (%x,%v)", addr, slot, limit, gs, hs, ws, es)
			return
		}
	}
}

func clip(b []byte) []byte {
	if len(b) > 600 {
		return b[:600]
	}
	return b
}

func runBlock(r *vrt.Run, i int) {
	rng := r.Rand("block", i)
	f := sd.ForkByName("Amsterdam")
	kind := rng.Intn(sd.NDBKinds)
	var genesis []sd.GenesisAccount
	if rng.Intn(4) != 0 {
		genesis = sd.GenGenesis(f, rng)
	}
	r.Case("block %d db=%d genesis=%d", i, kind, len(genesis))
	b := &blockRun{r: r, exp: map[[20]byte]*expAcc{}, merged: bal.NewConstructionBlockAccessList(), counts: map[string]int{}, shapes: map[string]bool{}}
	var p *sd.Pair
	ntx := 1 + rng.Intn(12)
	func() {
		env := sd.NewEnv(kind)
		defer env.Close()
		defer func() {
			if e := recover(); e != nil {
				st := string(debug.Stack())
				if len(st) > 2500 {
					st = st[:2500]
				}
				b.fail = &sd.Failure{FP: "panic:" + vrt.PanicSite(st), Msg: fmt.Sprintf("panic: %v\n%s", e, st)}
			}
		}()
		var fail *sd.Failure
		p, fail = env.Start(f, genesis)
		if fail != nil {
			b.fail = fail
			return
		}
		p.OnTxEnd = b.onTxEnd
		for t := 0; t < ntx && p.Err == nil && b.fail == nil; t++ {
			cfg := sd.GenCfg{ReadLevel: rng.Intn(2), Restore: true, EndIRootPct: 15}
			b.ops = sd.GenTx(p, rng, 3+rng.Intn(18), cfg, b.ops)
		}
		if b.fail == nil && p.Err != nil {
			b.fail = p.Err
		}
		if b.fail != nil {
			return
		}
		// block level
		exp := b.expectedList()
		want := exp.Encode()
		enc := b.merged.ToEncodingObj()
		// Validate against the tightest transaction count (max index == n+1 must be accepted)
		n := int(exp.MaxIdx()) - 1
		if n < 0 {
			n = 0
		}
		checkEncoded(b.failf, b.counts, enc, exp, want, n, bigGas, rng)
		if b.fail != nil {
			return
		}
		// the construction form encodes itself identically, and so does its deep copy
		var buf bytes.Buffer
		if err := b.merged.EncodeRLP(&buf); err != nil || !bytes.Equal(buf.Bytes(), want) {
			b.failf("encode:construction-form-differs", "ConstructionBlockAccessList.EncodeRLP differs from the canonical encoding (err %v)", err)
			return
		}
		if cb, _ := rlp.EncodeToBytes(b.merged.Copy().ToEncodingObj()); !bytes.Equal(cb, want) {
			b.failf("copy:construction-copy-differs", "Copy() of the construction list encodes differently")
			return
		}
		// one transaction fewer than the highest used index requires: must be rejected
		if m := exp.MaxIdx(); m >= 2 {
			if err := enc.Validate(bigGas, int(m)-2); err == nil {
				b.failf("validate:accepts-index-over", "Validate(txs=%d) accepted a list whose highest block access index is %d", int(m)-2, m)
				return
			}
			b.counts["validate.index_over_rejected"]++
		}
	}()
	if b.fail != nil {
		tail := b.ops
		if len(tail) > 300 {
			tail = tail[len(tail)-300:]
		}
		r.Violation(b.fail.FP, b.fail.Msg, map[string]any{"replay": fmt.Sprintf("VERIF_SEED=%d, block index %d", r.Seed, i), "db": sd.DBKindNames[kind], "genesis": genesis, "failure": b.fail, "ops_tail": tail,
			"universe": map[string]any{"addrs": sd.Addrs, "slots": sd.Slots, "vals": sd.Vals, "amounts": sd.Amounts}})
		r.Eval("fail/construct")
		return
	}
	for k, v := range b.counts {
		r.Count(k, v)
	}
	for k, v := range p.Stats {
		if strings.HasPrefix(k, "op.") {
			r.Count(k, v)
		}
	}
	pats := []string{}
	if p.Stats["op.SetState.restore"] > 0 {
		pats = append(pats, "sstore-restore")
		r.Count("block.with_sstore_restore", 1)
	}
	if b.counts["accounts_listed_unchanged"] > 0 {
		pats = append(pats, "listed-unchanged")
	}
	if p.Stats["op.Revert"] > 0 {
		pats = append(pats, "revert")
	}
	if p.RevertedCreate {
		pats = append(pats, "reverted-create")
		r.Count("block.with_reverted_create", 1)
	}
	if len(p.DestructKinds) > 0 {
		pats = append(pats, "selfdestruct")
		r.Count("block.with_selfdestruct", 1)
	}
	sort.Strings(pats)
	r.Eval(fmt.Sprintf("construct/tx%d/depth%d/%s", (ntx+2)/3, min(p.MaxDepth(), 3), strings.Join(pats, "+")))
	if r.WantSample() && i%13 == 0 {
		ops := b.ops
		if len(ops) > 30 {
			ops = ops[:30]
		}
		r.Sample(map[string]any{"block": i, "txs": ntx, "genesis": genesis, "first_ops": ops, "merged_list": b.merged.PrettyPrint()})
	}
}

// ---------------------------------------------------------------- part B

func toConstruction(l List, rng *rand.Rand) *bal.ConstructionBlockAccessList {
	c := bal.NewConstructionBlockAccessList()
	type step func()
	var steps []step
	for _, a := range l {
		a := a
		addr := common.Address(a.Addr)
		steps = append(steps, func() { c.AccountRead(addr) })
		for _, w := range a.Writes {
			w := w
			// a read before the write must be dropped by the write
			if rng.Intn(2) == 0 {
				steps = append(steps, func() { c.StorageRead(addr, common.Hash(w.Slot)) })
			}
			for _, ch := range w.Ch {
				ch := ch
				steps = append(steps, func() { c.StorageWrite(ch.Idx, addr, common.Hash(w.Slot), common.Hash(ch.Val)) })
			}
		}
		for _, s := range a.Reads {
			s := s
			steps = append(steps, func() { c.StorageRead(addr, common.Hash(s)) })
			if rng.Intn(3) == 0 {
				steps = append(steps, func() { c.StorageRead(addr, common.Hash(s)) })
			}
		}
		for _, x := range a.Bal {
			x := x
			steps = append(steps, func() { c.BalanceChange(x.Idx, addr, new(uint256.Int).SetBytes(x.Val[:])) })
		}
		for _, x := range a.Nonce {
			x := x
			steps = append(steps, func() { c.NonceChange(addr, x.Idx, x.Nonce) })
		}
		for _, x := range a.Code {
			x := x
			steps = append(steps, func() { c.CodeChange(addr, x.Idx, x.Code) })
		}
	}
	// Random order, except that a read of a written slot issued AFTER the write is ignored by
	// the construction API as well (StorageRead returns early) - so any order is valid.
	rng.Shuffle(len(steps), func(i, j int) { steps[i], steps[j] = steps[j], steps[i] })
	for _, s := range steps {
		s()
	}
	return c
}

func runEncoding(r *vrt.Run, i int) {
	rng := r.Rand("enc", i)
	ntx := rng.Intn(30)
	big := i%500 == 499
	l := GenList(rng, ntx, big)
	want := l.Encode()
	r.Case("enc %d accounts=%d bytes=%d", i, len(l), len(want))
	counts := map[string]int{}
	var fail *sd.Failure
	failf := func(fp, format string, a ...any) {
		if fail == nil {
			fail = &sd.Failure{FP: fp, Msg: fmt.Sprintf(format, a...)}
		}
	}
	edit := ""
	func() {
		defer func() {
			if e := recover(); e != nil {
				st := string(debug.Stack())
				if len(st) > 2500 {
					st = st[:2500]
				}
				fail = &sd.Failure{FP: "panic:" + vrt.PanicSite(st), Msg: fmt.Sprintf("panic: %v\n%s", e, st)}
			}
		}()
		// through the construction API in random order
		enc := toConstruction(l, rng).ToEncodingObj()
		// gas limit exactly at the item limit: must be accepted
		gas := l.Items() * 2000
		if l.Items() == 0 {
			gas = 0
		}
		checkEncoded(failf, counts, enc, l, want, ntx, gas, rng)
		if fail != nil {
			return
		}
		// one-edit invalid list
		el, label, ok := Edit(l, rng, ntx)
		if !ok {
			return
		}
		edit = label
		egas := bigGas
		if label == "too-many-items" {
			egas = el.Items()*2000 - 1
		}
		eb := el.Encode()
		var dec bal.BlockAccessList
		if err := rlp.DecodeBytes(eb, &dec); err != nil {
			counts["invalid.rejected_at_decode"]++
			return
		}
		if err := dec.Validate(egas, ntx); err == nil {
			failf("validate:accepts-invalid:"+label, "Validate(gas=%d, txs=%d) accepted a list with edit %q\n encoding %x", egas, ntx, label, clip(eb))
			return
		}
		counts["invalid.rejected_by_validate"]++
		counts["invalid."+label]++
	}()
	if fail != nil {
		r.Violation(fail.FP, fail.Msg, map[string]any{"replay": fmt.Sprintf("VERIF_SEED=%d, encoding index %d", r.Seed, i), "list": l, "canonical": vrt.Hex(clip(want)), "edit": edit})
		r.Eval("fail/enc")
		return
	}
	for k, v := range counts {
		r.Count(k, v)
	}
	if big {
		r.Count("valid.max_size_code", 1)
	}
	if len(l) == 0 {
		r.Eval("")
		return
	}
	r.Eval(fmt.Sprintf("enc/acc%d/edit-%s", min(len(l)/10, 3), edit))
}

func run(r *vrt.Run) {
	r.Rule("part A, block i: Amsterdam rules, database kind and start state drawn per block, 1-12 transactions of 3-20 ops from the C13 call-pattern generator with 25% change-and-restore bias (small symmetric transfers, slot toggles), nested frames with reverts, fork-specific SELFDESTRUCT, zero-value transfers; every transaction's list is judged, then the merged block list. non-trivial signature = (#tx bucket, max frame depth, set of patterns present: sstore-restore / listed-unchanged / revert / reverted-create / selfdestruct). part B, encoding i: random canonical list of 0-40 accounts (zero / tiny / full-width slots and values, indices 0..n+1, occasional maximum-size code), inserted in random order through the construction API, then one of 22 invalidating edits; signature = (size bucket, edit kind)")
	nb := r.N(3000, 200000)
	ne := r.N(30000, 3000000)
	if r.Race() {
		nb, ne = nb/6, ne/10
	}
	if pf := os.Getenv("VERIF_CPUPROF"); pf != "" {
		f, _ := os.Create(pf)
		pprof.StartCPUProfile(f)
		defer pprof.StopCPUProfile()
	}
	debug.SetGCPercent(400)
	t0 := time.Now()
	vrt.Par(nb, 0, func(i int) { runBlock(r, i) })
	r.Logf("part A: %d blocks in %.1fs", nb, time.Since(t0).Seconds())
	t0 = time.Now()
	vrt.Par(ne, 0, func(i int) { runEncoding(r, i) })
	r.Logf("part B: %d encodings in %.1fs", ne, time.Since(t0).Seconds())
	div := int64(1)
	if r.Race() {
		div = 8
	}
	r.Require("tx_lists_judged", 15000/div)
	r.Require("changes.balance", 5000/div)
	r.Require("changes.nonce", 3000/div)
	r.Require("changes.code", 500/div)
	r.Require("changes.storage", 3000/div)
	r.Require("reads.storage", 3000/div)
	r.Require("accounts_listed_unchanged", 1000/div)
	r.Require("block.with_sstore_restore", 200/div)
	r.Require("block.with_reverted_create", 200/div)
	r.Require("block.with_selfdestruct", 200/div)
	r.Require("validate.index_over_rejected", 1000/div)
	r.Require("encodings_checked", 25000/div)
	r.Require("lookups", 200000/div)
	r.Require("invalid.rejected_by_validate", 10000/div)
	r.Require("valid.max_size_code", 20/div)
	for _, k := range []string{"accounts-unsorted", "account-duplicated", "write-slots-unsorted", "write-slot-duplicated", "read-slots-unsorted", "read-slot-duplicated", "slot-read-and-written", "slot-changes-unsorted", "slot-change-index-duplicated", "slot-changes-empty", "slot-change-index-over", "balance-unsorted", "balance-index-duplicated", "balance-index-over", "nonce-unsorted", "nonce-index-duplicated", "nonce-index-over", "code-unsorted", "code-index-duplicated", "code-index-over", "code-oversized", "too-many-items"} {
		r.Require("invalid."+k, 20/div)
	}
	r.Assume("reference account model lib/acctmodel for pre/post states per transaction; harness-side record of the accounts/slots each issued operation referenced; canonical EIP-7928 encoding computed with lib/refrlp; histories restricted to interpreter-issued call patterns (lib/sdbdrive)")
	r.Assume("one Finalise window per block access index (pre/post-execution system calls sharing an index are not modelled); JSON encodings of the list are not judged")
}
