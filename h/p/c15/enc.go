package main

import (
	"bytes"
	"math/big"
	"math/rand"
	"sort"

	"verif/lib/refrlp"
)

// The harness's own representation of an EIP-7928 block access list, kept as slices in the
// order in which they are to be encoded (canonical order unless an "edit" broke it on purpose).

type IV struct {
	Idx uint32
	Val [32]byte // storage post value / balance, big-endian
}
type IN struct {
	Idx   uint32
	Nonce uint64
}
type IC struct {
	Idx  uint32
	Code []byte
}
type SW struct {
	Slot [32]byte
	Ch   []IV
}
type Acc struct {
	Addr   [20]byte
	Writes []SW
	Reads  [][32]byte
	Bal    []IV
	Nonce  []IN
	Code   []IC
}
type List []Acc

func trim(b []byte) []byte {
	for len(b) > 0 && b[0] == 0 {
		b = b[1:]
	}
	return b
}

func u256(b [32]byte) []byte { return refrlp.EncodeString(trim(b[:])) }

// Encode produces the RLP of the list exactly in slice order, following the EIP-7928 layout
// [address, storage_changes, storage_reads, balance_changes, nonce_changes, code_changes].
func (l List) Encode() []byte {
	accs := make([][]byte, len(l))
	for i, a := range l {
		var ws, rs, bs, ns, cs [][]byte
		for _, w := range a.Writes {
			var chs [][]byte
			for _, c := range w.Ch {
				chs = append(chs, refrlp.EncodeListRaw(refrlp.EncodeUint(uint64(c.Idx)), u256(c.Val)))
			}
			ws = append(ws, refrlp.EncodeListRaw(u256(w.Slot), refrlp.EncodeListRaw(chs...)))
		}
		for _, r := range a.Reads {
			rs = append(rs, u256(r))
		}
		for _, b := range a.Bal {
			bs = append(bs, refrlp.EncodeListRaw(refrlp.EncodeUint(uint64(b.Idx)), u256(b.Val)))
		}
		for _, n := range a.Nonce {
			ns = append(ns, refrlp.EncodeListRaw(refrlp.EncodeUint(uint64(n.Idx)), refrlp.EncodeUint(n.Nonce)))
		}
		for _, c := range a.Code {
			cs = append(cs, refrlp.EncodeListRaw(refrlp.EncodeUint(uint64(c.Idx)), refrlp.EncodeString(c.Code)))
		}
		accs[i] = refrlp.EncodeListRaw(refrlp.EncodeString(a.Addr[:]), refrlp.EncodeListRaw(ws...), refrlp.EncodeListRaw(rs...),
			refrlp.EncodeListRaw(bs...), refrlp.EncodeListRaw(ns...), refrlp.EncodeListRaw(cs...))
	}
	return refrlp.EncodeListRaw(accs...)
}

// Items is the EIP-7928 size measure: addresses + written slots + read slots.
func (l List) Items() uint64 {
	n := uint64(len(l))
	for _, a := range l {
		n += uint64(len(a.Writes) + len(a.Reads))
	}
	return n
}

// MaxIdx is the largest block access index used.
func (l List) MaxIdx() uint32 {
	var m uint32
	up := func(i uint32) {
		if i > m {
			m = i
		}
	}
	for _, a := range l {
		for _, w := range a.Writes {
			for _, c := range w.Ch {
				up(c.Idx)
			}
		}
		for _, b := range a.Bal {
			up(b.Idx)
		}
		for _, n := range a.Nonce {
			up(n.Idx)
		}
		for _, c := range a.Code {
			up(c.Idx)
		}
	}
	return m
}

func (l List) clone() List {
	out := make(List, len(l))
	for i, a := range l {
		c := Acc{Addr: a.Addr, Reads: append([][32]byte(nil), a.Reads...), Bal: append([]IV(nil), a.Bal...), Nonce: append([]IN(nil), a.Nonce...)}
		for _, w := range a.Writes {
			c.Writes = append(c.Writes, SW{w.Slot, append([]IV(nil), w.Ch...)})
		}
		for _, x := range a.Code {
			c.Code = append(c.Code, IC{x.Idx, append([]byte(nil), x.Code...)})
		}
		out[i] = c
	}
	return out
}

// Canon sorts everything into canonical order (used for expectations built from maps).
func (l List) Canon() List {
	sort.Slice(l, func(i, j int) bool { return bytes.Compare(l[i].Addr[:], l[j].Addr[:]) < 0 })
	for i := range l {
		a := &l[i]
		sort.Slice(a.Writes, func(x, y int) bool { return bytes.Compare(a.Writes[x].Slot[:], a.Writes[y].Slot[:]) < 0 })
		for k := range a.Writes {
			ch := a.Writes[k].Ch
			sort.Slice(ch, func(x, y int) bool { return ch[x].Idx < ch[y].Idx })
		}
		sort.Slice(a.Reads, func(x, y int) bool { return bytes.Compare(a.Reads[x][:], a.Reads[y][:]) < 0 })
		sort.Slice(a.Bal, func(x, y int) bool { return a.Bal[x].Idx < a.Bal[y].Idx })
		sort.Slice(a.Nonce, func(x, y int) bool { return a.Nonce[x].Idx < a.Nonce[y].Idx })
		sort.Slice(a.Code, func(x, y int) bool { return a.Code[x].Idx < a.Code[y].Idx })
	}
	return l
}

// ---- naive lookup ("latest entry with index < limit") ----

func (l List) find(addr [20]byte) *Acc {
	for i := range l {
		if l[i].Addr == addr {
			return &l[i]
		}
	}
	return nil
}

func latestIV(es []IV, limit uint32) (v [32]byte, ok bool) {
	best := -1
	for i, e := range es {
		if e.Idx < limit && (best < 0 || e.Idx > es[best].Idx) {
			best = i
		}
	}
	if best < 0 {
		return v, false
	}
	return es[best].Val, true
}

func (a *Acc) latestNonce(limit uint32) (uint64, bool) {
	best := -1
	for i, e := range a.Nonce {
		if e.Idx < limit && (best < 0 || e.Idx > a.Nonce[best].Idx) {
			best = i
		}
	}
	if best < 0 {
		return 0, false
	}
	return a.Nonce[best].Nonce, true
}

func (a *Acc) latestCode(limit uint32) ([]byte, bool) {
	best := -1
	for i, e := range a.Code {
		if e.Idx < limit && (best < 0 || e.Idx > a.Code[best].Idx) {
			best = i
		}
	}
	if best < 0 {
		return nil, false
	}
	return a.Code[best].Code, true
}

// ---- random valid lists ----

func b32(x *big.Int) (o [32]byte) { x.FillBytes(o[:]); return }

func randWord(rng *rand.Rand) (o [32]byte) {
	switch rng.Intn(6) {
	case 0: // zero
	case 1:
		o[31] = byte(1 + rng.Intn(255))
	case 2:
		o[31-rng.Intn(8)] = byte(1 + rng.Intn(255))
	case 3:
		rng.Read(o[:])
	case 4:
		rng.Read(o[16:])
	default:
		for i := range o {
			o[i] = 0xff
		}
	}
	return
}

// idxSet draws k distinct indices in [0, maxIdx], ascending.
func idxSet(rng *rand.Rand, k int, maxIdx uint32) []uint32 {
	m := map[uint32]bool{}
	for len(m) < k && len(m) <= int(maxIdx) {
		m[uint32(rng.Intn(int(maxIdx)+1))] = true
	}
	out := make([]uint32, 0, len(m))
	for i := range m {
		out = append(out, i)
	}
	sort.Slice(out, func(i, j int) bool { return out[i] < out[j] })
	return out
}

// GenList draws a valid canonical list for a block of ntx transactions (indices 0..ntx+1).
// bigCode allows one code entry of exactly the maximum size.
func GenList(rng *rand.Rand, ntx int, bigCode bool) List {
	maxIdx := uint32(ntx + 1)
	nacc := rng.Intn(41)
	seen := map[[20]byte]bool{}
	var l List
	for len(l) < nacc {
		var a Acc
		switch rng.Intn(4) {
		case 0:
			a.Addr[19] = byte(rng.Intn(20)) // precompile-like / zero address
		case 1:
			rng.Read(a.Addr[:])
			copy(a.Addr[:10], []byte{0xaa, 0xaa, 0xaa, 0xaa, 0xaa, 0xaa, 0xaa, 0xaa, 0xaa, 0xaa}) // long shared prefix
		default:
			rng.Read(a.Addr[:])
		}
		if seen[a.Addr] {
			continue
		}
		seen[a.Addr] = true
		slots := map[[32]byte]bool{}
		for n := rng.Intn(5) * rng.Intn(3); n > 0; n-- {
			s := randWord(rng)
			if slots[s] {
				continue
			}
			slots[s] = true
			w := SW{Slot: s}
			for _, i := range idxSet(rng, 1+rng.Intn(3), maxIdx) {
				w.Ch = append(w.Ch, IV{i, randWord(rng)})
			}
			a.Writes = append(a.Writes, w)
		}
		for n := rng.Intn(4) * rng.Intn(3); n > 0; n-- {
			s := randWord(rng)
			if slots[s] {
				continue
			}
			slots[s] = true
			a.Reads = append(a.Reads, s)
		}
		if rng.Intn(2) == 0 {
			for _, i := range idxSet(rng, 1+rng.Intn(3), maxIdx) {
				a.Bal = append(a.Bal, IV{i, randWord(rng)})
			}
		}
		if rng.Intn(3) == 0 {
			for _, i := range idxSet(rng, 1+rng.Intn(2), maxIdx) {
				n := rng.Uint64()
				if rng.Intn(3) == 0 {
					n = uint64(rng.Intn(3))
				}
				a.Nonce = append(a.Nonce, IN{i, n})
			}
		}
		if rng.Intn(4) == 0 {
			for _, i := range idxSet(rng, 1+rng.Intn(2), maxIdx) {
				sz := rng.Intn(60)
				if rng.Intn(4) == 0 {
					sz = rng.Intn(3)
				}
				if bigCode {
					sz = 65536
					bigCode = false
				}
				code := make([]byte, sz)
				rng.Read(code)
				a.Code = append(a.Code, IC{i, code})
			}
		}
		l = append(l, a)
	}
	return l.Canon()
}

// Edit applies one invalidating edit; it returns the edited list, a label and whether the edit
// was applicable. n is the transaction count the list is validated against.
func Edit(l List, rng *rand.Rand, ntx int) (List, string, bool) {
	l = l.clone()
	pick := func(pred func(a *Acc) bool) *Acc {
		var c []*Acc
		for i := range l {
			if pred(&l[i]) {
				c = append(c, &l[i])
			}
		}
		if len(c) == 0 {
			return nil
		}
		return c[rng.Intn(len(c))]
	}
	over := uint32(ntx + 2)
	k := rng.Intn(21)
	if k == 20 {
		k = 21
	}
	if rng.Intn(100) == 0 {
		k = 20 // oversized code: rare, a 64 KiB blob is expensive to push through the reference encoder
	}
	switch k {
	case 0:
		if len(l) < 2 {
			return l, "", false
		}
		i := rng.Intn(len(l) - 1)
		l[i], l[i+1] = l[i+1], l[i]
		return l, "accounts-unsorted", true
	case 1:
		if len(l) < 1 {
			return l, "", false
		}
		i := rng.Intn(len(l))
		l = append(l[:i+1], l[i:]...)
		return l, "account-duplicated", true
	case 2:
		a := pick(func(a *Acc) bool { return len(a.Writes) >= 2 })
		if a == nil {
			return l, "", false
		}
		i := rng.Intn(len(a.Writes) - 1)
		a.Writes[i], a.Writes[i+1] = a.Writes[i+1], a.Writes[i]
		return l, "write-slots-unsorted", true
	case 3:
		a := pick(func(a *Acc) bool { return len(a.Writes) >= 1 })
		if a == nil {
			return l, "", false
		}
		i := rng.Intn(len(a.Writes))
		a.Writes = append(a.Writes[:i+1], a.Writes[i:]...)
		return l, "write-slot-duplicated", true
	case 4:
		a := pick(func(a *Acc) bool { return len(a.Reads) >= 2 })
		if a == nil {
			return l, "", false
		}
		i := rng.Intn(len(a.Reads) - 1)
		a.Reads[i], a.Reads[i+1] = a.Reads[i+1], a.Reads[i]
		return l, "read-slots-unsorted", true
	case 5:
		a := pick(func(a *Acc) bool { return len(a.Reads) >= 1 })
		if a == nil {
			return l, "", false
		}
		i := rng.Intn(len(a.Reads))
		a.Reads = append(a.Reads[:i+1], a.Reads[i:]...)
		return l, "read-slot-duplicated", true
	case 6:
		a := pick(func(a *Acc) bool { return len(a.Writes) >= 1 })
		if a == nil {
			return l, "", false
		}
		a.Reads = append(a.Reads, a.Writes[rng.Intn(len(a.Writes))].Slot)
		sort.Slice(a.Reads, func(x, y int) bool { return bytes.Compare(a.Reads[x][:], a.Reads[y][:]) < 0 })
		return l, "slot-read-and-written", true
	case 7, 8:
		a := pick(func(a *Acc) bool {
			for _, w := range a.Writes {
				if len(w.Ch) >= 2-(k-7) {
					return true
				}
			}
			return false
		})
		if a == nil {
			return l, "", false
		}
		for i := range a.Writes {
			ch := a.Writes[i].Ch
			if k == 7 && len(ch) >= 2 {
				ch[0], ch[1] = ch[1], ch[0]
				return l, "slot-changes-unsorted", true
			}
			if k == 8 && len(ch) >= 1 {
				a.Writes[i].Ch = append(ch[:1], ch[0:]...)
				return l, "slot-change-index-duplicated", true
			}
		}
		return l, "", false
	case 9:
		a := pick(func(a *Acc) bool { return len(a.Writes) >= 1 })
		if a == nil {
			return l, "", false
		}
		a.Writes[rng.Intn(len(a.Writes))].Ch = nil
		return l, "slot-changes-empty", true
	case 10:
		a := pick(func(a *Acc) bool { return len(a.Writes) >= 1 })
		if a == nil {
			return l, "", false
		}
		w := &a.Writes[rng.Intn(len(a.Writes))]
		w.Ch = append(w.Ch, IV{over, randWord(rng)})
		return l, "slot-change-index-over", true
	case 11, 12, 13:
		a := pick(func(a *Acc) bool { return len(a.Bal) >= 2-min(k-11, 1) })
		if a == nil {
			return l, "", false
		}
		switch k {
		case 11:
			a.Bal[0], a.Bal[1] = a.Bal[1], a.Bal[0]
			return l, "balance-unsorted", true
		case 12:
			a.Bal = append(a.Bal[:1], a.Bal[0:]...)
			return l, "balance-index-duplicated", true
		default:
			a.Bal = append(a.Bal, IV{over, randWord(rng)})
			return l, "balance-index-over", true
		}
	case 14, 15, 16:
		a := pick(func(a *Acc) bool { return len(a.Nonce) >= 2-min(k-14, 1) })
		if a == nil {
			return l, "", false
		}
		switch k {
		case 14:
			a.Nonce[0], a.Nonce[1] = a.Nonce[1], a.Nonce[0]
			return l, "nonce-unsorted", true
		case 15:
			a.Nonce = append(a.Nonce[:1], a.Nonce[0:]...)
			return l, "nonce-index-duplicated", true
		default:
			a.Nonce = append(a.Nonce, IN{over, 7})
			return l, "nonce-index-over", true
		}
	case 17, 18, 19:
		a := pick(func(a *Acc) bool { return len(a.Code) >= 2-min(k-17, 1) })
		if a == nil {
			return l, "", false
		}
		switch k {
		case 17:
			a.Code[0], a.Code[1] = a.Code[1], a.Code[0]
			return l, "code-unsorted", true
		case 18:
			a.Code = append(a.Code[:1], a.Code[0:]...)
			return l, "code-index-duplicated", true
		default:
			a.Code = append(a.Code, IC{over, []byte{1}})
			return l, "code-index-over", true
		}
	case 20:
		if len(l) < 1 {
			return l, "", false
		}
		a := &l[rng.Intn(len(l))]
		idx := uint32(0)
		if n := len(a.Code); n > 0 {
			idx = a.Code[n-1].Idx + 1
			if idx > uint32(ntx+1) {
				return l, "", false
			}
		}
		a.Code = append(a.Code, IC{idx, make([]byte, 65537)})
		return l, "code-oversized", true
	default:
		if len(l) < 1 {
			return l, "", false
		}
		return l, "too-many-items", true // the list itself is unchanged; the gas limit is lowered by the caller
	}
}
