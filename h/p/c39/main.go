// C39: the blockchain restarts consistently after a crash.
//
// A workload child runs a real core.BlockChain (rawdb.Open over a recording key-value store +
// real chain/state freezers) through a generated scenario: imports of canonical segments, a
// side chain, a freeze cycle, SetHead, clean stop+restart; under strace. Crash states
// (kill / power-loss: file cuts x key-value log prefixes) taken anywhere in the scenario are
// reopened by a child with NewBlockChain; the recovered chain must satisfy the canonical-index
// and state-availability invariants, must not have lost blocks acknowledged by a clean stop,
// and importing the remaining blocks must reach the same head as a node that never crashed.
package main

import (
	"bytes"
	"encoding/json"
	"fmt"
	"math/big"
	"math/rand"
	"os"
	"os/exec"
	"path/filepath"
	"regexp"
	"runtime/debug"
	"strings"

	"github.com/ethereum/go-ethereum/common"
	"github.com/ethereum/go-ethereum/consensus/ethash"
	"github.com/ethereum/go-ethereum/core"
	"github.com/ethereum/go-ethereum/core/rawdb"
	"github.com/ethereum/go-ethereum/core/types"
	"github.com/ethereum/go-ethereum/crypto"
	"github.com/ethereum/go-ethereum/ethdb"
	"github.com/ethereum/go-ethereum/ethdb/memorydb"
	"github.com/ethereum/go-ethereum/log"
	"github.com/ethereum/go-ethereum/params"
	"github.com/ethereum/go-ethereum/rlp"
	"github.com/ethereum/go-ethereum/triedb/pathdb"

	"verif/lib/crashrun"
	"verif/lib/kvrec"
	"verif/lib/sysjournal"
	"verif/lib/vrt"
)

func main() {
	if o := os.Getenv("C39_WALK"); o != "" {
		// diagnostics: persistent state id / disk trie root / head block after every key-value operation
		last := ""
		kvrec.Walk(o, func(seq uint64, db *memorydb.Database) bool {
			blob, _ := db.Get([]byte("A"))
			hb, _ := db.Get([]byte("LastBlock"))
			cur := fmt.Sprintf("psid=%d root=%x head=%x", rawdb.ReadPersistentStateID(db), crypto.Keccak256(blob)[:4], hb[:min(4, len(hb))])
			if cur != last {
				fmt.Printf("kv %d: %s\n", seq, cur)
				last = cur
			}
			return true
		})
		return
	}
	if d := os.Getenv("C39_REPLAY"); d != "" {
		lvl := log.LevelInfo
		if os.Getenv("C39_DEBUG") != "" {
			lvl = log.LevelDebug
		}
		if os.Getenv("C39_QUIET") != "" {
			lvl = log.LevelCrit // as in a run: log output changes the timing of background goroutines
		}
		log.SetDefault(log.NewLogger(log.NewTerminalHandlerWithLevel(os.Stderr, lvl, false)))
		os.Setenv("C39_OPLOG_OVERRIDE", filepath.Join(d, "oplog"))
		v := checkState(d)
		out, _ := json.MarshalIndent(v, "", " ")
		fmt.Println(string(out))
		return
	}
	vrt.RegisterChild("c39-workload", workloadChild)
	vrt.RegisterChild("c39-reopen", reopenChild)
	vrt.Main("C39", run)
}

// ---------------------------------------------------------------------------------------

type Step struct {
	Kind string `json:"kind"` // insert | side | freeze | sethead | restart
	A    int    `json:"a"`    // insert: canonical blocks up to A; sethead: target; freeze: finalized number
}

type Plan struct {
	Seed     int64  `json:"seed"`
	Hi       int    `json:"hi"`
	Len      int    `json:"len"`
	SideAt   int    `json:"side_at"` // fork point of the side chain (0 = none)
	SideLen  int    `json:"side_len"`
	Scheme   string `json:"scheme"`
	Archive  bool   `json:"archive"`
	Snapshot bool   `json:"snapshot"`
	MaxDiff  int    `json:"max_diff"`
	Fat      int    `json:"fat,omitempty"` // extra transfers to fresh accounts per block (large trie commits)
	Steps    []Step `json:"steps"`
}

func genPlan(r *vrt.Run, hi int) Plan {
	rng := r.Rand("plan", hi)
	p := Plan{Seed: r.Seed, Hi: hi, Len: 8 + rng.Intn(r.N(30, 52))}
	switch rng.Intn(4) {
	case 0:
		p.Scheme = rawdb.HashScheme
	case 1:
		p.Scheme, p.Archive = rawdb.HashScheme, true
	case 2:
		p.Scheme, p.Snapshot = rawdb.HashScheme, true
	default:
		p.Scheme = rawdb.PathScheme
		p.MaxDiff = []int{2, 4, 8, 128}[rng.Intn(4)]
	}
	if hi%4 == 1 {
		// "fat" family: many fresh accounts per block, so that a hash-scheme trie commit spans
		// several write batches (ethdb.IdealBatchSize) and a crash can fall between them
		// (not archive: there every block commits its own small trie; the large commits are
		// those of a clean stop, so the family also gets a restart after its first insert)
		p.Scheme, p.Snapshot, p.MaxDiff, p.Archive = rawdb.HashScheme, false, 0, false
		p.Fat = 80 + rng.Intn(60)
		p.Len = 10 + rng.Intn(12)
	}
	if rng.Intn(2) == 0 && p.Len > 6 {
		p.SideAt = 1 + rng.Intn(p.Len-4)
		p.SideLen = 1 + rng.Intn(3)
	}
	at := 0
	// onSide: the side chain has just been imported and is canonical (this tree makes every
	// imported chain canonical) until the next insert step re-imports the main chain from the
	// fork point. Freezing in that window would finalize side blocks and wipe the main-chain
	// blocks at those heights, after which the main chain can never be imported again
	// ("unknown ancestor" by design) — no freeze steps are generated there.
	onSide := false
	for at < p.Len {
		switch k := rng.Intn(10); {
		case k < 5 || at == 0:
			at += 1 + rng.Intn(p.Len-at)
			onSide = false
			p.Steps = append(p.Steps, Step{Kind: "insert", A: at})
			if p.Fat > 0 && len(p.Steps) == 1 {
				p.Steps = append(p.Steps, Step{Kind: "restart"})
			}
			if p.SideAt > 0 && at > p.SideAt+p.SideLen && rng.Intn(2) == 0 {
				p.Steps = append(p.Steps, Step{Kind: "side"})
				p.SideAt = -p.SideAt // inserted
				onSide = true
			}
		case k < 7:
			p.Steps = append(p.Steps, Step{Kind: "restart"})
		case k < 8 && at > 3 && !onSide:
			p.Steps = append(p.Steps, Step{Kind: "freeze", A: 1 + rng.Intn(at-1)})
		default:
			// (C39_NO_PATH_SETHEAD=1 restricts SetHead to hash-scheme scenarios, for comparison
			// with earlier evidence)
			if at > 2 && (p.Scheme != rawdb.PathScheme || os.Getenv("C39_NO_PATH_SETHEAD") == "") {
				t := rng.Intn(at)
				p.Steps = append(p.Steps, Step{Kind: "sethead", A: t})
				at = t
			}
		}
	}
	if p.SideAt < 0 {
		p.SideAt = -p.SideAt
	} else {
		p.SideAt, p.SideLen = 0, 0
	}
	if rng.Intn(3) == 0 {
		p.Steps = append(p.Steps, Step{Kind: "restart"})
	}
	return p
}

var (
	key, _ = crypto.HexToECDSA("b71c71a67e1177ad4e901695e1b4b9ee17ae16c6668d313eac2f96dbcda3f291")
	addr   = crypto.PubkeyToAddress(key.PublicKey)
	funds  = new(big.Int).Mul(big.NewInt(1e18), big.NewInt(1000))
	gasLim = uint64(8_000_000)
)

type Model struct {
	Genesis *core.Genesis
	Canon   []*types.Block // index = number (0 = genesis)
	Side    []*types.Block
	ByHash  map[common.Hash]*types.Block
	Bal     map[common.Hash]*big.Int // block hash -> balance of the probe address after the block
}

var probe = common.HexToAddress("0x00000000000000000000000000000000000c39aa")

func genModel(p *Plan) *Model {
	cfg := *params.AllEthashProtocolChanges
	gs := &core.Genesis{Config: &cfg, GasLimit: gasLim, BaseFee: big.NewInt(params.InitialBaseFee), Alloc: types.GenesisAlloc{addr: {Balance: funds}}}
	engine := ethash.NewFaker()
	rng := rand.New(rand.NewSource(p.Seed*9176 + int64(p.Hi)*31 + 3))
	signer := types.LatestSigner(&cfg)
	m := &Model{Genesis: gs, ByHash: map[common.Hash]*types.Block{}, Bal: map[common.Hash]*big.Int{}}
	mk := func(salt int64) func(i int, b *core.BlockGen) {
		return func(i int, b *core.BlockGen) {
			b.SetCoinbase(common.BigToAddress(big.NewInt(0xc0 + salt)))
			for k, n := 0, rng.Intn(3); k < n; k++ {
				tx, _ := types.SignTx(types.NewTransaction(b.TxNonce(addr), probe, big.NewInt(int64(1+rng.Intn(1000))+salt), 21000, b.BaseFee(), nil), signer, key)
				b.AddTx(tx)
			}
			for k := 0; k < p.Fat; k++ {
				var to common.Address
				rng.Read(to[:])
				tx, _ := types.SignTx(types.NewTransaction(b.TxNonce(addr), to, big.NewInt(int64(1+rng.Intn(1000))), 21000, b.BaseFee(), nil), signer, key)
				b.AddTx(tx)
			}
		}
	}
	gdb, blocks, _ := core.GenerateChainWithGenesis(gs, engine, p.Len, mk(0))
	genesisBlock := gs.ToBlock()
	m.Canon = append([]*types.Block{genesisBlock}, blocks...)
	if p.SideAt > 0 {
		m.Side, _ = core.GenerateChain(&cfg, m.Canon[p.SideAt], engine, gdb, p.SideLen, mk(7))
	}
	for _, b := range m.Canon {
		m.ByHash[b.Hash()] = b
	}
	for _, b := range m.Side {
		m.ByHash[b.Hash()] = b
	}
	// probe balances by replaying transfers
	bal := new(big.Int)
	m.Bal[genesisBlock.Hash()] = new(big.Int)
	for _, b := range m.Canon[1:] {
		for _, tx := range b.Transactions() {
			if *tx.To() == probe {
				bal = new(big.Int).Add(bal, tx.Value())
			}
		}
		m.Bal[b.Hash()] = bal
	}
	if p.SideAt > 0 {
		sb := new(big.Int).Set(m.Bal[m.Canon[p.SideAt].Hash()])
		for _, b := range m.Side {
			for _, tx := range b.Transactions() {
				if *tx.To() == probe {
					sb = new(big.Int).Add(sb, tx.Value())
				}
			}
			m.Bal[b.Hash()] = sb
		}
	}
	return m
}

func (p *Plan) chainConfig() *core.BlockChainConfig {
	c := core.DefaultConfig().WithStateScheme(p.Scheme).WithArchive(p.Archive)
	c.TxLookupLimit = 0
	c.SnapshotLimit = 0
	if p.Snapshot {
		c.SnapshotLimit = 16
	}
	c.TrieDirtyLimit = 1
	c.StateHistory = 0
	return c
}

func openChain(kv ethdb.KeyValueStore, root string, p *Plan, m *Model) (ethdb.Database, *core.BlockChain, error) {
	db, err := rawdb.Open(kv, rawdb.OpenOptions{Ancient: filepath.Join(root, "ancient")})
	if err != nil {
		return nil, nil, err
	}
	bc, err := core.NewBlockChain(db, m.Genesis, ethash.NewFaker(), p.chainConfig())
	if err != nil {
		db.Close()
		return nil, nil, err
	}
	return db, bc, nil
}

type freezer interface{ Freeze() error }

// persistedBound returns the block number of the last persisted state of a crash state, the
// bound of the property's clause "no loss of blocks below the last persisted state". Hash
// scheme: no bound beyond the acknowledged head (tries committed at a clean stop stay in the
// key-value store). Path scheme: the layer journal written by a clean stop carries the state up
// to the acknowledged head only as long as it is still valid for the persistent disk state (a
// buffer flush or a rollback invalidates or removes it); without a valid journal the last
// persisted state is the disk state itself, and geth legitimately rewinds to that block and
// drops what is above it.
func persistedBound(db ethdb.Database, p *Plan, m *Model) uint64 {
	if p.Scheme != rawdb.PathScheme {
		return 1 << 62
	}
	disk := types.EmptyRootHash
	if blob := rawdb.ReadAccountTrieNode(db, nil); len(blob) > 0 {
		disk = crypto.Keccak256Hash(blob)
	}
	if j := rawdb.ReadTrieJournal(db); len(j) > 0 {
		st := rlp.NewStream(bytes.NewReader(j), 0)
		var (
			version uint64
			root    common.Hash
		)
		if st.Decode(&version) == nil && st.Decode(&root) == nil && root == disk {
			return 1 << 62
		}
	}
	var n uint64
	for i, b := range m.Canon {
		if b.Root() == disk {
			n = uint64(i)
		}
	}
	return n
}

func workloadChild(r *vrt.Run) {
	root, marksPath, planPath, oplog := os.Getenv("C39_ROOT"), os.Getenv("C39_MARKS"), os.Getenv("C39_PLAN"), os.Getenv("C39_OPLOG")
	var p Plan
	b, err := os.ReadFile(planPath)
	if err != nil || json.Unmarshal(b, &p) != nil {
		os.Exit(4)
	}
	if p.MaxDiff > 0 {
		pathdb.VerifSetMaxDiffLayers(p.MaxDiff)
	}
	mf, err := os.OpenFile(marksPath, os.O_CREATE|os.O_WRONLY|os.O_APPEND, 0o644)
	if err != nil {
		os.Exit(4)
	}
	mark := func(format string, a ...any) { mf.WriteString(fmt.Sprintf(format, a...) + "\n") }
	kv, err := kvrec.New(oplog, mf)
	if err != nil {
		os.Exit(4)
	}
	m := genModel(&p)
	fail := func(format string, a ...any) {
		fmt.Printf("workload: "+format+"\n", a...)
		os.Exit(6)
	}
	mark("START")
	db, bc, err := openChain(kv, root, &p, m)
	if err != nil {
		fail("open: %v", err)
	}
	for i, s := range p.Steps {
		mark("B %d %s %d", i, s.Kind, s.A)
		switch s.Kind {
		case "insert":
			cur := int(bc.CurrentBlock().Number.Uint64())
			if cur < s.A {
				if _, err := bc.InsertChain(m.Canon[cur+1 : s.A+1]); err != nil {
					fail("step %d InsertChain(%d..%d): %v", i, cur+1, s.A, err)
				}
			}
		case "side":
			if _, err := bc.InsertChain(m.Side); err != nil {
				fail("step %d InsertChain(side): %v", i, err)
			}
		case "freeze":
			bc.SetFinalized(m.Canon[s.A].Header())
			if err := db.(freezer).Freeze(); err != nil {
				fail("step %d Freeze: %v", i, err)
			}
		case "sethead":
			if err := bc.SetHead(uint64(s.A)); err != nil {
				fail("step %d SetHead(%d): %v", i, s.A, err)
			}
		case "restart":
			bc.Stop()
			db.Close()
			mark("STOPPED %d %d", i, bc.CurrentBlock().Number.Uint64())
			if db, bc, err = openChain(kv, root, &p, m); err != nil {
				fail("step %d reopen after clean stop: %v", i, err)
			}
		}
		mark("E %d %d", i, bc.CurrentBlock().Number.Uint64())
	}
	mark("END")
	kv.Close()
}

// ---------------------------------------------------------------------------------------

type Expect struct {
	Plan    Plan   `json:"plan"`
	AckHead uint64 `json:"ack_head"` // head acknowledged by the last clean stop, lowered by later SetHead targets
	Oplog   string `json:"oplog"`
	// diagnostics only: the operation in flight at the crash position
	InFlight string `json:"in_flight,omitempty"`
	// CleanSinceStop: no insert, side import or SetHead has begun since the last completed clean
	// stop, so whatever that stop persisted (path scheme: the layer journal) must still hold
	CleanSinceStop bool `json:"clean_since_stop"`
}

type Verdict struct {
	OK       bool   `json:"ok"`
	FP       string `json:"fp,omitempty"`
	Msg      string `json:"msg,omitempty"`
	Head     uint64 `json:"head"`
	HeadHdr  uint64 `json:"head_header"`
	Frozen   uint64 `json:"frozen"`
	OnSide   bool   `json:"on_side"`
	Reimport int    `json:"reimport"` // blocks imported after recovery to reach the final head
}

func reopenChild(r *vrt.Run) {
	log.SetDefault(log.NewLogger(log.NewTerminalHandlerWithLevel(os.Stderr, log.LevelCrit, false)))
	crashrun.ReopenLoop("C39_LIST", func(dir string) any { return checkState(dir) })
}

func bad(fp, format string, a ...any) Verdict { return Verdict{FP: fp, Msg: fmt.Sprintf(format, a...)} }

func checkState(dir string) (v Verdict) {
	var w struct {
		Expect Expect `json:"expect"`
		KVN    uint64 `json:"kv_n"`
	}
	b, err := os.ReadFile(filepath.Join(dir, "expect.json"))
	if err != nil || json.Unmarshal(b, &w) != nil {
		return bad("harness", "expect.json")
	}
	e := w.Expect
	if o := os.Getenv("C39_OPLOG_OVERRIDE"); o != "" {
		e.Oplog = o
	}
	p := &e.Plan
	if p.MaxDiff > 0 {
		pathdb.VerifSetMaxDiffLayers(p.MaxDiff)
	}
	m := genModel(p)
	mem, n, err := kvrec.Load(e.Oplog, w.KVN)
	if err != nil || n != w.KVN {
		return bad("harness", "oplog: %v", err)
	}
	persisted := uint64(1 << 62) // block number of the last persisted state in this crash state (path scheme)
	defer func() {
		if pv := recover(); pv != nil {
			st := string(debug.Stack())
			v = bad("reopen-panic:"+vrt.PanicSite(st[strings.Index(st, "panic("):]), "panic: %v\n%s", pv, st)
		}
	}()
	// (shared with C25) no tail truncation is requested in these scenarios: a non-zero tail of
	// the block-data group means the freezer repair fast-forwarded body/receipt tables that a
	// crash had left empty. Checked on the bare database first, because NewBlockChain cannot
	// cope with the hidden bodies (it resets the chain and may panic).
	{
		mem2, _, _ := kvrec.Load(e.Oplog, w.KVN) // closing the probe database closes its key-value store
		pre, err := rawdb.Open(mem2, rawdb.OpenOptions{Ancient: filepath.Join(dir, "root", "ancient")})
		if err != nil {
			return bad("reopen-error", "rawdb.Open failed: %v", err)
		}
		tail, _ := pre.Tail(rawdb.ChainFreezerBlockDataGroup)
		if !e.CleanSinceStop {
			persisted = persistedBound(pre, p, m)
		}
		if os.Getenv("C39_DEBUG") != "" {
			blob := rawdb.ReadAccountTrieNode(pre, nil)
			fmt.Fprintf(os.Stderr, "DEBUG persistent state id %d, disk trie root %x, snapshot root %x, head block %x\n", rawdb.ReadPersistentStateID(pre), crypto.Keccak256(blob), rawdb.ReadSnapshotRoot(pre), rawdb.ReadHeadBlockHash(pre))
			for n := uint64(0); n < 40; n++ {
				h := rawdb.ReadCanonicalHash(pre, n)
				if h == (common.Hash{}) {
					break
				}
				if hd := rawdb.ReadHeader(pre, h, n); hd != nil {
					fmt.Fprintf(os.Stderr, "DEBUG canonical %d %x root %x\n", n, h[:4], hd.Root)
				}
			}
		}
		pre.Close()
		if tail > 0 {
			return bad("blockdata-tail-advanced-by-repair", "bodies/receipts below %d hidden by the freezer repair", tail)
		}
	}
	db, bc, err := openChain(mem, filepath.Join(dir, "root"), p, m)
	if err != nil {
		slug := regexp.MustCompile(`\[?0x[0-9a-fA-F]+\]?|[0-9]+`).ReplaceAllString(err.Error(), "")
		slug = strings.Join(strings.Fields(slug), "-")
		if len(slug) > 60 {
			slug = slug[:60]
		}
		return bad("reopen-error:"+slug, "NewBlockChain/rawdb.Open failed: %v", err)
	}
	defer func() {
		// a panic while stopping a chain that was already judged inconsistent must not mask
		// the first verdict; on an otherwise healthy chain it is a finding of its own
		func() {
			defer func() {
				if pv := recover(); pv != nil && v.FP == "" {
					st := string(debug.Stack())
					v = bad("stop-panic:"+vrt.PanicSite(st[strings.Index(st, "panic("):]), "panic in BlockChain.Stop after recovery: %v", pv)
				}
			}()
			bc.Stop()
		}()
		db.Close()
	}()
	head := bc.CurrentBlock()
	hh := bc.CurrentHeader()
	v.Head, v.HeadHdr = head.Number.Uint64(), hh.Number.Uint64()
	v.Frozen, _ = db.Ancients()
	hb := m.ByHash[head.Hash()]
	if hb == nil {
		return bad("head-unknown", "head block %d %x is not a block of the scenario", v.Head, head.Hash())
	}
	v.OnSide = m.Canon[v.Head].Hash() != head.Hash()
	// I1 canonical index parent-linked up to the head, agrees with the head markers
	if rawdb.ReadHeadBlockHash(db) != head.Hash() {
		return bad("I1:head-marker", "ReadHeadBlockHash %x != CurrentBlock %x", rawdb.ReadHeadBlockHash(db), head.Hash())
	}
	if v.HeadHdr < v.Head {
		return bad("I1:header-behind-block", "head header %d behind head block %d", v.HeadHdr, v.Head)
	}
	prev := common.Hash{}
	for nn := uint64(0); nn <= v.HeadHdr; nn++ {
		h := rawdb.ReadCanonicalHash(db, nn)
		if h == (common.Hash{}) {
			return bad("I1:canonical-gap", "no canonical hash at %d (head block %d, head header %d)", nn, v.Head, v.HeadHdr)
		}
		hd := rawdb.ReadHeader(db, h, nn)
		if hd == nil {
			return bad("I1:canonical-header-missing", "canonical header %d missing", nn)
		}
		if nn > 0 && hd.ParentHash != prev {
			return bad("I1:not-parent-linked", "canonical header %d does not link to canonical %d", nn, nn-1)
		}
		if nn <= v.Head && rawdb.ReadBodyRLP(db, h, nn) == nil {
			return bad("I1:canonical-body-missing", "canonical body %d missing (head block %d)", nn, v.Head)
		}
		prev = h
	}
	if rawdb.ReadCanonicalHash(db, v.Head) != head.Hash() {
		return bad("I1:head-not-canonical", "canonical hash at head number %d is not the head block", v.Head)
	}
	if h := rawdb.ReadCanonicalHash(db, v.HeadHdr+1); h != (common.Hash{}) {
		return bad("I1:canonical-above-head", "canonical mapping at %d above the head header %d", v.HeadHdr+1, v.HeadHdr)
	}
	// I2 head state available and correct
	if !bc.HasState(head.Root) {
		if v.Head == 0 {
			return bad("I2:genesis-state-missing", "state of the genesis block unavailable after a crash during chain initialisation")
		}
		return bad("I2:head-state-missing", "state of head block %d unavailable", v.Head)
	}
	st, err := bc.StateAt(head)
	if err != nil {
		return bad("I2:head-state-unreadable", "StateAt(head %d): %v", v.Head, err)
	}
	if got, want := st.GetBalance(probe).ToBig(), m.Bal[head.Hash()]; want != nil && got.Cmp(want) != 0 {
		return bad("I2:head-state-wrong", "probe balance at head %d = %v, want %v", v.Head, got, want)
	}
	// I3 transaction lookups, read through the accessor every consumer uses, resolve only to
	// canonical blocks containing the transaction. A raw lookup entry left behind by SetHead
	// (core/blockchain.go leaves them, "Todo ... txlookup") whose number was later taken by
	// another block is stale but harmless: rawdb.ReadCanonicalTransaction validates it against the
	// canonical body and answers "unknown"; demanding its absence would be stricter than
	// the property ("a consistent canonical index").
	for _, blk := range append(append([]*types.Block{}, m.Canon[1:]...), m.Side...) {
		for _, tx := range blk.Transactions() {
			if got, bh, bn, idx := rawdb.ReadCanonicalTransaction(db, tx.Hash()); got != nil {
				cb := rawdb.ReadBlock(db, rawdb.ReadCanonicalHash(db, bn), bn)
				if got.Hash() != tx.Hash() || cb == nil || cb.Hash() != bh || int(idx) >= len(cb.Transactions()) || cb.Transactions()[idx].Hash() != tx.Hash() {
					return bad("I3:lookup-to-non-canonical", "ReadCanonicalTransaction(%x) answers block %d %x index %d, which is not the canonical block containing it", tx.Hash(), bn, bh[:4], idx)
				}
			}
		}
	}
	// acknowledged blocks not lost: the head may legitimately be rewound to an earlier block
	// whose state is available (the property asks for "no loss of blocks", not for the head to
	// stay), so what is demanded is that the block data of every canonical block up to the
	// head acknowledged by the last clean stop is still there and still canonical-linked.
	for nn := uint64(1); nn <= min(e.AckHead, persisted); nn++ {
		cb := m.Canon[nn]
		if rawdb.ReadHeader(db, cb.Hash(), nn) == nil || rawdb.ReadBody(db, cb.Hash(), nn) == nil {
			fp := "acked-blocks-lost"
			if p.Snapshot && uint64(nn) > v.Head {
				// hash scheme with snapshots: the repair rewinds the head below the snapshot's
				// disk root and truncates the freezer above the new head
				fp = "acked-blocks-lost:frozen-blocks-truncated-by-snapshot-rewind"
			}
			return bad(fp, "block %d (acknowledged by a clean stop at head %d) is gone after recovery (head %d)", nn, e.AckHead, v.Head)
		}
	}
	// re-import reaches the head of a node that never crashed
	final := m.Canon[len(m.Canon)-1]
	// continue on top of the recovered head (from the fork point if the head is a side block);
	// re-inserting blocks far below the head would be a different operation (a pruned-ancestor
	// side-chain import, which rolls the path database back)
	from := v.Head + 1
	if v.OnSide {
		from = uint64(p.SideAt) + 1
	}
	var rest []*types.Block
	if from < uint64(len(m.Canon)) {
		rest = m.Canon[from:]
	}
	v.Reimport = len(rest)
	if len(rest) > 0 {
		if idx, err := bc.InsertChain(rest); err != nil {
			// diagnostics: what the accessors say about the failing block's parent right now
			diag := ""
			if idx < len(rest) && rest[idx].NumberU64() > 0 {
				ph, pn := rest[idx].ParentHash(), rest[idx].NumberU64()-1
				fz, _ := db.Ancients()
				diag = fmt.Sprintf(" [failed at block %d; parent %d: ReadHeader=%v ReadBody=%v HasHeader=%v HasBody=%v HasState=%v canonical=%v frozen=%d]", rest[idx].NumberU64(), pn,
					rawdb.ReadHeader(db, ph, pn) != nil, rawdb.ReadBody(db, ph, pn) != nil, rawdb.HasHeader(db, ph, pn), rawdb.HasBody(db, ph, pn),
					bc.HasState(m.ByHash[ph].Root()), rawdb.ReadCanonicalHash(db, pn) == ph, fz)
				gone := ""
				for n := uint64(1); n <= pn; n++ {
					if cb := m.Canon[n]; rawdb.ReadHeader(db, cb.Hash(), n) == nil && rawdb.ReadBody(db, cb.Hash(), n) == nil {
						gone += fmt.Sprintf(" %d", n)
					}
				}
				fin := uint64(0)
				if fh := rawdb.ReadFinalizedBlockHash(db); fh != (common.Hash{}) {
					if nn, ok := rawdb.ReadHeaderNumber(db, fh); ok {
						fin = nn
					}
				}
				diag += fmt.Sprintf(" [blocks of this import gone from both stores:%s; finalized marker %d]", gone, fin)
				// A block imported a moment ago that is canonical, has its state, and is in neither
				// store: the background chain freezer of the re-opened database had copied the
				// pre-crash blocks up to the finalized marker into the freezer before the start-up
				// repair truncated the freezer again, and wiped their (re-imported) key-value copies
				// afterwards — freeze()'s deferred wipe is not atomic with a head truncation.
				if gone != "" && rawdb.ReadCanonicalHash(db, pn) == ph && bc.HasState(m.ByHash[ph].Root()) && fz <= pn {
					return bad("reimport-parent-wiped-by-background-freezer", "InsertChain(%d..%d) after recovery (head was %d): %v%s", rest[0].NumberU64(), final.NumberU64(), v.Head, err, diag)
				}
			}
			err = fmt.Errorf("%v%s", err, diag)
			return bad("reimport-failed", "InsertChain(%d..%d) after recovery (head was %d): %v", rest[0].NumberU64(), final.NumberU64(), v.Head, err)
		}
	}
	if got := bc.CurrentBlock(); got.Hash() != final.Hash() {
		// a longer side chain cannot exist in these scenarios (side chains are shorter)
		return bad("final-head-differs", "after re-import head is %d %x, never-crashed node has %d %x", got.Number, got.Hash(), final.NumberU64(), final.Hash())
	}
	if !bc.HasState(final.Root()) {
		return bad("final-state-missing", "state of the final head unavailable after re-import")
	}
	v.OK = true
	return v
}

// ---------------------------------------------------------------------------------------

func run(r *vrt.Run) {
	r.Rule("a case = (generated blockchain scenario, crash position, crash-state variant); scenarios: canonical chain of 8-60 blocks with transfers, optional side chain, segments imported step by step, freeze cycle (finalized marker + Freeze), SetHead to random targets, clean stop+restart, for hash scheme (normal, archive, with snapshots) and path scheme (maxDiffLayers 2-128); positions: mutating file syscalls and key-value operations anywhere between START and END (quick: sampled, thorough: a larger sample, all if few); variants: kill, power-loss cuts x key-value prefixes. non-trivial signature = (scheme config, model, in-flight step kind, event kind, recovery outcome: head vs acknowledged/rewound to genesis/blocks re-imported, freezer non-empty)")
	if _, err := exec.LookPath("strace"); err != nil {
		r.Inconclusive("strace not available: %v", err)
		return
	}
	nh := r.N(6, 24)
	vrt.Par(nh, 0, func(hi int) {
		if only := os.Getenv("C39_ONLY"); only != "" && only != fmt.Sprint(hi) {
			return
		}
		p := genPlan(r, hi)
		base := filepath.Join(r.Scratch, fmt.Sprintf("h%d", hi))
		root := filepath.Join(base, "root")
		os.MkdirAll(root, 0o755)
		defer os.RemoveAll(base)
		marks, planPath, oplog := filepath.Join(base, "MARKS"), filepath.Join(base, "plan.json"), filepath.Join(base, "oplog")
		pb, _ := json.Marshal(p)
		os.WriteFile(planPath, pb, 0o644)
		r.Case("history %d: %s", hi, pb)
		cfgName := p.Scheme
		switch {
		case p.Archive:
			cfgName += "-archive"
		case p.Snapshot:
			cfgName += "-snap"
		case p.Scheme == rawdb.PathScheme:
			cfgName += fmt.Sprintf("-d%d", p.MaxDiff)
		}
		spec := &crashrun.Spec{R: r, Hi: hi, Base: base, Root: root, Marks: marks,
			WorkloadMode: "c39-workload", WorkloadEnv: []string{"C39_ROOT=" + root, "C39_MARKS=" + marks, "C39_PLAN=" + planPath, "C39_OPLOG=" + oplog},
			ReopenMode: "c39-reopen", ListEnv: "C39_LIST", PosPer: r.N(30, 150), NRandom: r.N(1, 2), Rng: r.Rand("hist", hi)}
		// the operations that commit tries and rewrite markers in several key-value batches
		spec.Prefer = func(lastMark, what string) bool {
			return what == "kvop" && strings.HasPrefix(lastMark, "B ") && (strings.Contains(lastMark, " restart ") || strings.Contains(lastMark, " sethead "))
		}
		// head reported at the end of every step of the recorded (complete) run: a SetHead whose
		// target state is unavailable rewinds further by design, so while it is in flight only
		// the head it eventually reached is promised
		var endHead map[int]uint64
		spec.Build = func(ps crashrun.Pos, cs sysjournal.CrashState, kvn uint64, model string) (any, string) {
			e := &Expect{Plan: p, Oplog: oplog}
			inflight := "none"
			for _, mk := range ps.Marks {
				var i int
				var kind string
				var a, h uint64
				switch {
				case strings.HasPrefix(mk, "STOPPED "):
					fmt.Sscanf(mk, "STOPPED %d %d", &i, &h)
					e.AckHead = h
					e.CleanSinceStop = true
				case strings.HasPrefix(mk, "B "):
					fmt.Sscanf(mk, "B %d %s %d", &i, &kind, &a)
					inflight = kind
					e.InFlight = fmt.Sprintf("step %d: %s %d", i, kind, a)
					if kind == "insert" || kind == "side" || kind == "sethead" {
						e.CleanSinceStop = false
					}
					if kind == "sethead" {
						if endHead == nil {
							endHead = map[int]uint64{}
							mb, _ := os.ReadFile(marks)
							for _, l := range strings.Split(string(mb), "\n") {
								var k int
								var hh uint64
								if n, _ := fmt.Sscanf(l, "E %d %d", &k, &hh); n == 2 {
									endHead[k] = hh
								}
							}
						}
						if hh, ok := endHead[i]; ok && hh < a {
							a = hh
						}
						if a < e.AckHead {
							e.AckHead = a
						}
					}
				case strings.HasPrefix(mk, "E "):
					// a completed SetHead whose target state was unavailable rewound further by design
					if fmt.Sscanf(mk, "E %d %d", &i, &h); inflight == "sethead" && h < e.AckHead {
						e.AckHead = h
					}
					inflight = "none"
					e.InFlight = fmt.Sprintf("none (after step %d)", i)
				}
			}
			// under power loss only a key-value prefix covering the clean stop keeps its promise;
			// the recording store marks Close as a sync, so the prefix always covers it
			return e, fmt.Sprintf("%s/%s/inflight=%s/at=%s", cfgName, model, inflight, ps.What)
		}
		spec.Judge = func(j *crashrun.Job, raw json.RawMessage) {
			var v Verdict
			if json.Unmarshal(raw, &v) != nil {
				r.Inconclusive("bad verdict")
				return
			}
			e := j.Expect.(*Expect)
			r.Count("states_"+j.Model, 1)
			if !v.OK {
				if v.FP == "harness" {
					r.Inconclusive("checker: %s", v.Msg)
					return
				}
				r.Violation(v.FP+":"+j.Model+":"+p.Scheme, fmt.Sprintf("history %d (%s), %s: %s", hi, cfgName, j.Desc, v.Msg), map[string]any{"plan": p, "crash_state": j.Desc, "kv_prefix": j.KVN, "ack_head": e.AckHead, "files": crashrun.FilesHex(j.State)})
				r.Eval(j.Sig + "/violated")
				return
			}
			out := "head>ack"
			switch {
			case v.Head == 0:
				out = "genesis"
				r.Count("recovered_to_genesis", 1)
			case v.Head == e.AckHead:
				out = "head=ack"
			}
			if v.Reimport > 0 {
				r.Count("reimported_after_recovery", 1)
			}
			if v.Frozen > 0 {
				r.Count("recovered_with_frozen_blocks", 1)
			}
			if v.HeadHdr > v.Head {
				r.Count("header_head_ahead_of_block_head", 1)
			}
			r.Eval(fmt.Sprintf("%s/%s/reimport=%v/frozen=%v", j.Sig, out, v.Reimport > 0, v.Frozen > 0))
		}
		spec.Died = func(j *crashrun.Job, exit int, sig string, out []byte) {
			r.Violation("reopen-died:"+crashrun.CritSite(out)+":"+j.Model+":"+p.Scheme, fmt.Sprintf("history %d (%s): process died (exit %d %s) while reopening: %s\n%s", hi, cfgName, exit, sig, j.Desc, crashrun.Tail(out, 1200)), map[string]any{"plan": p, "crash_state": j.Desc, "kv_prefix": j.KVN, "files": crashrun.FilesHex(j.State)})
			r.Eval(j.Sig + "/died")
		}
		st, ok := crashrun.Run(spec, func(exit int, out []byte) {
			r.Violation("workload-failed", fmt.Sprintf("history %d: workload exit %d: %s", hi, exit, crashrun.Tail(out, 800)), map[string]any{"plan": p})
		})
		if !ok {
			return
		}
		r.Count("crash_positions", st.Positions)
		r.Count("kv_operations", st.KVOps)
		if r.WantSample() {
			r.Sample(map[string]any{"history": hi, "plan": p, "journal_events": st.Events, "crash_positions": st.Positions, "crash_states": st.States, "kv_operations": st.KVOps})
		}
	})
	r.Require("journals_selfchecked", int64(nh*3/4))
	r.Require("states_kill", 30)
	r.Require("states_power", 30)
	r.Require("reimported_after_recovery", 10)
	r.Assume("key-value store = recording memorydb with ordered durability (Pebble's own recovery is not exercised); file crash model of lib/sysjournal")
	r.Assume("acknowledgement = head at a completed clean Stop (lowered by later SetHead targets); the never-crashed reference is the generated canonical chain itself (deterministic)")
}
