// C25: chain data is unchanged by migration into the freezer.
//
// A workload child writes a generated chain (canonical chain, side branches, receipts, tx
// lookups) with the rawdb accessors into rawdb.Open(recording kv store, real chain freezer),
// moves the finalized marker forward and runs Freeze() cycles, under strace. During the
// cycles, crash states (kill / power-loss) are reconstructed and reopened by a child with the
// real code; every chain accessor must return for every canonical block exactly what was
// written, and a further Freeze() cycle must complete. After every uninterrupted cycle the
// workload itself checks that side-chain data at frozen heights (and their dangling
// descendants) is gone and the genesis is still in the key-value store.
package main

import (
	"bytes"
	"encoding/json"
	"fmt"
	"math/big"
	"math/rand"
	"os"
	"os/exec"
	"path/filepath"
	"strings"

	"github.com/ethereum/go-ethereum/common"
	"github.com/ethereum/go-ethereum/core/rawdb"
	"github.com/ethereum/go-ethereum/core/types"
	"github.com/ethereum/go-ethereum/crypto"
	"github.com/ethereum/go-ethereum/ethdb"
	"github.com/ethereum/go-ethereum/log"
	"github.com/ethereum/go-ethereum/rlp"
	"github.com/ethereum/go-ethereum/trie"

	"verif/lib/crashrun"
	"verif/lib/kvrec"
	"verif/lib/sysjournal"
	"verif/lib/vrt"
)

func main() {
	if d := os.Getenv("C25_REPLAY"); d != "" {
		log.SetDefault(log.NewLogger(log.NewTerminalHandlerWithLevel(os.Stderr, log.LevelInfo, false)))
		os.Setenv("C25_OPLOG_OVERRIDE", filepath.Join(d, "oplog"))
		out, _ := json.MarshalIndent(checkState(d), "", " ")
		fmt.Println(string(out))
		return
	}
	vrt.RegisterChild("c25-workload", workloadChild)
	vrt.RegisterChild("c25-reopen", reopenChild)
	vrt.Main("C25", run)
}

// ---------------------------------------------------------------------------------------
// Chain model, regenerated deterministically from the plan in every process.

type Plan struct {
	Seed   int64 `json:"seed"`
	Hi     int   `json:"hi"`
	Len    int   `json:"len"`    // canonical length (head number)
	Forks  int   `json:"forks"`  // number of side branches
	Cycles []int `json:"cycles"` // finalized block number per freeze cycle (ascending)
}

type Blk struct {
	B        *types.Block
	Receipts types.Receipts
	Canon    bool
}

type Chain struct {
	Canon []*Blk            // by number
	Side  []*Blk            // all side blocks
	ByNum map[uint64][]*Blk // all blocks by number
}

var testKey, _ = crypto.HexToECDSA("b71c71a67e1177ad4e901695e1b4b9ee17ae16c6668d313eac2f96dbcda3f291")

func genPlan(r *vrt.Run, hi int) Plan {
	rng := r.Rand("plan", hi)
	p := Plan{Seed: r.Seed, Hi: hi, Len: 20 + rng.Intn(r.N(60, 180)), Forks: rng.Intn(4)}
	n := 1 + rng.Intn(3)
	f := 0
	for i := 0; i < n; i++ {
		f += 1 + rng.Intn(p.Len/(n+1)+1)
		if f >= p.Len {
			f = p.Len - 1
		}
		p.Cycles = append(p.Cycles, f)
	}
	return p
}

func mkBlock(rng *rand.Rand, parent *types.Header, number uint64, salt byte, nonce *uint64) *Blk {
	h := &types.Header{ParentHash: parent.Hash(), Number: new(big.Int).SetUint64(number), Difficulty: big.NewInt(0), GasLimit: 30_000_000, Time: parent.Time + 12, Extra: []byte{salt, byte(rng.Intn(256))}, BaseFee: big.NewInt(7)}
	var txs []*types.Transaction
	var rcs types.Receipts
	signer := types.HomesteadSigner{}
	for i, n := 0, rng.Intn(4); i < n; i++ {
		to := common.BytesToAddress([]byte{byte(rng.Intn(256)), salt})
		tx, _ := types.SignTx(types.NewTransaction(*nonce, to, big.NewInt(int64(rng.Intn(1000))), 21000, big.NewInt(10), []byte{salt, byte(i)}), signer, testKey)
		*nonce++
		txs = append(txs, tx)
		rc := &types.Receipt{Status: uint64(rng.Intn(2)), CumulativeGasUsed: uint64(21000 * (i + 1)), TxHash: tx.Hash(), GasUsed: 21000}
		if rng.Intn(2) == 0 {
			rc.Logs = []*types.Log{{Address: to, Topics: []common.Hash{{salt}}, Data: []byte{byte(i)}}}
		}
		rc.Bloom = types.CreateBloom(rc)
		rcs = append(rcs, rc)
	}
	b := types.NewBlock(h, &types.Body{Transactions: txs}, rcs, trie.NewStackTrie(nil))
	return &Blk{B: b, Receipts: rcs}
}

func genChain(p *Plan) *Chain {
	rng := rand.New(rand.NewSource(p.Seed*7793 + int64(p.Hi)*131 + 5))
	c := &Chain{ByNum: map[uint64][]*Blk{}}
	nonce := uint64(0)
	gen := &types.Header{Number: big.NewInt(0), Difficulty: big.NewInt(1), GasLimit: 30_000_000, Extra: []byte("genesis"), BaseFee: big.NewInt(7)}
	g := &Blk{B: types.NewBlock(gen, &types.Body{}, nil, trie.NewStackTrie(nil)), Canon: true}
	c.Canon = append(c.Canon, g)
	for n := uint64(1); n <= uint64(p.Len); n++ {
		b := mkBlock(rng, c.Canon[n-1].B.Header(), n, 0, &nonce)
		b.Canon = true
		c.Canon = append(c.Canon, b)
	}
	for f := 0; f < p.Forks; f++ {
		at := uint64(rng.Intn(p.Len))
		depth := 1 + rng.Intn(15)
		parent := c.Canon[at].B.Header()
		sn := uint64(1_000_000 * (f + 1))
		for d := 0; d < depth; d++ {
			b := mkBlock(rng, parent, at+1+uint64(d), byte(f+1), &sn)
			c.Side = append(c.Side, b)
			parent = b.B.Header()
		}
	}
	for _, b := range c.Canon {
		c.ByNum[b.B.NumberU64()] = append(c.ByNum[b.B.NumberU64()], b)
	}
	for _, b := range c.Side {
		c.ByNum[b.B.NumberU64()] = append(c.ByNum[b.B.NumberU64()], b)
	}
	return c
}

// observe compares every chain accessor for canonical blocks 0..head with the model.
func observe(db ethdb.Database, c *Chain, head uint64) string {
	for n := uint64(0); n <= head; n++ {
		b := c.Canon[n]
		hash := b.B.Hash()
		if got := rawdb.ReadCanonicalHash(db, n); got != hash {
			return fmt.Sprintf("ReadCanonicalHash(%d) = %x, want %x", n, got, hash)
		}
		if num, ok := rawdb.ReadHeaderNumber(db, hash); !ok || num != n {
			return fmt.Sprintf("ReadHeaderNumber(block %d) = %d,%v", n, num, ok)
		}
		wantH, _ := rlp.EncodeToBytes(b.B.Header())
		if got := rawdb.ReadHeaderRLP(db, hash, n); !bytes.Equal(got, wantH) {
			return fmt.Sprintf("ReadHeaderRLP(block %d) differs (%d bytes, want %d)", n, len(got), len(wantH))
		}
		if h := rawdb.ReadHeader(db, hash, n); h == nil || h.Hash() != hash {
			return fmt.Sprintf("ReadHeader(block %d) nil or wrong", n)
		}
		wantB, _ := rlp.EncodeToBytes(b.B.Body())
		if got := rawdb.ReadBodyRLP(db, hash, n); !bytes.Equal(got, wantB) {
			return fmt.Sprintf("ReadBodyRLP(block %d) differs (%d bytes, want %d)", n, len(got), len(wantB))
		}
		if got := rawdb.ReadCanonicalBodyRLP(db, n, &hash); !bytes.Equal(got, wantB) {
			return fmt.Sprintf("ReadCanonicalBodyRLP(block %d) differs", n)
		}
		blk := rawdb.ReadBlock(db, hash, n)
		if blk == nil || blk.Hash() != hash || len(blk.Transactions()) != len(b.B.Transactions()) {
			return fmt.Sprintf("ReadBlock(block %d) nil or wrong", n)
		}
		if n > 0 {
			raw := rawdb.ReadRawReceipts(db, hash, n)
			if len(raw) != len(b.Receipts) {
				return fmt.Sprintf("ReadRawReceipts(block %d) = %d receipts, want %d", n, len(raw), len(b.Receipts))
			}
			for i, rc := range raw {
				w := b.Receipts[i]
				if rc.Status != w.Status || rc.CumulativeGasUsed != w.CumulativeGasUsed || len(rc.Logs) != len(w.Logs) {
					return fmt.Sprintf("ReadRawReceipts(block %d)[%d] differs", n, i)
				}
				for k, l := range rc.Logs {
					if l.Address != w.Logs[k].Address || !bytes.Equal(l.Data, w.Logs[k].Data) || len(l.Topics) != len(w.Logs[k].Topics) {
						return fmt.Sprintf("ReadRawReceipts(block %d)[%d] log %d differs", n, i, k)
					}
				}
			}
			if !rawdb.HasReceipts(db, hash, n) {
				// HasReceipts/HasBody/HasHeader look into the freezer and then into the
				// key-value store without holding the freezer lock; the background freezer
				// (started by rawdb.Open) can migrate the block in between. A miss that does
				// not repeat is that race, a miss that repeats is data loss.
				if rawdb.HasReceipts(db, hash, n) {
					return fmt.Sprintf("TRANSIENT HasReceipts(block %d) false once, true on the next call", n)
				}
				return fmt.Sprintf("HasReceipts(block %d) false", n)
			}
			for name, has := range map[string]func(ethdb.Reader, common.Hash, uint64) bool{"HasHeader": rawdb.HasHeader, "HasBody": rawdb.HasBody} {
				if !has(db, hash, n) {
					if has(db, hash, n) {
						return fmt.Sprintf("TRANSIENT %s(block %d) false once, true on the next call", name, n)
					}
					return fmt.Sprintf("%s(block %d) false", name, n)
				}
			}
			if got := rawdb.ReadCanonicalReceiptsRLP(db, n, &hash); len(got) == 0 && len(b.Receipts) > 0 {
				return fmt.Sprintf("ReadCanonicalReceiptsRLP(block %d) empty", n)
			}
		}
		for _, tx := range b.B.Transactions() {
			if e := rawdb.ReadTxLookupEntry(db, tx.Hash()); e == nil || *e != n {
				return fmt.Sprintf("ReadTxLookupEntry(tx of block %d) = %v", n, e)
			}
			if got, bh, bn, _ := rawdb.ReadCanonicalTransaction(db, tx.Hash()); got == nil || bh != hash || bn != n {
				return fmt.Sprintf("ReadCanonicalTransaction(tx of block %d) = %v %x %d", n, got != nil, bh, bn)
			}
		}
	}
	if hh := rawdb.ReadHeadBlockHash(db); hh != c.Canon[head].B.Hash() {
		return fmt.Sprintf("ReadHeadBlockHash = %x, want block %d", hh, head)
	}
	// header ranges across the freezer / key-value boundary
	if head >= 3 {
		rng := rawdb.ReadHeaderRange(db, head, head+1)
		if uint64(len(rng)) != head+1 {
			return fmt.Sprintf("ReadHeaderRange(%d,%d) = %d headers", head, head+1, len(rng))
		}
		for i, blob := range rng {
			want, _ := rlp.EncodeToBytes(c.Canon[head-uint64(i)].B.Header())
			if !bytes.Equal(blob, want) {
				return fmt.Sprintf("ReadHeaderRange item %d (block %d) differs", i, head-uint64(i))
			}
		}
	}
	return ""
}

// sideGone checks that no side-chain data remains at heights below frozen, nor dangling
// descendants of such blocks above.
func sideGone(db ethdb.Database, c *Chain, frozen uint64, written map[common.Hash]bool) string {
	dropped := map[common.Hash]bool{}
	for _, b := range c.Side {
		n := b.B.NumberU64()
		if written != nil && !written[b.B.Hash()] {
			continue
		}
		gone := n < frozen || dropped[b.B.ParentHash()]
		if !gone {
			continue
		}
		dropped[b.B.Hash()] = true
		if rawdb.HasHeader(db, b.B.Hash(), n) || rawdb.HasBody(db, b.B.Hash(), n) {
			return fmt.Sprintf("side block %d (%x, parent %x) still present with %d blocks frozen", n, b.B.Hash(), b.B.ParentHash(), frozen)
		}
	}
	return ""
}

func openDB(kv ethdb.KeyValueStore, root string) (ethdb.Database, error) {
	return rawdb.Open(kv, rawdb.OpenOptions{Ancient: filepath.Join(root, "ancient")})
}

type freezer interface{ Freeze() error }

// ---------------------------------------------------------------------------------------

func workloadChild(r *vrt.Run) {
	root, marksPath, planPath, oplog := os.Getenv("C25_ROOT"), os.Getenv("C25_MARKS"), os.Getenv("C25_PLAN"), os.Getenv("C25_OPLOG")
	var p Plan
	b, err := os.ReadFile(planPath)
	if err != nil || json.Unmarshal(b, &p) != nil {
		os.Exit(4)
	}
	mf, err := os.OpenFile(marksPath, os.O_CREATE|os.O_WRONLY|os.O_APPEND, 0o644)
	if err != nil {
		os.Exit(4)
	}
	mark := func(format string, a ...any) { mf.WriteString(fmt.Sprintf(format, a...) + "\n") }
	kv, err := kvrec.New(oplog, mf)
	if err != nil {
		os.Exit(4)
	}
	db, err := openDB(kv, root)
	if err != nil {
		fmt.Println("workload: open:", err)
		os.Exit(5)
	}
	c := genChain(&p)
	fail := func(format string, a ...any) {
		fmt.Printf("workload: "+format+"\n", a...)
		os.Exit(6)
	}
	write := func(bk *Blk) {
		batch := db.NewBatch()
		rawdb.WriteBlock(batch, bk.B)
		rawdb.WriteReceipts(batch, bk.B.Hash(), bk.B.NumberU64(), bk.Receipts)
		if bk.Canon {
			rawdb.WriteCanonicalHash(batch, bk.B.Hash(), bk.B.NumberU64())
			rawdb.WriteTxLookupEntriesByBlock(batch, bk.B)
		}
		if err := batch.Write(); err != nil {
			fail("write block: %v", err)
		}
	}
	// the chain is written up to a per-cycle head; side blocks as soon as their parent exists
	written, skipped := map[common.Hash]bool{}, map[common.Hash]bool{}
	writeUpTo := func(head uint64) {
		for n := uint64(0); n <= head; n++ {
			for _, bk := range c.ByNum[n] {
				if written[bk.B.Hash()] || skipped[bk.B.Hash()] {
					continue
				}
				// a side block whose parent has already been pruned cannot be imported
				if !bk.Canon && !rawdb.HasHeader(db, bk.B.ParentHash(), n-1) {
					skipped[bk.B.Hash()] = true
					continue
				}
				write(bk)
				written[bk.B.Hash()] = true
			}
		}
		rawdb.WriteHeadBlockHash(db, c.Canon[head].B.Hash())
		rawdb.WriteHeadHeaderHash(db, c.Canon[head].B.Hash())
		rawdb.WriteHeadFastBlockHash(db, c.Canon[head].B.Hash())
	}
	mark("START")
	for ci, fin := range p.Cycles {
		// head advances with every cycle; the last cycle has the whole chain
		head := uint64(p.Len)
		if ci < len(p.Cycles)-1 {
			head = uint64(fin) + uint64((p.Len-fin)/2)
		}
		writeUpTo(head)
		rawdb.WriteFinalizedBlockHash(db, c.Canon[fin].B.Hash())
		kv.SyncKeyValue()
		if msg := observe(db, c, head); msg != "" {
			fail("before freezing (cycle %d): %s", ci, msg)
		}
		mark("FREEZE-BEGIN %d %d %d", ci, fin, head)
		if err := db.(freezer).Freeze(); err != nil {
			fail("Freeze: %v", err)
		}
		mark("FREEZE-END %d", ci)
		frozen, _ := db.Ancients()
		if frozen != uint64(fin)+1 {
			fail("cycle %d: %d blocks frozen, finalized block is %d", ci, frozen, fin)
		}
		if msg := observe(db, c, head); msg != "" {
			fail("after freezing %d blocks (cycle %d): %s", frozen, ci, msg)
		}
		if msg := sideGone(db, c, frozen, written); msg != "" {
			fail("after completed cycle %d: %s", ci, msg)
		}
		if v, _ := kv.Get(append(append([]byte("h"), encodeNumber(0)...), c.Canon[0].B.Hash().Bytes()...)); len(v) == 0 {
			fail("genesis header removed from the key-value store")
		}
		for n := uint64(1); n < frozen; n++ {
			if v, _ := kv.Get(append(append([]byte("h"), encodeNumber(n)...), c.Canon[n].B.Hash().Bytes()...)); len(v) > 0 {
				fail("frozen canonical header %d still in the key-value store after the completed cycle", n)
			}
		}
	}
	mark("END")
	kv.Close()
}

func encodeNumber(n uint64) []byte {
	var b [8]byte
	for i := 0; i < 8; i++ {
		b[7-i] = byte(n >> (8 * i))
	}
	return b[:]
}

// ---------------------------------------------------------------------------------------

type Expect struct {
	Plan  Plan   `json:"plan"`
	Cycle int    `json:"cycle"` // cycle in flight
	Fin   uint64 `json:"fin"`
	Head  uint64 `json:"head"`
	Oplog string `json:"oplog"`
}

type Verdict struct {
	OK      bool   `json:"ok"`
	FP      string `json:"fp,omitempty"`
	Msg     string `json:"msg,omitempty"`
	Frozen  uint64 `json:"frozen"`  // blocks in the freezer right after reopen
	Frozen2 uint64 `json:"frozen2"` // after the resumed Freeze()
	KVCopy  int    `json:"kv_copy"` // canonical blocks present in both stores after reopen
}

func reopenChild(r *vrt.Run) {
	log.SetDefault(log.NewLogger(log.NewTerminalHandlerWithLevel(os.Stderr, log.LevelCrit, false)))
	crashrun.ReopenLoop("C25_LIST", func(dir string) any { return checkState(dir) })
}

func checkState(dir string) (v Verdict) {
	var w struct {
		Expect Expect `json:"expect"`
		KVN    uint64 `json:"kv_n"`
	}
	b, err := os.ReadFile(filepath.Join(dir, "expect.json"))
	if err != nil || json.Unmarshal(b, &w) != nil {
		return Verdict{FP: "harness", Msg: "expect.json"}
	}
	e := w.Expect
	if o := os.Getenv("C25_OPLOG_OVERRIDE"); o != "" {
		e.Oplog = o
	}
	c := genChain(&e.Plan)
	mem, n, err := kvrec.Load(e.Oplog, w.KVN)
	if err != nil || n != w.KVN {
		return Verdict{FP: "harness", Msg: fmt.Sprintf("oplog: %v", err)}
	}
	defer func() {
		if p := recover(); p != nil {
			v = Verdict{FP: "reopen-panic", Msg: fmt.Sprintf("panic: %v", p)}
		}
	}()
	db, err := openDB(mem, filepath.Join(dir, "root"))
	if err != nil {
		return Verdict{FP: "reopen-error", Msg: "rawdb.Open: " + err.Error()}
	}
	defer db.Close()
	v.Frozen, _ = db.Ancients()
	if v.Frozen > e.Fin+1 {
		return Verdict{FP: "frozen-beyond-finalized", Msg: fmt.Sprintf("%d blocks in the freezer, finalized block %d", v.Frozen, e.Fin), Frozen: v.Frozen}
	}
	// No tail truncation is ever requested here: a non-zero tail of the block-data group means
	// the freezer repair fast-forwarded the (empty after the crash) body/receipt tables as if
	// they had been freshly added.
	if tail, _ := db.Tail(rawdb.ChainFreezerBlockDataGroup); tail > 0 {
		return Verdict{FP: "blockdata-tail-advanced-by-repair", Msg: fmt.Sprintf("after reopen the freezer holds %d blocks but bodies/receipts below %d are hidden (tail of the block-data group moved by the repair); %s", v.Frozen, tail, observe(db, c, e.Head)), Frozen: v.Frozen}
	}
	if msg := observe(db, c, e.Head); msg != "" {
		if strings.HasPrefix(msg, "TRANSIENT ") {
			return Verdict{FP: "has-accessor-transient-miss-during-background-freeze", Msg: msg, Frozen: v.Frozen}
		}
		return Verdict{FP: "accessor-mismatch-after-crash", Msg: msg, Frozen: v.Frozen}
	}
	for nn := uint64(1); nn < v.Frozen; nn++ {
		if ok, _ := mem.Has(append(append([]byte("h"), encodeNumber(nn)...), c.Canon[nn].B.Hash().Bytes()...)); ok {
			v.KVCopy++
		}
	}
	// resume: a further cycle must complete the migration
	if err := db.(freezer).Freeze(); err != nil {
		return Verdict{FP: "resume-freeze-error", Msg: err.Error(), Frozen: v.Frozen}
	}
	v.Frozen2, _ = db.Ancients()
	if v.Frozen2 != e.Fin+1 {
		return Verdict{FP: "resume-incomplete", Msg: fmt.Sprintf("after the resumed Freeze() %d blocks are frozen, finalized block is %d", v.Frozen2, e.Fin), Frozen: v.Frozen}
	}
	if msg := observe(db, c, e.Head); msg != "" {
		return Verdict{FP: "accessor-mismatch-after-resume", Msg: msg, Frozen: v.Frozen}
	}
	// if the resumed cycle froze something, its own side-chain cleanup must have happened
	if v.Frozen2 > v.Frozen && v.Frozen == 0 {
		if msg := sideGone(db, c, v.Frozen2, nil); msg != "" {
			return Verdict{FP: "side-chain-left-after-resume", Msg: msg, Frozen: v.Frozen}
		}
	}
	v.OK = true
	return v
}

// ---------------------------------------------------------------------------------------

func run(r *vrt.Run) {
	r.Rule("a case = (generated chain + freeze schedule, crash position inside a Freeze() cycle, crash-state variant); chains: 20-200 canonical blocks with 0-3 signed txs and receipts, 0-3 side branches of depth 1-15 at random fork points, 1-3 cycles with the finalized marker moving forward and the head advancing; positions: mutating file syscalls and key-value operations between FREEZE-BEGIN and FREEZE-END (quick: sampled, thorough: a larger sample, all if few); variants: kill, power-loss cuts x key-value prefixes. non-trivial signature = (model, event kind, cycle index, blocks frozen at reopen: none/partial/all, canonical data in both stores?)")
	if _, err := exec.LookPath("strace"); err != nil {
		r.Inconclusive("strace not available: %v", err)
		return
	}
	nh := r.N(6, 48)
	vrt.Par(nh, 0, func(hi int) {
		p := genPlan(r, hi)
		base := filepath.Join(r.Scratch, fmt.Sprintf("h%d", hi))
		root := filepath.Join(base, "root")
		os.MkdirAll(root, 0o755)
		defer os.RemoveAll(base)
		marks, planPath, oplog := filepath.Join(base, "MARKS"), filepath.Join(base, "plan.json"), filepath.Join(base, "oplog")
		pb, _ := json.Marshal(p)
		os.WriteFile(planPath, pb, 0o644)
		r.Case("history %d: %s", hi, pb)
		spec := &crashrun.Spec{R: r, Hi: hi, Base: base, Root: root, Marks: marks,
			WorkloadMode: "c25-workload", WorkloadEnv: []string{"C25_ROOT=" + root, "C25_MARKS=" + marks, "C25_PLAN=" + planPath, "C25_OPLOG=" + oplog},
			ReopenMode: "c25-reopen", ListEnv: "C25_LIST", PosPer: r.N(40, 300), NRandom: r.N(1, 3), Rng: r.Rand("hist", hi),
			Window: func(m string, in bool) bool {
				if strings.HasPrefix(m, "FREEZE-BEGIN") {
					return true
				}
				if strings.HasPrefix(m, "FREEZE-END") {
					return false
				}
				return in
			},
		}
		spec.Build = func(ps crashrun.Pos, cs sysjournal.CrashState, kvn uint64, model string) (any, string) {
			e := &Expect{Plan: p, Oplog: oplog}
			for _, m := range ps.Marks {
				if strings.HasPrefix(m, "FREEZE-BEGIN") {
					fmt.Sscanf(m, "FREEZE-BEGIN %d %d %d", &e.Cycle, &e.Fin, &e.Head)
				}
			}
			return e, fmt.Sprintf("%s/at=%s/cycle=%d", model, ps.What, min(e.Cycle, 2))
		}
		spec.Judge = func(j *crashrun.Job, raw json.RawMessage) {
			var v Verdict
			if json.Unmarshal(raw, &v) != nil {
				r.Inconclusive("bad verdict")
				return
			}
			e := j.Expect.(*Expect)
			r.Count("states_"+j.Model, 1)
			if !v.OK {
				if v.FP == "harness" {
					r.Inconclusive("checker: %s", v.Msg)
					return
				}
				r.Violation(v.FP+":"+j.Model, fmt.Sprintf("history %d cycle %d (finalized %d, head %d), %s: %s", hi, e.Cycle, e.Fin, e.Head, j.Desc, v.Msg), map[string]any{"plan": p, "crash_state": j.Desc, "kv_prefix": j.KVN, "files": crashrun.FilesHex(j.State)})
				r.Eval(j.Sig + "/violated")
				return
			}
			fr := "partial"
			switch {
			case v.Frozen == 0:
				fr = "none"
			case v.Frozen == e.Fin+1:
				fr = "all"
			}
			if v.KVCopy > 0 {
				r.Count("reopened_with_blocks_in_both_stores", 1)
			}
			if v.Frozen2 > v.Frozen {
				r.Count("migration_resumed_after_crash", 1)
			}
			r.Eval(fmt.Sprintf("%s/frozen=%s/both=%v", j.Sig, fr, v.KVCopy > 0))
		}
		spec.Died = func(j *crashrun.Job, exit int, sig string, out []byte) {
			r.Violation("reopen-died:"+crashrun.CritSite(out)+":"+j.Model, fmt.Sprintf("history %d: process died (exit %d %s) while reopening: %s\n%s", hi, exit, sig, j.Desc, crashrun.Tail(out, 1200)), map[string]any{"plan": p, "crash_state": j.Desc, "kv_prefix": j.KVN, "files": crashrun.FilesHex(j.State)})
			r.Eval(j.Sig + "/died")
		}
		st, ok := crashrun.Run(spec, func(exit int, out []byte) {
			r.Violation("workload-failed", fmt.Sprintf("history %d: workload exit %d: %s", hi, exit, crashrun.Tail(out, 800)), map[string]any{"plan": p})
		})
		if !ok {
			return
		}
		r.Count("crash_positions", st.Positions)
		r.Count("kv_operations", st.KVOps)
		if r.WantSample() {
			r.Sample(map[string]any{"history": hi, "plan": p, "journal_events": st.Events, "crash_positions": st.Positions, "crash_states": st.States, "kv_operations": st.KVOps})
		}
	})
	r.Require("journals_selfchecked", int64(nh*3/4))
	r.Require("states_kill", 40)
	r.Require("states_power", 40)
	r.Require("reopened_with_blocks_in_both_stores", 5)
	r.Require("migration_resumed_after_crash", 5)
	r.Assume("key-value store = recording memorydb with ordered durability; file crash model of lib/sysjournal; chain data is synced to the key-value store before each Freeze() cycle, crash positions are taken inside the cycles only")
}
