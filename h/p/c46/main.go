// C46: the discovery node table maintains Kademlia and IP-diversity invariants.
//
// A real discover.Table (own main loop, simulated clock, simulated ping/ENR transport) is
// driven with random histories of found/inbound adds, deletes, findnode bookkeeping, record
// updates, liveness changes and clock advances. After every operation a snapshot taken under
// the table lock is checked against invariants recomputed from scratch, and closest-node
// queries are compared with a reference sort.
package main

import (
	"bytes"
	"errors"
	"fmt"
	"math/rand"
	"net/netip"
	"runtime"
	"sort"
	"strconv"
	"strings"
	"sync"
	"time"

	"github.com/ethereum/go-ethereum/common/mclock"
	"github.com/ethereum/go-ethereum/log"
	"github.com/ethereum/go-ethereum/p2p/discover"
	"github.com/ethereum/go-ethereum/p2p/enode"
	"github.com/ethereum/go-ethereum/p2p/enr"

	"verif/lib/vrt"
)

func main() { vrt.Main("C46", run) }

// limits stated by the property / design
const (
	bucketCap      = 16
	replCap        = 10
	bucketSubnetCt = 2
	tableSubnetCt  = 10
	nBuckets       = 17  // 256/15
	minDist        = 239 // log distances <= minDist share bucket 0
)

// ---------------------------------------------------------------- independent helpers

func logDist(a, b enode.ID) int {
	for i := range a {
		if x := a[i] ^ b[i]; x != 0 {
			lz := 0
			for m := byte(0x80); m != 0 && x&m == 0; m >>= 1 {
				lz++
			}
			return (len(a)-i)*8 - lz
		}
	}
	return 0
}

func bucketOf(self, id enode.ID) int {
	d := logDist(self, id)
	if d <= minDist {
		return 0
	}
	return d - minDist - 1
}

func xorCmp(t, a, b enode.ID) int {
	var da, db enode.ID
	for i := range t {
		da[i], db[i] = t[i]^a[i], t[i]^b[i]
	}
	return bytes.Compare(da[:], db[:])
}

// isLAN: loopback, RFC1918, link-local, ULA (IPv4-mapped addresses are judged as IPv4).
func isLAN(a netip.Addr) bool {
	if a.Is4In6() {
		a = a.Unmap()
	}
	if a.Is4() {
		b := a.As4()
		return b[0] == 127 || b[0] == 10 || (b[0] == 172 && b[1]&0xf0 == 16) || (b[0] == 192 && b[1] == 168) || (b[0] == 169 && b[1] == 254)
	}
	b := a.As16()
	if a == netip.IPv6Loopback() {
		return true
	}
	return b[0]&0xfe == 0xfc || (b[0] == 0xfe && b[1]&0xc0 == 0x80)
}

func subnetKey(a netip.Addr) string {
	p, err := a.Prefix(24)
	if err != nil {
		return "invalid"
	}
	return p.String()
}

func parseIPSet(s string) (map[string]int, error) {
	m := map[string]int{}
	s = strings.TrimSuffix(strings.TrimPrefix(s, "{"), "}")
	for _, f := range strings.Fields(s) {
		i := strings.LastIndex(f, "×")
		if i < 0 {
			return nil, fmt.Errorf("bad ip set element %q", f)
		}
		n, err := strconv.Atoi(f[i+len("×"):])
		if err != nil {
			return nil, err
		}
		m[f[:i]] = n
	}
	return m, nil
}

func sameSet(a, b map[string]int) bool {
	if len(a) != len(b) {
		return false
	}
	for k, v := range a {
		if b[k] != v {
			return false
		}
	}
	return true
}

// ---------------------------------------------------------------- simulated network

type peer struct {
	id       enode.ID
	versions []*enode.Node // records the node has published (seq 1..)
	offered  map[*enode.Node]bool
}

type network struct {
	mu        sync.Mutex
	dead      map[enode.ID]bool
	current   map[enode.ID]*enode.Node // record the node answers with
	deadPings map[enode.ID]int
	pings     int
	enrReqs   int
	// gated mode (sequential histories): a ping blocks until the harness releases it, so
	// that revalidation responses are only ever in flight inside the clock-advance step.
	gated   bool
	closed  bool
	waiting []*gate
	onPing  func(n *enode.Node) // optional observer (crash scenario)
}

type gate struct {
	id enode.ID
	ch chan struct{}
}

func (nw *network) takeWaiting() []*gate {
	nw.mu.Lock()
	defer nw.mu.Unlock()
	w := nw.waiting
	nw.waiting = nil
	return w
}

// shutdown releases all blocked pings (used before closing the table).
func (nw *network) shutdown() {
	nw.mu.Lock()
	nw.closed = true
	w := nw.waiting
	nw.waiting = nil
	nw.mu.Unlock()
	for _, g := range w {
		close(g.ch)
	}
}

var errTimeout = errors.New("simulated timeout")

func (nw *network) ping(n *enode.Node) (uint64, error) {
	nw.mu.Lock()
	defer nw.mu.Unlock()
	nw.pings++
	if f := nw.onPing; f != nil {
		nw.mu.Unlock()
		f(n)
		nw.mu.Lock()
	}
	if nw.gated && !nw.closed {
		g := &gate{n.ID(), make(chan struct{})}
		nw.waiting = append(nw.waiting, g)
		nw.mu.Unlock()
		<-g.ch
		nw.mu.Lock()
	}
	if nw.dead[n.ID()] {
		nw.deadPings[n.ID()]++
		return 0, errTimeout
	}
	if c := nw.current[n.ID()]; c != nil {
		return c.Seq(), nil
	}
	return n.Seq(), nil
}

func (nw *network) requestENR(n *enode.Node) (*enode.Node, error) {
	nw.mu.Lock()
	defer nw.mu.Unlock()
	nw.enrReqs++
	if nw.dead[n.ID()] || nw.current[n.ID()] == nil {
		return nil, errTimeout
	}
	return nw.current[n.ID()], nil
}

// ---------------------------------------------------------------- history

type history struct {
	r     *vrt.Run
	idx   int
	rng   *rand.Rand
	self  *enode.Node
	tab   *discover.Table
	clock *mclock.Simulated
	nw    *network
	peers []*peer
	byID  map[enode.ID]*peer
	pmu   sync.Mutex // protects peers' version lists in the concurrent variant
	log   []string
	lmu   sync.Mutex
	conc  bool
	taint map[enode.ID]bool // see releasePings
}

func (h *history) logf(f string, a ...any) {
	h.lmu.Lock()
	if len(h.log) >= 400 {
		h.log = h.log[100:]
	}
	h.log = append(h.log, fmt.Sprintf(f, a...))
	h.lmu.Unlock()
}

func (h *history) wit(extra map[string]any) map[string]any {
	h.lmu.Lock()
	defer h.lmu.Unlock()
	w := map[string]any{"history": h.idx, "self": h.self.ID().String(), "last_ops": append([]string{}, h.log[max(0, len(h.log)-60):]...)}
	for k, v := range extra {
		w[k] = v
	}
	return w
}

var publicNets = [][3]byte{{45, 1, 1}, {45, 1, 2}, {99, 9, 9}, {8, 8, 8}, {203, 5, 77}, {150, 20, 3}}

func (h *history) randAddr(rng *rand.Rand) (netip.Addr, bool) {
	switch x := rng.Intn(100); {
	case x < 55:
		n := publicNets[rng.Intn(len(publicNets))]
		return netip.AddrFrom4([4]byte{n[0], n[1], n[2], byte(1 + rng.Intn(250))}), true
	case x < 67:
		return netip.AddrFrom4([4]byte{byte(11 + rng.Intn(100)), byte(rng.Intn(256)), byte(rng.Intn(256)), byte(1 + rng.Intn(250))}), true
	case x < 72:
		return netip.AddrFrom4([4]byte{127, 0, byte(rng.Intn(3)), byte(1 + rng.Intn(250))}), true
	case x < 78:
		return netip.AddrFrom4([4]byte{10, 0, byte(rng.Intn(2)), byte(1 + rng.Intn(250))}), true
	case x < 81:
		return netip.AddrFrom4([4]byte{192, 168, 1, byte(1 + rng.Intn(250))}), true
	case x < 83:
		return netip.AddrFrom4([4]byte{169, 254, 7, byte(1 + rng.Intn(250))}), true
	case x < 85:
		return netip.AddrFrom4([4]byte{172, byte(15 + rng.Intn(18)), 3, byte(1 + rng.Intn(250))}), true // 172.15 and 172.32 are public
	case x < 91:
		b := [16]byte{0x2a, 0x00, 0x14, byte(rng.Intn(2))}
		b[15] = byte(1 + rng.Intn(250))
		b[7] = byte(rng.Intn(4))
		return netip.AddrFrom16(b), true
	case x < 93:
		b := [16]byte{0xfd, 0x12}
		b[15] = byte(1 + rng.Intn(250))
		return netip.AddrFrom16(b), true
	case x < 95:
		b := [16]byte{0xfe, 0x80}
		b[15] = byte(1 + rng.Intn(250))
		return netip.AddrFrom16(b), true
	case x < 96:
		b := [16]byte{0xfe, 0xc0} // just outside fe80::/10
		b[15] = byte(1 + rng.Intn(250))
		return netip.AddrFrom16(b), true
	case x < 97:
		return netip.AddrFrom4([4]byte{0, 0, 0, 0}), true // unspecified: can never be added
	case x < 98:
		b := [16]byte{0, 0, 0, 0, 0, 0, 0, 0, 0, 0, 0xff, 0xff, 45, 1, 1, byte(1 + rng.Intn(250))} // v4-mapped, in an ip6 entry
		return netip.AddrFrom16(b), true
	}
	return netip.Addr{}, false // no IP entry at all
}

func makeNode(id enode.ID, seq uint64, addr netip.Addr, hasIP bool, port int) *enode.Node {
	var r enr.Record
	if hasIP {
		if addr.Is4() {
			r.Set(enr.IPv4Addr(addr))
		} else {
			r.Set(enr.IPv6Addr(addr))
		}
	}
	r.Set(enr.UDP(port))
	r.SetSeq(seq)
	return enode.SignNull(&r, id)
}

func idAtDistance(rng *rand.Rand, self enode.ID, d int) enode.ID {
	if d == 0 {
		return self
	}
	id := self
	bit := d - 1 // bit index from the least significant end
	byteIdx := 31 - bit/8
	id[byteIdx] ^= 1 << uint(bit%8)
	// randomize all lower bits
	for b := 0; b < bit; b++ {
		if rng.Intn(2) == 0 {
			id[31-b/8] ^= 1 << uint(b%8)
		}
	}
	return id
}

func (h *history) newPeer(rng *rand.Rand) *peer {
	var d int
	switch x := rng.Intn(100); {
	case x < 70:
		d = 256 - rng.Intn(3)
	case x < 90:
		d = 253 - rng.Intn(14)
	case x < 98:
		d = 1 + rng.Intn(minDist)
	default:
		d = 0 // the local node itself
	}
	id := idAtDistance(rng, h.self.ID(), d)
	if p := h.byID[id]; p != nil {
		return p
	}
	addr, has := h.randAddr(rng)
	p := &peer{id: id, offered: map[*enode.Node]bool{}}
	p.versions = []*enode.Node{makeNode(id, uint64(rng.Intn(3)), addr, has, 30000+rng.Intn(100))}
	h.peers = append(h.peers, p)
	h.byID[id] = p
	return p
}

// newVersion publishes a new record of p (seq bump; endpoint may move).
func (h *history) newVersion(rng *rand.Rand, p *peer) *enode.Node {
	h.pmu.Lock()
	defer h.pmu.Unlock()
	last := p.versions[len(p.versions)-1]
	addr, has := last.IPAddr(), last.IPAddr().IsValid()
	port := last.UDP()
	switch rng.Intn(4) {
	case 0, 1:
		addr, has = h.randAddr(rng)
	case 2:
		port = 30000 + rng.Intn(100)
	}
	seq := last.Seq() + 1
	if rng.Intn(6) == 0 {
		seq = last.Seq() // same seq, changed content (only inbound updates may apply it)
	}
	n := makeNode(p.id, seq, addr, has, port)
	p.versions = append(p.versions, n)
	return n
}

func (h *history) latest(p *peer) *enode.Node {
	h.pmu.Lock()
	defer h.pmu.Unlock()
	return p.versions[len(p.versions)-1]
}

func (h *history) anyVersion(rng *rand.Rand, p *peer) *enode.Node {
	h.pmu.Lock()
	defer h.pmu.Unlock()
	if rng.Intn(4) == 0 {
		return p.versions[rng.Intn(len(p.versions))]
	}
	return p.versions[len(p.versions)-1]
}

func (h *history) knownVersion(n *enode.Node) bool {
	p := h.byID[n.ID()]
	if p == nil {
		return false
	}
	h.pmu.Lock()
	defer h.pmu.Unlock()
	for _, v := range p.versions {
		if v == n {
			return true
		}
	}
	return false
}

func (h *history) barrier() { h.tab.VerifAddFound(h.self, false) }

// ---------------------------------------------------------------- invariants

type view struct {
	entries map[enode.ID]int // bucket index
	repl    map[enode.ID]int
	order   []enode.ID // entries in bucket order
	live    map[enode.ID]bool
	checks  map[enode.ID]uint
	fp      string
}

func (h *history) check(st discover.VerifTableState, after string) *view {
	r := h.r
	self := h.self.ID()
	v := &view{entries: map[enode.ID]int{}, repl: map[enode.ID]int{}, live: map[enode.ID]bool{}, checks: map[enode.ID]uint{}}
	bad := func(fp, msg string) {
		r.Violation("table:"+fp, fmt.Sprintf("after %s: %s", after, msg), h.wit(map[string]any{"state": dump(st)}))
	}
	if len(st.Buckets) != nBuckets {
		bad("bucket-count", fmt.Sprintf("%d buckets", len(st.Buckets)))
	}
	tableNets := map[string]int{}
	var sb strings.Builder
	for bi, b := range st.Buckets {
		if len(b.Entries) > bucketCap {
			bad("bucket-overfull", fmt.Sprintf("bucket %d has %d entries", bi, len(b.Entries)))
		}
		if len(b.Replacements) > replCap {
			bad("replacements-overfull", fmt.Sprintf("bucket %d has %d replacements", bi, len(b.Replacements)))
		}
		nets := map[string]int{}
		one := func(n discover.VerifNode, isEntry bool) {
			id := n.Node.ID()
			if id == self {
				bad("self-in-table", fmt.Sprintf("local node in bucket %d", bi))
			}
			if _, dup := v.entries[id]; dup {
				bad("duplicate-id", fmt.Sprintf("node %x appears twice (bucket %d)", id[:6], bi))
			}
			if _, dup := v.repl[id]; dup {
				bad("duplicate-id", fmt.Sprintf("node %x appears twice (bucket %d)", id[:6], bi))
			}
			if want := bucketOf(self, id); want != bi {
				bad("wrong-bucket", fmt.Sprintf("node %x at log distance %d is in bucket %d, want %d", id[:6], logDist(self, id), bi, want))
			}
			if isEntry {
				v.entries[id] = bi
				v.order = append(v.order, id)
				v.live[id] = n.Live
				v.checks[id] = n.Checks
				sb.Write(id[:8])
				sb.WriteByte(byte(n.Checks))
				sb.WriteByte(byte(n.Node.Seq()))
				if n.Live {
					sb.WriteByte('L')
				} else {
					sb.WriteByte('-')
				}
			} else {
				v.repl[id] = bi
				sb.WriteByte('r')
				sb.Write(id[:8])
			}
			if !h.knownVersion(n.Node) {
				bad("phantom-node", fmt.Sprintf("node %x (seq %d, %v) in the table was never offered", id[:6], n.Node.Seq(), n.Node.IPAddr()))
			}
			ip := n.Node.IPAddr()
			if !ip.IsValid() || ip.IsUnspecified() {
				bad("node-without-ip", fmt.Sprintf("node %x with address %v in the table", id[:6], ip))
				return
			}
			if !isLAN(ip) {
				k := subnetKey(ip)
				nets[k]++
				tableNets[k]++
			}
		}
		for _, n := range b.Entries {
			one(n, true)
		}
		sb.WriteByte('|')
		for _, n := range b.Replacements {
			one(n, false)
		}
		sb.WriteByte('\n')
		for k, c := range nets {
			if c > bucketSubnetCt {
				bad("bucket-subnet-limit", fmt.Sprintf("bucket %d holds %d nodes of %s", bi, c, k))
			}
		}
		got, err := parseIPSet(b.IPs)
		if err != nil {
			bad("ipset-parse", err.Error())
		} else if !sameSet(got, nets) {
			bad("bucket-ipset-mismatch", fmt.Sprintf("bucket %d IP set %s, recount from members %v", bi, b.IPs, nets))
		}
	}
	for k, c := range tableNets {
		if c > tableSubnetCt {
			bad("table-subnet-limit", fmt.Sprintf("table holds %d nodes of %s", c, k))
		}
	}
	got, err := parseIPSet(st.IPs)
	if err != nil {
		bad("ipset-parse", err.Error())
	} else if !sameSet(got, tableNets) {
		bad("table-ipset-mismatch", fmt.Sprintf("table IP set %s, recount from members %v", st.IPs, tableNets))
	}
	v.fp = sb.String()
	return v
}

func dump(st discover.VerifTableState) []string {
	var out []string
	for _, b := range st.Buckets {
		if len(b.Entries)+len(b.Replacements) == 0 {
			continue
		}
		var sb strings.Builder
		fmt.Fprintf(&sb, "bucket %d ips=%s entries:", b.Index, b.IPs)
		for _, n := range b.Entries {
			id := n.Node.ID()
			fmt.Fprintf(&sb, " %x/%v/seq%d/live=%v/c%d", id[:4], n.Node.IPAddr(), n.Node.Seq(), n.Live, n.Checks)
		}
		sb.WriteString(" repl:")
		for _, n := range b.Replacements {
			id := n.Node.ID()
			fmt.Fprintf(&sb, " %x/%v", id[:4], n.Node.IPAddr())
		}
		out = append(out, sb.String())
	}
	out = append(out, "table ips="+st.IPs)
	return out
}

// stable runs q between two snapshots and reports the view if the table did not change.
func (h *history) stable(q func()) (*view, discover.VerifTableState, bool) {
	for try := 0; try < 4; try++ {
		s1 := h.tab.VerifSnapshot()
		v1 := h.check(s1, "query")
		q()
		s2 := h.tab.VerifSnapshot()
		v2 := h.check(s2, "query")
		if v1.fp == v2.fp {
			return v1, s1, true
		}
		h.r.Count("unstable_query_retries", 1)
	}
	return nil, discover.VerifTableState{}, false
}

func (h *history) queryClosest(rng *rand.Rand) {
	var target enode.ID
	switch rng.Intn(4) {
	case 0:
		rng.Read(target[:])
	case 1:
		target = h.self.ID()
	case 2:
		target = h.peers[rng.Intn(len(h.peers))].id
	default:
		target = idAtDistance(rng, h.peers[rng.Intn(len(h.peers))].id, 1+rng.Intn(256))
	}
	n := []int{1, 2, 5, 16, 16, 16, 17, 40, 500}[rng.Intn(9)]
	preferLive := rng.Intn(2) == 0
	var res []*enode.Node
	v, _, ok := h.stable(func() { res = h.tab.VerifFindnodeByID(target, n, preferLive) })
	if !ok {
		h.r.Count("query_skipped_unstable", 1)
		return
	}
	// reference: sort the (live) entries by XOR distance
	var cand []enode.ID
	if preferLive {
		for _, id := range v.order {
			if v.live[id] {
				cand = append(cand, id)
			}
		}
	}
	usedLive := len(cand) > 0
	if !usedLive {
		cand = append(cand, v.order...)
	}
	sort.Slice(cand, func(i, j int) bool { return xorCmp(target, cand[i], cand[j]) < 0 })
	if len(cand) > n {
		cand = cand[:n]
	}
	okRes := len(res) == len(cand)
	for i := 0; okRes && i < len(res); i++ {
		okRes = res[i].ID() == cand[i]
	}
	h.r.Count("closest_queries", 1)
	if usedLive {
		h.r.Count("closest_queries_live_filtered", 1)
	}
	if !okRes {
		var g, w []string
		for _, x := range res {
			id := x.ID()
			g = append(g, fmt.Sprintf("%x", id[:6]))
		}
		for _, id := range cand {
			w = append(w, fmt.Sprintf("%x", id[:6]))
		}
		h.r.Violation("table:closest-mismatch", fmt.Sprintf("findnodeByID(target=%x, n=%d, preferLive=%v) = %v, reference %v", target[:6], n, preferLive, g, w),
			h.wit(map[string]any{"target": target.String()}))
	}
	h.shape(fmt.Sprintf("closest/n%d/live%v/used%v/size%d/full%v", n, preferLive, usedLive, bucketSz(len(v.order)), len(res) == n))
}

func bucketSz(n int) int {
	switch {
	case n == 0:
		return 0
	case n <= 4:
		return 4
	case n <= 16:
		return 16
	case n <= 48:
		return 48
	}
	return 100
}

func (h *history) queryNodes() {
	var pub [][]discover.BucketNode
	v, st, ok := h.stable(func() { pub = h.tab.Nodes() })
	if !ok {
		return
	}
	_ = v
	same := len(pub) == len(st.Buckets)
	for i := 0; same && i < len(pub); i++ {
		same = len(pub[i]) == len(st.Buckets[i].Entries)
		for j := 0; same && j < len(pub[i]); j++ {
			e := st.Buckets[i].Entries[j]
			same = pub[i][j].Node == e.Node && pub[i][j].Live == e.Live && pub[i][j].Checks == int(e.Checks)
		}
	}
	h.r.Count("nodes_view_checks", 1)
	if !same {
		h.r.Violation("table:nodes-view-mismatch", "Table.Nodes() differs from the bucket entries", h.wit(map[string]any{"state": dump(st)}))
	}
}

func (h *history) shape(s string) { h.r.Eval(s) }

// releasePings lets the blocked revalidation pings answer one at a time and waits until the
// table shows the effect of each response (liveness counter changed or node gone) before
// going on, so that no response is in flight when the next operation starts. The waiting is
// bounded; a node whose response could not be observed is "tainted": the harness does not
// call deleteNode on it any more (see the report: deleteNode racing with a revalidation
// response crashes the table loop). No verdict depends on the timing.
func (h *history) releasePings() {
	for round := 0; round < 4; round++ {
		h.barrier()
		h.barrier()
		for i := 0; i < 20; i++ {
			runtime.Gosched()
		}
		gates := h.nw.takeWaiting()
		if len(gates) == 0 {
			return
		}
		for _, g := range gates {
			pre := h.check(h.tab.VerifSnapshot(), "clock advance")
			_, isEntry := pre.entries[g.id]
			c0 := pre.checks[g.id]
			close(g.ch)
			h.r.Count("pings_released", 1)
			if !isEntry {
				// response belongs to a node that is gone: it is dropped by the table
				h.taint[g.id] = true
				continue
			}
			seen := false
			for i := 0; i < 20000 && !seen; i++ {
				h.barrier()
				st := h.tab.VerifGetNode(g.id)
				if st == nil {
					seen = true
					break
				}
				post := h.check(h.tab.VerifSnapshot(), "clock advance")
				if _, ok := post.entries[g.id]; !ok || post.checks[g.id] != c0 {
					seen = true
					break
				}
				if i > 50 {
					time.Sleep(50 * time.Microsecond)
				} else {
					runtime.Gosched()
				}
			}
			if !seen {
				h.taint[g.id] = true
				h.r.Count("ping_effect_not_observed", 1)
			}
		}
	}
}

// ---------------------------------------------------------------- operations (sequential mode)

func (h *history) pick(rng *rand.Rand) *peer {
	if len(h.peers) == 0 || (len(h.peers) < 400 && rng.Intn(3) == 0) {
		return h.newPeer(rng)
	}
	return h.peers[rng.Intn(len(h.peers))]
}

func (h *history) offer(n *enode.Node) { /* versions are registered at creation */ }

func where(v *view, id enode.ID) string {
	if _, ok := v.entries[id]; ok {
		return "entry"
	}
	if _, ok := v.repl[id]; ok {
		return "repl"
	}
	return "absent"
}

func (h *history) deadPingsOf(id enode.ID) int {
	h.nw.mu.Lock()
	defer h.nw.mu.Unlock()
	return h.nw.deadPings[id]
}

func (h *history) step(rng *rand.Rand, k int) {
	r := h.r
	tab := h.tab
	pre := h.check(tab.VerifSnapshot(), "pre")
	op := rng.Intn(100)
	switch {
	case op < 34: // found node
		p := h.pick(rng)
		n := h.anyVersion(rng, p)
		force := rng.Intn(5) == 0
		dp := h.deadPingsOf(p.id)
		was := where(pre, p.id)
		ok := tab.VerifAddFound(n, force)
		post := h.check(tab.VerifSnapshot(), "addFound")
		now := where(post, p.id)
		h.logf("#%d addFound %x seq%d %v force=%v -> %v (%s->%s)", k, p.id[:4], n.Seq(), n.IPAddr(), force, ok, was, now)
		if ok && now != "entry" && h.deadPingsOf(p.id) == dp {
			r.Violation("table:added-but-absent", fmt.Sprintf("addFoundNode(%x) returned true but the node is %s", p.id[:6], now), h.wit(nil))
		}
		if ok && was == "entry" && h.deadPingsOf(p.id) == 0 {
			// (a node that never failed a ping cannot have been removed by revalidation
			// between the snapshot and the call)
			r.Violation("table:added-twice", fmt.Sprintf("addFoundNode(%x) returned true for a node that was already an entry", p.id[:6]), h.wit(nil))
		}
		if ok {
			r.Count("adds_accepted", 1)
		}
		h.shape(fmt.Sprintf("addFound/%s->%s/%v/lan%v/full%v", was, now, ok, n.IPAddr().IsValid() && isLAN(n.IPAddr()), bucketFull(pre, h.self.ID(), p.id)))
	case op < 46: // inbound contact, possibly with a changed endpoint
		p := h.pick(rng)
		var n *enode.Node
		if rng.Intn(3) == 0 {
			n = h.newVersion(rng, p)
			h.nw.mu.Lock()
			h.nw.current[p.id] = n
			h.nw.mu.Unlock()
		} else {
			n = h.anyVersion(rng, p)
		}
		dp := h.deadPingsOf(p.id)
		was := where(pre, p.id)
		ok := tab.VerifAddInbound(n)
		post := h.check(tab.VerifSnapshot(), "addInbound")
		now := where(post, p.id)
		h.logf("#%d addInbound %x seq%d %v -> %v (%s->%s)", k, p.id[:4], n.Seq(), n.IPAddr(), ok, was, now)
		if ok && now != "entry" && h.deadPingsOf(p.id) == dp {
			r.Violation("table:added-but-absent", fmt.Sprintf("addInboundNode(%x) returned true but the node is %s", p.id[:6], now), h.wit(nil))
		}
		if ok {
			r.Count("adds_accepted", 1)
		}
		h.shape(fmt.Sprintf("addInbound/%s->%s/%v/full%v", was, now, ok, bucketFull(pre, h.self.ID(), p.id)))
	case op < 54: // delete
		var p *peer
		if len(pre.order) > 0 && rng.Intn(4) != 0 {
			p = h.byID[pre.order[rng.Intn(len(pre.order))]]
		} else {
			p = h.pick(rng)
		}
		if h.taint[p.id] {
			r.Count("deletes_skipped_tainted", 1)
			return
		}
		if r.Race() {
			// deleteNode mutates the revalidation lists under Table.mutex while the loop's
			// tableRevalidation.run reads them without it: a data race that belongs to the
			// reported deleteNode defect (known finding); keep the race variant about the rest.
			tab.VerifGetNode(p.id)
			return
		}
		was := where(pre, p.id)
		tab.VerifDelete(h.latest(p))
		post := h.check(tab.VerifSnapshot(), "deleteNode")
		now := where(post, p.id)
		h.logf("#%d delete %x (%s->%s)", k, p.id[:4], was, now)
		if was != "repl" && now != "absent" {
			r.Violation("table:deleted-still-present", fmt.Sprintf("deleteNode(%x): node was %s before and is %s afterwards", p.id[:6], was, now), h.wit(nil))
		}
		if was == "entry" {
			r.Count("deletes_of_entries", 1)
			// a replacement may only be promoted into the freed slot
			if bi := pre.entries[p.id]; countIn(post.entries, bi) > countIn(pre.entries, bi) {
				r.Violation("table:bucket-grew-on-delete", fmt.Sprintf("bucket %d grew during a delete", bi), h.wit(nil))
			}
		}
		h.shape(fmt.Sprintf("delete/%s->%s/repl%v", was, now, hasRepl(pre, h.self.ID(), p.id)))
	case op < 64: // findnode bookkeeping
		var p *peer
		if len(pre.order) > 0 && rng.Intn(3) != 0 {
			p = h.byID[pre.order[rng.Intn(len(pre.order))]]
		} else {
			p = h.pick(rng)
		}
		success := rng.Intn(3) != 0
		var found []*enode.Node
		if success {
			for i := rng.Intn(17); i > 0; i-- {
				found = append(found, h.anyVersion(rng, h.pick(rng)))
			}
		}
		was := where(pre, p.id)
		tab.VerifTrackRequest(h.latest(p), success, found)
		h.barrier()
		post := h.check(tab.VerifSnapshot(), "trackRequest")
		now := where(post, p.id)
		h.logf("#%d trackRequest %x success=%v found=%d (%s->%s)", k, p.id[:4], success, len(found), was, now)
		if was == "entry" && now != "entry" {
			r.Count("removed_by_findfails", 1)
		}
		h.shape(fmt.Sprintf("track/%v/%s->%s/found%d", success, was, now, bucketSz(len(found))))
	case op < 72: // liveness / record changes in the simulated network
		p := h.pick(rng)
		if len(pre.order) > 0 && rng.Intn(3) != 0 {
			p = h.byID[pre.order[rng.Intn(len(pre.order))]]
		}
		h.nw.mu.Lock()
		switch rng.Intn(3) {
		case 0:
			h.nw.dead[p.id] = true
		case 1:
			delete(h.nw.dead, p.id)
		}
		h.nw.mu.Unlock()
		if rng.Intn(2) == 0 {
			n := h.newVersion(rng, p)
			h.nw.mu.Lock()
			h.nw.current[p.id] = n
			h.nw.mu.Unlock()
			h.logf("#%d network: %x publishes seq%d %v", k, p.id[:4], n.Seq(), n.IPAddr())
		}
		if rng.Intn(10) == 0 { // mass failure
			h.nw.mu.Lock()
			for _, id := range pre.order {
				if rng.Intn(2) == 0 {
					h.nw.dead[id] = true
				}
			}
			h.nw.mu.Unlock()
			h.logf("#%d network: mass failure", k)
		}
		h.shape("network")
	case op < 86: // time passes: revalidation runs
		d := time.Duration(200+rng.Intn(6000)) * time.Millisecond
		h.clock.Run(d)
		h.releasePings()
		post := h.check(tab.VerifSnapshot(), "clock advance")
		promoted, removed, revalidated := 0, 0, 0
		for id := range post.entries {
			if _, ok := pre.repl[id]; ok {
				promoted++
			}
			if post.checks[id] > pre.checks[id] {
				revalidated++
			}
		}
		for id := range pre.entries {
			if where(post, id) == "absent" {
				removed++
			}
		}
		r.Count("promotions_observed", promoted)
		r.Count("reval_removals_observed", removed)
		r.Count("reval_success_observed", revalidated)
		h.logf("#%d clock +%v promoted=%d removed=%d revalidated=%d", k, d, promoted, removed, revalidated)
		h.shape(fmt.Sprintf("clock/p%v/r%v/v%v", promoted > 0, removed > 0, revalidated > 0))
	case op < 97:
		h.queryClosest(rng)
	default:
		h.queryNodes()
	}
}

func countIn(m map[enode.ID]int, bi int) int {
	n := 0
	for _, b := range m {
		if b == bi {
			n++
		}
	}
	return n
}

func bucketFull(v *view, self, id enode.ID) bool {
	return countIn(v.entries, bucketOf(self, id)) >= bucketCap
}

func hasRepl(v *view, self, id enode.ID) bool { return countIn(v.repl, bucketOf(self, id)) > 0 }

// ---------------------------------------------------------------- concurrent mode

// concurrent drives the table from several goroutines; only state invariants are judged.
func (h *history) concurrent(nops int) {
	var wg sync.WaitGroup
	// the peer pool is fixed in this mode (new versions are still published)
	seed := h.rng.Int63()
	for len(h.peers) < 150 {
		h.newPeer(h.rng)
	}
	workers := 4
	for w := 0; w < workers; w++ {
		wg.Add(1)
		go func(w int) {
			defer wg.Done()
			rng := rand.New(rand.NewSource(seed + int64(w)))
			for k := 0; k < nops/workers && !h.r.Violated(); k++ {
				p := h.peers[rng.Intn(len(h.peers))]
				switch op := rng.Intn(100); {
				case op < 30:
					h.tab.VerifAddFound(h.anyVersion(rng, p), rng.Intn(5) == 0)
				case op < 42:
					n := h.anyVersion(rng, p)
					if rng.Intn(3) == 0 {
						n = h.newVersion(rng, p)
						h.nw.mu.Lock()
						h.nw.current[p.id] = n
						h.nw.mu.Unlock()
					}
					h.tab.VerifAddInbound(n)
				case op < 52:
					// deleteNode is not issued here: concurrently with a revalidation
					// response it crashes the table loop (reported defect, exercised by the
					// separate child scenario). A query instead.
					h.tab.VerifGetNode(p.id)
				case op < 60:
					var found []*enode.Node
					for i := rng.Intn(10); i > 0; i-- {
						found = append(found, h.anyVersion(rng, h.peers[rng.Intn(len(h.peers))]))
					}
					h.tab.VerifTrackRequest(h.latest(p), rng.Intn(3) != 0, found)
				case op < 66:
					h.nw.mu.Lock()
					if rng.Intn(2) == 0 {
						h.nw.dead[p.id] = true
					} else {
						delete(h.nw.dead, p.id)
					}
					h.nw.mu.Unlock()
				case op < 76:
					h.clock.Run(time.Duration(200+rng.Intn(4000)) * time.Millisecond)
				case op < 84:
					var t enode.ID
					rng.Read(t[:])
					res := h.tab.VerifFindnodeByID(t, 16, rng.Intn(2) == 0)
					for i := 1; i < len(res); i++ {
						if xorCmp(t, res[i-1].ID(), res[i].ID()) >= 0 {
							h.r.Violation("table:closest-unordered", "findnodeByID result not strictly ordered by distance", h.wit(nil))
						}
					}
				case op < 88:
					h.tab.Nodes()
				default:
					h.check(h.tab.VerifSnapshot(), "concurrent ops")
					h.r.Count("concurrent_snapshots", 1)
				}
				h.r.Count("concurrent_ops", 1)
			}
		}(w)
	}
	wg.Wait()
	h.barrier()
	h.check(h.tab.VerifSnapshot(), "concurrent history end")
	h.r.Eval(fmt.Sprintf("concurrent/%d", bucketSz(nops/100)))
}

// ---------------------------------------------------------------- run

func runHistory(r *vrt.Run, idx int, conc bool) {
	rng := r.Rand("hist", idx)
	h := &history{r: r, idx: idx, rng: rng, clock: new(mclock.Simulated), byID: map[enode.ID]*peer{}, conc: conc, taint: map[enode.ID]bool{}}
	h.nw = &network{dead: map[enode.ID]bool{}, current: map[enode.ID]*enode.Node{}, deadPings: map[enode.ID]int{}}
	var selfID enode.ID
	rng.Read(selfID[:])
	h.self = makeNode(selfID, 1, netip.AddrFrom4([4]byte{127, 0, 0, 1}), true, 30303)
	cfg := discover.Config{Clock: h.clock, Log: log.NewLogger(log.DiscardHandler())}
	if rng.Intn(3) == 0 {
		cfg.PingInterval = time.Duration(500+rng.Intn(8000)) * time.Millisecond
	}
	r.Case("history %d conc=%v", idx, conc)
	tab, db, err := discover.VerifNewTable(h.self, h.nw.ping, h.nw.requestENR, cfg, rng.Int63()|1)
	if err != nil {
		r.Inconclusive("cannot create table: %v", err)
		return
	}
	h.tab = tab
	defer db.Close()
	defer tab.VerifClose()
	defer h.nw.shutdown()
	h.nw.mu.Lock()
	h.nw.gated = !conc
	h.nw.mu.Unlock()
	for i := 0; i < 10; i++ {
		h.newPeer(rng)
	}
	nops := 200 + rng.Intn(1801)
	if r.Race() {
		nops = 100 + rng.Intn(500)
	}
	if conc {
		h.concurrent(nops)
	} else {
		for k := 0; k < nops && !r.Violated(); k++ {
			h.step(rng, k)
		}
	}
	h.nw.mu.Lock()
	r.Count("pings", h.nw.pings)
	r.Count("enr_requests", h.nw.enrReqs)
	h.nw.mu.Unlock()
	r.Count("histories", 1)
	r.Count("peers_created", len(h.peers))
	if idx == 0 && r.WantSample() {
		r.Sample(map[string]any{"history": idx, "ops": nops, "tail": h.wit(nil)["last_ops"], "final": dump(tab.VerifSnapshot())})
	}
}

func run(r *vrt.Run) {
	r.Rule("a case is one operation of a random history (200-2000 operations) on a real Table with its own loop, simulated clock and simulated ping/ENR transport: found/inbound adds of node records (ids concentrated at log distances 256-254, spread over 253-240, below the bucket floor, and the local id; addresses from 6 public /24s plus unique public, loopback, RFC1918, link-local, public/ULA/link-local IPv6, v4-mapped, unspecified, none), record updates with endpoint moves, deletes, findnode success/failure bookkeeping with found lists, liveness changes, clock advances driving revalidation, closest-node queries and Nodes(); signature = (operation, where the node was before->after, result, bucket-full/replacement/LAN flags or query shape)")
	n := r.N(200, 5000)
	if r.Race() {
		n = n / 4
	}
	vrt.Par(n, 0, func(i int) {
		// every fourth history is driven concurrently (all of them in the race build get
		// concurrent drivers on odd indices)
		conc := i%4 == 3
		if r.Race() {
			conc = i%2 == 1
		}
		runHistory(r, i, conc)
	})
	if !r.Race() {
		r.Logf("deleteNode vs revalidation response scenario")
		runDelRace(r)
	}
	r.Require("adds_accepted", int64(n*10))
	r.Require("closest_queries", int64(n*5))
	r.Require("pings", int64(n*5))
	if !r.Race() {
		r.Require("promotions_observed", int64(n/4))
		r.Require("reval_removals_observed", int64(n/4))
		r.Require("reval_success_observed", int64(n/2))
		r.Require("deletes_of_entries", int64(n))
	}
	r.Assume("snapshot taken by the verif hook under Table.mutex; IP sets read through DistinctNetSet.String()")
	r.Assume("subnet key = netip.Addr.Prefix(24) of the node's address as stored (no unmapping), LAN = loopback/RFC1918/link-local/ULA judged after unmapping: the policy the table documents (IP limits do not apply to LAN addresses)")
}
