package main

// Scenario "deleteNode concurrent with an in-flight revalidation response", run in a child
// process because the failure mode is a fatal nil dereference in the table's own goroutine:
// tableRevalidation.handleResponse tests n.revalList == nil before it takes Table.mutex;
// Table.deleteNode (public as UDPv5.DeleteNode) clears n.revalList under the mutex from
// another goroutine; handleResponse then dereferences n.revalList.

import (
	"fmt"
	"math/rand"
	"net/netip"
	"os"
	"runtime"
	"strconv"
	"strings"
	"sync"
	"sync/atomic"
	"time"

	"github.com/ethereum/go-ethereum/common/mclock"
	"github.com/ethereum/go-ethereum/log"
	"github.com/ethereum/go-ethereum/p2p/discover"
	"github.com/ethereum/go-ethereum/p2p/enode"

	"verif/lib/vrt"
)

func init() { vrt.RegisterChild("delrace", delRaceChild) }

func delRaceChild(r *vrt.Run) {
	rounds, _ := strconv.Atoi(os.Getenv("C46_ROUNDS"))
	rng := rand.New(rand.NewSource(r.Seed*7919 + 13))
	clock := new(mclock.Simulated)
	nw := &network{dead: map[enode.ID]bool{}, current: map[enode.ID]*enode.Node{}, deadPings: map[enode.ID]int{}}
	var selfID enode.ID
	rng.Read(selfID[:])
	self := makeNode(selfID, 1, netip.AddrFrom4([4]byte{127, 0, 0, 1}), true, 30303)
	cfg := discover.Config{Clock: clock, Log: log.NewLogger(log.DiscardHandler()), PingInterval: time.Second}
	tab, db, err := discover.VerifNewTable(self, nw.ping, nw.requestENR, cfg, r.Seed|1)
	if err != nil {
		fmt.Println("setup failed:", err)
		os.Exit(3)
	}
	defer db.Close()
	var nodes []*enode.Node
	for i := 0; i < 16; i++ {
		n := makeNode(idAtDistance(rng, selfID, 256), 1, netip.AddrFrom4([4]byte{10, 0, 0, byte(1 + i)}), true, 30303)
		nodes = append(nodes, n)
		tab.VerifAddFound(n, true)
	}
	var wg sync.WaitGroup
	var spin atomic.Int32
	nw.mu.Lock()
	nw.onPing = func(n *enode.Node) {
		// n is being revalidated right now: delete it while the response is on its way
		wg.Add(2)
		s := int(spin.Load())
		go func() {
			defer wg.Done()
			for i := 0; i < s; i++ {
				runtime.Gosched()
			}
			tab.VerifDelete(n)
		}()
		go func() {
			defer wg.Done()
			for i := 0; i < 40; i++ {
				tab.VerifSnapshot() // holds Table.mutex for a moment
			}
		}()
	}
	nw.mu.Unlock()
	for k := 0; k < rounds; k++ {
		spin.Store(int32(rng.Intn(6)))
		clock.Run(1500 * time.Millisecond)
		tab.VerifAddFound(self, false) // round trip through the table loop
		tab.VerifAddFound(self, false)
		wg.Wait()
		for _, n := range nodes {
			tab.VerifAddFound(n, true)
		}
	}
	nw.mu.Lock()
	p := nw.pings
	nw.mu.Unlock()
	tab.VerifClose()
	fmt.Printf("delrace: survived %d rounds, %d pings raced with deleteNode\n", rounds, p)
}

// runDelRace runs the child a fixed number of times and reports the first death.
func runDelRace(r *vrt.Run) {
	const attempts, rounds = 4, 4000
	for a := 0; a < attempts; a++ {
		r.Case("delete-vs-revalidation child attempt %d", a)
		cr := r.Child("delrace", []string{"C46_ROUNDS=" + strconv.Itoa(rounds), "VERIF_SEED=" + strconv.FormatInt(r.Seed*10+int64(a), 10)}, 10*time.Minute)
		out := string(cr.Output)
		r.Count("delrace_child_runs", 1)
		switch {
		case cr.TimedOut:
			r.Inconclusive("delete-vs-revalidation child timed out")
			return
		case cr.Exit == 0 && strings.Contains(out, "survived"):
			r.Eval("delrace/survived")
			continue
		}
		tail := out
		if i := strings.Index(tail, "panic:"); i >= 0 {
			tail = tail[i:]
		} else if i := strings.Index(tail, "[signal"); i >= 0 {
			tail = tail[max(0, i-200):]
		}
		if len(tail) > 3000 {
			tail = tail[:3000]
		}
		w := map[string]any{"attempt": a, "rounds": rounds, "exit": cr.Exit, "signal": cr.Signal, "output": tail,
			"scenario": "16 LAN nodes in one bucket (forceSetLive); every revalidation ping triggers a concurrent Table.deleteNode of the pinged node plus lock contention from snapshots; nodes are re-added each round"}
		nilDeref := strings.Contains(out, "nil pointer dereference") || strings.Contains(out, "SIGSEGV")
		if nilDeref && strings.Contains(out, "tableRevalidation).handleResponse") {
			r.Violation("table:crash:delete-vs-revalidation-response",
				"table loop died with a nil dereference in tableRevalidation.handleResponse: n.revalList is tested before Table.mutex is taken, a concurrent deleteNode clears it in between", w)
		} else {
			site := "unknown"
			if i := strings.Index(out, "goroutine "); i >= 0 {
				site = vrt.PanicSite(out[i:])
			}
			r.Violation("table:crash:delete-scenario:"+site, "table process died in the deleteNode/revalidation scenario (not the known nil dereference)", w)
		}
		r.Eval("delrace/died")
		return
	}
}
