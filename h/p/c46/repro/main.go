//go:build verif

// Standalone reproduction of the C46 known finding: Table.deleteNode (UDPv5.DeleteNode)
// racing with a revalidation response kills the table loop with a nil dereference in
// tableRevalidation.handleResponse. Build: cd /verif/h && go build -tags verif -o /tmp/repro ./p/c46/repro
package main

import (
	"fmt"
	"net/netip"
	"sync"
	"time"

	"github.com/ethereum/go-ethereum/common/mclock"
	"github.com/ethereum/go-ethereum/p2p/discover"
	"github.com/ethereum/go-ethereum/p2p/enode"
	"github.com/ethereum/go-ethereum/p2p/enr"
)

func node(id enode.ID, ip byte) *enode.Node {
	var r enr.Record
	r.Set(enr.IPv4Addr(netip.AddrFrom4([4]byte{10, 0, 0, ip})))
	r.Set(enr.UDP(30303))
	return enode.SignNull(&r, id)
}

func main() {
	var tab *discover.Table
	var wg sync.WaitGroup
	clock := new(mclock.Simulated)
	ping := func(n *enode.Node) (uint64, error) { // the pinged node is deleted while its pong is under way
		wg.Add(2)
		go func() { defer wg.Done(); tab.VerifDelete(n) }() // == UDPv5.DeleteNode
		go func() {
			defer wg.Done()
			for i := 0; i < 40; i++ {
				tab.VerifSnapshot()
			}
		}() // lock contention widens the window
		return n.Seq(), nil
	}
	self := node(enode.ID{}, 1)
	tab, _, _ = discover.VerifNewTable(self, ping, func(n *enode.Node) (*enode.Node, error) { return n, nil },
		discover.Config{Clock: clock, PingInterval: time.Second}, 1)
	var nodes []*enode.Node
	for i := 0; i < 16; i++ {
		nodes = append(nodes, node(enode.ID{0x80, byte(i)}, byte(2+i)))
	}
	for round := 0; round < 20000; round++ {
		for _, n := range nodes {
			tab.VerifAddFound(n, true)
		}
		clock.Run(1500 * time.Millisecond)
		tab.VerifAddFound(self, false) // round trip through the loop
		wg.Wait()
		if round%1000 == 0 {
			fmt.Println("round", round)
		}
	}
	fmt.Println("survived")
}
