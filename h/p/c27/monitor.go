package main

import (
	"errors"
	"fmt"
	"math/big"

	"github.com/ethereum/go-ethereum/common"
	"github.com/ethereum/go-ethereum/core/tracing"
	"github.com/ethereum/go-ethereum/core/vm"
	"github.com/ethereum/go-ethereum/params"

	"verif/lib/proggen"
)

// The monitor checks accounting identities over the core/tracing hook stream of ONE
// execution. The conventions below were read off the unchanged tree (core/vm/interpreter.go,
// evm.go, contract.go, operations_acl.go) and are held fixed:
//
//   - every successfully charged step emits OnGasChange(reason=CallOpCode, old=gas, new=gas-cost)
//     immediately followed by OnOpcode(gas, cost); for CALL/CALLCODE/DELEGATECALL/STATICCALL
//     `cost` already contains the gas handed to the child (callGasTemp), for CREATE/CREATE2 it
//     does not: the forwarded amount is a separate OnGasChange(CallContractCreation[2]) event;
//   - a child frame's events are bracketed by OnEnter/OnExit: CallInitialBalance({} -> start)
//     after OnEnter; CallFailedExecution(g -> exit) on exceptional halts; CallLeftOverReturned
//     (leftover -> {}) when the leftover is non-zero, right before OnExit;
//   - the parent then gets CallLeftOverRefunded(old -> old+leftover);
//   - CallStorageColdAccess events are emitted from inside the dynamic-gas function of the
//     CALL family *before* the CallOpCode event and are then re-added and re-charged as part
//     of `cost` (informational duplicates): they are not part of the gap-free chain;
//   - a step that fails while being charged emits no CallOpCode event; the deferred OnOpcode
//     (err != nil) still reports the gas at step start;
//   - Amsterdam (EIP-8037 two-dimensional gas): state-gas charged through an opcode's dynamic
//     cost (SSTORE slot creation, CALL/SELFDESTRUCT account creation) and the inline SSTORE
//     state refund change the execution balance by spill-over / repayment WITHOUT an event.
//     For these opcodes the execution-gas identities are relaxed to the documented bounds
//     (|delta| <= StorageCreationSize*CostPerStateByte resp. 0 <= delta <= AccountCreationSize*
//     CostPerStateByte); all other steps are exact in every rule set.
type monitor struct {
	amsterdam bool
	frames    []*frame
	viol      []violation // first few violations of this execution
	// statistics
	steps, framesSeen, contEq, chainEq, enterChecks, exitChecks, memChecks int
	maxDepth, maxMem, maxStack                                             int
	faults                                                                 int
	gasOpSeen, sstoreSeen, sawChild                                        bool
	ops                                                                    [256]bool
	top                                                                    *exitInfo // exit of the depth-0 frame
	pendingOp                                                              gasEvt    // CallOpCode event waiting for its OnOpcode
	havePending                                                            bool
	dupOpEvents                                                            int
	reasons                                                                map[tracing.GasChangeReason]int
	errKinds                                                               map[string]bool
}

type violation struct{ fp, msg string }

type gasEvt struct{ old, new tracing.Gas }

type exitInfo struct {
	start    uint64
	leftover tracing.Gas
	err      error
	typ      byte
	stipend  uint64
}

type frame struct {
	depth    int // OnEnter depth
	typ      byte
	start    uint64
	cur      tracing.Gas // `new` of the last chain event of this frame
	curValid bool
	// step tracking
	haveStep bool
	lastOp   byte
	expect   uint64 // execution gas expected at the next step: gas - cost + sum of chain deltas
	loose    bool   // an unreported (Amsterdam state-gas) change may have happened since the last exact point
	looseLo  uint64 // allowed silent loss
	looseHi  uint64 // allowed silent gain
	selfUsed uint64 // execution gas consumed by this frame itself (children excluded), up to now
	memLen   int
	maxMem   int
	// children
	forwarded   uint64 // CREATE: amount of the last forwardGas event
	haveForward bool
	lastChild   *exitInfo // last exited child, consumed by the CallLeftOverRefunded event
	leftover    tracing.Gas
	haveLeft    bool
	failedEvt   bool
	nsteps      int
	pseudo      bool
	value       bool
	lastCostV   uint64 // cost of the last step
	// stipend granted to the child currently running / just exited
	pendingStipend uint64
}

func newMonitor(amsterdam bool) *monitor {
	return &monitor{amsterdam: amsterdam, reasons: map[tracing.GasChangeReason]int{}, errKinds: map[string]bool{}}
}

func (m *monitor) bad(fp, format string, a ...any) {
	if len(m.viol) < 4 {
		m.viol = append(m.viol, violation{fp, fmt.Sprintf(format, a...)})
	}
}

func (m *monitor) cur() *frame {
	if len(m.frames) == 0 {
		return nil
	}
	return m.frames[len(m.frames)-1]
}

var (
	stateSet  = uint64(params.StorageCreationSize) * params.CostPerStateByte
	acctState = uint64(params.AccountCreationSize) * params.CostPerStateByte
)

func isCallOp(op byte) bool {
	return op == proggen.CALL || op == proggen.CALLCODE || op == proggen.DELEGATECALL || op == proggen.STATICCALL
}
func isCreateOp(op byte) bool { return op == proggen.CREATE || op == proggen.CREATE2 }

func (m *monitor) hooks() *tracing.Hooks {
	return &tracing.Hooks{OnEnter: m.onEnter, OnExit: m.onExit, OnOpcode: m.onOpcode, OnFault: m.onFault, OnGasChangeV2: m.onGas}
}

func (m *monitor) onEnter(depth int, typ byte, from, to common.Address, input []byte, gas uint64, value *big.Int) {
	m.framesSeen++
	if depth > m.maxDepth {
		m.maxDepth = depth
	}
	// Frames exist at OnEnter depth 0..1025; the ones at 1025 fail with ErrDepth before running.
	if depth > 1025 {
		m.bad("depth", "OnEnter at depth %d", depth)
	}
	if depth != len(m.frames) {
		m.bad("enter-depth", "OnEnter depth %d with %d open frames", depth, len(m.frames))
	}
	f := &frame{depth: depth, typ: typ, start: gas, value: value != nil && value.Sign() != 0}
	if typ == proggen.SELFDESTRUCT {
		// pseudo frame announcing the balance transfer of SELFDESTRUCT: no gas, no events
		if p := m.cur(); p == nil || !p.haveStep || p.lastOp != proggen.SELFDESTRUCT || gas != 0 {
			m.bad("selfdestruct-frame", "SELFDESTRUCT pseudo frame with gas %d outside a SELFDESTRUCT step", gas)
		}
		f.pseudo = true
		f.expect, f.curValid = 0, true
		m.frames = append(m.frames, f)
		return
	}
	if p := m.cur(); p != nil {
		m.sawChild = true
		m.enterChecks++
		switch {
		case !p.haveStep:
			m.bad("enter-nostep", "child frame without a parent step")
		case isCallOp(p.lastOp):
			if typ != p.lastOp {
				m.bad("enter-type", "parent op %#x entered frame type %#x", p.lastOp, typ)
			}
			// the parent's step cost contains the forwarded gas; the stipend is added for free
			paid := p.lastCost()
			stip := uint64(0)
			if f.value && (typ == proggen.CALL || typ == proggen.CALLCODE) {
				stip = params.CallStipend
			}
			if gas > paid+stip {
				m.bad("enter-overpaid", "child of op %#x starts with %d gas, parent step paid %d (+%d stipend)", p.lastOp, gas, paid, stip)
			}
			// the frame itself did not consume what it handed over
			fw := gas - min(gas, stip)
			if fw > p.selfUsed {
				m.bad("enter-selfused", "forwarded %d exceeds the parent's accumulated cost %d", fw, p.selfUsed)
			} else {
				p.selfUsed -= fw
			}
			p.pendingStipend = stip
		case isCreateOp(p.lastOp):
			if typ != p.lastOp {
				m.bad("enter-type", "parent op %#x entered frame type %#x", p.lastOp, typ)
			}
			if !p.haveForward {
				m.bad("create-noforward", "CREATE child without a forward event")
			} else if gas != p.forwarded {
				m.bad("create-forward", "CREATE child starts with %d gas, forward event moved %d", gas, p.forwarded)
			}
			p.haveForward = false
		default:
			m.bad("enter-op", "child frame entered from op %#x", p.lastOp)
		}
	} else if depth != 0 {
		m.bad("enter-depth", "first frame at depth %d", depth)
	}
	m.frames = append(m.frames, f)
}

func (f *frame) lastCost() uint64 { return f.lastCostV }

func (m *monitor) onGas(old, new tracing.Gas, reason tracing.GasChangeReason) {
	m.reasons[reason]++
	f := m.cur()
	if f == nil {
		m.bad("gas-noframe", "gas change (%v) outside any frame", reason)
		return
	}
	if !m.amsterdam && (old.State != 0 || new.State != 0) {
		m.bad("state-gas-pre-amsterdam", "state gas %d->%d before Amsterdam (reason %v)", old.State, new.State, reason)
	}
	chain := func() { m.chain(f, old, new, reason.String()) }
	delta := func() {
		// contributes to the expectation of the next step
		f.expect = f.expect + new.Execution - old.Execution
	}
	switch reason {
	case tracing.GasChangeCallInitialBalance:
		if old != (tracing.Gas{}) || new.Execution != f.start {
			m.bad("initial-balance", "initial balance event %v->%v, OnEnter gas %d", old, new, f.start)
		}
		if f.curValid || f.haveStep {
			m.bad("initial-balance-late", "initial balance event in the middle of a frame")
		}
		f.cur, f.curValid = new, true
		f.expect = new.Execution
	case tracing.GasChangeCallOpCode:
		if new.Execution > old.Execution {
			m.bad("opcode-negative-cost", "opcode event %d->%d", old.Execution, new.Execution)
		}
		// Tentative: the event belonging to the step is the LAST one before OnOpcode. Amsterdam's
		// CALL-family dynamic gas function emits an earlier informational CallOpCode event for
		// the intrinsic part, which it undoes again (operations_acl.go, EIP-8037 variant).
		if m.havePending {
			m.dupOpEvents++
			if !m.amsterdam {
				m.bad("opcode-event-dup", "two CallOpCode gas events without a step in between")
			}
		}
		m.pendingOp, m.havePending = gasEvt{old, new}, true
	case tracing.GasChangeCallStorageColdAccess:
		// informational duplicate (see above)
	case tracing.GasChangeCallLeftOverReturned:
		if new != (tracing.Gas{}) {
			m.bad("leftover-new", "left-over event ends at %v", new)
		}
		f.leftover, f.haveLeft = old, true
	case tracing.GasChangeCallFailedExecution:
		// the failing step may have been partially charged without an event: old <= current
		if f.curValid && old.Execution > f.cur.Execution+f.hiSlack() {
			m.bad("failed-exec-gain", "failed-execution event starts at %d, above the last known balance %d", old.Execution, f.cur.Execution)
		}
		if new.Execution != 0 {
			m.bad("failed-exec-keeps-gas", "exceptional halt keeps %d execution gas", new.Execution)
		}
		f.failedEvt = true
		f.cur, f.curValid = new, true
		f.expect = 0
	case tracing.GasChangeCallLeftOverRefunded:
		chain()
		delta()
		c := f.lastChild
		if c == nil {
			m.bad("refund-nochild", "left-over refund without an exited child")
		} else {
			if new.Execution-old.Execution != c.leftover.Execution || new.Execution < old.Execution {
				m.bad("refund-amount", "parent credited %d, child (type %#x) returned %d", int64(new.Execution)-int64(old.Execution), c.typ, c.leftover.Execution)
			}
			// selfUsed already excludes everything handed to the child; what comes back is not
			// consumption either.
			f.lastChild = nil
		}
	case tracing.GasChangeCallContractCreation, tracing.GasChangeCallContractCreation2:
		chain()
		delta()
		if new.Execution > old.Execution {
			m.bad("forward-negative", "create forward event %d->%d", old.Execution, new.Execution)
		}
		f.forwarded, f.haveForward = old.Execution-new.Execution, true
	case tracing.GasChangeCallCodeStorage, tracing.GasChangeCallPrecompiledContract,
		tracing.GasChangeAccountCreation, tracing.GasChangeRefundAccountCreation:
		chain()
		delta()
		if new.Execution < old.Execution {
			f.selfUsed += old.Execution - new.Execution
		}
		if reason != tracing.GasChangeRefundAccountCreation && new.Execution > old.Execution {
			m.bad("charge-negative", "charge event (%v) %d->%d", reason, old.Execution, new.Execution)
		}
	default:
		// witness / tx level reasons do not occur in these runs
		m.bad(fmt.Sprintf("unexpected-reason:%v", reason), "unexpected gas change reason %v (%v->%v)", reason, old, new)
	}
}

// chain checks that a gas event continues where the previous one of the frame ended
// (execution dimension) and advances the frame's balance.
func (m *monitor) chain(f *frame, old, new tracing.Gas, reason string) {
	if f.curValid {
		m.chainEq++
		if old.Execution != f.cur.Execution {
			lo, hi := f.cur.Execution, f.cur.Execution
			if f.loose {
				lo, hi = sub0(lo, f.looseLo), lo+f.looseHi
			}
			if old.Execution < lo || old.Execution > hi {
				m.bad("chain-gap:"+reason, "gas change (%s) starts at %d, previous event ended at %d", reason, old.Execution, f.cur.Execution)
			}
		}
	}
	f.cur, f.curValid = new, true
}

func sub0(a, b uint64) uint64 {
	if a < b {
		return 0
	}
	return a - b
}

func (f *frame) hiSlack() uint64 {
	if f.loose {
		return f.looseHi
	}
	return 0
}

func memCost(words uint64) uint64 { return 3*words + words*words/512 }

func (m *monitor) onOpcode(pc uint64, op byte, gas, cost uint64, scope tracing.OpContext, rData []byte, depth int, err error) {
	m.steps++
	f := m.cur()
	if f == nil {
		m.bad("step-noframe", "opcode outside any frame")
		return
	}
	if depth != f.depth+1 {
		m.bad("step-depth", "opcode at depth %d inside frame entered at depth %d", depth, f.depth)
	}
	if depth > 1025 {
		m.bad("depth", "opcode executing at depth %d", depth)
	}
	// pairing with the CallOpCode event
	if err == nil {
		if !m.havePending {
			m.bad("step-noevent", "successful step (op %#x) without a CallOpCode gas event", op)
		} else {
			if m.pendingOp.old.Execution != gas || m.pendingOp.old.Execution-m.pendingOp.new.Execution != cost {
				m.bad("step-event-mismatch", "op %#x: OnOpcode gas=%d cost=%d, event %d->%d", op, gas, cost, m.pendingOp.old.Execution, m.pendingOp.new.Execution)
			}
			m.chain(f, m.pendingOp.old, m.pendingOp.new, "CallOpCode")
		}
		if cost > gas {
			m.bad("cost-exceeds-gas", "op %#x charged %d with only %d available", op, cost, gas)
		}
		m.ops[op] = true
	} else {
		m.faults++
		m.errKinds[errKind(err)] = true
	}
	m.havePending = false
	// continuity with the previous step of this frame (or the frame start)
	m.contEq++
	if !f.curValid && !f.haveStep {
		// no initial balance event seen (cannot happen: captureBegin emits it)
		m.bad("no-initial-balance", "first step without initial balance event")
		f.expect = f.start
	}
	if gas != f.expect {
		ok := false
		if f.loose {
			ok = gas >= sub0(f.expect, f.looseLo) && gas <= f.expect+f.looseHi
		}
		if !ok {
			prev := "frame start"
			if f.haveStep {
				prev = fmt.Sprintf("op %#x", f.lastOp)
			}
			m.bad(fmt.Sprintf("continuity:%s", opClass(f.lastOp, f.haveStep)), "after %s: gas %d, expected %d (diff %d) at op %#x pc %d depth %d", prev, gas, f.expect, int64(gas)-int64(f.expect), op, pc, depth)
		}
	}
	// stack, memory
	st := len(scope.StackData())
	if st > m.maxStack {
		m.maxStack = st
	}
	if st > 1024 {
		m.bad("stack-limit", "stack holds %d items at op %#x", st, op)
	}
	ml := len(scope.MemoryData())
	if ml%32 != 0 {
		m.bad("memory-unaligned", "memory length %d at op %#x", ml, op)
	}
	if ml < f.memLen {
		m.bad("memory-shrunk", "memory length %d after %d", ml, f.memLen)
	}
	if ml > f.memLen {
		// the expansion visible now was paid by earlier steps of this frame
		m.memChecks++
		if need := memCost(uint64(ml) / 32); f.selfUsed < need {
			m.bad(fmt.Sprintf("memory-unpaid:%s", opClass(f.lastOp, f.haveStep)), "memory of %d bytes needs %d gas, frame itself consumed only %d (after op %#x)", ml, need, f.selfUsed, f.lastOp)
		}
		f.memLen = ml
		if ml > f.maxMem {
			f.maxMem = ml
		}
		if ml > m.maxMem {
			m.maxMem = ml
		}
	}
	if op == proggen.GAS || op == proggen.GASLIMIT {
		// GASLIMIT: the runtime environment reports the message's gas limit as block gas limit
		m.gasOpSeen = true
	}
	if op == proggen.SSTORE {
		m.sstoreSeen = true
	}
	// new expectation
	f.haveStep, f.lastOp, f.lastCostV = true, op, cost
	f.nsteps++
	f.haveForward = false
	f.loose, f.looseLo, f.looseHi = false, 0, 0
	if err == nil {
		f.expect = gas - min(cost, gas)
		f.cur, f.curValid = tracing.Gas{Execution: f.expect, State: f.cur.State}, true
		f.selfUsed += cost
		if m.amsterdam {
			switch op {
			case proggen.SSTORE:
				f.loose, f.looseLo, f.looseHi = true, stateSet, stateSet
			case proggen.CALL, proggen.CALLCODE, proggen.SELFDESTRUCT:
				f.loose, f.looseLo, f.looseHi = true, acctState, 0
			}
		}
	} else {
		// failing step: whatever was charged is burnt with the rest; `gas` is the real balance at
		// the start of the step (it includes any unreported Amsterdam state-gas repayment)
		f.cur, f.curValid = tracing.Gas{Execution: gas, State: f.cur.State}, true
		f.expect = gas
		f.loose, f.looseLo, f.looseHi = true, gas, 0
	}
}

func opClass(op byte, have bool) string {
	if !have {
		return "start"
	}
	switch {
	case isCallOp(op):
		return "call"
	case isCreateOp(op):
		return "create"
	case op == proggen.SSTORE:
		return "sstore"
	}
	return "plain"
}

func errKind(err error) string {
	var e *vm.VMError
	if errors.As(err, &e) {
		err = e.Unwrap()
	}
	switch {
	case errors.Is(err, vm.ErrOutOfGas):
		return "oog"
	case errors.Is(err, vm.ErrExecutionReverted):
		return "revert"
	}
	return fmt.Sprintf("%T", err)
}

func (m *monitor) onFault(pc uint64, op byte, gas, cost uint64, scope tracing.OpContext, depth int, err error) {
	m.faults++
	m.errKinds[errKind(err)] = true
	if f := m.cur(); f != nil {
		// the step was charged and logged; the frame now halts (or reverts): nothing to expect
		if !errors.Is(err, vm.ErrExecutionReverted) {
			f.loose, f.looseLo = true, f.expect
		}
	}
}

// returnsAllGas: failures detected before the frame starts hand the whole gas back.
func returnsAllGas(err error) bool {
	return errors.Is(err, vm.ErrDepth) || errors.Is(err, vm.ErrInsufficientBalance) || errors.Is(err, vm.ErrNonceUintOverflow)
}

func (m *monitor) onExit(depth int, output []byte, gasUsed uint64, err error, reverted bool) {
	f := m.cur()
	if f == nil || f.depth != depth {
		m.bad("exit-depth", "OnExit at depth %d does not match the open frame", depth)
		return
	}
	m.frames = m.frames[:len(m.frames)-1]
	m.exitChecks++
	left := tracing.Gas{}
	if f.haveLeft {
		left = f.leftover
	}
	if left.Execution > f.start {
		m.bad("exit-leftover-exceeds-start", "frame started with %d gas and returns %d", f.start, left.Execution)
	}
	if gasUsed != f.start-left.Execution {
		m.bad("exit-gasused", "OnExit gasUsed %d, start %d - leftover %d", gasUsed, f.start, left.Execution)
	}
	// leftover against the frame's own accounting
	switch {
	case err == nil || (errors.Is(err, vm.ErrCodeStoreOutOfGas) && !reverted):
		lo, hi := f.expect, f.expect
		if f.loose {
			lo, hi = sub0(lo, f.looseLo), hi+f.looseHi
		}
		if left.Execution < lo || left.Execution > hi {
			m.bad(fmt.Sprintf("exit-leftover-success:%s", opClass(f.lastOp, f.haveStep)), "successful frame (type %#x, %d steps) returns %d gas, its accounting says %d", f.typ, f.nsteps, left.Execution, f.expect)
		}
	case errors.Is(err, vm.ErrExecutionReverted):
		if m.amsterdam {
			// spilled state gas is refilled into the execution balance on revert
			if left.Execution < f.expect || left.Execution > f.start {
				m.bad("exit-leftover-revert", "reverted frame returns %d gas, its accounting says >= %d", left.Execution, f.expect)
			}
		} else if left.Execution != f.expect {
			m.bad("exit-leftover-revert", "reverted frame returns %d gas, its accounting says %d", left.Execution, f.expect)
		}
	case returnsAllGas(err):
		if left.Execution != f.start || f.nsteps != 0 {
			m.bad("exit-precheck", "frame failing its pre-check (%v) returns %d of %d gas after %d steps", err, left.Execution, f.start, f.nsteps)
		}
	default:
		if left.Execution != 0 {
			m.bad("exit-halt-keeps-gas", "exceptionally halted frame (%v) returns %d gas", err, left.Execution)
		}
	}
	m.errKinds[errKind(err)] = err != nil || m.errKinds[errKind(err)]
	info := &exitInfo{start: f.start, leftover: left, err: err, typ: f.typ}
	if f.pseudo {
		if f.nsteps != 0 || err != nil || left.Execution != 0 {
			m.bad("selfdestruct-frame", "SELFDESTRUCT pseudo frame with steps/err/gas")
		}
		return
	}
	if p := m.cur(); p != nil {
		info.stipend = p.pendingStipend
		p.pendingStipend = 0
		p.lastChild = info
	} else {
		m.top = info
	}
}

func (m *monitor) finish() {
	if len(m.frames) != 0 {
		m.bad("unbalanced-frames", "%d frames still open at the end", len(m.frames))
	}
}
