// C27: EVM execution is total and within resource bounds.
//
// Every generated (code, input, value, gas limit, rule set) is executed through
// runtime.Call / runtime.Create / runtime.Execute (API path) or through an EVM built with
// runtime.NewEnv and driven exactly like runtime.Call does (faithful pre-merge rule sets:
// the API functions force Random != nil), with the monitoring tracer of monitor.go attached,
// and once more without any tracer.
package main

import (
	"bytes"
	"fmt"
	"math"
	"math/big"
	"math/rand"
	"os"
	"runtime"
	"runtime/pprof"
	"sync"

	"github.com/ethereum/go-ethereum/common"
	"github.com/ethereum/go-ethereum/core/state"
	"github.com/ethereum/go-ethereum/core/tracing"
	"github.com/ethereum/go-ethereum/core/types"
	"github.com/ethereum/go-ethereum/params"
	"github.com/holiman/uint256"

	"verif/lib/evmenv"
	"verif/lib/proggen"
	"verif/lib/vrt"
)

func main() { vrt.Main("C27", run) }

const worldsPerRuleSet = 3

var target = common.HexToAddress("0x00000000000000000000000000000000007a29e7")

// buildWorld creates a pre-state with a handful of generated contracts that reference each
// other, a funded EOA, an empty-code account with storage, and (Prague+) a delegated EOA.
func buildWorld(r *vrt.Run, name string, k int) *evmenv.World {
	rng := r.Rand("world:"+name, k)
	f, _ := proggen.ParseFork(name)
	var addrs []common.Address
	for i := 0; i < 5; i++ {
		addrs = append(addrs, common.BytesToAddress([]byte{0xc0, byte(k), byte(i + 1)}))
	}
	eoa := common.BytesToAddress([]byte{0xe0, 0xa0, byte(k)})
	deleg := common.BytesToAddress([]byte{0xde, 0x1e, byte(k)})
	var accts []evmenv.Account
	for i, a := range addrs {
		p := proggen.Gen(rng, proggen.Opts{Fork: name, Addrs: append(append([]common.Address{}, addrs[:i]...), eoa, deleg),
			MaxLen: 60 + rng.Intn(200), AllowGasDependent: true, Mode: proggen.ModeStructured})
		st := map[common.Hash]common.Hash{}
		for s := 0; s < 4; s++ {
			if rng.Intn(2) == 0 {
				st[common.BigToHash(big.NewInt(int64(rng.Intn(6))))] = common.BigToHash(big.NewInt(int64(1 + rng.Intn(9))))
			}
		}
		accts = append(accts, evmenv.Account{Addr: a, Code: p.Code, Balance: uint256.NewInt(uint64(rng.Intn(3) * 1000)), Storage: st})
	}
	accts = append(accts, evmenv.Account{Addr: eoa, Balance: uint256.NewInt(12345)})
	if f >= proggen.Prague {
		accts = append(accts, evmenv.Account{Addr: deleg, Code: types.AddressToDelegation(addrs[rng.Intn(len(addrs))]), Balance: uint256.NewInt(5), Nonce: 1})
	}
	// the account the program under test is installed at: pre-existing storage and balance
	accts = append(accts, evmenv.Account{Addr: target, Balance: uint256.NewInt(1_000_000), Nonce: 1, Storage: map[common.Hash]common.Hash{
		common.BigToHash(big.NewInt(1)): common.BigToHash(big.NewInt(7)), common.BigToHash(big.NewInt(3)): common.BigToHash(big.NewInt(9)),
		common.BigToHash(big.NewInt(17)): common.BigToHash(big.NewInt(1))}})
	return evmenv.NewWorld(name, accts)
}

type entryKind int

const (
	entCallEVM   entryKind = iota // faithful rule set, code installed at target
	entCallAPI                    // runtime.Call
	entExecAPI                    // runtime.Execute
	entCreateAPI                  // runtime.Create
	entCreateEVM                  // faithful rule set, evm.Create
)

var entryNames = []string{"call-evm", "call-api", "execute-api", "create-api", "create-evm"}

type tcase struct {
	rs    string
	world *evmenv.World
	entry entryKind
	code  []byte
	input []byte
	value uint64
	gas   uint64
	kind  string // program kind
	feats map[string]bool
	idx   int
	// stack-boundary family (stackbound.go)
	extra map[common.Address][]byte // further code installed next to the program (call entries)
	probe *sbProbe                  // additional observation attached to the traced run
}

func (c *tcase) witness() map[string]any {
	return map[string]any{"ruleset": c.rs, "entry": entryNames[c.entry], "code": vrt.Hex(c.code), "input": vrt.Hex(c.input),
		"value": c.value, "gas": c.gas, "kind": c.kind, "prestate_root": c.world.Root().Hex(), "case_index": c.idx}
}

// exec runs the case once on a fresh state, traced (mon != nil) or untraced.
func (c *tcase) exec(gas uint64, mon *monitor) evmenv.Result {
	w := c.world
	sdb := w.NewState()
	var tr *tracing.Hooks
	if mon != nil {
		tr = mon.hooks()
		if c.probe != nil {
			c.probe.wrap(tr)
		}
	}
	install := func(sdb *state.StateDB) {
		sdb.SetCode(target, c.code, tracing.CodeChangeUnspecified)
		for a, code := range c.extra {
			sdb.SetCode(a, code, tracing.CodeChangeUnspecified)
		}
	}
	val := new(big.Int).SetUint64(c.value)
	switch c.entry {
	case entCallEVM:
		install(sdb)
		return w.CallEVM(sdb, target, c.input, gas, uint256.NewInt(c.value), tr, nil)
	case entCallAPI:
		install(sdb)
		return w.Call(sdb, target, c.input, gas, val, tr)
	case entExecAPI:
		return w.Execute(sdb, c.code, c.input, gas, val, tr)
	case entCreateAPI:
		return w.Create(sdb, c.code, gas, val, tr)
	default:
		return w.CreateEVM(sdb, c.code, gas, uint256.NewInt(c.value), tr)
	}
}

var gasBoundaries = []uint64{0, 1, 2, 3, 99, 2299, 2300, 2301, 20999, 21000, 21001, 31999, 32000, 32001, 53000,
	1<<24 - 1, 1 << 24, 1<<24 + 1}

func genCase(r *vrt.Run, rng *rand.Rand, i int, worlds map[string][]*evmenv.World) *tcase {
	rs := evmenv.RuleSets[i%len(evmenv.RuleSets)]
	w := worlds[rs][rng.Intn(worldsPerRuleSet)]
	f := w.Fork
	c := &tcase{rs: rs, world: w, idx: i}
	var addrs []common.Address
	for _, a := range w.Accounts {
		if a.Addr != target {
			addrs = append(addrs, a.Addr)
		}
	}
	switch x := rng.Intn(100); {
	case x < 50:
		c.entry = entCallEVM
	case x < 65:
		c.entry = entCallAPI
	case x < 78:
		c.entry = entExecAPI
	case x < 89:
		c.entry = entCreateAPI
	default:
		c.entry = entCreateEVM
	}
	// gas class first: astronomically large limits need programs that terminate on their own
	huge := false
	switch x := rng.Intn(100); {
	case x < 12:
		c.gas = gasBoundaries[rng.Intn(len(gasBoundaries))]
	case x < 22:
		c.gas = uint64(rng.Intn(30000))
	case x < 67:
		c.gas = 30_000 + uint64(rng.Intn(570_000))
	case x < 92:
		c.gas = 600_000 + uint64(rng.Intn(2_400_000))
	case x < 93:
		c.gas = []uint64{17_000_000, 30_000_000}[rng.Intn(2)]
	default:
		huge = true
		c.gas = []uint64{1 << 32, 1 << 62, 1 << 63, 1<<63 - 1, 1<<63 + 1, math.MaxUint64 - 1, math.MaxUint64}[rng.Intn(7)]
	}
	apiEntry := c.entry == entCallAPI || c.entry == entExecAPI || c.entry == entCreateAPI
	if apiEntry && c.gas == 0 {
		c.gas = 1 // the API replaces 0 by MaxUint64
	}
	opts := proggen.Opts{Fork: rs, Addrs: addrs, MaxLen: 40 + rng.Intn(500), AllowGasDependent: rng.Intn(2) == 0}
	if rng.Intn(5) == 0 {
		opts.Hostile = 0.08
	}
	special := rng.Intn(100)
	switch {
	case huge:
		// closed, quickly terminating programs: no calls into the world, no hostile memory
		// operands (with 2^63 gas a 4 GiB expansion is affordable and would really allocate)
		opts.Mode, opts.NoUnbounded, opts.Hostile = proggen.ModeStructured, true, -1
		opts.Weights = map[string]int{"call": 0, "selfcall": 0, "extcode": 0, "precompile": 0}
		opts.Addrs = nil
		if special < 25 {
			c.code, c.kind = deepRecursion(rng, f, c.entry), "deeprec"
		} else if special < 45 {
			c.code, c.kind = hugeMemory(rng, f, true), "hugemem-astro"
		} else {
			p := proggen.Gen(rng, opts)
			c.code, c.kind, c.feats = p.Code, "closed", p.Features
		}
	case special < 4:
		c.code, c.kind = proggen.Polluter(f, 32*(1+rng.Intn(512)), proggen.End(1+rng.Intn(8))), "polluter"
	case special < 8:
		c.code, c.kind = deepRecursion(rng, f, c.entry), "deeprec"
	case special < 11:
		c.code, c.kind = hugeMemory(rng, f, false), "hugemem"
	case special < 13:
		c.code, c.kind = proggen.JumpHeavy(rng, 1+rng.Intn(40), proggen.RawBytes(rng, rng.Intn(40))), "jumpheavy"
	default:
		p := proggen.Gen(rng, opts)
		c.code, c.kind, c.feats = p.Code, p.Kind, p.Features
	}
	if (c.entry == entCreateAPI || c.entry == entCreateEVM) && c.kind != "deeprec" && rng.Intn(2) == 0 {
		c.code = proggen.InitCodeReturning(c.code)
		c.kind += "+deploy"
	}
	c.input = make([]byte, []int{0, 0, 4, 32, 36, 68, 100, 200}[rng.Intn(8)])
	rng.Read(c.input)
	switch x := rng.Intn(20); {
	case x < 14:
	case x < 18:
		c.value = uint64(1 + rng.Intn(1000))
	default:
		c.value = math.MaxUint64 // more than the origin's balance? no: origin holds 2^100 -> fine
	}
	return c
}

// deepRecursion: a frame that calls (or creates) itself with everything it has, until the
// depth limit or the gas stops it.
func deepRecursion(rng *rand.Rand, f proggen.Fork, e entryKind) []byte {
	a := proggen.NewAsm()
	if e == entCreateAPI || e == entCreateEVM || rng.Intn(6) == 0 {
		// init code that creates a copy of itself
		a.Op(proggen.CODESIZE).Push(0).Push(0).Op(proggen.CODECOPY)
		a.Op(proggen.CODESIZE).Push(0).Push(0).Op(proggen.CREATE)
		a.Op(proggen.POP, proggen.STOP)
		return a.Bytes()
	}
	ops := []byte{proggen.CALL, proggen.CALLCODE}
	if f >= proggen.Homestead {
		ops = append(ops, proggen.DELEGATECALL)
	}
	if f >= proggen.Byzantium {
		ops = append(ops, proggen.STATICCALL)
	}
	op := ops[rng.Intn(len(ops))]
	if rng.Intn(3) == 0 {
		a.Push(1).Push(0).Op(proggen.MSTORE) // some memory in every frame
	}
	a.Push(0).Push(0).Push(0).Push(0)
	if op == proggen.CALL || op == proggen.CALLCODE {
		a.Push(0)
	}
	a.Op(proggen.ADDRESS)
	if f >= proggen.TangerineWhistle {
		a.Op(proggen.GAS)
	} else {
		a.Push(1000).Op(proggen.GAS, proggen.SUB)
	}
	a.Op(op)
	if rng.Intn(2) == 0 {
		a.Push(0).Op(proggen.MSTORE).Push(32).Push(0).Op(proggen.RETURN)
	} else {
		a.Op(proggen.POP, proggen.STOP)
	}
	return a.Bytes()
}

// hugeMemory: memory / copy / hash / log / call / create operations with offsets and sizes
// near 2^32 and 2^64: must fail with a gas error and never allocate.
func hugeMemory(rng *rand.Rand, f proggen.Fork, astro bool) []byte {
	big64 := []*big.Int{
		new(big.Int).SetUint64(1 << 32), new(big.Int).SetUint64(1<<32 - 1), new(big.Int).SetUint64(1<<32 + 31),
		new(big.Int).SetUint64(math.MaxUint64), new(big.Int).SetUint64(math.MaxUint64 - 31), new(big.Int).SetUint64(1 << 63),
		new(big.Int).Lsh(big.NewInt(1), 64), new(big.Int).Sub(new(big.Int).Lsh(big.NewInt(1), 256), big.NewInt(1)),
		new(big.Int).SetUint64(0xffffffffe0), new(big.Int).SetUint64(1 << 40),
	}
	if astro {
		// under an astronomic gas limit anything below 2^63 bytes might be payable and would be
		// allocated for real: use only operands beyond any possible allocation
		big64 = []*big.Int{new(big.Int).SetUint64(1 << 63), new(big.Int).SetUint64(math.MaxUint64), new(big.Int).SetUint64(math.MaxUint64 - 31),
			new(big.Int).SetUint64(1<<63 + 31), new(big.Int).Lsh(big.NewInt(1), 64), new(big.Int).Sub(new(big.Int).Lsh(big.NewInt(1), 256), big.NewInt(1))}
	}
	h := func() *big.Int { return big64[rng.Intn(len(big64))] }
	small := func() *big.Int { return big.NewInt(int64(rng.Intn(64))) }
	a := proggen.NewAsm()
	// a little legitimate work first
	a.Push(1).Push(64).Op(proggen.MSTORE)
	type v struct {
		op   byte
		args int // number of stack args (pushed in reverse)
		big  []int
	}
	cands := []v{{proggen.MLOAD, 1, []int{0}}, {proggen.MSTORE, 2, []int{0}}, {proggen.MSTORE8, 2, []int{0}},
		{proggen.KECCAK256, 2, []int{0, 1}}, {proggen.CALLDATACOPY, 3, []int{0, 2}}, {proggen.CODECOPY, 3, []int{0, 2}},
		{proggen.EXTCODECOPY, 4, []int{1, 3}}, {proggen.LOG0, 2, []int{0, 1}}, {proggen.RETURN, 2, []int{0, 1}},
		{proggen.CREATE, 3, []int{1, 2}}, {proggen.CALL, 7, []int{3, 4, 5, 6}}}
	if f >= proggen.Byzantium {
		cands = append(cands, v{proggen.REVERT, 2, []int{0, 1}}, v{proggen.RETURNDATACOPY, 3, []int{0, 2}}, v{proggen.STATICCALL, 6, []int{2, 3, 4, 5}})
	}
	if f >= proggen.Cancun {
		cands = append(cands, v{proggen.MCOPY, 3, []int{0, 1, 2}})
	}
	if f >= proggen.Constantinople {
		cands = append(cands, v{proggen.CREATE2, 4, []int{1, 2}})
	}
	c := cands[rng.Intn(len(cands))]
	// choose which of the candidate positions get the huge value (at least one)
	hugeAt := map[int]bool{c.big[rng.Intn(len(c.big))]: true}
	for _, b := range c.big {
		if rng.Intn(3) == 0 {
			hugeAt[b] = true
		}
	}
	for i := c.args - 1; i >= 0; i-- {
		if hugeAt[i] {
			a.Push(h())
		} else {
			a.Push(small())
		}
	}
	a.Op(c.op)
	a.Op(proggen.STOP)
	return a.Bytes()
}

type shared struct {
	mu      sync.Mutex
	opsSeen map[string]*[256]bool
	reasons map[string]int
}

func run(r *vrt.Run) {
	r.Rule("case = (rule set of 20 from tests.Forks round-robin, pre-state world of generated contracts, entry kind: faithful evm.Call/Create via runtime.NewEnv or API runtime.Call/Execute/Create, proggen program [structured/raw/mutated] or special [polluter, deep self-recursion by CALL*/CREATE, huge-memory operand, jump-heavy, closed program under astronomically large gas], input, value, gas limit class incl. boundaries 0/1/2300/21000/2^24 +-1 and 2^62..2^64-1); each case runs traced+monitored and untraced; 25% get three more boundary runs at used-1/used/used+1. non-trivial signature = (rule set, entry kind, termination class, max call depth bucket, max memory bucket). Directed operand-stack boundary family (stackbound.go, seed-independent grid, seed-dependent entry kind / world / input): for each of the 20 rule sets, each opcode byte 0x00..0xff and each immediate variant (PUSHn full/missing; Amsterdam DUPN/SWAPN/EXCHANGE all 256 immediates + missing) the program PUSH2 x depth; OP; JUMPDEST; STOP at depth need-1 / need / need+1 and 1024-net-1..1024 (need/net from proggen's own opcode table and the harness' EIP-8024 decode, never from the jump table), at top level and (depth <= 300) inside a nested CALL below whose stack the caller keeps canaries; signature = (rule set, instruction, depth class, outcome class, nested)")
	worlds := map[string][]*evmenv.World{}
	for _, rs := range evmenv.RuleSets {
		for k := 0; k < worldsPerRuleSet; k++ {
			worlds[rs] = append(worlds[rs], buildWorld(r, rs, k))
		}
	}
	n := r.N(6000, 400_000)
	if r.Race() {
		n = r.N(400, 20_000) // 5 % sample under the race detector / checkptr
	}
	sh := &shared{opsSeen: map[string]*[256]bool{}, reasons: map[string]int{}}
	for _, rs := range evmenv.RuleSets {
		sh.opsSeen[rs] = new([256]bool)
	}
	if pf := os.Getenv("C27_PROF"); pf != "" {
		f, _ := os.Create(pf)
		pprof.StartCPUProfile(f)
		defer pprof.StopCPUProfile()
	}
	if pf := os.Getenv("C27_MEMPROF"); pf != "" {
		runtime.MemProfileRate = 4096
		defer func() {
			f, _ := os.Create(pf)
			pprof.Lookup("allocs").WriteTo(f, 0)
			f.Close()
		}()
	}
	if v := os.Getenv("C27_N"); v != "" {
		fmt.Sscan(v, &n)
	}
	only, trace := -1, os.Getenv("C27_TRACE") != ""
	if v := os.Getenv("C27_ONLY"); v != "" {
		fmt.Sscan(v, &only)
	}
	// C27_FAMILY=main|stackbound restricts the run to one family (development aid; such a run is
	// inconclusive by its coverage obligations).
	fam := os.Getenv("C27_FAMILY")
	if fam == "" || fam == "stackbound" {
		runStackBound(r, worlds)
	}
	if fam == "stackbound" {
		n = 0
	}
	vrt.Par(n, 0, func(i int) {
		if only >= 0 && i != only {
			return
		}
		rng := r.Rand("case", i)
		c := genCase(r, rng, i, worlds)
		if trace {
			fmt.Fprintf(os.Stderr, "S %d\n", i)
			defer fmt.Fprintf(os.Stderr, "E %d\n", i)
		}
		r.Case("case %d rs=%s entry=%s kind=%s gas=%d value=%d input=%x code=%x", i, c.rs, entryNames[c.entry], c.kind, c.gas, c.value, c.input, c.code)
		res, mon := judge(r, c, c.gas, "main")
		if res == nil {
			return
		}
		r.Count("executions", 2)
		// two-pass boundary runs around the measured consumption
		if rng.Intn(4) == 0 && c.gas >= 1000 && c.gas <= 3_000_000 && c.entry != entExecAPI && res.Panic == nil {
			used := c.gas - res.Leftover
			single := !mon.sawChild && !mon.gasOpSeen && !mon.sstoreSeen
			for _, g := range []uint64{used - 1, used, used + 1} {
				if used == 0 || g == 0 {
					continue
				}
				r.Case("case %d boundary gas=%d (used %d) rs=%s entry=%s code=%x input=%x value=%d", i, g, used, c.rs, entryNames[c.entry], c.code, c.input, c.value)
				br, _ := judge(r, c, g, "boundary")
				r.Count("executions", 2)
				r.Count("boundary_runs", 1)
				if br == nil || !single {
					continue
				}
				// single-frame program that never looks at GAS and has no SSTORE sentry: the
				// execution path is independent of the limit until the gas runs out.
				r.Count("boundary_exact_checks", 1)
				w := c.witness()
				w["boundary_gas"], w["used"] = g, used
				switch {
				case g == used-1:
					if br.Class() == res.Class() && res.Class() != "oog" && res.Class() != "gas-overflow" && res.Class() != "codestore-oog" && isKeeper(res.Class()) {
						r.Violation("boundary:below-exact-cost-succeeds", fmt.Sprintf("needs %d gas with ample limit, but ends as %q with %d", used, br.Class(), g), w)
					}
				default:
					if isKeeper(res.Class()) && (br.Class() != res.Class() || !bytes.Equal(br.Ret, res.Ret) || br.Leftover != g-used || br.Root != res.Root) {
						r.Violation("boundary:exact-cost-differs", fmt.Sprintf("with ample gas: %s leftover %d (used %d); with %d: %s leftover %d", res.Class(), res.Leftover, used, g, br.Class(), br.Leftover), w)
					}
				}
			}
		}
		sig := fmt.Sprintf("%s/%s/%s/d%d/m%d", c.rs, entryNames[c.entry], res.Class(), bucket(mon.maxDepth, 1, 2, 5, 50, 500, 1024), bucket(mon.maxMem, 1, 64, 1024, 8192, 1<<16))
		r.Eval(sig)
		r.Count("class:"+res.Class(), 1)
		r.Count("kind:"+baseKind(c.kind), 1)
		r.Count("opcode_events_checked", mon.steps)
		r.Count("frames", mon.framesSeen)
		r.Count("continuity_equations", mon.contEq)
		r.Count("gas_event_chain_links", mon.chainEq)
		r.Count("child_enter_checks", mon.enterChecks)
		r.Count("frame_exit_checks", mon.exitChecks)
		r.Count("memory_paid_checks", mon.memChecks)
		r.Count("faults", mon.faults)
		if mon.maxDepth >= 1024 {
			r.Count("depth_limit_reached", 1)
		}
		if mon.maxStack >= 1024 {
			r.Count("stack_limit_reached", 1)
		}
		if c.gas >= 1<<62 {
			r.Count("astronomic_gas_cases", 1)
		}
		sh.mu.Lock()
		for op, b := range mon.ops {
			if b {
				sh.opsSeen[c.rs][op] = true
			}
		}
		for k, v := range mon.reasons {
			sh.reasons[k.String()] += v
		}
		sh.mu.Unlock()
		if r.WantSample() && i%97 == 0 {
			s := c.witness()
			s["result"] = res.Digest()
			s["steps"], s["frames"], s["max_depth"], s["max_mem"] = mon.steps, mon.framesSeen, mon.maxDepth, mon.maxMem
			r.Sample(s)
		}
	})
	// coverage evidence
	opsCov := map[string]int{}
	for rs, arr := range sh.opsSeen {
		cnt := 0
		for _, b := range arr {
			if b {
				cnt++
			}
		}
		opsCov[rs] = cnt
	}
	r.Extra("distinct_opcodes_executed_per_ruleset", opsCov)
	r.Extra("gas_change_reasons_seen", sh.reasons)
	r.Extra("state_gas_bounds_amsterdam", map[string]uint64{"storage_slot": stateSet, "account": acctState, "max_tx_gas": params.MaxTxGas})
	if !r.Race() {
		r.Require("depth_limit_reached", 1)
		r.Require("stack_limit_reached", 1)
		r.Require("boundary_exact_checks", 20)
		r.Require("class:oog", 50)
		r.Require("class:revert", 20)
		r.Require("memory_paid_checks", 1000)
		r.Require("child_enter_checks", 1000)
	}
	r.Require("continuity_equations", 10000)
	r.Assume("the post-state comparison between traced and untraced runs uses the state root computed by go-ethereum's own trie (plus logs, refund counter, return data, left-over gas)")
	r.Assume("Amsterdam: execution-gas identities around SSTORE / value CALL / SELFDESTRUCT are checked as bounds (unreported state-gas spill-over), exact elsewhere")
	r.Assume("refevm comparison (<= Osaka) is not wired in: see refevmCompare TODO")
}

func isKeeper(class string) bool { return class == "ok" || class == "revert" }

func baseKind(k string) string {
	for i := range k {
		if k[i] == '+' {
			return k[:i]
		}
	}
	return k
}

func bucket(v int, bounds ...int) int {
	for i, b := range bounds {
		if v < b {
			return i
		}
	}
	return len(bounds)
}

// judge executes the case at the given gas limit traced and untraced and applies all
// per-execution checks. It returns the traced result (nil if the run panicked).
func judge(r *vrt.Run, c *tcase, gas uint64, phase string) (*evmenv.Result, *monitor) {
	w := c.witness()
	w["gas"], w["phase"] = gas, phase
	mon := newMonitor(c.world.Rules().IsAmsterdam)
	tres := c.exec(gas, mon)
	if tres.Panic != nil {
		r.Violation("panic:traced:"+vrt.PanicSite(tres.Stack), fmt.Sprintf("panic: %v\n%s", tres.Panic, trunc(tres.Stack, 2500)), w)
	}
	ures := c.exec(gas, nil)
	if ures.Panic != nil {
		r.Violation("panic:untraced:"+vrt.PanicSite(ures.Stack), fmt.Sprintf("panic: %v\n%s", ures.Panic, trunc(ures.Stack, 2500)), w)
	}
	if tres.Panic != nil || ures.Panic != nil {
		return nil, mon
	}
	mon.finish()
	for _, v := range mon.viol {
		r.Violation("monitor:"+v.fp, v.msg, w)
	}
	// resource bounds at the API boundary
	if c.entry != entExecAPI { // runtime.Execute does not report the left-over gas
		if tres.Leftover > gas {
			r.Violation("leftover-exceeds-limit", fmt.Sprintf("left-over gas %d > limit %d", tres.Leftover, gas), w)
		}
		if mon.top == nil {
			r.Violation("monitor:no-top-frame", "no depth-0 frame exit observed", w)
		} else if mon.top.leftover.Execution != tres.Leftover {
			r.Violation("leftover-vs-frame0", fmt.Sprintf("API returns %d left-over gas, the depth-0 frame reported %d", tres.Leftover, mon.top.leftover.Execution), w)
		}
	}
	// traced == untraced
	if tres.Digest() != ures.Digest() {
		r.Violation("traced-vs-untraced", fmt.Sprintf("traced: %s\nuntraced: %s", trunc(tres.Digest(), 500), trunc(ures.Digest(), 500)), w)
	}
	refevmCompare(r, c, gas, &tres)
	return &tres, mon
}

// refevmCompare is the hook for the independent reference interpreter (rule sets <= Osaka):
// exact equality of result, left-over gas and post-state.
//
// TODO(refevm): refevm (h/lib/refevm) is built by another engineer; once it exists, run the same
// (world, code, input, value, gas) through it here and report "refevm:<field>" violations.
func refevmCompare(r *vrt.Run, c *tcase, gas uint64, res *evmenv.Result) {}

func trunc(s string, n int) string {
	if len(s) > n {
		return s[:n] + "…"
	}
	return s
}
