package main

// Directed "operand-stack boundary" family.
//
// For every rule set of evmenv.RuleSets, every opcode byte 0x00..0xff and every immediate
// variant (PUSHn: full / missing immediate; EIP-8024 DUPN, SWAPN, EXCHANGE: all 256 immediate
// bytes and the missing immediate) a straight-line program
//
//	PUSH2 v_1 … PUSH2 v_d ; OP [imm] ; JUMPDEST ; STOP
//
// is executed for the stack depths d = need-1, need, need+1 (need = the number of stack items the
// instruction requires) and d near the limit (1024-net-1 … 1024 for instructions that grow the
// stack, 1024 for all others), at top level and - for the low depths - once more inside a
// nested CALL frame whose caller holds canary values directly below the callee's stack in the
// interpreter's shared stack arena.
//
// `need` and the stack effect are NOT read from go-ethereum's jump table: they come from
// proggen's own opcode table (written from the Yellow Paper / the EIPs) and, for EIP-8024, from
// the decode functions below (written from the EIP text: decode_single, decode_pair).
//
// Oracle per case:
//   - no Go panic (evmenv guards the call; judge reports it),
//   - outcome class: underflow iff d < need; overflow iff d + net > 1024; invalid opcode iff the
//     byte is not an instruction of the rule set (or the EIP-8024 immediate is in the forbidden
//     range); otherwise the benign operands make the instruction succeed (ok / revert),
//   - the tracer sees exactly d items at the instruction, never more than 1024 anywhere,
//   - after a successful instruction the stack has d+net items, everything below the consumed
//     operands is untouched, and for the pure stack instructions (PUSH*, DUP*, SWAP*, POP, DUPN,
//     SWAPN, EXCHANGE) the whole stack equals the model,
//   - nested: the caller's stack after the CALL is its canaries plus the success flag,
//   - plus every per-execution identity of monitor.go and traced == untraced (judge).

import (
	"fmt"
	"os"
	"sync"

	"github.com/ethereum/go-ethereum/common"
	"github.com/ethereum/go-ethereum/core/tracing"
	"github.com/holiman/uint256"

	"verif/lib/evmenv"
	"verif/lib/proggen"
	"verif/lib/vrt"
)

const (
	sbStackLimit = 1024
	sbGas        = 8_000_000 // ample for 1024 pushes + the most expensive single instruction in every rule set
	sbInnerGas   = 2_000_000
	sbCanaries   = 5
)

var sbInner = common.HexToAddress("0x0000000000000000000000000000000000b0d41e")

// eip8024Single: EIP-8024 decode_single. Immediate bytes 91..127 (JUMPDEST, PUSH1..PUSH32 seen as
// opcodes by older analysers) are forbidden; the others map to depths 17..235.
func eip8024Single(x byte) (n int, valid bool) {
	if x > 90 && x < 128 {
		return 0, false
	}
	return (int(x) + 145) % 256, true
}

// eip8024Pair: EIP-8024 decode_pair. Immediate bytes 82..127 are forbidden; the others map to the
// 210 pairs 1 <= n < m, n+m <= 30.
func eip8024Pair(x byte) (n, m int, valid bool) {
	if x > 81 && x < 128 {
		return 0, 0, false
	}
	k := int(x ^ 143)
	q, r := k/16, k%16
	if q < r {
		return q + 1, r + 1, true
	}
	return r + 1, 29 - q, true
}

// sbDecodeSelfCheck cross-checks the decode functions against proggen's independently written
// encoders and the ranges stated in the EIP. A failure is a harness defect.
func sbDecodeSelfCheck() error {
	seenS, seenP := map[int]bool{}, map[[2]int]bool{}
	for x := 0; x < 256; x++ {
		if n, ok := eip8024Single(byte(x)); ok {
			if n < 17 || n > 235 || seenS[n] || proggen.EncodeSingle(n) != byte(x) {
				return fmt.Errorf("decode_single(%d) = %d inconsistent", x, n)
			}
			seenS[n] = true
		}
		if n, m, ok := eip8024Pair(byte(x)); ok {
			if n < 1 || n >= m || n+m > 30 || seenP[[2]int{n, m}] || proggen.EncodePair(n, m) != byte(x) {
				return fmt.Errorf("decode_pair(%d) = (%d,%d) inconsistent", x, n, m)
			}
			seenP[[2]int{n, m}] = true
		}
	}
	if len(seenS) != 219 || len(seenP) != 210 {
		return fmt.Errorf("decode ranges: %d singles, %d pairs", len(seenS), len(seenP))
	}
	return nil
}

// sbSpec is the reference stack behaviour of one (rule set, opcode, immediate).
type sbSpec struct {
	name       string
	undefined  bool // not an instruction of the rule set (incl. 0xfe)
	badImm     bool // EIP-8024 immediate in the forbidden range
	need       int  // items required (also: how many items from the top the instruction may modify)
	net        int  // stack growth on success
	staticNeed int  // immediate-independent minimum (EIP-8024 instructions)
	staticNet  int
	shuffle    bool // pure stack instruction: the post-stack is fully modelled
	terminal   bool // ends the frame on success
	okClass    string
	a, b       int // DUPN/SWAPN: a = n; EXCHANGE: (a, b) = (n, m)
}

func sbEffect(f proggen.Fork, op byte, imm byte) sbSpec {
	in := proggen.Info(op)
	if !proggen.Valid(f, op) {
		return sbSpec{name: "undef", undefined: true, okClass: "invalidop"}
	}
	s := sbSpec{name: in.Name, need: in.Pops, net: in.Pushes - in.Pops, terminal: in.Terminal, okClass: "ok"}
	s.staticNeed, s.staticNet = s.need, s.net
	switch {
	case op == proggen.REVERT:
		s.okClass = "revert"
	case op == proggen.DUPN:
		n, ok := eip8024Single(imm)
		s.shuffle, s.badImm, s.a = true, !ok, n
		s.need, s.net = n, 1
	case op == proggen.SWAPN:
		n, ok := eip8024Single(imm)
		s.shuffle, s.badImm, s.a = true, !ok, n
		s.need, s.net = n+1, 0
	case op == proggen.EXCHANGE:
		n, m, ok := eip8024Pair(imm)
		s.shuffle, s.badImm, s.a, s.b = true, !ok, n, m
		s.need, s.net = m+1, 0
	case op == proggen.POP || op == proggen.PUSH0 || (op >= proggen.PUSH1 && op <= proggen.SWAP16):
		s.shuffle = true
	}
	return s
}

// expected returns the set of acceptable outcome classes at depth d.
func (s *sbSpec) expected(d int) []string {
	switch {
	case s.undefined:
		return []string{"invalidop"}
	case s.badImm:
		// Both conditions are exceptional halts; the EIP does not order them.
		e := []string{"invalidop"}
		if d < s.staticNeed {
			e = append(e, "underflow")
		}
		if d+s.staticNet > sbStackLimit {
			e = append(e, "overflow")
		}
		return e
	case d < s.need:
		return []string{"underflow"}
	case d+s.net > sbStackLimit:
		return []string{"overflow"}
	}
	return []string{s.okClass}
}

type sbCase struct {
	idx    int // position in the enumeration of the whole grid
	rs     string
	fork   proggen.Fork
	op     byte
	imm    []byte // immediate bytes following the opcode (nil: none or missing)
	trunc  bool   // the code ends right after the opcode byte (immediate missing, reads as zero)
	depth  int
	dclass string
	nested bool
	spec   sbSpec
}

func (c *sbCase) opLabel() string {
	l := fmt.Sprintf("%s(%#02x)", c.spec.name, c.op)
	if c.trunc {
		l += " imm=missing"
	} else if len(c.imm) == 1 {
		l += fmt.Sprintf(" imm=%#02x", c.imm[0])
	}
	return l
}

// sbDepths lists the depths to probe with a label each (first label wins).
func sbDepths(s *sbSpec) (ds []int, labels map[int]string) {
	labels = map[int]string{}
	add := func(d int, l string) {
		if d < 0 || d > sbStackLimit {
			return
		}
		if _, ok := labels[d]; !ok {
			labels[d] = l
			ds = append(ds, d)
		}
	}
	if s.undefined || s.badImm {
		add(0, "d0")
		if s.badImm {
			add(s.staticNeed-1, "static-need-1")
			add(s.staticNeed, "static-need")
		}
		add(sbStackLimit, "limit")
		return
	}
	add(s.need-1, "need-1")
	add(s.need, "need")
	add(s.need+1, "need+1")
	if s.net > 0 {
		for k := s.net + 1; k >= 1; k-- {
			add(sbStackLimit-k, fmt.Sprintf("limit-%d", k))
		}
	}
	add(sbStackLimit, "limit")
	return
}

// sbCases enumerates the family (deterministic, independent of the seed) and materialises the
// cases selected by keep (position in the enumeration); total is the size of the whole grid.
func sbCases(keep func(idx int) bool) (out []sbCase, total int) {
	emit := func(c sbCase) {
		if keep(total) {
			c.idx = total
			out = append(out, c)
		}
		total++
	}
	for _, rs := range evmenv.RuleSets {
		f, _ := proggen.ParseFork(rs)
		for o := 0; o < 256; o++ {
			op := byte(o)
			type variant struct {
				imm   []byte
				trunc bool
			}
			vs := []variant{{}}
			if proggen.Valid(f, op) {
				switch n := proggen.Info(op).Imm; {
				case op == proggen.DUPN || op == proggen.SWAPN || op == proggen.EXCHANGE:
					vs = []variant{{trunc: true}}
					for x := 0; x < 256; x++ {
						vs = append(vs, variant{imm: []byte{byte(x)}})
					}
				case n > 0:
					imm := make([]byte, n)
					for i := range imm {
						imm[i] = byte(0xa1 + i)
					}
					vs = []variant{{imm: imm}, {trunc: true}}
				}
			}
			for _, v := range vs {
				var ib byte
				if len(v.imm) == 1 {
					ib = v.imm[0]
				}
				spec := sbEffect(f, op, ib)
				ds, labels := sbDepths(&spec)
				for _, d := range ds {
					c := sbCase{rs: rs, fork: f, op: op, imm: v.imm, trunc: v.trunc, depth: d, dclass: labels[d], spec: spec}
					emit(c)
					if d <= 300 {
						c.nested = true
						emit(c)
					}
				}
			}
		}
	}
	return out, total
}

// program assembles the code and returns it with the pc of the instruction under test and the
// values pushed (bottom first).
func (c *sbCase) program() (code []byte, opPC int, vals []uint64) {
	d := c.depth
	opPC = 3 * d
	dest := uint64(opPC + 1 + len(c.imm)) // the JUMPDEST after the instruction
	var benign []uint64                   // operands, top first; default 0
	switch c.op {
	case proggen.JUMP:
		benign = []uint64{dest}
	case proggen.JUMPI:
		benign = []uint64{dest, 1}
	}
	vals = make([]uint64, d)
	for i := 0; i < d; i++ {
		j := d - 1 - i // distance from the top
		v := uint64(i + 1)
		if !c.spec.shuffle && !c.spec.undefined && j < c.spec.need {
			v = 0
			if j < len(benign) {
				v = benign[j]
			}
		}
		vals[i] = v
		code = append(code, proggen.PUSH2, byte(v>>8), byte(v))
	}
	code = append(code, c.op)
	if c.trunc {
		return
	}
	code = append(code, c.imm...)
	code = append(code, proggen.JUMPDEST, proggen.STOP)
	return
}

// model computes the post-stack of a pure stack instruction.
func (c *sbCase) model(pre []uint256.Int) []uint256.Int {
	post := append([]uint256.Int{}, pre...)
	n := len(post)
	s := &c.spec
	switch {
	case c.op == proggen.POP:
		post = post[:n-1]
	case c.op == proggen.PUSH0 || (c.op >= proggen.PUSH1 && c.op <= proggen.PUSH32):
		var v uint256.Int
		if !c.trunc {
			v.SetBytes(c.imm)
		}
		post = append(post, v)
	case c.op >= proggen.DUP1 && c.op <= proggen.DUP16:
		post = append(post, post[n-int(c.op-proggen.DUP1)-1])
	case c.op >= proggen.SWAP1 && c.op <= proggen.SWAP16:
		k := int(c.op-proggen.SWAP1) + 1
		post[n-1], post[n-1-k] = post[n-1-k], post[n-1]
	case c.op == proggen.DUPN:
		post = append(post, post[n-s.a])
	case c.op == proggen.SWAPN:
		post[n-1], post[n-1-s.a] = post[n-1-s.a], post[n-1]
	case c.op == proggen.EXCHANGE:
		post[n-1-s.a], post[n-1-s.b] = post[n-1-s.b], post[n-1-s.a]
	}
	return post
}

// outer assembles the caller of the nested variant: canaries, CALL inner, JUMPDEST, STOP.
func sbOuter() (code []byte, callPC int) {
	a := proggen.NewAsm()
	for i := 0; i < sbCanaries; i++ {
		a.Push(uint64(0xca00 + i + 1))
	}
	a.Push(0).Push(0).Push(0).Push(0).Push(0)
	code = a.Bytes()
	code = append(code, proggen.PUSH20)
	code = append(code, sbInner[:]...)
	code = append(code, proggen.PUSH4, byte(sbInnerGas>>24), byte(sbInnerGas>>16&0xff), byte(sbInnerGas>>8&0xff), byte(sbInnerGas&0xff))
	callPC = len(code)
	code = append(code, proggen.CALL, proggen.JUMPDEST, proggen.STOP)
	return
}

// sbProbe snapshots the stack of the frame under test at the instruction and at the following
// step, the inner frame's exit error and the caller's stack after the CALL (nested variant).
type sbProbe struct {
	frameDepth int // OnOpcode depth of the frame under test
	opPC       uint64
	pre, post  []uint256.Int
	havePre    bool
	havePost   bool
	nested     bool
	callPC     uint64
	sawCall    bool
	outer      []uint256.Int
	haveOuter  bool
	innerErr   error
	haveInner  bool
}

func (p *sbProbe) wrap(h *tracing.Hooks) {
	oo, ox := h.OnOpcode, h.OnExit
	h.OnOpcode = func(pc uint64, op byte, gas, cost uint64, scope tracing.OpContext, rData []byte, depth int, err error) {
		oo(pc, op, gas, cost, scope, rData, depth, err)
		if depth == p.frameDepth {
			if !p.havePre {
				if pc == p.opPC {
					p.pre, p.havePre = append([]uint256.Int{}, scope.StackData()...), true
				}
			} else if !p.havePost {
				p.post, p.havePost = append([]uint256.Int{}, scope.StackData()...), true
			}
		}
		if p.nested && depth == 1 {
			if p.sawCall && !p.haveOuter {
				p.outer, p.haveOuter = append([]uint256.Int{}, scope.StackData()...), true
			}
			if pc == p.callPC {
				p.sawCall = true
			}
		}
	}
	h.OnExit = func(depth int, output []byte, gasUsed uint64, err error, reverted bool) {
		ox(depth, output, gasUsed, err, reverted)
		if p.nested && depth == 1 && !p.haveInner {
			p.innerErr, p.haveInner = err, true
		}
	}
}

func u256s(v []uint256.Int) []string {
	out := make([]string, len(v))
	for i := range v {
		out[i] = v[i].Hex()
	}
	return out
}

func tail(v []uint256.Int, n int) []uint256.Int {
	if len(v) > n {
		return v[len(v)-n:]
	}
	return v
}

func eqStacks(a, b []uint256.Int) bool {
	if len(a) != len(b) {
		return false
	}
	for i := range a {
		if a[i] != b[i] {
			return false
		}
	}
	return true
}

type sbCoverage struct {
	mu      sync.Mutex
	opDepth map[string]map[string]bool // rule set -> "op/imm/depth"
	ops     map[string]map[byte]bool
}

// runStackBound executes the family.
func runStackBound(r *vrt.Run, worlds map[string][]*evmenv.World) {
	if err := sbDecodeSelfCheck(); err != nil {
		r.Inconclusive("stackbound: EIP-8024 decode self-check failed: %v", err)
		return
	}
	stride, offset := 1, 0
	if r.Race() {
		stride = 60 // ~1.7 % sample under the race detector (a case costs ~30 ms CPU there)
		offset = r.Rand("sb-race", 0).Intn(stride)
	}
	if v := os.Getenv("C27_SB_STRIDE"); v != "" { // development aid
		fmt.Sscan(v, &stride)
		offset %= stride
	}
	cases, total := sbCases(func(idx int) bool { return idx%stride == offset })
	r.Count("stackbound_cases_enumerated", total)
	cov := &sbCoverage{opDepth: map[string]map[string]bool{}, ops: map[string]map[byte]bool{}}
	for _, rs := range evmenv.RuleSets {
		cov.opDepth[rs], cov.ops[rs] = map[string]bool{}, map[byte]bool{}
	}
	outerCode, callPC := sbOuter()
	vrt.Par(len(cases), 0, func(k int) {
		sc := &cases[k]
		i := sc.idx
		rng := r.Rand("sb", i)
		w := worlds[sc.rs][rng.Intn(worldsPerRuleSet)]
		code, opPC, vals := sc.program()
		c := &tcase{rs: sc.rs, world: w, idx: i, gas: sbGas, kind: "stackbound", code: code}
		p := &sbProbe{frameDepth: 1, opPC: uint64(opPC), nested: sc.nested, callPC: uint64(callPC)}
		c.probe = p
		// Entry kind: the runtime.* API forces post-merge instruction selection, which would make
		// the instruction set differ from the rule set's: pre-merge rule sets use the faithful path.
		switch {
		case sc.nested:
			c.code, c.extra = outerCode, map[common.Address][]byte{sbInner: code}
			p.frameDepth = 2
			c.entry = entCallEVM
			if sc.fork >= proggen.Paris && rng.Intn(3) == 0 {
				c.entry = entCallAPI
			}
		case sc.fork < proggen.Paris:
			c.entry = []entryKind{entCallEVM, entCallEVM, entCallEVM, entCreateEVM}[rng.Intn(4)]
		default:
			c.entry = []entryKind{entCallEVM, entCallEVM, entCallAPI, entExecAPI, entCreateAPI, entCreateEVM}[rng.Intn(6)]
		}
		c.input = make([]byte, []int{0, 4, 36}[rng.Intn(3)])
		rng.Read(c.input)
		r.Case("stackbound %d rs=%s entry=%s %s depth=%d (%s) nested=%v need=%d net=%d input=%x", i, sc.rs, entryNames[c.entry], sc.opLabel(), sc.depth, sc.dclass, sc.nested, sc.spec.need, sc.spec.net, c.input)
		var res *evmenv.Result
		var mon *monitor
		// evmenv guards the Call/Create itself; this guard covers everything around it (state
		// finalisation, tracer callbacks outside the interpreter loop)
		if r.Guard("stackbound:"+sc.spec.name, c.witness(), func() { res, mon = judge(r, c, c.gas, "stackbound") }) {
			return
		}
		r.Count("executions", 2)
		r.Count("stackbound_cases", 1)
		// coverage of the (instruction, depth) grid: counted for every executed case, whatever its fate
		r.Count("stackbound_depth:"+sc.dclass, 1)
		if sc.fork == proggen.Amsterdam && (sc.op == proggen.DUPN || sc.op == proggen.SWAPN || sc.op == proggen.EXCHANGE) {
			r.Count(fmt.Sprintf("stackbound_eip8024:%s:%s", sc.spec.name, sc.dclass), 1)
		}
		if res == nil {
			return // panic: reported by judge
		}
		wit := func() map[string]any {
			m := c.witness()
			m["op"], m["depth"], m["depth_class"], m["nested"] = sc.opLabel(), sc.depth, sc.dclass, sc.nested
			m["need"], m["net"], m["program"] = sc.spec.need, sc.spec.net, vrt.Hex(code)
			return m
		}
		want := sc.spec.expected(sc.depth)
		// outcome class of the frame under test
		got := res.Class()
		if sc.nested {
			if got != "ok" {
				r.Violation("stackbound:outer-frame:"+got, fmt.Sprintf("the calling frame of the nested variant ended as %q", got), wit())
				return
			}
			if !p.haveInner || !p.haveOuter {
				r.Inconclusive("stackbound case %d: nested frame exit / caller step not observed", i)
				return
			}
			got = evmenv.ErrClass(p.innerErr)
		}
		okClass := false
		for _, e := range want {
			okClass = okClass || e == got
		}
		if !okClass {
			r.Violation(fmt.Sprintf("stackbound:outcome:%s:%s-want-%s", sc.spec.name, got, want[0]),
				fmt.Sprintf("%s at stack depth %d (%s; reference: needs %d items, net effect %+d, limit 1024) in rule set %s ends as %q, reference outcome %v",
					sc.opLabel(), sc.depth, sc.dclass, sc.spec.need, sc.spec.net, sc.rs, got, want), wit())
		}
		// an instruction that must halt the frame is the frame's last step
		if halting := want[0] != sc.spec.okClass || sc.spec.undefined; halting && okClass && p.havePost {
			r.Violation(fmt.Sprintf("stackbound:outcome:%s:continued-want-%s", sc.spec.name, want[0]),
				fmt.Sprintf("%s at stack depth %d (%s; reference: needs %d items, net effect %+d) in rule set %s must halt the frame (%v), but the frame executed a further step with %d stack items (and halted as %q later)",
					sc.opLabel(), sc.depth, sc.dclass, sc.spec.need, sc.spec.net, sc.rs, want, len(p.post), got), wit())
		}
		// the tracer saw the depth the case claims
		if !p.havePre {
			r.Inconclusive("stackbound case %d: the instruction under test was not reached", i)
			return
		}
		preWant := make([]uint256.Int, len(vals))
		for k, v := range vals {
			preWant[k].SetUint64(v)
		}
		if !eqStacks(p.pre, preWant) {
			wi := wit()
			wi["stack_seen_top"], wi["stack_built_top"] = u256s(tail(p.pre, 8)), u256s(tail(preWant, 8))
			r.Violation("stackbound:setup-stack-differs", fmt.Sprintf("%d PUSH2 instructions left %d items (or other values) on the stack", len(vals), len(p.pre)), wi)
			return
		}
		if mon.maxStack > sbStackLimit {
			r.Violation("stackbound:stack-limit", fmt.Sprintf("stack of %d items observed", mon.maxStack), wit())
		}
		// successful instruction: stack effect
		if okClass && got == "ok" && p.havePost && !sc.spec.terminal && !sc.spec.undefined && !sc.spec.badImm {
			r.Count("stackbound_post_stack_checks", 1)
			keep := sc.depth - sc.spec.need
			switch {
			case len(p.post) != sc.depth+sc.spec.net:
				r.Violation("stackbound:stack-effect:"+sc.spec.name, fmt.Sprintf("%s at depth %d leaves %d items, reference %d", sc.opLabel(), sc.depth, len(p.post), sc.depth+sc.spec.net), wit())
			case !eqStacks(p.post[:keep], p.pre[:keep]):
				wi := wit()
				wi["pre_top"], wi["post_top"] = u256s(tail(p.pre, sc.spec.need+4)), u256s(tail(p.post, sc.spec.need+4))
				r.Violation("stackbound:clobber:"+sc.spec.name, fmt.Sprintf("%s changed stack items below its %d operands", sc.opLabel(), sc.spec.need), wi)
			case sc.spec.shuffle:
				r.Count("stackbound_shuffle_model_checks", 1)
				if m := sc.model(p.pre); !eqStacks(m, p.post) {
					wi := wit()
					wi["post_top"], wi["model_top"] = u256s(tail(p.post, sc.spec.need+4)), u256s(tail(m, sc.spec.need+4))
					r.Violation("stackbound:shuffle:"+sc.spec.name, fmt.Sprintf("%s at depth %d: post-stack differs from the model", sc.opLabel(), sc.depth), wi)
				}
			}
		}
		if sc.nested {
			r.Count("stackbound_nested_caller_checks", 1)
			outerWant := make([]uint256.Int, sbCanaries+1)
			for k := 0; k < sbCanaries; k++ {
				outerWant[k].SetUint64(uint64(0xca00 + k + 1))
			}
			if got == "ok" {
				outerWant[sbCanaries].SetUint64(1)
			}
			if !eqStacks(p.outer, outerWant) {
				wi := wit()
				wi["caller_stack"], wi["caller_stack_want"] = u256s(p.outer), u256s(outerWant)
				r.Violation("stackbound:caller-stack:"+sc.spec.name, fmt.Sprintf("caller's stack after a nested %s at depth %d (%s) is not canaries+flag", sc.opLabel(), sc.depth, got), wi)
			}
		}
		// evidence
		nest := ""
		if sc.nested {
			nest = "/nested"
			r.Count("stackbound_nested", 1)
		}
		r.Eval(fmt.Sprintf("sb/%s/%s/%s/%s%s", sc.rs, sc.spec.name, sc.dclass, got, nest))
		r.Count("stackbound_class:"+got, 1)
		r.Count("opcode_events_checked", mon.steps)
		r.Count("continuity_equations", mon.contEq)
		if mon.maxStack >= sbStackLimit {
			r.Count("stackbound_limit_reached", 1)
		}
		cov.mu.Lock()
		cov.ops[sc.rs][sc.op] = true
		cov.opDepth[sc.rs][fmt.Sprintf("%02x/%x/%v/%d", sc.op, sc.imm, sc.trunc, sc.depth)] = true
		cov.mu.Unlock()
		if r.WantSample() && i%1499 == 0 {
			s := wit()
			s["result"], s["expected"] = res.Digest(), want
			r.Sample(s)
		}
	})
	per := map[string]map[string]int{}
	tot := 0
	for _, rs := range evmenv.RuleSets {
		defined := 0
		f, _ := proggen.ParseFork(rs)
		for o := 0; o < 256; o++ {
			if cov.ops[rs][byte(o)] && proggen.Valid(f, byte(o)) {
				defined++
			}
		}
		per[rs] = map[string]int{"opcode_bytes": len(cov.ops[rs]), "defined_instructions": defined, "op_imm_depth_points": len(cov.opDepth[rs])}
		tot += len(cov.opDepth[rs])
	}
	r.Extra("stackbound_coverage_per_ruleset", per)
	r.Count("stackbound_op_imm_depth_points", tot)
	if !r.Race() {
		r.Require("stackbound_depth:need-1", 2000)
		r.Require("stackbound_depth:need", 2000)
		r.Require("stackbound_depth:need+1", 2000)
		r.Require("stackbound_depth:limit", 2000)
		r.Require("stackbound_class:underflow", 2000)
		r.Require("stackbound_class:overflow", 1000)
		r.Require("stackbound_class:invalidop", 2000)
		r.Require("stackbound_shuffle_model_checks", 2000)
		r.Require("stackbound_nested_caller_checks", 5000)
		// every valid EIP-8024 immediate at exactly need-1 / need / need+1, top level and nested
		for _, n := range []string{"DUPN", "SWAPN"} {
			for _, d := range []string{"need-1", "need", "need+1"} {
				r.Require(fmt.Sprintf("stackbound_eip8024:%s:%s", n, d), 2*220)
			}
		}
		for _, d := range []string{"need-1", "need", "need+1"} {
			r.Require("stackbound_eip8024:EXCHANGE:"+d, 2*211)
		}
	}
	r.Assume("stack requirements / effects of the boundary family come from proggen's own opcode table and the harness' EIP-8024 decode functions (cross-checked against proggen's encoders), not from go-ethereum's jump table")
}
