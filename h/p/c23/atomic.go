package main

import (
	"encoding/binary"
	"fmt"
	"os"
	"path/filepath"
	"sync"
	"sync/atomic"

	"verif/lib/vrt"
)

// atomicityPhase: "a batch is applied either entirely or not at all".
//
// A writer commits batches that always set both witness keys to the same counter (in either
// put order, surrounded by unrelated puts/deletes and, every few rounds, preceded by a range
// deletion covering both). Concurrent readers check
//
//	pair   : Get(k1) then Get(k2) must give c2 >= c1, Get(k2) then Get(k1) must give
//	         c1 >= c2 (a later read can only see a later batch; both keys always travel
//	         together) -- and both keys must always be present once the first batch is in;
//	iter   : a fresh iterator over both keys is a point-in-time view in all three backends,
//	         so it must show equal counters.
//
// Termination is by counts (writer rounds, minimal number of reads), never by time.
func atomicityPhase(r *vrt.Run) {
	rounds := r.N(1500, 40000)
	if r.Race() {
		rounds = r.N(400, 6000)
	}
	dir := filepath.Join(r.Scratch, "c23-atomic")
	os.MkdirAll(dir, 0o755)
	defer os.RemoveAll(dir)
	bes := []*backend{
		{name: "memorydb", kind: "mem"},
		{name: "memorydb+table", kind: "mem", table: true},
		{name: "pebble", kind: "pebble", dir: filepath.Join(dir, "p")},
		{name: "pebble+table", kind: "pebble", table: true, dir: filepath.Join(dir, "pt")},
		{name: "leveldb", kind: "leveldb", dir: filepath.Join(dir, "l")},
		{name: "leveldb+table", kind: "leveldb", table: true, dir: filepath.Join(dir, "lt")},
	}
	vrt.Par(len(bes), 0, func(i int) {
		b := bes[i]
		r.Case("atomicity %s", b.name)
		if err := b.open(); err != nil {
			r.Inconclusive("cannot open %s: %v", b.name, err)
			return
		}
		defer b.raw.Close()
		atomicOne(r, b, rounds)
	})
}

func ctr(v []byte) uint64 {
	if len(v) != 8 {
		return 0
	}
	return binary.BigEndian.Uint64(v)
}

func atomicOne(r *vrt.Run, b *backend, rounds int) {
	k1, k2 := []byte{0x00, 'a'}, []byte{0xff, 'a', 0x01}
	enc := func(c uint64) []byte { return binary.BigEndian.AppendUint64(nil, c) }
	// first batch synchronously, so that both keys exist for every reader
	first := b.kv.NewBatch()
	first.Put(k1, enc(1))
	first.Put(k2, enc(1))
	if err := first.Write(); err != nil {
		r.Violation("batch-write-error:"+b.kind, err.Error(), nil)
		return
	}
	var (
		done   atomic.Bool
		failed atomic.Bool
		pairs  atomic.Int64
		iters  atomic.Int64
		wg     sync.WaitGroup
	)
	viol := func(fp, msg string) {
		failed.Store(true)
		r.Violation(fp, "["+b.name+"] "+msg, map[string]any{"backend": b.name})
	}
	for g := 0; g < 3; g++ {
		wg.Add(1)
		go func(g int) {
			defer wg.Done()
			for n := 0; !failed.Load() && (!done.Load() || n < 300); n++ {
				switch (n + g) % 3 {
				case 0:
					v1, e1 := b.kv.Get(k1)
					v2, e2 := b.kv.Get(k2)
					if e1 != nil || e2 != nil {
						viol("atomic-pair-missing:"+b.kind, fmt.Sprintf("Get errors %v / %v although every batch writes both keys", e1, e2))
						return
					}
					if ctr(v2) < ctr(v1) {
						viol("atomic-pair-torn:"+b.kind, fmt.Sprintf("Get(k1)=%d then Get(k2)=%d", ctr(v1), ctr(v2)))
						return
					}
				case 1:
					v2, e2 := b.kv.Get(k2)
					v1, e1 := b.kv.Get(k1)
					if e1 != nil || e2 != nil {
						viol("atomic-pair-missing:"+b.kind, fmt.Sprintf("Get errors %v / %v although every batch writes both keys", e1, e2))
						return
					}
					if ctr(v1) < ctr(v2) {
						viol("atomic-pair-torn:"+b.kind, fmt.Sprintf("Get(k2)=%d then Get(k1)=%d", ctr(v2), ctr(v1)))
						return
					}
				default:
					it := b.kv.NewIterator(nil, nil)
					var c1, c2 uint64
					for it.Next() {
						switch string(it.Key()) {
						case string(k1):
							c1 = ctr(it.Value())
						case string(k2):
							c2 = ctr(it.Value())
						}
					}
					err := it.Error()
					it.Release()
					if err != nil {
						viol("iterator-error:"+b.kind, err.Error())
						return
					}
					if c1 != c2 || c1 == 0 {
						viol("atomic-iter-torn:"+b.kind, fmt.Sprintf("one iterator shows k1=%d k2=%d", c1, c2))
						return
					}
					iters.Add(1)
					continue
				}
				pairs.Add(1)
			}
		}(g)
	}
	if b.kind == "mem" {
		rounds *= 8 // memorydb batches are cheap; more rounds, more chances to catch a torn one
	}
	bt := b.kv.NewBatch()
	for c := uint64(2); c < uint64(rounds)+2 && !failed.Load(); c++ {
		bt.Reset()
		if c%5 == 0 {
			// a range deletion covering both witness keys followed by their re-insertion in
			// the same batch
			bt.DeleteRange([]byte{0x00}, []byte{0xff, 0xff})
		}
		bt.Put([]byte{0x01, byte(c)}, enc(c))
		a, z := k1, k2
		if c%2 == 1 {
			a, z = k2, k1
		}
		bt.Put(a, enc(c))
		bt.Delete([]byte{0x01, byte(c - 1)})
		for f := byte(0); f < 8; f++ { // unrelated entries between the two witness keys
			bt.Put([]byte{0x01, 0xff, f}, enc(c))
		}
		bt.Put(z, enc(c))
		if err := bt.Write(); err != nil {
			viol("batch-write-error:"+b.kind, err.Error())
			break
		}
	}
	done.Store(true)
	wg.Wait()
	r.Count("atomic_pairs_checked", int(pairs.Load()))
	r.Count("atomic_iterators_checked", int(iters.Load()))
	r.Count("atomic_batches", rounds)
	r.EvalN("atomicity/"+b.name, 1)
}
