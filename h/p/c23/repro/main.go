// Standalone reproduction of the C23 findings (cross-backend divergences of the ethdb
// key-value interface). Run: . /verif/env.sh; cd /verif/h; $GO run ./p/c23/repro
package main

import (
	"errors"
	"fmt"
	"os"
	"path/filepath"

	"github.com/ethereum/go-ethereum/core/rawdb"
	"github.com/ethereum/go-ethereum/ethdb"
	"github.com/ethereum/go-ethereum/ethdb/leveldb"
	"github.com/ethereum/go-ethereum/ethdb/memorydb"
	"github.com/ethereum/go-ethereum/ethdb/pebble"
)

func dump(s ethdb.KeyValueStore) string {
	it := s.NewIterator(nil, nil)
	defer it.Release()
	out := "{"
	for it.Next() {
		out += fmt.Sprintf(" %q=%q", it.Key(), it.Value())
	}
	return out + " }"
}

type failing struct{}

func (failing) Put(k, v []byte) error         { return errors.New("target failure") }
func (failing) Delete(k []byte) error         { return errors.New("target failure") }
func (failing) DeleteRange(s, e []byte) error { return errors.New("target failure") }

type sink struct{ ops []string }

func (s *sink) Put(k, v []byte) error { s.ops = append(s.ops, fmt.Sprintf("put %q", k)); return nil }
func (s *sink) Delete(k []byte) error { s.ops = append(s.ops, fmt.Sprintf("del %q", k)); return nil }
func (s *sink) DeleteRange(a, b []byte) error {
	s.ops = append(s.ops, fmt.Sprintf("delrange %q %q", a, b))
	return nil
}

func main() {
	dir, _ := os.MkdirTemp("/dev/shm", "c23repro")
	defer os.RemoveAll(dir)
	n := 0
	open := func() map[string]ethdb.KeyValueStore {
		n++
		p, err := pebble.New(filepath.Join(dir, fmt.Sprint("p", n)), 16, 16, "", false)
		if err != nil {
			panic(err)
		}
		l, err := leveldb.New(filepath.Join(dir, fmt.Sprint("l", n)), 16, 16, "", false)
		if err != nil {
			panic(err)
		}
		return map[string]ethdb.KeyValueStore{"memorydb": memorydb.New(), "pebble": p, "leveldb": l}
	}
	names := []string{"memorydb", "pebble", "leveldb"}

	fmt.Println("1. Put(k,v); batch{ Delete(empty key) }.Write()   -- expected content { \"k\"=\"v\" }")
	for name, s := range open() {
		s.Put([]byte("k"), []byte("v"))
		b := s.NewBatch()
		b.Delete([]byte{})
		b.Write()
		fmt.Printf("   %-9s %s\n", name, dump(s))
		s.Close()
	}
	fmt.Println("2. batch{ Put(k,v); DeleteRange(nil,nil) }.Write() -- expected content { }")
	for name, s := range open() {
		b := s.NewBatch()
		b.Put([]byte("k"), []byte("v"))
		b.DeleteRange(nil, nil)
		b.Write()
		fmt.Printf("   %-9s %s\n", name, dump(s))
		s.Close()
	}
	fmt.Println("3. batch{ Put(k,v) }.Replay(writer whose Put fails)  -- expected: the error is returned")
	for name, s := range open() {
		b := s.NewBatch()
		b.Put([]byte("k"), []byte("v"))
		fmt.Printf("   %-9s Replay returned %v\n", name, b.Replay(failing{}))
		s.Close()
	}
	fmt.Println("4. batch{ DeleteRange(a,b) }.Replay(writer with DeleteRange), bare vs behind rawdb.NewTable(\"p\")")
	for _, name := range names {
		ss := open()
		s := ss[name]
		bare, tbl := s.NewBatch(), rawdb.NewTable(rawdb.NewDatabase(s), "p").NewBatch()
		bare.DeleteRange([]byte("a"), []byte("b"))
		tbl.DeleteRange([]byte("a"), []byte("b"))
		k1, k2 := &sink{}, &sink{}
		e1, e2 := bare.Replay(k1), tbl.Replay(k2)
		fmt.Printf("   %-9s bare: err=%v ops=%v | table: err=%v ops=%v\n", name, e1, k1.ops, e2, k2.ops)
		for _, x := range ss {
			x.Close()
		}
	}
	fmt.Println("5. iterator after exhaustion -- documented: Key()/Value() nil if done")
	for name, s := range open() {
		s.Put([]byte("k"), []byte("v"))
		it := s.NewIterator(nil, nil)
		for it.Next() {
		}
		fmt.Printf("   %-9s Key()=%q Value()=%q\n", name, it.Key(), it.Value())
		it.Release()
		s.Close()
	}
	fmt.Println("6. store whose data was compacted into table files; batch.DeleteRange(\"z\", \"a\") (start > end, an empty range) -- expected: no-op")
	for _, name := range names {
		ss := open()
		s := ss[name]
		for i := 0; i < 4; i++ {
			s.Put([]byte{'b' + byte(i)}, []byte("v"))
		}
		s.Compact(nil, nil)
		func() {
			defer func() {
				if e := recover(); e != nil {
					fmt.Printf("   %-9s PANIC: %v\n", name, e)
				}
			}()
			b := s.NewBatch()
			err := b.DeleteRange([]byte("z"), []byte("a"))
			werr := b.Write()
			fmt.Printf("   %-9s DeleteRange err=%v Write err=%v content %s\n", name, err, werr, dump(s))
		}()
		for _, x := range ss {
			x.Close()
		}
	}
}
