// C23: key-value backends are observationally equivalent.
//
// The same random operation history is applied to memorydb, Pebble and LevelDB (the persistent
// ones under r.Scratch, a tmpfs), each bare or behind rawdb.NewTable(prefix), and to a 30-line
// ordered-map model (refkv). Every result (Get/Has, iterator sequences, errors) and, after
// every mutating operation, the complete content is compared with the model; behind a table
// the foreign keys of the underlying store must stay untouched.
package main

import (
	"bytes"
	"errors"
	"fmt"
	"math/rand"
	"os"
	"path/filepath"
	"runtime/debug"
	"sort"
	"strings"

	"github.com/ethereum/go-ethereum/core/rawdb"
	"github.com/ethereum/go-ethereum/ethdb"
	"github.com/ethereum/go-ethereum/ethdb/leveldb"
	"github.com/ethereum/go-ethereum/ethdb/memorydb"
	"github.com/ethereum/go-ethereum/ethdb/pebble"

	"verif/lib/vrt"
)

func main() { vrt.Main("C23", run) }

// ---- refkv: the reference model ----

type refkv map[string][]byte

func (m refkv) copy() refkv {
	n := make(refkv, len(m))
	for k, v := range m {
		n[k] = v
	}
	return n
}

type kv struct{ K, V []byte }

// scan returns the entries with the given prefix and key >= prefix+start in ascending order.
func (m refkv) scan(prefix, start []byte) []kv {
	lo := string(prefix) + string(start)
	var out []kv
	for k, v := range m {
		if len(k) >= len(prefix) && k[:len(prefix)] == string(prefix) && k >= lo {
			out = append(out, kv{[]byte(k), v})
		}
	}
	sort.Slice(out, func(i, j int) bool { return bytes.Compare(out[i].K, out[j].K) < 0 })
	return out
}

// delRange removes [s,e); a nil bound is infinite.
func (m refkv) delRange(s, e []byte) {
	for k := range m {
		if (s == nil || k >= string(s)) && (e == nil || k < string(e)) {
			delete(m, k)
		}
	}
}

func (m refkv) equal(o refkv) bool {
	if len(m) != len(o) {
		return false
	}
	for k, v := range m {
		if w, ok := o[k]; !ok || !bytes.Equal(v, w) {
			return false
		}
	}
	return true
}

func (m refkv) String() string {
	s := "{"
	for i, e := range m.scan(nil, nil) {
		if i > 0 {
			s += " "
		}
		s += fmt.Sprintf("%x=%x", e.K, e.V)
	}
	return s + "}"
}

// batch operations
type bop struct {
	kind byte // 'p' put, 'd' delete, 'r' delete range
	k, v []byte
	s, e []byte
}

func (m refkv) apply(ops []bop) {
	for _, o := range ops {
		switch o.kind {
		case 'p':
			m[string(o.k)] = o.v
		case 'd':
			delete(m, string(o.k))
		case 'r':
			m.delRange(o.s, o.e)
		}
	}
}

// ---- backends ----

const tablePrefix = "a\xff" // ends in 0xff: the upper bound of the table's key range needs a carry

// foreign keys surrounding the table's key range in the underlying store
var foreign = []kv{
	{[]byte("a"), []byte("f0")},
	{[]byte("a\xfe\xff\xff\xff\xff\xff"), []byte("f1")},
	{[]byte("b"), []byte("f2")},
	{[]byte("b\x00"), []byte("f3")},
	{[]byte{}, []byte("f4")}, // the empty key of the underlying store
	{[]byte("\xff\xff"), []byte("f5")},
}

type batchState struct {
	// committed: Write happened and Reset did not yet. Pebble batches must not be modified or
	// written again in that state ("batch already committing"); the interface documents Reset
	// as the way to reuse a batch, so the generator resets first. Replay after Write is used
	// by production code (hashdb.Commit) and stays in.
	committed bool
	b         ethdb.Batch
	std       []bop // operations with the interface semantics (applied in order at Write)
	alt       []bop // backend-specific alternative reading used only to classify a divergence
}

type iterState struct {
	it   ethdb.Iterator
	rest []kv // snapshot at creation, not yet consumed
}

type backend struct {
	name     string
	kind     string // mem | pebble | leveldb
	table    bool
	dir      string
	raw      ethdb.KeyValueStore // underlying store
	kv       ethdb.KeyValueStore // view under test
	m        refkv               // expected content of the view
	bs       [2]*batchState
	its      [2]*iterState
	panicked bool // a call panicked inside the backend: do not touch (or close) it any more
	dead     bool // stop judging this backend in this case (after a reported divergence that cannot be resynchronised)
}

func (b *backend) open() error {
	var err error
	switch b.kind {
	case "mem":
		if b.raw == nil {
			b.raw = memorydb.New()
		}
	case "pebble":
		b.raw, err = pebble.New(b.dir, 16, 16, "", false)
	case "leveldb":
		b.raw, err = leveldb.New(b.dir, 16, 16, "", false)
	}
	if err != nil {
		return err
	}
	b.kv = b.raw
	if b.table {
		b.kv = rawdb.NewTable(rawdb.NewDatabase(b.raw), tablePrefix)
	}
	return nil
}

func cp(b []byte) []byte {
	if b == nil {
		return nil
	}
	return append(make([]byte, 0, len(b)), b...)
}

// ---- the case ----

type hist struct {
	r    *vrt.Run
	rng  *rand.Rand
	idx  int
	bes  []*backend
	log  []string
	keys [][]byte
	// shape
	kinds map[string]bool
	seen  map[string]bool
}

func (h *hist) logf(format string, a ...any) {
	h.log = append(h.log, fmt.Sprintf(format, a...))
}

func (h *hist) witness(extra map[string]any) map[string]any {
	w := map[string]any{"case": h.idx, "ops": h.log}
	for k, v := range extra {
		w[k] = v
	}
	return w
}

// once reports a finding class at most once per case and backend.
func (h *hist) once(b *backend, fp, msg string) {
	if h.seen[b.name+"|"+fp] {
		return
	}
	h.seen[b.name+"|"+fp] = true
	h.viol(b, fp, msg)
}

func (h *hist) viol(b *backend, fp, msg string) {
	h.r.Violation(fp, fmt.Sprintf("[%s] %s", b.name, msg), h.witness(map[string]any{"backend": b.name}))
}

var alphabet = []byte{0x00, 0x01, 0xff, 'a'}

func (h *hist) key() []byte {
	if h.rng.Intn(4) != 0 && len(h.keys) > 0 {
		return cp(h.keys[h.rng.Intn(len(h.keys))])
	}
	n := h.rng.Intn(5)
	if h.rng.Intn(12) == 0 {
		n = 0
	}
	k := make([]byte, n)
	for i := range k {
		k[i] = alphabet[h.rng.Intn(len(alphabet))]
	}
	h.keys = append(h.keys, k)
	return cp(k)
}

func (h *hist) bound() []byte {
	switch h.rng.Intn(8) {
	case 0:
		return nil
	case 1:
		return []byte{}
	}
	return h.key()
}

func (h *hist) val() []byte {
	switch h.rng.Intn(6) {
	case 0:
		return []byte{}
	case 1:
		return nil
	}
	v := make([]byte, 1+h.rng.Intn(6))
	h.rng.Read(v)
	return v
}

// content reads the complete view through a fresh iterator.
func content(s ethdb.KeyValueStore) (refkv, error) {
	it := s.NewIterator(nil, nil)
	defer it.Release()
	m := refkv{}
	for it.Next() {
		m[string(it.Key())] = cp(it.Value())
	}
	return m, it.Error()
}

// verify compares the complete content (and the foreign keys) with the model. alt, when
// non-nil, is a backend-specific alternative expectation with its finding fingerprint.
func (h *hist) verify(b *backend, what string, alt refkv, altFP, altMsg string) {
	if b.dead {
		return
	}
	got, err := content(b.kv)
	if err != nil {
		h.viol(b, "iterator-error:"+b.kind, fmt.Sprintf("after %s: full scan error %v", what, err))
		b.dead = true
		return
	}
	h.r.Count("content_checks", 1)
	if !got.equal(b.m) {
		if alt != nil && got.equal(alt) {
			h.once(b, altFP, fmt.Sprintf("after %s: %s; content %v, interface semantics give %v", what, altMsg, got, b.m))
			b.m = got.copy() // resynchronise and go on
		} else {
			h.viol(b, fmt.Sprintf("content:%s:%s", b.kind, opClass(what)), fmt.Sprintf("after %s: content %v, model %v", what, got, b.m))
			b.dead = true
		}
		return
	}
	if b.table {
		for _, f := range foreign {
			v, err := b.raw.Get(f.K)
			if err != nil || !bytes.Equal(v, f.V) {
				h.viol(b, "table-leak:"+opClass(what), fmt.Sprintf("after %s: foreign key %x of the underlying store is now %x (err %v), was %x", what, f.K, v, err, f.V))
				b.dead = true
				return
			}
		}
	}
}

func opClass(what string) string {
	for i := 0; i < len(what); i++ {
		if what[i] == ' ' || what[i] == '(' {
			return what[:i]
		}
	}
	return what
}

func isNil(b []byte) string {
	if b == nil {
		return "nil"
	}
	return fmt.Sprintf("%x", b)
}

// failing writer for Replay
type failWriter struct {
	n    int
	seen []bop
}

var errReplayTarget = errors.New("replay target failure")

func (f *failWriter) step() error {
	if f.n == 0 {
		return errReplayTarget
	}
	f.n--
	return nil
}
func (f *failWriter) Put(k, v []byte) error {
	if err := f.step(); err != nil {
		return err
	}
	f.seen = append(f.seen, bop{kind: 'p', k: cp(k), v: cp(v)})
	return nil
}
func (f *failWriter) Delete(k []byte) error {
	if err := f.step(); err != nil {
		return err
	}
	f.seen = append(f.seen, bop{kind: 'd', k: cp(k)})
	return nil
}
func (f *failWriter) DeleteRange(s, e []byte) error {
	if err := f.step(); err != nil {
		return err
	}
	f.seen = append(f.seen, bop{kind: 'r', s: cp(s), e: cp(e)})
	return nil
}

// altOps derives the backend-specific alternative reading of one batch operation.
//
//	leveldb : batch.DeleteRange is documented as a fallback that scans the store when it is
//	          called and queues individual deletes for the keys found then.
//	memorydb: a batch Delete of the empty key is stored like a range deletion with nil
//	          bounds (the record has an empty key), i.e. it purges the store.
func (b *backend) altOps(o bop) []bop {
	switch {
	case b.kind == "leveldb" && o.kind == 'r':
		var out []bop
		for _, e := range b.m.scan(nil, nil) {
			if (o.s == nil || bytes.Compare(e.K, o.s) >= 0) && (o.e == nil || bytes.Compare(e.K, o.e) < 0) {
				out = append(out, bop{kind: 'd', k: e.K})
			}
		}
		return out
	case b.kind == "mem" && !b.table && o.kind == 'd' && len(o.k) == 0:
		return []bop{{kind: 'r'}}
	}
	return []bop{o}
}

func (h *hist) batch(b *backend, slot int) *batchState {
	if b.bs[slot] == nil {
		var nb ethdb.Batch
		if h.rng.Intn(2) == 0 {
			nb = b.kv.NewBatch()
		} else {
			nb = b.kv.NewBatchWithSize(64)
		}
		b.bs[slot] = &batchState{b: nb}
	}
	return b.bs[slot]
}

// altContent computes the alternative expectation after applying alt ops.
func altContent(b *backend, ops []bop) refkv {
	m := b.m.copy()
	m.apply(ops)
	return m
}

var altFP = map[string][2]string{
	"leveldb": {"leveldb:batch-deleterange-resolved-at-call-time", "the batch's DeleteRange covered only the keys that were in the store when DeleteRange was called"},
	"mem":     {"memorydb:batch-delete-empty-key-purges-store", "a batch Delete of the empty key purged the whole store"},
	"pebble":  {"", ""},
}

func (h *hist) step(s int) {
	rng := h.rng
	op := rng.Intn(100)
	switch {
	case op < 14: // put
		k, v := h.key(), h.val()
		h.logf("%d put %x=%s", s, k, isNil(v))
		h.kinds["put"] = true
		h.each(func(b *backend) {
			if err := b.kv.Put(cp(k), cp(v)); err != nil {
				h.viol(b, "put-error:"+b.kind, fmt.Sprintf("Put(%x,%x): %v", k, v, err))
				b.dead = true
				return
			}
			b.m[string(k)] = append([]byte{}, v...)
			h.verify(b, "put", nil, "", "")
		})
	case op < 20: // delete
		k := h.key()
		h.logf("%d del %x", s, k)
		h.kinds["del"] = true
		h.each(func(b *backend) {
			if err := b.kv.Delete(cp(k)); err != nil {
				h.viol(b, "delete-error:"+b.kind, fmt.Sprintf("Delete(%x): %v", k, err))
				b.dead = true
				return
			}
			delete(b.m, string(k))
			h.verify(b, "del", nil, "", "")
		})
	case op < 27: // delete range
		st, en := h.fixRange(h.bound(), h.bound())
		h.logf("%d delrange [%s,%s)", s, isNil(st), isNil(en))
		h.kinds[rangeShape(st, en)] = true
		h.each(func(b *backend) {
			if err := b.kv.DeleteRange(cp(st), cp(en)); err != nil {
				h.viol(b, "deleterange-error:"+b.kind+":"+rangeShape(st, en), fmt.Sprintf("DeleteRange(%s,%s): %v", isNil(st), isNil(en), err))
				b.dead = true
				return
			}
			b.m.delRange(st, en)
			h.verify(b, "delrange", nil, "", "")
		})
	case op < 40: // get / has
		k := h.key()
		h.logf("%d get %x", s, k)
		h.each(func(b *backend) {
			want, ok := b.m[string(k)]
			has, err := b.kv.Has(cp(k))
			if err != nil || has != ok {
				h.viol(b, "has:"+b.kind, fmt.Sprintf("Has(%x)=%v,%v model %v", k, has, err, ok))
				b.dead = true
				return
			}
			v, err := b.kv.Get(cp(k))
			if ok != (err == nil) || (ok && !bytes.Equal(v, want)) {
				h.viol(b, "get:"+b.kind, fmt.Sprintf("Get(%x)=%x,%v model %x present=%v", k, v, err, want, ok))
				b.dead = true
				return
			}
			h.r.Count("reads_compared", 1)
		})
	case op < 52: // scan with prefix / start, full or partial
		p, st := h.bound(), h.bound()
		if rng.Intn(3) == 0 {
			p = nil
		}
		n := -1
		if rng.Intn(3) == 0 {
			n = rng.Intn(4)
		}
		p, st = h.fixBounds(p, st)
		h.logf("%d scan prefix=%s start=%s n=%d", s, isNil(p), isNil(st), n)
		h.kinds["scan"] = true
		h.each(func(b *backend) {
			want := b.m.scan(p, st)
			it := b.kv.NewIterator(cp(p), cp(st))
			ok := h.consume(b, it, &want, n, fmt.Sprintf("scan(%s,%s)", isNil(p), isNil(st)))
			if ok && n < 0 {
				if it.Next() {
					h.viol(b, "iterator-next-after-end:"+b.kind, "Next() true after exhaustion")
				}
				if err := it.Error(); err != nil {
					h.viol(b, "iterator-error:"+b.kind, fmt.Sprintf("Error()=%v after exhaustion", err))
				}
			}
			it.Release()
			it.Release()
			if !ok {
				b.dead = true
			}
		})
	case op < 58: // open an iterator and hold it across later writes
		slot := rng.Intn(2)
		p, st := h.bound(), h.bound()
		if rng.Intn(2) == 0 {
			p = nil
		}
		p, st = h.fixBounds(p, st)
		h.logf("%d hold it%d prefix=%s start=%s", s, slot, isNil(p), isNil(st))
		h.kinds["hold"] = true
		h.each(func(b *backend) {
			if b.its[slot] != nil {
				b.its[slot].it.Release()
			}
			b.its[slot] = &iterState{it: b.kv.NewIterator(cp(p), cp(st)), rest: b.m.scan(p, st)}
		})
	case op < 64: // continue a held iterator (the snapshot taken at creation must be served)
		slot := rng.Intn(2)
		n := -1
		if rng.Intn(2) == 0 {
			n = 1 + rng.Intn(3)
		}
		h.logf("%d drain it%d n=%d", s, slot, n)
		h.each(func(b *backend) {
			is := b.its[slot]
			if is == nil {
				return
			}
			ok := h.consume(b, is.it, &is.rest, n, "held iterator")
			h.r.Count("held_iterator_reads", 1)
			if !ok {
				b.dead = true
			}
			if n < 0 || !ok {
				is.it.Release()
				b.its[slot] = nil
			}
		})
	case op < 76: // batch put / delete / delete range
		slot := rng.Intn(2)
		var o bop
		switch x := rng.Intn(10); {
		case x < 5:
			o = bop{kind: 'p', k: h.key(), v: h.val()}
		case x < 8:
			o = bop{kind: 'd', k: h.key()}
		default:
			o = bop{kind: 'r'}
			o.s, o.e = h.fixRange(h.bound(), h.bound())
			h.kinds["batch-"+rangeShape(o.s, o.e)] = true
		}
		h.logf("%d b%d %c k=%x v=%s s=%s e=%s", s, slot, o.kind, o.k, isNil(o.v), isNil(o.s), isNil(o.e))
		h.kinds["batch"] = true
		h.each(func(b *backend) {
			bs := h.batch(b, slot)
			if bs.committed {
				bs.b.Reset()
				bs.std, bs.alt, bs.committed = nil, nil, false
			}
			var err error
			switch o.kind {
			case 'p':
				err = bs.b.Put(cp(o.k), cp(o.v))
			case 'd':
				err = bs.b.Delete(cp(o.k))
			default:
				err = bs.b.DeleteRange(cp(o.s), cp(o.e))
			}
			if err != nil {
				h.viol(b, fmt.Sprintf("batch-op-error:%s:%c", b.kind, o.kind), fmt.Sprintf("batch %c(%x,%s,%s,%s): %v", o.kind, o.k, isNil(o.v), isNil(o.s), isNil(o.e), err))
				b.dead = true
				return
			}
			oo := o
			if o.kind == 'p' {
				oo.v = append([]byte{}, o.v...)
			}
			bs.alt = append(bs.alt, b.altOps(oo)...)
			bs.std = append(bs.std, oo)
			if o.kind == 'p' && bs.b.ValueSize() == 0 && len(o.k)+len(o.v) > 0 {
				h.viol(b, "batch-valuesize-zero:"+b.kind, "ValueSize() is 0 after a Put")
			}
			// nothing may be visible before Write
			h.verify(b, "batch-op (unwritten)", nil, "", "")
		})
	case op < 84: // batch write
		slot := rng.Intn(2)
		h.logf("%d b%d write", s, slot)
		h.kinds["bwrite"] = true
		h.each(func(b *backend) {
			bs := b.bs[slot]
			if bs == nil || bs.committed {
				return
			}
			bs.committed = true
			if err := bs.b.Write(); err != nil {
				h.viol(b, "batch-write-error:"+b.kind, fmt.Sprintf("Write: %v", err))
				b.dead = true
				return
			}
			alt := altContent(b, bs.alt)
			b.m.apply(bs.std)
			h.verify(b, "bwrite", alt, altFP[b.kind][0], altFP[b.kind][1])
			h.r.Count("batch_writes", 1)
		})
	case op < 88: // reset and reuse
		slot := rng.Intn(2)
		h.logf("%d b%d reset", s, slot)
		h.kinds["breset"] = true
		h.each(func(b *backend) {
			if bs := b.bs[slot]; bs != nil {
				bs.b.Reset()
				bs.std, bs.alt, bs.committed = nil, nil, false
				if bs.b.ValueSize() != 0 {
					h.viol(b, "batch-valuesize-after-reset:"+b.kind, fmt.Sprintf("ValueSize()=%d after Reset", bs.b.ValueSize()))
				}
			}
		})
	case op < 95: // replay
		slot := rng.Intn(2)
		mode := rng.Intn(3)
		failAt := rng.Intn(4)
		h.logf("%d b%d replay mode=%d failAt=%d", s, slot, mode, failAt)
		h.kinds[fmt.Sprintf("replay%d", mode)] = true
		h.each(func(b *backend) {
			bs := b.bs[slot]
			if bs == nil {
				return
			}
			switch mode {
			case 0: // into the store itself
				if err := bs.b.Replay(b.kv); err != nil {
					if h.tableRangeReplay(b, bs, err, "store") {
						b.m, _ = content(b.kv) // the operations before the range record went in: resynchronise
						return
					}
					h.viol(b, "replay-error:"+b.kind+replayShape(bs), fmt.Sprintf("Replay(store): %v (batch %s)", err, fmtOps(bs.std)))
					b.dead = true
					return
				}
				alt := altContent(b, bs.alt)
				b.m.apply(bs.std)
				h.verify(b, "replay-store", alt, altFP[b.kind][0], altFP[b.kind][1])
			case 1: // into the other batch, which is then written
				other := h.batch(b, 1-slot)
				if other.committed {
					other.b.Reset()
					other.std, other.alt, other.committed = nil, nil, false
				}
				if err := bs.b.Replay(other.b); err != nil {
					if h.tableRangeReplay(b, bs, err, "batch") {
						other.b.Reset() // partially filled: discard
						other.std, other.alt, other.committed = nil, nil, false
						return
					}
					h.viol(b, "replay-error:"+b.kind+replayShape(bs), fmt.Sprintf("Replay(batch): %v (batch %s)", err, fmtOps(bs.std)))
					b.dead = true
					return
				}
				// the target batch now carries the source's operations
				other.alt = append(other.alt, bs.alt...)
				other.std = append(other.std, bs.std...)
				h.verify(b, "replay-batch (unwritten)", nil, "", "")
			default: // into a writer that fails at operation failAt: Replay must report it
				fw := &failWriter{n: failAt}
				err := bs.b.Replay(fw)
				nops := len(bs.std)
				if b.kind == "leveldb" {
					nops = len(bs.alt)
				}
				if failAt < nops && err == nil {
					h.once(b, "replay-swallowed-error:"+b.kind, fmt.Sprintf("Replay into a writer failing at op %d of %d returned nil", failAt, nops))
				}
				if failAt >= nops && err != nil && !h.tableRangeReplay(b, bs, err, "writer") {
					h.viol(b, "replay-error:"+b.kind+replayShape(bs), fmt.Sprintf("Replay into a recording writer: %v (batch %s)", err, fmtOps(bs.std)))
				}
				h.r.Count("replays_into_failing_writer", 1)
			}
			h.r.Count("replays", 1)
		})
	default: // reopen the persistent backends
		if rng.Intn(5) < 3 {
			return
		}
		h.logf("%d reopen", s)
		h.kinds["reopen"] = true
		h.each(func(b *backend) {
			if b.kind == "mem" {
				return
			}
			for i := range b.its {
				if b.its[i] != nil {
					b.its[i].it.Release()
					b.its[i] = nil
				}
			}
			for i := range b.bs {
				if b.bs[i] != nil {
					b.bs[i].b.Close()
					b.bs[i] = nil
				}
			}
			if err := b.raw.Close(); err != nil {
				h.viol(b, "close-error:"+b.kind, err.Error())
			}
			if err := b.open(); err != nil {
				h.viol(b, "reopen-error:"+b.kind, err.Error())
				b.dead = true
				return
			}
			h.verify(b, "reopen", nil, "", "")
			h.r.Count("reopens", 1)
		})
		// memorydb keeps its batches: drop them too so that all backends stay in step
		h.each(func(b *backend) {
			if b.kind == "mem" {
				b.bs = [2]*batchState{}
				for i := range b.its {
					if b.its[i] != nil {
						b.its[i].it.Release()
						b.its[i] = nil
					}
				}
			}
		})
	}
}

// tableRangeReplay recognises the one known reason for a failing replay: a batch of a table
// view that holds a range deletion (the table's replayer has no DeleteRange).
func (h *hist) tableRangeReplay(b *backend, bs *batchState, err error, target string) bool {
	if !b.table || replayShape(bs) == "" || !strings.Contains(err.Error(), "does not implement DeleteRange") {
		return false
	}
	h.once(b, "table:replay-deleterange-unsupported", fmt.Sprintf("Replay(%s) of a table batch holding a DeleteRange fails: %v (batch %s); the same batch replays fine without the table wrapper", target, err, fmtOps(bs.std)))
	return true
}

func replayShape(bs *batchState) string {
	for _, o := range bs.std {
		if o.kind == 'r' {
			return ":with-deleterange"
		}
	}
	return ""
}

func fmtOps(ops []bop) string {
	s := ""
	for _, o := range ops {
		switch o.kind {
		case 'p':
			s += fmt.Sprintf("put(%x,%x) ", o.k, o.v)
		case 'd':
			s += fmt.Sprintf("del(%x) ", o.k)
		default:
			s += fmt.Sprintf("delrange(%s,%s) ", isNil(o.s), isNil(o.e))
		}
	}
	return s
}

// fixRange: the race build compiles Pebble with its "invariants" debug mode (build tag race),
// in which zero-length user keys in range tombstones and seek bounds trip debug-only code
// (testingDisableSeekOpt indexes key[0]; the rowblk fragment iterator reports "next entry
// unexpectedly invalid" and drops such a tombstone after a reopen). None of this shows in a
// normal build, where the default variant exercises empty bounds thousands of times. The race
// variant therefore avoids empty range starts and empty iterator lower bounds.
func (h *hist) fixRange(s, e []byte) ([]byte, []byte) {
	if h.r.Race() && len(s) == 0 {
		s = []byte{0x00}
	}
	return s, e
}

// fixBounds: see fixRange; in the race build an iterator never gets an empty, non-nil
// lower bound.
func (h *hist) fixBounds(p, st []byte) ([]byte, []byte) {
	if h.r.Race() && len(p)+len(st) == 0 {
		return nil, nil
	}
	return p, st
}

func rangeShape(s, e []byte) string {
	switch {
	case s == nil && e == nil:
		return "range-nil-nil"
	case s == nil:
		return "range-nil-start"
	case e == nil:
		return "range-nil-end"
	case bytes.Compare(s, e) > 0:
		return "range-inverted"
	case bytes.Equal(s, e):
		return "range-empty"
	}
	return "range"
}

// consume reads n entries (all if n < 0) from it and compares with *want.
func (h *hist) consume(b *backend, it ethdb.Iterator, want *[]kv, n int, what string) bool {
	for i := 0; n < 0 || i < n; i++ {
		ok := it.Next()
		if !ok {
			if len(*want) != 0 {
				h.viol(b, "iterator-short:"+b.kind+tbl(b), fmt.Sprintf("%s ended, model still has %x (err %v)", what, (*want)[0].K, it.Error()))
				return false
			}
			// ethdb.Iterator: "Key returns the key of the current key/value pair, or nil if done"
			if k, v := it.Key(), it.Value(); len(k) != 0 || len(v) != 0 {
				h.once(b, "iterator-key-after-end:"+b.kind, fmt.Sprintf("%s: after Next() returned false Key()=%x Value()=%x (documented: nil if done)", what, k, v))
			}
			return true
		}
		if len(*want) == 0 {
			h.viol(b, "iterator-extra:"+b.kind+tbl(b), fmt.Sprintf("%s yields %x=%x beyond the model's end", what, it.Key(), it.Value()))
			return false
		}
		e := (*want)[0]
		if !bytes.Equal(it.Key(), e.K) || !bytes.Equal(it.Value(), e.V) {
			h.viol(b, "iterator-entry:"+b.kind+tbl(b), fmt.Sprintf("%s yields %x=%x, model %x=%x", what, it.Key(), it.Value(), e.K, e.V))
			return false
		}
		*want = (*want)[1:]
		h.r.Count("iterator_entries_compared", 1)
	}
	return true
}

func tbl(b *backend) string {
	if b.table {
		return ":table"
	}
	return ""
}

// each runs f for every backend still judged; a panic inside a backend call is a violation
// (fingerprint = first go-ethereum frame) and retires the backend for this case.
func (h *hist) each(f func(b *backend)) {
	for _, b := range h.live() {
		func() {
			defer func() {
				if e := recover(); e != nil {
					st := string(debug.Stack())
					h.viol(b, "panic:"+vrt.PanicSite(st), fmt.Sprintf("panic: %v (last op: %s)\n%s", e, h.log[len(h.log)-1], trimStack(st)))
					b.dead, b.panicked = true, true
				}
			}()
			f(b)
		}()
	}
}

func trimStack(st string) string {
	if len(st) > 2500 {
		return st[:2500]
	}
	return st
}

func (h *hist) live() []*backend {
	out := h.bes[:0:0]
	for _, b := range h.bes {
		if !b.dead {
			out = append(out, b)
		}
	}
	return out
}

func oneCase(r *vrt.Run, idx int) {
	rng := r.Rand("hist", idx)
	r.Case("history %d", idx)
	h := &hist{r: r, rng: rng, idx: idx, kinds: map[string]bool{}, seen: map[string]bool{}}
	dir := filepath.Join(r.Scratch, fmt.Sprintf("c23-%d", idx))
	os.MkdirAll(dir, 0o755)
	defer os.RemoveAll(dir)
	// memorydb bare and behind a table always; the persistent ones alternate between bare
	// and table by case (two opens per case instead of four)
	tableP, tableL := idx%2 == 0, (idx/2)%2 == 0
	h.bes = []*backend{
		{name: "memorydb", kind: "mem"},
		{name: "memorydb+table", kind: "mem", table: true},
		{name: "pebble" + map[bool]string{true: "+table"}[tableP], kind: "pebble", table: tableP, dir: filepath.Join(dir, "p")},
		{name: "leveldb" + map[bool]string{true: "+table"}[tableL], kind: "leveldb", table: tableL, dir: filepath.Join(dir, "l")},
	}
	for _, b := range h.bes {
		if err := b.open(); err != nil {
			r.Inconclusive("cannot open %s: %v", b.name, err)
			return
		}
		b.m = refkv{}
		if b.table {
			for _, f := range foreign {
				if err := b.raw.Put(f.K, f.V); err != nil {
					r.Inconclusive("cannot seed %s: %v", b.name, err)
					return
				}
			}
		}
	}
	defer func() {
		for _, b := range h.bes {
			if b.panicked {
				continue
			}
			for _, is := range b.its {
				if is != nil {
					is.it.Release()
				}
			}
			for _, bs := range b.bs {
				if bs != nil {
					bs.b.Close()
				}
			}
			b.raw.Close()
		}
	}()
	nops := 80
	for s := 0; s < nops && len(h.live()) > 0; s++ {
		h.step(s)
	}
	// final: the underlying stores of table views hold exactly foreign + prefixed model
	for _, b := range h.live() {
		if !b.table {
			continue
		}
		got, err := content(b.raw)
		want := refkv{}
		for _, f := range foreign {
			want[string(f.K)] = f.V
		}
		for k, v := range b.m {
			want[tablePrefix+k] = v
		}
		if err != nil || !got.equal(want) {
			h.viol(b, "table-underlying-content:"+b.kind, fmt.Sprintf("underlying store holds %v, expected %v (err %v)", got, want, err))
		}
	}
	ks := make([]string, 0, len(h.kinds))
	for k := range h.kinds {
		ks = append(ks, k)
	}
	sort.Strings(ks)
	r.Eval(fmt.Sprintf("tp=%v/tl=%v/%v", tableP, tableL, ks))
	for _, k := range ks {
		r.Count("hist_with_"+k, 1)
	}
	if r.WantSample() && h.kinds["replay1"] && h.kinds["hold"] {
		r.Sample(map[string]any{"case": idx, "ops": h.log})
	}
}

func run(r *vrt.Run) {
	r.Rule("one history = 80 operations over keys of length 0..4 from {00,01,ff,'a'} (reused with probability 3/4) and values incl. nil/empty, applied in lock step to memorydb, memorydb behind rawdb.NewTable, Pebble and LevelDB (bare or behind a table, alternating by case; the table prefix ends in 0xff and the underlying store holds foreign keys around it): put, delete, DeleteRange with nil/empty/inverted/equal bounds, Get/Has, full and partial scans with prefix/start, iterators held across later writes, two batch slots (put/delete/DeleteRange, write, reset+reuse, replay into the store / the other batch / a failing writer), reopen of the persistent stores; the complete content is compared with the model after every mutating operation. non-trivial signature = (table placement, set of operation kinds and range shapes that occurred)")
	n := r.N(600, 40000)
	if r.Race() {
		n = r.N(120, 4000)
	}
	vrt.Par(n, 0, func(i int) { oneCase(r, i) })
	atomicityPhase(r)
	r.Require("batch_writes", 1000)
	r.Require("replays", 300)
	r.Require("held_iterator_reads", 300)
	r.Require("reopens", 100)
	r.Require("atomic_pairs_checked", 1000)
	r.Assume("refkv ordered-map model (30 lines); iterators are compared as point-in-time snapshots taken at creation (all three backends implement that; the ethdb interface does not say so explicitly)")
}
