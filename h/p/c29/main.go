// C29: static and reverted frames have no lasting effects (metamorphic A ≡ B).
//
// Wrapper W performs op(callee) for op in CALL / CALLCODE / DELEGATECALL / STATICCALL (for
// CREATE / CREATE2 through an inner creator contract V that gets limited gas), stores only the
// success flag and then runs a fixed probe suffix (GAS-measured cost of BALANCE / EXTCODESIZE on
// every address and SLOAD on every slot the callee could have touched = access-list warmth, the
// slot values, TLOAD values, SELFBALANCE), all stored into W's storage, followed by a
// completion marker. Case A: the callee (or init code) is a generated, effect-heavy program
// forced to fail; case B: it is an immediate REVERT(0,0) / INVALID. If the flag is 0 in both, the
// complete post-state (state root after blanking the code of the one account whose code differs
// by construction, log list, refund counter) of A must equal B's. STATICCALL with a callee
// that succeeds is compared with B = STOP the same way (without the warmth probes: reads may
// legitimately warm addresses), and a tracer attributes every state-change event to its frame:
// an effect below a static frame that survives is a direct refutation.
package main

import (
	"fmt"
	"math/big"
	"math/rand"
	"os"
	"sort"
	"strings"

	"github.com/ethereum/go-ethereum/common"
	"github.com/ethereum/go-ethereum/core/state"
	"github.com/ethereum/go-ethereum/core/tracing"
	"github.com/ethereum/go-ethereum/core/types"
	"github.com/ethereum/go-ethereum/crypto"
	"github.com/holiman/uint256"

	"verif/lib/evmenv"
	"verif/lib/proggen"
	"verif/lib/vrt"
)

func main() { vrt.Main("C29", run) }

var ruleSets = []string{"Homestead", "Byzantium", "Berlin", "London", "Cancun", "Prague", "Osaka", "Amsterdam"}

var (
	wAddr      = common.HexToAddress("0x0000000000000000000000000000000000290001")
	calleeAddr = common.HexToAddress("0x0000000000000000000000000000000000290002") // callee, or the creator V
	flagSlot   = uint64(0x2900)
	doneSlot   = uint64(0x29ff)
	probeBase  = uint64(0x3000)
)

const worldsPerRuleSet = 2

func buildWorld(r *vrt.Run, name string, k int) *evmenv.World {
	rng := r.Rand("world:"+name, k)
	f, _ := proggen.ParseFork(name)
	var addrs []common.Address
	for i := 0; i < 4; i++ {
		addrs = append(addrs, common.BytesToAddress([]byte{0xc2, 0x90, byte(k), byte(i + 1)}))
	}
	eoa := common.BytesToAddress([]byte{0xe0, 0x29, byte(k)})
	deleg := common.BytesToAddress([]byte{0xde, 0x29, byte(k)})
	var accts []evmenv.Account
	for i, a := range addrs {
		// helper contracts: they succeed with effects (so that "nested successful sub-calls that
		// are then reverted by the outer frame" occur)
		p := proggen.Gen(rng, proggen.Opts{Fork: name, Addrs: append(append([]common.Address{}, addrs[:i]...), eoa), MaxLen: 40 + rng.Intn(120),
			Mode: proggen.ModeStructured, NoUnbounded: true, Hostile: -1, NoEarlyExit: true, End: proggen.EndReturn,
			Weights: map[string]int{"storage": 3, "log": 3, "tstorage": 3, "selfcall": 0, "create": 0}})
		accts = append(accts, evmenv.Account{Addr: a, Code: p.Code, Balance: uint256.NewInt(uint64(500 * rng.Intn(3))),
			Storage: map[common.Hash]common.Hash{common.BigToHash(big.NewInt(int64(rng.Intn(6)))): common.BigToHash(big.NewInt(5))}})
	}
	accts = append(accts, evmenv.Account{Addr: eoa, Balance: uint256.NewInt(777)})
	if f >= proggen.Prague {
		accts = append(accts, evmenv.Account{Addr: deleg, Code: types.AddressToDelegation(addrs[0]), Balance: uint256.NewInt(5), Nonce: 1})
	}
	st := func() map[common.Hash]common.Hash {
		return map[common.Hash]common.Hash{common.BigToHash(big.NewInt(1)): common.BigToHash(big.NewInt(7)),
			common.BigToHash(big.NewInt(3)): common.BigToHash(big.NewInt(9)), common.BigToHash(big.NewInt(17)): common.BigToHash(big.NewInt(1))}
	}
	accts = append(accts, evmenv.Account{Addr: wAddr, Balance: uint256.NewInt(1_000_000), Nonce: 1, Storage: st()})
	accts = append(accts, evmenv.Account{Addr: calleeAddr, Balance: uint256.NewInt(50_000), Nonce: 1, Storage: st()})
	w := evmenv.NewWorld(name, accts)
	w.BlockGasLimit = 30_000_000
	return w
}

type tcase struct {
	rs      string
	w       *evmenv.World
	op      byte
	mode    string // fail | static-ok
	fail    string // failure kind of A
	codeA   []byte // callee code / init code
	codeB   []byte
	value   uint64
	salt    uint64
	collide bool
	input   []byte
	wGas    uint64
	cGas    uint64
	probe   proggen.Probe
}

var opNames = map[byte]string{proggen.CALL: "CALL", proggen.CALLCODE: "CALLCODE", proggen.DELEGATECALL: "DELEGATECALL",
	proggen.STATICCALL: "STATICCALL", proggen.CREATE: "CREATE", proggen.CREATE2: "CREATE2"}

func isCreate(op byte) bool { return op == proggen.CREATE || op == proggen.CREATE2 }

// push20s collects the PUSH20 immediates of a program (addresses it may touch).
func push20s(code []byte, into map[common.Address]bool) {
	for pc := 0; pc < len(code); pc++ {
		c := code[pc]
		if n := proggen.Info(c).Imm; n > 0 {
			if c == proggen.PUSH20 && pc+20 < len(code) {
				into[common.BytesToAddress(code[pc+1:pc+21])] = true
			}
			pc += n
		}
	}
}

func genCase(rng *rand.Rand, i int, worlds map[string][]*evmenv.World) *tcase {
	rs := ruleSets[i%len(ruleSets)]
	w := worlds[rs][rng.Intn(worldsPerRuleSet)]
	f := w.Fork
	c := &tcase{rs: rs, w: w, mode: "fail"}
	ops := []byte{proggen.CALL, proggen.CALLCODE, proggen.DELEGATECALL, proggen.CREATE}
	if f >= proggen.Byzantium {
		ops = append(ops, proggen.STATICCALL, proggen.STATICCALL)
	}
	if f >= proggen.Constantinople {
		ops = append(ops, proggen.CREATE2)
	}
	c.op = ops[rng.Intn(len(ops))]
	var others []common.Address
	for _, a := range w.Accounts {
		if a.Addr != wAddr && a.Addr != calleeAddr {
			others = append(others, a.Addr)
		}
	}
	c.cGas = 300_000
	c.wGas = 3_000_000
	if f >= proggen.Amsterdam {
		c.cGas, c.wGas = 700_000, 14_000_000
	}
	if isCreate(c.op) {
		c.cGas = 2 * c.cGas
	}
	if (c.op == proggen.CALL || c.op == proggen.CALLCODE || isCreate(c.op)) && rng.Intn(3) == 0 {
		c.value = uint64(1 + rng.Intn(500))
	}
	c.salt = uint64(rng.Intn(3))
	c.input = make([]byte, []int{0, 32, 64}[rng.Intn(3)])
	rng.Read(c.input)

	opts := proggen.Opts{Fork: rs, Addrs: others, MaxLen: 60 + rng.Intn(260), Mode: proggen.ModeStructured, NoUnbounded: true,
		NoEarlyExit: true, Hostile: -1,
		Weights: map[string]int{"storage": 3, "tstorage": 4, "log": 3, "call": 2, "create": 2, "arith": 1, "env": 1, "block": 1, "keccak": 1, "copy": 1}}
	revertOK := f >= proggen.Byzantium
	imm := func(kind string) []byte {
		if kind == "revert" && revertOK {
			return proggen.NewAsm().Push(0).Push(0).Op(proggen.REVERT).Bytes()
		}
		return []byte{proggen.INVALID}
	}
	if c.op == proggen.STATICCALL && rng.Intn(2) == 0 {
		// read-only callee that succeeds (its sub-calls into the helper contracts attempt writes and
		// fail individually)
		c.mode, c.fail = "static-ok", "none"
		opts.Weights = map[string]int{"storage": 0, "tstorage": 0, "log": 0, "create": 0, "selfcall": 0, "call": 3, "extcode": 2}
		opts.End = proggen.EndReturn
		c.codeA = proggen.Gen(rng, opts).Code
		c.codeB = []byte{proggen.STOP}
	} else {
		kinds := []string{"invalid", "oog", "underflow", "badjump", "selfdestruct-then-fail"}
		if revertOK {
			kinds = append(kinds, "revert", "revert", "revert")
		}
		if isCreate(c.op) {
			kinds = append(kinds, "oversize", "oversize", "codestore-oog")
			if f >= proggen.London {
				kinds = append(kinds, "ef-code", "ef-code")
			}
			if rng.Intn(8) == 0 {
				c.collide = true
			}
		}
		if c.op == proggen.STATICCALL {
			kinds = append(kinds, "static-violation", "static-violation")
		}
		c.fail = kinds[rng.Intn(len(kinds))]
		bkind := "invalid"
		switch c.fail {
		case "invalid":
			opts.End = proggen.EndInvalid
		case "oog":
			opts.End = proggen.EndOOG
		case "underflow":
			opts.End = proggen.EndStackUnderflow
		case "badjump":
			opts.End = proggen.EndBadJump
		case "revert":
			opts.End, bkind = proggen.EndRevert, "revert"
		case "selfdestruct-then-fail", "static-violation":
			// a final effect right before an INVALID (under STATICCALL the effect itself faults)
			t := proggen.NewAsm()
			switch rng.Intn(4) {
			case 0:
				t.Push(others[rng.Intn(len(others))]).Op(proggen.SELFDESTRUCT)
			case 1:
				t.Push(1).Push(2).Op(proggen.SSTORE)
			case 2:
				t.Push(0).Push(0).Op(proggen.LOG0)
			default:
				t.Push(0).Push(0).Push(0).Push(0).Push(1).Push(others[rng.Intn(len(others))]).Push(50000).Op(proggen.CALL, proggen.POP)
			}
			t.Op(proggen.INVALID)
			opts.End, opts.Tail = proggen.EndCustom, t.Bytes()
		case "oversize":
			// one byte above the limit; before Amsterdam the deposit (200 gas/byte) is charged before
			// the size check, so the creator needs the gas for it
			size := 0x6001
			if f >= proggen.Amsterdam {
				size = 0x10001
			} else {
				c.cGas, c.wGas = 6_000_000, 9_500_000
			}
			opts.End, opts.Tail = proggen.EndCustom, proggen.NewAsm().Push(size).Push(0).Op(proggen.RETURN).Bytes()
		case "codestore-oog":
			// 0x5fff bytes of code cost 4.9M gas to deposit: more than the creator ever has
			opts.End, opts.Tail = proggen.EndCustom, proggen.NewAsm().Push(0x5fff).Push(0).Op(proggen.RETURN).Bytes()
		case "ef-code":
			opts.End, opts.Tail = proggen.EndCustom, proggen.NewAsm().Push(0xef).Push(0).Op(proggen.MSTORE8).Push(1+rng.Intn(40)).Push(0).Op(proggen.RETURN).Bytes()
		}
		c.codeA = proggen.Gen(rng, opts).Code
		c.codeB = imm(bkind)
	}
	// probe set: every account of the world, the wrapper, the callee, precompile 1 and 4, and
	// every PUSH20 constant of the callee code
	am := map[common.Address]bool{wAddr: true, calleeAddr: true, common.BytesToAddress([]byte{1}): true, common.BytesToAddress([]byte{4}): true}
	for _, a := range others {
		am[a] = true
	}
	push20s(c.codeA, am)
	var addrs []common.Address
	for a := range am {
		addrs = append(addrs, a)
	}
	sort.Slice(addrs, func(i, j int) bool { return addrs[i].Hex() < addrs[j].Hex() })
	if len(addrs) > 14 {
		addrs = addrs[:14]
	}
	if c.mode == "static-ok" {
		addrs = nil
	}
	c.probe = proggen.Probe{Addrs: addrs, Slots: []uint64{0, 1, 2, 3, 4, 5, 16, 17, 18, 19, 0xfe}, TSlots: []uint64{0, 1, 2, 3, 4, 5}, Base: probeBase}
	return c
}

// codes returns the wrapper code and the code installed at calleeAddr for variant x (A or B).
func (c *tcase) codes(calleeCode []byte) (wcode, ccode []byte) {
	f := c.w.Fork
	suffix := append(proggen.ProbeSuffix(f, c.probe), proggen.NewAsm().Push(1).Push(doneSlot).Op(proggen.SSTORE).Bytes()...)
	var val *uint256.Int
	if c.value != 0 {
		val = uint256.NewInt(c.value)
	}
	if isCreate(c.op) {
		// inner creator V at calleeAddr (limited gas), outer wrapper CALLs it
		v := proggen.CreateWrapper(c.op, calleeCode, proggen.WrapOpts{Value: val, StoreFlag: true, FlagSlot: flagSlot, Salt: c.salt})
		w := proggen.Wrapper(proggen.CALL, calleeAddr, proggen.WrapOpts{Gas: uint256.NewInt(c.cGas), StoreFlag: true, FlagSlot: flagSlot + 1, Suffix: suffix})
		return w, v
	}
	w := proggen.Wrapper(c.op, calleeAddr, proggen.WrapOpts{Gas: uint256.NewInt(c.cGas), Value: val, ForwardCalldata: true, StoreFlag: true, FlagSlot: flagSlot, Suffix: suffix})
	return w, calleeCode
}

type outcome struct {
	res   evmenv.Result
	flag  uint64
	done  bool
	root  common.Hash // after blanking the code at calleeAddr
	sdb   *state.StateDB
	tr    *effTracer
	wcode []byte
	ccode []byte
}

func slotHash(s uint64) common.Hash { return common.BigToHash(new(big.Int).SetUint64(s)) }

func (c *tcase) execVariant(calleeCode []byte, traced bool) outcome {
	wcode, ccode := c.codes(calleeCode)
	sdb := c.w.NewState()
	sdb.SetCode(wAddr, wcode, tracing.CodeChangeUnspecified)
	sdb.SetCode(calleeAddr, ccode, tracing.CodeChangeUnspecified)
	if c.collide && isCreate(c.op) {
		// occupy the address the creation would use
		var at common.Address
		if c.op == proggen.CREATE {
			at = crypto.CreateAddress(calleeAddr, sdb.GetNonce(calleeAddr))
		} else {
			at = crypto.CreateAddress2(calleeAddr, slotHash(c.salt), crypto.Keccak256(calleeCode))
		}
		sdb.SetNonce(at, 1, tracing.NonceChangeUnspecified)
		sdb.SetCode(at, []byte{proggen.STOP}, tracing.CodeChangeUnspecified)
	}
	o := outcome{sdb: sdb, wcode: wcode, ccode: ccode}
	if traced {
		o.tr = newEffTracer()
		o.res = c.w.CallEVMHooked(sdb, wAddr, c.input, c.wGas, nil, o.tr.hooks())
	} else {
		o.res = c.w.CallEVM(sdb, wAddr, c.input, c.wGas, nil, nil, nil)
	}
	if o.res.Panic != nil {
		return o
	}
	flagAt := wAddr
	if isCreate(c.op) {
		flagAt = calleeAddr
	}
	o.flag = sdb.GetState(flagAt, slotHash(flagSlot)).Big().Uint64()
	o.done = sdb.GetState(wAddr, slotHash(doneSlot)) != (common.Hash{})
	if isCreate(c.op) && sdb.GetState(wAddr, slotHash(flagSlot+1)) == (common.Hash{}) {
		// the creator frame itself failed (typically: out of gas after a halting init code burnt
		// 63/64 of it): the frame structure differs from the reference variant, not a pair
		o.done = false
	}
	// the one difference by construction: the code at calleeAddr (and, with a forced collision under
	// CREATE2, the occupied address which depends on the init code hash)
	sdb.SetCode(calleeAddr, nil, tracing.CodeChangeUnspecified)
	if c.collide && c.op == proggen.CREATE2 {
		at := crypto.CreateAddress2(calleeAddr, slotHash(c.salt), crypto.Keccak256(calleeCode))
		sdb.SetCode(at, nil, tracing.CodeChangeUnspecified)
		sdb.SetNonce(at, 0, tracing.NonceChangeUnspecified)
	}
	o.root = sdb.IntermediateRoot(c.w.Rules())
	return o
}

func (c *tcase) witness() map[string]any {
	return map[string]any{"ruleset": c.rs, "op": opNames[c.op], "mode": c.mode, "failure_kind": c.fail, "callee_A": vrt.Hex(c.codeA), "callee_B": vrt.Hex(c.codeB),
		"value": c.value, "salt": c.salt, "forced_collision": c.collide, "input": vrt.Hex(c.input), "wrapper_gas": c.wGas, "callee_gas": c.cGas,
		"prestate_root": c.w.Root().Hex(), "wrapper_at": wAddr.Hex(), "callee_or_creator_at": calleeAddr.Hex()}
}

// effTracer attributes state-change events to frames.
type effTracer struct {
	static  []bool // per open frame
	pending []eff  // effects seen inside static frames, waiting for the outcome of their frames
	effects map[string]int
	viol    []string
	frames  int
	failed  int // frames below the wrapper that failed
	maxD    int
}

type eff struct {
	kind  string
	depth int
}

func newEffTracer() *effTracer { return &effTracer{effects: map[string]int{}} }

func (t *effTracer) effect(kind string) {
	d := len(t.static) - 1
	if d < 1 {
		return // the wrapper's own writes
	}
	t.effects[kind]++
	if t.static[d] {
		t.pending = append(t.pending, eff{kind, d})
	}
}

func (t *effTracer) hooks() *tracing.Hooks {
	return &tracing.Hooks{
		OnEnter: func(depth int, typ byte, from, to common.Address, input []byte, gas uint64, value *big.Int) {
			st := typ == proggen.STATICCALL || (len(t.static) > 0 && t.static[len(t.static)-1])
			t.static = append(t.static, st)
			t.frames++
			if depth > t.maxD {
				t.maxD = depth
			}
		},
		OnExit: func(depth int, output []byte, gasUsed uint64, err error, reverted bool) {
			d := len(t.static) - 1
			if d < 0 {
				return
			}
			isStatic := t.static[d]
			parentStatic := d > 0 && t.static[d-1]
			t.static = t.static[:d]
			if err != nil || reverted {
				if d >= 1 {
					t.failed++
				}
				// everything below is rolled back
				k := t.pending[:0]
				for _, e := range t.pending {
					if e.depth < d {
						k = append(k, e)
					}
				}
				t.pending = k
				return
			}
			if isStatic && !parentStatic {
				for _, e := range t.pending {
					if e.depth >= d {
						t.viol = append(t.viol, e.kind)
					}
				}
				t.pending = nil
			}
		},
		OnStorageChange: func(addr common.Address, slot common.Hash, prev, new common.Hash) { t.effect("storage") },
		OnBalanceChange: func(addr common.Address, prev, new *big.Int, reason tracing.BalanceChangeReason) {
			if reason == tracing.BalanceChangeTouchAccount || prev.Cmp(new) == 0 {
				return
			}
			t.effect("balance")
		},
		OnNonceChange: func(addr common.Address, prev, new uint64) { t.effect("nonce") },
		OnCodeChange: func(addr common.Address, prevCodeHash common.Hash, prevCode []byte, codeHash common.Hash, code []byte) {
			t.effect("code")
		},
		OnLog: func(l *types.Log) { t.effect("log") },
		OnOpcode: func(pc uint64, op byte, gas, cost uint64, scope tracing.OpContext, rData []byte, depth int, err error) {
			if err == nil && op == proggen.TSTORE {
				t.effect("tstore")
			}
		},
	}
}

func run(r *vrt.Run) {
	r.Rule("pair (A,B) = (rule set of Homestead/Byzantium/Berlin/London/Cancun/Prague/Osaka/Amsterdam, op of CALL/CALLCODE/DELEGATECALL/STATICCALL/CREATE/CREATE2, failure kind of A: revert/invalid/oog/underflow/badjump/effect-then-invalid/static-violation and for creations oversize/0xEF/code-store-oog/address collision, or a succeeding read-only STATICCALL callee; callee body from proggen heavy in SSTORE/TSTORE/LOG/value calls into effectful helper contracts/CREATE). non-trivial signature = (rule set, op, failure kind, sorted set of effect kinds attempted below the wrapper in A, nested failed frames yes/no)")
	worlds := map[string][]*evmenv.World{}
	for _, rs := range ruleSets {
		for k := 0; k < worldsPerRuleSet; k++ {
			worlds[rs] = append(worlds[rs], buildWorld(r, rs, k))
		}
	}
	n := r.N(6000, 400_000)
	if v := os.Getenv("C29_N"); v != "" {
		fmt.Sscan(v, &n)
	}
	vrt.Par(n, 0, func(i int) {
		rng := r.Rand("pair", i)
		c := genCase(rng, i, worlds)
		r.Case("pair %d rs=%s op=%s mode=%s fail=%s value=%d collide=%v A=%x B=%x input=%x", i, c.rs, opNames[c.op], c.mode, c.fail, c.value, c.collide, c.codeA, c.codeB, c.input)
		a := c.execVariant(c.codeA, true)
		b := c.execVariant(c.codeB, false)
		w := c.witness()
		for _, o := range []outcome{a, b} {
			if o.res.Panic != nil {
				r.Violation("panic:"+vrt.PanicSite(o.res.Stack), fmt.Sprintf("panic: %v\n%s", o.res.Panic, trunc(o.res.Stack, 2000)), w)
				return
			}
		}
		// direct refutation: an effect below a static frame survived
		for _, k := range a.tr.viol {
			r.Violation("static-frame-effect:"+k, fmt.Sprintf("%s event below a static frame whose enclosing frames all succeeded (op %s, rule set %s)", k, opNames[c.op], c.rs), w)
		}
		var kinds []string
		for k, v := range a.tr.effects {
			kinds = append(kinds, k)
			r.Count("effects_attempted_below_wrapper:"+k, v)
		}
		sort.Strings(kinds)
		r.Count("frames_failed_below_wrapper", a.tr.failed)
		usable := a.res.Err == nil && b.res.Err == nil && a.done && b.done
		wantFlag := uint64(0)
		if c.mode == "static-ok" {
			wantFlag = 1
		}
		switch {
		case !usable:
			r.Count("pairs_unusable_wrapper_did_not_complete", 1)
			r.Eval("")
			return
		case b.flag != wantFlag:
			r.Violation("harness:B-flag", fmt.Sprintf("reference variant B ended with flag %d, want %d", b.flag, wantFlag), w)
			return
		case a.flag != wantFlag:
			// the generated callee did not end the intended way (e.g. failed earlier in static-ok
			// mode, or the creation succeeded): not a pair
			r.Count("pairs_skipped_A_flag_"+fmt.Sprint(a.flag), 1)
			r.Eval("")
			return
		}
		r.Count("pairs_judged:"+c.mode, 1)
		r.Count("pairs_judged_op:"+opNames[c.op], 1)
		r.Count("pairs_judged_kind:"+c.fail, 1)
		if c.collide {
			r.Count("pairs_forced_collision", 1)
		}
		if a.root != b.root {
			diff := diffStates(c, a.sdb, b.sdb)
			w["diff"] = diff
			r.Violation(fmt.Sprintf("post-state:%s:%s:%s", opNames[c.op], c.mode, diffClass(diff)), fmt.Sprintf("post-states differ (rule set %s, A fails by %s): %s", c.rs, c.fail, trunc(strings.Join(diff, "; "), 900)), w)
		}
		if la, lb := evmenv.LogsDigest(a.res.Logs), evmenv.LogsDigest(b.res.Logs); la != lb || len(a.res.Logs) != len(b.res.Logs) {
			r.Violation(fmt.Sprintf("logs:%s:%s", opNames[c.op], c.mode), fmt.Sprintf("A leaves %d logs, B %d (rule set %s, A fails by %s)", len(a.res.Logs), len(b.res.Logs), c.rs, c.fail), w)
		}
		if a.res.Refund != b.res.Refund {
			r.Violation(fmt.Sprintf("refund-counter:%s:%s", opNames[c.op], c.mode), fmt.Sprintf("refund counter A=%d B=%d (rule set %s, A fails by %s)", a.res.Refund, b.res.Refund, c.rs, c.fail), w)
		}
		nested := "flat"
		if a.tr.failed > 1 || a.tr.maxD >= 2 {
			nested = "nested"
		}
		r.Eval(fmt.Sprintf("%s/%s/%s/%s/%s", c.rs, opNames[c.op], c.fail, strings.Join(kinds, "+"), nested))
		if r.WantSample() && i%211 == 0 {
			s := c.witness()
			s["effects_in_A"], s["root"] = a.tr.effects, a.root.Hex()
			r.Sample(s)
		}
	})
	r.Require("pairs_judged:fail", 1500)
	r.Require("pairs_judged:static-ok", 60)
	for _, k := range []string{"storage", "log", "balance", "tstore", "nonce"} {
		r.Require("effects_attempted_below_wrapper:"+k, 100)
	}
	for _, op := range []string{"CALL", "CALLCODE", "DELEGATECALL", "STATICCALL", "CREATE", "CREATE2"} {
		r.Require("pairs_judged_op:"+op, 100)
	}
	r.Require("pairs_judged_kind:oversize", 10)
	r.Require("pairs_judged_kind:revert", 100)
	r.Assume("state equality = equality of go-ethereum's state root after blanking the code of the single account whose code differs by construction, plus log list and refund counter; warmth and transient storage are observed through the probe suffix (stored into the wrapper's storage)")
	r.Assume("gas price is 0, so the sender balance does not depend on gas use; the refund counter is compared directly")
	r.Assume("refevm comparison (<= Osaka) not wired in (refevm is built elsewhere)")
}

// diffStates describes where two post-states differ, over the known accounts and slots.
func diffStates(c *tcase, a, b *state.StateDB) []string {
	var out []string
	addrs := []common.Address{wAddr, calleeAddr, evmenv.Origin, evmenv.Coinbase}
	for _, ac := range c.w.Accounts {
		addrs = append(addrs, ac.Addr)
	}
	addrs = append(addrs, c.probe.Addrs...)
	seen := map[common.Address]bool{}
	n := c.probe.NumSlots(c.w.Fork)
	for _, ad := range addrs {
		if seen[ad] {
			continue
		}
		seen[ad] = true
		if a.Exist(ad) != b.Exist(ad) {
			out = append(out, fmt.Sprintf("exist(%s)", ad.Hex()))
			continue
		}
		if a.GetBalance(ad).Cmp(b.GetBalance(ad)) != 0 {
			out = append(out, fmt.Sprintf("balance(%s) A=%s B=%s", ad.Hex(), a.GetBalance(ad), b.GetBalance(ad)))
		}
		if a.GetNonce(ad) != b.GetNonce(ad) {
			out = append(out, fmt.Sprintf("nonce(%s) A=%d B=%d", ad.Hex(), a.GetNonce(ad), b.GetNonce(ad)))
		}
		if a.GetCodeHash(ad) != b.GetCodeHash(ad) {
			out = append(out, fmt.Sprintf("code(%s)", ad.Hex()))
		}
		slots := []uint64{0, 1, 2, 3, 4, 5, 16, 17, 18, 19, 0xfe, flagSlot, flagSlot + 1, doneSlot}
		if ad == wAddr {
			for i := 0; i < n; i++ {
				slots = append(slots, probeBase+uint64(i))
			}
		}
		for _, s := range slots {
			if va, vb := a.GetState(ad, slotHash(s)), b.GetState(ad, slotHash(s)); va != vb {
				what := "storage"
				if ad == wAddr && s >= probeBase {
					what = "probe" + probeName(c, int(s-probeBase))
				}
				out = append(out, fmt.Sprintf("%s(%s)[%#x] A=%s B=%s", what, ad.Hex(), s, va.Big(), vb.Big()))
			}
		}
	}
	if len(out) == 0 {
		out = append(out, "roots differ outside the known accounts/slots")
	}
	return out
}

// probeName names the i-th probe result slot.
func probeName(c *tcase, i int) string {
	na := len(c.probe.Addrs)
	switch {
	case i < 2*na:
		if i%2 == 0 {
			return fmt.Sprintf(":warmth-balance:%s", c.probe.Addrs[i/2].Hex())
		}
		return fmt.Sprintf(":warmth-extcodesize:%s", c.probe.Addrs[i/2].Hex())
	case i < 2*na+2*len(c.probe.Slots):
		j := i - 2*na
		if j%2 == 0 {
			return fmt.Sprintf(":warmth-slot:%#x", c.probe.Slots[j/2])
		}
		return fmt.Sprintf(":value-slot:%#x", c.probe.Slots[j/2])
	}
	j := i - 2*na - 2*len(c.probe.Slots)
	if c.w.Fork >= proggen.Cancun && j < len(c.probe.TSlots) {
		return fmt.Sprintf(":transient:%#x", c.probe.TSlots[j])
	}
	return ":selfbalance"
}

// diffClass gives the fingerprint class of a difference list.
func diffClass(d []string) string {
	cls := map[string]bool{}
	for _, s := range d {
		k := s
		if i := strings.IndexAny(s, "(:"); i > 0 {
			k = s[:i]
		}
		if strings.HasPrefix(s, "probe:") {
			parts := strings.SplitN(s, ":", 3)
			k = "probe-" + strings.SplitN(parts[1], "(", 2)[0]
		}
		cls[k] = true
	}
	var ks []string
	for k := range cls {
		ks = append(ks, k)
	}
	sort.Strings(ks)
	if len(ks) > 3 {
		ks = ks[:3]
	}
	return strings.Join(ks, "+")
}

func trunc(s string, n int) string {
	if len(s) > n {
		return s[:n] + "…"
	}
	return s
}
