package main

// Close-and-reopen check: for a subset of histories the key-value store is a pebble
// database under scratch. At the end of the case the database is rolled back once more
// (if a recoverable root exists), journaled, closed, and reopened in a child process
// (log.Crit during reopening would kill only the child), which compares what it finds with
// an expectation file written by the parent.

import (
	"bytes"
	"encoding/json"
	"fmt"
	"math/rand"
	"os"
	"path/filepath"
	"strings"
	"time"

	"github.com/ethereum/go-ethereum/common"
	"github.com/ethereum/go-ethereum/common/hexutil"
	"github.com/ethereum/go-ethereum/core/rawdb"
	"github.com/ethereum/go-ethereum/ethdb"
	"github.com/ethereum/go-ethereum/ethdb/pebble"
	"github.com/ethereum/go-ethereum/log"
	"github.com/ethereum/go-ethereum/triedb/pathdb"

	"verif/lib/refmpt"
	"verif/lib/statehist"
	"verif/lib/vrt"
)

func init() { vrt.RegisterChild("reopen", reopenChild) }

type expectation struct {
	Cfg          config                        `json:"cfg"`
	Root         common.Hash                   `json:"root"`     // head (journaled) state: reads are checked here
	DiskRoot     common.Hash                   `json:"diskRoot"` // root of the disk layer
	Layers       int                           `json:"layers"`   // layers in the tree
	ID           int                           `json:"id"`
	BufLayers    int                           `json:"bufLayers"`
	Accounts     map[common.Hash]hexutil.Bytes `json:"accounts"`
	Slots        map[string]hexutil.Bytes      `json:"slots"` // "acct/slot"
	AccountNodes map[string]hexutil.Bytes      `json:"accountNodes"`
	StorageNodes map[string]hexutil.Bytes      `json:"storageNodes"` // "owner/pathhex"
	AbsentAccts  []common.Hash                 `json:"absentAccounts"`
	AbsentSlots  []string                      `json:"absentSlots"`
	OtherRoots   []common.Hash                 `json:"otherRoots"` // must not be available
	Corrupt      bool                          `json:"corrupt"`    // self-test: expectation deliberately wrong
}

func openPebble(dir string) (ethdb.Database, error) {
	kv, err := pebble.New(filepath.Join(dir, "kv"), 16, 16, "", false)
	if err != nil {
		return nil, err
	}
	return rawdb.Open(kv, rawdb.OpenOptions{Ancient: filepath.Join(dir, "ancient")})
}

func pathConfig(cfg config) *pathdb.Config {
	return &pathdb.Config{
		WriteBufferSize: cfg.Buffer, NoAsyncFlush: !cfg.Async, NoAsyncGeneration: true,
		TrieCleanSize: cfg.Clean, StateCleanSize: cfg.Clean,
		StateHistory: cfg.StateHist, TrienodeHistory: cfg.TrieHist,
	}
}

// reopenCheck is called at the end of a pebble-backed case. It closes the database itself.
func (d *dut) reopenCheck(rng *rand.Rand, corrupt bool) {
	rec := d.checkRecoverable()
	if d.bad {
		return
	}
	if len(rec) > 0 {
		t := rec[rng.Intn(len(rec))]
		if _, ok := d.recoverTo(t, rng); !ok {
			return
		}
		d.r.Count("reopen_after_recover", 1)
	} else if !d.commitHead() {
		return
	}
	// half of the time new diff layers (and write-buffer content) are journaled as well
	if rng.Intn(2) == 0 {
		if !d.extend(1+rng.Intn(4), rng) {
			return
		}
		d.r.Count("reopen_with_journaled_diff_layers", 1)
	}
	st := d.head()
	sh := d.shape()
	if err := d.db.Journal(st.Root); err != nil {
		d.viol("reopen:journal-failed", err.Error(), nil)
		return
	}
	d.db.Close()
	d.disk.Close()
	d.closed = true

	exp := expectation{Cfg: d.cfg, Root: st.Root, DiskRoot: d.chain[d.diskIdx].Root, Layers: sh.layers, ID: d.diskIdx, BufLayers: sh.bufLayers, Corrupt: corrupt,
		Accounts: map[common.Hash]hexutil.Bytes{}, Slots: map[string]hexutil.Bytes{}, AccountNodes: map[string]hexutil.Bytes{}, StorageNodes: map[string]hexutil.Bytes{}}
	for k, v := range st.Accounts {
		exp.Accounts[k] = v
	}
	for a, m := range st.Storages {
		for k, v := range m {
			exp.Slots[a.Hex()+"/"+k.Hex()] = v
		}
	}
	for p, v := range st.AccountNodes {
		exp.AccountNodes[fmt.Sprintf("%x", p)] = v
	}
	for o, m := range st.StorageNodes {
		for p, v := range m {
			exp.StorageNodes[o.Hex()+"/"+fmt.Sprintf("%x", p)] = v
		}
	}
	for _, k := range d.h.TouchedAccounts() {
		if st.Account(k) == nil {
			exp.AbsentAccts = append(exp.AbsentAccts, k)
		}
	}
	for _, k := range d.h.TouchedSlots() {
		if st.Storage(k.Addr, k.Slot) == nil {
			exp.AbsentSlots = append(exp.AbsentSlots, k.Addr.Hex()+"/"+k.Slot.Hex())
		}
	}
	for _, o := range d.abandoned[max(0, len(d.abandoned)-6):] {
		exp.OtherRoots = append(exp.OtherRoots, o.Root)
	}
	if corrupt {
		exp.Accounts[common.Hash{0xc0, 0xff, 0xee}] = hexutil.Bytes{0xc4, 0x01, 0x80, 0x80, 0x80} // an account that does not exist
	}
	b, _ := json.Marshal(exp)
	file := filepath.Join(d.dir, "expect.json")
	if err := os.WriteFile(file, b, 0o644); err != nil {
		d.r.Inconclusive("cannot write expectation: %v", err)
		return
	}
	cr := d.r.Child("reopen", []string{"C17_REOPEN_DIR=" + d.dir, "GOMAXPROCS=2"}, 120*time.Second)
	if cr.TimedOut {
		d.r.Inconclusive("reopen child timed out")
		return
	}
	found := false
	for _, line := range strings.Split(string(cr.Output), "\n") {
		if strings.HasPrefix(line, "VIOL ") {
			parts := strings.SplitN(line[5:], " ", 2)
			msg := ""
			if len(parts) > 1 {
				msg = parts[1]
			}
			found = true
			if corrupt {
				continue
			}
			d.viol("reopen:"+parts[0], "after Recover/Journal/Close the reopened database: "+msg, nil)
		}
	}
	switch {
	case corrupt && !found:
		d.r.Inconclusive("reopen self-test: a corrupted expectation was not noticed by the child")
	case corrupt:
		d.r.Count("reopen_selftest_detected", 1)
	case cr.Exit != 0 && !found:
		d.viol("reopen:child-died", fmt.Sprintf("reopening the database failed (exit %d %s): %s", cr.Exit, cr.Signal, tailStr(string(cr.Output), 1500)), nil)
	case !found:
		d.r.Count("reopen_checks_ok", 1)
		if sh.bufLayers == 0 && st.Root == exp.DiskRoot {
			d.r.Count("reopen_raw_compared", 1)
		}
	}
}

func tailStr(s string, n int) string {
	if len(s) > n {
		return s[len(s)-n:]
	}
	return s
}

// reopenChild runs in the child process.
func reopenChild(r *vrt.Run) {
	log.SetDefault(log.NewLogger(log.DiscardHandler()))
	dir := os.Getenv("C17_REOPEN_DIR")
	viol := func(fp, f string, a ...any) { fmt.Printf("VIOL %s %s\n", fp, fmt.Sprintf(f, a...)) }
	b, err := os.ReadFile(filepath.Join(dir, "expect.json"))
	if err != nil {
		fmt.Println("cannot read expectation:", err)
		os.Exit(4)
	}
	var exp expectation
	if err := json.Unmarshal(b, &exp); err != nil {
		fmt.Println("cannot parse expectation:", err)
		os.Exit(4)
	}
	disk, err := openPebble(dir)
	if err != nil {
		viol("open-failed", "%v", err)
		return
	}
	db := pathdb.New(disk, pathConfig(exp.Cfg), false) // log.Crit here ends the child with exit 1
	defer func() { db.Close(); disk.Close() }()

	base, layers := db.VerifLayerTreeShape()
	if base != exp.DiskRoot || len(layers) != exp.Layers {
		viol("tree", "disk layer %x with %d layers, want disk layer %x (id %d) and %d layers", base, len(layers), exp.DiskRoot, exp.ID, exp.Layers)
		return
	}
	buf := 0
	for _, l := range layers {
		if l.Disk {
			buf = int(l.BufferLayers)
		}
	}
	if buf != exp.BufLayers {
		viol("buffer", "reloaded write buffer aggregates %d transitions, %d were journaled", buf, exp.BufLayers)
	}
	if pid := int(rawdb.ReadPersistentStateID(disk)); pid+buf != exp.ID {
		viol("persistent-id", "persistent state id %d + %d journaled buffer transitions != %d", pid, buf, exp.ID)
	}
	if _, last, err := db.HistoryRange(); err == nil && int(last) != exp.ID {
		viol("history-head", "newest state history %d, disk layer id %d", last, exp.ID)
	}
	for _, o := range exp.OtherRoots {
		if _, err := db.StateReader(o); err == nil {
			viol("abandoned-root-readable", "root %x of an abandoned fork is readable", o)
		}
	}
	sr, err := db.StateReader(exp.Root)
	if err != nil {
		viol("state-unavailable", "%v", err)
		return
	}
	nr, _ := db.NodeReader(exp.Root)
	ar := sr.(acctReader)
	for k, want := range exp.Accounts {
		if got, err := ar.AccountRLP(k); err != nil || !bytes.Equal(got, want) {
			viol("account", "account %x: got %x err %v want %x", k, got, err, []byte(want))
			return
		}
	}
	for _, k := range exp.AbsentAccts {
		if got, err := ar.AccountRLP(k); err != nil || len(got) != 0 {
			viol("account", "account %x must be absent: got %x err %v", k, got, err)
			return
		}
	}
	split := func(s string) (common.Hash, string) {
		i := strings.Index(s, "/")
		return common.HexToHash(s[:i]), s[i+1:]
	}
	for k, want := range exp.Slots {
		a, s := split(k)
		if got, err := sr.Storage(a, common.HexToHash(s)); err != nil || !bytes.Equal(got, want) {
			viol("storage", "slot %s: got %x err %v want %x", k, got, err, []byte(want))
			return
		}
	}
	for _, k := range exp.AbsentSlots {
		a, s := split(k)
		if got, err := sr.Storage(a, common.HexToHash(s)); err != nil || len(got) != 0 {
			viol("storage", "slot %s must be absent: got %x err %v", k, got, err)
			return
		}
	}
	model := &statehist.State{Accounts: map[common.Hash][]byte{}, Storages: map[common.Hash]map[common.Hash][]byte{},
		AccountNodes: map[string][]byte{}, StorageNodes: map[common.Hash]map[string][]byte{}}
	for k, v := range exp.Accounts {
		model.Accounts[k] = v
	}
	for k, v := range exp.Slots {
		a, s := split(k)
		if model.Storages[a] == nil {
			model.Storages[a] = map[common.Hash][]byte{}
		}
		model.Storages[a][common.HexToHash(s)] = v
	}
	for p, v := range exp.AccountNodes {
		path := common.FromHex(p)
		model.AccountNodes[string(path)] = v
		if got, err := nr.Node(common.Hash{}, path, common.BytesToHash(refmpt.Keccak(v))); err != nil || !bytes.Equal(got, v) {
			viol("node", "account trie node %s: err %v", p, err)
			return
		}
	}
	for k, v := range exp.StorageNodes {
		o, p := split(k)
		path := common.FromHex(p)
		if model.StorageNodes[o] == nil {
			model.StorageNodes[o] = map[string][]byte{}
		}
		model.StorageNodes[o][string(path)] = v
		if got, err := nr.Node(o, path, common.BytesToHash(refmpt.Keccak(v))); err != nil || !bytes.Equal(got, v) {
			viol("node", "storage trie node %s: err %v", k, err)
			return
		}
	}
	if buf == 0 && exp.Root == exp.DiskRoot {
		if diff := model.DiffRaw(statehist.ScanRaw(disk), 6); len(diff) > 0 {
			viol("raw", "raw key spaces differ from the state: %v", diff)
		}
	}
	fmt.Println("reopen ok")
}
