// Reproducer for the C17 known finding (no oracle code): with a trienode history that is
// retained for fewer blocks than the state history, Recover() of a root that Recoverable()
// accepts rolls the state back and then fails while truncating the trienode freezer.
//
//	go run -tags verif ./p/c17/repro        (no verif accessor is actually needed)
//
// The chain is built with go-ethereum's own trie package: 12 blocks, each changing the nonce of
// one account; every block is committed to disk so that both histories are written.
package main

import (
	"fmt"
	"os"

	"github.com/ethereum/go-ethereum/common"
	"github.com/ethereum/go-ethereum/core/rawdb"
	"github.com/ethereum/go-ethereum/core/types"
	"github.com/ethereum/go-ethereum/crypto"
	"github.com/ethereum/go-ethereum/log"
	"github.com/ethereum/go-ethereum/rlp"
	"github.com/ethereum/go-ethereum/trie"
	"github.com/ethereum/go-ethereum/trie/trienode"
	"github.com/ethereum/go-ethereum/triedb/pathdb"
	"github.com/holiman/uint256"
)

func main() {
	log.SetDefault(log.NewLogger(log.DiscardHandler()))
	dir, _ := os.MkdirTemp("/dev/shm", "c17-repro-")
	defer os.RemoveAll(dir)
	disk, err := rawdb.Open(rawdb.NewMemoryDatabase(), rawdb.OpenOptions{Ancient: dir})
	if err != nil {
		panic(err)
	}
	db := pathdb.New(disk, &pathdb.Config{
		StateHistory:    0, // keep all state histories
		TrienodeHistory: 2, // keep the trienode histories of the last 2 blocks
		NoAsyncFlush:    true, NoAsyncGeneration: true, WriteBufferSize: 1 << 20,
	}, false)
	defer db.Close()

	addr := common.HexToAddress("0xa500000000000000000000000000000000000001")
	addrHash := crypto.Keccak256Hash(addr.Bytes())
	roots := []common.Hash{types.EmptyRootHash}
	var prevSlim []byte
	for blk := uint64(1); blk <= 12; blk++ {
		parent := roots[len(roots)-1]
		acct := types.StateAccount{Nonce: blk, Balance: uint256.NewInt(1000), Root: types.EmptyRootHash, CodeHash: types.EmptyCodeHash.Bytes()}
		full, _ := rlp.EncodeToBytes(&acct)
		tr, err := trie.New(trie.StateTrieID(parent), db)
		if err != nil {
			panic(err)
		}
		tr.MustUpdate(addrHash.Bytes(), full)
		root, set := tr.Commit(false)
		slim := types.SlimAccountRLP(acct)
		states := pathdb.NewStateSetWithOrigin(
			map[common.Hash][]byte{addrHash: slim}, nil,
			map[common.Address][]byte{addr: prevSlim}, nil, false)
		if err := db.Update(root, parent, blk, trienode.NewWithNodeSet(set), states); err != nil {
			panic(err)
		}
		if err := db.Commit(root, false); err != nil {
			panic(err)
		}
		roots = append(roots, root)
		prevSlim = slim
	}
	first, last, _ := db.HistoryRange()
	fmt.Printf("12 blocks committed; state histories for blocks %d..%d; persistent state id %d\n", first, last, rawdb.ReadPersistentStateID(disk))
	for _, id := range []int{11, 10, 9, 3} {
		fmt.Printf("Recoverable(root of block %2d) = %v\n", id, db.Recoverable(roots[id]))
	}
	target := 3
	fmt.Printf("\nRecover(root of block %d) -> %v\n\n", target, db.Recover(roots[target]))

	_, e1 := db.StateReader(roots[12])
	_, e2 := db.StateReader(roots[target])
	fmt.Printf("after the failed Recover: StateReader(block 12) err = %v\n", e1)
	fmt.Printf("                          StateReader(block %d) err = %v\n", target, e2)
	first, last, herr := db.HistoryRange()
	fmt.Printf("                          state histories now %d..%d (err %v); persistent state id %d\n", first, last, herr, rawdb.ReadPersistentStateID(disk))
	fmt.Printf("                          account nonce in flat state on disk: ")
	if acc, err := types.FullAccount(rawdb.ReadAccountSnapshot(disk, addrHash)); err == nil {
		fmt.Printf("%d\n", acc.Nonce)
	} else {
		fmt.Printf("unreadable (%v)\n", err)
	}
}
