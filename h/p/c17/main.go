// C17: state rollback restores exactly the historical state.
//
// A real triedb/pathdb.Database with state histories is fed linear chains of statehist
// transitions (not produced by trie.Commit / StateDB). Recoverable/Recover are judged
// against statehist: reads, raw key spaces, persistent state id, history range, and
// "non-recoverable => error and nothing changes".
package main

import (
	"bytes"
	"fmt"
	"math/rand"
	"os"
	"path/filepath"
	"strings"
	"sync/atomic"

	"github.com/ethereum/go-ethereum/common"
	"github.com/ethereum/go-ethereum/core/rawdb"
	"github.com/ethereum/go-ethereum/ethdb"
	"github.com/ethereum/go-ethereum/log"
	"github.com/ethereum/go-ethereum/triedb/pathdb"

	"verif/lib/refmpt"
	"verif/lib/statehist"
	"verif/lib/vrt"
)

func main() { vrt.Main("C17", run) }

type config struct {
	Max       int    `json:"maxDiffLayers"`
	Buffer    int    `json:"writeBuffer"`
	Async     bool   `json:"asyncFlush"`
	Clean     int    `json:"cleanCache"`
	TrieHist  int64  `json:"trienodeHistory"`
	StateHist uint64 `json:"stateHistory"`
	RawKeys   bool   `json:"rawKeys"`
	Accounts  int    `json:"accounts"`
	Slots     int    `json:"slots"`
	Rounds    int    `json:"rounds"`
	BigValues bool   `json:"bigValues"`
}

type dut struct {
	r    *vrt.Run
	cfg  config
	dir  string
	disk ethdb.Database
	db   *pathdb.Database
	h    *statehist.History

	chain     []*statehist.State // canonical chain, chain[i] has state id i
	abandoned []*statehist.State // states of abandoned forks
	diskIdx   int                // index of the disk layer's state in chain
	oplog     []string
	bad       bool
	closed    bool // closed by the reopen check
}

// fpTrienodeTail: Recover of a root reported recoverable fails AFTER the state has been
// reverted, because the trienode history (shorter retention than the state history) has its
// tail above the target and truncateFromHead(trienode) rejects the target. Observed on the
// unchanged tree; reported as a suspected genuine defect. The case ends there (the database
// is half rolled back) but the run continues.
const fpTrienodeTail = "recover-failed:trienode-history-tail-above-target"

var otherViolations atomic.Int64

// trienodeTailAbove recognises exactly the known failure: truncateFromHead of the trienode
// freezer rejected the rollback target because it lies below the freezer's tail.
func trienodeTailAbove(err error, target int) bool {
	msg := err.Error()
	i := strings.Index(msg, "history head truncation out of range, trienode, tail: ")
	if i < 0 {
		return false
	}
	var tailID, headID, tgt int
	if n, _ := fmt.Sscanf(msg[i:], "history head truncation out of range, trienode, tail: %d, head: %d, target: %d", &tailID, &headID, &tgt); n != 3 {
		return false
	}
	return tgt == target && tgt < tailID
}

func (d *dut) head() *statehist.State { return d.chain[len(d.chain)-1] }

func (d *dut) viol(fp, msg string, extra map[string]any) {
	w := map[string]any{"config": d.cfg, "ops": tail(d.oplog, 40), "chain_len": len(d.chain), "disk_id": d.diskIdx}
	for k, v := range extra {
		w[k] = v
	}
	if fp != fpTrienodeTail {
		d.bad = true
		otherViolations.Add(1)
	}
	d.r.Violation(fp, msg, w)
}

func tail(l []string, n int) []string {
	if len(l) > n {
		return append([]string{fmt.Sprintf("... %d earlier ops", len(l)-n)}, l[len(l)-n:]...)
	}
	return l
}

func (d *dut) logf(f string, a ...any) { d.oplog = append(d.oplog, fmt.Sprintf(f, a...)) }

// extend appends n fresh transitions to the canonical chain (block number = state id).
func (d *dut) extend(n int, rng *rand.Rand) bool {
	for i := 0; i < n; i++ {
		e := d.h.DeriveFresh(d.head(), rng)
		id := len(d.chain)
		if err := d.db.Update(e.Child.Root, e.Parent.Root, uint64(id), e.NodeSet(), e.StateSet(d.cfg.RawKeys)); err != nil {
			d.viol("update-failed", fmt.Sprintf("Update to state id %d failed: %v", id, err), nil)
			return false
		}
		d.chain = append(d.chain, e.Child)
		if id-d.diskIdx > d.cfg.Max {
			d.diskIdx = id - d.cfg.Max
		}
	}
	d.logf("extend %d -> head id %d, disk id %d", n, len(d.chain)-1, d.diskIdx)
	return true
}

func (d *dut) commitHead() bool {
	if len(d.chain)-1 == d.diskIdx {
		return true
	}
	if err := d.db.Commit(d.head().Root, false); err != nil {
		d.viol("commit-failed", fmt.Sprintf("Commit(head id %d) failed: %v", len(d.chain)-1, err), nil)
		return false
	}
	d.diskIdx = len(d.chain) - 1
	d.logf("commit head id %d", d.diskIdx)
	return true
}

type shape struct {
	base      common.Hash
	layers    int
	bufLayers int
	frozen    bool
}

func (d *dut) shape() shape {
	base, ls := d.db.VerifLayerTreeShape()
	s := shape{base: base, layers: len(ls)}
	for _, l := range ls {
		if l.Disk {
			s.bufLayers, s.frozen = int(l.BufferLayers), l.Frozen
		}
	}
	return s
}

// histRange returns the ids of the first and last stored state history (block number ==
// state id by construction), ok=false when no history is stored.
func (d *dut) histRange() (first, last int, ok bool) {
	f, l, err := d.db.HistoryRange()
	if err != nil {
		return 0, 0, false
	}
	return int(f), int(l), true
}

// checkRecoverable judges Recoverable() for every known root and returns the ids of the
// canonical roots that must be (and are reported) recoverable.
func (d *dut) checkRecoverable() []int {
	first, last, ok := d.histRange()
	var rec []int
	if ok && last != d.diskIdx {
		d.viol("history-head", fmt.Sprintf("newest state history has id %d but the disk layer has id %d", last, d.diskIdx), nil)
	}
	for i, st := range d.chain {
		want := ok && i >= first-1 && i <= d.diskIdx-1
		got := d.db.Recoverable(st.Root)
		d.r.Count("recoverable_checks", 1)
		if got != want {
			fp := "recoverable:false-negative"
			if got {
				fp = "recoverable:false-positive"
			}
			d.viol(fp, fmt.Sprintf("Recoverable(canonical id %d) = %v, want %v (histories %d..%d ok=%v, disk id %d)", i, got, want, first, last, ok, d.diskIdx), nil)
		}
		if want {
			rec = append(rec, i)
		}
	}
	for _, st := range d.abandoned {
		d.r.Count("recoverable_checks_abandoned", 1)
		if d.db.Recoverable(st.Root) {
			d.viol("recoverable:abandoned-fork", fmt.Sprintf("Recoverable(root of abandoned fork, model state %d) = true", st.ID), nil)
		}
	}
	if d.db.Recoverable(common.Hash{0xde, 0xad}) {
		d.viol("recoverable:unknown-root", "Recoverable(unknown root) = true", nil)
	}
	return rec
}

type acctReader interface {
	AccountRLP(hash common.Hash) ([]byte, error)
}

// readAll compares every touched key at root st through the database readers.
func (d *dut) readAll(st *statehist.State, ctx string) {
	sr, err := d.db.StateReader(st.Root)
	if err != nil {
		d.viol(""+ctx+":state-unavailable", fmt.Sprintf("StateReader(state id of root %x): %v", st.Root, err), nil)
		return
	}
	nr, err := d.db.NodeReader(st.Root)
	if err != nil {
		d.viol(""+ctx+":state-unavailable", fmt.Sprintf("NodeReader: %v", err), nil)
		return
	}
	n := 0
	for _, k := range d.h.TouchedAccounts() {
		got, err := sr.(acctReader).AccountRLP(k)
		n++
		if err != nil || !bytes.Equal(got, st.Account(k)) {
			d.viol(""+ctx+":account", fmt.Sprintf("account %x: got %x err %v want %x", k, got, err, st.Account(k)), nil)
			return
		}
	}
	for _, k := range d.h.TouchedSlots() {
		got, err := sr.Storage(k.Addr, k.Slot)
		n++
		if err != nil || !bytes.Equal(got, st.Storage(k.Addr, k.Slot)) {
			d.viol(""+ctx+":storage", fmt.Sprintf("slot %x/%x: got %x err %v want %x", k.Addr, k.Slot, got, err, st.Storage(k.Addr, k.Slot)), nil)
			return
		}
	}
	for _, k := range d.h.TouchedNodes() {
		want := st.Node(k.Owner, []byte(k.Path))
		n++
		if want == nil {
			hs := d.h.NodeHashesAt(k)
			if got, err := nr.Node(k.Owner, []byte(k.Path), hs[0]); err == nil && len(got) > 0 {
				d.viol(""+ctx+":node-absent", fmt.Sprintf("node %x/%x must not exist but a blob was returned", k.Owner, k.Path), nil)
				return
			}
			continue
		}
		got, err := nr.Node(k.Owner, []byte(k.Path), common.BytesToHash(refmpt.Keccak(want)))
		if err != nil || !bytes.Equal(got, want) {
			d.viol(""+ctx+":node", fmt.Sprintf("node %x/%x: err %v", k.Owner, k.Path, err), nil)
			return
		}
	}
	d.r.Count("reads_checked", n)
}

// digest summarises everything Recover may touch: raw key spaces, persistent id, tree
// shape, history range.
func (d *dut) digest() string {
	d.db.VerifWaitFlush()
	s := d.shape()
	f, l, ok := d.histRange()
	return fmt.Sprintf("%s|pid%d|base%x|layers%d|buf%d|hist%d-%d-%v", statehist.ScanRaw(d.disk).Digest(), rawdb.ReadPersistentStateID(d.disk), s.base, s.layers, s.bufLayers, f, l, ok)
}

// tryUnrecoverable calls Recover on roots that are not recoverable.
func (d *dut) tryUnrecoverable(rng *rand.Rand, first int, histOK bool) {
	type cand struct {
		kind string
		root common.Hash
	}
	var cs []cand
	cs = append(cs, cand{"unknown", common.Hash{0xbe, 0xef, byte(rng.Intn(256))}})
	cs = append(cs, cand{"disk-root", d.chain[d.diskIdx].Root})
	if len(d.chain)-1 > d.diskIdx {
		cs = append(cs, cand{"live-diff", d.chain[d.diskIdx+1+rng.Intn(len(d.chain)-1-d.diskIdx)].Root})
	}
	if len(d.abandoned) > 0 {
		cs = append(cs, cand{"abandoned", d.abandoned[rng.Intn(len(d.abandoned))].Root})
	}
	if histOK && first-2 >= 0 {
		cs = append(cs, cand{"pruned", d.chain[rng.Intn(first-1)].Root})
	}
	if !histOK && d.diskIdx > 0 {
		cs = append(cs, cand{"no-history", d.chain[rng.Intn(d.diskIdx)].Root})
	}
	for _, c := range cs {
		if d.db.Recoverable(c.root) {
			continue // reported by checkRecoverable
		}
		before := d.digest()
		var err error
		if d.r.Guard("recover-unrecoverable", map[string]any{"config": d.cfg, "ops": tail(d.oplog, 40), "kind": c.kind}, func() { err = d.db.Recover(c.root) }) {
			d.bad = true
			otherViolations.Add(1)
			return
		}
		after := d.digest()
		d.r.Count("unrecoverable_attempts_"+c.kind, 1)
		d.logf("recover(%s) -> %v", c.kind, err)
		if err == nil {
			d.viol("unrecoverable-accepted:"+c.kind, fmt.Sprintf("Recover(%s root %x) returned nil although Recoverable is false", c.kind, c.root), nil)
			return
		}
		if before != after {
			d.viol("unrecoverable-changed-state:"+c.kind, fmt.Sprintf("Recover(%s root) failed (%v) but changed the database: %s -> %s", c.kind, err, before, after), nil)
			return
		}
	}
}

// recoverTo rolls back to canonical id t (reported recoverable) and judges the result.
func (d *dut) recoverTo(t int, rng *rand.Rand) (where string, ok bool) {
	before := d.shape()
	depth := d.diskIdx - t
	switch {
	case depth < before.bufLayers:
		where = "in-buffer"
	case depth == before.bufLayers:
		where = "buffer-boundary"
	default:
		where = "disk"
	}
	if before.frozen {
		where += "+frozen"
	}
	target := d.chain[t]
	d.logf("recover to id %d (disk id %d, head id %d, buffer layers %d, frozen %v)", t, d.diskIdx, len(d.chain)-1, before.bufLayers, before.frozen)
	var err error
	if d.r.Guard("recover", map[string]any{"config": d.cfg, "ops": tail(d.oplog, 40), "target_id": t}, func() { err = d.db.Recover(target.Root) }) {
		d.bad = true
		otherViolations.Add(1)
		return where, false
	}
	if err != nil {
		if d.cfg.TrieHist > 0 && trienodeTailAbove(err, t) {
			d.r.Count("recover_failed_trienode_tail", 1)
			d.viol(fpTrienodeTail, fmt.Sprintf("Recover(canonical id %d, reported recoverable, depth %d, stateHistory=%d trienodeHistory=%d) failed after reverting: %v", t, depth, d.cfg.StateHist, d.cfg.TrieHist, err), nil)
			return where, false
		}
		d.viol("recover-failed", fmt.Sprintf("Recover(canonical id %d, reported recoverable, %s) failed: %v", t, where, err), nil)
		return where, false
	}
	d.abandoned = append(d.abandoned, d.chain[t+1:]...)
	d.chain = d.chain[:t+1]
	d.diskIdx = t
	// 1. the tree consists of the single disk layer of the target
	after := d.shape()
	if after.base != target.Root || after.layers != 1 {
		d.viol("after-recover:tree", fmt.Sprintf("after Recover the tree has base %x (%d layers), want single layer %x", after.base, after.layers, target.Root), nil)
		return where, false
	}
	for _, st := range d.abandoned[max(0, len(d.abandoned)-8):] {
		if _, err := d.db.StateReader(st.Root); err == nil {
			d.viol("after-recover:newer-state-readable", fmt.Sprintf("state %d of the reverted suffix is still readable", st.ID), nil)
			return where, false
		}
	}
	// 2. reads at the target
	d.readAll(target, "after-recover")
	if d.bad {
		return where, false
	}
	// 3. persistent state id: persisted id + transitions still in the write buffer == id(R)
	if err := d.db.VerifWaitFlush(); err != nil {
		d.viol("after-recover:flush-error", fmt.Sprintf("background flush failed: %v", err), nil)
		return where, false
	}
	pid := int(rawdb.ReadPersistentStateID(d.disk))
	if pid+after.bufLayers != t {
		d.viol("after-recover:persistent-id", fmt.Sprintf("persistent state id %d + %d buffered transitions != target id %d", pid, after.bufLayers, t), nil)
		return where, false
	}
	// 4. histories newer than the target are gone
	first, last, hok := d.histRange()
	if hok && last != t {
		d.viol("after-recover:history-head", fmt.Sprintf("newest state history is %d after Recover to id %d (first %d)", last, t, first), nil)
		return where, false
	}
	// 5. raw key spaces when nothing is buffered
	if after.bufLayers == 0 {
		d.r.Count("raw_compare_direct", 1)
		if diff := target.DiffRaw(statehist.ScanRaw(d.disk), 6); len(diff) > 0 {
			d.viol("after-recover:raw", fmt.Sprintf("raw flat/node key spaces differ from the target state right after Recover: %v", diff), nil)
			return where, false
		}
		if pid != t {
			d.viol("after-recover:persistent-id", fmt.Sprintf("persistent state id %d != target id %d with empty buffer", pid, t), nil)
			return where, false
		}
	}
	return where, true
}

// rawAfterCommit extends the chain by a new fork and commits, then the raw key spaces must be
// exactly the new head's state (any key left behind by the rollback shows up here).
func (d *dut) rawAfterCommit(n int, rng *rand.Rand) bool {
	if !d.extend(n, rng) || !d.commitHead() {
		return false
	}
	if err := d.db.VerifWaitFlush(); err != nil {
		d.viol("flush-error", fmt.Sprintf("background flush failed: %v", err), nil)
		return false
	}
	d.r.Count("raw_compare_after_commit", 1)
	if diff := d.head().DiffRaw(statehist.ScanRaw(d.disk), 6); len(diff) > 0 {
		d.viol("raw-after-commit", fmt.Sprintf("after rollback, a new fork of %d transitions and Commit the raw key spaces differ from the head state: %v", n, diff), nil)
		return false
	}
	if pid := int(rawdb.ReadPersistentStateID(d.disk)); pid != len(d.chain)-1 {
		d.viol("persistent-id-after-commit", fmt.Sprintf("persistent state id %d, head id %d", pid, len(d.chain)-1), nil)
		return false
	}
	d.readAll(d.head(), "after-commit")
	return !d.bad
}

func historyCase(r *vrt.Run, idx, maxLayers int) {
	rng := r.Rand("hist", idx)
	cfg := config{Max: maxLayers}
	cfg.Buffer = []int{0, 512, 1024, 2048, 4096, 8192, 16384}[rng.Intn(7)]
	cfg.Async = rng.Intn(2) == 0
	cfg.Clean = []int{0, 32 * 1024}[rng.Intn(2)]
	cfg.TrieHist = []int64{-1, -1, 0, 8}[rng.Intn(4)]
	cfg.StateHist = []uint64{0, 8, 64, 3}[rng.Intn(4)]
	cfg.RawKeys = rng.Intn(4) != 0
	cfg.Accounts = 3 + rng.Intn(20)
	cfg.Slots = 2 + rng.Intn(8)
	cfg.BigValues = rng.Intn(3) == 0
	cfg.Rounds = 2 + rng.Intn(5)
	if r.Race() {
		cfg.Rounds = 2 + rng.Intn(2)
	}
	r.Case("history %d cfg=%+v", idx, cfg)
	d := &dut{r: r, cfg: cfg, dir: filepath.Join(r.Scratch, fmt.Sprintf("hist-%d", idx))}
	os.RemoveAll(d.dir)
	// every 5th history lives on a pebble store and ends with a close-and-reopen check
	persistent := idx%5 == 2 && !r.Race()
	var disk ethdb.Database
	var err error
	if persistent {
		disk, err = openPebble(d.dir)
	} else {
		disk, err = rawdb.Open(rawdb.NewMemoryDatabase(), rawdb.OpenOptions{Ancient: d.dir})
	}
	if err != nil {
		r.Inconclusive("cannot open database: %v", err)
		return
	}
	d.disk = disk
	d.db = pathdb.New(disk, pathConfig(cfg), false)
	defer func() {
		if !d.closed {
			d.db.Close()
			disk.Close()
		}
		os.RemoveAll(d.dir)
	}()
	d.h = statehist.New(statehist.Config{Accounts: cfg.Accounts, Slots: cfg.Slots, BigValues: cfg.BigValues}, rng)
	d.chain = []*statehist.State{d.h.Genesis()}

	recovers, wheres := 0, map[string]bool{}
	depthClasses := map[int]bool{}
	ended := false // case ended early by the known trienode-tail failure
rounds:
	for round := 0; round < cfg.Rounds && !d.bad; round++ {
		n := 3 + rng.Intn(40)
		if rng.Intn(5) == 0 {
			n = 40 + rng.Intn(80)
		}
		if r.Race() && n > 30 {
			n = 30
		}
		if !d.extend(n, rng) {
			return
		}
		if rng.Intn(5) < 2 {
			if !d.commitHead() {
				return
			}
		}
		// several rollbacks per round: to a random recoverable depth, then extend a little
		for k := 0; k < 1+rng.Intn(3) && !d.bad; k++ {
			rec := d.checkRecoverable()
			if d.bad {
				return
			}
			first, _, hok := d.histRange()
			d.tryUnrecoverable(rng, first, hok)
			if d.bad {
				return
			}
			if len(rec) == 0 {
				r.Count("rounds_without_recoverable_state", 1)
				break
			}
			// target choice: depth 1, the window edge, or anything in between
			var t int
			switch rng.Intn(5) {
			case 0:
				t = rec[len(rec)-1]
			case 1:
				t = rec[0]
			default:
				t = rec[rng.Intn(len(rec))]
			}
			depth := d.diskIdx - t
			where, ok := d.recoverTo(t, rng)
			if !ok {
				if d.bad {
					return
				}
				ended = true
				break rounds
			}
			recovers++
			wheres[where] = true
			depthClasses[cls(depth)] = true
			r.Count("recovers", 1)
			r.Count("recover_"+strings.TrimSuffix(where, "+frozen"), 1)
			if strings.HasSuffix(where, "+frozen") {
				r.Count("recover_with_frozen_buffer", 1)
			}
			if depth == 1 {
				r.Count("recover_depth1", 1)
			}
			if t == rec[0] {
				r.Count("recover_window_edge", 1)
			}
			// after a rollback: state must again be judged correctly, then a different fork
			d.checkRecoverable()
			if d.bad {
				return
			}
			if rng.Intn(3) != 0 {
				if !d.rawAfterCommit(1+rng.Intn(6), rng) {
					return
				}
			} else if !d.extend(1+rng.Intn(2*cfg.Max+2), rng) {
				return
			}
		}
	}
	if d.bad {
		return
	}
	if persistent && !ended {
		d.reopenCheck(rng, idx%50 == 7)
		if d.bad {
			return
		}
	}
	ws := ""
	for _, w := range []string{"in-buffer", "buffer-boundary", "disk", "in-buffer+frozen", "buffer-boundary+frozen", "disk+frozen"} {
		if wheres[w] {
			ws += w + ","
		}
	}
	r.Eval(fmt.Sprintf("max%d/limit%d/buf%d/async%v/th%d/raw%v/recovers%d/where:%s/depths%v", cfg.Max, cfg.StateHist, cfg.Buffer, cfg.Async, cfg.TrieHist, cfg.RawKeys, cls(recovers), ws, len(depthClasses)))
	r.Count("histories", 1)
	if ended {
		r.Count("histories_ended_by_trienode_tail_failure", 1)
	}
	r.Count("transitions", len(d.h.States))
	if r.WantSample() {
		r.Sample(map[string]any{"config": cfg, "ops_tail": tail(d.oplog, 14), "states": len(d.h.States)})
	}
}

func cls(n int) int {
	switch {
	case n <= 1:
		return n
	case n <= 3:
		return 2
	case n <= 8:
		return 3
	case n <= 32:
		return 4
	}
	return 5
}

func run(r *vrt.Run) {
	log.SetDefault(log.NewLogger(log.DiscardHandler()))
	r.Rule("linear statehist chains (creation, deletion, destruct-recreate, storage churn) fed through Database.Update with block number = state id; per history random config (maxDiffLayers 1..16, write buffer 0..16KiB, sync/async flush, state history limit 0/3/8/64, trienode history off/full/8, raw or hashed storage keys); in every round: Recoverable judged for all canonical/abandoned/unknown roots against the window derived from HistoryRange and the disk layer id, Recover on non-recoverable roots (must fail, digest unchanged), Recover to a reported-recoverable target (depth 1, window edge, random), then reads/raw scan/persistent id/history head checks, then a different fork + Commit + raw scan. signature = (config, number of recovers class, where the reverted states lived, depth classes)")
	groups := []int{1, 2, 3, 5, 16}
	per := r.N(30, 1600)
	if r.Race() {
		per = r.N(8, 120)
	}
	idx := 0
	for _, m := range groups {
		pathdb.VerifSetMaxDiffLayers(m)
		base := idx
		vrt.Par(per, 0, func(i int) { historyCase(r, base+i, m) })
		idx += per
		if otherViolations.Load() > 0 {
			break
		}
	}
	pathdb.VerifSetMaxDiffLayers(128)
	if !r.Race() {
		r.Require("reopen_checks_ok", 10)
		r.Require("reopen_after_recover", 8)
	}
	r.Require("histories", 20)
	if r.Race() {
		// the race variant runs a quarter of the histories: the rare rollback classes are
		// obligations of the default variant; here they only have to occur at all
		r.Require("recovers", 50)
		r.Require("recover_in-buffer", 1)
		r.Require("recover_buffer-boundary", 1)
	} else {
		r.Require("recovers", 100)
		r.Require("recover_in-buffer", 5)
		r.Require("recover_buffer-boundary", 3)
	}
	r.Require("recover_disk", 20)
	r.Require("recover_depth1", 5)
	r.Require("recover_window_edge", 5)
	r.Require("raw_compare_direct", 10)
	r.Require("raw_compare_after_commit", 30)
	r.Require("unrecoverable_attempts_abandoned", 10)
	r.Require("unrecoverable_attempts_live-diff", 10)
	r.Assume("statehist/refmpt ground truth; block number passed to Update equals the state id so that HistoryRange() yields history ids")
	r.Assume("raw key spaces are compared directly after Recover only when the write buffer is empty; otherwise after extending with a new fork and Commit (forced flush)")
}
