package main

// The mutation machinery lives in verif/lib/rlpmut (shared with C02); these are local names.

import (
	"math/rand"

	"verif/lib/refrlp"
	"verif/lib/rlpmut"
)

type mutKind = rlpmut.Kind

const (
	mNone          = rlpmut.None
	mLongFormShort = rlpmut.LongFormShort
	mRandom        = rlpmut.Random
	nMut           = rlpmut.NumKinds
)

func countNodes(it *refrlp.Item) int            { return rlpmut.CountNodes(it) }
func header(base byte, n int, m mutKind) []byte { return rlpmut.Header(base, n, m) }
func mutate(rng *rand.Rand, enc []byte, it *refrlp.Item) ([]byte, mutKind) {
	return rlpmut.Mutate(rng, enc, it)
}
func randomString(rng *rand.Rand) []byte { return rlpmut.RandomString(rng) }
